import SqlObjVerif.Model.Fail
import SqlObjVerif.Model.PyInherit
import SqlObjVerif.Extracted.PyInherit
/-!
# C06 — `InheritableSQLObject._create` as TRANSLATED from the source, run against the `Fail` machinery

`createX` RUNS the PyInherit program `PyInh.Extracted.createProg` (with `create_loop0`, `create_loop1`) that
`vlib/extractors/pyinherit.py` translates from /repo's `sqlobject/inheritance/__init__.py` on every check run.
The world `FW` is the hand model's state `Fail.St` (tables, instances, cache registrations, sqlite_sequence,
lastrowid, the statement counter `n`, the statement `log`, the ghost counter `changes`) plus what `Fail` leaves out:
the `_parent` attribute of the instances under construction (`par`).  The interface INJECTS EXCEPTIONS: every call
that reaches the connection takes its outcome from `Fail.run sch inj` (the database error injected at the k-th
statement, `hit inj n`; the engine's own rejections, `exec`), so a call may raise any `Fail.Err`, including
`Err.interrupt` (a `BaseException` that is not an `Exception`), and leaves the statements it sent in `St.log`.
`Lemmas/FailInhX*.lean` prove that the translated method, run at ANY level of ANY class chain of ANY schema from ANY
state with ANY injection, ends with the error and in the state `Fail.run sch inj (Fail.createInh sch fuel levels …)`
ends with (`C06_translated_inhcreate_level_eq_model`: one level, the constructor of the parent class being a
parameter; `C06_translated_inhcreate_eq_model`: the translated method calling ITSELF through that constructor).

## Values
`.cls c` class number `c` of the schema; `.ref 7 c` the instance of class `c` under construction while its `_create`
runs (it has no id yet; the classes of a chain are pairwise distinct); `.inst 0 c i` that instance once its constructor
has returned it (id `i`); `.conn 0` the connection; `.name a j` the keyword of column `j` DECLARED BY class `a`
(so `hasattr(P, name)` is "`a` is `P` or an ancestor of `P`"; the keyword `childName` is `.str "childName"`, the
application does not pass it); `colObj a j` the column object; `.ref 0 0` = `sqlbuilder.NoDefault`.
A value handed to the ORM (`Fail.In`: rejected by `from_python` / accepted but rejected by `to_python` / accepted) is
the Python value `encIn v`; `decIn` reads it back (`decIn (encIn v) = v`).  Strings are their `Int` codes as
everywhere in `Fail` (`Val = Option Int`): `sqlmeta.childName` of class `c` is `.int (X.tagVal c)`.

## Exceptions
`excOf : Fail.Err → PyInh.Exc` is injective (`errOf (excOf e) = some e`): `typeError`, `attrError`, `integrity`,
`interrupt` have their own class (`baseOnly` for `interrupt`), the others are `Exception`s told apart by their
identity.  `except BaseException` (`ExcPat.baseException`) catches every one of them; the bare `raise` re-raises the
very exception caught.

## The assumed interface (the parameters of the interpreter) — every item is an ASSUMPTION
attributes:
* `self.sqlmeta.parentClass` : `(clsOf sch c).parent` (`None` for a root);  `self.sqlmeta.childName` : `.int (X.tagVal c)`;
* `self.sqlmeta.columnList` : the column objects `colObj c j`, `j < (clsOf sch c).cols.length` (the `childName`
  column is an ordinary column of `Fail`'s schema, index `X.tagCol c`);  `col._default` is `NoDefault` iff
  `X.nodefault a j` (a faithful instance has `X.nodefault a (X.tagCol a) = false`: `childName` has `default=None`, so
  its name is never read), `col.name` = `.name a j`, `col.foreignName` = `None`;
  the theorems assume `Required` (`Lemmas/FailInhXc.lean`): a column without default of a NON-ROOT level has its
  keyword (no "missing keyword"
  `TypeError` at child levels — `Fail.createInh` has none);
* `self._connection` : `.conn 0`; `conn.autoCommit` : `True`; `isinstance(conn, dbconnection.Transaction)` : `False` —
  the `Fail` model has NO transactions (C07/C08 cover them), so the clean-up branch is always taken for a child;
* `self._parent` : the world's `par c`; assigning it changes nothing in `Fail.St`; `self._parent.id` : the id of the
  instance the parent constructor returned;
* `hasattr(<class P>, <name a j>)` : `a ∈ ancs sch X.depth P` (`P` and its at most `X.depth - 1` ancestors; the
  theorems assume the chain is not longer than `X.depth`);
* `sqlbuilder.NoDefault` : `.ref 0 0`; no `while` loop occurs in `_create` (`fuel := 0`).
calls:
* `super(InheritableSQLObject, self)._create(id, **kw)` (= `SQLObject._create`), `kw` a dict value:
  - `id` is `None` (a root): `Fail.run sch inj (Fail.createProg sch c none false KW [] fun _ => .done)`;
    THAT THE TRANSLATED `SQLObject.__init__/_create/_SO_finishCreate` EQUAL `Fail.createProg` IS PROVED SEPARATELY
    (PyFail), here it is an interface assumption;
  - `id` is a number `pid` (a child level): `Fail.run sch inj (ownTree sch c pid KW)`, `ownTree` = exactly the tree
    `Fail.createInh` puts into the `guard` body: validate, `INSERT` with the parent's id, register, `SELECT`, reload;
  where `KW = X.complete c (kwList X c (entries of kw))`: the own-column keywords in dict order (`.name c j ↦ j`,
  `childName ↦ X.tagCol c`), completed by `X.complete` — ANY function; it stands for `SQLObject._create` appending the
  defaulted columns ("keywords, then defaulted columns", the order `Fail.createProg` documents);
  the call ends as that run ends: returns `None` / raises `excOf e`, world := the run's final `St`;
* `parentClass(kw=d, connection=conn)` : the constructor — the parameter `C : Construct` (level theorem: ANY function
  that ends as the model's creation of the parent chain ends; chain theorem: the translated `_create` itself run on a
  new instance `.ref 7 p` with `id=None, kw=d`, returning `.inst 0 p lastrowid`: the id of the new instance is
  `cursor.lastrowid` of its INSERT, which for a child level is the explicit id — `Fail.St.lastId`);
* `self._parent.destroySelf()` on `.inst 0 p pid` : `Fail.run sch inj (Fail.destroyProg sch X.fuel p pid <drops>)` — the
  hand model of the inheritable `destroySelf` (NOT the translated one: interface assumption), followed by
  `.mem (.drop a pid)` for `a` in `ancs sch X.depth p`: the destroyed parent instances are unreachable once the
  failed constructor is left; returns `None` / raises `excOf e`.
keyword dict: the leaf call gets ANY dict `es` (a list of `(key, value)` pairs, keys pairwise distinct); `dictOf`
keeps the entries whose key is a column of a class of the chain (when all are — `dictOf_full` in the lemma file — this
is `es` itself), level `c` of `Fail.createInh`'s `levels` gets `levelKw X c es tag`: the entries declared by `c`, in the
order of `es`, then (for a non-leaf level) the `childName` entry the level below appends, completed by `X.complete`.
-/
namespace SqlObjVerif.Fail.InhX
open SqlObjVerif.PyInh (Iface CallRes R Exc ExcCls vdGet vdHas vdSet)

/-- values of the embedding (`Fail.Val` is the model's column value) -/
abbrev PVal := PyInh.Val

/-! ### exceptions -/

def excOf : Err → Exc
  | .invalid => ⟨.exception, 0⟩
  | .typeError => ⟨.typeError, 0⟩
  | .attrError => ⟨.attributeError, 0⟩
  | .duplicate => ⟨.exception, 1⟩
  | .dbIntegrity => ⟨.exception, 2⟩
  | .operational => ⟨.exception, 3⟩
  | .interrupt => ⟨.baseOnly, 0⟩
  | .integrity => ⟨.integrity, 0⟩
  | .recursion => ⟨.exception, 4⟩

def allErrs : List Err :=
  [.invalid, .typeError, .attrError, .duplicate, .dbIntegrity, .operational, .interrupt, .integrity, .recursion]

def errOf (e : Exc) : Option Err := allErrs.find? fun x => excOf x == e

/-! ### the world -/

structure FW where
  st : St
  /-- the `_parent` attribute of the instance of class `c` under construction -/
  par : Nat → PVal

def FW.setPar (w : FW) (c : Nat) (v : PVal) : FW := { w with par := fun c' => if c' = c then v else w.par c' }
def FW.setSt (w : FW) (s : St) : FW := { w with st := s }

structure Ctx where
  sch : Schema
  inj : Option Inj
  /-- the fuel of the hand model's `destroyProg` -/
  fuel : Nat
  /-- a bound on the length of class chains -/
  depth : Nat
  /-- index of the `childName` column of a class -/
  tagCol : Nat → Nat
  /-- the `childName` string of a class (its code) -/
  tagVal : Nat → Int
  nodefault : Nat → Nat → Bool
  /-- `SQLObject._create` completing the keywords by the defaulted columns -/
  complete : Nat → List (Nat × In) → List (Nat × In)

def noDefault : PVal := .ref 0 0
def colObj (a j : Nat) : PVal := .pair (.ref 3 a) (.nat j)
def newInst (c : Nat) : PVal := .ref 7 c

def classOpt : Option Nat → PVal
  | some p => .cls p
  | none => .none

/-- the class and its ancestors, leaf first (at most `n` of them) -/
def ancs (sch : Schema) : Nat → Nat → List Nat
  | 0, _ => []
  | n + 1, c => c :: (match (clsOf sch c).parent with
    | some p => ancs sch n p
    | none => [])

/-- `self.sqlmeta.columnList` -/
def colList (X : Ctx) (c : Nat) : PVal :=
  PyInh.Val.ofList ((List.range (clsOf X.sch c).cols.length).map (colObj c))

/-! ### values handed to the ORM -/

def encIn : In → PVal
  | .ok none => .none
  | .ok (some v) => .int v
  | .bad => .ref 8 0
  | .bad2 none => .ref 9 0
  | .bad2 (some v) => .pair (.ref 9 0) (.int v)

def decIn : PVal → In
  | .none => .ok none
  | .int v => .ok (some v)
  | .ref 9 0 => .bad2 none
  | .pair (.ref 9 0) (.int v) => .bad2 (some v)
  | _ => .bad

/-! ### keyword dicts -/

def pairsOf (es : List (PVal × PVal)) : List PVal := es.map fun e => .pair e.1 e.2

def entriesOf : PVal → List (PVal × PVal)
  | .cons (.pair k v) t => (k, v) :: entriesOf t
  | _ => []

/-- the column of class `c` a keyword stands for -/
def keyCol (X : Ctx) (c : Nat) : PVal → Option Nat
  | .name a j => if a = c then some j else none
  | .str s => if s = "childName" then some (X.tagCol c) else none
  | _ => none

/-- what `SQLObject._create` of class `c` reads from its `**kw`, in dict order -/
def kwList (X : Ctx) (c : Nat) (es : List (PVal × PVal)) : List (Nat × In) :=
  es.filterMap fun e => (keyCol X c e.1).map fun j => (j, decIn e.2)

/-- the keyword names a column declared by one of the classes `L` -/
def keyIn (L : List Nat) : PVal → Bool
  | .name a _ => L.contains a
  | _ => false

/-- the `childName` entry the level below (class `d`) appends -/
def tagEntry (X : Ctx) : Option Nat → List (PVal × PVal)
  | none => []
  | some d => [(.str "childName", .int (X.tagVal d))]

/-- the `**kw` the `_create` of the first class of the chain `L` (leaf first) receives -/
def dictOf (X : Ctx) (L : List Nat) (es : List (PVal × PVal)) (tag : Option Nat) : PVal :=
  PyInh.Val.ofList (pairsOf (es.filter (fun e => keyIn L e.1) ++ tagEntry X tag))

/-- the keywords of level `c` in `Fail.createInh`'s terms -/
def levelKw (X : Ctx) (c : Nat) (es : List (PVal × PVal)) (tag : Option Nat) : List (Nat × In) :=
  X.complete c (kwList X c (es.filter (fun e => keyIn [c] e.1) ++ tagEntry X tag))

/-- the `levels` of `Fail.createInh` for the chain `L` (leaf first) and the leaf's dict `es` -/
def levelsOf (X : Ctx) : List Nat → List (PVal × PVal) → Option Nat → List (Nat × List (Nat × In))
  | [], _, _ => []
  | c :: rest, es, tag => (c, levelKw X c es tag) :: levelsOf X rest es (some c)

/-! ### the connection-level calls: the `Fail` machinery -/

/-- the level's own `SQLObject._create` with the parent's id: the body of `createInh`'s `guard` -/
def ownTree (sch : Schema) (c pid : Nat) (kw : List (Nat × In)) : Prog :=
  validates kw <| .stmt (.insert c (some pid) (valsOf (clsOf sch c).cols.length (asgOf kw))) <|
    .mem (.addInst c pid (valsOf (clsOf sch c).cols.length (asgOf kw))) <|
    .stmt (.select c) <| .mem (.reload c pid) .done

/-- the instances `a#pid`, `a ∈ L`, become unreachable -/
def dropsOf (L : List Nat) (pid : Nat) : Prog := L.foldr (fun a acc => .mem (.drop a pid) acc) .done

/-- how a call that is a `Fail.run` ends -/
def fromRun (w : FW) (r : St × Option Err) : CallRes FW :=
  match r.2 with
  | none => .ret (w.setSt r.1) .none
  | some e => .exc (w.setSt r.1) (excOf e)

def superCreate (X : Ctx) (c : Nat) (w : FW) (idv star : PVal) : CallRes FW :=
  match idv with
  | .none => fromRun w (run X.sch X.inj
      (Fail.createProg X.sch c none false (X.complete c (kwList X c (entriesOf star))) [] fun _ => .done) w.st)
  | .nat pid => fromRun w (run X.sch X.inj (ownTree X.sch c pid (X.complete c (kwList X c (entriesOf star)))) w.st)
  | _ => .stuck

def destroyCall (X : Ctx) (w : FW) (p pid : Nat) : CallRes FW :=
  fromRun w (run X.sch X.inj (destroyProg X.sch X.fuel p pid (dropsOf (ancs X.sch X.depth p) pid)) w.st)

/-! ### the interface -/

def xAttrOf (X : Ctx) (w : FW) (v : PVal) (path : List String) : R PVal :=
  match v with
  | .ref 7 c =>
    if path = ["_parent"] then .ok (w.par c)
    else if path = ["_parent", "id"] then
      (match w.par c with
       | .inst _ _ j => .ok (.nat j)
       | _ => .stuck)
    else if path = ["_connection"] then .ok (.conn 0)
    else if path = ["sqlmeta", "parentClass"] then .ok (classOpt (clsOf X.sch c).parent)
    else if path = ["sqlmeta", "childName"] then .ok (.int (X.tagVal c))
    else if path = ["sqlmeta", "columnList"] then .ok (colList X c)
    else .stuck
  | .conn _ => if path = ["autoCommit"] then .ok (.bool true) else .stuck
  | .pair (.ref 3 a) (.nat j) =>
    if path = ["_default"] then .ok (if X.nodefault a j then noDefault else .none)
    else if path = ["name"] then .ok (.name a j)
    else if path = ["foreignName"] then .ok .none
    else .stuck
  | _ => .stuck

def xSetAttrOf (w : FW) (v : PVal) (path : List String) (x : PVal) : Option FW :=
  match v with
  | .ref 7 c => if path = ["_parent"] then some (w.setPar c x) else none
  | _ => none

def xHasattr (X : Ctx) (v n : PVal) : Option Bool :=
  match v, n with
  | .cls p, .name a _ => some ((ancs X.sch X.depth p).contains a)
  | _, _ => none

def xIsinstance (v : PVal) (cls : String) : Option Bool :=
  match v with
  | .conn _ => if cls = "dbconnection.Transaction" then some false else none
  | _ => none

def kwGet (n : String) : List (String × PVal) → Option PVal
  | [] => none
  | (m, v) :: l => if m = n then some v else kwGet n l

/-- `super(InheritableSQLObject, self)`: the methods of `SQLObject` -/
def xSuper (X : Ctx) (self : PVal) (w : FW) (m : String) (args : List PVal) (kw : List (String × PVal)) (star : PVal) :
    CallRes FW :=
  match self with
  | .ref 7 c =>
    if m = "_create" ∧ kw = [] then
      (match args with
       | [idv] => superCreate X c w idv star
       | _ => .stuck)
    else .stuck
  | _ => .stuck

def xCall (X : Ctx) (w : FW) (recv : PVal) (m : String) (args : List PVal) (kw : List (String × PVal)) (star : PVal) :
    CallRes FW :=
  match recv with
  | .inst _ p pid => if m = "destroySelf" ∧ args = [] ∧ kw = [] ∧ star = .none then destroyCall X w p pid else .stuck
  | _ => .stuck

/-- `<cls p>(kw=d, connection=conn)` -/
abbrev Construct := FW → Nat → PVal → CallRes FW

def xCallFn (C : Construct) (w : FW) (f : PVal) (args : List PVal) (kw : List (String × PVal)) : CallRes FW :=
  match f, args with
  | .cls p, [] =>
    (match kwGet "kw" kw, kwGet "connection" kw, kw.length with
     | some d, some (.conn _), 2 => C w p d
     | _, _, _ => .stuck)
  | _, _ => .stuck

def xIface (X : Ctx) (C : Construct) (self : PVal) : Iface FW :=
  { self := self
    attrOf := xAttrOf X
    setAttrOf := xSetAttrOf
    hasattr := fun _ => xHasattr X
    global := fun n => if n = "sqlbuilder.NoDefault" then some noDefault else none
    isinstance := fun _ => xIsinstance
    call := xCall X
    callFn := xCallFn C
    super := xSuper X self
    fuel := fun _ => 0 }

/-! ### the translated method, run -/

/-- `<new instance of class c>._create(id, **kw)` -/
def createX (X : Ctx) (C : Construct) (w : FW) (c : Nat) (idv kw : PVal) : CallRes FW :=
  PyInh.run (xIface X C (newInst c)) PyInh.Extracted.createProg [idv, kw] PyInh.Extracted.create_nlocals w

/-- the constructor `cls(kw=d, connection=…)`: `_create(new instance, None, kw=d)`, returns the instance, whose id is
    the `lastrowid` of its INSERT -/
def constructOf (f : FW → Nat → PVal → PVal → CallRes FW) : Construct :=
  fun w p d =>
    match f w p .none (.cons (.pair (.str "kw") d) .nil) with
    | .ret w' _ => .ret w' (.inst 0 p w'.st.lastId)
    | r => r

/-- the translated `_create` calling itself through the constructor of the parent class (`n` bounds the depth) -/
def createN (X : Ctx) : Nat → FW → Nat → PVal → PVal → CallRes FW
  | 0 => fun _ _ _ _ => .stuck
  | n + 1 => fun w c idv kw => createX X (constructOf (createN X n)) w c idv kw

/-- what is compared with the hand model: the final `Fail.St` (all of it) and the error -/
def outOf : CallRes FW → Option (St × Option Err)
  | .ret w _ => some (w.st, none)
  | .exc w e => (errOf e).map fun x => (w.st, some x)
  | .stuck => none

end SqlObjVerif.Fail.InhX
