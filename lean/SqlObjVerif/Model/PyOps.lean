/-!
# PyOps — a deep embedding of the dict-manipulating fragment of `SelectResults.clone` / `__init__`

`vlib/extractors/selops.py` TRANSLATES `SelectResults.clone` and the statements of
`SelectResults.__init__` that mention the `ops` dict into `Block`s of this language on every run
(`Extracted/SelOps.lean`).  This file is the vocabulary and its reference semantics: Python dicts
live in a HEAP (address ↦ dict), so that aliasing is visible — two `SelectResults` objects whose
`self.ops` is the same address share every later write.  The point of the translation is the
theorem that `clone` never writes to an address that existed before the call.

Semantics stated construct by construct (CPython 3):
* `x = src.copy()` allocates a new dict with the same items;  `x.update(y)` writes y's items into x;
* `f(**x)` builds a NEW dict for the callee's `**ops` parameter (CPython always copies);
* `d[k] = e`, `del d[k]` (KeyError if absent), `d.pop(k)` (KeyError if absent), `d.get(k, dflt)`, `d[k]`
  (KeyError if absent), `k in d`;
* an expression / condition that mentions no ops dict is OPAQUE: its value is drawn from an oracle,
  and every theorem quantifies over all oracles.
-/
namespace SqlObjVerif.PyOps

inductive V where
  | int (i : Int)
  | pyNone
  | noDefault            -- the sentinel `sqlbuilder.NoDefault`
  | obj (n : Nat)        -- some other object
deriving Repr, DecidableEq

abbrev Dict := List (String × V)

def Dict.get? (d : Dict) (k : String) : Option V := d.lookup k
def Dict.del (d : Dict) (k : String) : Dict := d.filter (fun p => p.1 != k)
def Dict.set (d : Dict) (k : String) (v : V) : Dict := (k, v) :: Dict.del d k
def Dict.update (d e : Dict) : Dict := e.foldl (fun d p => Dict.set d p.1 p.2) d

/-- the heap of dict objects; `next` is the allocation pointer -/
structure Heap where
  cells : Nat → Option Dict
  next : Nat

def Heap.alloc (h : Heap) (d : Dict) : Heap × Nat :=
  ({ cells := fun q => if q = h.next then some d else h.cells q, next := h.next + 1 }, h.next)

def Heap.write (h : Heap) (a : Nat) (d : Dict) : Heap :=
  { h with cells := fun q => if q = a then some d else h.cells q }

/-- values of everything the translation does not look into -/
structure Orc where
  val : Nat → V          -- value of the n-th opaque expression
  cond : Nat → Bool      -- value of the n-th opaque condition
  truthy : Nat → Bool    -- truth value of the opaque object `obj n`

inductive E where
  | lit (v : V)
  | get (d k : String) (dflt : E)     -- `d.get(k, dflt)`
  | item (d k : String)               -- `d[k]`
  | loc (x : String)                  -- a value local set by `pop`
  | other (n : Nat)
deriving Repr

inductive C where
  | truthy (e : E)
  | isNone (e : E)
  | isNoDefault (e : E)
  | contains (k d : String)
  | not (c : C)
  | and (c d : C)
  | other (n : Nat)
deriving Repr

mutual
inductive Stmt where
  | copy (x src : String)             -- `x = src.copy()`
  | update (x y : String)             -- `x.update(y)`
  | setItem (d k : String) (e : E)    -- `d[k] = e`
  | delItem (d k : String)            -- `del d[k]`
  | pop (t d k : String)              -- `t = d.pop(k)`
  | assign (t : String) (e : E)       -- `t = e` (value local)
  | ite (c : C) (t e : Block)
  | assert (c : C)
  | bindSelfOps (d : String)          -- `self.ops = d`
  | construct (x : String)            -- `return self.__class__(…, **x)`
inductive Block where
  | nil
  | cons (s : Stmt) (rest : Block)
end

structure St where
  heap : Heap
  dvars : List (String × Nat)         -- dict-valued names ↦ address
  locs : List (String × V)
  selfOps : Option Nat

inductive Res where
  | ok (s : St)
  | ret (h : Heap) (addr : Nat)       -- `return <new object>`; addr = the address of its `self.ops`
  | err                               -- any exception

def St.dict? (s : St) (x : String) : Option (Nat × Dict) :=
  match s.dvars.lookup x with
  | some a => (s.heap.cells a).map (fun d => (a, d))
  | none => none

def pyTruthy (o : Orc) : V → Bool
  | .int i => i != 0
  | .pyNone => false
  | .noDefault => true
  | .obj n => o.truthy n

def E.eval (o : Orc) (s : St) : E → Option V
  | .lit v => some v
  | .get d k dflt => match s.dict? d with
    | some (_, dd) => match dd.get? k with
      | some v => some v
      | none => dflt.eval o s
    | none => none
  | .item d k => match s.dict? d with
    | some (_, dd) => dd.get? k
    | none => none
  | .loc x => s.locs.lookup x
  | .other n => some (o.val n)

def C.eval (o : Orc) (s : St) : C → Option Bool
  | .truthy e => (e.eval o s).map (pyTruthy o)
  | .isNone e => (e.eval o s).map (· == .pyNone)
  | .isNoDefault e => (e.eval o s).map (· == .noDefault)
  | .contains k d => (s.dict? d).map (fun p => (p.2.get? k).isSome)
  | .not c => (c.eval o s).map (!·)
  | .and c d => match c.eval o s with
    | some true => d.eval o s
    | some false => some false
    | none => none
  | .other n => some (o.cond n)

/-- `ctor h a` = what constructing a new object from the kwargs dict at address `a` does:
    the new heap and the address the new object's `self.ops` is bound to -/
abbrev Ctor := Heap → Nat → Option (Heap × Nat)

mutual
def Stmt.exec (o : Orc) (ctor : Ctor) (s : St) : Stmt → Res
  | .copy x src => match s.dict? src with
    | some (_, d) =>
      let (h, a) := s.heap.alloc d
      .ok { s with heap := h, dvars := (x, a) :: s.dvars }
    | none => .err
  | .update x y => match s.dict? x, s.dict? y with
    | some (a, d), some (_, e) => .ok { s with heap := s.heap.write a (d.update e) }
    | _, _ => .err
  | .setItem d k e => match e.eval o s, s.dict? d with
    | some v, some (a, dd) => .ok { s with heap := s.heap.write a (dd.set k v) }
    | _, _ => .err
  | .delItem d k => match s.dict? d with
    | some (a, dd) => if (dd.get? k).isSome then .ok { s with heap := s.heap.write a (dd.del k) } else .err
    | none => .err
  | .pop t d k => match s.dict? d with
    | some (a, dd) => match dd.get? k with
      | some v => .ok { s with heap := s.heap.write a (dd.del k), locs := (t, v) :: s.locs }
      | none => .err
    | none => .err
  | .assign t e => match e.eval o s with
    | some v => .ok { s with locs := (t, v) :: s.locs }
    | none => .err
  | .ite c t e => match c.eval o s with
    | some true => t.exec o ctor s
    | some false => e.exec o ctor s
    | none => .err
  | .assert c => match c.eval o s with
    | some true => .ok s
    | _ => .err
  | .bindSelfOps d => match s.dvars.lookup d with
    | some a => .ok { s with selfOps := some a }
    | none => .err
  | .construct x => match s.dict? x with
    | some (_, d) =>
      let (h, a) := s.heap.alloc d          -- the callee's `**ops` is always a new dict
      match ctor h a with
      | some (h', r) => .ret h' r
      | none => .err
    | none => .err
def Block.exec (o : Orc) (ctor : Ctor) (s : St) : Block → Res
  | .nil => .ok s
  | .cons st rest => match st.exec o ctor s with
    | .ok s' => rest.exec o ctor s'
    | r => r
end

/-- `SelectResults.__init__` with its `**ops` parameter bound to the dict at `a` -/
def runInit (o : Orc) (init : Block) : Ctor := fun h a =>
  match init.exec o (fun _ _ => none) { heap := h, dvars := [("ops", a)], locs := [], selfOps := none } with
  | .ok s => s.selfOps.map (fun r => (s.heap, r))
  | _ => none

/-- `self.clone(**newOps)` for the object whose `self.ops` is the dict at address `p` -/
def runClone (o : Orc) (init clone : Block) (h : Heap) (p : Nat) (newOps : Dict) : Option (Heap × Nat) :=
  let (h1, q) := h.alloc newOps             -- the `**newOps` parameter of clone
  match clone.exec o (runInit o init) { heap := h1, dvars := [("self.ops", p), ("newOps", q)], locs := [], selfOps := none } with
  | .ret h' r => some (h', r)
  | _ => none

def ofOpt : Option Int → V
  | none => .pyNone
  | some i => .int i

/-- the keyword dict of `self.clone(start=s, end=e)` -/
def newOpsOf (s : Int) (e : Option Int) : Dict := [("start", .int s), ("end", ofOpt e)]

/-- nothing is stored beyond the allocation pointer -/
def Heap.WF (h : Heap) : Prop := ∀ q, h.next ≤ q → h.cells q = none

end SqlObjVerif.PyOps
