import SqlObjVerif.Model.DdlRead
/-!
# C14 — vocabulary of the data that `vlib/extractors/ddl.py` regenerates from `/repo`

`Extracted/Ddl.lean` is a value of type `Tables`: the type-name tables of `col.py` per dialect, the
`_extraSQL` assembly order and keywords, the ID-column templates of the seven connection classes,
`joinSQLType`, the foreign-key delete actions.  The renderers in `Model/Ddl.lean` take a `Tables`
argument and the theorems are stated for every table that passes the decidable check `Tables.ok`,
then instantiated at the extracted one.
-/
namespace SqlObjVerif.Ddl

inductive Dialect where
  | sqlite | mysql | postgres | firebird | mssql | sybase | maxdb
deriving DecidableEq, Repr

def allDialects : List Dialect := [.sqlite, .mysql, .postgres, .firebird, .mssql, .sybase, .maxdb]

/-- column classes whose `_<dialect>Type` is a constant (possibly chosen by a server capability) -/
inductive SimpleKind where
  | bool | float | dateTime | date | time | timestamp | uuid
deriving DecidableEq, Repr

def allSimple : List SimpleKind := [.bool, .float, .dateTime, .date, .time, .timestamp, .uuid]

inductive IntKind where
  | int | tiny | small | medium | big
deriving DecidableEq, Repr

def allIntKinds : List IntKind := [.int, .tiny, .small, .medium, .big]

/-- `cascade=` None / True / False / 'null' -/
inductive Cascade where
  | none | cascade | restrict | setNull
deriving DecidableEq, Repr

def allCascades : List Cascade := [.none, .cascade, .restrict, .setNull]

inductive IdSize where
  | none | tiny | small | medium | big
deriving DecidableEq, Repr

def allIdSizes : List IdSize := [.none, .tiny, .small, .medium, .big]

/-- what the renderers ask the connection (`can_use_microseconds()`, `can_use_max_types()`) -/
structure Caps where
  micro : Bool
  maxTypes : Bool
deriving DecidableEq, Repr

def allCaps : List Caps := [⟨false, false⟩, ⟨false, true⟩, ⟨true, false⟩, ⟨true, true⟩]

inductive TypeExpr where
  | const (s : Str)
  | ifMicro (a b : Str)     -- `if self.connection and self.connection.can_use_microseconds(): a else: b`
  | ifMax (a b : Str)
  | err                     -- the method raises (no `_sqlType` for this class)
deriving DecidableEq, Repr

def TypeExpr.eval (c : Caps) : TypeExpr → Option Str
  | .const s => some s
  | .ifMicro a b => some (if c.micro then a else b)
  | .ifMax a b => some (if c.maxTypes then a else b)
  | .err => none

inductive LitDb where
  | mysql | postgres | plain
deriving DecidableEq, Repr

/-- what the link-table ownership test compares: `__name__` or `sqlmeta.table` -/
inductive LinkKey where
  | className | tableName
deriving DecidableEq, Repr

/-- the conditions of `_extraSQL`, in source order -/
inductive Extra where
  | notNull     -- `if self.notNone or self.alternateID`
  | unique      -- `if self.unique or self.alternateID`
  | default     -- `if self.defaultSQL is not None`
deriving DecidableEq, Repr

structure Tables where
  simpleType : Dialect → SimpleKind → TypeExpr
  intBase : IntKind → Str
  intUnsigned : Str                 -- " UNSIGNED"
  intZerofill : Str                 -- " ZEROFILL"
  strText : Str                     -- SOStringLikeCol._sqlType
  strVarchar : Str × Str            -- around `%i`
  strChar : Str × Str
  strFirebirdNoLen : Str
  strMaxdbNoLen : Str
  strMssqlMax : Str
  strMssqlNoMax : Str
  strMssqlVarchar : Str × Str
  strMssqlChar : Str × Str
  unicodeMssqlPrefix : Str
  blobMysql : List (Nat × Str × Str)   -- (threshold, varchar name, binary name), first match wins
  blobMysqlElse : Str × Str
  pickleMysql : List (Nat × Str)
  pickleMysqlElse : Str
  blobPostgres : Str
  blobMssqlMax : Str
  blobMssqlNoMax : Str
  decimalFmt : Str × Str × Str      -- around the two `%i`
  currencySize : Nat
  currencyPrecision : Nat
  enumMysql : Str × Str             -- "ENUM(" , ")"
  enumMysqlExtra : Str              -- what follows ")" + blank when None is not a value ("" since the fix)
  enumLit : Dialect → LitDb         -- which `sqlrepr` dialect renders the values
  enumVarchar : Str × Str           -- "VARCHAR(" , ")"
  enumCheck : Str × Str × Str       -- "CHECK (" , " in (" , "))"
  enumSep : Str                     -- ", "
  keyType : Dialect → Bool → Str    -- SOKeyCol / SOForeignKey type by target id type (`true` = str)
  extraOrder : List Extra
  kwNotNull : Str
  kwUnique : Str
  kwDefault : Str                   -- without the trailing " %s"
  idSuffix : Dialect → Bool → IdSize → Option Str   -- what follows the id name (with its leading blank)
  joinType : Dialect → Str
  fkAction : Cascade → Str
  createTable : Str × Str × Str     -- "CREATE TABLE " , " (\n" , "\n)"
  colSep : Str                      -- ",\n"
  indent : Str                      -- "    "

/-! ### string literals as `sqlrepr` renders them (hand-modelled, tied by string equality) -/

def escFull (c : Nat) : Str :=
  if c = 39 then [39, 39] else if c = 92 then [92, 92] else if c = 0 then [92, 48]
  else if c = 8 then [92, 98] else if c = 10 then [92, 110] else if c = 13 then [92, 114]
  else if c = 9 then [92, 116] else [c]

def escQuote (c : Nat) : Str := if c = 39 then [39, 39] else [c]

def escChar (l : LitDb) (c : Nat) : Str := if l = .plain then escQuote c else escFull c

def escape (l : LitDb) (s : Str) : Str := s.flatMap (escChar l)

def needsE (s : Str) : Bool :=
  s.any fun c => c == 92 || c == 0 || c == 8 || c == 10 || c == 13 || c == 9

def sqlLit (l : LitDb) (s : Str) : Str :=
  (if l = .postgres ∧ needsE s = true then [69] else []) ++ 39 :: (escape l s ++ [39])

/-! ### `%i` -/

def natDigitsAux : Nat → Nat → Str → Str
  | 0, _, acc => acc
  | fuel + 1, n, acc =>
    if n < 10 then (48 + n) :: acc else natDigitsAux fuel (n / 10) ((48 + n % 10) :: acc)

def natDigits (n : Nat) : Str := natDigitsAux (n + 1) n []

end SqlObjVerif.Ddl
