import SqlObjVerif.Model.ExprX
import SqlObjVerif.Extracted.PySel
/-!
# SelX — the translated `sqlbuilder.Select` class run on the model of a Select object

`Extracted/PySel.lean` holds the Python bodies (translated on every run by `vlib/extractors/pysel.py`).  Here:

* `OpsM`, `opsDict o` : the hand model of a Select — the 15 entries of `self.ops`, in the order `__init__` writes them;
  `selObj a` is the object whose `ops` attribute refers to the dict at heap address `a`;
* `sIfaceF P Q k`     : the interpreter's interface tied to the translated programs, `k` levels of calls deep:
  - a heap-changing call on a Select object runs the translated method (`clone`, `newClause`, …); `self.__class__(**d)`
    binds the keyword dict to the parameters of the translated `__init__` (defaults from its signature) and runs it on
    a fresh object;
  - the pure interface `E h` is `Model/ExprX.lean`'s, with `sqlrepr(<Select>, db)` running the translated
    `Select.__sqlrepr__` on the heap `h` (so `IN (subselect)` nodes render through the translated source),
    `_str_or_sqlrepr` / `tablesUsedSet` running their translated bodies, and the methods `components /
    tablesUsedImmediate / tablesUsedSet / tablesUsed` resolved along the class chain to the translated bodies;
* the text-level hand model of the statement: `selectStr`.

ASSUMED INTERFACE (parameters): `P` (names, `repr`, `from_python`: Model/ExprX.lean) and `Q`:
* `Q.limitOffset db select start end` : `dbConnectionForScheme(db)._queryAddLimitOffset(select, start, end)`, the
  dialect's LIMIT / OFFSET syntax (`dbConnectionForScheme(db)` itself is the opaque value `connV db`);
* `Q.strLe` : the order of `sorted` on `str`.
Hand-written here (Python itself): binding of positional / keyword arguments to parameters with defaults (`bindParams`),
`hasattr` = some class of the chain binds the name (`hasAttrX`), method resolution (`findMethodS`).
-/
namespace SqlObjVerif.SelX
open SqlObjVerif.PyExpr hiding Expr Exprs Stmt Block Res
open SqlObjVerif.PySel

def k_items : Str := [105, 116, 101, 109, 115]
def k_clause : Str := [99, 108, 97, 117, 115, 101]
def k_groupBy : Str := [103, 114, 111, 117, 112, 66, 121]
def k_having : Str := [104, 97, 118, 105, 110, 103]
def k_orderBy : Str := [111, 114, 100, 101, 114, 66, 121]
def k_limit : Str := [108, 105, 109, 105, 116]
def k_join : Str := [106, 111, 105, 110]
def k_lazyColumns : Str := [108, 97, 122, 121, 67, 111, 108, 117, 109, 110, 115]
def k_distinct : Str := [100, 105, 115, 116, 105, 110, 99, 116]
def k_distinctOn : Str := [100, 105, 115, 116, 105, 110, 99, 116, 79, 110]
def k_start : Str := [115, 116, 97, 114, 116]
def k_end : Str := [101, 110, 100]
def k_reversed : Str := [114, 101, 118, 101, 114, 115, 101, 100]
def k_forUpdate : Str := [102, 111, 114, 85, 112, 100, 97, 116, 101]
def k_staticTables : Str := [115, 116, 97, 116, 105, 99, 84, 97, 98, 108, 101, 115]

def noDefault : Val := globV "@NoDefault"

/-- the entries of `Select.ops` -/
structure OpsM where
  items : Val
  clause : Val
  groupBy : Val
  having : Val
  orderBy : Val
  limit : Val
  join : Val
  lazyColumns : Val
  distinct : Val
  distinctOn : Val
  start : Val
  end_ : Val
  reversed : Val
  forUpdate : Val
  staticTables : Val

/-- the dict `__init__` builds, in the order of its assignments -/
def opsDict (o : OpsM) : Dict :=
  [(k_items, o.items), (k_clause, o.clause), (k_groupBy, o.groupBy), (k_having, o.having), (k_orderBy, o.orderBy),
   (k_limit, o.limit), (k_join, o.join), (k_lazyColumns, o.lazyColumns), (k_distinct, o.distinct),
   (k_distinctOn, o.distinctOn), (k_start, o.start), (k_end, o.end_), (k_reversed, o.reversed),
   (k_forUpdate, o.forUpdate), (k_staticTables, o.staticTables)]

def selObj (a : Nat) : Val := .obj "Select" [("ops", refV a)]

/-- `dbConnectionForScheme(db)` -/
def connV (db : Val) : Val := .obj "@conn" [("db", db)]

structure ParamsQ where
  limitOffset : Val → Val → Val → Val → R Val
  strLe : Str → Str → Bool

/-! ### Python's argument binding -/

/-- positional arguments first, then keywords by name, then the default -/
def bindParams : List Str → List (Option Val) → List Val → Dict → Option (List Val)
  | [], _, [], _ => some []
  | [], _, _ :: _, _ => Option.none
  | _ :: ks, _ :: ds, v :: pos, kw => (bindParams ks ds pos kw).map (v :: ·)
  | k :: ks, d :: ds, [], kw =>
    match aget k kw, d with
    | some v, _ => (bindParams ks ds [] kw).map (v :: ·)
    | Option.none, some v => (bindParams ks ds [] kw).map (v :: ·)
    | Option.none, Option.none => Option.none
  | _ :: _, [], _, _ => Option.none

/-- every keyword names a parameter (else Python raises TypeError) -/
def kwOk (ks : List Str) (kw : Dict) : Bool := kw.all fun e => ks.contains e.1

/-! ### classes -/

/-- `hasattr(v, a)`: a stored attribute, or some class of the chain binds the name -/
def hasAttrX (v : Val) (a : String) : Bool :=
  (match v with
   | .obj _ fs => (aget a fs).isSome
   | _ => false) ||
  (ExprX.mro 6 (typeName v)).any fun k => ((aget k PyExpr.Extracted.classNames).getD []).contains a

/-- the PySel program `C.m` resolves to -/
def findMethodS (c m : String) : Option Block :=
  match (ExprX.mro 6 c).find? (fun k => ((aget k PyExpr.Extracted.classNames).getD []).contains m) with
  | some k => aget (k, m) PySel.Extracted.methodTable
  | Option.none => Option.none

/-! ### the interface tied to the translated programs -/

/-- a pure call of a module-level name -/
def callE (J : SIface) (h : Heap) (f : String) (args : List Val) : R Val :=
  if f = "sqlrepr" then
    match args with
    | [v, db] => if typeName v = "Select" then runP J PySel.Extracted.Select_sqlrepr [v, db] h else ExprX.sqlreprD (J.E h) v db
    | _ => .stuck
  else if f = "_str_or_sqlrepr" then runP J PySel.Extracted.f_str_or_sqlrepr args h
  else if f = "tablesUsedSet" then runP J PySel.Extracted.f_tablesUsedSet args h
  else if f = "dbConnectionForScheme" then
    match args with
    | [db] => .ok (connV db)
    | _ => .stuck
  else ExprX.callD (J.E h) f args

/-- a pure method call on something that is not a `str` / dict reference -/
def limitOffsetD (Q : ParamsQ) (fs : List (String × Val)) (args : List Val) : R Val :=
  match aget "db" fs, args with
  | some db, [sel, st, en] => Q.limitOffset db sel st en
  | _, _ => .stuck

def runMethodS (J : SIface) (h : Heap) (c : String) (r : Val) (m : String) (args : List Val) : R Val :=
  match findMethodS c m with
  | some prog => runP J prog (r :: args) h
  | Option.none => .stuck

def methodE (P : ExprX.Params) (Q : ParamsQ) (J : SIface) (h : Heap) (r : Val) (m : String) (args : List Val) : R Val :=
  match r with
  | .obj c fs =>
    if c = "@conn" then (if m = "_queryAddLimitOffset" then limitOffsetD Q fs args else .stuck)
    else if m = "_from_python" then ExprX.methodD P r m args
    else runMethodS J h c r m args
  | _ => .stuck

def eLevel (P : ExprX.Params) (Q : ParamsQ) (J : SIface) (h : Heap) : Iface where
  call := callE J h
  method := methodE P Q J h
  clsCall := ExprX.clsCallD (J.E h)
  clsInit := ExprX.clsInitD (J.E h)
  classAttr := ExprX.findClassAttr
  isSub := ExprX.isSub
  reprInt := P.reprInt
  reprFlt := P.reprFlt

/-- a heap-changing method call on a Select object; `q` is the address of the call's keyword dict -/
def constructSel (J : SIface) (pos : List Val) (kw : Dict) (h : Heap) : R (Val × Heap) :=
  if kwOk PySel.Extracted.Select_init_paramKeys kw then
    match bindParams (PySel.Extracted.Select_init_paramKeys.drop 1) (PySel.Extracted.Select_init_defaults.drop 1) pos kw with
    | some args => runInitH J PySel.Extracted.Select_init (.obj "Select" [] :: args) h
    | Option.none => .stuck
  else .stuck

def runDeriver (J : SIface) (self : Val) (m : String) (pos : List Val) (kw : Dict) (h : Heap) : R (Val × Heap) :=
  match findMethodS "Select" m, kw with
  | some prog, [] => runH J prog (self :: pos) h
  | _, _ => .stuck

def callHD (J : SIface) (self : Val) (m : String) (pos : List Val) (q : Nat) (h : Heap) : R (Val × Heap) :=
  if typeName self = "Select" then
    match h.cells q with
    | some kw =>
      if m = "__class__" then constructSel J pos kw h
      else if m = "clone" then (if pos.isEmpty then runH J PySel.Extracted.Select_clone [self, refV q] h else .stuck)
      else runDeriver J self m pos kw h
    | Option.none => .stuck
  else .stuck

def sIface0 (P : ExprX.Params) (Q : ParamsQ) : SIface where
  E := fun _ => ExprX.iface0 P
  callH := fun _ _ _ _ _ => .stuck
  hasAttr := hasAttrX
  strLe := Q.strLe

/-- the interface with `k` levels of calls into the translated programs -/
def sIfaceF (P : ExprX.Params) (Q : ParamsQ) : Nat → SIface
  | 0 => sIface0 P Q
  | k + 1 =>
    { E := eLevel P Q (sIfaceF P Q k)
      callH := callHD (sIfaceF P Q k)
      hasAttr := hasAttrX
      strLe := Q.strLe }

end SqlObjVerif.SelX
