import SqlObjVerif.Extracted.Inherit
/-!
# C15 — model of `sqlobject.inheritance` (InheritableSQLObject / InheritableSelectResults /
InheritableIteration) over an arbitrary class tree

* A class hierarchy is a `Tree`: classes are numbered in declaration order (Python needs the parent
  class object to declare a subclass, so `parent c < c`), `parent` is `sqlmeta.parentClass`,
  `ncols` the number of columns the class declares itself, `inh` the `_inheritable` flag (the class
  has a `childName` column and may be subclassed).  Forests are allowed (several roots).
* The database is one table per class, `DB = Class → Id → Option Row`; a row holds the `childName`
  tag and the class's own column values.
* `insertUp` mirrors `InheritableSQLObject._create` (the parent object is created first, tagged
  with this class's name, then the own row is INSERTed with the id of the parent), `deleteUp`
  mirrors `destroySelf` (`self._parent.destroySelf()` then the own DELETE; the order is the
  extracted constants `Extracted.destroyWalksParents`, `Extracted.destroyParentFirst`), `descend` mirrors the `childName`
  dispatch of `InheritableSQLObject.get` (with the `childResults = (None,)` shunt for column-less
  children), `get` adds the `_parent` chain fetch, `readVia` / `writeVia` the attribute delegation
  through `_parent`, `selectRow` the rewrite of `cls.select(...)` onto the root class with the
  `childName` filter and the joins `InheritableSelectResults` adds, `selectByRow` the `selectBy`
  path (source class = the subclass itself, joined upwards).
* `deleteMany` / `deleteBy` mirror the overrides that destroy every selected object.
* Only successful operations plus NotFound / AttributeError are modelled (failure atomicity of a
  child INSERT is property C06).
-/
namespace SqlObjVerif.Inherit

/-! Classes and ids are plain `Nat` (class = declaration index, id = row id); values are `Int`. -/
abbrev Val := Int

structure Tree where
  n : Nat
  parent : Nat → Option Nat
  ncols : Nat → Nat
  inh : Nat → Bool

/-- what Python's class statement and `_SO_setupSqlmeta` guarantee -/
structure Tree.WF (T : Tree) : Prop where
  lt : ∀ c p, T.parent c = some p → p < c ∧ c < T.n
  inhP : ∀ c p, T.parent c = some p → T.inh p = true

/-- `not childClass.sqlmeta.columns`: no own column and no `childName` column -/
def Tree.colless (T : Tree) (c : Nat) : Bool := T.ncols c == 0 && !T.inh c

def ancF (T : Tree) : Nat → Nat → List Nat
  | 0, c => [c]
  | f + 1, c => c :: (match T.parent c with
      | none => []
      | some p => ancF T f p)

/-- the class and its ancestors, leaf first: `[c, parent c, …, root]` -/
def Tree.anc (T : Tree) (c : Nat) : List Nat := ancF T c c

def Tree.root (T : Tree) (c : Nat) : Nat := (T.anc c).getLastD c

structure Row where
  child : Option Nat
  vals : Nat → Val

abbrev DB := Nat → Nat → Option Row

def DB.empty : DB := fun _ _ => none

def DB.set (db : DB) (c : Nat) (i : Nat) (r : Row) : DB :=
  fun c' i' => if c' = c ∧ i' = i then some r else db c' i'

def DB.del (db : DB) (c : Nat) (i : Nat) : DB :=
  fun c' i' => if c' = c ∧ i' = i then none else db c' i'

def DB.has (db : DB) (c : Nat) (i : Nat) : Bool := (db c i).isSome

/-! ## create -/

/-- `_create` of the first class of the list with `childName = tag`: first the parent object (the
    rest of the list) is created with `childName = this class`, then the own row is INSERTed. -/
def insertUp (tagP : Bool) (id : Nat) (vals : Nat → Nat → Val) : List Nat → Option Nat → DB → DB
  | [], _, db => db
  | a :: rest, tag, db =>
    (insertUp tagP id vals rest (if tagP then some a else none) db).set a id ⟨tag, vals a⟩

inductive Out where
  | ok | notFound | keyError | noAttr | duplicate | integrity
deriving DecidableEq, Repr

/-- `cls(**kw)` with the id the database allocated in the root table; an id already present at some
    level makes that level's INSERT fail (nothing is modelled after such a failure: C06). -/
def create (T : Tree) (db : DB) (c : Nat) (id : Nat) (vals : Nat → Nat → Val) : DB × Out :=
  if (T.anc c).any (fun a => db.has a id) then (db, .duplicate)
  else (insertUp Extracted.createTagsParent id vals (T.anc c) none db, .ok)

/-- order of the INSERT statements -/
def insertOrder (T : Tree) (c : Nat) : List Nat := (T.anc c).reverse

/-! ## get -/

inductive Res where
  | ok (m : Nat) | notFound | keyError
deriving DecidableEq, Repr

/-- `SQLObject.get` on class `e` followed by the `childName` dispatch -/
def descend (shunt : Bool) (T : Tree) (db : DB) (i : Nat) : Nat → Nat → Res
  | 0, _ => .keyError
  | f + 1, e =>
    match db e i with
    | none => .notFound
    | some r =>
      match r.child with
      | none => .ok e
      | some c =>
        if T.parent c = some e then
          (if shunt && T.colless c then .ok c else descend shunt T db i f c)
        else .keyError

/-- `cls.get(id)`: dispatch down to the most-derived class, then fetch the `_parent` chain
    (`parentClass.get(id, childUpdate=True)`, NotFound when an ancestor row is missing). -/
def get (T : Tree) (db : DB) (e : Nat) (i : Nat) : Res :=
  match descend Extracted.shuntColless T db i (T.n + 1) e with
  | .ok m => if (T.anc m).all (fun a => a == m || db.has a i) then .ok m else .notFound
  | r => r

/-! ## attributes -/

/-- the attribute `(a, k)` (column `k` declared by class `a`) exists on instances of class `m` -/
def attrOK (T : Tree) (m a : Nat) (k : Nat) : Bool := (T.anc m).contains a && decide (k < T.ncols a)

/-- attribute read on an instance of class `m`: delegated along `_parent` to the declaring class,
    whose instance holds the row's value -/
def readInst (T : Tree) (db : DB) (m : Nat) (i : Nat) (a : Nat) (k : Nat) : Option Val :=
  if attrOK T m a k then (db a i).map (fun r => r.vals k) else none

/-- the UPDATE the declaring class's instance sends -/
def updateRow (db : DB) (a : Nat) (i : Nat) (k : Nat) (v : Val) : DB :=
  match db a i with
  | some r => db.set a i { r with vals := fun k' => if k' = k then v else r.vals k' }
  | none => db

def writeInst (T : Tree) (db : DB) (m : Nat) (i : Nat) (a : Nat) (k : Nat) (v : Val) : DB × Out :=
  if attrOK T m a k then (updateRow db a i k v, .ok) else (db, .noAttr)

inductive RdOut where
  | val (v : Val) | notFound | keyError | noAttr
deriving DecidableEq, Repr

/-- `E.get(i).<attr>` -/
def readVia (T : Tree) (db : DB) (e : Nat) (i : Nat) (a : Nat) (k : Nat) : RdOut :=
  match get T db e i with
  | .ok m => match readInst T db m i a k with
    | some v => .val v
    | none => .noAttr
  | .notFound => .notFound
  | .keyError => .keyError

def Res.toOut : Res → Out
  | .ok _ => .ok
  | .notFound => .notFound
  | .keyError => .keyError

/-- `E.get(i).<attr> = v` -/
def writeVia (T : Tree) (db : DB) (e : Nat) (i : Nat) (a : Nat) (k : Nat) (v : Val) : DB × Out :=
  match get T db e i with
  | .ok m => writeInst T db m i a k v
  | r => (db, r.toOut)

/-- `obj.set(**kw)`: own columns in one UPDATE, inherited ones by `setattr` one after the other;
    the final rows are those of the single writes in sequence (the names are distinct: Python
    keyword arguments).  Unknown names are outside the model (partial writes on failure: C06);
    the harness never sends them to `set`. -/
def setInst (T : Tree) (db : DB) (m : Nat) (i : Nat) (kvs : List (Nat × Nat × Val)) : DB × Out :=
  if kvs.all (fun x => attrOK T m x.1 x.2.1) then
    (kvs.foldl (fun d x => updateRow d x.1 i x.2.1 x.2.2) db, .ok)
  else (db, .noAttr)

def setVia (T : Tree) (db : DB) (e : Nat) (i : Nat) (kvs : List (Nat × Nat × Val)) : DB × Out :=
  match get T db e i with
  | .ok m => setInst T db m i kvs
  | r => (db, r.toOut)

/-! ## destroy -/

/-- `destroySelf` with `self._parent.destroySelf()` first -/
def deleteUp (i : Nat) : List Nat → DB → DB
  | [], db => db
  | a :: rest, db => (deleteUp i rest db).del a i

/-- the other order (own DELETE first) -/
def deleteDown (i : Nat) : List Nat → DB → DB
  | [], db => db
  | a :: rest, db => deleteDown i rest (db.del a i)

def destroyG (walks parentFirst : Bool) (T : Tree) (db : DB) (m : Nat) (i : Nat) : DB :=
  if walks then
    (if parentFirst then deleteUp i (T.anc m) db else deleteDown i (T.anc m) db)
  else db.del m i

def destroyInst (T : Tree) (db : DB) (m : Nat) (i : Nat) : DB :=
  destroyG Extracted.destroyWalksParents Extracted.destroyParentFirst T db m i

/-- order of the DELETE statements -/
def deleteOrder (T : Tree) (m : Nat) : List Nat :=
  if Extracted.destroyWalksParents then
    (if Extracted.destroyParentFirst then (T.anc m).reverse else T.anc m)
  else [m]

/-- `E.get(i).destroySelf()` -/
def destroyVia (T : Tree) (db : DB) (e : Nat) (i : Nat) : DB × Out :=
  match get T db e i with
  | .ok m => (destroyInst T db m i, .ok)
  | r => (db, r.toOut)

/-! ## destroy refused by a `cascade=False` reference

Each level's `SQLObject.destroySelf` first looks for rows of other classes that reference *that
level's class* through a `cascade=False` foreign key and raises `SQLObjectIntegrityError` if there
is one (`blocked a`: such a reference to level `a` for this id exists; the referencing table itself
is outside this model).  The levels are visited in DELETE order; rows deleted before the refusing
level stay deleted. -/

def guardedDelete (i : Nat) (blocked : Nat → Bool) : List Nat → DB → DB × Bool
  | [], db => (db, true)
  | a :: rest, db => if blocked a then (db, false) else guardedDelete i blocked rest (db.del a i)

/-- the levels whose DELETE was sent -/
def deletedLevels (T : Tree) (m : Nat) (blocked : Nat → Bool) : List Nat :=
  (deleteOrder T m).takeWhile (fun a => !blocked a)

def destroyGuarded (T : Tree) (db : DB) (m i : Nat) (blocked : Nat → Bool) : DB × Out :=
  let r := guardedDelete i blocked (deleteOrder T m) db
  (r.1, if r.2 then .ok else .integrity)

def destroyGuardedVia (T : Tree) (db : DB) (e i : Nat) (blocked : Nat → Bool) : DB × Out :=
  match get T db e i with
  | .ok m => destroyGuarded T db m i blocked
  | r => (db, r.toOut)

/-! ## select -/

inductive Cmp where
  | eq | ne | lt | le | gt | ge
deriving DecidableEq, Repr

def Cmp.eval : Cmp → Int → Int → Bool
  | .eq, x, y => x == y
  | .ne, x, y => x != y
  | .lt, x, y => decide (x < y)
  | .le, x, y => decide (x ≤ y)
  | .gt, x, y => decide (x > y)
  | .ge, x, y => decide (x ≥ y)

/-- where-clauses over own and inherited columns and the id -/
inductive Filter where
  | tt
  | attr (a : Nat) (k : Nat) (op : Cmp) (v : Val)
  | idc (op : Cmp) (v : Int)
  | and (f g : Filter)
  | or (f g : Filter)
  | not (f : Filter)
deriving Repr

/-- tables the clause mentions through columns (`tablesUsedSet`) -/
def Filter.classes : Filter → List Nat
  | .tt => []
  | .attr a _ _ _ => [a]
  | .idc _ _ => []
  | .and f g => f.classes ++ g.classes
  | .or f g => f.classes ++ g.classes
  | .not f => f.classes

/-- value of column `k` of class `a` in the joined row of id `i` -/
def look (db : DB) (i : Nat) (a : Nat) (k : Nat) : Val :=
  match db a i with
  | some r => r.vals k
  | none => 0

def Filter.eval (db : DB) (i : Nat) : Filter → Bool
  | .tt => true
  | .attr a k op v => op.eval (look db i a k) v
  | .idc op v => op.eval (i : Int) v
  | .and f g => f.eval db i && g.eval db i
  | .or f g => f.eval db i || g.eval db i
  | .not f => !(f.eval db i)

/-- the `childName` filter `parentClass.q.childName == cls.sqlmeta.childName` on the joined row -/
def kindOk (T : Tree) (db : DB) (c i : Nat) : Bool :=
  match T.parent c with
  | none => true
  | some p => match db p i with
    | some r => r.child == some c
    | none => false

/-- tables a `cls.select(f)` needs: the root (source class after delegation), those of the columns
    in the clause, and the parent's (for the `childName` filter) -/
def selNeeded (T : Tree) (c : Nat) (f : Filter) : Nat → Bool :=
  fun a => a == T.root c || f.classes.contains a || T.parent c == some a

/-- `InheritableSelectResults.__init__`: inner join `child.id = parent.id` from the deepest needed
    table of the chain up to the root -/
def joinDown (T : Tree) (db : DB) (c i : Nat) (needed : Nat → Bool) : Bool :=
  ((T.anc c).dropWhile (fun a => !needed a)).all (fun a => db.has a i)

/-- `cls.select(f)`, row `i`: the query is delegated to the root class with
    `parent.childName = cls` added; `InheritableSelectResults` joins the tables from the deepest one
    mentioned up to the root; every selected id is fetched through the root class (`childName`
    dispatch in `InheritableIteration.next`).  `none` = id `i` is not in the result. -/
def selectRow (T : Tree) (db : DB) (c : Nat) (f : Filter) (i : Nat) : Option Res :=
  if joinDown T db c i (selNeeded T c f) && kindOk T db c i && f.eval db i
  then some (get T db (T.root c) i) else none

def byNeeded (c : Nat) (kvs : List (Nat × Nat × Val)) : Nat → Bool :=
  fun a => a == c || kvs.any (fun x => x.1 == a)

/-- join from the source class `c` up to the topmost needed table -/
def joinUp (T : Tree) (db : DB) (c i : Nat) (needed : Nat → Bool) : Bool :=
  ((T.anc c).reverse.dropWhile (fun a => !needed a)).reverse.all (fun a => db.has a i)

def kvsHold (db : DB) (i : Nat) (kvs : List (Nat × Nat × Val)) : Bool :=
  kvs.all (fun x => look db i x.1 x.2.1 == x.2.2)

/-- `cls.selectBy(**kw)`, row `i`: source class is `cls` itself, joined upwards to the topmost class
    mentioned; every selected id is fetched through `cls`. -/
def selectByRow (T : Tree) (db : DB) (c : Nat) (kvs : List (Nat × Nat × Val)) (i : Nat) : Option Res :=
  if joinUp T db c i (byNeeded c kvs) && kvsHold db i kvs then some (get T db c i) else none

/-! ## `by<Column>()` alternate-id fetch -/

/-- `cls.by<Col>(v)` for an `alternateID` column declared by `cls` or an ancestor:
    `InheritableSQLObject._findAlternateID` runs `list(cls.selectBy(**{col: v}))` on the class the
    method is CALLED through and takes the first result (`SQLObjectNotFound` when there is none);
    row `i` -/
def byAltRow (T : Tree) (db : DB) (e a k : Nat) (v : Val) (i : Nat) : Option Res :=
  selectByRow T db e [(a, k, v)] i

/-! ## class-level bulk deletes -/

/-- `cls.deleteMany(where)` / `cls.deleteBy(**kw)` as overridden by `InheritableSQLObject`:
    `for obj in list(cls.select(where)): obj.destroySelf()` — every selected id is destroyed as the
    most-derived instance the select returned (a destroy only touches rows of its own id, so the
    result is given per id).  Without the override (`Extracted.bulkDeleteDestroys = false`) it is
    `SQLObject`'s single raw `DELETE FROM <table of cls> WHERE …`. -/
def deleteSel (T : Tree) (db : DB) (c : Nat) (sel : Nat → Option Res) : DB :=
  if Extracted.bulkDeleteDestroys then
    fun c' j => match sel j with
      | some (.ok m) => destroyInst T db m j c' j
      | _ => db c' j
  else fun c' j => if c' = c ∧ (sel j).isSome then none else db c' j

def deleteMany (T : Tree) (db : DB) (c : Nat) (f : Filter) : DB :=
  deleteSel T db c (selectRow T db c f)

def deleteBy (T : Tree) (db : DB) (c : Nat) (kvs : List (Nat × Nat × Val)) : DB :=
  deleteSel T db c (selectByRow T db c kvs)

/-! ## histories -/

inductive Op where
  | create (c : Nat) (id : Nat) (vals : Nat → Nat → Val)
  | write (e : Nat) (i : Nat) (a : Nat) (k : Nat) (v : Val)
  | set (e : Nat) (i : Nat) (kvs : List (Nat × Nat × Val))
  | destroy (e : Nat) (i : Nat)
  | deleteMany (c : Nat) (f : Filter)
  | deleteBy (c : Nat) (kvs : List (Nat × Nat × Val))
  /-- `E.get(i).destroySelf()` while a `cascade=False` reference to the root-level row exists -/
  | destroyRootBlocked (e : Nat) (i : Nat)

def step (T : Tree) (db : DB) : Op → DB × Out
  | .create c id vals => create T db c id vals
  | .write e i a k v => writeVia T db e i a k v
  | .set e i kvs => setVia T db e i kvs
  | .destroy e i => destroyVia T db e i
  | .deleteMany c f => (deleteMany T db c f, .ok)
  | .deleteBy c kvs => (deleteBy T db c kvs, .ok)
  | .destroyRootBlocked e i => destroyGuardedVia T db e i (fun a => a == T.root e)

def run (T : Tree) (ops : List Op) (db : DB) : DB :=
  ops.foldl (fun d op => (step T d op).1) db

/-! ## several connections

The same classes used on several databases (`connection=` given explicitly) and inside a
transaction that is rolled back or committed: a state is a map connection ↦ tables, an operation
carries the connection it is sent through; `begin` / `rollback` save and restore the tables of
one connection (the transaction is the only writer while it is open). -/

structure MState where
  cur : Nat → DB
  saved : Nat → DB

inductive MOp where
  | on (k : Nat) (op : Op)
  | begin (k : Nat)
  | rollback (k : Nat)
  | commit (k : Nat)

def mstep (T : Tree) (s : MState) : MOp → MState
  | .on k op => { s with cur := fun k' => if k' = k then (step T (s.cur k) op).1 else s.cur k' }
  | .begin k => { s with saved := fun k' => if k' = k then s.cur k else s.saved k' }
  | .rollback k => { s with cur := fun k' => if k' = k then s.saved k else s.cur k' }
  | .commit _ => s

def MState.init : MState := ⟨fun _ => DB.empty, fun _ => DB.empty⟩

def mrun (T : Tree) (ops : List MOp) (s : MState) : MState := ops.foldl (mstep T) s

/-! ## cached column values on the main connection and `Transaction.commit`

Every level's instance on the main connection caches its own level's column values
(`vc a i = some vals`; `none` = never loaded or expired, the next read SELECTs the row).  A read of
an attribute through an instance of class `m` is answered by the level-`a` instance of its
`_parent` chain.  `Transaction.commit` expires the main-side instance of every (class, id) in the
transaction's cache or deleted log (`S`); a fetch inside the transaction puts the instance and its
whole `_parent` chain into that cache (`txLevels`). -/

abbrev VCache := Nat → Nat → Option (Nat → Val)
def readCached (T : Tree) (db : DB) (vc : VCache) (m i a k : Nat) : Option Val :=
  if attrOK T m a k then
    match vc a i with
    | some vals => some (vals k)
    | none => (db a i).map (fun r => r.vals k)
  else none
def Coherent (db : DB) (vc : VCache) : Prop :=
  ∀ a i vals, vc a i = some vals → ∃ r, db a i = some r ∧ ∀ k, r.vals k = vals k
def commitExpire (vc : VCache) (S : Nat → Nat → Bool) : VCache :=
  fun a i => if S a i then none else vc a i
def txLevels (T : Tree) (m i : Nat) : Nat → Nat → Bool :=
  fun a j => decide (j = i) && (T.anc m).contains a
end SqlObjVerif.Inherit
