import SqlObjVerif.Model.SliceX
import SqlObjVerif.Model.PyOps
import SqlObjVerif.Extracted.SelOps
/-!
# C10 — sessions of slices over a HEAP of select objects

A session is a straight-line program `v1 = v_i[a:b]; v2 = v_j[c:d]; …` in which any earlier
variable may be sliced again (pagination: the same select sliced several times).  `cstep` runs it
with the library AS TRANSLATED: the slice branch of `__getitem__` (PyMini, `Extracted/GetItem.lean`)
computes the window from the object's own `ops` dict, and `clone` + `__init__` (PyOps,
`Extracted/SelOps.lean`) build the new object on a heap in which aliasing is visible.
`astep` is the value-level model (no heap), `pstep` the same session on Python lists.
-/
namespace SqlObjVerif.Slice
open SqlObjVerif.PyMini SqlObjVerif.PyOps


/-- the window a `SelectResults` reads from its own `ops` dict:
    `self.ops.get('start', 0)`, `self.ops.get('end', None)` -/
def winOfDict (d : Dict) : Option Win :=
  let s : Option Nat := match d.get? "start" with
    | none => some 0
    | some (.int i) => if i < 0 then none else some i.toNat
    | _ => none
  let e : Option (Option Nat) := match d.get? "end" with
    | none => some none
    | some .pyNone => some none
    | some (.int i) => if i < 0 then none else some (some i.toNat)
    | _ => none
  match s, e with
  | some s, some e => some ⟨s, e⟩
  | _, _ => none

/-- a Python variable of a session: a select (the address of its `ops` dict), a plain list, or an error -/
inductive CVal (α : Type) where
  | sel (p : Nat)
  | lst (l : List α)
  | err

structure CState (α : Type) where
  heap : Heap
  vals : List (CVal α)

/-- one statement `v_new = v_i[a:b]` of a session -/
abbrev SOp := Nat × Option Int × Option Int

def CState.push (st : CState α) (v : CVal α) : CState α := { st with vals := st.vals ++ [v] }

def doClone (o : Orc) (st : CState α) (p : Nat) (s : Int) (e : Option Int) : CState α :=
  match runClone o Extracted.initProg Extracted.cloneProg st.heap p (newOpsOf s e) with
  | some (h', r) => { heap := h', vals := st.vals ++ [.sel r] }
  | none => st.push .err

/-- the library as translated, on a heap: `__getitem__`'s slice branch (PyMini), `clone` and `__init__`
    (PyOps) -/
def cstep (o : Orc) (d : Dialect) (xs : List α) (st : CState α) (op : SOp) : CState α :=
  match st.vals[op.1]? with
  | none => st
  | some (.lst l) => st.push (.lst (pySlice l op.2.1 op.2.2))
  | some .err => st.push .err
  | some (.sel p) =>
    match (st.heap.cells p).bind winOfDict with
    | none => st.push .err
    | some w =>
      match run Extracted.sliceProg (envSlice w op.2.1 op.2.2) with
      | .self => st.push (.sel p)
      | .clone (some s) e =>
        if s < 0 then st.push .err else
        match e with
        | none => doClone o st p s none
        | some e => if e < 0 then st.push .err else doClone o st p s (some e)
      | .listSlice a b =>
        match rows d xs w with
        | some l => st.push (.lst (pySlice l a b))
        | none => st.push .err
      | _ => st.push .err

/-- the same session over the value-level model: no heap, a new value per statement -/
def astep (d : Dialect) (xs : List α) (vals : List (Sel α)) (op : SOp) : List (Sel α) :=
  match vals[op.1]? with
  | none => vals
  | some s => vals ++ [stepSelX d xs s (op.2.1, op.2.2)]

/-- the same session on Python lists -/
def pstep (vals : List (List α)) (op : SOp) : List (List α) :=
  match vals[op.1]? with
  | none => vals
  | some l => vals ++ [pySlice l op.2.1 op.2.2]


def initC : CState α :=
  { heap := { cells := fun q => if q = 0 then some [] else none, next := 1 }, vals := [.sel 0] }

/-- a whole session with the translated library on the heap; variable 0 is the unsliced select -/
def runC (o : Orc) (d : Dialect) (xs : List α) (ops : List SOp) : CState α := ops.foldl (cstep o d xs) initC
def runA (d : Dialect) (xs : List α) (ops : List SOp) : List (Sel α) := ops.foldl (astep d xs) [.q ⟨0, none⟩]
def runP (xs : List α) (ops : List SOp) : List (List α) := ops.foldl pstep [xs]

/-- the rows a session variable yields when iterated -/
def rowsOfC (d : Dialect) (xs : List α) (h : Heap) : CVal α → Option (List α)
  | .sel p => ((h.cells p).bind winOfDict).bind (rows d xs)
  | .lst l => some l
  | .err => none

end SqlObjVerif.Slice
