import SqlObjVerif.Model.Inherit
import SqlObjVerif.Model.PyInhSel
import SqlObjVerif.Extracted.PyInhSel
/-!
# C15 — the SELECT side of `sqlobject.inheritance` as TRANSLATED from the source

`selInitX` RUNS the PyInhSel program `vlib/extractors/pyinhsel.py` translated from
`InheritableSelectResults.__init__` on this very run.  The database is the hand model's per-level tables
(`Inherit.DB`); an SQL clause (`PyIS.Sql`) is given the semantics of a SELECT over the cross product of the tables it
uses plus the source class's table (`Sat`): an assignment `σ : table ↦ row id` with a row in every table of the FROM
list that makes the WHERE clause true; the select returns `σ source`.

## The assumed interface (the parameters of the interpreter) for `InheritableSelectResults.__init__`
attributes:
* `cls._connection` : `.conn X.dflt`; `conn.dbName` : a string; `cls.sqlmeta.table` : `.tab c` (distinct classes have
  distinct table names); `cls.sqlmeta.registry` : a handle; `cls.sqlmeta.parentClass` : `T.parent` (None for a root);
  `cls.q.id` : the field `.fldId c`;
* `isinstance(v, str)` / `isinstance(v, string_type)` : `v` is a string value (an `Sql` clause is not);
* `sqlbuilder.SQLTrueClause` : the clause `tt`;
calls:
* `tablesUsedSet(clause, dbName)` : the set of the table names `Sql.tables` of the clause (set iteration order is never
  observed by the translated code: only `in`, `add`, `update`);
* `classregistry.registry(r).allClasses()` : the classes `X.reg` of the registry, in ANY order (`X.reg` is a
  parameter; the theorems assume it lists every class of the tree once);
* `super(InheritableSelectResults, self).__init__(sourceClass, clause, clauseTables, **ops)` : `SelectResults.__init__`
  records source class, clause and connection (`ops['connection']`, else the class's) in the new object (`SW.made`);
  its FROM list is `tablesUsedSet(clause) + [source table]`.
* `while`: at most `T.n + 2` iterations.
-/
namespace SqlObjVerif.InhSel
open SqlObjVerif.PyIS (Iface CallRes R Exc Sql)
open SqlObjVerif.PyIS.Extracted
open SqlObjVerif.Inherit hiding Val Res Cmp Out

abbrev SVal := PyIS.Val

/-! ### semantics of clauses over the per-level tables -/

def cmpEval : PyIS.Cmp → Int → Int → Bool
  | .eq, x, y => x == y
  | .ne, x, y => x != y
  | .lt, x, y => decide (x < y)
  | .le, x, y => decide (x ≤ y)
  | .gt, x, y => decide (x > y)
  | .ge, x, y => decide (x ≥ y)

def cmpOf : Inherit.Cmp → PyIS.Cmp
  | .eq => .eq | .ne => .ne | .lt => .lt | .le => .le | .gt => .gt | .ge => .ge

/-- tables a clause uses (`tablesUsedSet`) -/
def sqlTables : Sql → List Nat
  | .tt => []
  | .col a _ _ _ => [a]
  | .idc a _ _ => [a]
  | .idEq a b => [a, b]
  | .idIn a _ => [a]
  | .kind p _ => [p]
  | .and x y => sqlTables x ++ sqlTables y
  | .or x y => sqlTables x ++ sqlTables y
  | .not x => sqlTables x

/-- the `childName` column of row `i` of table `p` holds the name of class `c` -/
def kindIs (db : DB) (p i c : Nat) : Bool :=
  match db p i with
  | some r => r.child == some c
  | none => false

/-- truth of a clause in the joined row `σ` (table ↦ id of the row taken from it) -/
def sqlEval (db : DB) (σ : Nat → Nat) : Sql → Bool
  | .tt => true
  | .col a k op v => cmpEval op (look db (σ a) a k) v
  | .idc a op v => cmpEval op (σ a : Int) v
  | .idEq a b => σ a == σ b
  | .idIn a ids => ids.contains (σ a)
  | .kind p c => kindIs db p (σ p) c
  | .and x y => sqlEval db σ x && sqlEval db σ y
  | .or x y => sqlEval db σ x || sqlEval db σ y
  | .not x => !(sqlEval db σ x)

/-- `σ` is a row of `SELECT … FROM <tables of e>, <table of s> WHERE e` -/
def Sat (db : DB) (s : Nat) (e : Sql) (σ : Nat → Nat) : Prop :=
  (∀ a, a ∈ sqlTables e ++ [s] → db.has a (σ a) = true) ∧ sqlEval db σ e = true

/-- a hand-model filter as a clause; an id comparison is on the id column of table `t` -/
def sqlOf (t : Nat) : Filter → Sql
  | .tt => .tt
  | .attr a k op v => .col a k (cmpOf op) v
  | .idc op v => .idc t (cmpOf op) v
  | .and f g => .and (sqlOf t f) (sqlOf t g)
  | .or f g => .or (sqlOf t f) (sqlOf t g)
  | .not f => .not (sqlOf t f)

/-- the clause `cls.select(f)` hands to `InheritableSelectResults` (source class: the root): the filter, an id
    comparison rewritten onto the parent's id column, AND `parent.childName == cls` -/
def selClause (T : Tree) (c : Nat) (f : Filter) : Sql :=
  match T.parent c with
  | none => sqlOf c f
  | some p => .and (sqlOf p f) (.kind p c)

/-- the clause `cls.selectBy(**kw)` builds: the conjunction of `column == value` (`tt` without keywords) -/
def byClause : List (Nat × Nat × Inherit.Val) → Sql
  | [] => .tt
  | x :: l => l.foldl (fun acc y => .and acc (.col y.1 y.2.1 .eq y.2.2)) (.col x.1 x.2.1 .eq x.2.2)

/-! ### the join-chain computation of `InheritableSelectResults.__init__` as pure functions on association lists -/

abbrev AL := List (Nat × Nat)

def alGet (k : Nat) : AL → Option Nat
  | [] => none
  | (k', v) :: t => if k' = k then some v else alGet k t

def alSet (k v : Nat) : AL → AL
  | [] => [(k, v)]
  | (k', v') :: t => if k' = k then (k, v) :: t else (k', v') :: alSet k v t

def alDel (k : Nat) : AL → AL
  | [] => []
  | (k', v') :: t => if k' = k then t else (k', v') :: alDel k t

/-- one step of `while currentClass:` at class `y`, walking up from `x` -/
def step3 (copy : AL) (x : Nat) (R : AL) (y : Nat) : AL :=
  if (alGet y copy).isSome then alSet x y (if (alGet y R).isSome then alDel y R else R) else R

/-- one step of `for childClass in tableRegistryCopy:` -/
def step2 (T : Tree) (copy : AL) (R : AL) (x : Nat) : AL :=
  if (alGet x R).isSome then (T.anc x).foldl (step3 copy x) R else R

/-- the join conditions `cur.id == parent.id` from the first class of the chain up to `t` -/
def linksTo (t : Nat) : List Nat → List Sql
  | a :: b :: l => if a = t then [] else .idEq a b :: linksTo t (b :: l)
  | _ => []

/-- one step of `for registryClass in allClasses:` (`tabs`: the table set) -/
def regStep (tabs : List Nat) (R : AL) (c : Nat) : AL := if tabs.contains c then alSet c c R else R

/-- the classes whose table the query uses -/
def usedKeys (reg : List Nat) (s : Nat) (g : Sql) : List Nat := reg.filter fun c => (sqlTables g ++ [s]).contains c

def idAL (ks : List Nat) : AL := ks.map fun c => (c, c)

/-- `tableRegistry` after the second loop: the deepest used classes ↦ their topmost used ancestor -/
def registryOf (T : Tree) (reg : List Nat) (s : Nat) (g : Sql) : AL :=
  (usedKeys reg s g).foldl (step2 T (idAL (usedKeys reg s g))) (idAL (usedKeys reg s g))

def joinsOf (T : Tree) (R : AL) : List Sql := R.flatMap fun p => linksTo p.2 (T.anc p.1)

/-- the clause `InheritableSelectResults.__init__` hands to `SelectResults.__init__` -/
def initClause (T : Tree) (reg : List Nat) (s : Nat) (g : Sql) : Sql :=
  (joinsOf T (registryOf T reg s g)).foldl Sql.and g

/-! ### the world and the interface -/

/-- what `SelectResults.__init__` received -/
structure Made where
  src : Nat
  clause : Sql
  conn : Nat
deriving DecidableEq, Repr

structure SW where
  cur : Nat → DB
  made : Option Made

structure SCtx where
  T : Tree
  dflt : Nat
  /-- `allClasses()` of the registry, in the order it yields them -/
  reg : List Nat

def sClassOpt : Option Nat → SVal
  | some p => .cls p
  | none => .none

def isStr : SVal → Bool
  | .str _ => true
  | .tab _ => true
  | .kindName _ => true
  | _ => false

def tabSet (l : List Nat) : SVal := PyIS.Val.ofList (l.map PyIS.Val.tab)

def dictV (l : AL) : SVal := PyIS.Val.ofList (l.map fun p => PyIS.Val.pair (.cls p.1) (.cls p.2))

def sAttrOf (X : SCtx) (_w : SW) (v : SVal) (path : List String) : R SVal :=
  match v with
  | .cls c =>
    if path = ["_connection"] then .ok (.conn X.dflt)
    else if path = ["sqlmeta", "table"] then .ok (.tab c)
    else if path = ["sqlmeta", "registry"] then .ok (.ref 8 0)
    else if path = ["sqlmeta", "parentClass"] then .ok (sClassOpt (X.T.parent c))
    else if path = ["q", "id"] then .ok (.fldId c)
    else .stuck
  | .conn _ => if path = ["dbName"] then .ok (.str "sqlite") else .stuck
  | _ => .stuck

def sGlobal (n : String) : Option SVal :=
  if n = "sqlbuilder.SQLTrueClause" then some (.sql .tt)
  else if n = "tablesUsedSet" then some (.ref 9 0)
  else if n = "classregistry.registry" then some (.ref 9 1)
  else none

def sIsinstance (v : SVal) (cls : String) : Option Bool :=
  if cls = "str" ∨ cls = "string_type" then some (isStr v) else none

def sCallFn (w : SW) (f : SVal) (args : List SVal) (kw : List (String × SVal)) (star : SVal) : CallRes SW :=
  match f, args with
  | .ref 9 0, [.sql e, _] => if kw = [] ∧ star = .none then .ret w (tabSet (sqlTables e)) else .stuck
  | .ref 9 1, [.ref 8 0] => if kw = [] ∧ star = .none then .ret w (.ref 8 1) else .stuck
  | _, _ => .stuck

def sCall (X : SCtx) (w : SW) (recv : SVal) (m : String) (args : List SVal) (kw : List (String × SVal)) (star : SVal) :
    CallRes SW :=
  match recv with
  | .ref 8 1 =>
    if m = "allClasses" ∧ args = [] ∧ kw = [] ∧ star = .none then .ret w (PyIS.Val.ofList (X.reg.map PyIS.Val.cls))
    else .stuck
  | _ => .stuck

/-- the connection `SelectResults` will use -/
def connArg (X : SCtx) (ops : SVal) : Option Nat :=
  match PyIS.vdGet (.str "connection") ops with
  | some (.conn k) => some k
  | some .none => some X.dflt
  | none => some X.dflt
  | _ => none

def sSuper (X : SCtx) (w : SW) (m : String) (args : List SVal) (kw : List (String × SVal)) (star : SVal) : CallRes SW :=
  match args with
  | [.cls s, .sql e, _] =>
    if m = "__init__" ∧ kw = [] then
      (match connArg X star with
       | some k => .ret { w with made := some ⟨s, e, k⟩ } .none
       | none => .stuck)
    else .stuck
  | _ => .stuck

def sIface (X : SCtx) (self : SVal) : Iface SW :=
  { self := self
    attrOf := sAttrOf X
    setAttrOf := fun _ _ _ _ => none
    getattr := fun _ _ _ => .stuck
    hasattr := fun _ _ _ => none
    global := sGlobal
    isinstance := fun _ => sIsinstance
    pure := fun _ _ _ _ => .stuck
    call := sCall X
    callFn := sCallFn
    super := sSuper X
    fuel := fun _ => X.T.n + 2 }

/-- `InheritableSelectResults(sourceClass = s, clause, **ops)` : the translated `__init__` on a new object -/
def selInitX (X : SCtx) (w : SW) (s : Nat) (clause ops : SVal) : CallRes SW :=
  PyIS.run (sIface X (.ref 10 0)) selInitProg [.cls s, clause, .none, .none, ops] w


/-! ### `InheritableSQLObject.selectBy`, translated

Additional interface: `cls.sqlmeta.columns` : the dict `name ↦ column object` of the class's own columns (+ `childName` for
an inheritable class); `column.foreignKey` / `column.foreignName` : None (the class trees of this model have no foreign
keys); `cls.q` : a handle; `getattr(cls.q, <name of column k of class a>)` : the field `.fldCol a k` when the column is
declared by the class or an ancestor (`__classinit__` copies the parents' fields into `cls.q`), else AttributeError;
`isinstance(v, SQLObject)` : `v` is an instance; `cls.SelectResultsClass(cls, clause, connection=conn)` : the TRANSLATED
`InheritableSelectResults.__init__` (`selInitX`) on a new object, which is returned. -/

def colsDictS (T : Tree) (c : Nat) : SVal :=
  PyIS.Val.ofList ((if T.inh c then [PyIS.Val.pair (.str "childName") (.ref 4 c)] else []) ++
    (List.range (T.ncols c)).map fun j => PyIS.Val.pair (.name c j) (.pair (.ref 3 c) (.nat j)))

def bAttrOf (X : SCtx) (w : SW) (v : SVal) (path : List String) : R SVal :=
  match v with
  | .cls c =>
    if path = ["sqlmeta", "columns"] then .ok (colsDictS X.T c)
    else if path = ["q"] then .ok (.ref 11 c)
    else sAttrOf X w v path
  | .pair (.ref 3 _) (.nat _) => if path = ["foreignKey"] ∨ path = ["foreignName"] then .ok .none else .stuck
  | .ref 4 _ => if path = ["foreignKey"] ∨ path = ["foreignName"] then .ok .none else .stuck
  | _ => sAttrOf X w v path

def bGetattr (X : SCtx) (v n : SVal) : R SVal :=
  match v, n with
  | .ref 11 c, .name a k => if attrOK X.T c a k then .ok (.fldCol a k) else .exc ⟨.attributeError, 0⟩
  | _, _ => .stuck

def bIsinstance (v : SVal) (cls : String) : Option Bool :=
  if cls = "SQLObject" then
    (match v with
     | .inst _ _ _ => some true
     | _ => some false)
  else sIsinstance v cls

def bCall (X : SCtx) (w : SW) (recv : SVal) (m : String) (args : List SVal) (kw : List (String × SVal)) (star : SVal) :
    CallRes SW :=
  match recv, args, kw with
  | .cls _, [.cls s, cl], [(n, .conn k)] =>
    if m = "SelectResultsClass" ∧ n = "connection" ∧ star = .none then
      (match selInitX X w s cl (.cons (.pair (.str "connection") (.conn k)) .nil) with
       | .ret w' _ => .ret w' (.ref 10 0)
       | r => r)
    else .stuck
  | _, _, _ => .stuck

def bIface (X : SCtx) (self : SVal) : Iface SW :=
  { sIface X self with
    attrOf := bAttrOf X
    getattr := fun _ => bGetattr X
    isinstance := fun _ => bIsinstance
    call := bCall X }

/-- the `**kw` of `selectBy`: `<column k of class a> = v` -/
def kwS (kvs : List (Nat × Nat × Inherit.Val)) : SVal :=
  PyIS.Val.ofList (kvs.map fun y => PyIS.Val.pair (.name y.1 y.2.1) (.int y.2.2))

/-- `<cls c>.selectBy(connection, **kw)` -/
def selectByX (X : SCtx) (w : SW) (c : Nat) (connv : SVal) (kvs : List (Nat × Nat × Inherit.Val)) : CallRes SW :=
  PyIS.run (bIface X (.cls c)) selectByProg [connv, kwS kvs] w


/-! ### `InheritableSQLObject._findAlternateID`, translated

Additional interface: `cls.selectBy(connection, **{name: value})` : the TRANSLATED `selectBy` (`selectByX`), and `list(…)`
of the select object it returns: the instances `InheritableIteration` delivers for the ids `ids` of the query's rows, in the
order the database returns them (`ids` is a parameter; the theorems assume: its members are exactly the ids of the rows
of the query): the most-derived instance `get` yields for that id through `cls`;  `inst.id` : the id. -/

/-- the instance delivered for id `j` selected through class `c` on connection `k` -/
def instVal (T : Tree) (db : DB) (k c j : Nat) : SVal :=
  match get T db c j with
  | .ok m => .inst k m j
  | _ => .none

def aAttrOf (X : SCtx) (w : SW) (v : SVal) (path : List String) : R SVal :=
  match v with
  | .inst _ _ j => if path = ["id"] then .ok (.nat j) else .stuck
  | _ => bAttrOf X w v path

def aCall (X : SCtx) (ids : List Nat) (w : SW) (recv : SVal) (m : String) (args : List SVal) (kw : List (String × SVal))
    (star : SVal) : CallRes SW :=
  match recv, args, star with
  | .cls c, [connv], .cons (.pair (.name a k) (.int v)) .nil =>
    if m = "selectBy" ∧ kw = [] then
      (match selectByX X w c connv [(a, k, v)] with
       | .ret w' _ =>
         (match w'.made with
          | some md => .ret w' (PyIS.Val.ofList (ids.map (instVal X.T (w'.cur md.conn) md.conn c)))
          | none => .stuck)
       | r => r)
    else .stuck
  | _, _, _ => bCall X w recv m args kw star

def aIface (X : SCtx) (ids : List Nat) (self : SVal) : Iface SW :=
  { bIface X self with
    attrOf := aAttrOf X
    call := aCall X ids }

/-- `<cls c>._findAlternateID(<name of column k of a>, dbName, v, connection)` -/
def findAltX (X : SCtx) (ids : List Nat) (w : SW) (c a k : Nat) (v : Inherit.Val) (connv : SVal) : CallRes SW :=
  PyIS.run (aIface X ids (.cls c)) findAlternateIDProg [.name a k, .none, .int v, connv] w


/-! ### `InheritableSQLObject.select`, translated (with its nested functions `_get_patched` / `_patch_id_clause`)

SQL expressions are immutable VALUES here; `_patch_id_clause(clause)` changes the clause object in place in Python, the
embedding writes the patched value back to the caller's local (`procCall`): the same thing as long as the clause object
(and its sub-expressions) is not shared with another clause that is used afterwards — the hypothesis under which the
theorems about `select` are stated.

Additional interface: an `SQLOp` (`AND`, `OR`, a comparison, `IN`) has `expr1` / `expr2` (`sqlExpr1/2`; `SQLTrueClause` and
`NOT x` — an `SQLPrefix` — are no `SQLOp`); a field `cls.q.<name>` has `tableName` / `fieldName`; `isinstance(v,
sqlbuilder.SQLOp / sqlbuilder.Field / string_type)`; `cls.q.childName` : `.fldKind c`; `cls.sqlmeta.childName` : the name;
`parentClass.select(clause, childUpdate=False, *args, **kwargs)` : the translated `select` itself at the parent class
(`Calls`-style parameter, then the fuel iteration `selectN`); `super().select(clause, *args, **kwargs)` :
`SQLObject.select` = `cls.SelectResultsClass(cls, clause, **kwargs)` = the translated `InheritableSelectResults.__init__`,
returning the new select object.  `*args` is empty in the theorems. -/

def sqlExpr1 : Sql → Option SVal
  | .and x _ => some (.sql x)
  | .or x _ => some (.sql x)
  | .col a k _ _ => some (.fldCol a k)
  | .idc a _ _ => some (.fldId a)
  | .idEq a _ => some (.fldId a)
  | .idIn a _ => some (.fldId a)
  | .kind p _ => some (.fldKind p)
  | _ => none

def sqlExpr2 : Sql → Option SVal
  | .and _ y => some (.sql y)
  | .or _ y => some (.sql y)
  | .col _ _ _ v => some (.int v)
  | .idc _ _ v => some (.int v)
  | .idEq _ b => some (.fldId b)
  | .idIn _ ids => some (PyIS.Val.ofList (ids.map PyIS.Val.nat))
  | .kind _ c => some (.kindName c)
  | _ => none

/-- `e.expr1 = x` (writing back the value it has changes nothing) -/
def sqlSet1 (e : Sql) (x : SVal) : Option Sql :=
  if sqlExpr1 e = some x then some e else sqlPut1 e x
where sqlPut1 : Sql → SVal → Option Sql
  | .and _ y, .sql x => some (.and x y)
  | .or _ y, .sql x => some (.or x y)
  | .idc _ op v, .fldId a => some (.idc a op v)
  | .idEq _ b, .fldId a => some (.idEq a b)
  | .idIn _ ids, .fldId a => some (.idIn a ids)
  | _, _ => none

def sqlSet2 (e : Sql) (x : SVal) : Option Sql :=
  if sqlExpr2 e = some x then some e else sqlPut2 e x
where sqlPut2 : Sql → SVal → Option Sql
  | .and x _, .sql y => some (.and x y)
  | .or x _, .sql y => some (.or x y)
  | .idEq a _, .fldId b => some (.idEq a b)
  | _, _ => none

/-- attributes of SQL values -/
def vAttrOf (v : SVal) (path : List String) : R SVal :=
  match v with
  | .sql e =>
    if path = ["expr1"] then R.ofOpt (sqlExpr1 e) else if path = ["expr2"] then R.ofOpt (sqlExpr2 e) else .stuck
  | .fldId a => if path = ["tableName"] then .ok (.tab a) else if path = ["fieldName"] then .ok (.str "id") else .stuck
  | .fldCol a k =>
    if path = ["tableName"] then .ok (.tab a) else if path = ["fieldName"] then .ok (.name a k) else .stuck
  | .fldKind a =>
    if path = ["tableName"] then .ok (.tab a) else if path = ["fieldName"] then .ok (.str "childName") else .stuck
  | _ => .stuck

def vIsinstance (v : SVal) (cls : String) : Option Bool :=
  if cls = "sqlbuilder.SQLOp" then
    (match v with
     | .sql e => some (sqlExpr1 e).isSome
     | _ => some false)
  else if cls = "sqlbuilder.Field" then
    (match v with
     | .fldId _ => some true
     | .fldCol _ _ => some true
     | .fldKind _ => some true
     | _ => some false)
  else sIsinstance v cls

def vUpd (v : SVal) (path : List String) (x : SVal) : Option SVal :=
  match v with
  | .sql e =>
    if path = ["expr1"] then (sqlSet1 e x).map PyIS.Val.sql
    else if path = ["expr2"] then (sqlSet2 e x).map PyIS.Val.sql else none
  | _ => none

/-- the interface the nested functions run against (they touch values only) -/
def pIface (proc : String → List SVal → R (SVal × SVal)) : Iface Unit :=
  { self := .none
    attrOf := fun _ => vAttrOf
    setAttrOf := fun _ _ _ _ => none
    getattr := fun _ _ _ => .stuck
    hasattr := fun _ _ _ => none
    global := fun _ => none
    isinstance := fun _ => vIsinstance
    pure := fun _ _ _ _ => .stuck
    call := fun _ _ _ _ _ _ => .stuck
    callFn := fun _ _ _ _ _ => .stuck
    super := fun _ _ _ _ _ => .stuck
    fuel := fun _ => 0
    proc := proc
    updVal := vUpd }

/-- the translated nested functions calling each other, `n` levels deep -/
def cProc : Nat → String → List SVal → R (SVal × SVal)
  | 0 => fun _ _ => .stuck
  | n + 1 => fun f args =>
    if f = "_get_patched" then PyIS.runProc (pIface (cProc n)) select_get_patched args ()
    else if f = "_patch_id_clause" then PyIS.runProc (pIface (cProc n)) select_patch_id_clause args ()
    else .stuck

/-- what `_patch_id_clause` does to a clause: the id column of class `c` becomes the id column of `p`, in every
    `SQLOp` reachable through `SQLOp`s (not below a `NOT`) -/
def patchSql (c p : Nat) : Sql → Sql
  | .and x y => .and (patchSql c p x) (patchSql c p y)
  | .or x y => .or (patchSql c p x) (patchSql c p y)
  | .idc a op v => .idc (if a = c then p else a) op v
  | .idEq a b => .idEq (if a = c then p else a) (if b = c then p else b)
  | .idIn a ids => .idIn (if a = c then p else a) ids
  | e => e

def sqlDepth : Sql → Nat
  | .and x y => max (sqlDepth x) (sqlDepth y) + 1
  | .or x y => max (sqlDepth x) (sqlDepth y) + 1
  | _ => 0

def cAttrOf (X : SCtx) (w : SW) (v : SVal) (path : List String) : R SVal :=
  match v with
  | .cls c =>
    if path = ["q", "childName"] then .ok (.fldKind c)
    else if path = ["sqlmeta", "childName"] then .ok (.kindName c)
    else sAttrOf X w v path
  | .conn _ => sAttrOf X w v path
  | _ => vAttrOf v path

/-- `SQLObject.select(cls, clause, **kwargs)`: the translated `InheritableSelectResults.__init__` on a new object -/
def cSuper (X : SCtx) (self : SVal) (w : SW) (m : String) (args : List SVal) (kw : List (String × SVal)) (star : SVal) :
    CallRes SW :=
  match self, args with
  | .cls c, [cl] =>
    if m = "select" ∧ kw = [] then
      (match selInitX X w c cl star with
       | .ret w' _ => .ret w' (.ref 10 0)
       | r => r)
    else .stuck
  | _, _ => .stuck

/-- `<cls p>.select(clause, childUpdate=False, **kwargs)` -/
def cCall (sel : SW → Nat → SVal → SVal → CallRes SW) (w : SW) (recv : SVal) (m : String) (args : List SVal)
    (kw : List (String × SVal)) (star : SVal) : CallRes SW :=
  match recv, args, kw with
  | .cls p, [cl], [(n, .bool false)] =>
    if m = "select" ∧ n = "childUpdate" then sel w p cl (PyIS.vdSet (.str "childUpdate") (.bool false) star) else .stuck
  | _, _, _ => .stuck

def cIface (X : SCtx) (sel : SW → Nat → SVal → SVal → CallRes SW) (n : Nat) (self : SVal) : Iface SW :=
  { sIface X self with
    attrOf := cAttrOf X
    isinstance := fun _ => vIsinstance
    call := cCall sel
    super := cSuper X self
    proc := cProc n
    updVal := vUpd }

/-- `<cls c>.select(clause, **kwargs)` (no positional extras) -/
def selectX (X : SCtx) (sel : SW → Nat → SVal → SVal → CallRes SW) (n : Nat) (w : SW) (c : Nat) (clause kwargs : SVal) :
    CallRes SW :=
  PyIS.run (cIface X sel n (.cls c)) selectProg [clause, .nil, kwargs] w

/-- the translated `select` calling itself at the parent class -/
def selectN (X : SCtx) (n : Nat) : Nat → SW → Nat → SVal → SVal → CallRes SW
  | 0 => fun _ _ _ _ => .stuck
  | m + 1 => fun w c cl kw => selectX X (selectN X n m) n w c cl kw

end SqlObjVerif.InhSel
