import SqlObjVerif.Model.Inherit
import SqlObjVerif.Model.PyInhSel
import SqlObjVerif.Extracted.PyInhSel
/-!
# C15 — the SELECT side of `sqlobject.inheritance` as TRANSLATED from the source

`selInitX` RUNS the PyInhSel program `vlib/extractors/pyinhsel.py` translated from
`InheritableSelectResults.__init__` on this very run.  The database is the hand model's per-level tables
(`Inherit.DB`); an SQL clause (`PyIS.Sql`) is given the semantics of a SELECT over the cross product of the tables it
uses plus the source class's table (`Sat`): an assignment `σ : table ↦ row id` with a row in every table of the FROM
list that makes the WHERE clause true; the select returns `σ source`.

## The assumed interface (the parameters of the interpreter) for `InheritableSelectResults.__init__`
attributes:
* `cls._connection` : `.conn X.dflt`; `conn.dbName` : a string; `cls.sqlmeta.table` : `.tab c` (distinct classes have
  distinct table names); `cls.sqlmeta.registry` : a handle; `cls.sqlmeta.parentClass` : `T.parent` (None for a root);
  `cls.q.id` : the field `.fldId c`;
* `isinstance(v, str)` / `isinstance(v, string_type)` : `v` is a string value (an `Sql` clause is not);
* `sqlbuilder.SQLTrueClause` : the clause `tt`;
calls:
* `tablesUsedSet(clause, dbName)` : the set of the table names `Sql.tables` of the clause (set iteration order is never
  observed by the translated code: only `in`, `add`, `update`);
* `classregistry.registry(r).allClasses()` : the classes `X.reg` of the registry, in ANY order (`X.reg` is a
  parameter; the theorems assume it lists every class of the tree once);
* `super(InheritableSelectResults, self).__init__(sourceClass, clause, clauseTables, **ops)` : `SelectResults.__init__`
  records source class, clause and connection (`ops['connection']`, else the class's) in the new object (`SW.made`);
  its FROM list is `tablesUsedSet(clause) + [source table]`.
* `while`: at most `T.n + 2` iterations.
-/
namespace SqlObjVerif.InhSel
open SqlObjVerif.PyIS (Iface CallRes R Exc Sql)
open SqlObjVerif.PyIS.Extracted
open SqlObjVerif.Inherit hiding Val Res Cmp Out

abbrev SVal := PyIS.Val

/-! ### semantics of clauses over the per-level tables -/

def cmpEval : PyIS.Cmp → Int → Int → Bool
  | .eq, x, y => x == y
  | .ne, x, y => x != y
  | .lt, x, y => decide (x < y)
  | .le, x, y => decide (x ≤ y)
  | .gt, x, y => decide (x > y)
  | .ge, x, y => decide (x ≥ y)

def cmpOf : Inherit.Cmp → PyIS.Cmp
  | .eq => .eq | .ne => .ne | .lt => .lt | .le => .le | .gt => .gt | .ge => .ge

/-- tables a clause uses (`tablesUsedSet`) -/
def sqlTables : Sql → List Nat
  | .tt => []
  | .col a _ _ _ => [a]
  | .idc a _ _ => [a]
  | .idEq a b => [a, b]
  | .idIn a _ => [a]
  | .kind p _ => [p]
  | .and x y => sqlTables x ++ sqlTables y
  | .or x y => sqlTables x ++ sqlTables y
  | .not x => sqlTables x

/-- the `childName` column of row `i` of table `p` holds the name of class `c` -/
def kindIs (db : DB) (p i c : Nat) : Bool :=
  match db p i with
  | some r => r.child == some c
  | none => false

/-- truth of a clause in the joined row `σ` (table ↦ id of the row taken from it) -/
def sqlEval (db : DB) (σ : Nat → Nat) : Sql → Bool
  | .tt => true
  | .col a k op v => cmpEval op (look db (σ a) a k) v
  | .idc a op v => cmpEval op (σ a : Int) v
  | .idEq a b => σ a == σ b
  | .idIn a ids => ids.contains (σ a)
  | .kind p c => kindIs db p (σ p) c
  | .and x y => sqlEval db σ x && sqlEval db σ y
  | .or x y => sqlEval db σ x || sqlEval db σ y
  | .not x => !(sqlEval db σ x)

/-- `σ` is a row of `SELECT … FROM <tables of e>, <table of s> WHERE e` -/
def Sat (db : DB) (s : Nat) (e : Sql) (σ : Nat → Nat) : Prop :=
  (∀ a, a ∈ sqlTables e ++ [s] → db.has a (σ a) = true) ∧ sqlEval db σ e = true

/-- a hand-model filter as a clause; an id comparison is on the id column of table `t` -/
def sqlOf (t : Nat) : Filter → Sql
  | .tt => .tt
  | .attr a k op v => .col a k (cmpOf op) v
  | .idc op v => .idc t (cmpOf op) v
  | .and f g => .and (sqlOf t f) (sqlOf t g)
  | .or f g => .or (sqlOf t f) (sqlOf t g)
  | .not f => .not (sqlOf t f)

/-- the clause `cls.select(f)` hands to `InheritableSelectResults` (source class: the root): the filter, an id
    comparison rewritten onto the parent's id column, AND `parent.childName == cls` -/
def selClause (T : Tree) (c : Nat) (f : Filter) : Sql :=
  match T.parent c with
  | none => sqlOf c f
  | some p => .and (sqlOf p f) (.kind p c)

/-- the clause `cls.selectBy(**kw)` builds: the conjunction of `column == value` (`tt` without keywords) -/
def byClause : List (Nat × Nat × Inherit.Val) → Sql
  | [] => .tt
  | x :: l => l.foldl (fun acc y => .and acc (.col y.1 y.2.1 .eq y.2.2)) (.col x.1 x.2.1 .eq x.2.2)

/-! ### the join-chain computation of `InheritableSelectResults.__init__` as pure functions on association lists -/

abbrev AL := List (Nat × Nat)

def alGet (k : Nat) : AL → Option Nat
  | [] => none
  | (k', v) :: t => if k' = k then some v else alGet k t

def alSet (k v : Nat) : AL → AL
  | [] => [(k, v)]
  | (k', v') :: t => if k' = k then (k, v) :: t else (k', v') :: alSet k v t

def alDel (k : Nat) : AL → AL
  | [] => []
  | (k', v') :: t => if k' = k then t else (k', v') :: alDel k t

/-- one step of `while currentClass:` at class `y`, walking up from `x` -/
def step3 (copy : AL) (x : Nat) (R : AL) (y : Nat) : AL :=
  if (alGet y copy).isSome then alSet x y (if (alGet y R).isSome then alDel y R else R) else R

/-- one step of `for childClass in tableRegistryCopy:` -/
def step2 (T : Tree) (copy : AL) (R : AL) (x : Nat) : AL :=
  if (alGet x R).isSome then (T.anc x).foldl (step3 copy x) R else R

/-- the join conditions `cur.id == parent.id` from the first class of the chain up to `t` -/
def linksTo (t : Nat) : List Nat → List Sql
  | a :: b :: l => if a = t then [] else .idEq a b :: linksTo t (b :: l)
  | _ => []

/-- one step of `for registryClass in allClasses:` (`tabs`: the table set) -/
def regStep (tabs : List Nat) (R : AL) (c : Nat) : AL := if tabs.contains c then alSet c c R else R

/-- the classes whose table the query uses -/
def usedKeys (reg : List Nat) (s : Nat) (g : Sql) : List Nat := reg.filter fun c => (sqlTables g ++ [s]).contains c

def idAL (ks : List Nat) : AL := ks.map fun c => (c, c)

/-- `tableRegistry` after the second loop: the deepest used classes ↦ their topmost used ancestor -/
def registryOf (T : Tree) (reg : List Nat) (s : Nat) (g : Sql) : AL :=
  (usedKeys reg s g).foldl (step2 T (idAL (usedKeys reg s g))) (idAL (usedKeys reg s g))

def joinsOf (T : Tree) (R : AL) : List Sql := R.flatMap fun p => linksTo p.2 (T.anc p.1)

/-- the clause `InheritableSelectResults.__init__` hands to `SelectResults.__init__` -/
def initClause (T : Tree) (reg : List Nat) (s : Nat) (g : Sql) : Sql :=
  (joinsOf T (registryOf T reg s g)).foldl Sql.and g

/-! ### the world and the interface -/

/-- what `SelectResults.__init__` received -/
structure Made where
  src : Nat
  clause : Sql
  conn : Nat
deriving DecidableEq, Repr

structure SW where
  cur : Nat → DB
  made : Option Made

structure SCtx where
  T : Tree
  dflt : Nat
  /-- `allClasses()` of the registry, in the order it yields them -/
  reg : List Nat

def sClassOpt : Option Nat → SVal
  | some p => .cls p
  | none => .none

def isStr : SVal → Bool
  | .str _ => true
  | .tab _ => true
  | .kindName _ => true
  | _ => false

def tabSet (l : List Nat) : SVal := PyIS.Val.ofList (l.map PyIS.Val.tab)

def dictV (l : AL) : SVal := PyIS.Val.ofList (l.map fun p => PyIS.Val.pair (.cls p.1) (.cls p.2))

def sAttrOf (X : SCtx) (_w : SW) (v : SVal) (path : List String) : R SVal :=
  match v with
  | .cls c =>
    if path = ["_connection"] then .ok (.conn X.dflt)
    else if path = ["sqlmeta", "table"] then .ok (.tab c)
    else if path = ["sqlmeta", "registry"] then .ok (.ref 8 0)
    else if path = ["sqlmeta", "parentClass"] then .ok (sClassOpt (X.T.parent c))
    else if path = ["q", "id"] then .ok (.fldId c)
    else .stuck
  | .conn _ => if path = ["dbName"] then .ok (.str "sqlite") else .stuck
  | _ => .stuck

def sGlobal (n : String) : Option SVal :=
  if n = "sqlbuilder.SQLTrueClause" then some (.sql .tt)
  else if n = "tablesUsedSet" then some (.ref 9 0)
  else if n = "classregistry.registry" then some (.ref 9 1)
  else none

def sIsinstance (v : SVal) (cls : String) : Option Bool :=
  if cls = "str" ∨ cls = "string_type" then some (isStr v) else none

def sCallFn (w : SW) (f : SVal) (args : List SVal) (kw : List (String × SVal)) (star : SVal) : CallRes SW :=
  match f, args with
  | .ref 9 0, [.sql e, _] => if kw = [] ∧ star = .none then .ret w (tabSet (sqlTables e)) else .stuck
  | .ref 9 1, [.ref 8 0] => if kw = [] ∧ star = .none then .ret w (.ref 8 1) else .stuck
  | _, _ => .stuck

def sCall (X : SCtx) (w : SW) (recv : SVal) (m : String) (args : List SVal) (kw : List (String × SVal)) (star : SVal) :
    CallRes SW :=
  match recv with
  | .ref 8 1 =>
    if m = "allClasses" ∧ args = [] ∧ kw = [] ∧ star = .none then .ret w (PyIS.Val.ofList (X.reg.map PyIS.Val.cls))
    else .stuck
  | _ => .stuck

/-- the connection `SelectResults` will use -/
def connArg (X : SCtx) (ops : SVal) : Option Nat :=
  match PyIS.vdGet (.str "connection") ops with
  | some (.conn k) => some k
  | some .none => some X.dflt
  | none => some X.dflt
  | _ => none

def sSuper (X : SCtx) (w : SW) (m : String) (args : List SVal) (kw : List (String × SVal)) (star : SVal) : CallRes SW :=
  match args with
  | [.cls s, .sql e, _] =>
    if m = "__init__" ∧ kw = [] then
      (match connArg X star with
       | some k => .ret { w with made := some ⟨s, e, k⟩ } .none
       | none => .stuck)
    else .stuck
  | _ => .stuck

def sIface (X : SCtx) (self : SVal) : Iface SW :=
  { self := self
    attrOf := sAttrOf X
    setAttrOf := fun _ _ _ _ => none
    getattr := fun _ _ _ => .stuck
    hasattr := fun _ _ _ => none
    global := sGlobal
    isinstance := fun _ => sIsinstance
    pure := fun _ _ _ _ => .stuck
    call := sCall X
    callFn := sCallFn
    super := sSuper X
    fuel := fun _ => X.T.n + 2 }

/-- `InheritableSelectResults(sourceClass = s, clause, **ops)` : the translated `__init__` on a new object -/
def selInitX (X : SCtx) (w : SW) (s : Nat) (clause ops : SVal) : CallRes SW :=
  PyIS.run (sIface X (.ref 10 0)) selInitProg [.cls s, clause, .none, .none, ops] w


/-! ### `InheritableSQLObject.selectBy`, translated

Additional interface: `cls.sqlmeta.columns` : the dict `name ↦ column object` of the class's own columns (+ `childName` for
an inheritable class); `column.foreignKey` / `column.foreignName` : None (the class trees of this model have no foreign
keys); `cls.q` : a handle; `getattr(cls.q, <name of column k of class a>)` : the field `.fldCol a k` when the column is
declared by the class or an ancestor (`__classinit__` copies the parents' fields into `cls.q`), else AttributeError;
`isinstance(v, SQLObject)` : `v` is an instance; `cls.SelectResultsClass(cls, clause, connection=conn)` : the TRANSLATED
`InheritableSelectResults.__init__` (`selInitX`) on a new object, which is returned. -/

def colsDictS (T : Tree) (c : Nat) : SVal :=
  PyIS.Val.ofList ((if T.inh c then [PyIS.Val.pair (.str "childName") (.ref 4 c)] else []) ++
    (List.range (T.ncols c)).map fun j => PyIS.Val.pair (.name c j) (.pair (.ref 3 c) (.nat j)))

def bAttrOf (X : SCtx) (w : SW) (v : SVal) (path : List String) : R SVal :=
  match v with
  | .cls c =>
    if path = ["sqlmeta", "columns"] then .ok (colsDictS X.T c)
    else if path = ["q"] then .ok (.ref 11 c)
    else sAttrOf X w v path
  | .pair (.ref 3 _) (.nat _) => if path = ["foreignKey"] ∨ path = ["foreignName"] then .ok .none else .stuck
  | .ref 4 _ => if path = ["foreignKey"] ∨ path = ["foreignName"] then .ok .none else .stuck
  | _ => sAttrOf X w v path

def bGetattr (X : SCtx) (v n : SVal) : R SVal :=
  match v, n with
  | .ref 11 c, .name a k => if attrOK X.T c a k then .ok (.fldCol a k) else .exc ⟨.attributeError, 0⟩
  | _, _ => .stuck

def bIsinstance (v : SVal) (cls : String) : Option Bool :=
  if cls = "SQLObject" then
    (match v with
     | .inst _ _ _ => some true
     | _ => some false)
  else sIsinstance v cls

def bCall (X : SCtx) (w : SW) (recv : SVal) (m : String) (args : List SVal) (kw : List (String × SVal)) (star : SVal) :
    CallRes SW :=
  match recv, args, kw with
  | .cls _, [.cls s, cl], [(n, .conn k)] =>
    if m = "SelectResultsClass" ∧ n = "connection" ∧ star = .none then
      (match selInitX X w s cl (.cons (.pair (.str "connection") (.conn k)) .nil) with
       | .ret w' _ => .ret w' (.ref 10 0)
       | r => r)
    else .stuck
  | _, _, _ => .stuck

def bIface (X : SCtx) (self : SVal) : Iface SW :=
  { sIface X self with
    attrOf := bAttrOf X
    getattr := fun _ => bGetattr X
    isinstance := fun _ => bIsinstance
    call := bCall X }

/-- the `**kw` of `selectBy`: `<column k of class a> = v` -/
def kwS (kvs : List (Nat × Nat × Inherit.Val)) : SVal :=
  PyIS.Val.ofList (kvs.map fun y => PyIS.Val.pair (.name y.1 y.2.1) (.int y.2.2))

/-- `<cls c>.selectBy(connection, **kw)` -/
def selectByX (X : SCtx) (w : SW) (c : Nat) (connv : SVal) (kvs : List (Nat × Nat × Inherit.Val)) : CallRes SW :=
  PyIS.run (bIface X (.cls c)) selectByProg [connv, kwS kvs] w

end SqlObjVerif.InhSel
