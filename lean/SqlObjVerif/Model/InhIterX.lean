import SqlObjVerif.Model.PyInhSel
import SqlObjVerif.Extracted.PyInhSel
/-!
# C15 — `InheritableIteration.fetchChildren` as TRANSLATED from the source, with the TWO cursors explicit

`fetchChildrenX` RUNS the PyInhSel program translated from `sqlobject/inheritance/iteration.py` on this run.  The world
`IW` holds what the iteration object owns: the rows still pending on ITS OWN cursor (`c1`, the part of the select's result
that `fetchmany()` has not delivered yet), the rows pending on the second cursor `rawconn.cursor()` opens for the children
prefetch (`c2`), `self._results` (the current batch) and `self._childrenResults`.

## The assumed interface
* `self._childNameIdx` : `X.cni`; `self._results` / `self._childrenResults` : the world's fields; `self.dbconn` : `.conn X.k`;
  `self.rawconn` : a handle; `self.cursor` : the iteration's own cursor `.ref 20 1`; `dbconn.debug` : False;
  `self.select.sourceClass.sqlmeta.registry` : a handle; `klass.q.id` : `.fldId d`;
* `rawconn.cursor()` : a NEW cursor `.ref 20 2` (nothing pending); `findClass(name, registry)` : the class of that name;
  `klass.select(clause, childUpdate=True, connection=dbconn)` : a select object (class, clause), no delegation;
  `dbconn.queryForSelect(select)` : the query (kept abstract: the same pair);
* `dbconn._executeRetry(rawconn, cursor, query)` : the rows `X.rowsFor d clause` the database answers become the pending
  rows OF THAT CURSOR — whatever was pending on it is gone; `cursor.fetchall()` : the pending rows of that cursor, none left.
-/
namespace SqlObjVerif.InhIter
open SqlObjVerif.PyIS
open SqlObjVerif.PyIS.Extracted

structure IW where
  c1 : List Val
  c2 : List Val
  results : Val
  children : Val

structure ICtx where
  cni : Option Nat
  k : Nat
  rowsFor : Nat → Sql → List Val

def cniVal : Option Nat → Val
  | some n => .nat n
  | none => .none

def iAttrOf (X : ICtx) (w : IW) (v : Val) (path : List String) : R Val :=
  match v with
  | .ref 30 0 =>
    if path = ["_childNameIdx"] then .ok (cniVal X.cni)
    else if path = ["_results"] then .ok w.results
    else if path = ["_childrenResults"] then .ok w.children
    else if path = ["dbconn"] then .ok (.conn X.k)
    else if path = ["rawconn"] then .ok (.ref 21 0)
    else if path = ["cursor"] then .ok (.ref 20 1)
    else if path = ["select", "sourceClass", "sqlmeta", "registry"] then .ok (.ref 8 0)
    else .stuck
  | .cls d => if path = ["q", "id"] then .ok (.fldId d) else .stuck
  | .conn _ => if path = ["debug"] then .ok (.bool false) else .stuck
  | _ => .stuck

def iSetAttrOf (w : IW) (v : Val) (path : List String) (x : Val) : Option IW :=
  match v with
  | .ref 30 0 => if path = ["_childrenResults"] then some { w with children := x } else none
  | _ => none

def iCallFn (w : IW) (f : Val) (args : List Val) (kw : List (String × Val)) (star : Val) : CallRes IW :=
  match f, args with
  | .ref 9 2, [.kindName d, .ref 8 0] => if kw = [] ∧ star = .none then .ret w (.cls d) else .stuck
  | _, _ => .stuck

def iCall (X : ICtx) (w : IW) (recv : Val) (m : String) (args : List Val) (kw : List (String × Val)) (star : Val) :
    CallRes IW :=
  match recv with
  | .ref 21 0 => if m = "cursor" ∧ args = [] ∧ kw = [] then .ret { w with c2 := [] } (.ref 20 2) else .stuck
  | .cls d =>
    (match args, kw with
     | [.sql e], [(n1, .bool true), (n2, .conn _)] =>
       if m = "select" ∧ n1 = "childUpdate" ∧ n2 = "connection" ∧ star = .none then .ret w (.pair (.cls d) (.sql e))
       else .stuck
     | _, _ => .stuck)
  | .conn _ =>
    if m = "queryForSelect" then
      (match args with
       | [q] => .ret w q
       | _ => .stuck)
    else if m = "_executeRetry" then
      (match args with
       | [.ref 21 0, .ref 20 2, .pair (.cls d) (.sql e)] => .ret { w with c2 := X.rowsFor d e } .none
       | [.ref 21 0, .ref 20 1, .pair (.cls d) (.sql e)] => .ret { w with c1 := X.rowsFor d e } .none
       | _ => .stuck)
    else .stuck
  | .ref 20 2 => if m = "fetchall" ∧ args = [] then .ret { w with c2 := [] } (Val.ofList w.c2) else .stuck
  | .ref 20 1 => if m = "fetchall" ∧ args = [] then .ret { w with c1 := [] } (Val.ofList w.c1) else .stuck
  | _ => .stuck

def iIface (X : ICtx) : Iface IW :=
  { self := .ref 30 0
    attrOf := iAttrOf X
    setAttrOf := iSetAttrOf
    getattr := fun _ _ _ => .stuck
    hasattr := fun _ _ _ => none
    global := fun n => if n = "findClass" then some (.ref 9 2) else none
    isinstance := fun _ _ _ => none
    pure := fun _ _ _ _ => .stuck
    call := iCall X
    callFn := iCallFn
    super := fun _ _ _ _ _ => .stuck
    fuel := fun _ => 0 }

/-- `<iteration>.fetchChildren()` -/
def fetchChildrenX (X : ICtx) (w : IW) : CallRes IW := PyIS.run (iIface X) fetchChildrenProg [] w

/-! ### what it computes, as pure functions -/

def tagV : Option Nat → Val
  | some d => .kindName d
  | none => .none

/-- a row of the source class's table: id, the own columns, `childName` -/
def rowV (j : Nat) (cols : List Val) (tag : Option Nat) : Val := .cons (.nat j) (Val.ofList (cols ++ [tagV tag]))

/-- the ids of the batch grouped by `childName`, in order of first appearance -/
def groupStep (g : Val) (r : Nat × List Val × Option Nat) : Val :=
  match r.2.2 with
  | some d => vdSet (.kindName d) (vlAppend (.nat r.1) ((vdGet (.kindName d) g).getD .nil)) g
  | none => g

/-- the clause the children of class `d` are prefetched with -/
def prefetchClause (d : Nat) : List Nat → Sql
  | [i] => .idc d .eq (i : Int)
  | ids => .idIn d ids

/-- `self._childrenResults[row[0]] = row[1:] or (None,)` -/
def storeRow (acc : Val) (r : Nat × Val) : Val :=
  vdSet (.nat r.1) (if pyBool r.2 then r.2 else .cons .none .nil) acc

end SqlObjVerif.InhIter
