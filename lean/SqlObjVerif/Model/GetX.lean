import SqlObjVerif.Model.CacheX
import SqlObjVerif.Model.PyGet
import SqlObjVerif.Extracted.PyGet
/-!
# C04 — the CALLERS of the identity map as TRANSLATED from the source

`vlib/extractors/pyget.py` translates `SQLObject.get / _init / _SO_finishCreate / expire / __getstate__ /
__setstate__ / _SO_fetchAlternateID / _SO_foreignKey`, the tail of `destroySelf`, `Iteration.next` and the methods
of `CacheSet` into PyGet programs on every run (`Extracted/PyGet.lean`).  This file RUNS them on a world `GW`
built around the hand model's state (`Model/Cache.lean`); `Lemmas/GetX*.lean` prove that each of them does what
the hand model's function for that access path does (`GetXBase`: factory calls and the `CacheSet` methods; `GetXGet`:
`_init`, `get`; `GetXLife`: `__setstate__`, `expire`, the `destroySelf` tail, `__getstate__`; `GetXCreate`:
`_SO_finishCreate`; `GetXPaths`: alternate id, foreign key, iteration; `GetXModel` / `GetXInv`: the ties to
`getObj` / `step` and the invariant; `GetXLoops`: the `CacheSet` methods that loop over all factories;
`GetXTx`: C07's interface assumptions about the `CacheSet`; `GetXExpireAll`: `delete`, `connection.expireAll`).
`GetXOrder`: `expire()` of a set of instances is order-independent, `connection.expireAll` = the model's step;
`GetXMeta`: `sqlmeta.expireAll`.

The world: `s` — the hand model's state (rows, factories, objects); `made` — the keys of `CacheSet.caches` (the
classes that have a `CacheFactory`; `WF`: a class without one has the empty factory in `s`); `lock c` — the lock of
class `c`'s factory; `wlock h` — `instance._SO_writeLock`; `dirty h` — `instance.sqlmeta.dirty`; `falsy` — which
instances are falsy; `lazyCols`, `cursor` — the select an `Iteration` runs (`ops['lazyColumns']`, the ids its
cursor will still produce).

A call of a `CacheFactory` method (`facCall`) RUNS the PyCache program translated from cache.py
(`Model/CacheX.lean`: `getX`, `putX`, …) on `absW w.s c (relOf w.s) w.falsy (w.lock c)` and writes the resulting
factory, lock and liveness back (`GW.back`); a blocked `acquire` (deadlock) is `stuck`.

ASSUMED INTERFACE (everything else is translated):
* ONE connection (the hand model's): `cls._connection`, `instance._connection`, an explicit `connection=` and
  `Iteration.dbconn` are that connection; its `.cache` is the `CacheSet`; `sqlmeta._perConnection` is False;
* class names are injective (`cls.__name__` of class `c` is `.name c`);
* `cls.sqlmeta.idType(id)` returns the (canonical) id;
* the database = the model's table: `_SO_selectOne(inst, cols)` returns a non-empty row iff
  `inst.id ∈ rows inst.__class__`; `queryInsertID(inst, id, names, values)` inserts `id` (or `maxId + 1`) and raises
  when the id exists; `_SO_delete(inst)` removes the row; `_findAlternateID(name, dbName, value, conn)` returns
  `(row, None)` for the row the value designates if it exists, else `(None, None)`; `cursor.fetchone()` produces the
  next id of `cursor` whose row exists, as `(id, columns…)` with at least one column, or `None` at the end;
* `cls(_SO_fetch_no_create=1)` allocates the next handle: an instance of `cls` without id, not obsolete, not
  expired, not dirty, referenced by the caller (`held`); `inst.__init__(_SO_fetch_no_create=1)` resets those flags;
* `threading.Lock()` is a fresh, free lock; `acquire` on a held `_SO_writeLock` blocks (`stuck`);
* `_SO_selectInit(row)` stores column values: nothing the identity map sees;
* `inst.__dict__.copy()` is the pickled state `(id, values-gone flag)` and `inst.__dict__.update(d)` installs it
  (the hand model's pickles);
* the OPAQUE statements (`knownOpaque`) — validator state, `_SO_createValues`, the column-value `delattr` loop,
  signal sending and post-functions, the INSERT's name/value lists, the error-message loop of
  `_SO_fetchAlternateID`, `del d[...]` of non-column entries — change nothing of the above; any other text is `stuck`.
-/
namespace SqlObjVerif.Cache
open SqlObjVerif.PyGet (Val Exc R CallRes Iface)
open SqlObjVerif.PyGet.Extracted

structure GW where
  s : State
  made : List Cls
  lock : Cls → Bool
  wlock : Handle → Bool
  dirty : Handle → Bool
  falsy : Handle → Bool
  lazyCols : Bool
  cursor : List Id

/-- a class that has no `CacheFactory` yet: its (future) factory is empty and its lock free -/
def GW.WF (w : GW) : Prop := ∀ c, c ∉ w.made → w.s.fac c = emptyFactory ∧ w.lock c = false

def VcacheSet : Val := .ref "cacheSet" 0
def Vcaches : Val := .ref "caches" 0
def Vconn : Val := .ref "conn" 0
def VnewFactory : Val := .ref "newFactory" 0
def VnewLock : Val := .ref "newLock" 0
/-- the column values of a fetched row (at least one column) -/
def Vcols : Val := .cons .opq .nil
/-- a fetched row: the id, then the columns -/
def Vrow (k : Id) : Val := .cons (.key k) Vcols
/-- the pickled state of an instance -/
def Vpickle (k : Id) (e : Bool) : Val := .pair (.key k) (.bool e)

/-! ### calls of `CacheFactory` methods: the translated PyCache programs -/

def facOf (pw : PyCache.World) : Factory :=
  { strong := pw.self.cache, weak := pw.self.expiredCache, cullCount := pw.self.cullCount,
    cullOffset := pw.self.cullOffset }

/-- write class `c`'s factory and the liveness of the objects back into the model state -/
def backS (s : State) (c : Cls) (pw : PyCache.World) : State :=
  { s with fac := upd s.fac c (facOf pw), obj := fun h => { s.obj h with dead := pw.dead h } }

def GW.back (w : GW) (c : Cls) (pw : PyCache.World) : GW :=
  { w with s := backS w.s c pw, lock := upd w.lock c pw.self.lock }

def GW.pw (w : GW) (c : Cls) : PyCache.World := absW w.s c (relOf w.s) w.falsy (w.lock c)

def valOfP : PyCache.Val → Val
  | .none => .none
  | .int n => .int n
  | .bool b => .bool b
  | .key k => .key k
  | .obj h => .obj h
  | .wref h => .ref "wref" h

def excOfP : PyCache.Exc → Exc
  | .keyError => .keyError
  | .valueError => .valueError
  | .runtimeError => .runtimeError
  | _ => .other

def facOut (w : GW) (c : Cls) : PyCache.Outcome → CallRes GW
  | .ret pw v => .ret (w.back c pw) (valOfP v)
  | .retList pw l => .ret (w.back c pw) (Val.ofList (l.map valOfP))
  | .exc pw e => .exc (w.back c pw) (excOfP e)
  | .deadlock _ => .stuck
  | .stuck => .stuck

def facCall (w : GW) (c : Cls) (m : String) (args : List Val) : CallRes GW :=
  if m = "get" then (match args with
    | [.key k] => facOut w c (getX (w.pw c) k)
    | _ => .stuck)
  else if m = "put" then (match args with
    | [.key k, .obj h] => facOut w c (putX (w.pw c) k h)
    | _ => .stuck)
  else if m = "finishPut" then (match args with
    | [] => facOut w c (finishPutX (w.pw c))
    | _ => .stuck)
  else if m = "created" then (match args with
    | [.key k, .obj h] => facOut w c (createdX (w.pw c) k h)
    | _ => .stuck)
  else if m = "expire" then (match args with
    | [.key k] => facOut w c (expireX (w.pw c) k)
    | _ => .stuck)
  else if m = "tryGet" then (match args with
    | [.key k] => facOut w c (tryGetX (w.pw c) k)
    | _ => .stuck)
  else if m = "clear" then (match args with
    | [] => facOut w c (clearX (w.pw c))
    | _ => .stuck)
  else if m = "expireAll" then (match args with
    | [] => facOut w c (expireAllX (w.pw c))
    | _ => .stuck)
  else if m = "allIDs" then (match args with
    | [] => facOut w c (allIDsX (w.pw c))
    | _ => .stuck)
  else if m = "getAll" then (match args with
    | [] => facOut w c (getAllX (w.pw c))
    | _ => .stuck)
  else .stuck

/-! ### `CacheSet`: `self.caches` is a dict keyed by class name -/

/-- `self.caches.setdefault(name, CacheFactory(*self.args, **self.kw))` when the class has no factory:
    the new (empty, unlocked) factory is installed -/
def GW.install (w : GW) (c : Cls) : GW :=
  { w with made := w.made ++ [c], s := setFac w.s c emptyFactory, lock := upd w.lock c false }

def csIface : Iface GW where
  self := VcacheSet
  attrOf := fun _ v p =>
    match v with
    | .ref kind _ =>
      if kind = "cacheSet" then
        (if p = ["caches"] then .ok Vcaches else if p = ["args"] then .ok (.ref "args" 0)
         else if p = ["kw"] then .ok (.ref "kw" 0) else .stuck)
      else .stuck
    | .cls c => if p = ["__name__"] then .ok (.name c) else .stuck
    | _ => .stuck
  getattrD := fun _ _ _ _ => .stuck
  setAttrOf := fun _ _ _ _ => none
  global := fun n => some (.ref n 0)
  subscript := fun w d k =>
    if d = Vcaches then
      (match k with
       | .name c => if c ∈ w.made then .ok (.ref "factory" c) else .exc .keyError
       | _ => .stuck)
    else .stuck
  contains := fun w d k =>
    if d = Vcaches then
      (match k with
       | .name c => some (decide (c ∈ w.made))
       | _ => none)
    else none
  values := fun w d => if d = Vcaches then some (w.made.map (fun c => Val.ref "factory" c)) else none
  truthy := fun _ _ => none
  opaqS := fun _ _ => none
  opaqE := fun _ => none
  call := fun w r m as kw =>
    match r, kw with
    | .ref kind c, [] =>
      if kind = "factory" then facCall w c m as
      else if kind = "caches" ∧ m = "setdefault" then
        (match as with
         | [.name c', v] =>
           if c' ∈ w.made then .ret w (.ref "factory" c')
           else if v = VnewFactory then .ret (w.install c') (.ref "factory" c') else .stuck
         | _ => .stuck)
      else .stuck
    | _, _ => .stuck
  callFn := fun w f as kw _ _ =>
    if f = .ref "CacheFactory" 0 ∧ as = [] ∧ kw = [] then .ret w VnewFactory else .stuck

/-- `cacheSet.m(args)`; `tryGet` calls `self.tryGetByName` -/
def csIface2 : Iface GW :=
  { csIface with
    call := fun w r m as kw =>
      if r = VcacheSet ∧ m = "tryGetByName" ∧ kw = [] then
        PyGet.run csIface csTryGetByNameProg as csTryGetByName_nlocals w
      else csIface.call w r m as kw }

/-- a method whose only parameter has the default `None` -/
def padNone (as : List Val) : List Val := if as = [] then [.none] else as

def csCall (w : GW) (m : String) (as : List Val) : CallRes GW :=
  if m = "get" then (if as.length = 2 then PyGet.run csIface csGetProg as csGet_nlocals w else .stuck)
  else if m = "put" then (if as.length = 3 then PyGet.run csIface csPutProg as csPut_nlocals w else .stuck)
  else if m = "finishPut" then (if as.length = 1 then PyGet.run csIface csFinishPutProg as csFinishPut_nlocals w else .stuck)
  else if m = "created" then (if as.length = 3 then PyGet.run csIface csCreatedProg as csCreated_nlocals w else .stuck)
  else if m = "expire" then (if as.length = 2 then PyGet.run csIface csExpireProg as csExpire_nlocals w else .stuck)
  else if m = "tryGet" then (if as.length = 2 then PyGet.run csIface2 csTryGetProg as csTryGet_nlocals w else .stuck)
  else if m = "tryGetByName" then (if as.length = 2 then PyGet.run csIface csTryGetByNameProg as csTryGetByName_nlocals w else .stuck)
  else if m = "clear" then (if as.length ≤ 1 then PyGet.run csIface csClearProg (padNone as) csClear_nlocals w else .stuck)
  else if m = "weakrefAll" then (if as.length ≤ 1 then PyGet.run csIface csWeakrefAllProg (padNone as) csWeakrefAll_nlocals w else .stuck)
  else if m = "getAll" then (if as.length ≤ 1 then PyGet.run csIface csGetAllProg (padNone as) csGetAll_nlocals w else .stuck)
  else if m = "allSubCachesByClassNames" then (if as.length = 0 then PyGet.run csIface csAllSubCachesByClassNamesProg as csAllSubCachesByClassNames_nlocals w else .stuck)
  else if m = "allIDs" then (if as.length = 1 then PyGet.run csIface csAllIDsProg as csAllIDs_nlocals w else .stuck)
  else if m = "allSubCaches" then (if as.length = 0 then PyGet.run csIface csAllSubCachesProg as csAllSubCaches_nlocals w else .stuck)
  else .stuck

/-! ### `SQLObject` / `Iteration`: the interface of the code in main.py and dbconnection.py -/

/-- the texts of the opaque statements of the translated functions (locals as `$<slot>`): none of them changes
    anything the identity map can see -/
def knownOpaque : List String :=
  [ "$4._SO_validatorState = sqlbuilder.SQLObjectState($4)",
    "$3 = [col.dbName for col in self.sqlmeta.columnList]",
    "self._SO_createValues = {}",
    "$1 = self._SO_createValues.items()",
    "$1 = sorted($1, key=lambda c: self.sqlmeta.columns[c[0]].creationOrder)",
    "$2 = [self.sqlmeta.columns[v[0]].dbName for v in $1]",
    "$3 = [v[1] for v in $1]",
    "if not self.sqlmeta.lazyUpdate:\n    del self._SO_createValues\nelse:\n    self._SO_createValues = {}",
    "del self.sqlmeta._creating",
    "$6 = dict([('class', self.__class__), ('id', $0)])",
    "def $7():\n    self.sqlmeta.send(events.RowCreatedSignal, self, $6, $5)\n    for func in $5:\n        func(self)",
    "_postponed_local.postponed_calls.append($7)",
    "for $16 in $0:\n    $16(self)",
    "self.sqlmeta.send(events.RowDestroyedSignal, self, $0)",
    "for $0 in self.sqlmeta.columnList:\n    try:\n        delattr(self, instanceName($0.name))\n    except AttributeError:\n        pass",
    "if self.sqlmeta.lazyUpdate and self._SO_createValues:\n    self.syncUpdate()",
    "del $0['sqlmeta']",
    "del $0['_SO_validatorState']",
    "del $0['_SO_writeLock']",
    "del $0['_SO_createValues']",
    "self._SO_validatorState = sqlbuilder.SQLObjectState(self)",
    "for $8 in range(len($0)):\n    $7.append('%s = %s' % ($0[$8], repr($2[$8])))",
    "$7 = ', '.join($7)" ]

/-- `cls(_SO_fetch_no_create=1)`: the next handle -/
def GW.construct (w : GW) (c : Cls) : GW :=
  { w with
    s := { w.s with obj := upd w.s.obj w.s.n { cls := c, id := 0, held := true, dead := false, obsolete := false,
                                               expired := false },
                    n := w.s.n + 1 }
    dirty := upd w.dirty w.s.n false
    wlock := upd w.wlock w.s.n false }

/-- the first id of the cursor whose row exists, and what is left of the cursor -/
def fetch (rows : List Id) : List Id → Option Id × List Id
  | [] => (none, [])
  | k :: ks => if rows.contains k then (some k, ks) else fetch rows ks

def soAttr (w : GW) (v : Val) (p : List String) : R Val :=
  match v with
  | .cls c =>
    if p = ["sqlmeta"] then .ok (.ref "sqlmeta" c)
    else if p = ["_connection", "cache"] then .ok VcacheSet
    else if p = ["_connection"] then .ok Vconn
    else if p = ["__name__"] then .ok (.name c)
    else .stuck
  | .obj h =>
    if p = ["_connection", "cache"] then .ok VcacheSet
    else if p = ["_connection"] then .ok Vconn
    else if p = ["sqlmeta", "dirty"] then .ok (.bool (w.dirty h))
    else if p = ["sqlmeta", "_perConnection"] then .ok (.bool false)
    else if p = ["id"] then .ok (.key (w.s.obj h).id)
    else if p = ["__class__"] then .ok (.cls (w.s.obj h).cls)
    else if p = ["_SO_writeLock"] then .ok (.ref "wlock" h)
    else if p = ["__dict__"] then .ok (.ref "dict" h)
    else .stuck
  | .ref kind i =>
    if kind = "conn" then (if p = ["cache"] then .ok VcacheSet else .stuck)
    else if kind = "sqlmeta" then (if p = ["soClass"] then .ok (.cls i) else .stuck)
    else if kind = "iter" then
      (if p = ["cursor"] then .ok (.ref "cursor" i)
       else if p = ["select", "ops"] then .ok (.ref "ops" i)
       else if p = ["select", "sourceClass"] then .ok (.cls i)
       else if p = ["dbconn"] then .ok Vconn
       else .stuck)
    else .stuck
  | _ => .stuck

def soSetAttr (w : GW) (v : Val) (p : List String) (x : Val) : Option GW :=
  match v with
  | .obj h =>
    if p = ["id"] then (match x with
      | .key k => some { w with s := setObj w.s h { w.s.obj h with id := k } }
      | _ => none)
    else if p = ["sqlmeta", "expired"] then (match x with
      | .bool b => some { w with s := setObj w.s h { w.s.obj h with expired := b } }
      | _ => none)
    else if p = ["sqlmeta", "_obsolete"] then (match x with
      | .bool b => some { w with s := setObj w.s h { w.s.obj h with obsolete := b } }
      | _ => none)
    else if p = ["sqlmeta", "dirty"] then (match x with
      | .bool b => some { w with dirty := upd w.dirty h b }
      | _ => none)
    else if p = ["_SO_writeLock"] then (if x = VnewLock then some { w with wlock := upd w.wlock h false } else none)
    else none
  | _ => none

/-- calls on the connection: the database is the model's table -/
def connCall (w : GW) (m : String) (as : List Val) : CallRes GW :=
  if m = "_SO_selectOne" then (match as with
    | [.obj h, _] =>
      .ret w (if (w.s.rows (w.s.obj h).cls).contains (w.s.obj h).id then Vcols else .none)
    | _ => .stuck)
  else if m = "queryInsertID" then (match as with
    | [.obj h, idv, _, _] =>
      let c := (w.s.obj h).cls
      let ins : Id → CallRes GW := fun k =>
        if (w.s.rows c).contains k then .exc w .duplicate
        else .ret { w with s := { w.s with rows := upd w.s.rows c (w.s.rows c ++ [k]),
                                           maxId := upd w.s.maxId c (max (w.s.maxId c) k) } } (.key k)
      (match idv with
       | .none => ins (w.s.maxId c + 1)
       | .key k => ins k
       | _ => .stuck)
    | _ => .stuck)
  else if m = "_SO_delete" then (match as with
    | [.obj h] =>
      let o := w.s.obj h
      .ret { w with s := { w.s with rows := upd w.s.rows o.cls ((w.s.rows o.cls).filter (fun x => decide (x ≠ o.id))) } } .none
    | _ => .stuck)
  else .stuck

/-- calls the code makes on objects other than the cache set; `ext`: the calls of translated functions
    (`_init`, `get`), supplied layer by layer -/
def soCall (ext : GW → Val → String → List Val → List (String × Val) → CallRes GW)
    (w : GW) (r : Val) (m : String) (as : List Val) (kw : List (String × Val)) : CallRes GW :=
  match r with
  | .ref kind i =>
    if kind = "cacheSet" then (if kw = [] then csCall w m as else .stuck)
    else if kind = "conn" then (if kw = [] then connCall w m as else .stuck)
    else if kind = "sqlmeta" then
      (if m = "idType" ∧ kw = [] then (match as with
         | [.key k] => .ret w (.key k)
         | _ => .stuck)
       else .stuck)
    else if kind = "wlock" then
      (if m = "acquire" ∧ as = [] ∧ kw = [] then
         (if w.wlock i then .stuck else .ret { w with wlock := upd w.wlock i true } .none)
       else if m = "release" ∧ as = [] ∧ kw = [] then
         (if w.wlock i then .ret { w with wlock := upd w.wlock i false } .none else .exc w .runtimeError)
       else .stuck)
    else if kind = "dict" then
      (if m = "copy" ∧ as = [] ∧ kw = [] then .ret w (Vpickle (w.s.obj i).id (w.s.obj i).expired)
       else if m = "update" ∧ kw = [] then (match as with
         | [.pair (.key k) (.bool e)] => .ret { w with s := setObj w.s i { w.s.obj i with id := k, expired := e } } .none
         | _ => .stuck)
       else .stuck)
    else if kind = "cursor" then
      (if m = "fetchone" ∧ as = [] ∧ kw = [] then
         (match fetch (w.s.rows i) w.cursor with
          | (some k, rest) => .ret { w with cursor := rest } (Vrow k)
          | (none, rest) => .ret { w with cursor := rest } .none)
       else .stuck)
    else if kind = "ops" then
      (if m = "get" ∧ as = [.str "lazyColumns", .int 0] ∧ kw = [] then .ret w (.bool w.lazyCols) else .stuck)
    else if kind = "iter" then
      (if m = "_cleanup" ∧ as = [] ∧ kw = [] then .ret w .none else .stuck)
    else .stuck
  | .obj h =>
    if m = "_SO_selectInit" ∧ as.length = 1 ∧ kw = [] then .ret w .none
    else if m = "__init__" ∧ as = [] ∧ kw = [("_SO_fetch_no_create", .int 1)] then
      .ret { w with s := setObj w.s h { w.s.obj h with obsolete := false, expired := false },
                    dirty := upd w.dirty h false } .none
    else ext w r m as kw
  | .cls c =>
    if m = "_findAlternateID" ∧ kw = [] then (match as with
      | [_, _, .key k, _] => .ret w (.pair (if (w.s.rows c).contains k then Vrow k else .none) .none)
      | _ => .stuck)
    else ext w r m as kw
  | _ => .stuck

def soIface (self : Val) (ext : GW → Val → String → List Val → List (String × Val) → CallRes GW) : Iface GW where
  self := self
  attrOf := soAttr
  getattrD := fun _ v n _ => match v with
    | .obj _ => if n = "_connection" then .ok Vconn else .stuck
    | _ => .stuck
  setAttrOf := soSetAttr
  global := fun n => some (.ref n 0)
  subscript := fun _ _ _ => .stuck
  contains := fun _ _ _ => none
  values := fun _ _ => none
  truthy := fun w v => match v with
    | .obj h => some (!w.falsy h)
    | .ref _ _ => some true
    | .cls _ => some true
    | .opq => some true
    | _ => none
  opaqS := fun src w => if src ∈ knownOpaque then some w else none
  opaqE := fun src => if src = "getattr($1.q, $2) == $0" then some .opq else none
  call := soCall ext
  callFn := fun w f as kw _ _ =>
    match f with
    | .cls c => if as = [] ∧ kw = [("_SO_fetch_no_create", .int 1)] then .ret (w.construct c) (.obj w.s.n) else .stuck
    | .ref kind _ => if kind = "threading.Lock" ∧ as = [] ∧ kw = [] then .ret w VnewLock else .stuck
    | _ => .stuck

def noExt : GW → Val → String → List Val → List (String × Val) → CallRes GW := fun _ _ _ _ _ => .stuck

/-- `inst._init(…)` -/
def initCall (w : GW) (h : Handle) (as : List Val) (kw : List (String × Val)) : CallRes GW :=
  match PyGet.bindArgs initRow_params initRow_defaults as kw with
  | some args => PyGet.run (soIface (.obj h) noExt) initRowProg args initRow_nlocals w
  | none => .stuck

def ext1 : GW → Val → String → List Val → List (String × Val) → CallRes GW := fun w r m as kw =>
  match r with
  | .obj h => if m = "_init" then initCall w h as kw else .stuck
  | _ => .stuck

/-- `cls.get(…)` -/
def getCall (w : GW) (c : Cls) (as : List Val) (kw : List (String × Val)) : CallRes GW :=
  match PyGet.bindArgs get_params get_defaults as kw with
  | some args => PyGet.run (soIface (.cls c) ext1) getProg args get_nlocals w
  | none => .stuck

def ext2 : GW → Val → String → List Val → List (String × Val) → CallRes GW := fun w r m as kw =>
  match r with
  | .obj h => if m = "_init" then initCall w h as kw else .stuck
  | .cls c => if m = "get" then getCall w c as kw else .stuck
  | _ => .stuck

/-! ### the translated functions, run -/

def initRowG (w : GW) (h : Handle) (k : Val) (conn sr : Val) : CallRes GW :=
  PyGet.run (soIface (.obj h) noExt) initRowProg [k, conn, sr] initRow_nlocals w

def getG (w : GW) (c : Cls) (k : Id) (conn sr : Val) : CallRes GW :=
  PyGet.run (soIface (.cls c) ext1) getProg [.key k, conn, sr] get_nlocals w

def finishCreateG (w : GW) (h : Handle) (idv : Val) : CallRes GW :=
  PyGet.run (soIface (.obj h) ext1) finishCreateProg [idv] finishCreate_nlocals w

def destroyTailG (w : GW) (h : Handle) : CallRes GW :=
  PyGet.run (soIface (.obj h) ext1) destroyTailProg [] destroyTail_nlocals w

def expireG (w : GW) (h : Handle) : CallRes GW :=
  PyGet.run (soIface (.obj h) ext1) expireProg [] expire_nlocals w

def getstateG (w : GW) (h : Handle) : CallRes GW :=
  PyGet.run (soIface (.obj h) ext1) getstateProg [] getstate_nlocals w

def setstateG (w : GW) (h : Handle) (d : Val) : CallRes GW :=
  PyGet.run (soIface (.obj h) ext1) setstateProg [d] setstate_nlocals w

/-- `cls._SO_fetchAlternateID(name, dbName, value, connection, idxName)`; `value` designates row `k` -/
def fetchAlternateIDG (w : GW) (c : Cls) (k : Id) (conn idx : Val) : CallRes GW :=
  PyGet.run (soIface (.cls c) ext2) fetchAlternateIDProg [.opq, .opq, .key k, conn, idx] fetchAlternateID_nlocals w

/-- `inst._SO_foreignKey(value, joinClass, idName)` -/
def foreignKeyG (w : GW) (h : Handle) (v : Val) (tc : Cls) (idName : Val) : CallRes GW :=
  PyGet.run (soIface (.obj h) ext2) foreignKeyProg [v, .cls tc, idName] foreignKey_nlocals w

/-- `Iteration.next()` of a select over class `c` -/
def iterNextG (w : GW) (c : Cls) : CallRes GW :=
  PyGet.run (soIface (.ref "iter" c) ext2) iterNextProg [] iterNext_nlocals w

/-- `inst.expire()` -/
def expireCall (w : GW) (h : Handle) : CallRes GW :=
  PyGet.run (soIface (.obj h) ext1) expireProg [] expire_nlocals w

/-- `destroy`: what `inst.destroySelf()` does (the cascade is C12's; with no dependent rows it is the translated tail) -/
def ext3 (destroy : GW → Handle → CallRes GW) : GW → Val → String → List Val → List (String × Val) → CallRes GW :=
  fun w r m as kw =>
  match r with
  | .obj h =>
    if m = "_init" then initCall w h as kw
    else if m = "expire" ∧ as = [] ∧ kw = [] then expireCall w h
    else if m = "destroySelf" ∧ as = [] ∧ kw = [] then destroy w h
    else .stuck
  | .cls c => if m = "get" then getCall w c as kw else .stuck
  | _ => .stuck

/-- `cls.delete(id, connection)` -/
def deleteG (destroy : GW → Handle → CallRes GW) (w : GW) (c : Cls) (k : Id) (conn : Val) : CallRes GW :=
  PyGet.run (soIface (.cls c) (ext3 destroy)) deleteProg [.key k, conn] delete_nlocals w

/-- `cls.sqlmeta.expireAll(connection)` -/
def metaExpireAllG (w : GW) (c : Cls) (conn : Val) : CallRes GW :=
  PyGet.run (soIface (.ref "sqlmeta" c) (ext3 (fun _ _ => .stuck))) metaExpireAllProg [conn] metaExpireAll_nlocals w

/-- `connection.expireAll()` -/
def connExpireAllG (w : GW) : CallRes GW :=
  PyGet.run (soIface Vconn (ext3 (fun _ _ => .stuck))) connExpireAllProg [] connExpireAll_nlocals w

/-- the caller keeps the instance it was handed -/
def holdS (s : State) (h : Handle) : State := setObj s h { s.obj h with held := true }

end SqlObjVerif.Cache
