import SqlObjVerif.Model.Events
/-!
# Model `Version` — `sqlobject.versioning` on top of the row-event model (C20)

`Versioning.__addtoclass__` connects `rowUpdate` to the master class's **RowUpdateSignal** (the
*before*-event): it INSERTs a version row holding `instance.sqlmeta.asDict()` (the values the row
has now) with `masterID = instance.id`.  Then `set` / `_SO_setValue` goes on: validation, UPDATE.
`Version.restore()` is `masterClass.get(masterID).set(**all copied columns)`, i.e. an ordinary
update (which snapshots first).  `obj.versions` = `SELECT … WHERE master_id = obj.id`.

Values, kwargs, validation and row update are those of `Model/Events.lean`; by
`C19_assign_is_set` an attribute assignment is `set` with a one-key dict (the Versioning listener
does not edit the kwargs).  Column 0 may be declared `unique` to get an UPDATE the database rejects.
-/
namespace SqlObjVerif.Version
open SqlObjVerif.Events

structure VCfg where
  ncols : Nat
  defaults : List Val
  uniq0 : Bool
  deriving Repr

def VCfg.dflt (c : VCfg) (k : Nat) : Val := (c.defaults[k]?).getD .null

structure VRow where
  vid : Nat
  master : Nat
  vals : List Val
  deriving DecidableEq, Repr

structure VState where
  masters : List (Nat × List Val)
  versions : List VRow                 -- insertion order (= id order = dateArchived order)
  nextM : Nat
  nextV : Nat
  hist : Nat → List (List Val)          -- ghost: successive states of each master row, oldest first

def vinit : VState := ⟨[], [], 1, 1, fun _ => []⟩

inductive VOut where
  | ok | invalid | typeError | duplicate | nohandle
  deriving DecidableEq, Repr

/-- `[v.vals for v in obj.versions]` -/
def versionsOf (s : VState) (m : Nat) : List (List Val) :=
  (s.versions.filter (fun v => v.master = m)).map (·.vals)

/-- the UNIQUE constraint on column 0 would be violated by giving row `m` the value in `vec[0]` -/
def dupl (c : VCfg) (masters : List (Nat × List Val)) (m : Nat) (vec : List (Option Val)) : Bool :=
  c.uniq0 && match vec[0]? with
    | some (some v) => v != .null && masters.any (fun r => r.1 != m && r.2[0]? == some v)
    | _ => false

def newRow (c : VCfg) (kw : Kw) : List Val :=
  (List.range c.ncols).map (fun k => (Kw.get kw k).getD (c.dflt k))

def setHist (s : VState) (m : Nat) (h : List (List Val)) : Nat → List (List Val) :=
  fun x => if x = m then h else s.hist x

/-- `Master(**kw)`: no update signal, no version -/
def vCreate (c : VCfg) (s : VState) (kw : Kw) : VState × VOut :=
  let row := newRow c kw
  if row.contains .bad then (s, .invalid)
  else if unknownKey c.ncols kw then (s, .typeError)
  else if dupl c s.masters s.nextM [row[0]?] then (s, .duplicate)
  else ({ s with masters := s.masters ++ [(s.nextM, row)], nextM := s.nextM + 1,
                 hist := setHist s s.nextM [row] }, .ok)

/-- an update of master `m` with column vector `vec` (`unk`: an unknown keyword was passed):
    RowUpdateSignal → snapshot; then validation; then the UPDATE -/
def vUpdateVec (c : VCfg) (s : VState) (m : Nat) (vec : List (Option Val)) (unk : Bool) : VState × VOut :=
  match rowOf? s.masters m with
  | none => (s, .nohandle)
  | some row =>
    let s1 := { s with versions := s.versions ++ [⟨s.nextV, m, row⟩], nextV := s.nextV + 1 }
    if vecInvalid vec then (s1, .invalid)
    else if unk then (s1, .typeError)
    else if !vecEmpty vec && dupl c s.masters m vec then (s1, .duplicate)
    else if vecEmpty vec then
      -- nothing to write (`set()` without column values): still a snapshot and an unchanged row
      ({ s1 with hist := setHist s m (s.hist m ++ [row]) }, .ok)
    else ({ s1 with masters := updRows s.masters m vec,
                    hist := setHist s m (s.hist m ++ [applyVec row vec]) }, .ok)

def vUpdate (c : VCfg) (s : VState) (m : Nat) (kw : Kw) : VState × VOut :=
  vUpdateVec c s m (colVec c.ncols kw) (unknownKey c.ncols kw)

/-- `version.restore()` -/
def vRestore (c : VCfg) (s : VState) (vid : Nat) : VState × VOut :=
  match s.versions.find? (fun v => v.vid = vid) with
  | none => (s, .nohandle)
  | some v => vUpdateVec c s v.master (v.vals.map some) false

inductive VOp where
  | create (kw : Kw)
  | assign (m : Nat) (k : Key) (v : Val)
  | set (m : Nat) (kw : Kw)
  | restore (vid : Nat)
  deriving Repr

def vstep (c : VCfg) (s : VState) : VOp → VState × VOut
  | .create kw => vCreate c s kw
  | .assign m k v => if k < c.ncols then vUpdate c s m [(k, v)] else (s, .nohandle)
  | .set m kw => vUpdate c s m kw
  | .restore vid => vRestore c s vid

def vrun (c : VCfg) : VState → List VOp → VState
  | s, [] => s
  | s, op :: ops => vrun c (vstep c s op).1 ops

/-- an update (assign / set / restore) was attempted on an existing master and failed -/
def updFailed : VOp → VOut → Bool
  | .create _, _ => false
  | _, .invalid => true
  | _, .typeError => true
  | _, .duplicate => true
  | _, _ => false

/-- no update of the history fails (decidable) -/
def noFailedUpdate (c : VCfg) : VState → List VOp → Bool
  | _, [] => true
  | s, op :: ops => !updFailed op (vstep c s op).2 && noFailedUpdate c (vstep c s op).1 ops

/-! ## Several databases

The class's default connection is database 0; a master made with `Master(connection=conn, …)` (a
second database, or a transaction — its own view until commit) lives in database `d`.  Versions are
written through `instance._connection`, `obj.versions` reads through `obj._connection`, and
`Version.restore()` fetches the master with `masterClass.get(masterID, connection=self._connection)`
(fix 14bb19e), so every operation touches the database of the instance it is called on only. -/

abbrev DState := Nat → VState

def dinit : DState := fun _ => vinit

def dset (S : DState) (d : Nat) (s : VState) : DState := fun x => if x = d then s else S x

def dstep (c : VCfg) (S : DState) (d : Nat) (op : VOp) : DState × VOut :=
  let q := vstep c (S d) op
  (dset S d q.1, q.2)

def drun (c : VCfg) : DState → List (Nat × VOp) → DState
  | S, [] => S
  | S, (d, op) :: ops => drun c (dstep c S d op).1 ops

end SqlObjVerif.Version
