import SqlObjVerif.Model.Like
import SqlObjVerif.Model.PyLex
import SqlObjVerif.Extracted.PyLex
/-!
# C02 / C17 — the literal pipeline as TRANSLATED from the source

`world P n` is the interface under which the PyLex programs that `vlib/extractors/pylex.py` translated from /repo's
`converters.py` / `sqlbuilder.py` / `main.py` / `dbconnection.py` on this very run call EACH OTHER: a call of a
module-level function, a constructor call or a method call of a translated class RUNS the translated callee (in
`world P (n-1)`: `n` bounds the call depth, every theorem holds for all sufficiently large `n`).
`Lemmas/LexX*.lean` prove the runs equal to the hand model (`Lex.renderString`, `Lex.quoteStr`, `Like.unquoteStr`,
`Like.likeSpecial`, `Like.likePattern`, `Like.likeClause`, `Lex.render`, `Lex.insertSQL`, `Lex.updateSQL`) for ALL
inputs and all 7 dialects, so that the theorems of `Props/C02.lean` / `Props/C17.lean` are theorems about the
translated source.

## Interface assumptions (the PARAMETERS, `Ext`)

* `upper c` — CPython's full upper-case mapping of ONE code point (`str.upper()` maps character by character).  The
  theorems about `unquote_str` assume `UpperOK upper`: `E`, `e` map to `E`, `'` to `'`, no other character maps to
  text beginning with `E` or `'`, and no character maps to the empty string (checked exhaustively over all code points
  against the running interpreter by harness/c17.py, stream `upper-table`).
* `isExpr c` — is the class tag `c` (of an object that is not a builtin value / date / time / float / Decimal /
  array / memoryview / connection, `builtinTypes`) an `SQLExpression` subclass other than `LIKE`
  (whose base list is extracted).
* `cm recv m args` — every method call that is not a translated method: `e.__sqlrepr__(db)` of an `SQLExpression`
  object other than `LIKE`, `self.query(text)`, `value.to_eng_string()`, `array.tounicode()`; arbitrary (value or raise).
* `reprOf v` / `strOfObj v` — `repr` / `str` of a value that is not an `int` / `str` (float, memoryview).
* The registry: `lookupConverter(v)` = the LAST `registerConverter(C, f)` of the module with `C` EXACTLY the class of
  `v` (the extractor checks that `ConverterRegistry.lookupConverter` is `self.klass.get(value.__class__, default)` and
  emits the registration table); a class tag without an entry gives `None`.
* Objects: a `datetime.date` / `datetime.time` / `datetime.datetime` is an object with the stored `int` attributes
  `year month day` / `hour minute second microsecond`; a `_LikeQuoted` has `expr prefix postfix`, a `LIKE` has
  `expr string escape` and the class attribute `op` (extracted); an `SQLObject` instance has `id`; a connection has
  `dbName`.  `obj.__sqlrepr__` exists exactly for `_LikeQuoted`, `LIKE`, `SQLObject` and the `isExpr` classes;
  builtin values have no `__sqlrepr__` (AttributeError).
* `isinstance(v, C)`: the class of `v` equals `C` (after the `compat` aliases `string_type = str`,
  `buffer_type = memoryview`, extracted), or `C` is among the extracted direct bases, or `C = SQLExpression` and `isExpr`.
* The database name `db` of dialect `d` is the string `dbName d` (the seven names `lex.py` also uses).
-/
namespace SqlObjVerif.LexX
open SqlObjVerif.PyLex

/-- the `dbName` of a dialect -/
def dbName : Lex.Dialect → Lex.Str
  | .sqlite => [115, 113, 108, 105, 116, 101]
  | .mysql => [109, 121, 115, 113, 108]
  | .postgres => [112, 111, 115, 116, 103, 114, 101, 115]
  | .firebird => [102, 105, 114, 101, 98, 105, 114, 100]
  | .sybase => [115, 121, 98, 97, 115, 101]
  | .maxdb => [109, 97, 120, 100, 98]
  | .mssql => [109, 115, 115, 113, 108]

structure Ext where
  upper : Nat → Lex.Str
  isExpr : String → Bool
  cm : Val → String → List Val → R Val
  reprOf : Val → R Lex.Str
  strOfObj : Val → R Lex.Str

/-- what the theorems about `unquote_str` need to know about `str.upper` -/
structure UpperOK (up : Nat → Lex.Str) : Prop where
  upE : up 69 = [69]
  upe : up 101 = [69]
  upq : up 39 = [39]
  onlyE : ∀ c, (up c).head? = some 69 → c = 69 ∨ c = 101
  onlyQ : ∀ c, (up c).head? = some 39 → c = 39
  nonempty : ∀ c, up c ≠ []

/-- ASCII-only upper-casing satisfies it (non-vacuity) -/
def asciiUpper (c : Nat) : Lex.Str := if 97 ≤ c ∧ c ≤ 122 then [c - 32] else [c]

theorem asciiUpper_ok : UpperOK asciiUpper := by
  refine ⟨by decide, by decide, by decide, ?_, ?_, ?_⟩
  · intro c h
    unfold asciiUpper at h
    split at h <;> simp at h <;> omega
  · intro c h
    unfold asciiUpper at h
    split at h <;> simp at h <;> omega
  · intro c
    unfold asciiUpper
    split <;> simp

def resolve (C : String) : String := (aget C Extracted.aliases).getD C

/-- the class names of the builtin values and of the data objects of this model (never `SQLExpression` subclasses) -/
def builtinTypes : List String := ["NoneType", "bool", "int", "str", "tuple", "list", "function", "method",
  "datetime.date", "datetime.time", "datetime.datetime", "float", "Decimal", "array", "memoryview", "DBAPI"]

def xIsSub (P : Ext) (c C : String) : Bool :=
  c == resolve C || ((aget c Extracted.bases).getD []).contains C ||
    (C == "SQLExpression" && !builtinTypes.contains c && P.isExpr c)

/-- classes whose instances have a `__sqlrepr__` method -/
def hasRepr (P : Ext) (c : String) : Bool :=
  c == "_LikeQuoted" || c == "LIKE" || c == "SQLObject" || (!builtinTypes.contains c && P.isExpr c)

def xGetAttr (P : Ext) (v : Val) (a : String) : R Val :=
  match v with
  | .obj c _ =>
    if a = "__sqlrepr__" then (if hasRepr P c then .ok (.bound v "__sqlrepr__") else .exc .attributeError)
    else if c = "LIKE" then
      match aget a Extracted.LIKE_attrs with
      | some x => .ok x
      | Option.none => .exc .attributeError
    else .exc .attributeError
  | .fn _ => .stuck
  | .bound _ _ => .stuck
  | _ => if a = "__sqlrepr__" then .exc .attributeError else .stuck

def xGlob (name : String) : Option Val :=
  if name = "sqlStringReplace" then some Extracted.sqlStringReplace else Option.none

/-- `lookupConverter(v)`: the last registration for exactly the class of `v` -/
def lookupConverter (v : Val) : Val :=
  match aget (typeName v) Extracted.registry.reverse with
  | some f => .fn f
  | Option.none => .none

/-- the module-level functions of the translated set -/
def progOf (f : String) : Option Block :=
  if f = "StringLikeConverter" then some Extracted.StringLikeConverter
  else if f = "quote_str" then some Extracted.quote_str
  else if f = "unquote_str" then some Extracted.unquote_str
  else if f = "_quote_like_special" then some Extracted.quote_like_special
  else if f = "STARTSWITH" then some Extracted.STARTSWITH
  else if f = "ENDSWITH" then some Extracted.ENDSWITH
  else if f = "CONTAINSSTRING" then some Extracted.CONTAINSSTRING
  else if f = "IntConverter" then some Extracted.IntConverter
  else if f = "BoolConverter" then some Extracted.BoolConverter
  else if f = "NoneConverter" then some Extracted.NoneConverter
  else if f = "FloatConverter" then some Extracted.FloatConverter
  else if f = "DecimalConverter" then some Extracted.DecimalConverter
  else if f = "SequenceConverter" then some Extracted.SequenceConverter
  else if f = "DateTimeConverterMS" then some Extracted.DateTimeConverterMS
  else if f = "DateConverter" then some Extracted.DateConverter
  else if f = "TimeConverterMS" then some Extracted.TimeConverterMS
  else Option.none

/-- a call by name (`I` = the world the callee runs in) -/
def xFn (I : Iface) (f : String) (args : List Val) (kw : List (String × Val)) : R Val :=
  if f = "lookupConverter" then
    match args, kw with
    | [v], [] => .ok (lookupConverter v)
    | _, _ => .stuck
  else if f = "sqlrepr" then
    match args, kw with
    | [v, db], [] => (run I Extracted.sqlrepr [v, db]).toR
    | [v], [] => (run I Extracted.sqlrepr [v, .none]).toR
    | _, _ => .stuck
  else if f = "LIKE" then
    match args, kw with
    | [e, s], [] => construct I "LIKE" Extracted.LIKE_init [e, s, .none]
    | [e, s, x], [] => construct I "LIKE" Extracted.LIKE_init [e, s, x]
    | [e, s], [(k, x)] => if k = "escape" then construct I "LIKE" Extracted.LIKE_init [e, s, x] else .stuck
    | _, _ => .stuck
  else if f = "_LikeQuoted" then
    match args, kw with
    | [e], [] => construct I "_LikeQuoted" Extracted.LikeQuoted_init [e]
    | _, _ => .stuck
  else
    match progOf f, kw with
    | some p, [] => (run I p args).toR
    | _, _ => .stuck

/-- the translated methods -/
def methOf (c m : String) : Option Block :=
  if c = "_LikeQuoted" then
    (if m = "__sqlrepr__" then some Extracted.LikeQuoted_sqlrepr
     else if m = "__add__" then some Extracted.LikeQuoted_add
     else if m = "__radd__" then some Extracted.LikeQuoted_radd
     else Option.none)
  else if c = "LIKE" then (if m = "__sqlrepr__" then some Extracted.LIKE_sqlrepr else Option.none)
  else if c = "SQLObject" then (if m = "__sqlrepr__" then some Extracted.SQLObject_sqlrepr else Option.none)
  else if c = "DBAPI" then
    (if m = "sqlrepr" then some Extracted.conn_sqlrepr
     else if m = "_insertSQL" then some Extracted.insertSQL
     else if m = "_SO_update" then some Extracted.SO_update
     else Option.none)
  else Option.none

def xCm (P : Ext) (I : Iface) (recv : Val) (m : String) (args : List Val) : R Val :=
  match recv with
  | .obj c _ =>
    match methOf c m with
    | some p => (run I p (recv :: args)).toR
    | Option.none => P.cm recv m args
  | _ => P.cm recv m args

def noFn : String → List Val → List (String × Val) → R Val := fun _ _ _ => .stuck

@[reducible] def base (P : Ext) (fn : String → List Val → List (String × Val) → R Val)
    (cm : Val → String → List Val → R Val) : Iface :=
  { glob := xGlob, fn := fn, getAttr := xGetAttr P, callMethod := cm, isSub := xIsSub P, upper := P.upper,
    reprOf := P.reprOf, strOfObj := P.strOfObj }

/-- the interface with call depth `n` -/
def world (P : Ext) : Nat → Iface
  | 0 => base P noFn P.cm
  | n + 1 => base P (xFn (world P n)) (xCm P (world P n))

@[simp] theorem world_glob (P : Ext) (n : Nat) : (world P n).glob = xGlob := by cases n <;> rfl
@[simp] theorem world_getAttr (P : Ext) (n : Nat) : (world P n).getAttr = xGetAttr P := by cases n <;> rfl
@[simp] theorem world_isSub (P : Ext) (n : Nat) : (world P n).isSub = xIsSub P := by cases n <;> rfl
@[simp] theorem world_upper (P : Ext) (n : Nat) : (world P n).upper = P.upper := by cases n <;> rfl
@[simp] theorem world_reprOf (P : Ext) (n : Nat) : (world P n).reprOf = P.reprOf := by cases n <;> rfl
@[simp] theorem world_strOfObj (P : Ext) (n : Nat) : (world P n).strOfObj = P.strOfObj := by cases n <;> rfl
@[simp] theorem world_fn (P : Ext) (n : Nat) : (world P (n + 1)).fn = xFn (world P n) := rfl
@[simp] theorem world_callMethod (P : Ext) (n : Nat) : (world P (n + 1)).callMethod = xCm P (world P n) := rfl

/-! ### the hand model's values as values of the interpreter -/

def dateObj (y m d : Nat) : Val :=
  .obj "datetime.date" [("year", .int y), ("month", .int m), ("day", .int d)]
def timeObj (h mi s us : Nat) : Val :=
  .obj "datetime.time" [("hour", .int h), ("minute", .int mi), ("second", .int s), ("microsecond", .int us)]
def dateTimeObj (y m d h mi s us : Nat) : Val :=
  .obj "datetime.datetime" [("year", .int y), ("month", .int m), ("day", .int d), ("hour", .int h), ("minute", .int mi),
    ("second", .int s), ("microsecond", .int us)]
/-- a float whose `repr` is the text `t` -/
def floatObj (t : Lex.Str) : Val := .obj "float" [("repr", .str t)]
def instObj (id : Val) : Val := .obj "SQLObject" [("id", id)]
def connObj (d : Lex.Dialect) : Val := .obj "DBAPI" [("dbName", .str (dbName d))]
def likeQuotedObj (e : Val) (pre post : Lex.Str) : Val :=
  .obj "_LikeQuoted" [("expr", e), ("prefix", .str pre), ("postfix", .str post)]
def likeObj (e s esc : Val) : Val := .obj "LIKE" [("expr", e), ("string", s), ("escape", esc)]

mutual
def ofVal : Lex.Val → Val
  | .str s => .str s
  | .int i => .int i
  | .bool b => .bool b
  | .null => .none
  | .date y m d => dateObj y m d
  | .time h mi s us => timeObj h mi s us
  | .datetime y m d h mi s us => dateTimeObj y m d h mi s us
  | .num neg mant exp => floatObj (Lex.renderNum neg mant exp)
  | .seq l => .list (ofVals l)
  | .instInt i => instObj (.int i)
  | .instStr s => instObj (.str s)
def ofVals : List Lex.Val → List Val
  | [] => []
  | v :: vs => ofVal v :: ofVals vs
end

/-! ### running the translated functions -/

def ret (s : Lex.Str) : Out := .ret (.str s)

/-- `StringLikeConverter(s, db)` -/
def stringLikeConverterX (I : Iface) (s : Lex.Str) (db : Val) : Out := run I Extracted.StringLikeConverter [.str s, db]
/-- `quote_str(s, db)` -/
def quoteStrX (I : Iface) (s : Lex.Str) (db : Val) : Out := run I Extracted.quote_str [.str s, db]
/-- `unquote_str(s)` -/
def unquoteStrX (I : Iface) (s : Lex.Str) : Out := run I Extracted.unquote_str [.str s]
/-- `_quote_like_special(s, db)` -/
def quoteLikeSpecialX (I : Iface) (s : Lex.Str) (db : Val) : Out := run I Extracted.quote_like_special [.str s, db]
/-- `_LikeQuoted.__sqlrepr__(self, db)` -/
def likeQuotedReprX (I : Iface) (self db : Val) : Out := run I Extracted.LikeQuoted_sqlrepr [self, db]
/-- `LIKE.__sqlrepr__(self, db)` -/
def likeReprX (I : Iface) (self db : Val) : Out := run I Extracted.LIKE_sqlrepr [self, db]
/-- `sqlrepr(v, db)` -/
def sqlreprX (I : Iface) (v db : Val) : Out := run I Extracted.sqlrepr [v, db]

/-- the wrapper functions by the hand model's `LikeOp` -/
def wrapperOf (op : Lex.LikeOp) : Option Block :=
  if op = Lex.Extracted.startswithOp then some Extracted.STARTSWITH
  else if op = Lex.Extracted.endswithOp then some Extracted.ENDSWITH
  else if op = Lex.Extracted.containsOp then some Extracted.CONTAINSSTRING
  else Option.none

/-- HAND MODEL of the `SQLExpression` branch of `_LikeQuoted.__sqlrepr__`: the quoted prefix / postfix (when not
    empty) around the escaped rendering `r` of the expression, joined by the dialect's concatenation -/
def likeConcat (d : Lex.Dialect) (pre post r : Lex.Str) : Lex.Str :=
  let parts := (if pre.isEmpty then [] else [Lex.quoteStr d pre]) ++ [Like.likeSpecial d r] ++
    (if post.isEmpty then [] else [Lex.quoteStr d post])
  if d = .mysql then [67, 79, 78, 67, 65, 84, 40] ++ Lex.joinSep [44, 32] parts ++ [41]
  else if d = .mssql ∨ d = .sybase then Lex.joinSep [32, 43, 32] parts
  else Lex.joinSep [32, 124, 124, 32] parts

end SqlObjVerif.LexX
