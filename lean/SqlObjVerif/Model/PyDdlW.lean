import SqlObjVerif.Model.PyDdl
/-!
# PyDdlW — the world-threading reading of PyDdl programs

The same syntax as `Model/PyDdl.lean`, run against a WORLD `W` (for C14: the database catalogue).  Effects and reads
of the world are only allowed where this interpreter looks for them (the translator refuses anything else):

* an EFFECT is the whole expression of an expression statement, an assignment or a `return`: a call `recv.m(args)` of
  a method that is not a method of the program and that the interface `Eff.eff` knows (`conn.query(sql)`,
  `sqlmeta.send(…)`) — it returns a value or raises and changes the world —, or a call of a program method listed in
  `Eff.effMeths` (run by this interpreter, world threaded through);
* a READ of the world is a call `recv.m(args)` that `Eff.read` knows (`conn.tableExists(t)`, `cls.tableExists(…)`),
  occurring in the condition of an `if` under `and` / `or` / `not` only;
* everything else — arguments of effects, conditions, iterables, every call of a method that is not listed — is
  evaluated by the pure semantics of `Model/PyDdl.lean` with the world-independent interface `I` and callee semantics
  `call` (so the theorems about the pure renderers apply verbatim).
-/
namespace SqlObjVerif.PyDdl

structure Eff (W : Type) where
  effMeths : List Nat
  eff : W → Val → String → List Val → Option (R Val × W)
  read : W → Val → String → List Val → Option (R Val)

inductive ResW (W : Type) where
  | norm (w : W) (env : Env)
  | cont (w : W) (env : Env)
  | ret (w : W) (env : Env) (v : Val)
  | exc (w : W) (env : Env) (e : Exc)
  | stuck (w : W)

def ResW.seq {W : Type} (r : ResW W) (k : W → Env → ResW W) : ResW W :=
  match r with
  | .norm w env => k w env
  | r => r

theorem ResW.seq_norm {W : Type} (w : W) (env : Env) (k : W → Env → ResW W) : (ResW.norm w env).seq k = k w env := by
  rw [ResW.seq]
@[simp] theorem ResW.seq_cont {W : Type} (w : W) (env : Env) (k : W → Env → ResW W) : (ResW.cont w env).seq k = .cont w env := by
  simp [ResW.seq]
@[simp] theorem ResW.seq_ret {W : Type} (w : W) (env : Env) (v : Val) (k : W → Env → ResW W) :
    (ResW.ret w env v).seq k = .ret w env v := by simp [ResW.seq]
@[simp] theorem ResW.seq_exc {W : Type} (w : W) (env : Env) (e : Exc) (k : W → Env → ResW W) :
    (ResW.exc w env e).seq k = .exc w env e := by simp [ResW.seq]
@[simp] theorem ResW.seq_stuck {W : Type} (w : W) (k : W → Env → ResW W) : (ResW.stuck w).seq k = .stuck w := by
  simp [ResW.seq]

/-- go on with `k` when the (possibly effectful) evaluation has a value -/
def withRW {W : Type} (env : Env) (r : R Val × W) (k : W → Val → ResW W) : ResW W :=
  match r with
  | (.ok v, w) => k w v
  | (.exc e, w) => .exc w env e
  | (.stuck, w) => .stuck w

@[simp] theorem withRW_ok {W : Type} (env : Env) (v : Val) (w : W) (k : W → Val → ResW W) :
    withRW env (.ok v, w) k = k w v := by rw [withRW]
@[simp] theorem withRW_exc {W : Type} (env : Env) (e : Exc) (w : W) (k : W → Val → ResW W) :
    withRW env (.exc e, w) k = .exc w env e := by rw [withRW]
@[simp] theorem withRW_stuck {W : Type} (env : Env) (w : W) (k : W → Val → ResW W) :
    withRW env (.stuck, w) k = .stuck w := by rw [withRW]

/-- a pure value in a world -/
def pureW {W : Type} (w : W) (r : R Val) : R Val × W := (r, w)

def effOr {W : Type} (o : Option (R Val × W)) (d : R Val × W) : R Val × W :=
  match o with
  | some r => r
  | Option.none => d

@[simp] theorem effOr_some {W : Type} (r d : R Val × W) : effOr (some r) d = r := rfl
@[simp] theorem effOr_none {W : Type} (d : R Val × W) : effOr Option.none d = d := rfl

def bind2 {W : Type} (w : W) (a : R Val) (b : R (List Val)) (k : Val → List Val → R Val × W) : R Val × W :=
  match a, b with
  | .ok r, .ok as => k r as
  | .exc e, _ => (.exc e, w)
  | .stuck, _ => (.stuck, w)
  | .ok _, .exc e => (.exc e, w)
  | .ok _, .stuck => (.stuck, w)

@[simp] theorem bind2_ok {W : Type} (w : W) (r : Val) (as : List Val) (k : Val → List Val → R Val × W) :
    bind2 w (.ok r) (.ok as) k = k r as := rfl

def clsRes {W : Type} (w : W) (r : Val) (k : Nat → R Val × W) : R Val × W :=
  match r with
  | .obj c _ => k c
  | _ => (.stuck, w)

/-- the whole expression of an expression statement / assignment / return: an effect, or a pure value -/
def evalTop {W : Type} (callW : W → Callee → List Val → R Val × W) (call : Callee → List Val → R Val) (I : Iface)
    (E : Eff W) (w : W) (env : Env) : Expr → R Val × W
  | .bmeth recv m args =>
    bind2 w (recv.eval call I env) (args.eval call I env) fun r as => effOr (E.eff w r m as) (bmethOf I r m as, w)
  | .mcall recv m args =>
    if E.effMeths.contains m then
      bind2 w (recv.eval call I env) (args.eval call I env) fun r as => clsRes w r fun c => callW w (.meth c m) (r :: as)
    else ((Expr.mcall recv m args).eval call I env, w)
  | e => (e.eval call I env, w)

def readOr (o : Option (R Val)) (d : R Val) : R Val :=
  match o with
  | some r => r
  | Option.none => d

@[simp] theorem readOr_some (r d : R Val) : readOr (some r) d = r := rfl
@[simp] theorem readOr_none (d : R Val) : readOr Option.none d = d := rfl

/-- a condition: reads of the world under `and` / `or` / `not` -/
def evalCond {W : Type} (call : Callee → List Val → R Val) (I : Iface) (E : Eff W) (w : W) (env : Env) : Expr → R Val
  | .and a b => (evalCond call I E w env a).bind fun v => if truthy v then evalCond call I E w env b else .ok v
  | .or a b => (evalCond call I E w env a).bind fun v => if truthy v then .ok v else evalCond call I E w env b
  | .not a => (evalCond call I E w env a).bind fun v => .ok (.bool (!truthy v))
  | .bmeth recv m args =>
    (recv.eval call I env).bind fun r => (args.eval call I env).bind fun as => readOr (E.read w r m as) (bmethOf I r m as)
  | e => e.eval call I env

def forLoopW {W : Type} (f : W → Env → Val → ResW W) : List Val → W → Env → ResW W
  | [], w, env => .norm w env
  | v :: vs, w, env => match f w env v with
    | .norm w' env' => forLoopW f vs w' env'
    | .cont w' env' => forLoopW f vs w' env'
    | r => r

def loopStepW {W : Type} (x : Nat) (body : W → Env → ResW W) (w : W) (env : Env) (v : Val) : ResW W :=
  body w (env.put x v)

def normOptW {W : Type} (w : W) : Option Env → ResW W
  | some env => .norm w env
  | Option.none => .stuck w

@[simp] theorem normOptW_some {W : Type} (w : W) (env : Env) : normOptW w (some env) = .norm w env := rfl
@[simp] theorem normOptW_none {W : Type} (w : W) : normOptW w Option.none = .stuck w := rfl

def iterW {W : Type} (w : W) (v : Val) (k : List Val → ResW W) : ResW W :=
  match iterOf v with
  | some l => k l
  | Option.none => .stuck w

@[simp] theorem iterW_list {W : Type} (w : W) (l : List Val) (k : List Val → ResW W) : iterW w (.list l) k = k l := rfl

mutual
def Stmt.execW {W : Type} (callW : W → Callee → List Val → R Val × W) (call : Callee → List Val → R Val) (I : Iface)
    (E : Eff W) (w : W) (env : Env) : Stmt → ResW W
  | .assign x e => withRW env (evalTop callW call I E w env e) fun w' v => .norm w' (env.put x v)
  | .assignTup xs e => withRW env (evalTop callW call I E w env e) fun w' v => normOptW w' (unpackOf env xs v)
  | .setAttr x a e => withRW env (e.eval call I env, w) fun w' v => normOptW w' (setAttrOf env x a v)
  | .append x e => withRW env (e.eval call I env, w) fun w' v => normOptW w' (appendOf env x v)
  | .ite c t e => withRW env (evalCond call I E w env c, w) fun w' v =>
      if truthy v then t.execW callW call I E w' env else e.execW callW call I E w' env
  | .for x it body => withRW env (it.eval call I env, w) fun w' v =>
      iterW w' v fun l => forLoopW (loopStepW x fun w'' env' => body.execW callW call I E w'' env') l w' env
  | .tryExc body _ _ => body.execW callW call I E w env
  | .assert c => withRW env (c.eval call I env, w) fun w' v => if truthy v then .norm w' env else .exc w' env .assertionError
  | .raise e => .exc w env e
  | .ret e => withRW env (evalTop callW call I E w env e) fun w' v => .ret w' env v
  | .expr e => withRW env (evalTop callW call I E w env e) fun w' _ => .norm w' env
  | .continue => .cont w env
  | .pass => .norm w env
def Block.execW {W : Type} (callW : W → Callee → List Val → R Val × W) (call : Callee → List Val → R Val) (I : Iface)
    (E : Eff W) (w : W) (env : Env) : Block → ResW W
  | .nil => .norm w env
  | .cons s rest => (s.execW callW call I E w env).seq fun w' env' => rest.execW callW call I E w' env'
end

/-- what the caller sees -/
def ResW.out {W : Type} : ResW W → R Val × W
  | .norm w _ => (.ok .none, w)
  | .cont w _ => (.stuck, w)
  | .ret w _ v => (.ok v, w)
  | .exc w _ e => (.exc e, w)
  | .stuck w => (.stuck, w)

@[simp] theorem ResW.out_ret {W : Type} (w : W) (env : Env) (v : Val) : (ResW.ret w env v).out = (.ok v, w) := rfl
@[simp] theorem ResW.out_exc {W : Type} (w : W) (env : Env) (e : Exc) : (ResW.exc w env e).out = (.exc e, w) := rfl
@[simp] theorem ResW.out_norm {W : Type} (w : W) (env : Env) : (ResW.norm w env).out = (.ok .none, w) := rfl
@[simp] theorem ResW.out_stuck {W : Type} (w : W) : (ResW.stuck w : ResW W).out = (.stuck, w) := rfl

def Fn.runW {W : Type} (callW : W → Callee → List Val → R Val × W) (call : Callee → List Val → R Val) (I : Iface)
    (E : Eff W) (f : Fn) (w : W) (args : List Val) : R Val × W :=
  match f.args args with
  | some as => (f.body.execW callW call I E w (Env.ofArgs as)).out
  | Option.none => (.stuck, w)

/-- world-threading calls with at most `n` nested calls; the pure parts run with `callN P I n` -/
def callNW {W : Type} (P : Prog) (I : Iface) (E : Eff W) : Nat → W → Callee → List Val → R Val × W
  | 0, w, _, _ => (.stuck, w)
  | n + 1, w, c, args =>
    match P.resolve c with
    | some f => f.runW (callNW P I E n) (callN P I n) (P.iface I) E w args
    | Option.none => (.stuck, w)

theorem callNW_succ {W : Type} (P : Prog) (I : Iface) (E : Eff W) (n : Nat) (w : W) (c : Callee) (args : List Val)
    (f : Fn) (h : P.resolve c = some f) :
    callNW P I E (n + 1) w c args = f.runW (callNW P I E n) (callN P I n) (P.iface I) E w args := by
  rw [callNW, h]

end SqlObjVerif.PyDdl
