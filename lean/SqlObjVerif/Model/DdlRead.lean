/-!
# C14 — the specification side: a quote- and paren-aware reader of `CREATE TABLE` text

Characters are code points (`Nat`).  The reader is a left fold of a small state machine over the
text between the first `(` and its matching `)`: it emits the *top-level* tokens (words, commas,
opaque parenthesised groups, opaque string literals), splits them at the commas into items and reads
one column skeleton from each item: the column name, whether `NOT NULL` / `UNIQUE` occur, the key
marker (`PRIMARY KEY` or `IDENTITY`).  Nothing inside parentheses or quotes is ever taken for a
keyword or a separator.  `bs` says whether a backslash inside a string literal escapes the next
character (MySQL / PostgreSQL `E''` strings) — the theorems hold for both conventions where the
dialect doubles backslashes.

Written from SQL's lexical rules, not from the repo.
-/
namespace SqlObjVerif.Ddl

abbrev Str := List Nat

inductive Tok where
  | w (s : Str)     -- a word: maximal run of non-blank, non-special characters at depth 0
  | comma
  | grp             -- a parenthesised group (opaque)
  | str             -- a string literal (opaque)
deriving DecidableEq, Repr

inductive Mode where
  | top | str | strQ | esc | done
deriving DecidableEq, Repr

/-- reader state: `cur` is the word being accumulated (reversed), `out` the tokens so far (reversed) -/
structure St where
  mode : Mode
  depth : Nat
  cur : Str
  out : List Tok
deriving DecidableEq, Repr

/-- the tokens so far, with the pending word (if any) flushed -/
def emitted (cur : Str) (out : List Tok) : List Tok :=
  match cur with
  | [] => out
  | _ :: _ => .w cur.reverse :: out

def isBlank (c : Nat) : Bool := c == 32 || c == 10 || c == 9 || c == 13

/-- a character met outside string literals -/
def stepTop (s : St) (c : Nat) : St :=
  match s.depth with
  | 0 =>
    if isBlank c then ⟨.top, 0, [], emitted s.cur s.out⟩
    else if c = 44 then ⟨.top, 0, [], .comma :: emitted s.cur s.out⟩
    else if c = 40 then ⟨.top, 1, [], .grp :: emitted s.cur s.out⟩
    else if c = 41 then ⟨.done, 0, [], emitted s.cur s.out⟩
    else if c = 39 then ⟨.str, 0, [], .str :: emitted s.cur s.out⟩
    else ⟨.top, 0, c :: s.cur, s.out⟩
  | k + 1 =>
    if c = 40 then ⟨.top, k + 2, s.cur, s.out⟩
    else if c = 41 then ⟨.top, k, s.cur, s.out⟩
    else if c = 39 then ⟨.str, k + 1, s.cur, s.out⟩
    else ⟨.top, k + 1, s.cur, s.out⟩

def step (bs : Bool) (s : St) (c : Nat) : St :=
  match s.mode with
  | .done => s
  | .top => stepTop s c
  | .str =>
    if c = 39 then ⟨.strQ, s.depth, s.cur, s.out⟩
    else if bs && c == 92 then ⟨.esc, s.depth, s.cur, s.out⟩
    else s
  | .esc => ⟨.str, s.depth, s.cur, s.out⟩
  | .strQ =>
    if c = 39 then ⟨.str, s.depth, s.cur, s.out⟩
    else stepTop s c

def run (bs : Bool) (s : St) (cs : Str) : St := cs.foldl (step bs) s

def init : St := ⟨.top, 0, [], []⟩

/-- the text after the first `(` -/
def body (text : Str) : Str := (text.dropWhile (· ≠ 40)).drop 1

def tokens (bs : Bool) (text : Str) : List Tok :=
  let r := run bs init (body text)
  (emitted r.cur r.out).reverse

/-- split at the top-level commas -/
def splitItems : List Tok → List (List Tok)
  | [] => [[]]
  | .comma :: rest => [] :: splitItems rest
  | t :: rest =>
    match splitItems rest with
    | [] => [[t]]
    | i :: is => (t :: i) :: is

def upC (c : Nat) : Nat := if 97 ≤ c ∧ c ≤ 122 then c - 32 else c
def upper (s : Str) : Str := s.map upC

def kwNOT : Str := [78, 79, 84]
def kwNULL : Str := [78, 85, 76, 76]
def kwUNIQUE : Str := [85, 78, 73, 81, 85, 69]
def kwPRIMARY : Str := [80, 82, 73, 77, 65, 82, 89]
def kwKEY : Str := [75, 69, 89]
def kwIDENTITY : Str := [73, 68, 69, 78, 84, 73, 84, 89]
def kwFOREIGN : Str := [70, 79, 82, 69, 73, 71, 78]
def kwCONSTRAINT : Str := [67, 79, 78, 83, 84, 82, 65, 73, 78, 84]
def kwCHECK : Str := [67, 72, 69, 67, 75]
def kwREFERENCES : Str := [82, 69, 70, 69, 82, 69, 78, 67, 69, 83]
def kwON : Str := [79, 78]
def kwDELETE : Str := [68, 69, 76, 69, 84, 69]

/-- the first word of an item that is a table-level constraint, not a column -/
def isTableConstraintWord (w : Str) : Bool :=
  let u := upper w
  u == kwFOREIGN || u == kwCONSTRAINT || u == kwPRIMARY || u == kwUNIQUE || u == kwCHECK

inductive KeyMark where
  | none | primaryKey | identity
deriving DecidableEq, Repr

structure Flags where
  notNull : Bool := false
  unique : Bool := false
  key : KeyMark := .none
deriving DecidableEq, Repr

def isW (kw : Str) : Tok → Bool
  | .w s => upper s == kw
  | _ => false

/-- keywords of an item (case-insensitive): `NOT NULL` and `PRIMARY KEY` as adjacent word pairs -/
def scanFlags : List Tok → Flags
  | [] => {}
  | t :: rest =>
    let f := scanFlags rest
    let next : Tok := rest.head?.getD .comma
    if isW kwNOT t && isW kwNULL next then { f with notNull := true }
    else if isW kwPRIMARY t && isW kwKEY next then { f with key := .primaryKey }
    else if isW kwUNIQUE t then { f with unique := true }
    else if isW kwIDENTITY t then { f with key := if f.key = .primaryKey then .primaryKey else .identity }
    else f

structure ColSkel where
  name : Str
  notNull : Bool
  unique : Bool
  key : KeyMark
deriving DecidableEq, Repr

def itemSkel : List Tok → Option ColSkel
  | .w n :: rest =>
    if isTableConstraintWord n then none
    else
      let f := scanFlags rest
      some ⟨n, f.notNull, f.unique, f.key⟩
  | _ => none

/-- **the reader**: column skeletons declared by a `CREATE TABLE` text -/
def skeleton (bs : Bool) (text : Str) : List ColSkel :=
  (splitItems (tokens bs text)).filterMap itemSkel

/-! ### foreign-key clauses -/

inductive Action where
  | none | cascade | restrict | setNull | other
deriving DecidableEq, Repr

structure RefSkel where
  col : Str
  target : Str
  action : Action
deriving DecidableEq, Repr

def kwCASCADE : Str := [67, 65, 83, 67, 65, 68, 69]
def kwRESTRICT : Str := [82, 69, 83, 84, 82, 73, 67, 84]
def kwSET : Str := [83, 69, 84]

/-- the delete action announced by the tokens after `REFERENCES t (…)` -/
def readAction : List Tok → Action
  | [] => .none
  | t :: rest =>
    if isW kwON t then
      match rest with
      | d :: a :: more =>
        if isW kwDELETE d then
          if isW kwCASCADE a then .cascade
          else if isW kwRESTRICT a then .restrict
          else if isW kwSET a && isW kwNULL (more.head?.getD .comma) then .setNull
          else .other
        else readAction rest
      | _ => readAction rest
    else readAction rest

/-- `… REFERENCES <table> (…) [ON DELETE …]` inside one item -/
def readRef : List Tok → Option (Str × Action)
  | [] => none
  | t :: rest =>
    if isW kwREFERENCES t then
      match rest with
      | .w tgt :: more => some (tgt, readAction more)
      | _ => none
    else readRef rest

def itemRef : List Tok → Option RefSkel
  | .w n :: rest =>
    if isTableConstraintWord n then none
    else (readRef rest).map fun (t, a) => ⟨n, t, a⟩
  | _ => none

/-- inline (column-level) foreign-key clauses of a `CREATE TABLE` text -/
def inlineRefs (bs : Bool) (text : Str) : List RefSkel :=
  (splitItems (tokens bs text)).filterMap itemRef

end SqlObjVerif.Ddl
