import SqlObjVerif.Model.PyDestroy
/-!
# PyDestroyF — an EXCEPTION-INJECTING reference semantics for the Python fragment of `Model/PyDestroy.lean`
(property C06: a write that raises changes nothing)

`vlib/extractors/pydestroy.py` translates `SQLObject.destroySelf` and `findDependantColumns` from /repo's `main.py`
into `PyDestroy.Block`s on every run (`Extracted/PyDestroy.lean`).  `Model/PyDestroy.lean` gives that syntax a
semantics in which `k.select(…)`, `.count()` and the iteration of a select result are PURE (C12 only needs the
database they see).  This file gives the SAME syntax (imported, not copied: the translated program is shared) a
second semantics in which EXPRESSION and CONDITION evaluation THREAD THE WORLD, so that

* a query method (`….count()`) may send a statement — counted, logged, possibly hit by the injected error — and
  may therefore RAISE in the middle of an expression or of an `if` condition (`IfaceF.query : … → ER W (Val H)`);
* ENTERING a `for` over something that is not a list / dict value of the embedding (a select result) may send a
  statement, raise, and change the world (`IfaceF.iter : W → Val H → ER W (List (Val H))`): the candidates are
  materialised when the loop is entered (`SelectResults.__iter__` builds the whole list) and every one of them is
  then handed to the body — there is no liveness test as in the pure semantics;
* everything else is as in `Model/PyDestroy.lean`: attribute reads, `isinstance`, `==`, module-level functions are
  pure; method calls at statement level (`IfaceF.call`) may change the world, return or raise.

Evaluation order is Python's: receiver, positional arguments, keyword values — left to right, each in the world its
predecessor left (`evalE` / `evalEs` expressions, `evalC` conditions, `execS` / `execB` statements and blocks, `runF` a
whole method).  The statement-level results (`St`, `Res`, `forLoop`, `Res.seq`, `afterCall`, `starKwOf`) are the
ones of `Model/PyDestroy.lean`.
-/
namespace SqlObjVerif.PyDestroyF
open SqlObjVerif.PyDestroy (Val Const Exc R CallRes Expr Exprs Cond Stmt Block Env St Res forLoop zipKw pyBool
  lenOf keysOf pairsOf vlSnoc isListVal vdSet starKwOf afterCall)

/-- the result of an effectful evaluation: a value in a (possibly changed) world, an exception in a (possibly
    changed) world, or outside the fragment -/
inductive ER (W α : Type) where
  | ok (w : W) (a : α)
  | exc (w : W) (e : Exc)
  | stuck

variable {H W : Type} {α β : Type}

def ER.bind (r : ER W α) (f : W → α → ER W β) : ER W β :=
  match r with
  | .ok w a => f w a
  | .exc w e => .exc w e
  | .stuck => .stuck

/-- a pure result, in world `w` -/
def ofR (w : W) (r : R α) : ER W α :=
  match r with
  | .ok a => .ok w a
  | .exc e => .exc w e
  | .stuck => .stuck

def ofOpt (w : W) (o : Option α) : ER W α :=
  match o with
  | some a => .ok w a
  | Option.none => .stuck

structure IfaceF (H W : Type) where
  self : Val H
  getAttr : W → Val H → Val H → R (Val H)
  setAttr : W → Val H → String → Val H → Option W
  glob : String → Option (Val H)
  isinstance : Val H → String → Option Bool
  eqOver : Val H → Val H → Option (Val H)
  /-- a query method: may send a statement, may raise -/
  query : W → Val H → String → List (Val H) → List (Val H × Val H) → ER W (Val H)
  fn : W → String → List (Val H) → R (Val H)
  /-- entering `for … in v` for an interface iterable: may send a statement, may raise; the candidates -/
  iter : W → Val H → ER W (List (Val H))
  call : W → Val H → String → List (Val H) → List (Val H × Val H) → CallRes H W
  callFn : W → Val H → List (Val H) → CallRes H W

section
variable [DecidableEq H]

def eqVal (I : IfaceF H W) (x y : Val H) : Val H :=
  match I.eqOver x y with
  | some v => v
  | Option.none => .bool (decide (x = y))

mutual
def evalE (I : IfaceF H W) (env : Env H) : Expr → W → ER W (Val H)
  | .var x, w => ofOpt w (env x)
  | .const c, w => .ok w c.val
  | .self, w => .ok w I.self
  | .glob name, w => ofOpt w (I.glob name)
  | .attr e a, w => (evalE I env e w).bind fun w1 v => ofR w1 (I.getAttr w1 v (.str a))
  | .getattr e n, w => (evalE I env e w).bind fun w1 v => (evalE I env n w1).bind fun w2 nv =>
      ofR w2 (I.getAttr w2 v nv)
  | .len e, w => (evalE I env e w).bind fun w1 v => ofOpt w1 ((lenOf v).map fun n => (.int n : Val H))
  | .eq a b, w => (evalE I env a w).bind fun w1 x => (evalE I env b w1).bind fun w2 y => .ok w2 (eqVal I x y)
  | .isC e c, w => (evalE I env e w).bind fun w1 v => .ok w1 (.bool (decide (v = c.val)))
  | .isNotC e c, w => (evalE I env e w).bind fun w1 v => .ok w1 (.bool (!decide (v = c.val)))
  | .is a b, w => (evalE I env a w).bind fun w1 x => (evalE I env b w1).bind fun w2 y =>
      .ok w2 (.bool (decide (x = y)))
  | .isNot a b, w => (evalE I env a w).bind fun w1 x => (evalE I env b w1).bind fun w2 y =>
      .ok w2 (.bool (!decide (x = y)))
  | .isinstance e cls, w => (evalE I env e w).bind fun w1 v =>
      ofOpt w1 ((I.isinstance v cls).map fun b => (.bool b : Val H))
  | .mod f args, w => (evalE I env f w).bind fun w1 fv => (evalEs I env args w1).bind fun w2 as =>
      .ok w2 (.app "%" (.cons fv (Val.ofList as)))
  | .emptyList, w => .ok w .nil
  | .emptyDict, w => .ok w (.dict .nil)
  | .query recv m args kwn kwv, w => (evalE I env recv w).bind fun w1 r => (evalEs I env args w1).bind fun w2 as =>
      (evalEs I env kwv w2).bind fun w3 ks => I.query w3 r m as (zipKw kwn ks)
  | .fn name args, w => (evalEs I env args w).bind fun w1 as => ofR w1 (I.fn w1 name as)
  | .fnStar name star, w => (evalE I env star w).bind fun w1 v => (ofOpt w1 v.toList).bind fun w2 as =>
      ofR w2 (I.fn w2 name as)
def evalEs (I : IfaceF H W) (env : Env H) : Exprs → W → ER W (List (Val H))
  | .nil, w => .ok w []
  | .cons e rest, w => (evalE I env e w).bind fun w1 v => (evalEs I env rest w1).bind fun w2 vs => .ok w2 (v :: vs)
end

def evalC (I : IfaceF H W) (env : Env H) : Cond → W → ER W Bool
  | .truthy e, w => (evalE I env e w).bind fun w1 v => .ok w1 (pyBool v)
  | .not c, w => (evalC I env c w).bind fun w1 b => .ok w1 (!b)
  | .and c d, w => (evalC I env c w).bind fun w1 b => if b then evalC I env d w1 else .ok w1 false
  | .or c d, w => (evalC I env c w).bind fun w1 b => if b then .ok w1 true else evalC I env d w1

/-- a statement-level use of an effectful evaluation: an exception ends the statement in the world it left -/
def withE (st : St H W) (r : ER W α) (f : W → α → Res H W) : Res H W :=
  match r with
  | .ok w a => f w a
  | .exc w e => .exc ⟨w, st.vars⟩ e
  | .stuck => .stuck

def ofOptRes (o : Option α) (f : α → Res H W) : Res H W :=
  match o with
  | some a => f a
  | Option.none => .stuck

/-- what `for … in v` iterates over: the items of a list value, the keys of a dict value, else the interface's
    candidates (entering the loop may send a statement) -/
def iterF (I : IfaceF H W) (w : W) (v : Val H) : ER W (List (Val H)) :=
  match v with
  | .dict d => ofOpt w (keysOf d)
  | .nil => .ok w []
  | .cons _ _ => ofOpt w v.toList
  | _ => I.iter w v

def appendTo (st : St H W) (w : W) (x : Nat) (v : Val H) : Res H W :=
  match st.vars x with
  | some l => if isListVal l then .norm (St.setVar ⟨w, st.vars⟩ x (vlSnoc v l)) else .stuck
  | Option.none => .stuck

def setItemOf (st : St H W) (w : W) (x : Nat) (kv vv : Val H) : Res H W :=
  match st.vars x with
  | some (.dict d) => if isListVal d then .norm (St.setVar ⟨w, st.vars⟩ x (.dict (vdSet kv vv d))) else .stuck
  | _ => .stuck

mutual
def execS (I : IfaceF H W) (st : St H W) : Stmt → Res H W
  | .assign x e => withE st (evalE I st.vars e st.w) fun w v => .norm (St.setVar ⟨w, st.vars⟩ x v)
  | .append x e => withE st (evalE I st.vars e st.w) fun w v => appendTo st w x v
  | .setItem x k v => withE st (evalE I st.vars k st.w) fun w1 kv => withE st (evalE I st.vars v w1) fun w2 vv =>
      setItemOf st w2 x kv vv
  | .setAttr o a v => withE st (evalE I st.vars o st.w) fun w1 ov => withE st (evalE I st.vars v w1) fun w2 vv =>
      ofOptRes (I.setAttr w2 ov a vv) fun w' => .norm ⟨w', st.vars⟩
  | .call x recv m args kwn kwv starKw =>
      withE st (evalE I st.vars recv st.w) fun w1 r => withE st (evalEs I st.vars args w1) fun w2 as =>
        withE st (evalEs I st.vars kwv w2) fun w3 ks => ofOptRes (starKwOf st.vars starKw) fun sk =>
          afterCall (I.call w3 r m as (zipKw kwn ks ++ sk)) ⟨w3, st.vars⟩ x
  | .callFn x f args =>
      withE st (evalE I st.vars f st.w) fun w1 fv => withE st (evalEs I st.vars args w1) fun w2 as =>
        afterCall (I.callFn w2 fv as) ⟨w2, st.vars⟩ x
  | .ite c t e => match evalC I st.vars c st.w with
    | .ok w true => execB I ⟨w, st.vars⟩ t
    | .ok w false => execB I ⟨w, st.vars⟩ e
    | .exc w e => .exc ⟨w, st.vars⟩ e
    | .stuck => .stuck
  | .for x it body => match (evalE I st.vars it st.w).bind fun w1 v => iterF I w1 v with
    | .ok w l => forLoop (fun st' a => execB I (st'.setVar x a) body) l ⟨w, st.vars⟩
    | .exc w e => .exc ⟨w, st.vars⟩ e
    | .stuck => .stuck
  | .raise cls => .exc st cls
  | .assert c => withE st (evalC I st.vars c st.w) fun w b =>
      if b then .norm ⟨w, st.vars⟩ else .exc ⟨w, st.vars⟩ "AssertionError"
  | .continue => .cont st
  | .break => .brk st
  | .ret e => withE st (evalE I st.vars e st.w) fun w v => .ret ⟨w, st.vars⟩ v
  | .retNone => .ret st .none
  | .pass => .norm st
def execB (I : IfaceF H W) (st : St H W) : Block → Res H W
  | .nil => .norm st
  | .cons s rest => (execS I st s).seq fun st' => execB I st' rest
end

/-- call a function / method under the injecting semantics: `args` are the parameters (after `self`) -/
def runF (I : IfaceF H W) (prog : Block) (args : List (Val H)) (w : W) : CallRes H W :=
  (execB I ⟨w, Env.ofArgs args⟩ prog).toCall

end
end SqlObjVerif.PyDestroyF
