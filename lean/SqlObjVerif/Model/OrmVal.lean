/-!
# OrmVal — value-level model of the SQLObject instance life cycle (C05, C16)

Mirrors `sqlobject/main.py` as it is in /repo now (`get`, `_init`, `_SO_loadValue`, `_SO_getValue`,
`_SO_setValue`, `set`, `syncUpdate`, `sync`, `expire`, `destroySelf`, `__getstate__`,
`_SO_finishCreate`), `dbconnection.py: expireAll`, `sqlmeta.expireAll`.

Objects are *handles* the application holds.  Which object `get`/`select` hands back (a held one or a
new one) is cache identity, modelled separately (C04); here the history says it: `fetch` = the
library built a new instance, `refresh` = it returned a held one and refreshed it from the select row.
The only cache fact kept is `inCache` (is the instance still registered in the connection cache), since
`expireAll` reaches exactly those instances.

Values: `Val = Option Int` (`none` = NULL / Python `None`); an assignment input is a valid value or
`bad` (rejected by the column validator: `Invalid`).  A database failure of an UPDATE is an input of
the operation (`fail`), injected by the harness connection.
-/
namespace SqlObjVerif.OrmVal

abbrev Cls := Nat
abbrev Id := Nat
abbrev Col := Nat
abbrev Hnd := Nat
abbrev Val := Option Int
abbrev Row := Col → Val
/-- pending values `_SO_createValues`, kept sorted by column (= creation order), one entry per column -/
abbrev Pend := List (Col × Val)

/-- what `destroySelf` of the referenced row does to a referencing row -/
inductive FkKind
  | null      -- `cascade='null'`: `row.set(fkID=None)`
  | cascade   -- `cascade=True`: `row.destroySelf()`
  deriving DecidableEq, Repr

structure Cfg where
  lazyUpdate : Cls → Bool
  cacheValues : Cls → Bool
  ncols : Cls → Nat
  /-- column codec: `enc` = `from_python` (what is stored / kept pending), `dec` = `to_python` (what the
      object shows for a stored value).  Identity for IntCol; JSONCol, PickleCol, … have real ones. -/
  enc : Cls → Col → Val → Val
  dec : Cls → Col → Val → Val
  /-- column 0 of the class is a `ForeignKey` to the given class with the given cascade policy -/
  fk : Cls → Option (Cls × FkKind)
  /-- connection option `cache=`; no value-level effect (kept so that theorems quantify over it) -/
  doCache : Bool

structure Inst where
  cls : Cls
  id : Id
  /-- `_SO_val_<col>` attributes; `none` = attribute absent -/
  cached : Col → Option Val
  expired : Bool
  dirty : Bool
  pending : Pend
  obsolete : Bool
  inCache : Bool

inductive Stmt
  | insert (cls : Cls) (id : Id) (vals : Pend)
  | update (cls : Cls) (id : Id) (vals : Pend)
  | delete (cls : Cls) (id : Id)
  | selectRow (cls : Cls) (id : Id)
  | selectCol (cls : Cls) (id : Id) (c : Col)
  | selectCls (cls : Cls)
  /-- `k.select(k.q.fkID == id)` of `destroySelf` over a dependent class -/
  | selectRefs (k : Cls) (cls : Cls) (id : Id)
  /-- `deleteBy` / `deleteMany`: one DELETE with a WHERE clause -/
  | deleteWhere (cls : Cls)
  deriving DecidableEq, Repr

structure State where
  db : Cls → Id → Option Row
  objs : Hnd → Option Inst
  /-- ghost: number of UPDATE statements sent -/
  updates : Nat
  /-- ghost: statements sent, oldest first -/
  log : List Stmt

inductive Inp
  | ok (v : Val)
  | bad
  deriving DecidableEq, Repr

inductive Out
  | ok
  | val (v : Val)
  | notFound
  | invalid
  | dbError
  | assertion
  /-- `__setstate__`: an instance with that id is already in the cache -/
  | valueError
  | badCol
  | badHandle
  deriving DecidableEq, Repr

/-- one step of the dependents loop of `destroySelf`: the SELECT over a dependent class, or the handling
    of one referencing row (`fresh = some (k, id)`: no instance of that row is in the cache, the library
    builds one from the select row; `none`: the held instance `hr` is returned and refreshed) -/
inductive RefStep
  | sel (k : Cls)
  | row (hr : Hnd) (fresh : Option (Cls × Id))

inductive Op
  | create (h : Hnd) (cls : Cls) (id : Id) (kvs : List (Col × Inp))
  | fetch (h : Hnd) (cls : Cls) (id : Id) (viaSelect : Bool)
  | refresh (h : Hnd)
  | selectStmt (cls : Cls)
  | read (h : Hnd) (c : Col)
  | setattr (h : Hnd) (c : Col) (inp : Inp) (fail : Bool)
  | set (h : Hnd) (kvs : List (Col × Inp)) (fail : Bool)
  | syncUpdate (h : Hnd) (fail : Bool)
  | sync (h : Hnd) (fail : Bool)
  | expire (h : Hnd)
  | expireAll
  | expireAllCls (cls : Cls)
  | destroy (h : Hnd) (refs : List RefStep)
  | pickle (h : Hnd) (fail : Bool)
  | drop (h : Hnd)
  /-- `pickle.loads` of a state made by `__getstate__` of an instance of row (cls, id): `snap` = the attribute
      values in the pickled state (what `__getstate__` keeps: the `_SO_val_*` and the id; NOT the flags, NOT
      the pending values); `clash` = `cache.tryGet(id)` finds an instance (→ ValueError) -/
  | unpickle (h : Hnd) (cls : Cls) (id : Id) (snap : Pend) (clash : Bool)
  /-- `cls.deleteBy(...)` / `cls.deleteMany(...)`: the rows `ids` match; instances are not touched -/
  | bulkDelete (cls : Cls) (ids : List Id)
  | oobUpdate (cls : Cls) (id : Id) (c : Col) (v : Val)
  | oobDelete (cls : Cls) (id : Id)
  | oobInsert (cls : Cls) (id : Id) (vals : Pend)

/-! ## pending values -/

def plookup (c : Col) : Pend → Option Val
  | [] => none
  | (c', v) :: r => if c = c' then some v else plookup c r

/-- `d[c] = v` on the sorted association list -/
def passign (c : Col) (v : Val) : Pend → Pend
  | [] => [(c, v)]
  | (c', v') :: r =>
    if c = c' then (c, v) :: r
    else if c < c' then (c, v) :: (c', v') :: r
    else (c', v') :: passign c v r

/-- `old.update(new)` -/
def pmerge (new old : Pend) : Pend := new.foldl (fun p kv => passign kv.1 kv.2 p) old

/-- validators over all keyword values (`from_python`): the database-side values, or `none` = some value is
    rejected (`Invalid`) -/
def validate (enc : Col → Val → Val) : List (Col × Inp) → Option Pend
  | [] => some []
  | (c, .ok v) :: r => (validate enc r).map (passign c (enc c v))
  | (_, .bad) :: _ => none

def colsOk (n : Nat) (kvs : List (Col × Inp)) : Bool := kvs.all (fun kv => kv.1 < n)

/-! ## rows and cached attributes -/

/-- `_SO_selectInit`: one attribute per column of the class -/
def loadRow (dec : Col → Val → Val) (n : Nat) (row : Row) : Col → Option Val :=
  fun c => if c < n then some (dec c (row c)) else none

def applyUpd (row : Row) (p : Pend) : Row := fun c =>
  match plookup c p with
  | some v => v
  | none => row c

/-- cached attributes overridden by what the object shows for the database-side values `p` -/
def cacheAll (dec : Col → Val → Val) (cached : Col → Option Val) (p : Pend) : Col → Option Val := fun c =>
  match plookup c p with
  | some v => some (dec c v)
  | none => cached c

def setCached (cached : Col → Option Val) (c : Col) (v : Val) : Col → Option Val :=
  fun k => if k = c then some v else cached k

def noCache : Col → Option Val := fun _ => none

/-! ## state helpers -/

def setObj (s : State) (h : Hnd) (o : Inst) : State :=
  { s with objs := fun k => if k = h then some o else s.objs k }

def logStmt (s : State) (st : Stmt) : State := { s with log := s.log ++ [st] }

def setRowDb (db : Cls → Id → Option Row) (cls : Cls) (id : Id) (r : Option Row) : Cls → Id → Option Row :=
  fun c i => if c = cls ∧ i = id then r else db c i

/-- effect of `UPDATE t SET … WHERE id = …` (no row: nothing happens, no error) -/
def updRow (db : Cls → Id → Option Row) (cls : Cls) (id : Id) (p : Pend) : Cls → Id → Option Row :=
  fun c i => if c = cls ∧ i = id then (db c i).map (fun row => applyUpd row p) else db c i

/-- one UPDATE statement is sent; it takes effect unless the database refuses it (`fail`) -/
def sendUpdate (s : State) (o : Inst) (p : Pend) (fail : Bool) : State :=
  { s with db := if fail then s.db else updRow s.db o.cls o.id p,
           updates := s.updates + 1,
           log := s.log ++ [.update o.cls o.id p] }

def freshInst (cfg : Cfg) (cls : Cls) (id : Id) (row : Row) : Inst :=
  { cls := cls, id := id, cached := loadRow (cfg.dec cls) (cfg.ncols cls) row, expired := false, dirty := false,
    pending := [], obsolete := false, inCache := true }

/-- `cache.created` / `cache.put`: the entry of (cls, id) now points to the new instance -/
def register (s : State) (h : Hnd) (o : Inst) : State :=
  { s with objs := fun k =>
      if k = h then some o
      else (s.objs k).map (fun o' => if o'.cls = o.cls ∧ o'.id = o.id then { o' with inCache := false } else o') }

def init : State := { db := fun _ _ => none, objs := fun _ => none, updates := 0, log := [] }

/-! ## operations -/

/-- `SQLObject.__init__` / `_create` / `_SO_finishCreate` -/
def opCreate (cfg : Cfg) (s : State) (h : Hnd) (cls : Cls) (id : Id) (kvs : List (Col × Inp)) : State × Out :=
  if (s.objs h).isSome then (s, .badHandle) else
  if !colsOk (cfg.ncols cls) kvs then (s, .badCol) else
  match validate (cfg.enc cls) kvs with
  | none => (s, .invalid)
  | some p =>
    let row : Row := applyUpd (fun _ => none) p
    let s1 := logStmt s (.insert cls id ((List.range (cfg.ncols cls)).map (fun c => (c, row c))))
    if (s.db cls id).isSome then (s1, .dbError) else
    let s2 := { s1 with db := setRowDb s1.db cls id (some row) }
    let s3 := logStmt s2 (.selectRow cls id)
    (register s3 h (freshInst cfg cls id row), .ok)

def fetchLog (s : State) (viaSelect : Bool) (cls : Cls) (id : Id) : State :=
  if viaSelect then s else logStmt s (.selectRow cls id)

/-- `get` on a cache miss (`viaSelect`: row handed over by a select, no SELECT of its own) -/
def opFetch (cfg : Cfg) (s : State) (h : Hnd) (cls : Cls) (id : Id) (viaSelect : Bool) : State × Out :=
  if (s.objs h).isSome then (s, .badHandle) else
  let s1 := fetchLog s viaSelect cls id
  match s.db cls id with
  | none => (s1, .notFound)
  | some row => (register s1 h (freshInst cfg cls id row), .ok)

/-- `get(id, selectResults=row)` on a cache hit: refresh unless dirty -/
def opRefresh (cfg : Cfg) (s : State) (h : Hnd) : State × Out :=
  match s.objs h with
  | none => (s, .badHandle)
  | some o =>
    if o.dirty then (s, .ok) else
    match s.db o.cls o.id with
    | none => (s, .ok)
    | some row => (setObj s h { o with cached := loadRow (cfg.dec o.cls) (cfg.ncols o.cls) row, expired := false }, .ok)

/-- attribute read: `_SO_loadValue` (cacheValues) or `_SO_getValue` -/
def opRead (cfg : Cfg) (s : State) (h : Hnd) (c : Col) : State × Out :=
  match s.objs h with
  | none => (s, .badHandle)
  | some o =>
    if cfg.ncols o.cls ≤ c then (s, .badCol) else
    if cfg.cacheValues o.cls then
      match o.cached c with
      | some v => (s, .val v)
      | none =>
        let s1 := logStmt s (.selectRow o.cls o.id)
        match s.db o.cls o.id with
        | none => (setObj s1 h { o with expired := false }, .notFound)
        | some row =>
          -- `_SO_selectInit`, then the pending values are put back over the reloaded ones
          let cached' := cacheAll (cfg.dec o.cls) (loadRow (cfg.dec o.cls) (cfg.ncols o.cls) row) o.pending
          (setObj s1 h { o with expired := false, cached := cached' }, .val (cfg.dec o.cls c (applyUpd row o.pending c)))
    else
      if o.obsolete then (s, .assertion) else
      let s1 := logStmt s (.selectCol o.cls o.id c)
      match s.db o.cls o.id with
      | none => (s1, .assertion)
      | some row => (s1, .val (cfg.dec o.cls c (row c)))

/-- `_SO_setValue` (no listener) -/
def opSetattr (cfg : Cfg) (s : State) (h : Hnd) (c : Col) (inp : Inp) (fail : Bool) : State × Out :=
  match s.objs h with
  | none => (s, .badHandle)
  | some o =>
    if cfg.ncols o.cls ≤ c then (s, .badCol) else
    match inp with
    | .bad => (s, .invalid)
    | .ok v =>
      if cfg.lazyUpdate o.cls then
        (setObj s h { o with dirty := true, pending := passign c (cfg.enc o.cls c v) o.pending,
                             cached := setCached o.cached c (cfg.dec o.cls c (cfg.enc o.cls c v)) }, .ok)
      else
        let s1 := sendUpdate s o [(c, cfg.enc o.cls c v)] fail
        if fail then (s1, .dbError) else
        if cfg.cacheValues o.cls then
          (setObj s1 h { o with cached := setCached o.cached c (cfg.dec o.cls c (cfg.enc o.cls c v)) }, .ok)
        else (s1, .ok)

/-- `set(**kw)` -/
def opSet (cfg : Cfg) (s : State) (h : Hnd) (kvs : List (Col × Inp)) (fail : Bool) : State × Out :=
  match s.objs h with
  | none => (s, .badHandle)
  | some o =>
    if !colsOk (cfg.ncols o.cls) kvs then (s, .badCol) else
    match validate (cfg.enc o.cls) kvs with
    | none => (s, .invalid)
    | some p =>
      if cfg.lazyUpdate o.cls then
        (setObj s h { o with cached := cacheAll (cfg.dec o.cls) o.cached p, pending := pmerge p o.pending,
                             dirty := if p.isEmpty then o.dirty else true }, .ok)
      else
        if p.isEmpty then (s, .ok) else
        let s1 := sendUpdate s o p fail
        if fail then (s1, .dbError) else
        if cfg.cacheValues o.cls then (setObj s1 h { o with cached := cacheAll (cfg.dec o.cls) o.cached p }, .ok)
        else (s1, .ok)

/-- `syncUpdate` -/
def opSyncUpdate (s : State) (h : Hnd) (fail : Bool) : State × Out :=
  match s.objs h with
  | none => (s, .badHandle)
  | some o =>
    if o.pending.isEmpty then (s, .ok) else
    let s1 := sendUpdate s o o.pending fail
    if fail then (s1, .dbError) else
    (setObj s1 h { o with dirty := false, pending := [] }, .ok)

/-- the SELECT-and-reload half of `sync` -/
def opReload (cfg : Cfg) (s : State) (h : Hnd) : State × Out :=
  match s.objs h with
  | none => (s, .badHandle)
  | some o =>
    let s1 := logStmt s (.selectRow o.cls o.id)
    match s.db o.cls o.id with
    | none => (s1, .notFound)
    | some row => (setObj s1 h { o with cached := loadRow (cfg.dec o.cls) (cfg.ncols o.cls) row, expired := false }, .ok)

/-- `sync` -/
def opSync (cfg : Cfg) (s : State) (h : Hnd) (fail : Bool) : State × Out :=
  match s.objs h with
  | none => (s, .badHandle)
  | some o =>
    if cfg.lazyUpdate o.cls && !o.pending.isEmpty then
      let r := opSyncUpdate s h fail
      if r.2 = .ok then opReload cfg r.1 h else r
    else opReload cfg s h

/-- `expire` on one instance: every cached attribute dropped (whatever the flag said), pending
    values discarded, flag cleared, instance removed from the connection cache -/
def expireInst (o : Inst) : Inst :=
  { o with cached := noCache, expired := true, inCache := false, pending := [], dirty := false }

/-- `cache.expire(id, cls)` drops the cache entry of the KEY, whichever instance it points to: every other
    held instance of that key is out of the cache too -/
def evictOthers (s : State) (h : Hnd) (cls : Cls) (id : Id) : State :=
  { s with objs := fun k => if k = h then s.objs k else
      (s.objs k).map (fun o => if o.cls = cls ∧ o.id = id then { o with inCache := false } else o) }

def opExpire (s : State) (h : Hnd) : State × Out :=
  match s.objs h with
  | none => (s, .badHandle)
  | some o => (setObj (evictOthers s h o.cls o.id) h (expireInst o), .ok)

/-- connection `expireAll()` / `sqlmeta.expireAll()`: every instance still registered in the cache -/
def opExpireAll (s : State) (only : Option Cls) : State × Out :=
  ({ s with objs := fun k => (s.objs k).map (fun o =>
      if o.inCache && (match only with | none => true | some c => o.cls == c)
      then expireInst o else o) }, .ok)

/-- the final part of `destroySelf`: DELETE, obsolete, out of the cache -/
def opDestroy (s : State) (h : Hnd) : State × Out :=
  match s.objs h with
  | none => (s, .badHandle)
  | some o =>
    let s1 := logStmt s (.delete o.cls o.id)
    let s2 := { s1 with db := setRowDb s1.db o.cls o.id none }
    (setObj (evictOthers s2 h o.cls o.id) h { o with obsolete := true, inCache := false }, .ok)

/-- `clear`: `{fkID: None}` when the referrer shows the id being deleted, else `{}` -/
def clearArg (v : Val) (r : Id) : List (Col × Inp) :=
  if v = some (Int.ofNat r) then [(0, .ok none)] else []

/-- `k.get(id, selectResults=row)` for a referencing row -/
def refGet (cfg : Cfg) (s : State) (hr : Hnd) : Option (Cls × Id) → State × Out
  | none => opRefresh cfg s hr
  | some ki => opFetch cfg s hr ki.1 ki.2 true

/-- one referencing row inside `destroySelf` of row (T, r): `k.get(id, selectResults=row)` (refresh of the
    held instance unless dirty / a new instance), then for `cascade='null'`: `getattr(row, 'fkID') == r` and
    `row.set(fkID=None)` (or `row.set()`) followed by `row.syncUpdate()` when the class is lazy, for `cascade=True`: `row.destroySelf()` -/
def opRefRow (cfg : Cfg) (s : State) (T : Cls) (r : Id) (hr : Hnd) (fresh : Option (Cls × Id)) : State × Out :=
  let r1 := refGet cfg s hr fresh
  if r1.2 ≠ .ok then r1 else
  match r1.1.objs hr with
  | none => (r1.1, .badHandle)
  | some o' =>
    match cfg.fk o'.cls with
    | none => (r1.1, .badCol)
    | some (T', kind) =>
      if T' ≠ T then (r1.1, .badCol) else
      match kind with
      | .cascade => opDestroy r1.1 hr
      | .null =>
        let r2 := opRead cfg r1.1 hr 0
        match r2.2 with
        | .val v =>
          let r3 := opSet cfg r2.1 hr (clearArg v r) false
          -- a lazy referrer is flushed at once (`row.syncUpdate()`): the reference must be gone from the
          -- table before the referenced row is deleted; everything pending on it is written with it
          if r3.2 = .ok && cfg.lazyUpdate o'.cls then opSyncUpdate r3.1 hr false else r3
        | out => (r2.1, out)

def opRefSteps (cfg : Cfg) (s : State) (T : Cls) (r : Id) : List RefStep → State × Out
  | [] => (s, .ok)
  | .sel k :: rest => opRefSteps cfg (logStmt s (.selectRefs k T r)) T r rest
  | .row hr fresh :: rest =>
    let r1 := opRefRow cfg s T r hr fresh
    if r1.2 = .ok then opRefSteps cfg r1.1 T r rest else r1

/-- `destroySelf` with its dependents loop (an exception inside the loop leaves the row undeleted) -/
def opDestroyRefs (cfg : Cfg) (s : State) (h : Hnd) (refs : List RefStep) : State × Out :=
  match s.objs h with
  | none => (s, .badHandle)
  | some o =>
    let r1 := opRefSteps cfg s o.cls o.id refs
    if r1.2 = .ok then opDestroy r1.1 h else r1

/-- `__getstate__` -/
def opPickle (cfg : Cfg) (s : State) (h : Hnd) (fail : Bool) : State × Out :=
  match s.objs h with
  | none => (s, .badHandle)
  | some o =>
    if cfg.lazyUpdate o.cls && !o.pending.isEmpty then opSyncUpdate s h fail else (s, .ok)

/-- attributes restored from a pickled state -/
def snapCached (n : Nat) (snap : Pend) : Col → Option Val := fun c => if c < n then plookup c snap else none

def unpickledInst (cfg : Cfg) (cls : Cls) (id : Id) (snap : Pend) : Inst :=
  { cls := cls, id := id, cached := snapCached (cfg.ncols cls) snap, expired := false, dirty := false,
    pending := [], obsolete := false, inCache := true }

/-- `__setstate__`: a fresh instance with the pickled attribute values, NOTHING pending, not dirty,
    registered in the cache (`cache.created`) — or ValueError when the id is already cached -/
def opUnpickle (cfg : Cfg) (s : State) (h : Hnd) (cls : Cls) (id : Id) (snap : Pend) (clash : Bool) : State × Out :=
  if (s.objs h).isSome then (s, .badHandle) else
  if clash then (s, .valueError) else
  (register s h (unpickledInst cfg cls id snap), .ok)

def opDrop (s : State) (h : Hnd) : State × Out :=
  ({ s with objs := fun k => if k = h then none else s.objs k }, .ok)

def step (cfg : Cfg) (s : State) : Op → State × Out
  | .create h cls id kvs => opCreate cfg s h cls id kvs
  | .fetch h cls id v => opFetch cfg s h cls id v
  | .refresh h => opRefresh cfg s h
  | .selectStmt cls => (logStmt s (.selectCls cls), .ok)
  | .read h c => opRead cfg s h c
  | .setattr h c inp fail => opSetattr cfg s h c inp fail
  | .set h kvs fail => opSet cfg s h kvs fail
  | .syncUpdate h fail => opSyncUpdate s h fail
  | .sync h fail => opSync cfg s h fail
  | .expire h => opExpire s h
  | .expireAll => opExpireAll s none
  | .expireAllCls cls => opExpireAll s (some cls)
  | .destroy h refs => opDestroyRefs cfg s h refs
  | .pickle h fail => opPickle cfg s h fail
  | .drop h => opDrop s h
  | .unpickle h cls id snap clash => opUnpickle cfg s h cls id snap clash
  | .bulkDelete cls ids =>
    ({ logStmt s (.deleteWhere cls) with db := fun c i => if c = cls ∧ ids.contains i = true then none else s.db c i }, .ok)
  | .oobUpdate cls id c v => ({ s with db := updRow s.db cls id [(c, v)] }, .ok)
  | .oobDelete cls id => ({ s with db := setRowDb s.db cls id none }, .ok)
  | .oobInsert cls id vals =>
    (if (s.db cls id).isSome then s
     else { s with db := setRowDb s.db cls id (some (applyUpd (fun _ => none) vals)) }, .ok)

def run (cfg : Cfg) (s : State) : List Op → State
  | [] => s
  | op :: ops => run cfg (step cfg s op).1 ops

/-- out-of-band operations: raw SQL behind the library's back -/
def Op.isOob : Op → Bool
  | .oobUpdate .. | .oobDelete .. | .oobInsert .. => true
  | _ => false

end SqlObjVerif.OrmVal
