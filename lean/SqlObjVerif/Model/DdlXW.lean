import SqlObjVerif.Model.DdlX
import SqlObjVerif.Model.PyDdlW
/-!
# C14 — the stateful schema code as TRANSLATED, run against the catalogue of `Model/DdlCat.lean`

The WORLD of the world-threading interpreter (`Model/PyDdlW.lean`) is the model's database catalogue `Cat` (tables,
indexes).  `callXW n w callee args` runs the translated `SQLObject.createTable / dropTable / createJoinTables /
dropJoinTables / createIndexes` and the connection classes' `createTable / dropTable / _SO_createJoinTable /
_SO_dropJoinTable / _SO_createIndex / addColumn / delColumn` (translated from /repo on this run) from the catalogue `w`.

## Interface assumptions (`EX`)

* `conn.query(sql)` hands the statement TEXT to the database reader `execSQL` (below, a hand-written specification of
  what the statement does to the catalogue, written from SQL's grammar: `CREATE TABLE <name> …` adds the table or
  fails when it exists, `DROP TABLE <name>[ …]` removes it with its indexes or fails when it is missing,
  `CREATE [UNIQUE] INDEX <table>_<name> ON <table> …` adds the index `(table, name)` or fails when it exists, every
  `ALTER TABLE <table> ADD INDEX|UNIQUE <name> …` (MySQL) likewise, every other statement — `ALTER TABLE … ADD
  CONSTRAINT`, generators, sequences, `VACUUM`, `INSERT … SELECT` — leaves the catalogue as it is); a refused statement raises (`operationalError`) and leaves
  the catalogue unchanged.  Names are the text up to the next blank.
* `conn.tableExists(t)` / `cls.tableExists(connection=conn)` read the catalogue (`t ∈ tables`).
* `sqlmeta.send(signal, …)` has no listeners: no effect, `extra_sql` / `post_funcs` stay empty.
* Everything pure (texts, joins to create) is evaluated by the world-independent semantics, interface `ddlI`.
-/
namespace SqlObjVerif.DdlX
open SqlObjVerif.Ddl
open SqlObjVerif.PyDdl hiding Str isUpperC
open SqlObjVerif.PyDdl.Extracted

/-! ### the database reader -/

/-- the text up to the next blank -/
def word (s : Str) : Str := s.takeWhile (· != 32)

def strip (p s : Str) : Option Str := if p.isPrefixOf s then some (s.drop p.length) else none

def pCT : Str := [67, 82, 69, 65, 84, 69, 32, 84, 65, 66, 76, 69, 32]                       -- "CREATE TABLE "
def pDT : Str := [68, 82, 79, 80, 32, 84, 65, 66, 76, 69, 32]                                 -- "DROP TABLE "
def pCI : Str := [67, 82, 69, 65, 84, 69, 32, 73, 78, 68, 69, 88, 32]                       -- "CREATE INDEX "
def pCUI : Str := [67, 82, 69, 65, 84, 69, 32, 85, 78, 73, 81, 85, 69, 32, 73, 78, 68, 69, 88, 32]   -- "CREATE UNIQUE INDEX "

/-- `CREATE [UNIQUE] INDEX <table>_<name> ON <table> (…)`, `r` = the text after the keywords -/
def execIndex (r : Str) (c : Cat) : Except Unit Cat :=
  let full := word r
  let tbl := word (r.drop (full.length + 4))
  let nm := full.drop (tbl.length + 1)
  if (tbl, nm) ∈ c.indexes then .error () else .ok { c with indexes := c.indexes ++ [(tbl, nm)] }

def pAT : Str := [65, 76, 84, 69, 82, 32, 84, 65, 66, 76, 69, 32]              -- "ALTER TABLE "
def pAI : Str := [32, 65, 68, 68, 32, 73, 78, 68, 69, 88, 32]                    -- " ADD INDEX "
def pAU : Str := [32, 65, 68, 68, 32, 85, 78, 73, 81, 85, 69, 32]                -- " ADD UNIQUE "

def addIndex (tbl nm : Str) (c : Cat) : Except Unit Cat :=
  if (tbl, nm) ∈ c.indexes then .error () else .ok { c with indexes := c.indexes ++ [(tbl, nm)] }

/-- MySQL: `ALTER TABLE <table> ADD INDEX|UNIQUE <name> (…)`, `r` = the text after `ALTER TABLE `; every other
    `ALTER TABLE` statement leaves the catalogue alone -/
def execAlter (r : Str) (c : Cat) : Except Unit Cat :=
  match strip pAI (r.drop (word r).length) with
  | some r2 => addIndex (word r) (word r2) c
  | none =>
    match strip pAU (r.drop (word r).length) with
    | some r2 => addIndex (word r) (word r2) c
    | none => .ok c

/-- what a statement does to the catalogue -/
def execSQL (s : Str) (c : Cat) : Except Unit Cat :=
  match strip pCT s with
  | some r => if word r ∈ c.tables then .error () else .ok (addTbl (word r) c)
  | none =>
    match strip pDT s with
    | some r => if word r ∈ c.tables then .ok (dropTbl (word r) c) else .error ()
    | none =>
      match strip pCUI s with
      | some r => execIndex r c
      | none =>
        match strip pCI s with
        | some r => execIndex r c
        | none =>
          match strip pAT s with
          | some r => execAlter r c
          | none => .ok c

/-! ### the interface -/

def queryRes (w : Cat) : Except Unit Cat → R Val × Cat
  | .ok w' => (.ok .none, w')
  | .error _ => (.exc .operationalError, w)

@[simp] theorem queryRes_ok (w w' : Cat) : queryRes w (.ok w') = (.ok .none, w') := rfl
@[simp] theorem queryRes_error (w : Cat) (e : Unit) : queryRes w (.error e) = (.exc .operationalError, w) := rfl

def queryX (w : Cat) : List Val → R Val × Cat
  | [.str sql] => queryRes w (execSQL sql w)
  | _ => (.stuck, w)

def effX (w : Cat) (_r : Val) (m : String) (as : List Val) : Option (R Val × Cat) :=
  if m = "query" then some (queryX w as)
  else if m = "send" then some (.ok .none, w)
  else none

/-- `cls.sqlmeta.table` -/
def tableOfCls : Val → Option Str
  | .obj _ fs => match aget "sqlmeta" fs with
    | some (.obj _ ms) => match aget "table" ms with
      | some (.str t) => some t
      | _ => none
    | _ => none
  | _ => none

def readX (w : Cat) (r : Val) (m : String) (as : List Val) : Option (R Val) :=
  if m = "tableExists" then
    match as with
    | [.str t] => some (.ok (.bool (decide (t ∈ w.tables))))
    | [_] => match tableOfCls r with
      | some t => some (.ok (.bool (decide (t ∈ w.tables))))
      | none => some .stuck
    | _ => some .stuck
  else none

def EX : Eff Cat := { effMeths := effMeths, eff := effX, read := readX }

/-! ### two more worlds: the statement log, and a catalogue whose reader follows `ALTER TABLE … RENAME TO` -/

/-- the statements handed to `conn.query`, in order (every statement is accepted) -/
def logEff (log : List Str) (_r : Val) (m : String) (as : List Val) : Option (R Val × List Str) :=
  if m = "query" then
    match as with
    | [.str s] => some (.ok .none, log ++ [s])
    | _ => some (.stuck, log)
  else none

def ELog : Eff (List Str) := { effMeths := effMeths, eff := logEff, read := fun _ _ _ _ => none }

def pRT : Str := [32, 82, 69, 78, 65, 77, 69, 32, 84, 79, 32]                    -- " RENAME TO "

/-- `execSQL`, and `ALTER TABLE a RENAME TO b`: the table and (as in SQLite) its indexes go by the new name -/
def execSQL2 (s : Str) (c : Cat) : Except Unit Cat :=
  match strip pAT s with
  | some r =>
    match strip pRT (r.drop (word r).length) with
    | some r2 =>
      if word r ∈ c.tables then
        .ok { tables := c.tables.map fun t => if t = word r then word r2 else t
              indexes := c.indexes.map fun p => if p.1 = word r then (word r2, p.2) else p }
      else .error ()
    | none => execSQL s c
  | none => execSQL s c

def effX2 (w : Cat) (_r : Val) (m : String) (as : List Val) : Option (R Val × Cat) :=
  if m = "query" then
    match as with
    | [.str sql] => some (queryRes w (execSQL2 sql w))
    | _ => some (.stuck, w)
  else none

def EX2 : Eff Cat := { effMeths := effMeths, eff := effX2, read := readX }

/-- run a stateful function of the translated program from the catalogue `w` with call depth `n` -/
@[reducible] def callXW (n : Nat) : Cat → Callee → List Val → R Val × Cat := callNW prog ddlI EX n

end SqlObjVerif.DdlX
