/-!
# Model `Tx` — one parent connection, one `Transaction` object on it (C07)

Value level, self-contained.  Mirrors `dbconnection.py` (`Transaction.__init__/commit/rollback/begin/
_SO_delete/_makeObsolete/assertActive`), `cache.py` (`CacheFactory.get/put/created/expire/tryGet/allIDs/
cull`) and `main.py` (`get`, `_init`, `_SO_loadValue`, `_SO_setValue`, `expire`, `destroySelf`,
`_SO_finishCreate`) for an eager class with cached values, on SQLite:

* the parent connection is in autocommit mode: its reads see the committed database `db`;
* the transaction has a write set `ws` (`none` = untouched, `some none` = deleted, `some (some r)` = written);
  its own view is `db` overridden by `ws`; the first write *attempt* (even one that fails or matches no row)
  takes SQLite's write lock (`lock`), and a parent write while the lock is held fails (`locked`);
* each side has its instances (`insts`, allocation order = identity) and its cache: a strong map and a
  weak map per key, exactly the two dictionaries of `CacheFactory`; an instance is alive iff the application
  holds it or the strong map references it (`weakref` semantics; `gc`/`cull` are explicit environment
  steps `drop`, `weaken`, `purge`);
* `expire()` of an instance drops its cached values **and removes its key from its connection's cache**
  (the C04 finding the C07 findings are knock-ons of);
* `commit` expires the parent instance found by `tryGet` for every key in the transaction cache's
  `allIDs()` (strong + alive weak), in the deleted log and in the updated log (`Transaction._SO_update` records every
  row written through the transaction); `rollback` expires the transaction-side
  instances found by `tryGet` for `allIDs()`; `close`/`rollback` make the transaction obsolete.

A key stands for (class, id): `clsOf k = k / 1000`.
-/
namespace SqlObjVerif.Tx

abbrev Key := Nat
abbrev Col := Nat
abbrev Val := Int
abbrev Row := Col → Val

inductive Side | P | T
  deriving DecidableEq, Repr

/-- function update -/
def upd {α : Type} (f : Nat → α) (k : Nat) (v : α) : Nat → α := fun x => if x = k then v else f x

@[simp, grind =] theorem upd_apply {α : Type} (f : Nat → α) (k : Nat) (v : α) (x : Nat) :
    upd f k v x = if x = k then v else f x := rfl

structure Inst where
  key : Key
  /-- the `_SO_val_<col>` attributes -/
  cached : Col → Option Val
  /-- ghost: some column is cached (`false` ⇒ none is) -/
  loaded : Bool
  /-- `sqlmeta.expired` -/
  expired : Bool
  /-- the application holds a reference -/
  held : Bool
  /-- `sqlmeta._obsolete` (set by `destroySelf`) -/
  destroyed : Bool

def Inst.blank : Inst := ⟨0, fun _ => none, false, false, false, false⟩

/-- what `expire()` does to the instance itself -/
def Inst.expire (i : Inst) : Inst := { i with cached := fun _ => none, loaded := false, expired := true }

/-- `_SO_selectInit(row)` + `expired = False` -/
def Inst.load (i : Inst) (row : Row) : Inst :=
  { i with cached := fun c => some (row c), loaded := true, expired := false }

structure Conn where
  insts : Nat → Inst
  n : Nat
  strong : Key → Option Nat
  weak : Key → Option Nat

def Conn.empty : Conn := ⟨fun _ => Inst.blank, 0, fun _ => none, fun _ => none⟩

/-- weakref liveness: held by the application or referenced by the strong map -/
def Conn.alive (c : Conn) (j : Nat) : Bool :=
  (c.insts j).held || (c.strong (c.insts j).key == some j)

/-- `CacheFactory.tryGet`: the weak entry first if its object is alive, else the strong map -/
def Conn.tryGet (dc : Bool) (c : Conn) (k : Key) : Option Nat :=
  match c.weak k with
  | some j => if c.alive j then some j else if dc then c.strong k else none
  | none => if dc then c.strong k else none

/-- `CacheFactory.allIDs` membership -/
def Conn.inAllIDs (dc : Bool) (c : Conn) (k : Key) : Bool :=
  (dc && (c.strong k).isSome) ||
  (match c.weak k with
   | some j => c.alive j
   | none => false)

/-- `CacheFactory.get` (hit or miss) with its side effect on the two maps -/
def Conn.cacheGet (dc : Bool) (c : Conn) (k : Key) : Option Nat × Conn :=
  if dc then
    match c.strong k with
    | some j => (some j, c)
    | none =>
      match c.weak k with
      | none => (none, c)
      | some j =>
        if c.alive j then (some j, { c with weak := upd c.weak k none, strong := upd c.strong k (some j) })
        else (none, { c with weak := upd c.weak k none })
  else
    match c.weak k with
    | none => (none, c)
    | some j => if c.alive j then (some j, c) else (none, { c with weak := upd c.weak k none })

/-- `put` / `created` -/
def Conn.put (dc : Bool) (c : Conn) (k : Key) (j : Nat) : Conn :=
  if dc then { c with strong := upd c.strong k (some j) } else { c with weak := upd c.weak k (some j) }

/-- `CacheFactory.expire(id)` -/
def Conn.evict (c : Conn) (k : Key) : Conn :=
  { c with strong := upd c.strong k none, weak := upd c.weak k none }

def Conn.modify (c : Conn) (j : Nat) (f : Inst → Inst) : Conn :=
  { c with insts := upd c.insts j (f (c.insts j)) }

/-- a freshly loaded, held instance at index `c.n` -/
def Conn.alloc (c : Conn) (k : Key) (row : Row) : Conn :=
  { c with insts := upd c.insts c.n ⟨k, fun col => some (row col), true, false, true, false⟩, n := c.n + 1 }

structure St where
  /-- `doCache` of the parent connection (inherited by the transaction's CacheSet) -/
  dc : Bool
  db : Key → Option Row
  ws : Key → Option (Option Row)
  lock : Bool
  obsolete : Bool
  /-- `_deletedCache` -/
  del : List Key
  /-- `_updatedCache`: the rows written through `Transaction._SO_update` since the last commit / rollback / close -/
  upd : List Key
  /-- keys ever inserted, ascending (enumeration domain of `select`) -/
  dom : List Key
  p : Conn
  t : Conn

def init (dc : Bool) : St :=
  ⟨dc, fun _ => none, fun _ => none, false, false, [], [], [], Conn.empty, Conn.empty⟩

def St.conn (s : St) : Side → Conn
  | .P => s.p
  | .T => s.t

def St.setConn (s : St) (sd : Side) (c : Conn) : St :=
  match sd with
  | .P => { s with p := c }
  | .T => { s with t := c }

/-- what a SELECT through the side's low-level connection returns -/
def St.view (s : St) : Side → Key → Option Row
  | .P, k => s.db k
  | .T, k => match s.ws k with
    | some w => w
    | none => s.db k

/-- `assertActive` fails -/
def St.refused (s : St) (sd : Side) : Bool := sd == .T && s.obsolete

def clsOf (k : Key) : Nat := k / 1000

def domAdd (k : Key) : List Key → List Key
  | [] => [k]
  | x :: xs => if k < x then k :: x :: xs else if k = x then x :: xs else x :: domAdd k xs

inductive Op
  /-- `Cls(id=k, **row, connection=…)` -/
  | create (sd : Side) (k : Key) (row : Row)
  /-- `Cls.get(k, connection=…)`; `bound`: through `t.Cls.get(k)` (attribute access asserts first) -/
  | get (sd : Side) (k : Key) (bound : Bool)
  | read (sd : Side) (j : Nat) (c : Col)
  | set (sd : Side) (j : Nat) (c : Col) (v : Val)
  | destroy (sd : Side) (j : Nat)
  | expire (sd : Side) (j : Nat)
  /-- `list(Cls.select(orderBy='id', connection=…))`, every returned instance held -/
  | select (sd : Side) (cls : Nat)
  /-- the application forgets its reference (and the collector runs) -/
  | drop (sd : Side) (j : Nat)
  /-- a cull moved key `k` from the strong to the weak map -/
  | weaken (sd : Side) (k : Key)
  /-- a cull of class `cls`'s cache removed its dead weak entries -/
  | purge (sd : Side) (cls : Nat)
  | commit (close : Bool)
  | rollback
  | begin

inductive Out
  | ok
  | inst (j : Nat)
  | val (v : Val)
  | rows (l : List (Nat × Key))
  | notFound
  | dup
  | locked
  | assert
  | bad
  deriving DecidableEq, Repr

def Op.side : Op → Side
  | .create sd .. | .get sd .. | .read sd .. | .set sd .. | .destroy sd .. | .expire sd .. | .select sd ..
  | .drop sd .. | .weaken sd .. | .purge sd .. => sd
  | .commit _ | .rollback | .begin => .T

def Op.isCommit : Op → Bool
  | .commit _ => true
  | _ => false

def opGet (s : St) (sd : Side) (k : Key) (bound : Bool) : St × Out :=
  if bound && s.refused sd then (s, .assert) else
  match (s.conn sd).cacheGet s.dc k with
  | (some j, c') => (s.setConn sd (c'.modify j fun i => { i with held := true }), .inst j)
  | (none, c') =>
    if s.refused sd then (s.setConn sd c', .assert) else
    match s.view sd k with
    | none => (s.setConn sd c', .notFound)
    | some row => (s.setConn sd ((c'.alloc k row).put s.dc k c'.n), .inst c'.n)

def opCreate (s : St) (sd : Side) (k : Key) (row : Row) : St × Out :=
  match sd with
  | .P =>
    if s.lock then (s, .locked) else
    if (s.db k).isSome then (s, .dup) else
    ({ s with db := upd s.db k (some row), dom := domAdd k s.dom,
              p := (s.p.alloc k row).put s.dc k s.p.n }, .inst s.p.n)
  | .T =>
    if s.obsolete then (s, .assert) else
    if (s.view .T k).isSome then ({ s with lock := true }, .dup) else
    ({ s with lock := true, ws := upd s.ws k (some (some row)), dom := domAdd k s.dom,
              t := (s.t.alloc k row).put s.dc k s.t.n }, .inst s.t.n)

def opRead (s : St) (sd : Side) (j : Nat) (col : Col) : St × Out :=
  if j ≥ (s.conn sd).n then (s, .bad) else
  match ((s.conn sd).insts j).cached col with
  | some v => (s, .val v)
  | none =>
    if s.refused sd then (s.setConn sd ((s.conn sd).modify j fun i => { i with expired := false }), .assert) else
    match s.view sd ((s.conn sd).insts j).key with
    | none => (s.setConn sd ((s.conn sd).modify j fun i => { i with expired := false }), .notFound)
    | some row => (s.setConn sd ((s.conn sd).modify j fun i => i.load row), .val (row col))

def opSet (s : St) (sd : Side) (j : Nat) (col : Col) (v : Val) : St × Out :=
  if j ≥ (s.conn sd).n then (s, .bad) else
  match sd with
  | .P =>
    if s.lock then (s, .locked) else
    ({ s with db := upd s.db (s.p.insts j).key ((s.db (s.p.insts j).key).map fun r => upd r col v),
              p := s.p.modify j fun i => { i with cached := upd i.cached col (some v), loaded := true } }, .ok)
  | .T =>
    -- `Transaction._SO_update` logs the row first, then the UPDATE goes through `assertActive`
    if s.obsolete then ({ s with upd := (s.t.insts j).key :: s.upd }, .assert) else
    ({ s with lock := true, upd := (s.t.insts j).key :: s.upd,
              ws := (match s.view .T (s.t.insts j).key with
                     | some r => upd s.ws (s.t.insts j).key (some (some (upd r col v)))
                     | none => s.ws),
              t := s.t.modify j fun i => { i with cached := upd i.cached col (some v), loaded := true } }, .ok)

def opDestroy (s : St) (sd : Side) (j : Nat) : St × Out :=
  if j ≥ (s.conn sd).n then (s, .bad) else
  match sd with
  | .P =>
    -- the DELETE fails: `_obsolete` is only set after a successful DELETE
    if s.lock then (s, .locked) else
    ({ s with db := upd s.db (s.p.insts j).key none,
              p := (s.p.modify j fun i => { i with destroyed := true }).evict (s.p.insts j).key }, .ok)
  | .T =>
    if s.obsolete then
      -- `Transaction._SO_delete` logs the id, then `assertActive` fails; the instance is not marked
      ({ s with del := (s.t.insts j).key :: s.del }, .assert)
    else
      ({ s with del := (s.t.insts j).key :: s.del, lock := true,
                ws := (if (s.view .T (s.t.insts j).key).isSome then upd s.ws (s.t.insts j).key (some none) else s.ws),
                t := (s.t.modify j fun i => { i with destroyed := true }).evict (s.t.insts j).key }, .ok)

def opExpire (s : St) (sd : Side) (j : Nat) : St × Out :=
  if j ≥ (s.conn sd).n then (s, .bad) else
  (s.setConn sd (((s.conn sd).modify j Inst.expire).evict ((s.conn sd).insts j).key), .ok)

/-- one row of a select: `get(id, connection, selectResults=row)` -/
def selStep (sd : Side) (acc : St × List (Nat × Key)) (k : Key) : St × List (Nat × Key) :=
  match acc.1.view sd k with
  | none => acc
  | some row =>
    match (acc.1.conn sd).cacheGet acc.1.dc k with
    | (some j, c') =>
      (acc.1.setConn sd (c'.modify j fun i => { i.load row with held := true }), acc.2 ++ [(j, k)])
    | (none, c') =>
      (acc.1.setConn sd ((c'.alloc k row).put acc.1.dc k c'.n), acc.2 ++ [(c'.n, k)])

def opSelect (s : St) (sd : Side) (cls : Nat) : St × Out :=
  if s.refused sd then (s, .assert) else
  (((s.dom.filter fun k => clsOf k == cls).foldl (selStep sd) (s, [])).1,
   .rows ((s.dom.filter fun k => clsOf k == cls).foldl (selStep sd) (s, [])).2)

def opDrop (s : St) (sd : Side) (j : Nat) : St × Out :=
  if j ≥ (s.conn sd).n then (s, .bad) else
  (s.setConn sd ((s.conn sd).modify j fun i => { i with held := false }), .ok)

/-- one key of `cull`: strong → weak; an instance nobody holds dies on removal and gets no weak entry -/
def Conn.weaken (c : Conn) (k : Key) : Conn :=
  match c.strong k with
  | some j =>
    if (c.insts j).held then { c with strong := upd c.strong k none, weak := upd c.weak k (some j) }
    else { c with strong := upd c.strong k none }
  | none => c

/-- the first phase of `cull` on the cache of class `cls`: dead weak entries are removed -/
def Conn.purge (c : Conn) (cls : Nat) : Conn :=
  { c with weak := fun k => match c.weak k with
      | some j => if k / 1000 = cls ∧ c.alive j = false then none else some j
      | none => none }

/-- the transaction's `allIDs()` of the key's class cache, plus the deleted log, plus the updated log -/
def St.reached (s : St) (k : Key) : Bool := s.t.inAllIDs s.dc k || s.del.contains k || s.upd.contains k

/-- the expiry loop of `commit` on the parent side (set semantics: the loop body touches one key) -/
def St.commitExpire (s : St) : Conn :=
  { s.p with
    insts := fun j =>
      if s.reached (s.p.insts j).key && (s.p.tryGet s.dc (s.p.insts j).key == some j)
      then (s.p.insts j).expire else s.p.insts j
    strong := fun k => if s.reached k && (s.p.tryGet s.dc k).isSome then none else s.p.strong k
    weak := fun k => if s.reached k && (s.p.tryGet s.dc k).isSome then none else s.p.weak k }

def opCommit (s : St) (close : Bool) : St × Out :=
  if s.obsolete then (s, .ok) else
  ({ s with db := s.view .T, ws := fun _ => none, lock := false, p := s.commitExpire,
            obsolete := close, del := if close then [] else s.del, upd := [] }, .ok)

/-- the expiry loop of `rollback` on the transaction side -/
def St.rollbackExpire (s : St) : Conn :=
  { s.t with
    insts := fun j =>
      if s.t.tryGet s.dc (s.t.insts j).key == some j then (s.t.insts j).expire else s.t.insts j
    strong := fun k => if (s.t.tryGet s.dc k).isSome then none else s.t.strong k
    weak := fun k => if (s.t.tryGet s.dc k).isSome then none else s.t.weak k }

def opRollback (s : St) : St × Out :=
  if s.obsolete then (s, .ok) else
  ({ s with ws := fun _ => none, lock := false, t := s.rollbackExpire, obsolete := true, del := [], upd := [] }, .ok)

def opBegin (s : St) : St × Out :=
  if s.obsolete then ({ s with obsolete := false }, .ok) else (s, .assert)

def step (s : St) : Op → St × Out
  | .create sd k row => opCreate s sd k row
  | .get sd k b => opGet s sd k b
  | .read sd j c => opRead s sd j c
  | .set sd j c v => opSet s sd j c v
  | .destroy sd j => opDestroy s sd j
  | .expire sd j => opExpire s sd j
  | .select sd cls => opSelect s sd cls
  | .drop sd j => opDrop s sd j
  | .weaken sd k => (s.setConn sd ((s.conn sd).weaken k), .ok)
  | .purge sd cls => (s.setConn sd ((s.conn sd).purge cls), .ok)
  | .commit close => opCommit s close
  | .rollback => opRollback s
  | .begin => opBegin s

def run (s : St) : List Op → St
  | [] => s
  | op :: ops => run (step s op).1 ops

/-- the answers of a history -/
def outs (s : St) : List Op → List Out
  | [] => []
  | op :: ops => (step s op).2 :: outs (step s op).1 ops

end SqlObjVerif.Tx
