import SqlObjVerif.Model.FailX
import SqlObjVerif.Model.FailCreateX
import SqlObjVerif.Model.FailDestroyInhX
import SqlObjVerif.Model.FailOpXInh
import SqlObjVerif.Model.FailInhSetX
/-!
# C06 — the operations of `Model/Fail.lean` that are TIED to the translated source, as one function

`stepX sch props s op inj` runs the translated program of operation `op` (attribute assignment = `_SO_setValue`,
`set(**kw)` = the translated `InheritableSQLObject.set` (for a class without parent: `SQLObject.set(self, **kw)`) →
the translated `set` with any column and extra keywords, the setters of ForeignKeys given by object and of inherited
columns being translated code too (`Model/FailPropX.lean`, `FailInhSetX.lean`)) from the image of the hand model's state `s` under the schedule (`inj`, the validator oracle of
the operation's arguments) and reads the end of the run as an observation (`Obs`: tables, link tables, instances,
registered ids, `seqs`, `lastId`, statement counter and log) and the error, if it raised.  `Tied` says which
operations are covered and what a Python call can express: column numbers in range, keyword names distinct.
`create` = the translated `__init__` → `_create` → `set` → `_SO_finishCreate` (`Model/FailCreateX.lean`).  The
inheritable create is tied in `Model/FailInhX.lean` (its own world: one `_create` per class level; not part of
`stepX`), `destroySelf` = the translated `destroySelf` of `main.py` and of `inheritance/__init__.py`
(`Model/FailDestroyX.lean`, `FailDestroyInhX.lean`); `syncUpdate` is not tied.
-/
namespace SqlObjVerif.PyFail
open SqlObjVerif.Fail (Err Schema Inj Extra In Op clsOf)

/-- what a Python call of a tied operation can express -/
def Tied (sch : Schema) (s : Fail.St) : Op → Prop
  | .setattr c _ col _ => col < (clsOf sch c).cols.length
  | .set c _ kw ex => (∀ e ∈ kw, e.1 < (clsOf sch c).cols.length) ∧ (kw.map (·.1)).Nodup ∧
      ∀ e ∈ ex, FailInhSet.exOk sch c e
  /- `kw`: the keywords given followed by the defaulted columns (the theorem about `createF` itself takes the
     keywords given and the class's defaults table); `missing`: a required keyword is really absent -/
  | .create c missing kw ex => ex = [] ∧ (∀ e ∈ kw, e.1 < (clsOf sch c).cols.length) ∧ (kw.map (·.1)).Nodup ∧
      (missing = true → (List.range (clsOf sch c).cols.length).any (fun j => !PyCreate.hasKey kw j) = true)
  | .destroy _ _ => True
  /- `_SO_createValues` is a dict of columns: distinct, in range -/
  | .sync c id => ((Fail.pendingOf { s with n := 0, log := [] } c id).map (·.1)).Nodup ∧
      ∀ e ∈ Fail.pendingOf { s with n := 0, log := [] } c id, e.1 < (clsOf sch c).cols.length
  /- the inheritable create: the level lists are what ONE Python call `Leaf(**kw)` produces (`Fail.InhX.TiedInh`) -/
  | .createChild c pkw ckw => Fail.InhX.TiedInh sch s (.createChild c pkw ckw)
  | .createChain levels => Fail.InhX.TiedInh sch s (.createChain levels)

instance (sch : Schema) (c : Nat) (e : Extra) : Decidable (FailInhSet.exOk sch c e) := by
  cases e <;> unfold FailInhSet.exOk <;> infer_instance

instance (sch : Schema) (s : Fail.St) (op : Op) : Decidable (Tied sch s op) := by
  unfold Tied; cases op <;> infer_instance

/-- the Python keywords standing for the extra keywords `ex` of the hand model (which have no names there): the
    names `n, n+1, …` after the `n` columns; their Python-side values are irrelevant -/
def exKw (n : Nat) (ex : List Extra) : List (Nat × In) := (List.range ex.length).map fun i => (n + i, In.ok none)

/-- … and what kind of attribute each of these names is -/
def propsOf (n : Nat) (ex : List Extra) : Nat → Extra := fun k => ex.getD (k - n) .unknown

/-- the translated program of `op`, run from `s` (statement counter and log reset, as `Fail.step` does): how the
    call ends (`stuck` for an operation that is not tied here) -/
def stepXO (sch : Schema) (props : Nat → Extra) (s : Fail.St) (op : Op) (inj : Option Inj) : Outcome :=
  let s0 := { s with n := 0, log := [] }
  match op with
  | .setattr c id col v => setValueF (mkW sch inj props s0 c id (vqOf [(col, v)])) col v
  | .set c id kw ex =>
    FailInhSet.inhSetF (mkW sch inj (propsOf (clsOf sch c).cols.length ex) s0 c id (vqOf kw ++ vqEx ex))
      (kwPV (kw ++ exKw (clsOf sch c).cols.length ex))
  | .sync c id => syncUpdateF (mkW sch inj props s0 c id [])
  | .create c missing kw _ => PyCreate.createF (fun _ => none) (fun _ => !missing) sch inj props s0 c (vqOf kw) none kw
  | _ => .stuck

/-- the end of the translated run of `op`: the hand-model state it ends in (ghost counter included) and the error, if
    it raised; `none`: stuck / not tied / lock or suppress flag left set.  `destroySelf` runs the translated
    `SQLObject.destroySelf` / `InheritableSQLObject.destroySelf` with dynamic dispatch (`FailDX.destroyI`: every class
    with a parent is an InheritableSQLObject child), the budget for nested `destroySelf()` calls being `fuelOf`;
    the inheritable create runs the translated `InheritableSQLObject._create` along the class chain with the
    translated `SQLObject._create` and the translated `destroySelf` as its callees (`Fail.InhX.stepXInh`) -/
def stepXS (sch : Schema) (props : Nat → Extra) (s : Fail.St) (op : Op) (inj : Option Inj) : Option (Fail.St × Option Err) :=
  match op with
  | .destroy c id =>
    FailDX.destroyI sch inj (fun c => (clsOf sch c).parent.isSome) (Fail.fuelOf { s with n := 0, log := [] }) c id
      { s with n := 0, log := [] }
  | .createChild c pkw ckw =>
    if Fail.InhX.TiedInh sch s (.createChild c pkw ckw) then Fail.InhX.stepXInh sch s (.createChild c pkw ckw) inj else none
  | .createChain levels =>
    if Fail.InhX.TiedInh sch s (.createChain levels) then Fail.InhX.stepXInh sch s (.createChain levels) inj else none
  | _ => (stepXO sch props s op inj).view

/-- … read as an observation and the error -/
def stepX (sch : Schema) (props : Nat → Extra) (s : Fail.St) (op : Op) (inj : Option Inj) : Option (Obs × Option Err) :=
  (stepXS sch props s op inj).map runObs

/-- no completed step of the TRANSLATED program changed tables, link tables, instances or registrations: the ghost
    counter of the interpreter that ran it did not move -/
def QuietX (sch : Schema) (props : Nat → Extra) (s : Fail.St) (op : Op) (inj : Option Inj) : Prop :=
  (stepXS sch props s op inj).map (fun r => r.1.changes) = some s.changes

instance (sch : Schema) (props : Nat → Extra) (s : Fail.St) (op : Op) (inj : Option Inj) :
    Decidable (QuietX sch props s op inj) := by unfold QuietX; infer_instance

end SqlObjVerif.PyFail
