import SqlObjVerif.Model.Uri
import SqlObjVerif.Model.PyUri
import SqlObjVerif.Extracted.PyUri
/-!
# C18 — the connection-URI code as TRANSLATED from the source

`parseURIX`, `genericUriX`, `sqliteUriX`, `sqliteOpenX`, `connectionFromURIX`, `connectionForURIX` RUN the PyUri
programs that `vlib/extractors/pyuri.py` translated from /repo's `dbconnection.py` / `sqliteconnection.py` on this very
run.  `Lemmas/UriX*.lean` prove them equal to the hand model of `Model/Uri.lean` (`parseURI`, `genericUri`,
`sqliteUri`, `sqliteOpen`, `withParams`) for ALL inputs, so that the theorems of `Props/C18.lean` are theorems about
the translated source.

## Interface assumptions (the PARAMETERS of the interpreter, `uriIface`)

* The standard-library functions the code imports are instantiated by the hand model's functions of the same name —
  they are SPECIFICATION (a hand-written model of CPython 3.12 `urllib.parse`), cross-checked against the real
  interpreter by the harness streams of `harness/c18.py`, not derived from CPython's source:
  `urlparse(s)` = `Uri.urlparse` (ValueError as in the model) returning an object with the stored attributes
  `scheme`, `netloc`, `path`, `query` and the computed attributes `.username` / `.password` (`Uri.userinfo`),
  `.hostname` (`Uri.hostname`), `.port` (`Uri.portOf`; raises ValueError); `quote(s, safe=…)` = `Uri.quote` (default
  `safe='/'`; UnicodeEncodeError on a lone surrogate); `unquote` = `Uri.unquote`; `parse_qsl(q)` = `Uri.parseQsl` (a
  list of 2-tuples); `urlencode(d)` = `Uri.urlencode` for a dict with `str` values (other values: outside the model).
* `'%d' % i` / `'%s' % i` = `Uri.fmtD`.
* `os.name` is the parameter `osName`; the theorems about `_parseURI` assume `osName ≠ 'nt'` and prove the Windows
  branch dead.
* A connection object is an object with the stored attributes `dbName`, `user`, `password`, `host`, `port`, `db`
  (`connObj`; `None` = `none`); a sqlite connection has `filename`; the opener has `cachedURIs` and `instanceNames`.
* Method calls on objects (`callMethod`: `self.dbConnectionForScheme(scheme)`, `connCls.connectionFromURI(uri)`,
  `cls._parseURI(uri)`, `cls._connectionFromParams(*t)`) and the constructor call `cls(filename=…, **args)` (`callVal`)
  are arbitrary functions returning a value or raising; they do not change the opener's `cachedURIs` / `instanceNames`.
-/
namespace SqlObjVerif.UriX
open SqlObjVerif.Uri
open SqlObjVerif.PyUri hiding Str

def optStr : Option (List Nat) → Val
  | none => .none
  | some s => .str s

def optInt : Option Int → Val
  | none => .none
  | some i => .int i

def optNat : Option Nat → Val
  | none => .none
  | some n => .int (n : Int)

@[simp] theorem optStr_none : optStr none = .none := rfl
@[simp] theorem optStr_some (s : List Nat) : optStr (some s) = .str s := rfl
@[simp] theorem optInt_none : optInt none = .none := rfl
@[simp] theorem optInt_some (i : Int) : optInt (some i) = .int i := rfl
@[simp] theorem optNat_none : optNat none = .none := rfl
@[simp] theorem optNat_some (n : Nat) : optNat (some n) = .int (n : Int) := rfl

/-- a dict of extra parameters -/
def strDict (ps : List (List Nat × List Nat)) : List (List Nat × Val) := ps.map fun kv => (kv.1, .str kv.2)

/-- the `str`-valued dicts -/
def strDict? : List (List Nat × Val) → Option (List (List Nat × List Nat))
  | [] => some []
  | (k, .str v) :: rest => (strDict? rest).map ((k, v) :: ·)
  | _ :: _ => none

/-- what `urlparse` returns -/
def parsedObj (sp : Split) : Val :=
  .obj "ParseResult" [("netloc", .str sp.netloc), ("scheme", .str sp.scheme), ("path", .str sp.path),
    ("query", .str sp.query)]

def quoteR (safe s : List Nat) : R Val :=
  match quote safe s with
  | some q => .ok (.str q)
  | none => .exc .unicodeEncodeError

/-- the functions imported from `urllib.parse`, by the hand model -/
def uriFn (f : String) (args : List Val) (kw : List (String × Val)) : R Val :=
  if f = "urlparse" then
    match args, kw with
    | [.str u], [] =>
      match urlparse u with
      | .ok sp => .ok (parsedObj sp)
      | .valueError => .exc .valueError
      | .unmodelled => .exc .unmodelled
    | _, _ => .stuck
  else if f = "unquote" then
    match args, kw with
    | [.str s], [] => .ok (.str (unquote s))
    | _, _ => .stuck
  else if f = "quote" then
    match args, kw with
    | [.str s], [] => quoteR [47] s
    | [.str s], [("safe", .str safe)] => quoteR safe s
    | _, _ => .stuck
  else if f = "parse_qsl" then
    match args, kw with
    | [.str q], [] => .ok (.list ((parseQsl q).map fun kv => .tuple [.str kv.1, .str kv.2]))
    | _, _ => .stuck
  else if f = "urlencode" then
    match args, kw with
    | [.dict d], [] =>
      match strDict? d with
      | some ps =>
        match urlencode ps with
        | some q => .ok (.str q)
        | none => .exc .unicodeEncodeError
      | none => .stuck
    | _, _ => .stuck
  else .stuck

/-- the properties of urlparse's result -/
def uriGetAttr (v : Val) (a : String) : R Val :=
  match v with
  | .obj c fs =>
    if c = "ParseResult" then
      match aget "netloc" fs with
      | some (.str nl) =>
        if a = "username" then .ok (optStr (userinfo nl).1)
        else if a = "password" then .ok (optStr (userinfo nl).2)
        else if a = "hostname" then .ok (optStr (hostname nl))
        else if a = "port" then
          match portOf nl with
          | none => .exc .valueError
          | some p => .ok (optNat p)
        else .exc .attributeError
      | _ => .stuck
    else .exc .attributeError
  | _ => .stuck

def uriGlob (osName : List Nat) (n : String) : Option Val := if n = "os.name" then some (.str osName) else none

/-- the interface: the hand model's standard library, `os.name = osName`, arbitrary method / constructor calls -/
@[reducible] def uriIface (osName : List Nat) (cm : Val → String → List Val → R Val)
    (cv : Val → List Val → List (List Nat × Val) → R Val) : Iface :=
  { glob := uriGlob osName, fn := uriFn, getAttr := uriGetAttr, callMethod := cm, callVal := cv, fmtD := fmtD }

def ofR : R Val → Out
  | .ok v => .ret v
  | .exc e => .exc e
  | .stuck => .stuck

/-! ### the hand model's outcomes as outcomes of the interpreter -/

def ofBuildOut : BuildOut → Out
  | .ok u => .ret (.str u)
  | .assertionError => .exc .assertionError
  | .unicodeEncodeError => .exc .unicodeEncodeError

/-- the 6-tuple `_parseURI` returns -/
def parsedTuple (p : Parsed) : Val :=
  .tuple [optStr p.user, optStr p.password, optStr p.host, optNat p.port, .str p.path, .dict (strDict p.args)]

def ofParseOut : ParseOut → Out
  | .ok p => .ret (parsedTuple p)
  | .valueError => .exc .valueError
  | .unmodelled => .exc .unmodelled

/-- a connection as `DBConnection.uri` sees it -/
def connObj (c : Conn) : Val :=
  .obj "DBConnection" [("dbName", .str c.scheme), ("user", optStr c.user), ("password", optStr c.password),
    ("host", optStr c.host), ("port", optInt c.port), ("db", .str c.db)]

def sqliteObj (filename : List Nat) : Val := .obj "SQLiteConnection" [("filename", .str filename)]

/-- `'filename'` -/
def filenameKw : List Nat := [102, 105, 108, 101, 110, 97, 109, 101]

/-! ### running the translated functions -/

/-- `DBConnection._parseURI(uri)` -/
def parseURIX (I : Iface) (uri : List Nat) : Out := run I PyUri.Extracted.parseURI [.str uri]

/-- `DBConnection.uri(self)` -/
def genericUriX (I : Iface) (c : Conn) : Out := run I PyUri.Extracted.uri [connObj c]

/-- `SQLiteConnection.uri(self)` -/
def sqliteUriX (I : Iface) (filename : List Nat) : Out := run I PyUri.Extracted.sqliteUri [sqliteObj filename]

/-- `SQLiteConnection._connectionFromParams(cls, *parsed)` -/
def sqliteOpenX (I : Iface) (cls : Val) (p : Parsed) : Out :=
  run I PyUri.Extracted.sqliteConnectionFromParams
    [cls, optStr p.user, optStr p.password, optStr p.host, optNat p.port, .str p.path, .dict (strDict p.args)]

/-- what the hand model says `_connectionFromParams` does: AssertionError, or the constructor call
    `cls(filename=<sqliteOpen p>, **args)` -/
def sqliteOpenSpec (I : Iface) (cls : Val) (p : Parsed) : Out :=
  match sqliteOpen p with
  | none => .exc .assertionError
  | some f => ofR (I.callVal cls [] ((filenameKw, .str f) :: strDict p.args))

/-- `DBConnection.connectionFromURI(cls, uri)` -/
def connectionFromURIX (I : Iface) (cls : Val) (uri : List Nat) : Out :=
  run I PyUri.Extracted.connectionFromURI [cls, .str uri]

/-! ### `connectionForURI` -/

/-- the two dicts of a `ConnectionURIOpener` -/
structure Opener where
  cached : List (List Nat × Val)
  names : List (List Nat × Val)

def openerObj (o : Opener) : Val :=
  .obj "ConnectionURIOpener" [("cachedURIs", .dict o.cached), ("instanceNames", .dict o.names)]

/-- `ConnectionURIOpener.connectionForURI(uri, oldUri, **ps)` -/
def connectionForURIX (I : Iface) (o : Opener) (uri : List Nat) (oldUri : Val) (ps : List (List Nat × List Nat)) :
    Out × Option Val :=
  runSelf I PyUri.Extracted.connectionForURI [openerObj o, .str uri, oldUri, .dict (strDict ps)]

/-- go on with a fresh connection: remember it under the final URI -/
def remember (o : Opener) (u : List Nat) (r : R Val) : Out × Option Val :=
  match r with
  | .ok conn => (.ret conn, some (openerObj { o with cached := dset o.cached u conn }))
  | .exc e => (.exc e, some (openerObj o))
  | .stuck => (.stuck, none)

/-- HAND MODEL of `connectionForURI(uri, **ps)` (new-style URIs): the URI is extended by `withParams`; a cached URI
    gives the cached connection; a URI with a `:` is dispatched on the text before the first `:` to
    `dbConnectionForScheme(scheme).connectionFromURI(uri)`; a bare name is looked up in `instanceNames`; the result
    is cached under the extended URI. -/
def connectionForURI (I : Iface) (o : Opener) (uri : List Nat) (ps : List (List Nat × List Nat)) : Out × Option Val :=
  match withParams uri ps with
  | none => (.exc .unicodeEncodeError, some (openerObj o))
  | some u =>
    match aget u o.cached with
    | some conn => (.ret conn, some (openerObj o))
    | none =>
      match breakOn 58 u with
      | some (scheme, _) =>
        remember o u ((I.callMethod (openerObj o) "dbConnectionForScheme" [.str scheme]).bind fun cls =>
          methodOf I cls "connectionFromURI" [.str u])
      | none =>
        match aget u o.names with
        | some conn => remember o u (.ok conn)
        | none => (.exc .assertionError, some (openerObj o))

/-! ### the whole chain for the sqlite class: method calls resolved by RUNNING the translated methods -/

def toR : Out → R Val
  | .ret v => .ok v
  | .exc e => .exc e
  | .stuck => .stuck

def noMethods : Val → String → List Val → R Val := fun _ _ _ => .stuck

/-- the class methods `_parseURI` (inherited from `DBConnection`) and `_connectionFromParams` of `SQLiteConnection`:
    run their translations (the receiver is the class) -/
def sqliteCm1 (osName : List Nat) (cv : Val → List Val → List (List Nat × Val) → R Val)
    (recv : Val) (m : String) (args : List Val) : R Val :=
  if m = "_parseURI" then
    match args with
    | [.str u] => toR (parseURIX (uriIface osName noMethods cv) u)
    | _ => .stuck
  else if m = "_connectionFromParams" then
    toR (run (uriIface osName noMethods cv) PyUri.Extracted.sqliteConnectionFromParams (recv :: args))
  else .stuck

/-- … plus `connectionFromURI` (inherited, translated) and the opener's `dbConnectionForScheme`, which looks the
    scheme up in a registry `reg` (`schemeBuilders[scheme]()`) -/
def sqliteCm2 (osName : List Nat) (cv : Val → List Val → List (List Nat × Val) → R Val)
    (reg : List Nat → Option Val) (recv : Val) (m : String) (args : List Val) : R Val :=
  if m = "connectionFromURI" then
    match args with
    | [.str u] => toR (connectionFromURIX (uriIface osName (sqliteCm1 osName cv) cv) recv u)
    | _ => .stuck
  else if m = "dbConnectionForScheme" then
    match args with
    | [.str s] =>
      match reg s with
      | some cls => .ok cls
      | none => .exc .assertionError
    | _ => .stuck
  else .stuck

end SqlObjVerif.UriX
