import SqlObjVerif.Model.Inherit
import SqlObjVerif.Model.PyInherit
import SqlObjVerif.Extracted.PyInherit
/-!
# C15 — the `InheritableSQLObject` methods as TRANSLATED from the source

`destroySelfX`, `deleteManyX`, `deleteByX`, `createX`, `getX` RUN the PyInherit programs `vlib/extractors/pyinherit.py`
translated from /repo's `sqlobject/inheritance/__init__.py` on this very run.  A world `XW` is the image of the hand
model's state: `cur` is `MState.cur` of `Model/Inherit.lean` (connection ↦ tables of every class), plus what that model
leaves out: the `_parent` attribute of every instance (`par`).  `Lemmas/InheritX*.lean` prove that each translated
method, run at ANY level of ANY class tree from ANY tables, ends in the tables the hand model's function for that
operation yields when the calls to the neighbouring level are the hand model's functions at that level
(`…_level`), and that the translated methods calling THEMSELVES along the class chain are the hand model's
functions (`…_chain`, induction over the depth of the class).

Values: `.cls c` the class number `c` of the tree, `.inst k c i` its instance with id `i` bound to connection `k`,
`.conn k` connection `k`, `cname c = .ref 2 c` the `childName` / `__name__` string of class `c`, `.name a j` the
keyword of column `j` declared by class `a`, `colObj a j` its column object, `.ref 0 0` = `sqlbuilder.NoDefault`,
`.ref 5 0` the where-clause / `.ref 6 0` the `**kw` of the bulk delete at hand (`X.filt`, `X.kvs`).

## The assumed interface (the parameters of the interpreter)
attributes:
* `inst._parent` : the world's `par`; `inst._parent.id` : that instance's id; `inst._connection` : `.conn k`;
  `inst.sqlmeta.parentClass`, `cls.sqlmeta.parentClass` : `T.parent` (None for a root);
  `inst.sqlmeta.childName` : `cname c`; `inst.childName` : the tag of the instance's row (`Row.child`);
* `cls.sqlmeta.columns` : a dict with one entry per column: `childName` iff the class is inheritable (`T.inh`), then
  the `T.ncols c` own columns — so `'childName' in cls.sqlmeta.columns` is `T.inh c` and the dict is falsy exactly
  when `T.colless c`;  `cls.sqlmeta.childClasses` : the dict `cname d ↦ .cls d` of the classes `d < T.n` with
  `T.parent d = some c`;  `inst.sqlmeta.columnList` : the column objects; `col._default` is `NoDefault` iff the
  column has no default (`X.nodefault`), `col.name` its keyword, `col.foreignName` None;
* `hasattr(inst, '_parent')` : True (class attribute of `SQLObject`); `hasattr(cls, name)` for a column keyword :
  `attrOK` (declared by the class or an ancestor);
* `isinstance(conn, dbconnection.Transaction)` : `X.isTx k`; `conn.autoCommit` : `X.autoCommit k`.
calls (`super(InheritableSQLObject, ·)` is `SQLObject`):
* `SQLObject.destroySelf(inst)` : raises `SQLObjectIntegrityError` and changes nothing when a `cascade=False`
  reference to that level exists (`X.blocked c`), else DELETEs the row of the instance's own class on the
  instance's connection;
* `SQLObject._create(inst, id, **kw)` : raises `X.failAt c` (any class of exception) and changes nothing when that is
  set, else INSERTs a row into the table of the instance's own class on its connection: id `id`, or the id the
  database allocates (`X.nid`) when `id` is None; `childName` = `kw['childName']`, column `j` = `kw[name c j]`;
* `cls(kw=d, connection=conn)` : the constructor = `cls._create(new instance bound to conn, None, kw=d)`, returns the
  new instance; without `connection=` the instance is bound to the class's default connection `X.dflt`;
* `SQLObject.get(cls, id, connection, selectResults)` : with truthy `selectResults` no SELECT is sent; otherwise
  `SQLObjectNotFound` when the class's table on that connection (`X.dflt` when `connection` is None) has no row `id`;
  returns the instance bound to that connection, built by `_init` (cold instance cache: coherence of the
  cache with the rows is C04/C05), i.e. with `_parent` as the world holds it (None before `get` sets it);
* `cls.select(where, connection=conn)` / `cls.selectBy(connection=conn, **kw)` : return the list of the instances
  `.inst k m j` for the ids `j` of `X.ids` (ANY list, any order, repetitions allowed; the theorems assume: its members
  are exactly the ids the hand model's `selectRow` / `selectByRow` yield `some (.ok m)` for, in the state at hand);
* `inst.destroySelf()`, `cls.get(id, connection=…, selectResults=…)`, `cls.get(id, connection=…, childUpdate=True)` :
  the translated programs themselves at the neighbouring level (`Calls`).
* `while`: at most `T.n + 1` iterations (the class chain is shorter).
-/
namespace SqlObjVerif.Inherit
open SqlObjVerif.PyInh (Iface CallRes R Exc vdGet vdHas vdSet)

/-- values of the embedding (`Inherit.Val` is the model's column value) -/
abbrev PVal := PyInh.Val
open SqlObjVerif.PyInh.Extracted

structure XW where
  /-- connection ↦ tables (`MState.cur`) -/
  cur : Nat → DB
  /-- the `_parent` attribute of instance `(connection, class, id)` -/
  par : Nat → Nat → Nat → PVal

def XW.setCur (w : XW) (k : Nat) (db : DB) : XW := { w with cur := fun k' => if k' = k then db else w.cur k' }

def XW.setPar (w : XW) (k c i : Nat) (v : PVal) : XW :=
  { w with par := fun k' c' i' => if k' = k ∧ c' = c ∧ i' = i then v else w.par k' c' i' }

/-- what the translated code is run against, besides the world -/
structure Ctx where
  T : Tree
  /-- the classes' default connection -/
  dflt : Nat
  /-- a `cascade=False` reference to this level of the id at hand exists -/
  blocked : Nat → Bool
  isTx : Nat → Bool
  autoCommit : Nat → Bool
  /-- the id the root INSERT is given by the database -/
  nid : Nat
  /-- the column values of the create at hand -/
  vals : Nat → Nat → Val
  /-- the own INSERT of this class raises -/
  failAt : Nat → Option Exc
  nodefault : Nat → Nat → Bool
  /-- the where-clause / keywords of the bulk delete at hand -/
  filt : Filter
  kvs : List (Nat × Nat × Val)
  /-- the ids `select` / `selectBy` return, in the order they return them -/
  ids : List Nat

def cname (c : Nat) : PVal := .ref 2 c
def noDefault : PVal := .ref 0 0
def colObj (a j : Nat) : PVal := .pair (.ref 3 a) (.nat j)
def tagCol (a : Nat) : PVal := .ref 4 a

def classOpt : Option Nat → PVal
  | some p => .cls p
  | none => .none

/-- `cls.sqlmeta.columns` -/
def colsDict (T : Tree) (c : Nat) : PVal :=
  PyInh.Val.ofList ((if T.inh c then [PyInh.Val.pair (.str "childName") (tagCol c)] else []) ++
    (List.range (T.ncols c)).map fun j => .pair (.name c j) (colObj c j))

/-- `cls.sqlmeta.columnList` -/
def colList (T : Tree) (c : Nat) : PVal :=
  PyInh.Val.ofList ((List.range (T.ncols c)).map (colObj c) ++ (if T.inh c then [tagCol c] else []))

/-- `cls.sqlmeta.childClasses` -/
def childDict (T : Tree) (c : Nat) : PVal :=
  PyInh.Val.ofList (((List.range T.n).filter fun d => T.parent d == some c).map fun d => .pair (cname d) (.cls d))

def tagVal : Option Nat → PVal
  | some d => cname d
  | none => .none

def xAttrOf (X : Ctx) (w : XW) (v : PVal) (path : List String) : R PVal :=
  match v with
  | .inst k c i =>
    if path = ["_parent"] then .ok (w.par k c i)
    else if path = ["_parent", "id"] then
      (match w.par k c i with
       | .inst _ _ j => .ok (.nat j)
       | _ => .stuck)
    else if path = ["_connection"] then .ok (.conn k)
    else if path = ["sqlmeta", "parentClass"] then .ok (classOpt (X.T.parent c))
    else if path = ["sqlmeta", "childName"] then .ok (cname c)
    else if path = ["sqlmeta", "columnList"] then .ok (colList X.T c)
    else if path = ["childName"] then
      (match w.cur k c i with
       | some r => .ok (tagVal r.child)
       | none => .stuck)
    else .stuck
  | .cls c =>
    if path = ["sqlmeta", "parentClass"] then .ok (classOpt (X.T.parent c))
    else if path = ["sqlmeta", "columns"] then .ok (colsDict X.T c)
    else if path = ["sqlmeta", "childClasses"] then .ok (childDict X.T c)
    else .stuck
  | .conn k => if path = ["autoCommit"] then .ok (.bool (X.autoCommit k)) else .stuck
  | .pair (.ref 3 a) (.nat j) =>
    if path = ["_default"] then .ok (if X.nodefault a j then noDefault else .none)
    else if path = ["name"] then .ok (.name a j)
    else if path = ["foreignName"] then .ok .none
    else .stuck
  | .ref 4 _ =>
    if path = ["_default"] then .ok .none
    else if path = ["name"] then .ok (.str "childName")
    else if path = ["foreignName"] then .ok .none
    else .stuck
  | _ => .stuck

def xSetAttrOf (w : XW) (v : PVal) (path : List String) (x : PVal) : Option XW :=
  match v with
  | .inst k c i => if path = ["_parent"] then some (w.setPar k c i x) else none
  | _ => none

def xHasattr (X : Ctx) (v n : PVal) : Option Bool :=
  match v, n with
  | .inst _ _ _, .str s => if s = "_parent" then some true else none
  | .cls p, .name a j => some (attrOK X.T p a j)
  | .cls p, .str s => if s = "childName" then some (X.T.inh p) else none
  | _, _ => none

def xIsinstance (X : Ctx) (v : PVal) (cls : String) : Option Bool :=
  match v with
  | .conn k => if cls = "dbconnection.Transaction" then some (X.isTx k) else none
  | _ => none

/-- a `connection` argument: None = the class's default connection -/
def connOf (X : Ctx) : PVal → Option Nat
  | .none => some X.dflt
  | .conn k => some k
  | _ => none

def kwGet (n : String) : List (String × PVal) → Option PVal
  | [] => none
  | (m, v) :: l => if m = n then some v else kwGet n l

/-- the `childName` a keyword dict carries -/
def tagOf (d : PVal) : Option Nat :=
  match vdGet (.str "childName") d with
  | some (.ref 2 t) => some t
  | _ => none

/-- the values of class `c`'s own columns a keyword dict carries -/
def valsOf (c : Nat) (d : PVal) : Nat → Val := fun j =>
  match vdGet (.name c j) d with
  | some (.int v) => v
  | _ => 0

/-- `super(InheritableSQLObject, self)`: the methods of `SQLObject` -/
def xSuper (X : Ctx) (self : PVal) (w : XW) (m : String) (args : List PVal) (kw : List (String × PVal)) (star : PVal) :
    CallRes XW :=
  match self with
  | .inst k c i =>
    if m = "destroySelf" ∧ args = [] ∧ kw = [] ∧ star = .none then
      (if X.blocked c then .exc w ⟨.integrity, 0⟩ else .ret (w.setCur k ((w.cur k).del c i)) .none)
    else if m = "_create" ∧ kw = [] then
      (match args with
       | [idv] =>
         (match (match idv with
                 | .none => some X.nid
                 | .nat j => some j
                 | _ => none) with
          | some id =>
            (match X.failAt c with
             | some e => .exc w e
             | none => .ret (w.setCur k ((w.cur k).set c id ⟨tagOf star, valsOf c star⟩)) .none)
          | none => .stuck)
       | _ => .stuck)
    else .stuck
  | .cls c =>
    if m = "get" ∧ kw = [] ∧ star = .none then
      (match args with
       | [.nat i, cv, sr] =>
         (match connOf X cv with
          | some k =>
            if PyInh.pyBool sr then .ret w (.inst k c i)
            else if (w.cur k).has c i then .ret w (.inst k c i)
            else .exc w ⟨.notFound, 0⟩
          | none => .stuck)
       | _ => .stuck)
    else .stuck
  | _ => .stuck

/-- the calls to the neighbouring levels -/
structure Calls where
  /-- `<inst k c i>.destroySelf()` -/
  destroy : XW → Nat → Nat → Nat → CallRes XW
  /-- `<cls c>(kw=d)` bound to connection `k` -/
  construct : XW → Nat → Nat → PVal → CallRes XW
  /-- `<cls c>.get(i, connection=<k>, selectResults=sr)` -/
  getChild : XW → Nat → Nat → Nat → PVal → CallRes XW
  /-- `<cls c>.get(i, connection=<k>, childUpdate=True)` -/
  getParent : XW → Nat → Nat → Nat → CallRes XW

def noCalls : Calls :=
  { destroy := fun _ _ _ _ => .stuck, construct := fun _ _ _ _ => .stuck, getChild := fun _ _ _ _ _ => .stuck,
    getParent := fun _ _ _ _ => .stuck }

/-- the instances `select` returned: for each id the most-derived instance the hand model's select yields -/
def selInsts (k : Nat) (sel : Nat → Option Res) (ids : List Nat) : PVal :=
  PyInh.Val.ofList (ids.map fun j => match sel j with
    | some (.ok m) => PyInh.Val.inst k m j
    | _ => .none)

/-- the where-clause a `where` argument stands for -/
def filterOf (X : Ctx) : PVal → Filter
  | .ref 5 0 => X.filt
  | _ => .tt

def xCall (X : Ctx) (C : Calls) (w : XW) (recv : PVal) (m : String) (args : List PVal) (kw : List (String × PVal))
    (star : PVal) : CallRes XW :=
  match recv with
  | .inst k c i => if m = "destroySelf" ∧ args = [] ∧ kw = [] ∧ star = .none then C.destroy w k c i else .stuck
  | .cls c =>
    if m = "select" ∧ star = .none then
      (match args, kw with
       | [wh], [(n, cv)] =>
         if n = "connection" ∧ (wh = .none ∨ wh = .ref 5 0) then
           (match connOf X cv with
            | some k => .ret w (selInsts k (selectRow X.T (w.cur k) c (filterOf X wh)) X.ids)
            | none => .stuck)
         else .stuck
       | _, _ => .stuck)
    else if m = "selectBy" ∧ args = [] ∧ star = .ref 6 0 then
      (match kw with
       | [(n, cv)] =>
         if n = "connection" then
           (match connOf X cv with
            | some k => .ret w (selInsts k (selectByRow X.T (w.cur k) c X.kvs) X.ids)
            | none => .stuck)
         else .stuck
       | _ => .stuck)
    else if m = "get" ∧ star = .none then
      (match args with
       | [.nat i] =>
         (match kwGet "childUpdate" kw, kwGet "selectResults" kw, kw.length with
          | some (.bool true), none, 2 =>
            (match connOf X ((kwGet "connection" kw).getD .none) with
             | some k => C.getParent w k c i
             | none => .stuck)
          | none, some sr, 2 =>
            (match connOf X ((kwGet "connection" kw).getD .none) with
             | some k => C.getChild w k c i sr
             | none => .stuck)
          | some (.bool true), none, 1 => C.getParent w X.dflt c i
          | none, some sr, 1 => C.getChild w X.dflt c i sr
          | _, _, _ => .stuck)
       | _ => .stuck)
    else .stuck
  | _ => .stuck

/-- calling a class: the constructor -/
def xCallFn (X : Ctx) (C : Calls) (w : XW) (f : PVal) (args : List PVal) (kw : List (String × PVal)) : CallRes XW :=
  match f, args with
  | .cls p, [] =>
    (match kwGet "kw" kw, kw.length with
     | some d, 2 =>
       (match kwGet "connection" kw with
        | some (.conn k) => C.construct w k p d
        | _ => .stuck)
     | some d, 1 => C.construct w X.dflt p d
     | _, _ => .stuck)
  | _, _ => .stuck

def xIface (X : Ctx) (C : Calls) (self : PVal) : Iface XW :=
  { self := self
    attrOf := xAttrOf X
    setAttrOf := xSetAttrOf
    hasattr := fun _ => xHasattr X
    global := fun n => if n = "sqlbuilder.NoDefault" then some noDefault else none
    isinstance := fun _ => xIsinstance X
    call := xCall X C
    callFn := xCallFn X C
    super := xSuper X self
    fuel := fun _ => X.T.n + 1 }

/-! ### the translated methods, run -/

/-- `<inst k c i>.destroySelf()` -/
def destroySelfX (X : Ctx) (C : Calls) (w : XW) (k c i : Nat) : CallRes XW :=
  PyInh.run (xIface X C (.inst k c i)) destroySelfProg [] destroySelf_nlocals w

/-- `<cls c>.deleteMany(where, connection)` -/
def deleteManyX (X : Ctx) (C : Calls) (w : XW) (c : Nat) (wh cv : PVal) : CallRes XW :=
  PyInh.run (xIface X C (.cls c)) deleteManyProg [wh, cv] deleteMany_nlocals w

/-- `<cls c>.deleteBy(connection, **kw)` -/
def deleteByX (X : Ctx) (C : Calls) (w : XW) (c : Nat) (cv : PVal) : CallRes XW :=
  PyInh.run (xIface X C (.cls c)) deleteByProg [cv, .ref 6 0] deleteBy_nlocals w

/-- `<new instance of class c bound to k>._create(id, **kw)` -/
def createX (X : Ctx) (C : Calls) (w : XW) (k c : Nat) (idv kw : PVal) : CallRes XW :=
  PyInh.run (xIface X C (.inst k c X.nid)) createProg [idv, kw] create_nlocals w

/-- `<cls c>.get(id, connection, selectResults, childResults, childUpdate)` -/
def getX (X : Ctx) (C : Calls) (w : XW) (c : Nat) (i : Nat) (cv sr cr cu : PVal) : CallRes XW :=
  PyInh.run (xIface X C (.cls c)) getProg [.nat i, cv, sr, cr, cu] get_nlocals w

/-! ### the hand model's functions at one level, as call results -/

/-- `_parent` of a fetched / created instance -/
def parVal (T : Tree) (k c i : Nat) : PVal :=
  match T.parent c with
  | some p => .inst k p i
  | none => .none

/-- `inst.destroySelf()` of the hand model (`destroyGuarded`; `destroyInst` when nothing is restricted) -/
def destroyModel (X : Ctx) (w : XW) (k c i : Nat) : CallRes XW :=
  let r := destroyGuarded X.T (w.cur k) c i X.blocked
  if r.2 = .ok then .ret (w.setCur k r.1) .none else .exc (w.setCur k r.1) ⟨.integrity, 0⟩

/-- the translated `destroySelf` calling itself along `_parent` (`n` bounds the depth) -/
def destroySelfN (X : Ctx) : Nat → XW → Nat → Nat → Nat → CallRes XW
  | 0 => fun _ _ _ _ => .stuck
  | n + 1 => fun w k c i => destroySelfX X { noCalls with destroy := destroySelfN X n } w k c i

/-! ### `_create` -/

def pairsOf (es : List (PVal × PVal)) : List PVal := es.map fun e => .pair e.1 e.2

/-- the keywords of class `a`'s own columns, in declaration order -/
def ownKw (X : Ctx) (a : Nat) : List (PVal × PVal) :=
  (List.range (X.T.ncols a)).map fun j => (PyInh.Val.name a j, PyInh.Val.int (X.vals a j))

def tagEntry : Option Nat → List (PVal × PVal)
  | none => []
  | some t => [(.str "childName", cname t)]

/-- the `**kw` of `_create` of the first class of the chain `l` (leaf first): the keywords of every level of the
    chain, then `childName` when the call comes from a subclass -/
def kwOf (X : Ctx) (l : List Nat) (tag : Option Nat) : PVal :=
  PyInh.Val.ofList (pairsOf (l.flatMap (ownKw X) ++ tagEntry tag))

/-- the own INSERT of `_create` at class `a` and its clean-up, once the parent instance (class `par`) exists -/
def createOwn (X : Ctx) (k a : Nat) (par : Option Nat) (tag : Option Nat) (w : XW) : XW × Option Exc :=
  match X.failAt a with
  | none => (w.setCur k ((w.cur k).set a X.nid ⟨tag, X.vals a⟩), none)
  | some e =>
    match par with
    | some p =>
      if !X.isTx k && X.autoCommit k then
        ((w.setCur k (destroyInst X.T (w.cur k) p X.nid)).setPar k a X.nid .none, some e)
      else (w, some e)
    | none => (w, some e)

/-- `_create` of class `a` once the constructor of the parent class `p` has ended with `r` -/
def createAfter (X : Ctx) (k a p : Nat) (tag : Option Nat) (r : XW × Option Exc) : XW × Option Exc :=
  match r.2 with
  | some e => (r.1, some e)
  | none => createOwn X k a (some p) tag (r.1.setPar k a X.nid (.inst k p X.nid))

/-- `_create` of the first class of the chain (leaf first) in the hand model's terms: the parent chain first
    (`insertUp`), a failing INSERT (`X.failAt`) stops the creation; outside a transaction, with autocommit, the
    level below destroys the parent chain it had created (`destroyInst`) -/
def createSpec (X : Ctx) (k : Nat) : List Nat → Option Nat → XW → XW × Option Exc
  | [], _, w => (w, none)
  | a :: rest, tag, w =>
    match rest.head? with
    | none => createOwn X k a none tag w
    | some p => createAfter X k a p tag (createSpec X k rest (some a) w)

/-- the result of `cls(kw=…)` in the hand model's terms -/
def constructRes (X : Ctx) (k p : Nat) (r : XW × Option Exc) : CallRes XW :=
  match r.2 with
  | none => .ret r.1 (.inst k p X.nid)
  | some e => .exc r.1 e

/-- how `_create` ends (it returns None) -/
def createCall (r : XW × Option Exc) : CallRes XW :=
  match r.2 with
  | none => .ret r.1 .none
  | some e => .exc r.1 e

/-- the constructor `cls(kw=d)` from `_create`: `_create(new instance, None, kw=d)`, returns the instance -/
def constructOf (X : Ctx) (f : XW → Nat → Nat → PVal → PVal → CallRes XW) : XW → Nat → Nat → PVal → CallRes XW :=
  fun w k p d =>
    match f w k p .none (.cons (.pair (.str "kw") d) .nil) with
    | .ret w' _ => .ret w' (.inst k p X.nid)
    | r => r

/-- the translated `destroySelf` of an instance of class `c`, calling itself along `_parent` -/
def destroySelfC (X : Ctx) (w : XW) (k c i : Nat) : CallRes XW := destroySelfN X (c + 1) w k c i

/-- the translated `_create` calling itself (through the constructor of the parent class) and the translated
    `destroySelf` for the clean-up -/
def createN (X : Ctx) : Nat → XW → Nat → Nat → PVal → PVal → CallRes XW
  | 0 => fun _ _ _ _ _ => .stuck
  | n + 1 => fun w k c idv kw =>
    createX X { noCalls with construct := constructOf X (createN X n), destroy := destroySelfC X } w k c idv kw

/-! ### `get` -/

/-- the `_parent` chain fetch of `get` for an instance whose class chain is the list (leaf first): each ancestor is
    fetched with `SQLObject.get` (NotFound when its row is missing) and stored in `_parent` of the level below -/
def parentsSpec (k i : Nat) : List Nat → XW → XW × Bool
  | a :: p :: rest, w =>
    if (w.cur k).has p i then parentsSpec k i (p :: rest) (w.setPar k a i (.inst k p i)) else (w, false)
  | _, w => (w, true)

/-- how `get` ends once the most-derived class `m` is known -/
def parentsFetch (X : Ctx) (w : XW) (k m i : Nat) : CallRes XW :=
  match parentsSpec k i (X.T.anc m) w with
  | (w', true) => .ret w' (.inst k m i)
  | (w', false) => .exc w' ⟨.notFound, 0⟩

/-- the hand model's `descend` as a call result -/
def getRes (X : Ctx) (w : XW) (k i : Nat) : Res → CallRes XW
  | .ok m => parentsFetch X w k m i
  | .notFound => .exc w ⟨.notFound, 0⟩
  | .keyError => .exc w ⟨.keyError, 0⟩

/-- the `selectResults` a child class is fetched with -/
def shuntArg (b : Bool) : PVal := if b then .cons .none .nil else .none

/-- `<cls p>.get(i, connection=<k>, childUpdate=True)`: the translated `get` itself (it only calls `SQLObject.get`) -/
def getParentX (X : Ctx) (w : XW) (k p i : Nat) : CallRes XW :=
  getX X noCalls w p i (.conn k) .none .none (.bool true)

/-- the translated `get` calling itself for the child class (`childName` dispatch) and for the parents -/
def getN (X : Ctx) : Nat → XW → Nat → Nat → PVal → PVal → CallRes XW
  | 0 => fun _ _ _ _ _ => .stuck
  | n + 1 => fun w e i cv sr =>
    getX X { noCalls with getChild := fun w k d i sr => getN X n w d i (.conn k) sr, getParent := getParentX X }
      w e i cv sr .none (.bool false)

/-- `<cls e>.get(i, connection=cv)` -/
def getC (X : Ctx) (w : XW) (e i : Nat) (cv : PVal) : CallRes XW := getN X (X.T.n + 1) w e i cv .none

end SqlObjVerif.Inherit
