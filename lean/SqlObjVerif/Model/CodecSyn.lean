/-!
# C01 — syntax of the data that `vlib/extractors/codec.py` reads from /repo

* `FPiece`  : a piece of a `%`-format string of `converters.py` (`'%04d-%02d…'`): a literal
  character or a zero-padded decimal field `%0wd` (`w = 0` is plain `%d`).
* `DField`  : which attribute of the value feeds a field (`value.year`, …).
* `SPiece`  : a piece of a `strptime` format of `col.py` (`'%Y-%m-%d %H:%M:%S.%f'`).
* `Kind`    : the column kinds whose SQLite column type is extracted.
-/
namespace SqlObjVerif.Codec

abbrev Str := List Nat

inductive FPiece where
  | lit (c : Nat)
  | pad (w : Nat)
deriving DecidableEq, Repr

inductive DField where
  | year | month | day | hour | minute | second | microsecond
deriving DecidableEq, Repr

inductive SPiece where
  | lit (c : Nat)
  | Y | m | d | H | M | S | f
deriving DecidableEq, Repr

/-- Python date/time classes a validator returns unchanged -/
inductive PassKind where
  | datetime | date | time
deriving DecidableEq, Repr

/-- a converter: the format string and the attributes it is applied to -/
structure Conv where
  fmt : List FPiece
  args : List DField
deriving DecidableEq, Repr

end SqlObjVerif.Codec
