import SqlObjVerif.Model.PyCreate
import SqlObjVerif.Extracted.PyCreate
import SqlObjVerif.Model.FailX
/-!
# C06 — `Cls(**kw)` as TRANSLATED from the source, run under an injection schedule

`createF` RUNS the PyCreate program `initProg` that `vlib/extractors/pycreate.py` translated from
`SQLObject.__init__` of /repo's `main.py` on this very run (`Extracted/PyCreate.lean`); its call
`self._create(id, **kw)` runs the translated `_create` (`createProg`), whose calls `self.set(**kw)` and
`self._SO_finishCreate(id)` run the translated `set` (`PyFail.setF`: `Extracted/PyMain.lean` under the
exception-injecting semantics `Model/PyFail.lean`, on the object under construction) and the translated
`_SO_finishCreate` (`finishCreateProg`), whose call `self._init(id)` is the interface function
`initIface` (`_init` / `_SO_selectInit` are C05's business: one SELECT, then the cached values become the
stored row).  The other interface assumptions are listed in the header of `Model/PyCreate.lean`.

`Lemmas/FailCreateX*.lean` prove that the outcome, the statement log and the post-state (`viewObs`) are
those of the hand-compiled micro-step tree `Fail.createProg` under the same schedule, for every schema,
state, class, keyword list, defaults table and schedule (`C06_translated_create_eq_model`).
-/
namespace SqlObjVerif.PyCreate
open SqlObjVerif.PyMain (PV PDict ofVal)
open SqlObjVerif.PyCreate.Extracted
open SqlObjVerif.Fail (Err Schema Inj Extra In clsOf)
open SqlObjVerif.PyFail (FW sendStmt memStep mkW kwPV)

/-- `self._init(id)` for the `id` under which `cache.created` registered `self` -/
def initIface (args : List Val) (kw : Dict) (xw : XW) : Outcome :=
  match args with
  | [.pv (.nat i)] =>
    if xw.born && (i == xw.w.id) && !xw.w.creating && kw.cols.isEmpty && kw.strs.isEmpty then
      match sendStmt xw.w.sch xw.w.inj (.select xw.w.c) xw.w.s with
      | (s1, some e) => .exc { xw with w := xw.w.setS s1 } e
      | (s1, Option.none) => .ret { xw with w := xw.w.setS (memStep (.reload xw.w.c i) s1), cvAbsent := false } (.pv .none)
    else .stuck
  | _ => .stuck

/-- the end of `self.set(**kw)` (which returns `None`) as the caller sees it -/
def liftSet (xw : XW) : PyFail.Outcome → Outcome
  | .ret w _ => .ret { xw with w := w } (.pv .none)
  | .exc w e => .exc { xw with w := w } e
  | .deadlock w => .deadlock { xw with w := w }
  | .stuck => .stuck

def mkCtx (dflt : Nat → Option In) (dsql : Nat → Bool) : Ctx := ⟨dflt, dsql, closTable⟩

/-- the methods `_SO_finishCreate` calls -/
def finishCall : CallT := fun m args kw xw => if m = "_init" then initIface args kw xw else .stuck

/-- the methods `_create` calls -/
def createCall (ctx : Ctx) (set : FW → PDict → PyFail.Outcome) : CallT := fun m args kw xw =>
  if m = "set" then (if args.isEmpty && kw.strs.isEmpty then liftSet xw (set xw.w kw.cols) else .stuck)
  else if m = "_SO_finishCreate" then run ctx finishCall finishCreateProg finishCreate_params finishCreate_hasKw args kw xw
  else .stuck

/-- the methods `__init__` calls -/
def initCall (ctx : Ctx) (set : FW → PDict → PyFail.Outcome) : CallT := fun m args kw xw =>
  if m = "_create" then run ctx (createCall ctx set) createProg create_params create_hasKw args kw xw else .stuck

/-- nothing registered, no thread-local storage (the outmost constructor), no closure -/
def mkXW (w : FW) : XW := ⟨w, false, false, Option.none, []⟩

/-- the `id=` keyword of the constructor -/
def idKw : Option Nat → List (String × Val)
  | Option.none => []
  | some i => [("id", .pv (.nat i))]

/-- the end of the constructor for the hand model; a constructor that leaves the thread-local storage
    behind is outside -/
def Outcome.toFail : Outcome → PyFail.Outcome
  | .ret xw _ => if xw.postponed.isNone then .ret xw.w .none else .stuck
  | .exc xw e => if xw.postponed.isNone then .exc xw.w e else .stuck
  | .deadlock xw => .deadlock xw.w
  | .stuck => .stuck

/-- `Cls(id=…, **pk)` with `set` a parameter -/
def createFWith (set : FW → PDict → PyFail.Outcome) (ctx : Ctx) (w : FW) (id? : Option Nat) (pk : List (Nat × In)) :
    PyFail.Outcome :=
  (run ctx (initCall ctx set) initProg init_params init_hasKw [] ⟨kwPV pk, idKw id?⟩ (mkXW w)).toFail

/-- `Cls(id=…, **pk)`: the translated `__init__`, `_create`, `set`, `_SO_finishCreate` -/
def createF (dflt : Nat → Option In) (dsql : Nat → Bool) (sch : Schema) (inj : Option Inj) (props : Nat → Extra)
    (s : Fail.St) (c : Nat) (vq : List Bool) (id? : Option Nat) (pk : List (Nat × In)) : PyFail.Outcome :=
  createFWith PyFail.setF (mkCtx dflt dsql) (mkW sch inj props s c 0 vq) id? pk

/-! ### the hand model's arguments -/

def hasKey (pk : List (Nat × In)) (j : Nat) : Bool := pk.any fun a => a.1 == j

/-- the defaulted columns, in column order -/
def defaulted (dflt : Nat → Option In) (pk : List (Nat × In)) (cs : List Nat) : List (Nat × In) :=
  cs.filterMap fun j => if hasKey pk j then Option.none else (dflt j).map fun v => (j, v)

/-- the keywords in the order the values are validated: the given ones, then the defaulted columns -/
def kwFullOf (dflt : Nat → Option In) (n : Nat) (pk : List (Nat × In)) : List (Nat × In) :=
  pk ++ defaulted dflt pk (List.range n)

/-- a column without default and without defaultSQL is not given -/
def missingOf (dflt : Nat → Option In) (dsql : Nat → Bool) (n : Nat) (pk : List (Nat × In)) : Bool :=
  (List.range n).any fun j => !hasKey pk j && (dflt j).isNone && !dsql j

end SqlObjVerif.PyCreate
