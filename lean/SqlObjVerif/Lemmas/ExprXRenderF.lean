import SqlObjVerif.Lemmas.ExprXRender
/-!
# C03 translation — `sqlrepr_toVal` for ANY family of interfaces tied to the translated renderers

`Tied P F`: level `k + 1` of the family answers `sqlrepr(v, db)` for a value that is not a `Select` by `sqlreprD` at level
`k`, resolves `C.m(self, …)` by `clsCallD` at level `k`, and has `ExprX`'s subclass relation and `repr`s.  The family
`ifaceF P` is one; the pure interfaces `(sIfaceF P Q k).E h` of `Model/SelX.lean` (which additionally render `Select`
objects from the heap) are another — so expression graphs render to `renderS` there too.
-/
namespace SqlObjVerif.ExprX
open SqlObjVerif.PyExpr SqlObjVerif.PyExpr.Extracted

set_option linter.unusedSimpArgs false

structure Tied (P : Params) (F : Nat → Iface) : Prop where
  call : ∀ k v db, typeName v ≠ "Select" → (F (k + 1)).call "sqlrepr" [v, db] = sqlreprD (F k) v db
  clsCall : ∀ k, (F (k + 1)).clsCall = clsCallD (F k)
  isSub : ∀ k, (F k).isSub = isSub
  reprInt : ∀ k, (F k).reprInt = P.reprInt
  reprFlt : ∀ k, (F k).reprFlt = P.reprFlt

theorem ne_sel (P : Params) (n : Node) : typeName (toVal P n) ≠ "Select" := by
  cases n <;> simp only [toVal, mkOp, mkPrefix, fieldVal, typeName] <;> decide

/-- MAIN, for any tied family of interfaces: `sqlrepr` of the image of a node is the text-level hand model -/
theorem sqlrepr_toVal_auxF (P : Params) (F : Nat → Iface) (hF : Tied P F) (d : String) (hL : LeafOk P) : ∀ n : Node,
    (∀ k, depth n ≤ k → sqlreprD (F k) (toVal P n) (.str (strOf d)) = .ok (.str (renderS P d n))) ∧
    (∀ k, depth n ≤ k + 1 → AllR (fun v s => (F (k + 1)).call "sqlrepr" [v, .str (strOf d)] = .ok (.str s))
      (listItems (toVal P n)) (itemsS P d n)) := by
  intro n
  induction n with
  | field c =>
    refine ⟨fun k _ => ?_, fun k _ => ?_⟩
    · simp only [toVal, fieldVal, sqlreprD, fm_Field_sqlrepr, renderS]
      rw [Field_sqlrepr_spec _ _ _ _ (P.table c) (P.field c) (by simp [aget]) (by simp [aget])]; rfl
    · simp only [toVal, fieldVal, mkOp, mkPrefix, listItems_list, listItems_obj, listItems_int, listItems_flt, listItems_none, itemsS]; exact .nil
  | int i =>
    refine ⟨fun k _ => ?_, fun k _ => ?_⟩
    · simp only [toVal, sqlreprD, typeName, conv_int, ft_Int, IntConverter_spec, renderS, hF.reprInt]; rfl
    · simp only [toVal, fieldVal, mkOp, mkPrefix, listItems_list, listItems_obj, listItems_int, listItems_flt, listItems_none, itemsS]; exact .nil
  | flt b i =>
    refine ⟨fun k _ => ?_, fun k _ => ?_⟩
    · simp only [toVal, sqlreprD, typeName, conv_float, ft_Float, FloatConverter_spec, renderS, hF.reprFlt]; rfl
    · simp only [toVal, fieldVal, mkOp, mkPrefix, listItems_list, listItems_obj, listItems_int, listItems_flt, listItems_none, itemsS]; exact .nil
  | none =>
    refine ⟨fun k _ => ?_, fun k _ => ?_⟩
    · simp only [toVal, sqlreprD, typeName, conv_none, ft_None, NoneConverter_spec, renderS]; rfl
    · simp only [toVal, fieldVal, mkOp, mkPrefix, listItems_list, listItems_obj, listItems_int, listItems_flt, listItems_none, itemsS]; exact .nil
  | sqlop o l r ihl ihr =>
    refine ⟨fun k hk => ?_, fun k _ => ?_⟩
    · obtain ⟨k, rfl⟩ : ∃ k', k = k' + 1 := ⟨k - 1, by simp only [depth] at hk; omega⟩
      simp only [depth] at hk
      have h1 := ihl.1 k (by omega)
      have h2 := ihr.1 k (by omega)
      simp only [toVal, mkOp, sqlreprD, fm_SQLOp_sqlrepr, renderS]
      rw [SQLOp_sqlrepr_spec (F (k + 1)) _ _ _ (binText o) (renderS P d l) (renderS P d r) (toVal P l) (toVal P r)
        (by simp [aget]) (by simp [aget]) (by simp [aget])
        (by rw [hF.call _ _ _ (ne_sel P _)]; exact h1) (by rw [hF.call _ _ _ (ne_sel P _)]; exact h2)
        (renderS_ne_nil P d hL l) (renderS_ne_nil P d hL r)]
      rw [hF.isSub, notSubquery_toVal]; rfl
    · simp only [toVal, fieldVal, mkOp, mkPrefix, listItems_list, listItems_obj, listItems_int, listItems_flt, listItems_none, itemsS]; exact .nil
  | sqlin x l ihl ihr =>
    refine ⟨fun k hk => ?_, fun k _ => ?_⟩
    · obtain ⟨k, rfl⟩ : ∃ k', k = k' + 1 := ⟨k - 1, by simp only [depth] at hk; omega⟩
      simp only [depth] at hk
      have h1 := ihl.1 k (by omega)
      have h2 := ihr.1 k (by omega)
      simp only [toVal, mkOp, sqlreprD, fm_SQLOp_sqlrepr, renderS]
      rw [SQLOp_sqlrepr_spec (F (k + 1)) _ _ _ inText (renderS P d x) (renderS P d l) (toVal P x) (toVal P l)
        (by simp [aget]) (by simp [aget]) (by simp [aget])
        (by rw [hF.call _ _ _ (ne_sel P _)]; exact h1) (by rw [hF.call _ _ _ (ne_sel P _)]; exact h2)
        (renderS_ne_nil P d hL x) (renderS_ne_nil P d hL l)]
      rw [hF.isSub, notSubquery_toVal]; rfl
    · simp only [toVal, fieldVal, mkOp, mkPrefix, listItems_list, listItems_obj, listItems_int, listItems_flt, listItems_none, itemsS]; exact .nil
  | modulo l r ihl ihr =>
    refine ⟨fun k hk => ?_, fun k _ => ?_⟩
    · obtain ⟨k, rfl⟩ : ∃ k', k = k' + 2 := ⟨k - 2, by simp only [depth] at hk; omega⟩
      simp only [depth] at hk
      have h1 := ihl.1 (k + 1) (by omega)
      have h2 := ihr.1 (k + 1) (by omega)
      have h1' := ihl.1 k (by omega)
      have h2' := ihr.1 k (by omega)
      simp only [toVal, mkOp, sqlreprD, fm_SQLModulo_sqlrepr, renderS]
      rw [SQLModulo_sqlrepr_spec (F (k + 2)) _ _ _ (renderS P d l) (renderS P d r) (toVal P l) (toVal P r)
        (by simp [aget]) (by simp [aget])
        (by rw [hF.call _ _ _ (ne_sel P _)]; exact h1) (by rw [hF.call _ _ _ (ne_sel P _)]; exact h2)]
      by_cases hd : Expr.moduloInfix d = true
      · rw [if_pos ((strOf_sqlite d).mpr hd), if_pos hd]
        rw [hF.clsCall]; simp only [clsCallD, fm_SQLOp_sqlrepr, toOut_toR]
        rw [SQLOp_sqlrepr_spec (F (k + 1)) _ _ _ (binText .mod) (renderS P d l) (renderS P d r) (toVal P l) (toVal P r)
          (by simp [aget]) (by simp [aget]) (by simp [aget])
          (by rw [hF.call _ _ _ (ne_sel P _)]; exact h1') (by rw [hF.call _ _ _ (ne_sel P _)]; exact h2')
          (renderS_ne_nil P d hL l) (renderS_ne_nil P d hL r)]
        rw [hF.isSub, notSubquery_toVal]; rfl
      · rw [if_neg (fun h => hd ((strOf_sqlite d).mp h)), if_neg hd]; rfl
    · simp only [toVal, fieldVal, mkOp, mkPrefix, listItems_list, listItems_obj, listItems_int, listItems_flt, listItems_none, itemsS]; exact .nil
  | «prefix» p x ih =>
    refine ⟨fun k hk => ?_, fun k _ => ?_⟩
    · obtain ⟨k, rfl⟩ : ∃ k', k = k' + 1 := ⟨k - 1, by simp only [depth] at hk; omega⟩
      simp only [depth] at hk
      have h1 := ih.1 k (by omega)
      simp only [toVal, mkPrefix, sqlreprD, fm_SQLPrefix_sqlrepr, renderS]
      rw [SQLPrefix_sqlrepr_spec (F (k + 1)) _ _ _ (preText p) (renderS P d x) (toVal P x)
        (by simp [aget]) (by simp [aget]) (by rw [hF.call _ _ _ (ne_sel P _)]; exact h1)]
      rfl
    · simp only [toVal, fieldVal, mkOp, mkPrefix, listItems_list, listItems_obj, listItems_int, listItems_flt, listItems_none, itemsS]; exact .nil
  | lnil =>
    refine ⟨fun k _ => ?_, fun k _ => ?_⟩
    · simp only [toVal, sqlreprD, typeName, conv_list, ft_Seq, renderS]
      rw [SequenceConverter_list _ _ [] [] .nil]; rfl
    · simp only [toVal, listItems_list, itemsS]; exact .nil
  | lcons h t ihh iht =>
    have items : ∀ k, depth (.lcons h t) ≤ k + 1 →
        AllR (fun v s => (F (k + 1)).call "sqlrepr" [v, .str (strOf d)] = .ok (.str s))
          (listItems (toVal P (.lcons h t))) (itemsS P d (.lcons h t)) := by
      intro k hk
      simp only [depth] at hk
      simp only [toVal, listItems_list, itemsS]
      exact .cons (by rw [hF.call _ _ _ (ne_sel P _)]; exact ihh.1 k (by omega)) (iht.2 k (by omega))
    refine ⟨fun k hk => ?_, items⟩
    obtain ⟨k, rfl⟩ : ∃ k', k = k' + 1 := ⟨k - 1, by simp only [depth] at hk; omega⟩
    have hi := items k hk
    simp only [toVal, listItems_list, itemsS] at hi
    simp only [toVal, sqlreprD, typeName, conv_list, ft_Seq, renderS]
    rw [SequenceConverter_list (F (k + 1)) _ _ _ hi]; rfl

theorem sqlrepr_toValF (P : Params) (F : Nat → Iface) (hF : Tied P F) (d : String) (hL : LeafOk P) (n : Node) (k : Nat)
    (hk : depth n ≤ k) : (F (k + 1)).call "sqlrepr" [toVal P n, .str (strOf d)] = .ok (.str (renderS P d n)) := by
  rw [hF.call _ _ _ (ne_sel P n)]
  exact (sqlrepr_toVal_auxF P F hF d hL n).1 k hk

end SqlObjVerif.ExprX
