import SqlObjVerif.Lemmas.InheritXGetLoop
/-!
Symbolic execution of the TRANSLATED `InheritableSQLObject.get`, part 2: one level.  `getX_level`: `SQLObject.get`, the
`childName` dispatch (`C.getChild` on the class found in `childClasses`, with the `(None,)` shortcut for a column-less
class; KeyError for an unknown name), else the `_parent` chain fetch; `getX_level_shunted`: the same entered with
`selectResults=(None,)` (no SELECT, no dispatch).
-/
set_option linter.unusedSimpArgs false
namespace SqlObjVerif.Inherit
open SqlObjVerif.PyInh
open SqlObjVerif.PyInh.Extracted

theorem anc_eq_cons (T : Tree) (c : Nat) : T.anc c = c :: (T.anc c).tail := by
  have := anc_head T c
  cases hl : T.anc c with
  | nil => rw [hl] at this; cases this
  | cons x xs => rw [hl] at this; simp at this; subst this; rfl

theorem anc_length_le {T : Tree} (h : T.WF) : ∀ c, (T.anc c).length ≤ c + 1 := by
  intro c
  induction c using h.induction with
  | root c hc => simp [anc_root h hc]
  | step c p hp ih =>
    rw [anc_cons h hp]
    have := (h.lt c p hp).1
    simp only [List.length_cons]; omega

theorem anc_fuel {T : Tree} (h : T.WF) (c : Nat) : (T.anc c).length ≤ T.n + 1 := by
  cases hp : T.parent c with
  | none => simp [anc_root h hp]
  | some p =>
    have := (h.lt c p hp).2
    have := anc_length_le h c
    omega

/-- the `_parent` fetch at the end of `get`, entered with `inst = val` -/
theorem get_while' {X : Ctx} (h : X.T.WF) (C : Calls) (s : PVal) (k i e : Nat) (cv : PVal) (hk : connOf X cv = some k)
    (hgp : ∀ w' p, C.getParent w' k p i =
      if (w'.cur k).has p i then .ret w' (.inst k p i) else .exc w' ⟨.notFound, 0⟩)
    {v2 v3 v4 v5 v6 v7 v9 v10 : Option PVal} {w : XW} {r : PyInh.Res XW}
    (hF : whileLoop (fun st => get_loop0_cond.eval (xIface X C s) st.w st.vars)
          (fun st => get_loop0.exec (xIface X C s) none st) (X.T.n + 1)
          { w := w, vars := [some (.nat i), some cv, v2, v3, v4, v5, v6, v7, some (.inst k e i), v9, v10] } = r)
    (hcold : ∀ a, a ∈ X.T.anc e → w.par k a i = .none) :
    ∃ v8' v10', r = loopRes [some (.nat i), some cv, v2, v3, v4, v5, v6, v7, v8', v9, v10'] (parentsSpec k i (X.T.anc e) w) := by
  have hch := anc_isChain h e
  have hnd := anc_nodup h e
  have hfu := anc_fuel h e
  rw [anc_eq_cons] at hch hnd hfu hcold ⊢
  obtain ⟨v8', v10', hw⟩ := get_while X C s k i cv hk hgp v2 v3 v4 v5 v6 v7 v9 _ e hch hnd (X.T.n + 1) hfu w v10 hcold
  exact ⟨v8', v10', by rw [← hF, hw]⟩

theorem getX_level_shunted {X : Ctx} (h : X.T.WF) (C : Calls) (w : XW) (k e i : Nat) (cv : PVal)
    (hk : connOf X cv = some k) (hcold : ∀ a, a ∈ X.T.anc e → w.par k a i = .none)
    (hgp : ∀ w' p, C.getParent w' k p i =
      if (w'.cur k).has p i then .ret w' (.inst k p i) else .exc w' ⟨.notFound, 0⟩)
    (hinh : X.T.inh e = false) :
    getX X C w e i cv (.cons .none .nil) .none (.bool false) = parentsFetch X w k e i := by
  unfold getX getProg get_nlocals parentsFetch
  have hc1 := colsDict_isList X.T e
  have hc2 := colsDict_hasTag X.T e
  rw [hinh] at hc2
  ihrun
  generalize hF : whileLoop _ _ _ _ = r
  obtain ⟨v8', v10', rfl⟩ := get_while' h C _ k i e cv hk hgp hF hcold
  generalize parentsSpec k i (X.T.anc e) w = ps
  obtain ⟨w', b⟩ := ps
  cases b <;> simp [loopRes]

theorem getX_level {X : Ctx} (h : X.T.WF) (C : Calls) (w : XW) (k e i : Nat) (cv : PVal)
    (hk : connOf X cv = some k) (hcold : ∀ a, a ∈ X.T.anc e → w.par k a i = .none)
    (hgp : ∀ w' p, C.getParent w' k p i =
      if (w'.cur k).has p i then .ret w' (.inst k p i) else .exc w' ⟨.notFound, 0⟩)
    (htag : ∀ r, w.cur k e i = some r → X.T.inh e = false → r.child = none) :
    getX X C w e i cv .none .none (.bool false) =
      match w.cur k e i with
      | none => .exc w ⟨.notFound, 0⟩
      | some r =>
        match r.child with
        | none => parentsFetch X w k e i
        | some d =>
          if X.T.parent d = some e then C.getChild w k d i (shuntArg (Extracted.shuntColless && X.T.colless d))
          else .exc w ⟨.keyError, 0⟩ := by
  have hsh : Extracted.shuntColless = true := rfl
  unfold getX getProg get_nlocals parentsFetch
  have hc1 := colsDict_isList X.T e
  have hc2 := colsDict_hasTag X.T e
  have hd1 := childDict_isList X.T e
  cases hrow : w.cur k e i with
  | none =>
    ihrun
    simp [DB.has, hrow]
  | some r =>
    have hhas : (w.cur k).has e i = true := by simp [DB.has, hrow]
    cases hinh : X.T.inh e with
    | false =>
      rw [hinh] at hc2
      dsimp only
      rw [htag r hrow hinh]
      ihrun
      generalize hF : whileLoop _ _ _ _ = r'
      obtain ⟨v8', v10', rfl⟩ := get_while' h C _ k i e cv hk hgp hF hcold
      generalize parentsSpec k i (X.T.anc e) w = ps
      obtain ⟨w', b⟩ := ps
      cases b <;> simp [loopRes]
    | true =>
      rw [hinh] at hc2
      dsimp only
      cases hch : r.child with
      | none =>
        ihrun
        simp [tagVal]
        generalize hF : whileLoop _ _ _ _ = r'
        obtain ⟨v8', v10', rfl⟩ := get_while' h C _ k i e cv hk hgp hF hcold
        generalize parentsSpec k i (X.T.anc e) w = ps
        obtain ⟨w', b⟩ := ps
        cases b <;> simp [loopRes]
      | some d =>
        have hcd := childDict_get X.T e d
        simp only [cname] at hcd
        by_cases hpd : X.T.parent d = some e
        · have hdn := (h.lt d e hpd).2
          simp only [hdn, hpd, and_self, if_true] at hcd
          have hct := colsDict_truthy X.T d
          cases hcl : X.T.colless d
          · rw [hcl] at hct; ihrun; simp [tagVal, cname, hcd, hct, kwGet, zipKw, shuntArg, hsh, hk]
            cases hg : C.getChild w k d i Val.none <;> simp
          · rw [hcl] at hct; ihrun; simp [tagVal, cname, hcd, hct, kwGet, zipKw, shuntArg, hsh, hk]
            cases hg : C.getChild w k d i (Val.none.cons Val.nil) <;> simp
        · have : ¬ (d < X.T.n ∧ X.T.parent d = some e) := fun hh => hpd hh.2
          simp only [this, if_false] at hcd
          ihrun
          simp [tagVal, cname, hcd, hpd]
end SqlObjVerif.Inherit
