import SqlObjVerif.Lemmas.EvMainXDefaults
/-!
C19 translator tie, part 11: `_create` as translated, in any world (`createX_run`).
-/
namespace SqlObjVerif.Events
open SqlObjVerif.PyEv
open SqlObjVerif.PyEv.Extracted
open SqlObjVerif.PyMain (R mapR ofOpt dget dhas dset dupdate dictOf sortByKey insByKey Exc FnKind)

@[simp] theorem createCalls_set (fuel : Nat) (args : List PV) (kw : PDict) (w : World) :
    (createCalls fuel).meth "set" args kw w = setX fuel w args kw := by simp [createCalls]
@[simp] theorem createCalls_finish (fuel : Nat) (args : List PV) (kw : PDict) (w : World) :
    (createCalls fuel).meth "_SO_finishCreate" args kw w = finishCreateX fuel w args := by simp [createCalls]

/-- `set(**kw)` while the object is being created: no `RowUpdateSignal`, the creating branch -/
theorem setX_creating (fuel : Nat) (w : World) (kw cv0 : Kw) (hnd : (kw.map (·.1)).Nodup) (hc : w.o.creating = true)
    (hcv : w.o.cv = some cv0) : ∃ vals', setX fuel w [] (kwPV kw) = lazyOut w cv0 kw vals' := by
  have h := (setX_run fuel w kw hnd).1 (by simp [hc]) cv0 hcv
  have h1 : setSig w kw = (kw, [], []) := by simp [setSig, hc]
  have h2 : afterSig w kw = w := by
    obtain ⟨c, lvl, rows, nextId, o, postponed, log⟩ := w
    simp [afterSig, h1, tagLog]
  rw [h1, h2] at h
  exact h

theorem defaults_loop' {ops : Ops} {call : Calls} {js : List Nat} {st : St} {r : Res}
    (hF : forLoop (bindThen (.one 1) fun st' => Block.exec ops call st' create_for0) (js.map PV.col) st = r)
    (K : Kw) (h0 : st.dicts 0 = some (kwPV K)) :
    ∃ st', r = .norm st'
      ∧ st'.w = st.w ∧ st'.lists = st.lists ∧ st'.dicts 0 = some (kwPV (addDefaults st.w.c js K))
      ∧ (∀ y, y ≠ 0 → st'.dicts y = st.dicts y) ∧ (∀ y, y ≠ 1 → y ≠ 2 → st'.vars y = st.vars y) := by
  subst hF
  exact defaults_loop js K st h0

theorem finishCreateX_run' {fuel : Nat} {w : World} {out : Outcome} (hfc : finishCreateX fuel w [.none] = out)
    (cv1 : Kw) (l : List Thunk)
    (hcv : w.o.cv = some cv1) (hcr : w.o.creating = true) (hpp : w.postponed = some l)
    (hnd : (cv1.map (·.1)).Nodup) (hcols : ∀ e ∈ cv1, e.1 < w.c.ncols) (hn : 0 < w.c.ncols)
    (hfresh : rowOf? w.rows w.nextId = none) :
    ∃ t, GoodThunk t w.nextId ∧ t.cfg = w.c ∧ t.lvl = w.lvl ∧
      out = .ret { w with
        rows := w.rows ++ [(w.nextId, insRow w.c.ncols cv1)], nextId := w.nextId + 1,
        log := w.log ++ [(w.lvl, Entry.ins w.nextId (insRow w.c.ncols cv1))],
        o := { w.o with id := some w.nextId, vals := fun c => (insRow w.c.ncols cv1)[c]?, cv := some [], creating := false,
                        dirty := false, lock := false },
        postponed := some (l ++ [t]) } .none := by
  subst hfc
  exact finishCreateX_run fuel w cv1 l hcv hcr hpp hnd hcols hn hfresh

/-- the instance while `_create` runs -/
def creatingW (w : World) : World := { w with o := { w.o with creating := true, cv := some [] } }

/-- the kwargs `_create` hands to `set` -/
def createKw (w : World) (K : Kw) : Kw := addDefaults w.c (List.range w.c.ncols) K

theorem createX_run (fuel : Nat) (w : World) (K : Kw) (l : List Thunk) (hnd : (K.map (·.1)).Nodup)
    (hpp : w.postponed = some l) (hn : 0 < w.c.ncols) (hfresh : rowOf? w.rows w.nextId = none) :
    ((colsOf w.c.ncols (createKw w K)).any (fun e => decide (e.2 = .bad)) = true →
        createX fuel w [.none] (kwPV K) = .exc (creatingW w) .invalid)
    ∧ ((colsOf w.c.ncols (createKw w K)).any (fun e => decide (e.2 = .bad)) = false →
        (extraOf w.c.ncols (createKw w K)).isEmpty = false → createX fuel w [.none] (kwPV K) = .exc (creatingW w) .typeError)
    ∧ ((colsOf w.c.ncols (createKw w K)).any (fun e => decide (e.2 = .bad)) = false →
        (extraOf w.c.ncols (createKw w K)).isEmpty = true →
        ∃ t, GoodThunk t w.nextId ∧ t.cfg = w.c ∧ t.lvl = w.lvl ∧ createX fuel w [.none] (kwPV K) = .ret { w with
          rows := w.rows ++ [(w.nextId, insRow w.c.ncols (colsOf w.c.ncols (createKw w K)))], nextId := w.nextId + 1,
          log := w.log ++ [(w.lvl, Entry.ins w.nextId (insRow w.c.ncols (colsOf w.c.ncols (createKw w K))))],
          o := { w.o with id := some w.nextId, vals := fun c => (insRow w.c.ncols (colsOf w.c.ncols (createKw w K)))[c]?,
                          cv := some [], creating := false, dirty := false, lock := false },
          postponed := some (l ++ [t]) } .none) := by
  have hK' := addDefaults_nodup w.c (List.range w.c.ncols) K hnd
  have hrun : ∃ st', createX fuel w [.none] (kwPV K)
      = (((Stmt.exec (evOps fuel) (createCalls fuel) st' (.callSelfKw "set" [] (.loc 0))).seq fun st'' =>
          (Stmt.exec (evOps fuel) (createCalls fuel) st'' (.callSelf "_SO_finishCreate" [(.var 0)])).seq fun st3 => .norm st3)).toOutcome
      ∧ st'.w = creatingW w
      ∧ st'.dicts 0 = some (kwPV (createKw w K)) ∧ st'.vars 0 = some .none := by
    unfold createX createProg
    simp only [PyEv.run, Block.exec]
    evwith []
    generalize hF : forLoop _ _ _ = r
    obtain ⟨st', rfl, hw, -, hd0, -, hv⟩ := defaults_loop' hF K (by simp)
    refine ⟨st', by simp, by rw [hw]; simp [creatingW], hd0, by rw [hv 0 (by decide) (by decide)]; simp [envOfList]⟩
  obtain ⟨st', hrun, hw, hd0, hv0⟩ := hrun
  rw [hrun]
  obtain ⟨vals', hx⟩ := setX_creating fuel (creatingW w) (createKw w K) [] hK' rfl rfl
  refine ⟨fun hany => ?_, fun hany hex => ?_, fun hany hex => ?_⟩
  · have hany' : (colsOf (creatingW w).c.ncols (createKw w K)).any (fun e => decide (e.2 = .bad)) = true := hany
    evwith [hw, hd0, hx, lazyOut, hany']
  · have hany' : (colsOf (creatingW w).c.ncols (createKw w K)).any (fun e => decide (e.2 = .bad)) = false := hany
    have hex' : (extraOf (creatingW w).c.ncols (createKw w K)).isEmpty = false := hex
    evwith [hw, hd0, hx, lazyOut, hany', hex']
  · have hany' : (colsOf (creatingW w).c.ncols (createKw w K)).any (fun e => decide (e.2 = .bad)) = false := hany
    have hex' : (extraOf (creatingW w).c.ncols (createKw w K)).isEmpty = true := hex
    have hdu : dupdate (colsOf (creatingW w).c.ncols (createKw w K)) ([] : Kw) = colsOf w.c.ncols (createKw w K) :=
      dictOf_nodup _ (keys_filter_nodup _ _ hK')
    evwith [hw, hd0, hx, lazyOut, hany', hex', hv0, hdu]
    generalize hfc : finishCreateX fuel _ [PV.none] = out
    obtain ⟨t, hg, hc, hl, rfl⟩ := finishCreateX_run' hfc (colsOf w.c.ncols (createKw w K)) l rfl rfl
      (by simp [creatingW, hpp]) (keys_filter_nodup _ _ hK') (colsOf_lt _ _) hn hfresh
    refine ⟨t, hg, hc, hl, ?_⟩
    simp [creatingW]

end SqlObjVerif.Events
