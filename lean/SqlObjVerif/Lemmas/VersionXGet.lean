import SqlObjVerif.Lemmas.VersionXRow
/-!
The translated `Version.select` and `Versioning.__get__` (PyVersion programs regenerated from /repo on every run):
`obj.versions` is the select over the version table filtered by `masterID == obj.id` on `obj`'s own connection — the
hand model's `versionsOf`.
-/
namespace SqlObjVerif.Version
open SqlObjVerif.Events
open SqlObjVerif.PyVer
open SqlObjVerif.PyVer.Extracted

/-- the world after `Version.select` made sure the version class has a connection -/
def withConn (X : Ctx) (w : XW) : XW := if pyBool w.vconn then w else { w with vconn := X.mconn }

theorem selectX_eq (X : Ctx) (w : XW) (clause rest kw : PVal) (l : List PVal) (hl : rest.toList = some l) :
    selectX X (.cls 1) w clause rest kw
      = .ret (withConn X w) (.obj "select" (.pair (.cls 1) (PyVer.Val.ofList (clause :: l))) (.pair kw (withConn X w).vconn))
          [clause, rest, kw] := by
  unfold selectX withConn
  simp only [selectProg, select_nlocals]
  have hrl : restList rest = some l := by
    cases rest <;> simp_all [restList, PyVer.Val.toList]
  by_cases hc : pyBool w.vconn = true
  · vxrun
  · vxrun


theorem versionsOf_eq (s : VState) (m : Nat) :
    versionsOf s m = (s.versions.filter fun r => clauseHolds r (.obj "==" (.obj "field" (.cls 1) (.str "masterID")) (.nat m))).map (·.vals) := by
  unfold versionsOf
  congr 1
  apply List.filter_congr
  intro r _
  simp [clauseHolds]
  constructor <;> intro h <;> exact h.symm

/-- the value of `obj.versions` -/
def getSel (d m : Nat) (vc : PVal) : PVal :=
  .obj "select" (.pair (.cls 1) (PyVer.Val.ofList [.obj "==" (.obj "field" (.cls 1) (.str "masterID")) (.nat m)]))
    (.pair (.dictv (body [("connection", .conn d)])) vc)

/-- the rows of that select result: the versions filed under `m` on connection `d`, in id order -/
theorem getSel_rows (w : XW) (d m : Nat) (vc : PVal) :
    (selRows w (getSel d m vc)).map (fun l => l.map (·.vals)) = some (versionsOf (w.S d) m) := by
  simp [selRows, getSel, selConn, selClause, body, PyVer.Val.ofList, vdGet, versionsOf_eq]

/-- **`Versioning.__get__` as translated**: `obj.versions` is the select result whose rows are the versions filed under
    `obj.id` on `obj`'s own connection (`getSel_rows`); the tables do not change -/
theorem getX_eq (X : Ctx) (w : XW) (d m : Nat) (ty : PVal) :
    getX X w (.inst d 0 m) ty = .ret (withConn X w) (getSel d m (withConn X w).vconn) [.inst d 0 m, ty] := by
  have hsel := selectX_eq X w (.obj "==" (.obj "field" (.cls 1) (.str "masterID")) (.nat m)) .nil
    (.dictv (body [("connection", .conn d)])) [] rfl
  unfold getX getSel
  simp only [getProg, get_nlocals, vobj]
  vxwith [calls1, bindSelect, cmpVal, isFld, CmpOp.name, PyVer.Val.ofList, vdUpdate]

theorem getX_none (X : Ctx) (w : XW) (ty : PVal) : getX X w .none ty = .ret w vobj [.none, ty] := by
  unfold getX
  simp only [getProg, get_nlocals, vobj]
  vxrun

theorem withConn_S (X : Ctx) (w : XW) : (withConn X w).S = w.S := by
  unfold withConn; split <;> rfl

end SqlObjVerif.Version
