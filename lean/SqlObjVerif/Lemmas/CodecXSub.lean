import SqlObjVerif.Lemmas.CodecXDt
/-!
# CodecX — the translated Date / Time validators (`super().to_python` = the translated DateTimeValidator) = the hand model
-/
namespace SqlObjVerif.PyCodec

open SqlObjVerif.Codec (Str PyVal FTok SPiece DT)
open Extracted

theorem toModel_ok {o : Out} {v : PyVal} (h : o.toModel = some (.ok v)) : o = .ret (.py v) := by
  cases o with
  | ret w => cases w <;> simp [Out.toModel] at h; rw [h]
  | exc e => cases e <;> simp [Out.toModel] at h
  | unmodelled => simp [Out.toModel] at h
  | stuck => simp [Out.toModel] at h

theorem toModel_invalid {o : Out} (h : o.toModel = some .invalid) : o = .exc .invalid := by
  cases o with
  | ret w => cases w <;> simp [Out.toModel] at h
  | exc e => cases e <;> simp [Out.toModel] at h; rfl
  | unmodelled => simp [Out.toModel] at h
  | stuck => simp [Out.toModel] at h

/-- the answer of `super().to_python` on a text -/
def supRes : Option DT → R Val
  | some d => .ok (.py (Codec.dtOf d))
  | Option.none => .exc .invalid

theorem superDt_str (fs : Str) (F : List SPiece) (s : Str)
    (h : runV (cfgDt fs) dtToPython (.str s) = some (Codec.dtToPython F (.str s))) :
    superDt fs (.py (.str s)) = supRes (Codec.parseWith F s) := by
  rw [model_dt_str, runV] at h
  rw [superDt]
  cases hp : Codec.parseWith F s with
  | none => rw [hp] at h; rw [toModel_invalid h]; rfl
  | some d => rw [hp] at h; rw [toModel_ok h]; rfl

/-! ### DateValidator -/

theorem date_str (s : Str) : runV (cfgDtSub fmtDateStr) dateToPython (.str s) = some (Codec.dateToPython (.str s)) := by
  have hs := superDt_str fmtDateStr _ s (dtToPython_d_eq (.str s))
  simp only [Codec.dateToPython, model_dt_str]
  cases hp : Codec.parseWith Codec.Extracted.fmtDate s <;>
  pyxw [dateToPython, dateToPython_s0, dateToPython_s1, dateToPython_s2, dateToPython_s3, dateToPython_s4, dateToPython_s5,
    hs, hp, supRes, dtRes, Codec.dtOf]

theorem dateToPython_eq (v : PyVal) : runV (cfgDtSub fmtDateStr) dateToPython v = some (Codec.dateToPython v) := by
  cases v with
  | str s => exact date_str s
  | _ => rfl

/-! ### TimeValidator -/

theorem time_str (s : Str) : runV (cfgDtSub fmtTimeStr) timeToPython (.str s) = some (Codec.timeToPython (.str s)) := by
  have hs := superDt_str fmtTimeStr _ s (dtToPython_t_eq (.str s))
  simp only [Codec.timeToPython, model_dt_str]
  cases hp : Codec.parseWith Codec.Extracted.fmtTime s <;>
  pyxw [timeToPython, timeToPython_s0, timeToPython_s1, timeToPython_s2, timeToPython_s3, timeToPython_s4, timeToPython_s5,
    hs, hp, supRes, dtRes, Codec.dtOf]

theorem timeToPython_eq (v : PyVal) : runV (cfgDtSub fmtTimeStr) timeToPython v = some (Codec.timeToPython v) := by
  cases v with
  | str s => exact time_str s
  | _ => rfl

end SqlObjVerif.PyCodec
