import SqlObjVerif.Lemmas.InhSelXSelect
/-!
`InheritableSelectResults.__init__` (translated) for the query `cls.selectBy(**kw)` builds (source class = the class
itself, clause = the conjunction of `column == value` over own and inherited columns): its rows are the hand model's
`selectByRow` (`selInit_selectBy`).
-/
set_option linter.unusedSimpArgs false
namespace SqlObjVerif.InhSel
open SqlObjVerif.PyIS (Sql)
open SqlObjVerif.Inherit hiding Val Res Cmp Out

def kvSql (y : Nat × Nat × Inherit.Val) : Sql := .col y.1 y.2.1 .eq y.2.2

theorem byFold_eval (db : DB) (σ : Nat → Nat) : ∀ (l : List (Nat × Nat × Inherit.Val)) (e : Sql),
    sqlEval db σ (l.foldl (fun acc y => Sql.and acc (.col y.1 y.2.1 .eq y.2.2)) e) =
      (sqlEval db σ e && l.all fun y => sqlEval db σ (kvSql y)) := by
  intro l
  induction l with
  | nil => intro e; simp
  | cons y l ih => intro e; simp [ih, sqlEval, kvSql, Bool.and_assoc]

theorem byFold_tables : ∀ (l : List (Nat × Nat × Inherit.Val)) (e : Sql) (x : Nat),
    x ∈ sqlTables (l.foldl (fun acc y => Sql.and acc (.col y.1 y.2.1 .eq y.2.2)) e) ↔
      (x ∈ sqlTables e ∨ ∃ y, y ∈ l ∧ y.1 = x) := by
  intro l
  induction l with
  | nil => intro e x; simp
  | cons y l ih =>
    intro e x
    simp only [List.foldl_cons, ih, sqlTables, List.mem_append]
    constructor
    · rintro ((h | h) | ⟨y', hy', he⟩)
      · left; exact h
      · right; exact ⟨y, List.mem_cons_self, (List.mem_singleton.1 h).symm⟩
      · right; exact ⟨y', List.mem_cons_of_mem _ hy', he⟩
    · rintro (h | ⟨y', hy', he⟩)
      · left; left; exact h
      · rcases List.mem_cons.1 hy' with rfl | hy'
        · left; right; exact List.mem_singleton.2 he.symm
        · right; exact ⟨y', hy', he⟩

theorem byClause_tables (kvs : List (Nat × Nat × Inherit.Val)) (x : Nat) :
    x ∈ sqlTables (byClause kvs) ↔ ∃ y, y ∈ kvs ∧ y.1 = x := by
  cases kvs with
  | nil => simp [byClause, sqlTables]
  | cons y l =>
    simp only [byClause, byFold_tables, sqlTables]
    constructor
    · rintro (h | ⟨y', hy', he⟩)
      · exact ⟨y, List.mem_cons_self, (List.mem_singleton.1 h).symm⟩
      · exact ⟨y', List.mem_cons_of_mem _ hy', he⟩
    · rintro ⟨y', hy', he⟩
      rcases List.mem_cons.1 hy' with rfl | hy'
      · left; exact List.mem_singleton.2 he.symm
      · right; exact ⟨y', hy', he⟩

theorem byClause_eval (db : DB) (i : Nat) (kvs : List (Nat × Nat × Inherit.Val)) :
    sqlEval db (fun _ => i) (byClause kvs) = kvsHold db i kvs := by
  cases kvs with
  | nil => simp [byClause, sqlEval, kvsHold]
  | cons y l =>
    simp only [byClause, byFold_eval, kvsHold, List.all_cons]
    simp [sqlEval, kvSql, cmpEval]

theorem used_iff_byNeeded (c : Nat) (kvs : List (Nat × Nat × Inherit.Val)) (x : Nat) :
    x ∈ sqlTables (byClause kvs) ++ [c] ↔ byNeeded c kvs x = true := by
  simp only [List.mem_append, byClause_tables, List.mem_singleton, byNeeded, Bool.or_eq_true, beq_iff_eq,
    List.any_eq_true]
  constructor
  · rintro (⟨y, hy, rfl⟩ | h)
    · exact Or.inr ⟨y, hy, rfl⟩
    · exact Or.inl h
  · rintro (h | ⟨y, hy, h⟩)
    · exact Or.inr h
    · exact Or.inl ⟨y, hy, h⟩

/-- **`InheritableSelectResults.__init__` for `cls.selectBy(**kw)`** (source class = `cls`, clause = the conjunction
    of `column == value`, columns declared by the class or an ancestor): the rows of the query the translated
    constructor builds are exactly the ids the hand model's `selectByRow` selects, one row per id -/
theorem selInit_selectBy (X : SCtx) (h : X.T.WF) (hreg : X.reg.Nodup) (w : SW) (c : Nat)
    (kvs : List (Nat × Nat × Inherit.Val)) (oc : Option Nat)
    (hregAll : ∀ a, a ∈ X.T.anc c → a ∈ X.reg) (hk : ∀ y, y ∈ kvs → y.1 ∈ X.T.anc c) :
    ∃ e, selInitX X w c (.sql (byClause kvs)) (opsOf oc) = .ret { w with made := some ⟨c, e, oc.getD X.dflt⟩ } .none ∧
      ∀ db : DB,
        (∀ i, (∃ σ, Sat db c e σ ∧ σ c = i) ↔ (selectByRow X.T db c kvs i).isSome = true) ∧
        (∀ σ σ', Sat db c e σ → Sat db c e σ' → σ c = σ' c → ∀ a, a ∈ sqlTables e ++ [c] → σ a = σ' a) := by
  have hall : ∀ a, a ∈ sqlTables (byClause kvs) ++ [c] → a ∈ X.reg ∧ a ∈ X.T.anc c := by
    intro a ha
    have hac : a ∈ X.T.anc c := by
      rcases List.mem_append.1 ha with ha | ha
      · obtain ⟨y, hy, rfl⟩ := (byClause_tables kvs a).1 ha
        exact hk y hy
      · simp only [List.mem_singleton] at ha; rw [ha]; exact self_mem_anc h c
    exact ⟨hregAll a hac, hac⟩
  obtain ⟨t, pre, post, hsplit, htu, hpost, hrun, htabs, hsat⟩ :=
    selInit_chain X h hreg w c (byClause kvs) oc c (by simp) hall
  refine ⟨_, hrun, ?_⟩
  have hcin : c ∈ pre ++ [t] := by
    have hc0 := self_mem_anc h c
    rw [hsplit] at hc0
    rcases List.mem_append.1 hc0 with hm | hm
    · exact List.mem_append_left _ hm
    · rcases List.mem_cons.1 hm with hm | hm
      · simp [hm]
      · exact absurd (by simp) (hpost c hm)
  have hjoin : ∀ db i, joinUp X.T db c i (byNeeded c kvs) = (pre ++ [t]).all (fun a => db.has a i) := by
    intro db i
    unfold joinUp
    rw [hsplit, List.reverse_append, List.reverse_cons, List.append_assoc,
      dropWhile_append_neg _ _ _ (fun x hx => by
        have hx' : x ∈ post := by simpa using hx
        have := hpost x hx'
        rw [used_iff_byNeeded] at this
        simpa using this)]
    have htn : byNeeded c kvs t = true := (used_iff_byNeeded c kvs t).1 htu
    simp only [List.singleton_append, List.dropWhile_cons, htn, Bool.not_true, Bool.false_eq_true, if_false]
    simp
  intro db
  constructor
  · intro i
    constructor
    · rintro ⟨σ, hs, hi⟩
      obtain ⟨hrows, hg⟩ := (hsat db σ).1 hs
      have hconst : sqlEval db σ (byClause kvs) = sqlEval db (fun _ => i) (byClause kvs) := by
        apply sqlEval_congr
        intro a ha
        have := (hrows a (htabs a (by
          rw [List.mem_append]; left
          rw [tables_foldl_and]; exact Or.inl ha))).1
        rw [this, hi]
      rw [hconst, byClause_eval] at hg
      have hj : joinUp X.T db c i (byNeeded c kvs) = true := by
        rw [hjoin, List.all_eq_true]
        intro a ha
        have := (hrows a ha).2
        rw [hi] at this
        simpa using this
      simp [selectByRow, hj, hg]
    · intro hsel
      have hcond : (joinUp X.T db c i (byNeeded c kvs) && kvsHold db i kvs) = true := by
        unfold selectByRow at hsel
        by_cases hc : (joinUp X.T db c i (byNeeded c kvs) && kvsHold db i kvs) = true
        · exact hc
        · simp [hc] at hsel
      simp only [Bool.and_eq_true] at hcond
      refine ⟨fun _ => i, (hsat db _).2 ⟨?_, ?_⟩, rfl⟩
      · intro a ha
        refine ⟨rfl, ?_⟩
        have := hcond.1
        rw [hjoin, List.all_eq_true] at this
        simpa using this a ha
      · rw [byClause_eval]; exact hcond.2
  · intro σ σ' hs hs' hi a ha
    have hr := ((hsat db σ).1 hs).1
    have hr' := ((hsat db σ').1 hs').1
    have hmem := htabs a ha
    rw [(hr a hmem).1, (hr' a hmem).1]
    exact hi

end SqlObjVerif.InhSel
