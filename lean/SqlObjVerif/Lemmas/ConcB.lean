import SqlObjVerif.Lemmas.Conc
/-! Layer B for the Conc model (C09): the maps hold one object per id and every returned object stays
    reachable — for programs in which no thread runs `create` (the lock-free `created`). -/
namespace SqlObjVerif.Conc

@[simp] theorem aget_nil (i : Id) : aget [] i = none := rfl

/-- the thread is inside a `create`, before or after its lock-free `cache[id] = obj` -/
def pcCreate : Pc → Bool
  | .insert _ | .crSet _ _ | .crSelect _ _ => true
  | .csGet k | .csSet k | .ccTest k | .ccRead k | .ccWrite k _ | .ccReset k | .cuAcq k | .cuWeakKeys k
  | .cuWeakChk k _ | .cuStrongKeys k | .cuStrongGet k _ _ | .cuStrongDel k _ _ _ | .cuWeakSet k _ _ _ | .cuRel k =>
    match k with
    | .create _ _ => true
    | _ => false
  | _ => false

def isCreate : Op → Bool
  | .create _ => true
  | _ => false

/-- no thread is creating or will create -/
def NoCreate (s : State) : Prop :=
  ∀ t, pcCreate (s.th t).pc = false ∧ ∀ op ∈ (s.th t).prog, isCreate op = false

/-- object `o` is reachable for row `i` through the cache, or was removed by `expire` -/
def Reach (s : State) (i : Id) (o : Obj) : Prop :=
  aget s.strong i = some o ∨ aget s.weak i = some o ∨ o ∈ s.stale ∨ s.transit = some (i, o)

/-- the entry the lock holder has taken out of one map and not yet put into the other -/
def trPc : Pc → Option (Id × Obj)
  | .strongSet i o => some (i, o)
  | .cuWeakSet _ i o _ => some (i, o)
  | _ => none

/-- the object a thread is about to return -/
def livePc : Pc → Option (Id × Obj)
  | .relRel i o | .relSet i o | .finRel i o | .crSelect i o => some (i, o)
  | _ => none

/-- the row id a lock holder has probed and relies on being absent from `cache` -/
def gid : Pc → Option Id
  | .weakGet i | .weakDel i _ | .select i | .finRelNF i | .put i _ => some i
  | _ => none

/-- the thread is inside the copy loop of `expireAll` (relies on `len(cache)` staying put) -/
def pcEAk : Pc → Bool
  | .eaNext _ _ | .eaSetWeak _ _ _ _ | .eaSwap => true
  | _ => false

/-- what makes the lock-free steps of thread `t` harmless: its `cache[id] = obj` (of `created`) hits an id that
    is in neither map, that no lock holder has just probed, while nobody iterates `cache`; its INSERT is of a new id -/
def CrOK (s : State) (t : Tid) : Prop :=
  (∀ i o, (s.th t).pc = .crSet i o →
    aget s.strong i = none ∧ aget s.weak i = none ∧ (∀ o', s.transit ≠ some (i, o')) ∧
    (∀ u, gid (s.th u).pc ≠ some i) ∧ (∀ u, pcEAk (s.th u).pc = false)) ∧
  (∀ i, (s.th t).pc = .insert i → i ∉ s.db)

/-- what the lock holder has learnt about the maps and still relies on -/
def know (s : State) : Pc → Prop
  | .weakGet i => aget s.strong i = none
  | .weakDel i o => aget s.strong i = none ∧ aget s.weak i = some o
  | .select i | .finRelNF i | .put i _ => aget s.strong i = none ∧ aget s.weak i = none
  | .cuStrongDel _ i o _ => aget s.strong i = some o
  | .eaNext pos used => s.strong.length = used ∧
      ∀ (j : Nat) k v, j < pos → s.strong[j]? = some (k, v) → aget s.weak k = some v
  | .eaSetWeak k v pos used => s.strong.length = used ∧ aget s.strong k = some v ∧
      (∃ j : Nat, j + 1 = pos ∧ s.strong[j]? = some (k, v)) ∧
      ∀ (j : Nat) k' v', j + 1 < pos → s.strong[j]? = some (k', v') → aget s.weak k' = some v'
  | .eaSwap => ∀ k v, aget s.strong k = some v → aget s.weak k = some v
  | _ => True

structure BInv (s : State) : Prop where
  uniq : ∀ i o p, aget s.strong i = some o → aget s.weak i = some p → o = p
  tr1 : ∀ i o, s.transit = some (i, o) →
    aget s.strong i = none ∧ (aget s.weak i = none ∨ aget s.weak i = some o) ∧ ∃ t, trPc (s.th t).pc = some (i, o)
  tr2 : ∀ t i o, trPc (s.th t).pc = some (i, o) → s.transit = some (i, o)
  know : ∀ t, know s (s.th t).pc
  live : ∀ t i o, livePc (s.th t).pc = some (i, o) → Reach s i o
  outs : ∀ t i o, Out.obj i o ∈ (s.th t).outs → Reach s i o

theorem getElem_aget (m : AMap) (hk : (akeys m).Nodup) (j : Nat) (k : Id) (v : Obj) (h : m[j]? = some (k, v)) :
    aget m k = some v := by
  induction m generalizing j with
  | nil => simp at h
  | cons p m ih =>
    obtain ⟨k', v'⟩ := p
    simp only [akeys, List.map_cons, List.nodup_cons] at hk
    cases j with
    | zero => simp at h; simp [aget, h.1, h.2]
    | succ n =>
      simp at h
      have := ih hk.2 n h
      have hm : k ∈ akeys m := (mem_akeys m k).2 (by simp [this])
      simp only [aget]
      split
      · rename_i e; subst e; exact absurd hm hk.1
      · exact this

theorem aget_getElem (m : AMap) (k : Id) (v : Obj) (h : aget m k = some v) : ∃ j : Nat, m[j]? = some (k, v) := by
  induction m with
  | nil => simp [aget] at h
  | cons p m ih =>
    obtain ⟨k', v'⟩ := p
    simp only [aget] at h
    split at h
    · rename_i e; subst e; simp at h; subst h; exact ⟨0, by simp⟩
    · obtain ⟨j, hj⟩ := ih h; exact ⟨j + 1, by simpa using hj⟩

/-! ### `NoCreate` is preserved -/
def thNoCreate (th : Th) : Prop := pcCreate th.pc = false ∧ ∀ op ∈ th.prog, isCreate op = false

theorem pcCreate_entry (c : Bool) (op : Op) (h : isCreate op = false) : pcCreate (entry c op) = false := by
  cases op <;> cases c <;> simp_all [entry, pcCreate, isCreate]

theorem goto_nc (s : State) (t : Tid) (pc : Pc) (h : thNoCreate (s.th t)) (hp : pcCreate pc = false) :
    thNoCreate ((goto s t pc).th t) := by
  simp only [goto, setTh_self]; exact ⟨hp, h.2⟩

theorem finish_nc (s : State) (t : Tid) (o : Out) (h : thNoCreate (s.th t)) : thNoCreate ((finish s t o).th t) := by
  unfold finish
  split
  · simp [thNoCreate, pcCreate]
  · rename_i op rest he
    simp only [setTh_self, thNoCreate]
    have h2 := h.2
    rw [he] at h2
    exact ⟨pcCreate_entry _ _ (h2 op (by simp)), fun op' ho => h2 op' (by simp [ho])⟩

theorem releaseFinish_nc (s : State) (t : Tid) (o : Out) (h : thNoCreate (s.th t)) :
    thNoCreate ((releaseFinish s t o).th t) := by
  unfold releaseFinish; split
  · exact finish_nc _ _ _ h
  · exact finish_nc { s with lock := none } t o h

theorem afterCC_nc (s : State) (t : Tid) (k : K) (h : thNoCreate (s.th t)) (hk : pcCreate (.ccTest k) = false) :
    thNoCreate ((afterCC s t k).th t) := by
  cases k <;> simp only [afterCC] <;>
    first | exact finish_nc _ _ _ h | exact goto_nc _ _ _ h rfl | simp [pcCreate] at hk

theorem afterCaches_nc (s : State) (t : Tid) (k : K) (h : thNoCreate (s.th t)) (hk : pcCreate (.ccTest k) = false) :
    thNoCreate ((afterCaches s t k).th t) := by
  cases k <;> simp only [afterCaches] <;>
    first | exact goto_nc _ _ _ h rfl | simp [pcCreate] at hk

theorem pcCreate_cuWeakNext (k : K) (ks : List Id) : pcCreate (cuWeakNext k ks) = pcCreate (.ccTest k) := by
  cases ks <;> rfl
theorem pcCreate_cuStrongNext (k : K) (ks : List Id) : pcCreate (cuStrongNext k ks) = pcCreate (.ccTest k) := by
  cases ks <;> rfl

set_option linter.unnecessarySimpa false in
theorem nocreate_step (s s' : State) (t : Tid) (h : NoCreate s) (hs : step s t = some s') : NoCreate s' := by
  intro u
  by_cases hu : u = t
  · subst hu
    have h : thNoCreate (s.th u) := h u
    have h1 := h.1
    step_cases <;> simp only [hpc] at h1 <;>
      first
      | exact finish_nc _ _ _ h
      | exact releaseFinish_nc _ _ _ h
      | exact goto_nc _ _ _ h rfl
      | exact goto_nc _ _ _ h (by simpa [pcCreate] using h1)
      | exact goto_nc _ _ _ h (by rw [pcCreate_cuWeakNext]; simpa [pcCreate] using h1)
      | exact goto_nc _ _ _ h (by rw [pcCreate_cuStrongNext]; simpa [pcCreate] using h1)
      | exact afterCC_nc _ _ _ h (by simpa [pcCreate] using h1)
      | exact afterCaches_nc _ _ _ h (by simpa [pcCreate] using h1)
      | (simp [pcCreate] at h1; done)
  · rw [step_th_ne s s' t u hs hu]; exact h u

/-! ### effects on the maps -/
theorem nonholder_effect2 (s s' : State) (t : Tid) (hs : step s t = some s') (hh : holds (s.th t).pc = false) :
    s'.weak = s.weak ∧ s'.stale = s.stale ∧ s'.transit = s.transit ∧
    (s'.strong = s.strong ∨ ∃ i o, (s.th t).pc = .crSet i o ∧ s'.strong = aset s.strong i o) := by
  step_cases <;> simp only [hpc, holds] at hh <;> simp_all <;> exact Or.inr ⟨_, _, ⟨rfl, rfl⟩, rfl⟩

theorem crok_of_nocreate (s : State) (t : Tid) (hn : NoCreate s) : CrOK s t := by
  have h := (hn t).1
  constructor
  · intro i o hp; rw [hp] at h; simp [pcCreate] at h
  · intro i hp; rw [hp] at h; simp [pcCreate] at h

theorem trPc_holds (pc : Pc) (x : Id × Obj) (h : trPc pc = some x) : holds pc = true := by
  cases pc <;> simp_all [trPc, holds]

theorem livePc_entry (c : Bool) (op : Op) : livePc (entry c op) = none := by
  cases op <;> cases c <;> rfl
theorem livePc_finish (s : State) (t : Tid) (o : Out) : livePc ((finish s t o).th t).pc = none := by
  unfold finish; split
  · simp only [setTh_self]; rfl
  · simp only [setTh_self]; exact livePc_entry _ _
theorem livePc_releaseFinish (s : State) (t : Tid) (o : Out) : livePc ((releaseFinish s t o).th t).pc = none := by
  unfold releaseFinish; split <;> exact livePc_finish _ _ _
theorem livePc_afterCC (s : State) (t : Tid) (k : K) : livePc ((afterCC s t k).th t).pc = none := by
  cases k <;> simp only [afterCC, goto_pc_self, livePc_finish] <;> rfl
theorem livePc_afterCaches (s : State) (t : Tid) (k : K) : livePc ((afterCaches s t k).th t).pc = none := by
  cases k <;> simp only [afterCaches, goto_pc_self] <;> rfl

/-- a lock-free `cache[i] = o` of an id nobody has probed, outside any iteration, keeps what lock holders know -/
theorem know_aset (s s' : State) (pc : Pc) (i : Id) (o : Obj) (e1 : s'.strong = aset s.strong i o)
    (e2 : s'.weak = s.weak) (h0 : aget s.strong i = none) (hg : gid pc ≠ some i) (he : pcEAk pc = false)
    (h : know s pc) : know s' pc := by
  cases pc <;> simp_all [know, gid, pcEAk, aget_aset] <;> grind

theorem know_nonholds (s : State) (pc : Pc) (h : holds pc = false) : know s pc := by
  cases pc <;> simp_all [know, holds]

/-- the lock holder is not between the two halves of a move ⇒ nothing is in transit -/
theorem transit_none (s : State) (t : Tid) (ha : AInv s) (hb : BInv s) (hl : s.lock = some t)
    (hp : trPc (s.th t).pc = none) : s.transit = none := by
  cases h : s.transit with
  | none => rfl
  | some x =>
    obtain ⟨i, o⟩ := x
    obtain ⟨_, _, t', ht'⟩ := hb.tr1 i o h
    have := (ha.holder t').1 (trPc_holds _ _ ht')
    simp_all

theorem reach_step (s s' : State) (t : Tid) (ha : AInv s) (hb : BInv s) (hn : CrOK s t)
    (hs : step s t = some s') (i : Id) (o : Obj) (hr : Reach s i o) : Reach s' i o := by
  cases hh : holds (s.th t).pc
  · obtain ⟨e2, e3, e4, e1⟩ := nonholder_effect2 s s' t hs hh
    unfold Reach at *; rw [e2, e3, e4]
    rcases e1 with e1 | ⟨i', o', hp, e1⟩ <;> rw [e1]
    · exact hr
    · have := (hn.1 i' o' hp).1
      grind [aget_aset]
  · have hl := (ha.holder t).1 hh
    have hk := hb.know t
    have htn := transit_none s t ha hb hl
    have ht2 := hb.tr2 t
    have hu := hb.uniq
    have ht1 := hb.tr1
    have hsk := ha.skeys
    unfold Reach at *
    step_cases <;> simp only [hpc, holds] at hh <;> (try cases hh) <;> simp only [hpc, know, trPc] at hk htn ht2 <;>
      simp <;> grind [aget_aset, aget_adel, aget_nil]

theorem know_congr (s s' : State) (pc : Pc) (e1 : s'.strong = s.strong) (e2 : s'.weak = s.weak) (h : know s pc) :
    know s' pc := by
  cases pc <;> simp_all [know] <;> grind

/-! ### outcomes only grow by what the thread was about to return -/
@[simp] theorem goto_outs_self (s : State) (t : Tid) (pc : Pc) : ((goto s t pc).th t).outs = (s.th t).outs := by
  simp [goto]
theorem finish_outs_self (s : State) (t : Tid) (o : Out) : ((finish s t o).th t).outs = (s.th t).outs ++ [o] := by
  unfold finish; split <;> simp
theorem releaseFinish_outs_self (s : State) (t : Tid) (o : Out) :
    ((releaseFinish s t o).th t).outs = (s.th t).outs ++ [o] ∨
    ((releaseFinish s t o).th t).outs = (s.th t).outs ++ [.exc .runtimeError] := by
  unfold releaseFinish; split
  · exact Or.inr (finish_outs_self _ _ _)
  · exact Or.inl (finish_outs_self { s with lock := none } t o)
theorem afterCC_outs_self (s : State) (t : Tid) (k : K) :
    ((afterCC s t k).th t).outs = (s.th t).outs ∨ ((afterCC s t k).th t).outs = (s.th t).outs ++ [.unit] := by
  cases k <;> simp [afterCC, finish_outs_self]
@[simp] theorem afterCaches_outs_self (s : State) (t : Tid) (k : K) :
    ((afterCaches s t k).th t).outs = (s.th t).outs := by
  cases k <;> simp [afterCaches]

theorem outs_effect (s s' : State) (t : Tid) (hs : step s t = some s') (i : Id) (o : Obj)
    (h : Out.obj i o ∈ (s'.th t).outs) :
    Out.obj i o ∈ (s.th t).outs ∨ ((s.th t).pc = .probe i ∧ aget s.strong i = some o) ∨
      livePc (s.th t).pc = some (i, o) := by
  step_cases <;> simp only [hpc, livePc] <;>
    (try (rcases releaseFinish_outs_self _ t _ with e | e <;> rw [e] at h)) <;>
    (try (rcases afterCC_outs_self _ t _ with e | e <;> rw [e] at h)) <;>
    (try rw [finish_outs_self] at h) <;>
    simp_all <;> grind

theorem know_cuWeakNext (s : State) (k : K) (l : List Id) : know s (cuWeakNext k l) := by
  cases l <;> simp [cuWeakNext, know]
theorem know_cuStrongNext (s : State) (k : K) (l : List Id) : know s (cuStrongNext k l) := by
  cases l <;> simp [cuStrongNext, know]

/-! ### preservation of the Layer B clauses by the acting thread's step -/
theorem binv_uniq (s s' : State) (t : Tid) (ha : AInv s) (hb : BInv s) (hn : CrOK s t)
    (hs : step s t = some s') : ∀ i o p, aget s'.strong i = some o → aget s'.weak i = some p → o = p := by
  cases hh : holds (s.th t).pc
  · obtain ⟨e2, _, _, e1⟩ := nonholder_effect2 s s' t hs hh
    rw [e2]
    rcases e1 with e1 | ⟨i', o', hp, e1⟩ <;> rw [e1]
    · exact hb.uniq
    · have := (hn.1 i' o' hp).2.1
      have hu := hb.uniq
      grind [aget_aset]
  · have hl := (ha.holder t).1 hh
    have hk := hb.know t
    have htn := transit_none s t ha hb hl
    have ht2 := hb.tr2 t
    have hu := hb.uniq
    have ht1 := hb.tr1
    step_cases <;> simp only [hpc, holds] at hh <;> (try cases hh) <;> simp only [hpc, know, trPc] at hk htn ht2 <;>
      simp <;> grind [aget_aset, aget_adel, aget_nil]

theorem binv_know_self (s s' : State) (t : Tid) (ha : AInv s) (hb : BInv s)
    (hs : step s t = some s') : know s' (s'.th t).pc := by
  have hk := hb.know t
  have hu := hb.uniq
  have hga := getElem_aget s.strong ha.skeys
  have hge := aget_getElem s.strong
  step_cases <;> simp only [hpc, know] at hk <;>
    first
    | exact know_nonholds _ _ (finish_holds _ _ _)
    | exact know_nonholds _ _ (releaseFinish_holds _ _ _)
    | exact know_nonholds _ _ (afterCC_holds _ _ _)
    | exact know_nonholds _ _ (afterCaches_holds _ _ _)
    | (simp only [goto_pc_self]; exact know_cuWeakNext _ _ _)
    | (simp only [goto_pc_self]; exact know_cuStrongNext _ _ _)
    | (simp only [goto_pc_self, know, goto_strong, goto_weak] <;> grind [aget_aset, aget_adel, aget_nil])

theorem livePc_cuWeakNext (k : K) (l : List Id) : livePc (cuWeakNext k l) = none := by cases l <;> rfl
theorem livePc_cuStrongNext (k : K) (l : List Id) : livePc (cuStrongNext k l) = none := by cases l <;> rfl
theorem trPc_cuWeakNext (k : K) (l : List Id) : trPc (cuWeakNext k l) = none := by cases l <;> rfl
theorem trPc_cuStrongNext (k : K) (l : List Id) : trPc (cuStrongNext k l) = none := by cases l <;> rfl

theorem binv_live_self (s s' : State) (t : Tid) (hb : BInv s)
    (hs : step s t = some s') (i : Id) (o : Obj) (h : livePc (s'.th t).pc = some (i, o)) : Reach s' i o := by
  have hk := hb.know t
  unfold Reach
  step_cases <;>
    simp only [goto_pc_self, livePc_cuWeakNext, livePc_cuStrongNext, livePc_finish, livePc_releaseFinish,
      livePc_afterCC, livePc_afterCaches] at h <;>
    simp_all [livePc, aget_aset]

theorem binv_tr2_self (s s' : State) (t : Tid)
    (hs : step s t = some s') (i : Id) (o : Obj) (h : trPc (s'.th t).pc = some (i, o)) :
    s'.transit = some (i, o) := by
  have hh := trPc_holds _ _ h
  step_cases <;>
    simp only [finish_holds, releaseFinish_holds, afterCC_holds, afterCaches_holds, goto_pc_self,
      Bool.false_eq_true] at hh <;>
    simp only [goto_pc_self, trPc_cuWeakNext, trPc_cuStrongNext] at h <;>
    simp_all [trPc]

theorem opt_none_or (m w : AMap) (hu : ∀ i o p, aget m i = some o → aget w i = some p → o = p) (i : Id) (o : Obj)
    (h : aget m i = some o) : aget w i = none ∨ aget w i = some o := by
  cases hw : aget w i with
  | none => exact Or.inl rfl
  | some p => rw [hu i o p h hw]; exact Or.inr rfl

theorem binv_tr1 (s s' : State) (t : Tid) (ha : AInv s) (hb : BInv s) (hn : CrOK s t)
    (hs : step s t = some s') (i : Id) (o : Obj) (htr : s'.transit = some (i, o)) :
    aget s'.strong i = none ∧ (aget s'.weak i = none ∨ aget s'.weak i = some o) ∧
      ∃ t', trPc (s'.th t').pc = some (i, o) := by
  cases hh : holds (s.th t).pc
  · obtain ⟨e2, _, e4, e1⟩ := nonholder_effect2 s s' t hs hh
    rw [e4] at htr
    obtain ⟨h1, h2, t', h3⟩ := hb.tr1 i o htr
    rw [e2]
    have h1' : aget s'.strong i = none := by
      rcases e1 with e1 | ⟨i', o', hp, e1⟩ <;> rw [e1]
      · exact h1
      · have := (hn.1 i' o' hp).2.2.1
        grind [aget_aset]
    refine ⟨h1', h2, t', ?_⟩
    have : t' ≠ t := by
      intro e; subst e
      have := trPc_holds _ _ h3
      simp_all
    rw [step_th_ne s s' t t' hs this]; exact h3
  · have hl := (ha.holder t).1 hh
    have hk := hb.know t
    have htn := transit_none s t ha hb hl
    have hu := hb.uniq
    step_cases <;> simp only [hpc, holds] at hh <;> (try cases hh) <;> simp only [hpc, know, trPc] at hk htn <;>
      simp at htr <;> (try (simp_all; done)) <;>
      (obtain ⟨rfl, rfl⟩ := htr) <;>
      refine ⟨?_, ?_, t, ?_⟩ <;> simp [trPc, aget_adel] <;>
      first | grind | exact opt_none_or _ _ hu _ _ hk

theorem binv_step (s s' : State) (t : Tid) (ha : AInv s) (hb : BInv s) (hn : CrOK s t)
    (hs : step s t = some s') : BInv s' := by
  have ht : ∀ u, holds (s.th u).pc = true → u ≠ t → holds (s.th t).pc = false := by
    intro u hu hne
    cases h : holds (s.th t).pc
    · rfl
    · have a := (ha.holder u).1 hu; have b := (ha.holder t).1 h; simp_all
  refine ⟨binv_uniq s s' t ha hb hn hs, binv_tr1 s s' t ha hb hn hs, ?_, ?_, ?_, ?_⟩
  · intro u i o h
    by_cases hu : u = t
    · subst hu; exact binv_tr2_self s s' u hs i o h
    · rw [step_th_ne s s' t u hs hu] at h
      obtain ⟨_, _, e4, _⟩ := nonholder_effect2 s s' t hs (ht u (trPc_holds _ _ h) hu)
      rw [e4]; exact hb.tr2 u i o h
  · intro u
    by_cases hu : u = t
    · subst hu; exact binv_know_self s s' u ha hb hs
    · rw [step_th_ne s s' t u hs hu]
      cases hh : holds (s.th u).pc
      · exact know_nonholds _ _ hh
      · obtain ⟨e2, _, _, e1⟩ := nonholder_effect2 s s' t hs (ht u hh hu)
        rcases e1 with e1 | ⟨i', o', hp, e1⟩
        · exact know_congr s s' _ e1 e2 (hb.know u)
        · obtain ⟨h0, _, _, hg, he⟩ := hn.1 i' o' hp
          exact know_aset s s' _ i' o' e1 e2 h0 (hg u) (he u) (hb.know u)
  · intro u i o h
    by_cases hu : u = t
    · subst hu; exact binv_live_self s s' u hb hs i o h
    · rw [step_th_ne s s' t u hs hu] at h
      exact reach_step s s' t ha hb hn hs i o (hb.live u i o h)
  · intro u i o h
    by_cases hu : u = t
    · subst hu
      rcases outs_effect s s' u hs i o h with h | ⟨hp, hg⟩ | h
      · exact reach_step s s' u ha hb hn hs i o (hb.outs u i o h)
      · exact reach_step s s' u ha hb hn hs i o (Or.inl hg)
      · exact reach_step s s' u ha hb hn hs i o (hb.live u i o h)
    · rw [step_th_ne s s' t u hs hu] at h
      exact reach_step s s' t ha hb hn hs i o (hb.outs u i o h)

/-- all three layers along a schedule -/
theorem inv_run (s : State) (sched : List Tid) (ha : AInv s) (hb : BInv s) (hn : NoCreate s) :
    AInv (run s sched) ∧ BInv (run s sched) ∧ NoCreate (run s sched) := by
  induction sched generalizing s with
  | nil => exact ⟨ha, hb, hn⟩
  | cons t ts ih =>
    unfold run
    split
    · rename_i s' hs
      exact ih s' (ainv_step s s' t ha hs) (binv_step s s' t ha hb (crok_of_nocreate s t hn) hs)
        (nocreate_step s s' t hn hs)
    · exact ih s ha hb hn

theorem livePc_startTh (c : Bool) (p : List Op) : livePc (startTh c p).pc = none := by
  cases p
  · rfl
  · simp only [startTh]; exact livePc_entry _ _

theorem trPc_startTh (c : Bool) (p : List Op) : trPc (startTh c p).pc = none := by
  cases h : trPc (startTh c p).pc with
  | none => rfl
  | some x => have := trPc_holds _ _ h; simp [holds_startTh] at this

theorem outs_startTh (c : Bool) (p : List Op) : (startTh c p).outs = [] := by
  cases p <;> rfl

theorem binv_init (caches : Bool) (strong weak : AMap) (db : List Id) (fresh freq frac cc off : Nat)
    (progs : Tid → List Op)
    (hu : ∀ i o p, aget strong i = some o → aget weak i = some p → o = p) :
    BInv (mkInit caches strong weak db fresh freq frac cc off progs) := by
  refine ⟨hu, ?_, ?_, ?_, ?_, ?_⟩
  · intro i o h; simp [mkInit] at h
  · intro t i o h
    have : trPc (startTh caches (progs t)).pc = some (i, o) := h
    simp [trPc_startTh] at this
  · intro t; exact know_nonholds _ _ (holds_startTh caches (progs t))
  · intro t i o h
    have : livePc (startTh caches (progs t)).pc = some (i, o) := h
    simp [livePc_startTh] at this
  · intro t i o h
    have : Out.obj i o ∈ (startTh caches (progs t)).outs := h
    simp [outs_startTh] at this

theorem pcCreate_startTh (c : Bool) (p : List Op) (h : ∀ op ∈ p, isCreate op = false) :
    thNoCreate (startTh c p) := by
  cases p with
  | nil => simp [startTh, thNoCreate, pcCreate]
  | cons op rest =>
    simp only [startTh, thNoCreate]
    exact ⟨pcCreate_entry _ _ (h op (by simp)), fun op' ho => h op' (by simp [ho])⟩

theorem nocreate_init (caches : Bool) (strong weak : AMap) (db : List Id) (fresh freq frac cc off : Nat)
    (progs : Tid → List Op) (h : ∀ t, ∀ op ∈ progs t, isCreate op = false) :
    NoCreate (mkInit caches strong weak db fresh freq frac cc off progs) :=
  fun t => pcCreate_startTh caches (progs t) (h t)

/-! ### no exception but NotFound -/
def pcErr : Pc → Bool
  | .exRelErr | .cuRelErr | .eaRelErr => true
  | _ => false

def EInv (s : State) : Prop := ∀ t, pcErr (s.th t).pc = false ∧ ∀ e, Out.exc e ∉ (s.th t).outs

theorem pcErr_nonholds (pc : Pc) (h : holds pc = false) : pcErr pc = false := by
  cases pc <;> simp_all [holds, pcErr]
theorem pcErr_cuWeakNext (k : K) (l : List Id) : pcErr (cuWeakNext k l) = false := by cases l <;> rfl
theorem pcErr_cuStrongNext (k : K) (l : List Id) : pcErr (cuStrongNext k l) = false := by cases l <;> rfl

theorem einv_step (s s' : State) (t : Tid) (ha : AInv s) (hb : BInv s) (hn : CrOK s t) (he : EInv s)
    (hs : step s t = some s') : EInv s' := by
  intro u
  by_cases hu : u = t
  · subst hu
    have h1t := ha.holder u
    have hS := (ha.needS u).2
    have hW := ha.needW u
    have hk := hb.know u
    have hc := hn.2
    obtain ⟨he1, he2⟩ := he u
    step_cases <;> simp only [hpc, holds, needS, needW, know, pcErr] at h1t hS hW hk hc he1 <;>
      (try simp only [true_iff, false_iff, Bool.false_eq_true] at h1t) <;>
      (try simp only [releaseFinish, h1t]) <;>
      simp only [goto_pc_self, goto_outs_self, finish_outs_self, afterCaches_outs_self,
        pcErr_nonholds _ (finish_holds _ _ _), pcErr_nonholds _ (afterCC_holds _ _ _),
        pcErr_nonholds _ (afterCaches_holds _ _ _), pcErr_cuWeakNext, pcErr_cuStrongNext] <;>
      (try (rcases afterCC_outs_self _ u _ with e | e <;> rw [e])) <;>
      simp_all [pcErr]
  · rw [step_th_ne s s' t u hs hu]; exact he u

theorem einv_init (caches : Bool) (strong weak : AMap) (db : List Id) (fresh freq frac cc off : Nat)
    (progs : Tid → List Op) : EInv (mkInit caches strong weak db fresh freq frac cc off progs) := by
  intro t
  refine ⟨pcErr_nonholds _ (holds_startTh caches (progs t)), ?_⟩
  intro e h
  have : Out.exc e ∈ (startTh caches (progs t)).outs := h
  simp [outs_startTh] at this

theorem inv_run_e (s : State) (sched : List Tid) (ha : AInv s) (hb : BInv s) (hn : NoCreate s) (he : EInv s) :
    EInv (run s sched) := by
  induction sched generalizing s with
  | nil => exact he
  | cons t ts ih =>
    unfold run
    split
    · rename_i s' hs
      exact ih s' (ainv_step s s' t ha hs) (binv_step s s' t ha hb (crok_of_nocreate s t hn) hs)
        (nocreate_step s s' t hn hs) (einv_step s s' t ha hb (crok_of_nocreate s t hn) he hs)
    · exact ih s ha hb hn he

theorem reach_run (s : State) (sched : List Tid) (ha : AInv s) (hb : BInv s) (hn : NoCreate s)
    (i : Id) (o : Obj) (hr : Reach s i o) : Reach (run s sched) i o := by
  induction sched generalizing s with
  | nil => exact hr
  | cons t ts ih =>
    unfold run
    split
    · rename_i s' hs
      exact ih s' (ainv_step s s' t ha hs) (binv_step s s' t ha hb (crok_of_nocreate s t hn) hs)
        (nocreate_step s s' t hn hs) (reach_step s s' t ha hb (crok_of_nocreate s t hn) hs i o hr)
    · exact ih s ha hb hn hr

end SqlObjVerif.Conc
