import SqlObjVerif.Lemmas.Conc
/-! Layer B for the Conc model (C09): the maps hold one object per id and every returned object stays
    reachable — for programs in which no thread runs `create` (the lock-free `created`). -/
namespace SqlObjVerif.Conc

@[simp] theorem aget_nil (i : Id) : aget [] i = none := rfl

/-! ## liveness of weakly referenced objects -/
/-- a thread or the environment references the object -/
def Held (s : State) (o : Obj) : Prop := o ∈ s.refs ∨ o ∈ s.pins ∨ o ∈ ovals s.olds

theorem aliveIn_iff (refs pins : List Obj) (m : AMap) (o : Obj) :
    aliveIn refs pins m o = true ↔ o ∈ refs ∨ o ∈ pins ∨ o ∈ avals m := by
  simp [aliveIn, or_assoc]

theorem alive_iff (s : State) (o : Obj) :
    alive s o = true ↔ o ∈ s.refs ∨ (o ∈ s.pins ∨ o ∈ ovals s.olds) ∨ o ∈ avals s.strong := by
  unfold alive; rw [aliveIn_iff]; simp [List.mem_append]

theorem mem_avals_of_aget (m : AMap) (i : Id) (o : Obj) (h : aget m i = some o) : o ∈ avals m := by
  induction m with
  | nil => simp at h
  | cons p m ih =>
    obtain ⟨k, v⟩ := p
    simp only [aget] at h
    split at h
    · simp at h; simp [avals, h]
    · have := ih h; simp only [avals, List.map_cons, List.mem_cons] at this ⊢; exact Or.inr this

theorem mem_avals_aset (m : AMap) (i : Id) (o v : Obj) (h : v ∈ avals (aset m i o)) : v = o ∨ v ∈ avals m := by
  induction m with
  | nil => simp [aset, avals] at h; exact Or.inl h
  | cons p m ih =>
    obtain ⟨k, w⟩ := p
    simp only [aset] at h
    split at h
    · simp only [avals, List.map_cons, List.mem_cons] at h ⊢
      rcases h with h | h
      · exact Or.inl h
      · exact Or.inr (Or.inr h)
    · simp only [avals, List.map_cons, List.mem_cons] at h ⊢ ih
      rcases h with h | h
      · exact Or.inr (Or.inl h)
      · rcases ih h with h | h
        · exact Or.inl h
        · exact Or.inr (Or.inr h)

theorem mem_avals_adel (m : AMap) (i : Id) (v : Obj) (h : v ∈ avals (adel m i)) : v ∈ avals m := by
  induction m with
  | nil => simp [adel, avals] at h
  | cons p m ih =>
    obtain ⟨k, w⟩ := p
    simp only [adel] at h
    split at h
    · simp only [avals, List.map_cons, List.mem_cons] at ⊢ ih; exact Or.inr (ih h)
    · simp only [avals, List.map_cons, List.mem_cons] at h ⊢ ih
      rcases h with h | h
      · exact Or.inl h
      · exact Or.inr (ih h)

theorem mem_avals_aset_self (m : AMap) (i : Id) (o : Obj) : o ∈ avals (aset m i o) :=
  mem_avals_of_aget _ i o (by rw [aget_aset]; simp)

/-! ### abandoned dicts -/
/-- the abandoned dicts that still have aliases -/
def odicts (olds : List (Nat × AMap × Nat)) : List AMap := olds.map fun e => e.2.1

theorem mem_ovals (olds : List (Nat × AMap × Nat)) (o : Obj) : o ∈ ovals olds ↔ ∃ m ∈ odicts olds, o ∈ avals m := by
  induction olds with
  | nil => simp [ovals, odicts]
  | cons e r ih =>
    have : ovals (e :: r) = avals e.2.1 ++ ovals r := by simp [ovals]
    rw [this, List.mem_append, ih]
    simp only [odicts, List.map_cons, List.mem_cons]
    constructor
    · rintro (h | ⟨m, hm, ho⟩)
      · exact ⟨_, Or.inl rfl, h⟩
      · exact ⟨m, Or.inr hm, ho⟩
    · rintro ⟨m, hm | hm, ho⟩
      · exact Or.inl (hm ▸ ho)
      · exact Or.inr ⟨m, hm, ho⟩

theorem mem_odicts_orelease (olds : List (Nat × AMap × Nat)) (g : Nat) (m : AMap)
    (h : m ∈ odicts (orelease olds g)) : m ∈ odicts olds := by
  induction olds with
  | nil => simpa [orelease] using h
  | cons e r ih =>
    obtain ⟨g', m', c⟩ := e
    simp only [orelease] at h
    split at h
    · split at h
      · simp only [odicts, List.map_cons, List.mem_cons] at h ⊢; exact Or.inr h
      · simpa [odicts] using h
    · simp only [odicts, List.map_cons, List.mem_cons] at h ⊢ ih
      rcases h with h | h
      · exact Or.inl h
      · exact Or.inr (ih h)

theorem mem_odicts_of_oget (olds : List (Nat × AMap × Nat)) (g : Nat) (m : AMap) (h : oget olds g = some m) :
    m ∈ odicts olds := by
  induction olds with
  | nil => simp [oget] at h
  | cons e r ih =>
    obtain ⟨g', m', c⟩ := e
    simp only [oget] at h
    simp only [odicts, List.map_cons, List.mem_cons] at ⊢ ih
    split at h
    · simp at h; exact Or.inl h.symm
    · exact Or.inr (ih h)

theorem mem_ovals_orelease (olds : List (Nat × AMap × Nat)) (g : Nat) (o : Obj) (h : o ∈ ovals (orelease olds g)) :
    o ∈ ovals olds := by
  rw [mem_ovals] at h ⊢
  obtain ⟨m, hm, ho⟩ := h
  exact ⟨m, mem_odicts_orelease _ _ _ hm, ho⟩

theorem mem_ovals_of_oget (olds : List (Nat × AMap × Nat)) (g : Nat) (m : AMap) (i : Id) (o : Obj)
    (h : oget olds g = some m) (hi : aget m i = some o) : o ∈ ovals olds := by
  rw [mem_ovals]; exact ⟨m, mem_odicts_of_oget _ _ _ h, mem_avals_of_aget _ _ _ hi⟩

theorem odicts_append (a b : List (Nat × AMap × Nat)) : odicts (a ++ b) = odicts a ++ odicts b := by
  simp [odicts]



/-- the thread is inside a `create`, before or after its lock-free `cache[id] = obj` -/
def pcCreate : Pc → Bool
  | .insert _ | .crSetL _ _ | .crSet _ _ _ | .crSelect _ _ => true
  | .csGet k | .csSet k | .ccTest k | .ccRead k | .ccWrite k _ | .ccReset k | .cuAcq k | .cuWeakKeys k
  | .cuWeakChk k _ | .cuStrongKeys k | .cuStrongGet k _ _ | .cuStrongDel k _ _ _ | .cuWeakSet k _ _ _ | .cuRel k
  | .cuWeakPop k _ _ _ =>
    match k with
    | .create _ _ => true
    | _ => false
  | _ => false

def isCreate : Op → Bool
  | .create _ => true
  | _ => false

/-- no thread is creating or will create -/
def NoCreate (s : State) : Prop :=
  ∀ t, pcCreate (s.th t).pc = false ∧ ∀ op ∈ (s.th t).prog, isCreate op = false

/-- object `o` is reachable for row `i` through the cache, or was removed by `expire` -/
def Reach (s : State) (i : Id) (o : Obj) : Prop :=
  aget s.strong i = some o ∨ aget s.weak i = some o ∨ o ∈ s.stale ∨ s.transit = some (i, o)

/-- the entry the lock holder has taken out of one map and not yet put into the other -/
def trPc : Pc → Option (Id × Obj)
  | .strongSet i o => some (i, o)
  | .cuWeakSet _ i o _ => some (i, o)
  | _ => none

/-- the object a thread is about to return -/
def livePc : Pc → Option (Id × Obj)
  | .relRel i o | .relSet i o | .finRel i o | .crSelect i o => some (i, o)
  | _ => none

/-- the row id a lock holder has probed and relies on being absent from `cache` -/
def gid : Pc → Option Id
  | .weakGet i | .weakDel i _ | .weakDelDead i _ | .select i | .finRelNF i | .put i _ => some i
  | _ => none

/-- the thread is inside the copy loop of `expireAll` (relies on `len(cache)` staying put) -/
def pcEAk : Pc → Bool
  | .eaNext _ _ | .eaSetWeak _ _ _ _ | .eaSwap => true
  | _ => false

/-- what makes the lock-free steps of thread `t` harmless: its `cache[id] = obj` (of `created`) hits an id that
    is in neither map, that no lock holder has just probed, while nobody iterates `cache`; its INSERT is of a new id -/
def CrOK (s : State) (t : Tid) : Prop :=
  (∀ i o g, (s.th t).pc = .crSet i o g →
    aget s.strong i = none ∧ aget s.weak i = none ∧ (∀ o', s.transit ≠ some (i, o')) ∧
    (∀ u, gid (s.th u).pc ≠ some i) ∧ (∀ u, pcEAk (s.th u).pc = false) ∧ s.dc = true ∧ g = s.gen) ∧
  (∀ i, (s.th t).pc = .insert i → i ∉ s.db)

/-- what the lock holder has learnt about the maps and still relies on -/
def know (s : State) : Pc → Prop
  | .weakGet i => aget s.strong i = none
  | .weakDel i o => aget s.strong i = none ∧ aget s.weak i = some o
  | .weakDelDead i o => aget s.strong i = none ∧ aget s.weak i = some o ∧ alive s o = false
  | .cuWeakPop _ key o _ => aget s.weak key = some o ∧ alive s o = false
  | .select i | .finRelNF i | .put i _ => aget s.strong i = none ∧ aget s.weak i = none
  | .cuStrongDel _ i o _ => aget s.strong i = some o
  | .eaNext pos used => s.strong.length = used ∧
      ∀ (j : Nat) k v, j < pos → s.strong[j]? = some (k, v) → aget s.weak k = some v
  | .eaSetWeak k v pos used => s.strong.length = used ∧ aget s.strong k = some v ∧
      (∃ j : Nat, j + 1 = pos ∧ s.strong[j]? = some (k, v)) ∧
      ∀ (j : Nat) k' v', j + 1 < pos → s.strong[j]? = some (k', v') → aget s.weak k' = some v'
  | .eaSwap => ∀ k v, aget s.strong k = some v → aget s.weak k = some v
  | _ => True

/-- instances the thread holds a strong reference to at this pc (locals `val`, `obj`, `self`) -/
def pcRefs : Pc → List Obj
  | .relRel _ o | .weakDel _ o | .strongSet _ o | .relSet _ o | .put _ o | .finRel _ o | .crSetL _ o | .crSet _ o _
  | .crSelect _ o => [o]
  | .csGet k | .csSet k | .ccTest k | .ccRead k | .ccWrite k _ | .ccReset k | .cuAcq k | .cuWeakKeys k
  | .cuWeakChk k _ | .cuStrongKeys k | .cuStrongGet k _ _ | .cuStrongDel k _ _ _ | .cuWeakSet k _ _ _ | .cuRel k
  | .cuWeakPop k _ _ _ =>
    match k with
    | .create _ o => [o]
    | _ => []
  | _ => []

structure BInv (s : State) : Prop where
  uniq : ∀ i o p, aget s.strong i = some o → aget s.weak i = some p → o = p
  tr1 : ∀ i o, s.transit = some (i, o) →
    aget s.strong i = none ∧ (aget s.weak i = none ∨ aget s.weak i = some o) ∧ ∃ t, trPc (s.th t).pc = some (i, o)
  tr2 : ∀ t i o, trPc (s.th t).pc = some (i, o) → s.transit = some (i, o)
  know : ∀ t, know s (s.th t).pc
  live : ∀ t i o, livePc (s.th t).pc = some (i, o) → Reach s i o
  outs : ∀ t i o, Out.obj i o ∈ (s.th t).outs → Reach s i o
  refsPc : ∀ t, ∀ o ∈ pcRefs (s.th t).pc, o ∈ s.refs
  refsOuts : ∀ t i o, Out.obj i o ∈ (s.th t).outs → o ∈ s.refs
  oreach : ∀ m ∈ odicts s.olds, ∀ i o, aget m i = some o → Reach s i o

theorem getElem_aget (m : AMap) (hk : (akeys m).Nodup) (j : Nat) (k : Id) (v : Obj) (h : m[j]? = some (k, v)) :
    aget m k = some v := by
  induction m generalizing j with
  | nil => simp at h
  | cons p m ih =>
    obtain ⟨k', v'⟩ := p
    simp only [akeys, List.map_cons, List.nodup_cons] at hk
    cases j with
    | zero => simp at h; simp [aget, h.1, h.2]
    | succ n =>
      simp at h
      have := ih hk.2 n h
      have hm : k ∈ akeys m := (mem_akeys m k).2 (by simp [this])
      simp only [aget]
      split
      · rename_i e; subst e; exact absurd hm hk.1
      · exact this

theorem aget_getElem (m : AMap) (k : Id) (v : Obj) (h : aget m k = some v) : ∃ j : Nat, m[j]? = some (k, v) := by
  induction m with
  | nil => simp [aget] at h
  | cons p m ih =>
    obtain ⟨k', v'⟩ := p
    simp only [aget] at h
    split at h
    · rename_i e; subst e; simp at h; subst h; exact ⟨0, by simp⟩
    · obtain ⟨j, hj⟩ := ih h; exact ⟨j + 1, by simpa using hj⟩

/-! ### `NoCreate` is preserved -/
def thNoCreate (th : Th) : Prop := pcCreate th.pc = false ∧ ∀ op ∈ th.prog, isCreate op = false

theorem pcCreate_entry (dc c : Bool) (op : Op) (h : isCreate op = false) : pcCreate (entry dc c op) = false := by
  cases op <;> cases c <;> cases dc <;> simp_all [entry, pcCreate, isCreate]

theorem goto_nc (s : State) (t : Tid) (pc : Pc) (h : thNoCreate (s.th t)) (hp : pcCreate pc = false) :
    thNoCreate ((goto s t pc).th t) := by
  simp only [goto, setTh_self]; exact ⟨hp, h.2⟩

theorem finish_nc (s : State) (t : Tid) (o : Out) (h : thNoCreate (s.th t)) : thNoCreate ((finish s t o).th t) := by
  unfold finish
  split
  · simp [thNoCreate, pcCreate]
  · rename_i op rest he
    simp only [setTh_self, thNoCreate]
    have h2 := h.2
    rw [he] at h2
    exact ⟨pcCreate_entry _ _ _ (h2 op (by simp)), fun op' ho => h2 op' (by simp [ho])⟩

theorem releaseFinish_nc (s : State) (t : Tid) (o : Out) (h : thNoCreate (s.th t)) :
    thNoCreate ((releaseFinish s t o).th t) := by
  unfold releaseFinish; split
  · exact finish_nc _ _ _ h
  · exact finish_nc { s with lock := none } t o h

theorem afterCC_nc (s : State) (t : Tid) (k : K) (h : thNoCreate (s.th t)) (hk : pcCreate (.ccTest k) = false) :
    thNoCreate ((afterCC s t k).th t) := by
  cases k <;> simp only [afterCC] <;>
    first | exact finish_nc _ _ _ h | exact goto_nc _ _ _ h rfl | simp [pcCreate] at hk

theorem afterCaches_nc (s : State) (t : Tid) (k : K) (h : thNoCreate (s.th t)) (hk : pcCreate (.ccTest k) = false) :
    thNoCreate ((afterCaches s t k).th t) := by
  cases k <;> simp only [afterCaches] <;> (try split) <;>
    first | exact goto_nc _ _ _ h rfl | simp [pcCreate] at hk

theorem pcCreate_cuWeakNext (k : K) (ks : List Id) : pcCreate (cuWeakNext k ks) = pcCreate (.ccTest k) := by
  cases ks <;> rfl
theorem pcCreate_cuStrongNext (k : K) (ks : List Id) : pcCreate (cuStrongNext k ks) = pcCreate (.ccTest k) := by
  cases ks <;> rfl

set_option linter.unnecessarySimpa false in
theorem nocreate_step (s s' : State) (t : Tid) (h : NoCreate s) (hs : step s t = some s') : NoCreate s' := by
  intro u
  by_cases hu : u = t
  · subst hu
    have h : thNoCreate (s.th u) := h u
    have h1 := h.1
    step_cases <;> simp only [hpc] at h1 <;>
      first
      | exact finish_nc _ _ _ h
      | exact releaseFinish_nc _ _ _ h
      | exact goto_nc _ _ _ h rfl
      | exact goto_nc _ _ _ h (by simpa [pcCreate] using h1)
      | exact goto_nc _ _ _ h (by rw [pcCreate_cuWeakNext]; simpa [pcCreate] using h1)
      | exact goto_nc _ _ _ h (by rw [pcCreate_cuStrongNext]; simpa [pcCreate] using h1)
      | exact afterCC_nc _ _ _ h (by simpa [pcCreate] using h1)
      | exact afterCaches_nc _ _ _ h (by simpa [pcCreate] using h1)
      | (simp [pcCreate] at h1; done)
  · rw [step_th_ne s s' t u hs hu]; exact h u

/-! ### effects on the maps -/
theorem nonholder_effect2 (s s' : State) (t : Tid) (hs : step s t = some s') (hh : holds (s.th t).pc = false) :
    s'.stale = s.stale ∧ s'.transit = s.transit ∧
    ((s'.weak = s.weak ∧
       (s'.strong = s.strong ∨ ∃ i o g, (s.th t).pc = .crSet i o g ∧ s'.strong = aset s.strong i o)) ∨
     (∃ i o g, (s.th t).pc = .crSet i o g ∧ s.dc = false)) := by
  step_cases <;> simp only [hpc, holds] at hh <;> simp_all <;> exact Or.inr ⟨_, _, ⟨rfl, rfl⟩, rfl⟩

/-- with `CrOK` (a lock-free `created` only runs with doCache = True) `expiredCache` is left alone -/
theorem nonholder_effect3 (s s' : State) (t : Tid) (hn : CrOK s t) (hs : step s t = some s')
    (hh : holds (s.th t).pc = false) :
    s'.weak = s.weak ∧ s'.stale = s.stale ∧ s'.transit = s.transit ∧
    (s'.strong = s.strong ∨ ∃ i o g, (s.th t).pc = .crSet i o g ∧ s'.strong = aset s.strong i o) := by
  obtain ⟨e3, e4, e⟩ := nonholder_effect2 s s' t hs hh
  rcases e with ⟨e2, e1⟩ | ⟨i, o, g, hp, hd⟩
  · exact ⟨e2, e3, e4, e1⟩
  · have := (hn.1 i o g hp).2.2.2.2.2.1; simp [hd] at this

/-- … to `refs` it only adds an instance that is alive, or a brand new one; and (with `CrOK`: a lock-free
    `created` never writes through a stale alias) the abandoned dicts only lose aliases -/
theorem nonholder_refs (s s' : State) (t : Tid) (hn : CrOK s t) (hs : step s t = some s')
    (hh : holds (s.th t).pc = false) :
    s'.pins = s.pins ∧ (∀ o, o ∈ s'.refs → o ∈ s.refs ∨ alive s o = true ∨ o = s.fresh) ∧
    (∀ o, o ∈ ovals s'.olds → o ∈ ovals s.olds) := by
  have hcr := hn.1
  have h1 := mem_ovals_orelease s.olds
  have h2 := mem_ovals_of_oget s.olds
  have h3 := mem_avals_of_aget
  have h4 := alive_iff s
  step_cases <;> simp only [hpc, holds] at hh hcr <;> simp <;> grind

theorem crok_of_nocreate (s : State) (t : Tid) (hn : NoCreate s) : CrOK s t := by
  have h := (hn t).1
  constructor
  · intro i o g hp; rw [hp] at h; simp [pcCreate] at h
  · intro i hp; rw [hp] at h; simp [pcCreate] at h

theorem trPc_holds (pc : Pc) (x : Id × Obj) (h : trPc pc = some x) : holds pc = true := by
  cases pc <;> simp_all [trPc, holds]

theorem livePc_entry (dc c : Bool) (op : Op) : livePc (entry dc c op) = none := by
  cases op <;> cases c <;> cases dc <;> rfl
theorem livePc_finish (s : State) (t : Tid) (o : Out) : livePc ((finish s t o).th t).pc = none := by
  unfold finish; split
  · simp only [setTh_self]; rfl
  · simp only [setTh_self]; exact livePc_entry _ _ _
theorem livePc_releaseFinish (s : State) (t : Tid) (o : Out) : livePc ((releaseFinish s t o).th t).pc = none := by
  unfold releaseFinish; split <;> exact livePc_finish _ _ _
theorem livePc_afterCC (s : State) (t : Tid) (k : K) : livePc ((afterCC s t k).th t).pc = none := by
  cases k <;> simp only [afterCC, goto_pc_self, livePc_finish] <;> rfl
theorem livePc_afterCaches (s : State) (t : Tid) (k : K) : livePc ((afterCaches s t k).th t).pc = none := by
  cases k <;> simp only [afterCaches] <;> (try split) <;> simp only [goto_pc_self] <;> rfl

/-- what a lock holder knows survives the lock-free steps of the other threads: `expiredCache` untouched,
    `cache` at most extended at an id nobody has probed (outside any iteration) by an instance its creator
    holds, `refs` extended only by an instance that is alive or brand new, abandoned dicts only shrinking -/
theorem know_stable (s s' : State) (pc : Pc) (hw : s'.weak = s.weak) (hp : s'.pins = s.pins)
    (hst : s'.strong = s.strong ∨ ∃ i o, s'.strong = aset s.strong i o ∧ aget s.strong i = none ∧
      gid pc ≠ some i ∧ pcEAk pc = false ∧ o ∈ s.refs)
    (hrefs : ∀ o, o ∈ s'.refs → o ∈ s.refs ∨ alive s o = true ∨ o = s.fresh)
    (holds' : ∀ o, o ∈ ovals s'.olds → o ∈ ovals s.olds)
    (hwb : ∀ o ∈ avals s.weak, o < s.fresh)
    (h : know s pc) : know s' pc := by
  have hal : ∀ (k : Id) (o : Obj), aget s.weak k = some o → alive s o = false → alive s' o = false := by
    intro k o hwk hd
    have hlt := hwb o (mem_avals_of_aget _ _ _ hwk)
    cases hx : alive s' o with
    | false => rfl
    | true =>
      exfalso
      have hd' : ¬ (o ∈ s.refs ∨ (o ∈ s.pins ∨ o ∈ ovals s.olds) ∨ o ∈ avals s.strong) := by
        intro h'; rw [← alive_iff] at h'; simp [hd] at h'
      rw [alive_iff, hp] at hx
      rcases hx with hx | (hx | hx) | hx
      · rcases hrefs o hx with h1 | h1 | h1
        · exact hd' (Or.inl h1)
        · simp [hd] at h1
        · rw [h1] at hlt; exact Nat.lt_irrefl _ hlt
      · exact hd' (Or.inr (Or.inl (Or.inl hx)))
      · exact hd' (Or.inr (Or.inl (Or.inr (holds' o hx))))
      · rcases hst with e | ⟨i, o', e, _, _, _, ho'⟩
        · rw [e] at hx; exact hd' (Or.inr (Or.inr hx))
        · rw [e] at hx
          rcases mem_avals_aset _ _ _ _ hx with h1 | h1
          · exact hd' (Or.inl (h1 ▸ ho'))
          · exact hd' (Or.inr (Or.inr h1))
  rcases hst with e | ⟨i, o', e, h0, hg, he, _⟩
  · cases pc <;> simp only [know, hw, e] at h ⊢ <;>
      first
      | exact h
      | exact ⟨h.1, h.2.1, hal _ _ h.2.1 h.2.2⟩
      | exact ⟨h.1, hal _ _ h.1 h.2⟩
  · cases pc <;> simp only [know, hw, e, gid, pcEAk] at h hg he ⊢ <;>
      first
      | exact h
      | (simp_all [aget_aset]; done)
      | (have := hal _ _ h.2.1 h.2.2; simp_all [aget_aset]; grind)
      | (have := hal _ _ h.1 h.2; simp_all)
      | (simp_all [aget_aset]; grind)

theorem know_nonholds (s : State) (pc : Pc) (h : holds pc = false) : know s pc := by
  cases pc <;> simp_all [know, holds]

/-- the lock holder is not between the two halves of a move ⇒ nothing is in transit -/
theorem transit_none (s : State) (t : Tid) (ha : AInv s) (hb : BInv s) (hl : s.lock = some t)
    (hp : trPc (s.th t).pc = none) : s.transit = none := by
  cases h : s.transit with
  | none => rfl
  | some x =>
    obtain ⟨i, o⟩ := x
    obtain ⟨_, _, t', ht'⟩ := hb.tr1 i o h
    have := (ha.holder t').1 (trPc_holds _ _ ht')
    simp_all

theorem not_alive (s : State) (o : Obj) (h : alive s o = false) (hh : Held s o) : False := by
  have : alive s o = true := by
    rw [alive_iff]; rcases hh with h1 | h1 | h1
    · exact Or.inl h1
    · exact Or.inr (Or.inl (Or.inl h1))
    · exact Or.inr (Or.inl (Or.inr h1))
  simp [h] at this

theorem not_aliveIn (s : State) (m : AMap) (o : Obj) (h : ¬ aliveIn s.refs (s.pins ++ ovals s.olds) m o = true)
    (hh : Held s o) : False := by
  apply h; rw [aliveIn_iff]; rcases hh with h1 | h1 | h1
  · exact Or.inl h1
  · exact Or.inr (Or.inl (List.mem_append.2 (Or.inl h1)))
  · exact Or.inr (Or.inl (List.mem_append.2 (Or.inr h1)))

/-- an instance somebody references stays reachable (or expired, or in transit) across every action -/
theorem reach_step (s s' : State) (t : Tid) (ha : AInv s) (hb : BInv s) (hn : CrOK s t)
    (hs : step s t = some s') (i : Id) (o : Obj) (hr : Reach s i o) (hal : Held s o) : Reach s' i o := by
  cases hh : holds (s.th t).pc
  · obtain ⟨e2, e3, e4, e1⟩ := nonholder_effect3 s s' t hn hs hh
    unfold Reach at *; rw [e2, e3, e4]
    rcases e1 with e1 | ⟨i', o', g', hp, e1⟩ <;> rw [e1]
    · exact hr
    · have := (hn.1 i' o' g' hp).1
      grind [aget_aset]
  · have hl := (ha.holder t).1 hh
    have hk := hb.know t
    have htn := transit_none s t ha hb hl
    have ht2 := hb.tr2 t
    have hu := hb.uniq
    have ht1 := hb.tr1
    have hsk := ha.skeys
    have hna := fun h => not_alive s o h hal
    have hnb := fun m h => not_aliveIn s m o h hal
    unfold Reach at *
    step_cases <;> simp only [hpc, holds] at hh <;> (try cases hh) <;> simp only [hpc, know, trPc] at hk htn ht2 <;>
      simp <;> grind [aget_aset, aget_adel, aget_nil]

/-- references of threads and of the environment are never given up -/
theorem held_step (s s' : State) (t : Tid) (hs : step s t = some s') (o : Obj) (h : o ∈ s.refs ∨ o ∈ s.pins) :
    o ∈ s'.refs ∨ o ∈ s'.pins := by
  step_cases <;> simp <;> grind

/-! ### outcomes only grow by what the thread was about to return -/
@[simp] theorem goto_outs_self (s : State) (t : Tid) (pc : Pc) : ((goto s t pc).th t).outs = (s.th t).outs := by
  simp [goto]
theorem finish_outs_self (s : State) (t : Tid) (o : Out) : ((finish s t o).th t).outs = (s.th t).outs ++ [o] := by
  unfold finish; split <;> simp
theorem releaseFinish_outs_self (s : State) (t : Tid) (o : Out) :
    ((releaseFinish s t o).th t).outs = (s.th t).outs ++ [o] ∨
    ((releaseFinish s t o).th t).outs = (s.th t).outs ++ [.exc .runtimeError] := by
  unfold releaseFinish; split
  · exact Or.inr (finish_outs_self _ _ _)
  · exact Or.inl (finish_outs_self { s with lock := none } t o)
theorem afterCC_outs_self (s : State) (t : Tid) (k : K) :
    ((afterCC s t k).th t).outs = (s.th t).outs ∨ ((afterCC s t k).th t).outs = (s.th t).outs ++ [.unit] := by
  cases k <;> simp [afterCC, finish_outs_self]
@[simp] theorem afterCaches_outs_self (s : State) (t : Tid) (k : K) :
    ((afterCaches s t k).th t).outs = (s.th t).outs := by
  cases k <;> simp only [afterCaches] <;> (try split) <;> simp

theorem outs_effect (s s' : State) (t : Tid) (hs : step s t = some s') (i : Id) (o : Obj)
    (h : Out.obj i o ∈ (s'.th t).outs) :
    Out.obj i o ∈ (s.th t).outs ∨ ((s.th t).pc = .probe i s.gen ∧ aget s.strong i = some o) ∨
      livePc (s.th t).pc = some (i, o) ∨
      ((s.th t).pc = .nProbe i ∧ aget s.weak i = some o ∧ alive s o = true) ∨
      (∃ g m, (s.th t).pc = .probe i g ∧ g ≠ s.gen ∧ oget s.olds g = some m ∧ aget m i = some o) := by
  step_cases <;> simp only [hpc, livePc] <;>
    (try (rcases releaseFinish_outs_self _ t _ with e | e <;> rw [e] at h)) <;>
    (try (rcases afterCC_outs_self _ t _ with e | e <;> rw [e] at h)) <;>
    (try rw [finish_outs_self] at h) <;>
    simp_all <;> grind

theorem know_cuWeakNext (s : State) (k : K) (l : List Id) : know s (cuWeakNext k l) := by
  cases l <;> simp [cuWeakNext, know]
theorem know_cuStrongNext (s : State) (k : K) (l : List Id) : know s (cuStrongNext k l) := by
  cases l <;> simp [cuStrongNext, know]

/-! ### preservation of the Layer B clauses by the acting thread's step -/
theorem binv_uniq (s s' : State) (t : Tid) (ha : AInv s) (hb : BInv s) (hn : CrOK s t)
    (hs : step s t = some s') : ∀ i o p, aget s'.strong i = some o → aget s'.weak i = some p → o = p := by
  cases hh : holds (s.th t).pc
  · obtain ⟨e2, _, _, e1⟩ := nonholder_effect3 s s' t hn hs hh
    rw [e2]
    rcases e1 with e1 | ⟨i', o', g', hp, e1⟩ <;> rw [e1]
    · exact hb.uniq
    · have := (hn.1 i' o' g' hp).2.1
      have hu := hb.uniq
      grind [aget_aset]
  · have hl := (ha.holder t).1 hh
    have hk := hb.know t
    have htn := transit_none s t ha hb hl
    have ht2 := hb.tr2 t
    have hu := hb.uniq
    have ht1 := hb.tr1
    step_cases <;> simp only [hpc, holds] at hh <;> (try cases hh) <;> simp only [hpc, know, trPc] at hk htn ht2 <;>
      simp <;> grind [aget_aset, aget_adel, aget_nil]

/-! ### the two modes: with doCache = False `cache` stays empty -/
/-- pcs of the doCache = False path of `get` -/
def pcNc : Pc → Bool
  | .nProbe _ | .nAcq _ | .nRelook _ => true
  | _ => false

/-- pcs of the doCache = True path of `get` (the only ones that lead to a `cache[id] = val` not guarded by `dc`) -/
def pcDc : Pc → Bool
  | .probeL _ | .probe _ _ | .acq _ | .relook _ | .weakGet _ | .weakDel _ _ | .strongSet _ _ => true
  | .ccTest k | .ccRead k | .ccWrite k _ | .ccReset k | .cuAcq k | .cuWeakKeys k
  | .cuWeakChk k _ | .cuStrongKeys k | .cuStrongGet k _ _ | .cuStrongDel k _ _ _ | .cuWeakSet k _ _ _ | .cuRel k
  | .cuWeakPop k _ _ _ =>
    match k with
    | .get _ => true
    | _ => false
  | _ => false

structure MdInv (s : State) : Prop where
  nostrong : s.dc = false → s.strong = []
  dcpc : ∀ t, pcDc (s.th t).pc = true → s.dc = true
  ncpc : ∀ t, pcNc (s.th t).pc = true → s.dc = false

theorem pcDc_entry (dc c : Bool) (op : Op) (h : pcDc (entry dc c op) = true) : dc = true := by
  cases op <;> cases c <;> cases dc <;> simp_all [entry, pcDc]
theorem pcNc_entry (dc c : Bool) (op : Op) (h : pcNc (entry dc c op) = true) : dc = false := by
  cases op <;> cases c <;> cases dc <;> simp_all [entry, pcNc]
theorem pcDc_finish (s : State) (t : Tid) (o : Out) (h : pcDc ((finish s t o).th t).pc = true) : s.dc = true := by
  unfold finish at h; split at h
  · simp [pcDc] at h
  · simp only [setTh_self] at h; exact pcDc_entry _ _ _ h
theorem pcNc_finish (s : State) (t : Tid) (o : Out) (h : pcNc ((finish s t o).th t).pc = true) : s.dc = false := by
  unfold finish at h; split at h
  · simp [pcNc] at h
  · simp only [setTh_self] at h; exact pcNc_entry _ _ _ h
theorem pcDc_cuWeakNext (k : K) (l : List Id) : pcDc (cuWeakNext k l) = pcDc (.ccTest k) := by cases l <;> rfl
theorem pcDc_cuStrongNext (k : K) (l : List Id) : pcDc (cuStrongNext k l) = pcDc (.ccTest k) := by cases l <;> rfl
theorem pcNc_cuWeakNext (k : K) (l : List Id) : pcNc (cuWeakNext k l) = false := by cases l <;> rfl
theorem pcNc_cuStrongNext (k : K) (l : List Id) : pcNc (cuStrongNext k l) = false := by cases l <;> rfl

theorem dc_step (s s' : State) (t : Tid) (hs : step s t = some s') : s'.dc = s.dc := by
  step_cases <;> simp

theorem pcDc_afterCC (s : State) (t : Tid) (k : K) (h : pcDc ((afterCC s t k).th t).pc = true) :
    pcDc (.ccTest k) = true ∨ s.dc = true := by
  cases k <;> simp only [afterCC] at h <;>
    first
    | exact Or.inr (pcDc_finish _ _ _ h)
    | (simp only [goto_pc_self] at h; simp_all [pcDc])
theorem pcDc_afterCaches (s : State) (t : Tid) (k : K) (h : pcDc ((afterCaches s t k).th t).pc = true) :
    s.dc = true := by
  cases k <;> simp only [afterCaches] at h <;> (try split at h) <;> simp_all [pcDc]
theorem pcNc_afterCC (s : State) (t : Tid) (k : K) (h : pcNc ((afterCC s t k).th t).pc = true) : s.dc = false := by
  cases k <;> simp only [afterCC] at h <;>
    first
    | exact pcNc_finish _ _ _ h
    | (simp only [goto_pc_self] at h; simp_all [pcNc])
theorem pcNc_afterCaches (s : State) (t : Tid) (k : K) (h : pcNc ((afterCaches s t k).th t).pc = true) :
    s.dc = false := by
  cases k <;> simp only [afterCaches] at h <;> (try split at h) <;> simp_all [pcNc]
theorem pcDc_releaseFinish (s : State) (t : Tid) (o : Out) (h : pcDc ((releaseFinish s t o).th t).pc = true) :
    s.dc = true := by
  unfold releaseFinish at h; split at h
  · exact pcDc_finish _ _ _ h
  · exact pcDc_finish { s with lock := none } t o h
theorem pcNc_releaseFinish (s : State) (t : Tid) (o : Out) (h : pcNc ((releaseFinish s t o).th t).pc = true) :
    s.dc = false := by
  unfold releaseFinish at h; split at h
  · exact pcNc_finish _ _ _ h
  · exact pcNc_finish { s with lock := none } t o h

set_option maxHeartbeats 1600000 in
theorem mdinv_step (s s' : State) (t : Tid) (hm : MdInv s) (hs : step s t = some s') : MdInv s' := by
  have hd := dc_step s s' t hs
  have h1 := hm.nostrong
  have h2 := hm.dcpc t
  have h3 := hm.ncpc t
  refine ⟨?_, ?_, ?_⟩
  · rw [hd]
    step_cases <;> simp only [hpc, pcDc, pcNc] at h2 h3 <;> simp_all [adel]
  · intro u
    by_cases hu : u = t
    · subst hu
      rw [hd]
      intro h
      step_cases <;> simp only [hpc, pcDc, pcNc] at h2 h3 <;>
        first
        | (have h' := pcDc_finish _ _ _ h; simpa using h')
        | (have h' := pcDc_releaseFinish _ _ _ h; simpa using h')
        | (have h' := pcDc_afterCaches _ _ _ h; simpa using h')
        | (have h0 := pcDc_afterCC _ _ _ h
           rcases h0 with h' | h'
           · exact h2 (by simpa [pcDc] using h')
           · simpa using h')
        | ((try simp only [goto_pc_self, pcDc_cuWeakNext, pcDc_cuStrongNext] at h); simp_all [pcDc]; done)
    · rw [step_th_ne s s' t u hs hu, hd]; exact hm.dcpc u
  · intro u
    by_cases hu : u = t
    · subst hu
      rw [hd]
      intro h
      step_cases <;> simp only [hpc, pcDc, pcNc] at h2 h3 <;>
        first
        | (have h' := pcNc_finish _ _ _ h; simpa using h')
        | (have h' := pcNc_releaseFinish _ _ _ h; simpa using h')
        | (have h' := pcNc_afterCaches _ _ _ h; simpa using h')
        | (have h' := pcNc_afterCC _ _ _ h; simpa using h')
        | ((try simp only [goto_pc_self, pcNc_cuWeakNext, pcNc_cuStrongNext] at h); simp_all [pcNc]; done)
    · rw [step_th_ne s s' t u hs hu, hd]; exact hm.ncpc u

theorem binv_know_self (s s' : State) (t : Tid) (ha : AInv s) (hb : BInv s) (hm : MdInv s)
    (hs : step s t = some s') : know s' (s'.th t).pc := by
  have hns := hm.nostrong
  have hnc := hm.ncpc t
  have hk := hb.know t
  have hu := hb.uniq
  have hga := getElem_aget s.strong ha.skeys
  have hge := aget_getElem s.strong
  step_cases <;> simp only [hpc, know, pcNc] at hk hnc <;>
    first
    | exact know_nonholds _ _ (finish_holds _ _ _)
    | exact know_nonholds _ _ (releaseFinish_holds _ _ _)
    | exact know_nonholds _ _ (afterCC_holds _ _ _)
    | exact know_nonholds _ _ (afterCaches_holds _ _ _)
    | (simp only [goto_pc_self]; exact know_cuWeakNext _ _ _)
    | (simp only [goto_pc_self]; exact know_cuStrongNext _ _ _)
    | (simp only [goto_pc_self, know, alive, goto_strong, goto_weak, goto_refs, goto_pins, goto_olds] at hk ⊢ <;>
        grind [aget_aset, aget_adel, aget_nil, alive])

theorem livePc_cuWeakNext (k : K) (l : List Id) : livePc (cuWeakNext k l) = none := by cases l <;> rfl
theorem livePc_cuStrongNext (k : K) (l : List Id) : livePc (cuStrongNext k l) = none := by cases l <;> rfl
theorem trPc_cuWeakNext (k : K) (l : List Id) : trPc (cuWeakNext k l) = none := by cases l <;> rfl
theorem trPc_cuStrongNext (k : K) (l : List Id) : trPc (cuStrongNext k l) = none := by cases l <;> rfl

theorem binv_live_self (s s' : State) (t : Tid) (hb : BInv s) (hn : CrOK s t)
    (hs : step s t = some s') (i : Id) (o : Obj) (h : livePc (s'.th t).pc = some (i, o)) : Reach s' i o := by
  have hk := hb.know t
  have hcr := hn.1
  unfold Reach
  step_cases <;> simp only [hpc] at hcr <;>
    simp only [goto_pc_self, livePc_cuWeakNext, livePc_cuStrongNext, livePc_finish, livePc_releaseFinish,
      livePc_afterCC, livePc_afterCaches] at h <;>
    simp_all [livePc, aget_aset]

theorem binv_tr2_self (s s' : State) (t : Tid)
    (hs : step s t = some s') (i : Id) (o : Obj) (h : trPc (s'.th t).pc = some (i, o)) :
    s'.transit = some (i, o) := by
  have hh := trPc_holds _ _ h
  step_cases <;>
    simp only [finish_holds, releaseFinish_holds, afterCC_holds, afterCaches_holds, goto_pc_self,
      Bool.false_eq_true] at hh <;>
    simp only [goto_pc_self, trPc_cuWeakNext, trPc_cuStrongNext] at h <;>
    simp_all [trPc]

theorem opt_none_or (m w : AMap) (hu : ∀ i o p, aget m i = some o → aget w i = some p → o = p) (i : Id) (o : Obj)
    (h : aget m i = some o) : aget w i = none ∨ aget w i = some o := by
  cases hw : aget w i with
  | none => exact Or.inl rfl
  | some p => rw [hu i o p h hw]; exact Or.inr rfl

theorem binv_tr1 (s s' : State) (t : Tid) (ha : AInv s) (hb : BInv s) (hn : CrOK s t)
    (hs : step s t = some s') (i : Id) (o : Obj) (htr : s'.transit = some (i, o)) :
    aget s'.strong i = none ∧ (aget s'.weak i = none ∨ aget s'.weak i = some o) ∧
      ∃ t', trPc (s'.th t').pc = some (i, o) := by
  cases hh : holds (s.th t).pc
  · obtain ⟨e2, _, e4, e1⟩ := nonholder_effect3 s s' t hn hs hh
    rw [e4] at htr
    obtain ⟨h1, h2, t', h3⟩ := hb.tr1 i o htr
    rw [e2]
    have h1' : aget s'.strong i = none := by
      rcases e1 with e1 | ⟨i', o', g', hp, e1⟩ <;> rw [e1]
      · exact h1
      · have := (hn.1 i' o' g' hp).2.2.1
        grind [aget_aset]
    refine ⟨h1', h2, t', ?_⟩
    have : t' ≠ t := by
      intro e; subst e
      have := trPc_holds _ _ h3
      simp_all
    rw [step_th_ne s s' t t' hs this]; exact h3
  · have hl := (ha.holder t).1 hh
    have hk := hb.know t
    have htn := transit_none s t ha hb hl
    have hu := hb.uniq
    step_cases <;> simp only [hpc, holds] at hh <;> (try cases hh) <;> simp only [hpc, know, trPc] at hk htn <;>
      simp at htr <;> (try (simp_all; done)) <;>
      (obtain ⟨rfl, rfl⟩ := htr) <;>
      refine ⟨?_, ?_, t, ?_⟩ <;> simp [trPc, aget_adel] <;>
      first | grind | exact opt_none_or _ _ hu _ _ hk

/-! ### object identities are allocated from `fresh`: nothing in the cache is newer -/
def kObj : K → List Obj
  | .create _ o => [o]
  | _ => []

/-- the objects a pc carries that it will still write into a map -/
def pcObjs : Pc → List Obj
  | .weakDel _ o | .strongSet _ o | .put _ o | .crSetL _ o | .crSet _ o _ | .eaSetWeak _ o _ _ => [o]
  | .cuStrongDel k _ o _ | .cuWeakSet k _ o _ => o :: kObj k
  | .csGet k | .csSet k | .ccTest k | .ccRead k | .ccWrite k _ | .ccReset k | .cuAcq k | .cuWeakKeys k
  | .cuWeakChk k _ | .cuStrongKeys k | .cuStrongGet k _ _ | .cuRel k | .cuWeakPop k _ _ _ => kObj k
  | _ => []

structure FInv (s : State) : Prop where
  sb : ∀ o ∈ avals s.strong, o < s.fresh
  wb : ∀ o ∈ avals s.weak, o < s.fresh
  pb : ∀ t, ∀ o ∈ pcObjs (s.th t).pc, o < s.fresh

theorem fresh_mono (s s' : State) (t : Tid) (hs : step s t = some s') : s.fresh ≤ s'.fresh := by
  step_cases <;> simp

theorem pcObjs_entry (dc c : Bool) (op : Op) : pcObjs (entry dc c op) = [] := by
  cases op <;> cases c <;> cases dc <;> rfl
theorem pcObjs_finish (s : State) (t : Tid) (o : Out) : pcObjs ((finish s t o).th t).pc = [] := by
  unfold finish; split
  · simp only [setTh_self]; rfl
  · simp only [setTh_self]; exact pcObjs_entry _ _ _
theorem pcObjs_releaseFinish (s : State) (t : Tid) (o : Out) : pcObjs ((releaseFinish s t o).th t).pc = [] := by
  unfold releaseFinish; split <;> exact pcObjs_finish _ _ _
theorem pcObjs_afterCC (s : State) (t : Tid) (k : K) : pcObjs ((afterCC s t k).th t).pc = kObj k := by
  cases k <;> simp only [afterCC, goto_pc_self, pcObjs_finish] <;> rfl
theorem pcObjs_afterCaches (s : State) (t : Tid) (k : K) : pcObjs ((afterCaches s t k).th t).pc = kObj k := by
  cases k <;> simp only [afterCaches] <;> (try split) <;> simp only [goto_pc_self] <;> rfl
theorem pcObjs_cuWeakNext (k : K) (l : List Id) : pcObjs (cuWeakNext k l) = kObj k := by cases l <;> rfl
theorem pcObjs_cuStrongNext (k : K) (l : List Id) : pcObjs (cuStrongNext k l) = kObj k := by cases l <;> rfl

@[simp] theorem avals_nil : avals [] = [] := rfl

theorem getElem_mem_avals (m : AMap) (j : Nat) (k : Id) (v : Obj) (h : m[j]? = some (k, v)) : v ∈ avals m := by
  have := List.mem_of_getElem? h
  simp only [avals, List.mem_map]
  exact ⟨(k, v), this, rfl⟩

theorem finv_step (s s' : State) (t : Tid) (hf : FInv s) (hs : step s t = some s') : FInv s' := by
  have hm := fresh_mono s s' t hs
  have hsb := hf.sb
  have hwb := hf.wb
  have hpt := hf.pb t
  have hav1 := mem_avals_aset
  have hav2 := mem_avals_adel
  have hav3 := mem_avals_of_aget
  have hav4 := getElem_mem_avals s.strong
  refine ⟨?_, ?_, ?_⟩
  · step_cases <;> simp only [hpc, pcObjs] at hpt <;> (try simp at hpt) <;> simp <;> grind [kObj, avals_nil]
  · step_cases <;> simp only [hpc, pcObjs] at hpt <;> (try simp at hpt) <;> simp <;> grind [kObj, avals_nil]
  · intro u
    by_cases hu : u = t
    · subst hu
      step_cases <;> simp only [hpc, pcObjs] at hpt <;> (try simp at hpt) <;>
        simp only [goto_pc_self, pcObjs_finish, pcObjs_releaseFinish, pcObjs_afterCC, pcObjs_afterCaches,
          pcObjs_cuWeakNext, pcObjs_cuStrongNext] <;>
        (try simp only [pcObjs]) <;>
        simp <;> grind [kObj, avals_nil]
    · rw [step_th_ne s s' t u hs hu]
      intro o ho; exact Nat.lt_of_lt_of_le (hf.pb u o ho) hm

theorem livePc_pcRefs (pc : Pc) (i : Id) (o : Obj) (h : livePc pc = some (i, o)) : o ∈ pcRefs pc := by
  cases pc <;> simp_all [livePc, pcRefs]

theorem refs_mono (s s' : State) (t : Tid) (hs : step s t = some s') (o : Obj) (h : o ∈ s.refs) : o ∈ s'.refs := by
  step_cases <;> simp <;> simp [h]

theorem probe_refs (s s' : State) (t : Tid) (hs : step s t = some s') (i : Id) (o : Obj)
    (hp : (s.th t).pc = .probe i s.gen) (hg : aget s.strong i = some o) :
    o ∈ s'.refs ∧ s'.strong = s.strong ∧ s'.weak = s.weak ∧ s'.stale = s.stale ∧ s'.transit = s.transit := by
  simp only [step, hp, hg, if_true] at hs
  injection hs with hs; subst hs; simp

theorem stale_probe_step (s s' : State) (t : Tid) (hs : step s t = some s') (i : Id) (o : Obj) (g : Nat) (m : AMap)
    (hp : (s.th t).pc = .probe i g) (hne : g ≠ s.gen) (hm : oget s.olds g = some m) (hg : aget m i = some o) :
    o ∈ s'.refs ∧ s'.strong = s.strong ∧ s'.weak = s.weak ∧ s'.stale = s.stale ∧ s'.transit = s.transit := by
  simp only [step, hp, hne, hm, hg, if_false] at hs
  injection hs with hs; subst hs; simp

theorem pcRefs_entry (dc c : Bool) (op : Op) : pcRefs (entry dc c op) = [] := by
  cases op <;> cases c <;> cases dc <;> rfl
theorem pcRefs_finish (s : State) (t : Tid) (o : Out) : pcRefs ((finish s t o).th t).pc = [] := by
  unfold finish; split
  · simp only [setTh_self]; rfl
  · simp only [setTh_self]; exact pcRefs_entry _ _ _
theorem pcRefs_releaseFinish (s : State) (t : Tid) (o : Out) : pcRefs ((releaseFinish s t o).th t).pc = [] := by
  unfold releaseFinish; split <;> exact pcRefs_finish _ _ _
theorem pcRefs_afterCC (s : State) (t : Tid) (k : K) : pcRefs ((afterCC s t k).th t).pc = kObj k := by
  cases k <;> simp only [afterCC, goto_pc_self, pcRefs_finish] <;> rfl
theorem pcRefs_afterCaches (s : State) (t : Tid) (k : K) : pcRefs ((afterCaches s t k).th t).pc = kObj k := by
  cases k <;> simp only [afterCaches] <;> (try split) <;> simp only [goto_pc_self] <;> rfl
theorem pcRefs_cuWeakNext (k : K) (l : List Id) : pcRefs (cuWeakNext k l) = kObj k := by
  cases l <;> cases k <;> rfl
theorem pcRefs_cuStrongNext (k : K) (l : List Id) : pcRefs (cuStrongNext k l) = kObj k := by
  cases l <;> cases k <;> rfl

theorem binv_refsPc_self (s s' : State) (t : Tid) (hb : BInv s) (hs : step s t = some s') :
    ∀ o ∈ pcRefs (s'.th t).pc, o ∈ s'.refs := by
  have h := hb.refsPc t
  step_cases <;> simp only [hpc, pcRefs] at h <;> (try simp at h) <;>
    simp only [goto_pc_self, pcRefs_finish, pcRefs_releaseFinish, pcRefs_afterCC, pcRefs_afterCaches,
      pcRefs_cuWeakNext, pcRefs_cuStrongNext] <;>
    (try simp only [pcRefs]) <;> simp <;> grind [kObj]

theorem nprobe_step (s s' : State) (t : Tid) (hs : step s t = some s') (i : Id) (o : Obj)
    (hp : (s.th t).pc = .nProbe i) (hg : aget s.weak i = some o) (hal : alive s o = true) :
    s'.weak = s.weak ∧ o ∈ s'.refs := by
  simp only [step, hp, hg, hal] at hs
  injection hs with hs; subst hs; simp

theorem odicts_step (s s' : State) (t : Tid) (hn : CrOK s t) (hs : step s t = some s') (m : AMap)
    (h : m ∈ odicts s'.olds) : m ∈ odicts s.olds ∨ ((s.th t).pc = .eaSwap ∧ m = s.strong) := by
  have hcr := hn.1
  have h1 := mem_odicts_orelease s.olds
  step_cases <;> simp only [hpc] at hcr <;> simp at h <;>
    first
    | exact Or.inl h
    | (simp_all; done)
    | (split at h
       · exact Or.inl h
       · rw [odicts_append, List.mem_append] at h
         rcases h with h | h
         · exact Or.inl h
         · simp [odicts] at h; exact Or.inr ⟨hpc, h⟩)
    | (rw [odicts_append, List.mem_append] at h
       rcases h with h | h
       · exact Or.inl h
       · simp [odicts] at h; exact Or.inr ⟨hpc, h⟩)
    | grind

theorem binv_step (s s' : State) (t : Tid) (ha : AInv s) (hb : BInv s) (hf : FInv s) (hm : MdInv s) (hn : CrOK s t)
    (hs : step s t = some s') : BInv s' := by
  have ht : ∀ u, holds (s.th u).pc = true → u ≠ t → holds (s.th t).pc = false := by
    intro u hu hne
    cases h : holds (s.th t).pc
    · rfl
    · have a := (ha.holder u).1 hu; have b := (ha.holder t).1 h; simp_all
  have hlive : ∀ u i o, livePc (s.th u).pc = some (i, o) → Held s o := fun u i o h =>
    Or.inl (hb.refsPc u o (livePc_pcRefs _ i o h))
  have houts : ∀ u i o, Out.obj i o ∈ (s.th u).outs → Held s o := fun u i o h => Or.inl (hb.refsOuts u i o h)
  have hreach : ∀ i o, Reach s i o → Held s o → Reach s' i o := fun i o hr hal =>
    reach_step s s' t ha hb hn hs i o hr hal
  refine ⟨binv_uniq s s' t ha hb hn hs, binv_tr1 s s' t ha hb hn hs, ?_, ?_, ?_, ?_, ?_, ?_, ?_⟩
  · intro u i o h
    by_cases hu : u = t
    · subst hu; exact binv_tr2_self s s' u hs i o h
    · rw [step_th_ne s s' t u hs hu] at h
      obtain ⟨_, _, e4, _⟩ := nonholder_effect3 s s' t hn hs (ht u (trPc_holds _ _ h) hu)
      rw [e4]; exact hb.tr2 u i o h
  · intro u
    by_cases hu : u = t
    · subst hu; exact binv_know_self s s' u ha hb hm hs
    · rw [step_th_ne s s' t u hs hu]
      cases hh : holds (s.th u).pc
      · exact know_nonholds _ _ hh
      · have hht := ht u hh hu
        obtain ⟨e2, _, _, e1⟩ := nonholder_effect3 s s' t hn hs hht
        obtain ⟨ep, er, eo⟩ := nonholder_refs s s' t hn hs hht
        refine know_stable s s' _ e2 ep ?_ er eo hf.wb (hb.know u)
        rcases e1 with e1 | ⟨i', o', g', hp, e1⟩
        · exact Or.inl e1
        · obtain ⟨h0, _, _, hg, he, _⟩ := hn.1 i' o' g' hp
          exact Or.inr ⟨i', o', e1, h0, hg u, he u, hb.refsPc t o' (by rw [hp]; simp [pcRefs])⟩
  · intro u i o h
    by_cases hu : u = t
    · subst hu; exact binv_live_self s s' u hb hn hs i o h
    · rw [step_th_ne s s' t u hs hu] at h
      exact hreach i o (hb.live u i o h) (hlive u i o h)
  · intro u i o h
    by_cases hu : u = t
    · subst hu
      rcases outs_effect s s' u hs i o h with h | ⟨hp, hg⟩ | h | ⟨hp, hg, hal⟩ | ⟨g, m, hp, hne, hm', hg⟩
      · exact hreach i o (hb.outs u i o h) (houts u i o h)
      · -- probe hit on the current dict: the step itself takes the reference
        obtain ⟨_, e1, e2, e3, e4⟩ := probe_refs s s' u hs i o hp hg
        unfold Reach; rw [e1]; exact Or.inl hg
      · exact hreach i o (hb.live u i o h) (hlive u i o h)
      · -- unlocked weak probe (doCache = False) found the instance alive
        have e := (nprobe_step s s' u hs i o hp hg hal).1
        exact Or.inr (Or.inl (by rw [e]; exact hg))
      · -- probe hit on an abandoned dict (the attribute was rebound after the load)
        obtain ⟨_, e1, e2, e3, e4⟩ := stale_probe_step s s' u hs i o g m hp hne hm' hg
        have := hb.oreach m (mem_odicts_of_oget _ _ _ hm') i o hg
        unfold Reach at *; rw [e1, e2, e3, e4]; exact this
    · rw [step_th_ne s s' t u hs hu] at h
      exact hreach i o (hb.outs u i o h) (houts u i o h)
  · intro u
    by_cases hu : u = t
    · subst hu; exact binv_refsPc_self s s' u hb hs
    · rw [step_th_ne s s' t u hs hu]
      intro o ho; exact refs_mono s s' t hs o (hb.refsPc u o ho)
  · intro u i o h
    by_cases hu : u = t
    · subst hu
      rcases outs_effect s s' u hs i o h with h | ⟨hp, hg⟩ | h | ⟨hp, hg, hal⟩ | ⟨g, m, hp, hne, hm', hg⟩
      · exact refs_mono s s' u hs o (hb.refsOuts u i o h)
      · exact (probe_refs s s' u hs i o hp hg).1
      · exact refs_mono s s' u hs o (hb.refsPc u o (livePc_pcRefs _ i o h))
      · exact (nprobe_step s s' u hs i o hp hg hal).2
      · exact (stale_probe_step s s' u hs i o g m hp hne hm' hg).1
    · rw [step_th_ne s s' t u hs hu] at h
      exact refs_mono s s' t hs o (hb.refsOuts u i o h)
  · -- what an abandoned dict holds was copied to expiredCache before the rebinding
    intro m hm' i o hg
    rcases odicts_step s s' t hn hs m hm' with h | ⟨hp, e⟩
    · exact hreach i o (hb.oreach m h i o hg) (Or.inr (Or.inr ((mem_ovals _ _).2 ⟨m, h, mem_avals_of_aget _ _ _ hg⟩)))
    · subst e
      have hk := hb.know t
      rw [hp] at hk
      simp only [step, hp] at hs
      injection hs with hs; subst hs
      exact Or.inr (Or.inl (by simpa using hk i o hg))

/-- all layers along a schedule (programs without create) -/
theorem inv_run (s : State) (sched : List Tid) (ha : AInv s) (hb : BInv s) (hf : FInv s) (hm : MdInv s)
    (hn : NoCreate s) :
    AInv (run s sched) ∧ BInv (run s sched) ∧ FInv (run s sched) ∧ NoCreate (run s sched) := by
  induction sched generalizing s with
  | nil => exact ⟨ha, hb, hf, hn⟩
  | cons t ts ih =>
    unfold run
    split
    · rename_i s' hs
      exact ih s' (ainv_step s s' t ha hs) (binv_step s s' t ha hb hf hm (crok_of_nocreate s t hn) hs)
        (finv_step s s' t hf hs) (mdinv_step s s' t hm hs) (nocreate_step s s' t hn hs)
    · exact ih s ha hb hf hm hn

theorem livePc_startTh (dc c : Bool) (p : List Op) : livePc (startTh dc c p).pc = none := by
  cases p
  · rfl
  · simp only [startTh]; exact livePc_entry _ _ _

theorem trPc_startTh (dc c : Bool) (p : List Op) : trPc (startTh dc c p).pc = none := by
  cases h : trPc (startTh dc c p).pc with
  | none => rfl
  | some x => have := trPc_holds _ _ h; simp [holds_startTh] at this

theorem outs_startTh (dc c : Bool) (p : List Op) : (startTh dc c p).outs = [] := by
  cases p <;> rfl

theorem pcRefs_startTh (dc c : Bool) (p : List Op) : pcRefs (startTh dc c p).pc = [] := by
  cases p
  · rfl
  · simp only [startTh]; exact pcRefs_entry _ _ _

theorem pcObjs_startTh (dc c : Bool) (p : List Op) : pcObjs (startTh dc c p).pc = [] := by
  cases p
  · rfl
  · simp only [startTh]; exact pcObjs_entry _ _ _

theorem binv_init (dc caches : Bool) (strong weak : AMap) (db : List Id) (fresh freq frac cc off : Nat)
    (pins : List Obj) (progs : Tid → List Op)
    (hu : ∀ i o p, aget strong i = some o → aget weak i = some p → o = p) :
    BInv (mkInit dc caches strong weak db fresh freq frac cc off pins progs) := by
  refine ⟨hu, ?_, ?_, ?_, ?_, ?_, ?_, ?_, ?_⟩
  · intro i o h; simp [mkInit] at h
  · intro t i o h
    have : trPc (startTh dc caches (progs t)).pc = some (i, o) := h
    simp [trPc_startTh] at this
  · intro t; exact know_nonholds _ _ (holds_startTh dc caches (progs t))
  · intro t i o h
    have : livePc (startTh dc caches (progs t)).pc = some (i, o) := h
    simp [livePc_startTh] at this
  · intro t i o h
    have : Out.obj i o ∈ (startTh dc caches (progs t)).outs := h
    simp [outs_startTh] at this
  · intro t o h
    have : o ∈ pcRefs (startTh dc caches (progs t)).pc := h
    simp [pcRefs_startTh] at this
  · intro t i o h
    have : Out.obj i o ∈ (startTh dc caches (progs t)).outs := h
    simp [outs_startTh] at this
  · intro m hm; simp [mkInit, odicts] at hm

theorem finv_init (dc caches : Bool) (strong weak : AMap) (db : List Id) (fresh freq frac cc off : Nat)
    (pins : List Obj) (progs : Tid → List Op)
    (h1 : ∀ o ∈ avals strong, o < fresh) (h2 : ∀ o ∈ avals weak, o < fresh) :
    FInv (mkInit dc caches strong weak db fresh freq frac cc off pins progs) := by
  refine ⟨h1, h2, ?_⟩
  intro t o h
  have : o ∈ pcObjs (startTh dc caches (progs t)).pc := h
  simp [pcObjs_startTh] at this

theorem pcCreate_startTh (dc c : Bool) (p : List Op) (h : ∀ op ∈ p, isCreate op = false) :
    thNoCreate (startTh dc c p) := by
  cases p with
  | nil => simp [startTh, thNoCreate, pcCreate]
  | cons op rest =>
    simp only [startTh, thNoCreate]
    exact ⟨pcCreate_entry _ _ _ (h op (by simp)), fun op' ho => h op' (by simp [ho])⟩

theorem nocreate_init (dc caches : Bool) (strong weak : AMap) (db : List Id) (fresh freq frac cc off : Nat)
    (pins : List Obj) (progs : Tid → List Op) (h : ∀ t, ∀ op ∈ progs t, isCreate op = false) :
    NoCreate (mkInit dc caches strong weak db fresh freq frac cc off pins progs) :=
  fun t => pcCreate_startTh dc caches (progs t) (h t)

/-! ### no exception but NotFound -/
def pcErr : Pc → Bool
  | .exRelErr | .cuRelErr | .eaRelErr => true
  | _ => false

def EInv (s : State) : Prop := ∀ t, pcErr (s.th t).pc = false ∧ ∀ e, Out.exc e ∉ (s.th t).outs

theorem pcErr_nonholds (pc : Pc) (h : holds pc = false) : pcErr pc = false := by
  cases pc <;> simp_all [holds, pcErr]
theorem pcErr_cuWeakNext (k : K) (l : List Id) : pcErr (cuWeakNext k l) = false := by cases l <;> rfl
theorem pcErr_cuStrongNext (k : K) (l : List Id) : pcErr (cuStrongNext k l) = false := by cases l <;> rfl

theorem einv_step (s s' : State) (t : Tid) (ha : AInv s) (hb : BInv s) (hn : CrOK s t) (he : EInv s)
    (hs : step s t = some s') : EInv s' := by
  intro u
  by_cases hu : u = t
  · subst hu
    have h1t := ha.holder u
    have hS := (ha.needS u).2
    have hW := ha.needW u
    have hk := hb.know u
    have hc := hn.2
    obtain ⟨he1, he2⟩ := he u
    step_cases <;> simp only [hpc, holds, needS, needW, know, pcErr] at h1t hS hW hk hc he1 <;>
      (try simp only [true_iff, false_iff, Bool.false_eq_true] at h1t) <;>
      (try simp only [releaseFinish, h1t]) <;>
      simp only [goto_pc_self, goto_outs_self, finish_outs_self, afterCaches_outs_self,
        pcErr_nonholds _ (finish_holds _ _ _), pcErr_nonholds _ (afterCC_holds _ _ _),
        pcErr_nonholds _ (afterCaches_holds _ _ _), pcErr_cuWeakNext, pcErr_cuStrongNext] <;>
      (try (rcases afterCC_outs_self _ u _ with e | e <;> rw [e])) <;>
      simp_all [pcErr]
  · rw [step_th_ne s s' t u hs hu]; exact he u

theorem einv_init (dc caches : Bool) (strong weak : AMap) (db : List Id) (fresh freq frac cc off : Nat)
    (pins : List Obj) (progs : Tid → List Op) : EInv (mkInit dc caches strong weak db fresh freq frac cc off pins progs) := by
  intro t
  refine ⟨pcErr_nonholds _ (holds_startTh dc caches (progs t)), ?_⟩
  intro e h
  have : Out.exc e ∈ (startTh dc caches (progs t)).outs := h
  simp [outs_startTh] at this

theorem inv_run_e (s : State) (sched : List Tid) (ha : AInv s) (hb : BInv s) (hf : FInv s) (hm : MdInv s)
    (hn : NoCreate s) (he : EInv s) : EInv (run s sched) := by
  induction sched generalizing s with
  | nil => exact he
  | cons t ts ih =>
    unfold run
    split
    · rename_i s' hs
      exact ih s' (ainv_step s s' t ha hs) (binv_step s s' t ha hb hf hm (crok_of_nocreate s t hn) hs)
        (finv_step s s' t hf hs) (mdinv_step s s' t hm hs) (nocreate_step s s' t hn hs) (einv_step s s' t ha hb (crok_of_nocreate s t hn) he hs)
    · exact ih s ha hb hf hm hn he

theorem reach_run (s : State) (sched : List Tid) (ha : AInv s) (hb : BInv s) (hf : FInv s) (hm : MdInv s)
    (hn : NoCreate s)
    (i : Id) (o : Obj) (hr : Reach s i o) (hal : o ∈ s.refs ∨ o ∈ s.pins) : Reach (run s sched) i o := by
  induction sched generalizing s with
  | nil => exact hr
  | cons t ts ih =>
    unfold run
    split
    · rename_i s' hs
      exact ih s' (ainv_step s s' t ha hs) (binv_step s s' t ha hb hf hm (crok_of_nocreate s t hn) hs)
        (finv_step s s' t hf hs) (mdinv_step s s' t hm hs) (nocreate_step s s' t hn hs)
        (reach_step s s' t ha hb (crok_of_nocreate s t hn) hs i o hr
          (by rcases hal with h | h; exact Or.inl h; exact Or.inr (Or.inl h)))
        (held_step s s' t hs o hal)
    · exact ih s ha hb hf hm hn hr hal

end SqlObjVerif.Conc
