import SqlObjVerif.Lemmas.InhSelXChain
/-!
`InheritableSelectResults.__init__` (translated) for the query `cls.select(f)` delegates to the root class: its rows are
the hand model's `selectRow` (`selInit_select`).
-/
set_option linter.unusedSimpArgs false
namespace SqlObjVerif.InhSel
open SqlObjVerif.PyIS (Sql)
open SqlObjVerif.Inherit hiding Val Res Cmp Out

theorem cmpEval_cmpOf (op : Inherit.Cmp) (x y : Int) : cmpEval (cmpOf op) x y = op.eval x y := by
  cases op <;> rfl

theorem sqlEval_congr (db : DB) (σ σ' : Nat → Nat) : ∀ (e : Sql), (∀ a, a ∈ sqlTables e → σ a = σ' a) →
    sqlEval db σ e = sqlEval db σ' e := by
  intro e
  induction e with
  | tt => intro _; rfl
  | col a k op v => intro h; simp [sqlEval, h a (by simp [sqlTables])]
  | idc a op v => intro h; simp [sqlEval, h a (by simp [sqlTables])]
  | idEq a b => intro h; simp [sqlEval, h a (by simp [sqlTables]), h b (by simp [sqlTables])]
  | idIn a ids => intro h; simp [sqlEval, h a (by simp [sqlTables])]
  | kind p c => intro h; simp [sqlEval, h p (by simp [sqlTables])]
  | and x y ihx ihy =>
    intro h
    simp [sqlEval, ihx (fun a ha => h a (by simp [sqlTables, ha])), ihy (fun a ha => h a (by simp [sqlTables, ha]))]
  | or x y ihx ihy =>
    intro h
    simp [sqlEval, ihx (fun a ha => h a (by simp [sqlTables, ha])), ihy (fun a ha => h a (by simp [sqlTables, ha]))]
  | not x ih => intro h; simp [sqlEval, ih (fun a ha => h a (by simpa [sqlTables] using ha))]

theorem sqlEval_sqlOf (db : DB) (i t : Nat) : ∀ f : Filter, sqlEval db (fun _ => i) (sqlOf t f) = f.eval db i := by
  intro f
  induction f with
  | tt => rfl
  | attr a k op v => simp [sqlOf, sqlEval, Filter.eval, cmpEval_cmpOf]
  | idc op v => simp [sqlOf, sqlEval, Filter.eval, cmpEval_cmpOf]
  | and f g ihf ihg => simp [sqlOf, sqlEval, Filter.eval, ihf, ihg]
  | or f g ihf ihg => simp [sqlOf, sqlEval, Filter.eval, ihf, ihg]
  | not f ih => simp [sqlOf, sqlEval, Filter.eval, ih]

theorem tables_sqlOf (t : Nat) : ∀ (f : Filter) (x : Nat), x ∈ sqlTables (sqlOf t f) → (x ∈ f.classes ∨ x = t) := by
  intro f
  induction f with
  | tt => intro x hx; simp [sqlOf, sqlTables] at hx
  | attr a k op v => intro x hx; simp [sqlOf, sqlTables] at hx; simp [Filter.classes, hx]
  | idc op v => intro x hx; simp [sqlOf, sqlTables] at hx; exact Or.inr hx
  | and f g ihf ihg =>
    intro x hx
    simp only [sqlOf, sqlTables, List.mem_append] at hx
    rcases hx with hx | hx
    · rcases ihf x hx with h | h
      · exact Or.inl (by simp [Filter.classes, h])
      · exact Or.inr h
    · rcases ihg x hx with h | h
      · exact Or.inl (by simp [Filter.classes, h])
      · exact Or.inr h
  | or f g ihf ihg =>
    intro x hx
    simp only [sqlOf, sqlTables, List.mem_append] at hx
    rcases hx with hx | hx
    · rcases ihf x hx with h | h
      · exact Or.inl (by simp [Filter.classes, h])
      · exact Or.inr h
    · rcases ihg x hx with h | h
      · exact Or.inl (by simp [Filter.classes, h])
      · exact Or.inr h
  | not f ih => intro x hx; simpa [Filter.classes] using ih x (by simpa [sqlOf, sqlTables] using hx)

theorem classes_sqlOf (t : Nat) : ∀ (f : Filter) (x : Nat), x ∈ f.classes → x ∈ sqlTables (sqlOf t f) := by
  intro f
  induction f with
  | tt => intro x hx; simp [Filter.classes] at hx
  | attr a k op v => intro x hx; simpa [sqlOf, sqlTables, Filter.classes] using hx
  | idc op v => intro x hx; simp [Filter.classes] at hx
  | and f g ihf ihg =>
    intro x hx
    simp only [Filter.classes, List.mem_append] at hx
    simp only [sqlOf, sqlTables, List.mem_append]
    exact hx.imp (ihf x) (ihg x)
  | or f g ihf ihg =>
    intro x hx
    simp only [Filter.classes, List.mem_append] at hx
    simp only [sqlOf, sqlTables, List.mem_append]
    exact hx.imp (ihf x) (ihg x)
  | not f ih => intro x hx; simpa [sqlOf, sqlTables] using ih x (by simpa [Filter.classes] using hx)

/-- the tables `cls.select(f)` uses are the hand model's `selNeeded` -/
theorem used_iff_needed {T : Tree} (h : T.WF) (c : Nat) (f : Filter) (x : Nat) :
    x ∈ sqlTables (selClause T c f) ++ [T.root c] ↔ selNeeded T c f x = true := by
  simp only [selNeeded, selClause, List.mem_append, List.mem_singleton, Bool.or_eq_true, beq_iff_eq,
    List.contains_iff_mem]
  cases hp : T.parent c with
  | none =>
    simp only [reduceCtorEq, or_false]
    constructor
    · rintro (hx | hx)
      · rcases tables_sqlOf c f x hx with h1 | h1
        · exact Or.inr h1
        · exact Or.inl (by rw [h1, root_self h hp])
      · exact Or.inl hx
    · rintro (hx | hx)
      · exact Or.inr hx
      · exact Or.inl (classes_sqlOf c f x hx)
  | some p =>
    simp only [sqlTables, List.mem_append, List.mem_singleton, Option.some.injEq]
    constructor
    · rintro ((hx | hx) | hx)
      · rcases tables_sqlOf p f x hx with h1 | h1
        · exact Or.inl (Or.inr h1)
        · exact Or.inr h1.symm
      · exact Or.inr hx.symm
      · exact Or.inl (Or.inl hx)
    · rintro ((hx | hx) | hx)
      · exact Or.inr hx
      · exact Or.inl (Or.inl (classes_sqlOf p f x hx))
      · exact Or.inl (Or.inr hx.symm)


theorem kindIs_kindOk (T : Tree) (db : DB) (c p i : Nat) (hp : T.parent c = some p) :
    kindIs db p i c = kindOk T db c i := by
  simp only [kindIs, kindOk, hp]
  generalize db p i = r
  cases r <;> rfl

theorem eval_selClause (T : Tree) (db : DB) (c i : Nat) (f : Filter) :
    sqlEval db (fun _ => i) (selClause T c f) = (kindOk T db c i && f.eval db i) := by
  unfold selClause
  cases hp : T.parent c with
  | none => simp [sqlEval_sqlOf, kindOk, hp]
  | some p => simp [sqlEval, sqlEval_sqlOf, kindIs_kindOk T db c p i hp, Bool.and_comm]

/-- **`InheritableSelectResults.__init__` for `cls.select(f)`** (source class = the root, clause = the filter AND the
    `childName` test on the parent's table, `f` over own and inherited columns): the rows of the query the translated
    constructor builds are exactly the ids the hand model's `selectRow` selects, one row per id -/
theorem selInit_select (X : SCtx) (h : X.T.WF) (hreg : X.reg.Nodup) (w : SW) (c : Nat) (f : Filter) (oc : Option Nat)
    (hregAll : ∀ a, a ∈ X.T.anc c → a ∈ X.reg) (hf : ∀ a, a ∈ f.classes → a ∈ X.T.anc c) :
    ∃ e, selInitX X w (X.T.root c) (.sql (selClause X.T c f)) (opsOf oc) =
        .ret { w with made := some ⟨X.T.root c, e, oc.getD X.dflt⟩ } .none ∧
      ∀ db : DB,
        (∀ i, (∃ σ, Sat db (X.T.root c) e σ ∧ σ (X.T.root c) = i) ↔ (selectRow X.T db c f i).isSome = true) ∧
        (∀ σ σ', Sat db (X.T.root c) e σ → Sat db (X.T.root c) e σ' → σ (X.T.root c) = σ' (X.T.root c) →
          ∀ a, a ∈ sqlTables e ++ [X.T.root c] → σ a = σ' a) := by
  have hrootN : selNeeded X.T c f (X.T.root c) = true := by simp [selNeeded]
  obtain ⟨d, pre0, he, hpre0, hdn⟩ := exists_deepest h (selNeeded X.T c f) c hrootN
  have hdc : d ∈ X.T.anc c := by rw [he]; exact List.mem_append_right _ (self_mem_anc h d)
  have hneedAnc : ∀ a, selNeeded X.T c f a = true → a ∈ X.T.anc c := by
    intro a ha
    simp only [selNeeded, Bool.or_eq_true, beq_iff_eq, List.contains_iff_mem] at ha
    rcases ha with (ha | ha) | ha
    · rw [ha]; exact root_mem_anc h c
    · exact hf a ha
    · exact mem_anc_parent h c c a (self_mem_anc h c) ha
  have hall : ∀ a, a ∈ sqlTables (selClause X.T c f) ++ [X.T.root c] → a ∈ X.reg ∧ a ∈ X.T.anc d := by
    intro a ha
    have hn := (used_iff_needed h c f a).1 ha
    have hac := hneedAnc a hn
    refine ⟨hregAll a hac, ?_⟩
    rw [he] at hac
    rcases List.mem_append.1 hac with hm | hm
    · rw [hpre0 a hm] at hn; cases hn
    · exact hm
  obtain ⟨t, pre, post, hsplit, htu, hpost, hrun, htabs, hsat⟩ :=
    selInit_chain X h hreg w (X.T.root c) (selClause X.T c f) oc d ((used_iff_needed h c f d).2 hdn) hall
  refine ⟨_, hrun, ?_⟩
  -- the segment is the whole chain above `d`
  have hrd : X.T.root d = X.T.root c := root_of_mem h c d hdc
  have hrootd : X.T.root c ∈ X.T.anc d := hrd ▸ root_mem_anc h d
  have hpostnil : post = [] := by
    cases post with
    | nil => rfl
    | cons z post =>
      exfalso
      have hzd : z ∈ X.T.anc d := by rw [hsplit]; simp
      have hsorted := anc_sorted h d
      rw [hsplit, List.pairwise_append] at hsorted
      have hrz : X.T.root c ≤ z := by
        have h1 : X.T.root z = X.T.root c := (root_of_mem h d z hzd).trans hrd
        have := mem_anc_le h z _ (root_mem_anc h z)
        omega
      have hrin : X.T.root c ∈ pre ++ [t] := by
        have := hrootd
        rw [hsplit] at this
        rcases List.mem_append.1 this with hm | hm
        · exact List.mem_append_left _ hm
        · rcases List.mem_cons.1 hm with hm | hm
          · simp [hm]
          · exact absurd ((used_iff_needed h c f _).2 hrootN) (hpost _ hm)
      rcases List.mem_append.1 hrin with hm | hm
      · have := hsorted.2.2 _ hm z (by simp)
        omega
      · simp only [List.mem_singleton] at hm
        have := (List.pairwise_cons.1 hsorted.2.1).1 z (by simp)
        omega
  subst hpostnil
  have hseg : pre ++ [t] = X.T.anc d := hsplit.symm
  rw [hseg] at hsat htabs
  have hjoin : ∀ db i, joinDown X.T db c i (selNeeded X.T c f) = (X.T.anc d).all (fun a => db.has a i) := by
    intro db i
    unfold joinDown
    rw [he, dropWhile_append_neg _ _ _ (fun x hx => by simp [hpre0 x hx])]
    conv => lhs; rw [anc_eq_cons']
    rw [List.dropWhile_cons]
    simp only [hdn, Bool.not_true, Bool.false_eq_true, if_false]
    rw [← anc_eq_cons']
  intro db
  constructor
  · intro i
    constructor
    · rintro ⟨σ, hs, hi⟩
      obtain ⟨hrows, hg⟩ := (hsat db σ).1 hs
      have hdi : σ d = i := by rw [← (hrows _ hrootd).1]; exact hi
      have hconst : sqlEval db σ (selClause X.T c f) = sqlEval db (fun _ => i) (selClause X.T c f) := by
        apply sqlEval_congr
        intro a ha
        have := (hrows a (hall a (List.mem_append_left _ ha)).2).1
        rw [this, hdi]
      rw [hconst, eval_selClause] at hg
      simp only [Bool.and_eq_true] at hg
      have hj : joinDown X.T db c i (selNeeded X.T c f) = true := by
        rw [hjoin, List.all_eq_true]
        intro a ha
        have := (hrows a ha).2
        rw [hdi] at this
        simpa using this
      simp [selectRow, hj, hg.1, hg.2]
    · intro hsel
      have hcond : (joinDown X.T db c i (selNeeded X.T c f) && kindOk X.T db c i && f.eval db i) = true := by
        unfold selectRow at hsel
        by_cases hc : (joinDown X.T db c i (selNeeded X.T c f) && kindOk X.T db c i && f.eval db i) = true
        · exact hc
        · simp [hc] at hsel
      simp only [Bool.and_eq_true] at hcond
      refine ⟨fun _ => i, (hsat db _).2 ⟨?_, ?_⟩, rfl⟩
      · intro a ha
        refine ⟨rfl, ?_⟩
        have := hcond.1.1
        rw [hjoin, List.all_eq_true] at this
        simpa using this a ha
      · rw [eval_selClause]; simp [hcond.1.2, hcond.2]
  · intro σ σ' hs hs' hi a ha
    have hr := ((hsat db σ).1 hs).1
    have hr' := ((hsat db σ').1 hs').1
    have hmem := htabs a ha
    rw [(hr a hmem).1, (hr' a hmem).1, ← (hr _ hrootd).1, ← (hr' _ hrootd).1]
    exact hi

end SqlObjVerif.InhSel
