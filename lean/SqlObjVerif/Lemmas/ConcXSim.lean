import SqlObjVerif.Model.ConcX
import SqlObjVerif.Lemmas.Conc
/-!
# The simulation relation between `Conc` (hand-written interleaving model of C09) and `ConcX` (the translated
# programs of `cache.py` interleaved by their small-step semantics)

`PcSim dc pc cpc m`: a `Conc` thread at program counter `pc` corresponds to a `ConcX` thread whose caller-layer
control is `cpc` and whose configuration inside the translated method is `m` — control, frame stack (sub-blocks
of the EXTRACTED programs, named by positions `bdrop`/`sThen`/… so that an edit of `cache.py` moves them),
locals.  Dead locals (a loop variable after its loop, `val` after a KeyError, cull's `keys`) are existentially
quantified; the indices still to come of cull's `range` loop are tied to the ids `Conc` keeps (`Idx`).

Shared state: `absG` — field by field, except `cullOffset`: the translated `cull` writes it (silently, under
the lock) BEFORE it parks at `lock.release()`, `Conc` at the release (`offOf`).
-/
namespace SqlObjVerif.ConcX
open SqlObjVerif.PyCache (Val Block Stmt Dict DictAttr Expr Cond)
open SqlObjVerif.PyCache.Extracted
open SqlObjVerif.PyCacheSS
open SqlObjVerif.Conc (Id Obj Op Out K Pc State AInv holds)

/-! ## positions in a translated program -/
def bdrop : Nat → Block → Block
  | 0, b => b
  | _ + 1, .nil => .nil
  | n + 1, .cons _ r => bdrop n r

def bhead : Block → Stmt
  | .nil => .pass
  | .cons s _ => s

def sThen : Stmt → Block
  | .ite _ t _ => t
  | _ => .nil
def sElse : Stmt → Block
  | .ite _ _ e => e
  | _ => .nil
def sBody : Stmt → Block
  | .tryKey b _ _ => b
  | .tryFinally b _ => b
  | _ => .nil
def sHandler : Stmt → Block
  | .tryKey _ h _ => h
  | _ => .nil
def sOrelse : Stmt → Block
  | .tryKey _ _ o => o
  | _ => .nil
def sFin : Stmt → Block
  | .tryFinally _ f => f
  | _ => .nil

/-- `get`, doCache branch / no-cache branch -/
def G : Block := sThen (bhead getProg)
def GN : Block := sElse (bhead getProg)
/-- `created`, doCache branch / no-cache branch -/
def C : Block := sThen (bhead createdProg)
def CN : Block := sElse (bhead createdProg)
/-- `expire`: body and `finally` block -/
def EB : Block := sBody (bhead (bdrop 1 expireProg))
def EF : Block := sFin (bhead (bdrop 1 expireProg))
/-- `expireAll` -/
def AB : Block := sBody (bhead (bdrop 2 expireAllProg))
def AF : Block := sFin (bhead (bdrop 2 expireAllProg))
/-- `cull` -/
def CB : Block := sBody (bhead (bdrop 1 cullProg))
def CF : Block := sFin (bhead (bdrop 1 cullProg))

def mk (ctl : Ctl) (stack : List Frame) (vars : List (Option Val)) (lists : List (List Val)) : MTh :=
  { ctl := ctl, stack := stack, vars := vars, lists := lists, ccSeen := none, genSeen := none }

/-- the method (`get` / `created`) whose cullCount bookkeeping / embedded cull runs for `k` -/
def ccB : K → Block
  | .create _ _ => C
  | _ => G
def ccCK : K → CK
  | .get i => .get i
  | .create i o => .created i o
  | _ => .unit
def ccVs : K → List (Option Val)
  | .get i => [some (.key i), none]
  | .create i o => [some (.key i), some (.obj o)]
  | _ => []
def ccOK (dc : Bool) : K → Prop
  | .get _ => dc = true
  | .create _ _ => dc = true
  | _ => False

/-- the frames below an activation of `cull` -/
def outerFs : K → List Frame
  | .get i => [.call [some (.key i), none] [], .seq .nil, .seq (bdrop 1 G), .seq .nil]
  | .create i o => [.call [some (.key i), some (.obj o)] [], .seq .nil, .seq (bdrop 1 C), .seq .nil]
  | _ => []
def outerOK (dc : Bool) : K → Prop
  | .get _ => dc = true
  | .create _ _ => dc = true
  | .cull => dc = true
  | _ => False
/-- `caches` is consulted on behalf of a get / create / expire / expireAll (a direct `cull()` never gets there) -/
def csOK : K → Prop
  | .cull => False
  | _ => True

/-- the range indices still to come name the ids `Conc` still has to visit -/
def Idx (keys : List Val) : List Val → List Id → Prop
  | [], [] => True
  | iv :: ivs, r :: rs => (∃ j, iv = .int j ∧ keys[j]? = some (.key r)) ∧ Idx keys ivs rs
  | _, _ => False

def PcSim (dc : Bool) : Pc → CPc → MTh → Prop
  | .idle, cpc, m => cpc = .idle ∧ m = MTh.idle
  | .csGet k, cpc, m => csOK k ∧ cpc = .csGet k ∧ m = MTh.idle
  | .csSet k, cpc, m => ccOK true k ∧ cpc = .csSet k ∧ m = MTh.idle
  | .select i, cpc, m => cpc = .select i ∧ m = MTh.idle
  | .insert i, cpc, m => cpc = .insert i ∧ m = MTh.idle
  | .crSelect i o, cpc, m => cpc = .crSelect i o ∧ m = MTh.idle
  | .eaEntry, cpc, m => cpc = .eaEntry ∧ m = MTh.idle
  | .cuEntry, cpc, m => cpc = .cuEntry ∧ m = MTh.idle
  -- cullCount bookkeeping of get / created
  | .ccTest k, cpc, m => ccOK dc k ∧ cpc = .inM (ccCK k) ∧ m = mk (.run (ccB k)) [.seq .nil] (ccVs k) []
  | .ccRead k, cpc, m => ccOK dc k ∧ cpc = .inM (ccCK k) ∧
      m = mk (.run (sElse (bhead (ccB k)))) [.seq (bdrop 1 (ccB k)), .seq .nil] (ccVs k) []
  | .ccWrite k v, cpc, m => ccOK dc k ∧ cpc = .inM (ccCK k) ∧ 0 < v ∧
      m = { mk (.run (sElse (bhead (ccB k)))) [.seq (bdrop 1 (ccB k)), .seq .nil] (ccVs k) [] with ccSeen := some (v - 1) }
  | .ccReset k, cpc, m => ccOK dc k ∧ cpc = .inM (ccCK k) ∧
      m = mk (.run (sThen (bhead (ccB k)))) [.seq (bdrop 1 (ccB k)), .seq .nil] (ccVs k) []
  -- get, doCache
  | .probeL i, cpc, m => dc = true ∧ cpc = .inM (.get i) ∧
      m = mk (.run (sBody (bhead (bdrop 1 G)))) [.tryKey (sHandler (bhead (bdrop 1 G))) (sOrelse (bhead (bdrop 1 G))), .seq (bdrop 2 G), .seq .nil]
        [some (.key i), none] []
  | .probe i g, cpc, m => dc = true ∧ cpc = .inM (.get i) ∧
      m = { mk (.run (sBody (bhead (bdrop 1 G)))) [.tryKey (sHandler (bhead (bdrop 1 G))) (sOrelse (bhead (bdrop 1 G))), .seq (bdrop 2 G), .seq .nil]
              [some (.key i), none] [] with genSeen := some g }
  | .acq i, cpc, m => dc = true ∧ cpc = .inM (.get i) ∧ m = mk (.run (bdrop 2 G)) [.seq .nil] [some (.key i), none] []
  | .relook i, cpc, m => dc = true ∧ cpc = .inM (.get i) ∧
      m = mk (.run (sBody (bhead (bdrop 3 G)))) [.tryKey (sHandler (bhead (bdrop 3 G))) (sOrelse (bhead (bdrop 3 G))), .seq (bdrop 4 G), .seq .nil]
        [some (.key i), none] []
  | .relRel i o, cpc, m => cpc = .inM (.get i) ∧
      (if dc then m = mk (.run (sOrelse (bhead (bdrop 3 G)))) [.seq (bdrop 4 G), .seq .nil] [some (.key i), some (.obj o)] []
       else m = mk (.run (bdrop 3 GN)) [.seq .nil] [some (.key i), some (.obj o)] [])
  | .weakGet i, cpc, m => dc = true ∧ cpc = .inM (.get i) ∧
      m = mk (.run (sBody (bhead (bdrop 4 G)))) [.tryKey (sHandler (bhead (bdrop 4 G))) (sOrelse (bhead (bdrop 4 G))), .seq (bdrop 5 G), .seq .nil]
        [some (.key i), none] []
  | .weakDel i o, cpc, m => dc = true ∧ cpc = .inM (.get i) ∧
      m = mk (.run (sOrelse (bhead (bdrop 4 G)))) [.seq (bdrop 5 G), .seq .nil] [some (.key i), some (.obj o)] []
  | .weakDelDead i _, cpc, m => cpc = .inM (.get i) ∧
      (if dc then m = mk (.run (sOrelse (bhead (bdrop 4 G)))) [.seq (bdrop 5 G), .seq .nil] [some (.key i), some .none] []
       else m = mk (.run (sThen (bhead (sOrelse (bhead (bdrop 2 GN)))))) [.seq .nil, .seq (bdrop 3 GN), .seq .nil]
                  [some (.key i), some .none] [])
  | .strongSet i o, cpc, m => dc = true ∧ cpc = .inM (.get i) ∧
      m = mk (.run (bdrop 5 G)) [.seq .nil] [some (.key i), some (.obj o)] []
  | .relSet i o, cpc, m => dc = true ∧ cpc = .inM (.get i) ∧
      m = mk (.run (bdrop 6 G)) [.seq .nil] [some (.key i), some (.obj o)] []
  | .put i o, cpc, m => cpc = .inM (.put i o) ∧
      m = mk (.run (if dc then sThen (bhead putProg) else sElse (bhead putProg))) [.seq .nil] [some (.key i), some (.obj o)] []
  | .finRel i o, cpc, m => cpc = .inM (.fin (.obj i o)) ∧ m = mk (.run finishPutProg) [] [] []
  | .finRelNF i, cpc, m => cpc = .inM (.fin (.notFound i)) ∧ m = mk (.run finishPutProg) [] [] []
  -- get, doCache = False
  | .nProbe i, cpc, m => dc = false ∧ cpc = .inM (.get i) ∧
      m = mk (.run (sBody (bhead GN))) [.tryKey (sHandler (bhead GN)) (sOrelse (bhead GN)), .seq (bdrop 1 GN), .seq .nil]
        [some (.key i), none] []
  | .nAcq i, cpc, m => dc = false ∧ cpc = .inM (.get i) ∧ ∃ v1, m = mk (.run (bdrop 1 GN)) [.seq .nil] [some (.key i), v1] []
  | .nRelook i, cpc, m => dc = false ∧ cpc = .inM (.get i) ∧ ∃ v1,
      m = mk (.run (sBody (bhead (bdrop 2 GN)))) [.tryKey (sHandler (bhead (bdrop 2 GN))) (sOrelse (bhead (bdrop 2 GN))), .seq (bdrop 3 GN), .seq .nil]
        [some (.key i), v1] []
  -- created
  | .crSetL i o, cpc, m => dc = true ∧ cpc = .inM (.created i o) ∧
      m = mk (.run (bdrop 1 C)) [.seq .nil] [some (.key i), some (.obj o)] []
  | .crSet i o g, cpc, m => cpc = .inM (.created i o) ∧
      (if dc then m = { mk (.run (bdrop 1 C)) [.seq .nil] [some (.key i), some (.obj o)] [] with genSeen := some g }
       else m = mk (.run CN) [.seq .nil] [some (.key i), some (.obj o)] [])
  -- expire
  | .exAcq i, cpc, m => cpc = .inM .unit ∧ m = mk (.run expireProg) [] [some (.key i)] []
  | .exInStrong i, cpc, m => dc = true ∧ cpc = .inM .unit ∧ m = mk (.run EB) [.tryFin EF, .seq .nil] [some (.key i)] []
  | .exDelStrong i, cpc, m => dc = true ∧ cpc = .inM .unit ∧
      m = mk (.run (sThen (bhead EB))) [.seq (bdrop 1 EB), .tryFin EF, .seq .nil] [some (.key i)] []
  | .exInWeak i, cpc, m => cpc = .inM .unit ∧ m = mk (.run (bdrop 1 EB)) [.tryFin EF, .seq .nil] [some (.key i)] []
  | .exDelWeak i, cpc, m => cpc = .inM .unit ∧
      m = mk (.run (sThen (bhead (bdrop 1 EB)))) [.seq .nil, .tryFin EF, .seq .nil] [some (.key i)] []
  | .exRel, cpc, m => cpc = .inM .unit ∧ ∃ v, m = mk (.run EF) [.finEnd .norm, .seq .nil] [v] []
  | .exRelErr, _, _ => False
  -- expireAll
  | .eaAcq, cpc, m => dc = true ∧ cpc = .inM .unit ∧ m = mk (.run (bdrop 1 expireAllProg)) [] [none, none] []
  | .eaNext pos used, cpc, m => dc = true ∧ cpc = .inM .unit ∧ ∃ v0 v1,
      m = mk (.done .norm) [.loopItems 0 1 .cache expireAll_for0 pos used, .seq (bdrop 1 AB), .tryFin AF, .seq .nil] [v0, v1] []
  | .eaSetWeak k v pos used, cpc, m => dc = true ∧ cpc = .inM .unit ∧
      m = mk (.run expireAll_for0) [.loopItems 0 1 .cache expireAll_for0 pos used, .seq (bdrop 1 AB), .tryFin AF, .seq .nil]
        [some (.key k), some (.obj v)] []
  | .eaSwap, cpc, m => dc = true ∧ cpc = .inM .unit ∧ ∃ v0 v1, m = mk (.run (bdrop 1 AB)) [.tryFin AF, .seq .nil] [v0, v1] []
  | .eaRel, cpc, m => cpc = .inM .unit ∧ ∃ v0 v1, m = mk (.run AF) [.finEnd .norm, .seq .nil] [v0, v1] []
  | .eaRelErr, cpc, m => cpc = .inM .unit ∧ ∃ v0 v1, m = mk (.run AF) [.finEnd (.exc .runtimeError), .seq .nil] [v0, v1] []
  -- cull
  | .cuAcq k, cpc, m => outerOK dc k ∧ cpc = .inM (ccCK k) ∧
      m = mk (.run cullProg) (outerFs k) [none, none, none, none] [[]]
  | .cuWeakKeys k, cpc, m => outerOK dc k ∧ cpc = .inM (ccCK k) ∧
      m = mk (.run CB) (.tryFin CF :: .seq .nil :: outerFs k) [none, none, none, none] [[]]
  | .cuWeakChk k (key :: rest), cpc, m => outerOK dc k ∧ cpc = .inM (ccCK k) ∧ ∃ l0,
      m = mk (.run cull_for0) (.loopList 0 cull_for0 (rest.map Val.key) :: .seq (bdrop 2 CB) :: .tryFin CF :: .seq .nil :: outerFs k)
        [some (.key key), none, none, none] [l0]
  | .cuWeakChk _ [], _, _ => False
  | .cuWeakPop k key _ rest, cpc, m => outerOK dc k ∧ cpc = .inM (ccCK k) ∧ ∃ l0,
      m = mk (.run (sThen (bhead cull_for0)))
        (.seq .nil :: .loopList 0 cull_for0 (rest.map Val.key) :: .seq (bdrop 2 CB) :: .tryFin CF :: .seq .nil :: outerFs k)
        [some (.key key), none, none, none] [l0]
  | .cuStrongKeys k, cpc, m => outerOK dc k ∧ cpc = .inM (ccCK k) ∧ ∃ v0 l0,
      m = mk (.run (bdrop 2 CB)) (.tryFin CF :: .seq .nil :: outerFs k) [v0, none, none, none] [l0]
  | .cuStrongGet k i rest, cpc, m => outerOK dc k ∧ cpc = .inM (ccCK k) ∧ ∃ v0 j v3 keys ivs, Idx keys ivs rest ∧
      m = mk (.run (bdrop 1 cull_for1)) (.loopList 1 cull_for1 ivs :: .seq (bdrop 4 CB) :: .tryFin CF :: .seq .nil :: outerFs k)
        [v0, some (.int j), some (.key i), v3] [keys]
  | .cuStrongDel k i o rest, cpc, m => outerOK dc k ∧ cpc = .inM (ccCK k) ∧ ∃ v0 j keys ivs, Idx keys ivs rest ∧
      m = mk (.run (bdrop 2 cull_for1)) (.loopList 1 cull_for1 ivs :: .seq (bdrop 4 CB) :: .tryFin CF :: .seq .nil :: outerFs k)
        [v0, some (.int j), some (.key i), some (.wref o)] [keys]
  | .cuWeakSet k i o rest, cpc, m => outerOK dc k ∧ cpc = .inM (ccCK k) ∧ ∃ v0 j keys ivs, Idx keys ivs rest ∧
      m = mk (.run (sThen (bhead (bdrop 3 cull_for1))))
        (.seq .nil :: .loopList 1 cull_for1 ivs :: .seq (bdrop 4 CB) :: .tryFin CF :: .seq .nil :: outerFs k)
        [v0, some (.int j), some (.key i), some (.wref o)] [keys]
  | .cuRel k, cpc, m => outerOK dc k ∧ cpc = .inM (ccCK k) ∧ ∃ v0 v1 v2 v3 l0,
      m = mk (.run CF) (.finEnd .norm :: .seq .nil :: outerFs k) [v0, v1, v2, v3] [l0]
  | .cuRelErr, _, _ => False

/-- thread by thread -/
structure ThSim (dc : Bool) (c : Conc.Th) (x : XTh) : Prop where
  prog : x.prog = c.prog
  outs : x.outs = c.outs
  pc : PcSim dc c.pc x.cpc x.m

/-- `Conc` writes `cullOffset` at the release that ends `cull`, the translated `cull` just before it -/
def offOf' (lock : Option Tid) (th : Tid → Conc.Th) (off frac : Nat) : Nat :=
  match lock with
  | some t => (match (th t).pc with
    | .cuRel _ => (off + 1) % frac
    | _ => off)
  | none => off

def absSh (s : State) : Shared RC :=
  { cache := s.strong, expiredCache := s.weak, cullCount := s.cc, cullOffset := offOf' s.lock s.th s.off s.frac,
    cullFrequency := s.freq, cullFraction := s.frac, doCache := s.dc, owner := s.lock, gen := s.gen, hold := s.hold,
    olds := s.olds, heap := { refs := s.refs, pins := s.pins } }

def absG (s : State) : XShared := { sh := absSh s, caches := s.caches, db := s.db, fresh := s.fresh }

structure Sim (s : State) (x : XState) : Prop where
  g : x.g = absG s
  th : ∀ t, ThSim s.dc (s.th t) (x.th t)

end SqlObjVerif.ConcX
