import SqlObjVerif.Lemmas.ExprXRender
/-!
# C03 translation — the text-level hand model `renderS` spells the token-level hand model `render`

`Spells P toks s`: the text `s` is the texts of the tokens `toks` in order with blanks between them.  `spells_aux`:
for every node graph of expression shape (`wf`, the hypothesis of `C03_parse_render_nodes`; every `build e` has it) the
text the translated `__sqlrepr__` methods produce (`renderS`, by `sqlrepr_toVal`) spells exactly the token list of
`Expr.render`, and the two tests of the paren rule (`s[0] != '('`, `s != 'NULL'`) decide on the text what `wrapS`
decides on the tokens.  Assumed of the leaves (`TextOk`): a table name is not empty and does not start with `(`;
`repr` of a non-negative int / float magnitude starts with a digit; `repr` of a negative number is `-` + the magnitude.
-/
namespace SqlObjVerif.ExprX
open SqlObjVerif.PyExpr

set_option linter.unusedSimpArgs false

theorem Spells.append {P : Params} {a b : List Tok} {s t : Str} (h1 : Spells P a s) (h2 : Spells P b t) :
    Spells P (a ++ b) (s ++ t) := by
  induction h1 with
  | nil => exact h2
  | tok t0 _ ih => rw [List.cons_append, List.append_assoc]; exact .tok t0 ih
  | blank _ ih => rw [List.cons_append]; exact .blank ih

theorem Spells.single (P : Params) (t : Tok) : Spells P [t] (tokText P t) := by
  have := Spells.tok (P := P) t .nil
  rwa [List.append_nil] at this

/-- what the text-level renderers assume about the leaves -/
structure TextOk (P : Params) : Prop where
  tableHead : ∀ c, ∃ h t, P.table c = h :: t ∧ h ≠ 40
  intDigit : ∀ n : Nat, ∃ h t, P.reprInt (n : Int) = h :: t ∧ 48 ≤ h ∧ h ≤ 57
  intNeg : ∀ i : Int, i < 0 → P.reprInt i = 45 :: P.reprInt (i.natAbs : Int)
  fltDigit : ∀ i, ∃ h t, P.reprFlt false i = h :: t ∧ 48 ≤ h ∧ h ≤ 57
  fltNeg : ∀ i, P.reprFlt true i = 45 :: P.reprFlt false i

/-- the text `s` is a spelling of the tokens `ts`, and the two tests of the paren rule agree on them -/
structure Rep (P : Params) (ts : List Tok) (s : Str) : Prop where
  sp : Spells P ts s
  head : s.head? = some 40 ↔ ts.head? = some Expr.Tok.lp
  null : s = nullText ↔ ts = [Expr.Tok.null]

theorem wrap_rep {P : Params} {ts : List Tok} {s : Str} (h : Rep P ts s) :
    Spells P (Expr.wrapS ts) (wrapStr s) := by
  unfold wrapStr
  by_cases h1 : ts.head? = some Expr.Tok.lp
  · rw [if_pos (Or.inl (h.head.mpr h1))]
    cases ts with
    | nil => simp at h1
    | cons t rest =>
      simp only [List.head?_cons, Option.some.injEq] at h1; subst h1
      simp only [Expr.wrapS]; exact h.sp
  · by_cases h2 : ts = [Expr.Tok.null]
    · rw [if_pos (Or.inr (h.null.mpr h2))]; subst h2; simp only [Expr.wrapS]; exact h.sp
    · rw [if_neg (by intro hc; rcases hc with hc | hc; exact h1 (h.head.mp hc); exact h2 (h.null.mp hc))]
      have hw : Expr.wrapS ts = Expr.Tok.lp :: ts ++ [Expr.Tok.rp] := by
        unfold Expr.wrapS
        split
        · simp at h1
        · exact absurd rfl h2
        · rfl
      rw [hw]
      have := Spells.tok (P := P) Expr.Tok.lp (Spells.append h.sp (Spells.single P Expr.Tok.rp))
      simpa [tokText] using this

def tailS : List Str → Str
  | [] => [41]
  | x :: rest => 44 :: 32 :: (x ++ tailS rest)

theorem join_tail : ∀ (rest : List Str) (x : Str), joinStr [44, 32] (x :: rest) ++ [41] = x ++ tailS rest
  | [], x => by simp [joinStr, tailS]
  | y :: rest, x => by
    simp only [joinStr, tailS, List.append_assoc]
    rw [join_tail rest y]; simp

theorem seqStr_cons (x : Str) (rest : List Str) : seqStr (x :: rest) = 40 :: (x ++ tailS rest) := by
  rw [seqStr, join_tail]

theorem rep_op (P : Params) (t : Expr.Tok) (tx : Str) (htx : tokText P t = tx) {t1 t2 : List Expr.Tok} {s1 s2 : Str}
    (h1 : Rep P t1 s1) (h2 : Spells P t2 s2) :
    Rep P (Expr.Tok.lp :: (Expr.wrapS t1 ++ t :: t2) ++ [Expr.Tok.rp])
      (40 :: (wrapStr s1 ++ 32 :: (tx ++ 32 :: (s2 ++ [41])))) := by
  refine ⟨?_, by simp, ?_⟩
  · have := Spells.tok (P := P) Expr.Tok.lp (Spells.append (wrap_rep h1)
      (Spells.blank (Spells.tok t (Spells.blank (Spells.append h2 (Spells.single P Expr.Tok.rp))))))
    rw [htx] at this
    simpa [tokText] using this
  · constructor
    · intro h; simp [nullText] at h
    · intro h; simp at h

theorem not_null_of_head {s : Str} {h : Nat} {t : Str} (hs : s = h :: t) (hh : h ≠ 78) : ¬ s = nullText := by
  intro e; rw [hs, nullText] at e; simp at e; exact hh e.1

theorem spells_aux (P : Params) (hT : TextOk P) (d : String) : ∀ n : Node,
    (Expr.wf false (Expr.toT d n) = true → Rep P (Expr.render d false n) (renderS P d n)) ∧
    (Expr.wf true (Expr.toT d n) = true →
      Spells P (Expr.render d false n) (renderS P d n) ∧ Spells P (Expr.render d true n) (tailS (itemsS P d n))) := by
  intro n
  induction n with
  | field c =>
    refine ⟨fun _ => ⟨Spells.single P (.col c), ?_, ?_⟩, fun h => by simp [Expr.toT, Expr.wf] at h⟩
    · obtain ⟨h, t, ht, hh⟩ := hT.tableHead c
      simp [renderS, Expr.render, ht, hh]
    · simp only [renderS, Expr.render]
      constructor
      · intro e
        have : 46 ∈ nullText := by rw [← e]; simp
        simp [nullText] at this
      · intro e; simp at e
  | int i =>
    refine ⟨fun _ => ?_, fun h => by simp [Expr.toT, Expr.wf] at h; split at h <;> simp [Expr.wf] at h⟩
    simp only [renderS, Expr.render]
    by_cases hi : i < 0
    · rw [if_pos hi, hT.intNeg i hi]
      refine ⟨?_, by simp, ?_⟩
      · have := Spells.tok (P := P) (.pre .neg) (Spells.single P (.num (.int i.natAbs)))
        simpa [tokText, preText] using this
      · constructor
        · intro e; simp [nullText] at e
        · intro e; simp at e
    · rw [if_neg hi]
      have e : i = (i.natAbs : Int) := by omega
      obtain ⟨h, t, ht, h1, h2⟩ := hT.intDigit i.natAbs
      refine ⟨?_, ?_, ?_⟩
      · have := Spells.single P (.num (.int i.natAbs))
        simp only [tokText] at this; rw [← e] at this; exact this
      · rw [e, ht]; simp; omega
      · constructor
        · intro e'; rw [e] at e'; exact absurd e' (not_null_of_head ht (by omega))
        · intro e'; simp at e'
  | flt b i =>
    refine ⟨fun _ => ?_, fun h => by simp [Expr.toT, Expr.wf] at h; split at h <;> simp [Expr.wf] at h⟩
    simp only [renderS, Expr.render]
    cases b
    · simp only [Bool.false_eq_true, if_false]
      obtain ⟨h, t, ht, h1, h2⟩ := hT.fltDigit i
      refine ⟨Spells.single P (.num (.flt i)), ?_, ?_⟩
      · rw [ht]; simp; omega
      · constructor
        · intro e'; exact absurd e' (not_null_of_head ht (by omega))
        · intro e'; simp at e'
    · simp only [if_true]
      rw [hT.fltNeg i]
      refine ⟨?_, by simp, ?_⟩
      · have := Spells.tok (P := P) (.pre .neg) (Spells.single P (.num (.flt i)))
        simpa [tokText, preText] using this
      · constructor
        · intro e; simp [nullText] at e
        · intro e; simp at e
  | none =>
    refine ⟨fun _ => ⟨Spells.single P .null, by simp [renderS, Expr.render, nullText], by simp [renderS, Expr.render]⟩,
      fun h => by simp [Expr.toT, Expr.wf] at h⟩
  | sqlop o l r ihl ihr =>
    refine ⟨fun h => ?_, fun h => by simp [Expr.toT, Expr.wf] at h⟩
    simp only [Expr.toT, Expr.wf, Bool.and_eq_true] at h
    have hl := ihl.1 h.1
    have hr := ihr.1 h.2
    simp only [renderS, Expr.render, Expr.renderOp, opStr, Bool.false_eq_true, if_false]
    exact rep_op P (.op o) _ rfl hl (wrap_rep hr)
  | sqlin x l ihx ihl =>
    refine ⟨fun h => ?_, fun h => by simp [Expr.toT, Expr.wf] at h⟩
    simp only [Expr.toT, Expr.wf, Bool.and_eq_true] at h
    have hx := ihx.1 h.1
    have hl := (ihl.2 h.2).1
    simp only [renderS, Expr.render, opStr, Bool.false_eq_true, if_false]
    have hw : wrapStr (renderS P d l) = renderS P d l := by
      cases l <;> simp [Expr.toT, Expr.wf] at h <;> try (split at h <;> simp [Expr.wf] at h)
      all_goals simp [renderS, seqStr, wrapStr]
    rw [hw]
    exact rep_op P .kwIn _ rfl hx hl
  | modulo l r ihl ihr =>
    refine ⟨fun h => ?_, fun h => by simp [Expr.toT, Expr.wf] at h; split at h <;> simp [Expr.wf] at h⟩
    simp only [Expr.toT] at h
    simp only [renderS, Expr.render]
    by_cases hd : Expr.moduloInfix d = true
    · rw [if_pos hd] at h ⊢; rw [if_pos hd]
      simp only [Expr.wf, Bool.and_eq_true] at h
      simp only [Expr.renderOp, opStr, Bool.false_eq_true, if_false]
      exact rep_op P (.op Expr.Extracted.moduloOp) _ rfl (ihl.1 h.1) (wrap_rep (ihr.1 h.2))
    · rw [if_neg hd] at h ⊢; rw [if_neg hd]
      simp only [Expr.wf, Bool.and_eq_true, and_true] at h
      have hl := (ihl.1 h.1).sp
      have hr := (ihr.1 h.2).sp
      refine ⟨?_, by simp [modStr, modFnText], ?_⟩
      · have := Spells.tok (P := P) (.fn Expr.Extracted.moduloFn) (Spells.tok .lp (Spells.append hl
          (Spells.tok .comma (Spells.blank (Spells.append hr (Spells.single P .rp))))))
        simpa [tokText, modStr] using this
      · constructor
        · intro e; simp [modStr, modFnText, nullText] at e
        · intro e; simp at e
  | «prefix» p x ih =>
    refine ⟨fun h => ?_, fun h => by simp [Expr.toT, Expr.wf] at h⟩
    simp only [Expr.toT, Expr.wf] at h
    have hx := (ih.1 h).sp
    simp only [renderS, Expr.render, prefixStr]
    refine ⟨?_, ?_, ?_⟩
    · exact Spells.tok (.pre p) (Spells.blank hx)
    · cases p <;> simp [preText]
    · constructor
      · intro e; cases p <;> simp [preText, nullText] at e
      · intro e; simp at e
  | lnil =>
    refine ⟨fun h => by simp [Expr.toT, Expr.wf] at h, fun _ => ⟨?_, ?_⟩⟩
    · have := Spells.tok (P := P) .lp (Spells.single P .rp)
      simpa [tokText, renderS, seqStr, joinStr, Expr.render] using this
    · simpa [tokText, itemsS, tailS, Expr.render] using Spells.single P .rp
  | lcons h t ihh iht =>
    refine ⟨fun h => by simp [Expr.toT, Expr.wf] at h, fun hw => ?_⟩
    simp only [Expr.toT, Expr.wf, Bool.and_eq_true] at hw
    have hh := (ihh.1 hw.1).sp
    have ht := (iht.2 hw.2).2
    constructor
    · simp only [renderS, Expr.render, seqStr_cons]
      exact Spells.tok .lp (Spells.append hh ht)
    · simp only [itemsS, Expr.render, tailS]
      exact Spells.tok .comma (Spells.blank (Spells.append hh ht))

theorem TextOk.leafOk {P : Params} (h : TextOk P) : LeafOk P := by
  constructor
  · intro i
    by_cases hi : i < 0
    · rw [h.intNeg i hi]; simp
    · have e : i = (i.natAbs : Int) := by omega
      obtain ⟨a, t, ht, _⟩ := h.intDigit i.natAbs
      rw [e, ht]; simp
  · intro b i
    cases b
    · obtain ⟨a, t, ht, _⟩ := h.fltDigit i
      rw [ht]; simp
    · rw [h.fltNeg i]; simp

/-- the text of an expression-shaped graph spells its token rendering -/
theorem spells_render (P : Params) (hT : TextOk P) (d : String) (n : Node)
    (h : Expr.wf false (Expr.toT d n) = true) : Spells P (Expr.render d false n) (renderS P d n) :=
  ((spells_aux P hT d n).1 h).sp
end SqlObjVerif.ExprX
