import SqlObjVerif.Lemmas.EvSubXConns
/-!
C19 translator tie, part 20: what `listen` does to the clone lists / connections of every class.
-/
namespace SqlObjVerif.Events
open SqlObjVerif.PyVer

/-- the `(receiver, signal)` pairs connected for sender class `c`, in connection order -/
def connsOf (w : LW) (c : PVal) : List (PVal × PVal) :=
  (w.conns.filter fun p => decide (p.2.2.1 = c)).map fun p => (p.1, p.2.1)

def encClone (p : PVal × PVal) : PVal := .pair (weakOf p.1) p.2

def clonesRec (c : PVal) : List (PVal × List PVal) → List PVal
  | [] => []
  | q :: cl => if q.1 = c then q.2 else clonesRec c cl

theorem clonesOf_eq (cl : List (PVal × List PVal)) (c : PVal) : clonesOf cl c = clonesRec c cl := by
  induction cl with
  | nil => rfl
  | cons q cl ih =>
    unfold clonesOf at ih ⊢
    by_cases h : q.1 = c
    · simp [h, clonesRec]
    · simpa [List.find?_cons, h, clonesRec] using ih

theorem hasClones_cons (q : PVal × List PVal) (cl : List (PVal × List PVal)) (c : PVal) :
    hasClones (q :: cl) c = (decide (q.1 = c) || hasClones cl c) := by simp [hasClones]

theorem clonesRec_addClone (c x c' : PVal) : ∀ cl : List (PVal × List PVal),
    clonesRec c' (addClone c x cl) = if c' = c ∧ hasClones cl c = true then clonesRec c cl ++ [x] else clonesRec c' cl := by
  intro cl
  induction cl with
  | nil => simp [addClone, clonesRec, hasClones]
  | cons q cl ih =>
    rw [hasClones_cons]
    by_cases hq : q.1 = c
    · by_cases hc : c' = c
      · subst hc; simp [addClone, clonesRec, hq]
      · have hq' : ¬ c = c' := fun e => hc e.symm
        simp [addClone, clonesRec, hq, hc, hq']
    · by_cases hq' : q.1 = c'
      · have hc : ¬ c' = c := fun e => hq (hq'.trans e)
        simp [addClone, clonesRec, hq', hc]
      · simp [addClone, clonesRec, hq, hq', ih]

theorem clonesRec_append_new (c c' : PVal) : ∀ cl : List (PVal × List PVal), hasClones cl c = false →
    clonesRec c' (cl ++ [(c, [])]) = clonesRec c' cl ∧ hasClones (cl ++ [(c, [])]) c = true := by
  intro cl
  induction cl with
  | nil => intro _; by_cases h : c = c' <;> simp [clonesRec, hasClones, h]
  | cons q cl ih =>
    intro h
    rw [hasClones_cons] at h
    have hq : ¬ q.1 = c := by intro e; simp [e] at h
    have hcl : hasClones cl c = false := by simpa [hq] using h
    obtain ⟨h1, h2⟩ := ih hcl
    refine ⟨?_, by simp [hasClones] at h2 ⊢⟩
    by_cases hq' : q.1 = c' <;> simp [clonesRec, hq', h1]

/-- `listen(r, c, s)` on the clone lists -/
theorem clonesOf_listened (w : LW) (r c s b c' : PVal) :
    clonesOf (listened w r c s b).clones c' = if c' = c then clonesOf w.clones c ++ [encClone (r, s)] else clonesOf w.clones c' := by
  simp only [clonesOf_eq, listened, encClone]
  cases hh : hasClones w.clones c
  · obtain ⟨h1, h2⟩ := clonesRec_append_new c c' w.clones hh
    obtain ⟨h1c, -⟩ := clonesRec_append_new c c w.clones hh
    simp only [Bool.false_eq_true, if_false]
    rw [clonesRec_addClone, h2, h1, h1c]
    simp
  · simp only [if_true]
    rw [clonesRec_addClone, hh]
    simp

theorem connsOf_listened (w : LW) (r c s b c' : PVal) :
    connsOf (listened w r c s b) c' = if c' = c then connsOf w c ++ [(r, s)] else connsOf w c' := by
  unfold connsOf listened
  by_cases h : c' = c
  · subst h; simp [List.filter_append]
  · have h' : ¬ c = c' := fun e => h e.symm
    simp [List.filter_append, h, h']

end SqlObjVerif.Events
