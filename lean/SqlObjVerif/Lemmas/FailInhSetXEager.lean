import SqlObjVerif.Lemmas.FailInhSetXLoop
/-!
C06, `SQLObject.set(self, _suppress_set_sig=b, **kw)` on an EAGER class with extra keywords whose setters are TRANSLATED
code (any call table satisfying `SimCall`, in particular `propCallT parentSetT`): = the hand-compiled tree
`Fail.setProg sch c id kw ex .done` under the schedule (`inj`, `vqOf kw ++ vqEx ex`), for both values of the suppress flag
(it only guards a `send`).  Generalisation of `setF_extras_eager_core` (`Lemmas/FailXSetExEager.lean`).
-/
namespace SqlObjVerif.PyFail
open SqlObjVerif.PyMain (PV FnKind Flag Expr Cond LExpr Target DRef ColAttr R mapR ofOpt PDict CVal
  dget dhas dset dupdate dictOf sortByKey ofVal toVal? pvIdx pyBool nameOf natOf itemsOf dbNameOf optMap
  updItemOf dictItemOf cvOf Block)
open SqlObjVerif.PyMain.Extracted
open SqlObjVerif.Fail (Err Schema Inj Extra clsOf hit exec bump applyMem Mem updPending rowVals In allOk)
open SqlObjVerif.PyPure (dset_not_mem dictOf_nodup filter_fst_none filter_fst_all mapR_ok_of filter_fst_map nodup_keys_filter)
open SqlObjVerif.FailInhSet (exOk)

theorem setT_extras_eager_core (call : CallT) (hcall : SimCall call) (b : Bool)
    (sch : Schema) (inj : Option Inj) (props : Nat → Extra) (s : Fail.St) (c id : Nat)
    (pd kw exs : List (Nat × In))
    (hl : (clsOf sch c).lazy = false) (hnd : (pd.map (·.1)).Nodup)
    (hkwF : pd.filter (fun x => Nat.blt x.1 (clsOf sch c).cols.length) = kw)
    (hexF : pd.filter (fun x => !Nat.blt x.1 (clsOf sch c).cols.length) = exs)
    (hexok : ∀ e ∈ exs, exOk sch c (props e.1)) :
    viewObs (setFWith call b (mkW sch inj props s c id (vqOf kw ++ vqEx (exs.map fun e => props e.1))) (kwPV pd)) =
      some (runObs (Fail.run sch inj (Fail.setProg sch c id kw (exs.map fun e => props e.1) .done) s)) := by
  have hlt : ∀ e ∈ kw, e.1 < (clsOf sch c).cols.length := by
    intro e he; rw [← hkwF, List.mem_filter] at he; simpa [Nat.blt_eq] using he.2
  have hge : ∀ e ∈ exs, Nat.blt e.1 (clsOf sch c).cols.length = false := by
    intro e he; rw [← hexF, List.mem_filter] at he; simpa using he.2
  have hkwnd : (kw.map (·.1)).Nodup := hkwF ▸ nodup_keys_filter pd _ hnd
  have hexnd : (exs.map (·.1)).Nodup := hexF ▸ nodup_keys_filter pd _ hnd
  have hf1 := filter_fst_map pd (fun x => !Nat.blt x.fst (clsOf sch c).cols.length) (fun x => (PV.name x.fst).pair (ofVal x.snd.val))
  have hf2 := filter_fst_map pd (fun x => Nat.blt x.fst (clsOf sch c).cols.length) (fun x => (PV.name x.fst).pair (ofVal x.snd.val))
  rw [hexF] at hf1
  rw [hkwF] at hf2
  have hkw0 : dictOf (kw.map fun e => (e.1, ofVal e.2.val)) = kw.map fun e => (e.1, ofVal e.2.val) :=
    dictOf_nodup _ (by simpa [Function.comp_def] using hkwnd)
  have hex0 : dictOf (exs.map fun e => (e.1, ofVal e.2.val)) = exs.map fun e => (e.1, ofVal e.2.val) :=
    dictOf_nodup _ (by simpa [Function.comp_def] using hexnd)
  clear hkwF hexF hnd
  unfold setFWith setProg set_nlocals set_nlists set_ndicts
  pfonly [hl, kwPV, hf1, hf2, hkw0, hex0]
  simp only [Function.comp_def]
  generalize hF : forLoop _ _ _ = r
  obtain ⟨hOk, hBad⟩ := set_for4_loop call kw
    { sch := sch, inj := inj, props := props, s := s, c := c, id := id, creating := false,
      nobj := { vals := [], cv := [], dirty := false }, sigSuppress := false, lock := true,
      vq := vqOf kw ++ vqEx (exs.map fun e => props e.1) }
    (vqEx (exs.map fun e => props e.1)) (some (.bool b)) none none none none none none none none none none none [[], [], []] (kwPV kw) (kwPV exs) [] []
    rfl (fun e he => by simpa [Nat.blt_eq] using hlt e he) hkwnd (by simp)
  simp only [kwPV, pvOfIn] at hOk hBad
  cases hok : allOk kw
  · obtain ⟨st', q, hb, hw⟩ := hBad hok
    have hr : r = .exc st' .invalid := hF.symm.trans hb
    subst hr
    clear hF hOk hBad hb
    pfonly [hw]
    simp [viewObs, Outcome.view, runObs, Fail.setProg, hl, run_event, Fail.run_validates, hok]
  · obtain ⟨b3, b4, b5, b6, b7, hb⟩ := hOk hok
    have hr : r = _ := hF.symm.trans hb
    subst hr
    clear hF hOk hBad hb
    simp only [setSt]
    pfonly [kwPV]
    generalize hF : forLoop _ _ _ = r
    obtain ⟨e3, e4, s1, q, he, hobs, _⟩ := set_extra_loopT call hcall set_for5 rfl exs
      { sch := sch, inj := inj, props := props, s := s, c := c, id := id, creating := false,
        nobj := { vals := [], cv := [], dirty := false }, sigSuppress := false, lock := true,
        vq := vqEx (exs.map fun e => props e.1) } []
      (some (.bool b)) none none b3 b4 b5 b6 b7 none none none none [[], [], []]
      (List.map (fun e => (e.1, ofVal e.2.val)) kw) (List.map (fun e => (e.1, ofVal e.2.val)) exs)
      (List.map (fun e => (e.1, ofVal e.2.val)) kw) (List.map (fun e => (e.1, ofVal e.2.val)) kw) hge rfl (by simp) hexok
    simp only [setSt, pvOfIn] at he hobs
    have hr : r = _ := hF.symm.trans he
    subst hr
    clear hF he
    -- the hand model: validation passed, the extras loop, then the UPDATE of the plain columns
    have hhand : Fail.run sch inj (Fail.setProg sch c id kw (exs.map fun e => props e.1) .done) s =
        thenRun (Fail.run sch inj (Fail.extras sch c id (exs.map fun e => props e.1) .done) s)
          (Fail.run sch inj (if (Fail.asgOf kw).isEmpty then .mem (.cache c id (Fail.asgOf kw)) (.event 2 .done)
             else .stmt (.update c id (Fail.sortAsg (Fail.asgOf kw))) <| .mem (.cache c id (Fail.asgOf kw)) <| .event 2 .done)) := by
      simp only [Fail.setProg, hl, Bool.false_eq_true, if_false]
      frun [Fail.run_validates, hok]
      exact run_extras_bind sch inj c id _ _ s
    rw [hhand]
    generalize Fail.run sch inj (Fail.extras sch c id (exs.map fun e => props e.1) .done) s = rx at hobs
    obtain ⟨m1, x⟩ := rx
    cases x with
    | some e =>
      pfonly [FW.setS]
      simp [viewObs, Outcome.view, runObs, hobs]
    | none =>
      simp only [thenRun_none]
      have hsim := (run_sim sch inj
        (if (Fail.asgOf kw).isEmpty then .mem (.cache c id (Fail.asgOf kw)) (.event 2 .done)
         else .stmt (.update c id (Fail.sortAsg (Fail.asgOf kw))) <| .mem (.cache c id (Fail.asgOf kw)) <| .event 2 .done)
        (by split <;> simp [noDyn]) s1 m1 hobs).runObs_eq
      rw [← hsim]
      clear hsim hobs
      have hasg : (Fail.asgOf kw).isEmpty = kw.isEmpty := by cases kw <;> rfl
      by_cases hP : kw = []
      · subst hP
        pfonly [FW.setS]
        simp [viewObs, Outcome.view, runObs, Fail.asgOf, run_event, run_mem, run_done, obs, applyMem, Fail.assign]
        exact (mapInst_self _ _ _).symm
      · pfonly [hP, FW.setS]
        generalize hM : mapR _ kw = m
        have hm := mapR_ok_of hM (fun e => (e.1, PV.pair (.name e.1) (ofVal e.2.val))) (by
          intro x hx
          simp [hlt x hx])
        subst hm
        clear hM
        simp only [PyPure.R.bind_ok, PyPure.sortByKey_map, List.map_map]
        pfonly [hP]
        generalize hM : mapR _ (sortByKey kw) = m
        have hm := mapR_ok_of hM (fun e => PV.pair (.dbName e.1) (ofVal e.2.val)) (by
          intro x hx
          simp [hlt x ((PyPure.mem_sortByKey _ _).mp hx)])
        subst hm
        clear hM
        have hsort : (sortByKey kw).map (fun x => (x.1, x.2.val)) = Fail.sortAsg (Fail.asgOf kw) := by
          rw [← sortByKey_eq_sortAsg _ (by simpa [Fail.asgOf, Function.comp_def] using hkwnd)]
          exact (PyPure.sortByKey_map (fun e => e.2.val) kw).symm
        have hasg' : ¬ Fail.asgOf kw = [] := by simpa [Fail.asgOf] using hP
        cases hs : sendStmt sch inj (Fail.Stmt.update c id (Fail.sortAsg (Fail.asgOf kw))) s1 with
        | mk s2 r =>
        cases r
        · pfonly [hP, hsort, hs, FW.setS]
          simp only [Function.comp_def]
          have hitems : kw.map (fun x => (PV.name x.1).pair (ofVal x.2.val)) =
              (Fail.asgOf kw).map fun e => PV.pair (.name e.1) (ofVal e.2) := by simp [Fail.asgOf]
          rw [hitems]
          generalize hF : forLoop _ _ _ = r
          obtain ⟨c3, c4, hc⟩ := set_cache_loop call set_for6 rfl (Fail.asgOf kw)
            { sch := sch, inj := inj, props := props, s := s2, c := c, id := id, creating := false,
              nobj := { vals := [], cv := [], dirty := false }, sigSuppress := false, lock := true, vq := q }
            (some (.bool b)) none none e3 e4 b5 b6 b7 none none none none
            [List.map (fun x => (PV.name x.1).pair (ofVal x.2.val)) (sortByKey kw),
              List.map (fun e => (PV.dbName e.1).pair (ofVal e.2.val)) (sortByKey kw), []]
            (List.map (fun e => (e.1, ofVal e.2.val)) kw) (List.map (fun e => (e.1, ofVal e.2.val)) exs)
            (List.map (fun e => (e.1, ofVal e.2.val)) kw)
            (List.map (fun e => (e.1, ofVal e.2.val)) kw)
          have hr : r = _ := hF.symm.trans hc
          subst hr
          clear hF hc
          rw [setVals_eq _ _ rfl]
          simp only [setSt]
          pfonly []
          rw [if_neg hasg']
          frun [hs]
          simp [viewObs, Outcome.view, runObs, obs_cacheFold]
        · pfonly [hP, hsort, hs, FW.setS]
          rw [if_neg hasg']
          frun [hs]
          simp [viewObs, Outcome.view, runObs]


end SqlObjVerif.PyFail
