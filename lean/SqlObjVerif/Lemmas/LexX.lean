import SqlObjVerif.Model.LexX
/-!
# C02 / C17 — the translated `StringLikeConverter`, `quote_str`, `unquote_str`, `_quote_like_special` equal the hand model
(`Lex.renderString`, `Lex.quoteStr`, `Like.unquoteStr`, `Like.likeSpecial`), for every string, all 7 dialects, any call depth
-/
namespace SqlObjVerif.LexX
open SqlObjVerif.PyLex
open SqlObjVerif.PyLex.Extracted

theorem replGo_single (o : Nat) (r s : Lex.Str) : replGo [o] r 0 s = Lex.replace1 o r s := by
  induction s with
  | nil => simp [replGo, Lex.replace1]
  | cons c cs ih =>
    simp only [replGo, Lex.replace1, List.flatMap_cons] at ih ⊢
    by_cases h : c = o
    · subst h; simp [ih]
    · have h' : ¬ (o = c) := fun e => h e.symm
      simp [h, h', ih]

@[simp] theorem pyReplace_single (o : Nat) (r s : Lex.Str) : pyReplace [o] r s = Lex.replace1 o r s := by
  simp [pyReplace, replGo_single]

theorem findFrom_single (c : Nat) (s : List Nat) (i : Nat) :
    (findFrom [c] s i).isSome = s.contains c := by
  induction s generalizing i with
  | nil => simp [findFrom]
  | cons x s ih =>
    simp only [findFrom]
    by_cases h : x = c
    · subst h; simp
    · have h' : ¬ (c = x) := fun e => h e.symm
      simp [h', ih]

@[simp] theorem strIn_single (c : Nat) (s : List Nat) : strIn [c] s = s.contains c := findFrom_single c s 0

@[simp] theorem isNoneB_none : isNoneB .none = true := rfl
@[simp] theorem isNoneB_fn (f : String) : isNoneB (.fn f) = false := rfl
@[simp] theorem isNoneB_str (s : Lex.Str) : isNoneB (.str s) = false := rfl
@[simp] theorem isNoneB_int (i : Int) : isNoneB (.int i) = false := rfl
@[simp] theorem isNoneB_bool (b : Bool) : isNoneB (.bool b) = false := rfl
@[simp] theorem isNoneB_obj (c : String) (fs : List (String × Val)) : isNoneB (.obj c fs) = false := rfl
@[simp] theorem isNoneB_list (l : List Val) : isNoneB (.list l) = false := rfl
@[simp] theorem isNoneB_tuple (l : List Val) : isNoneB (.tuple l) = false := rfl

/-- a name that is not a builtin is a module-level function -/
theorem callFn_ext (I : Iface) (f : String) (args : List Val) (kw : List (String × Val))
    (h1 : f ≠ "repr") (h2 : f ≠ "str") (h3 : f ≠ "int") (h4 : f ≠ "len") : callFn I f args kw = I.fn f args kw := by
  simp [callFn, h1, h2, h3, h4]

@[simp] theorem callFn_repr_int (I : Iface) (i : Int) : callFn I "repr" [.int i] [] = .ok (.str (Lex.renderInt i)) := by
  simp [callFn]
@[simp] theorem callFn_int_int (I : Iface) (i : Int) : callFn I "int" [.int i] [] = .ok (.int i) := by
  simp [callFn]
@[simp] theorem callFn_int_bool (I : Iface) (b : Bool) : callFn I "int" [.bool b] [] = .ok (.int (if b then 1 else 0)) := by
  simp [callFn]
@[simp] theorem callFn_repr_obj (I : Iface) (c : String) (fs : List (String × Val)) :
    callFn I "repr" [.obj c fs] [] = (I.reprOf (.obj c fs)).bind fun s => .ok (.str s) := by
  simp [callFn]

macro "pyl" : tactic => `(tactic| simp [Stmt.exec, Block.exec, Expr.eval, Exprs.eval, attrOf, aget, Target.bind, bindAll,
  zipKw, iterOf, strMethod, pyMod, pyFormat, fmtGo, fmtArgs, Res.seq_norm, tupIn, forLoop, loopStep, tryRes, xGlob, Env.ofArgs, *])

macro "pylw" "[" ts:Lean.Parser.Tactic.simpLemma,* "]" : tactic => `(tactic| simp [Stmt.exec, Block.exec, Expr.eval, Exprs.eval, attrOf, aget, Target.bind, bindAll,
  zipKw, iterOf, strMethod, pyMod, pyFormat, fmtGo, fmtArgs, Res.seq_norm, tupIn, forLoop, loopStep, tryRes, xGlob, Env.ofArgs, $ts,*])

variable (P : Ext) (n : Nat)

@[simp] theorem isSub_str_array : xIsSub P "str" "array" = false := by
  simp [xIsSub, resolve, aliases, bases, aget]
@[simp] theorem isSub_str_buffer : xIsSub P "str" "buffer_type" = false := by
  simp [xIsSub, resolve, aliases, bases, aget]
@[simp] theorem isSub_str_string : xIsSub P "str" "string_type" = true := by
  simp [xIsSub, resolve, aliases, bases, aget]
@[simp] theorem isSub_str_expr : xIsSub P "str" "SQLExpression" = false := by
  simp [xIsSub, resolve, aliases, bases, aget, builtinTypes]

macro "lexm" : tactic => `(tactic| simp [ret, Lex.renderString, Lex.quoteStr, Lex.quoteWith, Lex.escape, Lex.escAction, Lex.escapeSeq, Lex.Extracted.stringBranches, Lex.Extracted.ePrefixDialects, Lex.Extracted.sqlStringReplace, Lex.Extracted.plainOpen, Lex.Extracted.plainClose, Lex.Extracted.eOpen, Lex.Extracted.eClose, Lex.Extracted.ePrefixTrigger,
  Lex.Extracted.qsDialects, Lex.Extracted.qsTrigger, Lex.Extracted.qsEOpen, Lex.Extracted.qsEClose, Lex.Extracted.qsOpen, Lex.Extracted.qsClose, *])

theorem slc (d : Lex.Dialect) (s : Lex.Str) :
    stringLikeConverterX (world P n) s (.str (dbName d)) = ret (Lex.renderString d s) := by
  unfold stringLikeConverterX run StringLikeConverter StringLikeConverter_s0 StringLikeConverter_s1 StringLikeConverter_s2
    StringLikeConverter_s3 StringLikeConverter_for0
  cases d <;> simp [dbName] <;> pylw [sqlStringReplace]
  case postgres =>
    split <;> rename_i h <;> pyl <;> lexm
  all_goals lexm

theorem qs (d : Lex.Dialect) (s : Lex.Str) :
    quoteStrX (world P n) s (.str (dbName d)) = ret (Lex.quoteStr d s) := by
  unfold quoteStrX run quote_str quote_str_s0 quote_str_s1
  cases d <;> simp [dbName] <;> pyl
  case postgres =>
    split <;> rename_i h <;> pyl <;> lexm
  all_goals lexm


theorem isPrefixOf_cons2 (a b : Nat) (l : List Nat) :
    [a, b].isPrefixOf l = match l with
      | x :: y :: _ => (a == x && b == y)
      | _ => false := by
  rcases l with _ | ⟨x, _ | ⟨y, t⟩⟩ <;> simp [List.isPrefixOf]

theorem upper_prefix1 {up : Nat → Lex.Str} (h : UpperOK up) (e : Nat) : [69, 39].isPrefixOf (up e) = false := by
  rcases hu : up e with _ | ⟨x, _ | ⟨y, t⟩⟩ <;> simp [List.isPrefixOf]
  intro hx hy
  subst hx
  have := h.onlyE e (by simp [hu])
  rcases this with rfl | rfl
  · rw [h.upE] at hu; simp at hu
  · rw [h.upe] at hu; simp at hu

theorem upper_prefix2 {up : Nat → Lex.Str} (h : UpperOK up) (e q : Nat) :
    [69, 39].isPrefixOf (up e ++ up q) = (decide (e = 69 ∨ e = 101) && decide (q = 39)) := by
  by_cases he : e = 69 ∨ e = 101
  · have hu : up e = [69] := by rcases he with rfl | rfl; exact h.upE; exact h.upe
    rw [hu]
    simp only [he, decide_true, Bool.true_and]
    rcases hq : up q with _ | ⟨x, t⟩
    · exact absurd hq (h.nonempty q)
    · by_cases hx : x = 39
      · subst hx
        have := h.onlyQ q (by simp [hq])
        simp [List.isPrefixOf, this]
      · have : q ≠ 39 := by
          intro hq39; subst hq39; rw [h.upq] at hq; simp at hq; exact hx hq.1.symm
        have hx' : ¬ (39 = x) := fun e => hx e.symm
        simp [List.isPrefixOf, this, hx']
  · simp only [he, decide_false, Bool.false_and]
    rcases hu : up e with _ | ⟨x, t⟩
    · exact absurd hu (h.nonempty e)
    · have : x ≠ 69 := by
        intro hx; subst hx; exact he (h.onlyE e (by simp [hu]))
      have hx' : ¬ (69 = x) := fun e => this e.symm
      simp [List.isPrefixOf, hx']

theorem isPrefixOf_single (c : Nat) (m : List Nat) : [c].isPrefixOf m = (m.head? == some c) := by
  cases m <;> simp [List.isPrefixOf, Bool.beq_comm]

theorem isSuffixOf_single (c : Nat) (l : List Nat) : [c].isSuffixOf l = (l.getLast? == some c) := by
  simp only [List.isSuffixOf, List.reverse_cons, List.reverse_nil, List.nil_append, isPrefixOf_single,
    List.head?_reverse]

theorem uq (hup : UpperOK P.upper) (s : Lex.Str) :
    unquoteStrX (world P n) s = ret (Like.unquoteStr s) := by
  unfold unquoteStrX run unquote_str unquote_str_s0
  rcases s with _ | ⟨e, _ | ⟨q, t⟩⟩
  · pylw [pySlice, clampIdx, Like.unquoteStr, ret]
  · pylw [pySlice, clampIdx, Like.unquoteStr, ret, upper_prefix1 hup]
    by_cases h : e = 39
    · subst h; pylw [isSuffixOf_single]
    · have h' : ¬ (39 = e) := fun x => h x.symm
      pylw [isSuffixOf_single, h, h', isPrefixOf_single]
  · by_cases hE : e = 69 ∨ e = 101 <;> by_cases hq : q = 39 <;> by_cases hl : (q :: t).getLast? = some 39 <;>
      by_cases h3 : e = 39 <;>
      pylw [pySlice, clampIdx, Like.unquoteStr, ret, upper_prefix2 hup, isSuffixOf_single, isPrefixOf_single,
        List.dropLast_eq_take, hE, hq, hl, h3] <;> split <;> simp_all

macro "likem" : tactic => `(tactic| simp [ret, Like.likeSpecial, Like.likeReplOf, Like.likeEsc, Lex.Extracted.likeChain,
  Lex.Extracted.likeEscSpecialDialects, Lex.Extracted.likeEscSpecial, Lex.Extracted.likeEscDefault, *])

theorem qls (d : Lex.Dialect) (s : Lex.Str) :
    quoteLikeSpecialX (world P n) s (.str (dbName d)) = ret (Like.likeSpecial d s) := by
  unfold quoteLikeSpecialX run quote_like_special quote_like_special_s0 quote_like_special_s1 quote_like_special_s2
  cases d <;> simp [dbName] <;> pyl <;> likem

/-! ### calls by name run the translated callee -/

@[simp] theorem xFn_lookup (I : Iface) (v : Val) : xFn I "lookupConverter" [v] [] = .ok (lookupConverter v) := by
  simp [xFn]

theorem xFn_prog (I : Iface) (f : String) (p : Block) (args : List Val) (h : progOf f = some p)
    (h1 : f ≠ "lookupConverter") (h2 : f ≠ "sqlrepr") (h3 : f ≠ "LIKE") (h4 : f ≠ "_LikeQuoted") :
    xFn I f args [] = (run I p args).toR := by
  simp [xFn, h, h1, h2, h3, h4]

@[simp] theorem xFn_slc (I : Iface) (args : List Val) :
    xFn I "StringLikeConverter" args [] = (run I StringLikeConverter args).toR :=
  xFn_prog I _ _ args (by simp [progOf]) (by decide) (by decide) (by decide) (by decide)
@[simp] theorem xFn_qs (I : Iface) (args : List Val) :
    xFn I "quote_str" args [] = (run I quote_str args).toR :=
  xFn_prog I _ _ args (by simp [progOf]) (by decide) (by decide) (by decide) (by decide)
@[simp] theorem xFn_uq (I : Iface) (args : List Val) :
    xFn I "unquote_str" args [] = (run I unquote_str args).toR :=
  xFn_prog I _ _ args (by simp [progOf]) (by decide) (by decide) (by decide) (by decide)
@[simp] theorem xFn_qls (I : Iface) (args : List Val) :
    xFn I "_quote_like_special" args [] = (run I quote_like_special args).toR :=
  xFn_prog I _ _ args (by simp [progOf]) (by decide) (by decide) (by decide) (by decide)

@[simp] theorem xFn_sqlrepr2 (I : Iface) (v db : Val) :
    xFn I "sqlrepr" [v, db] [] = (run I Extracted.sqlrepr [v, db]).toR := by
  simp [xFn]

@[simp] theorem lookupConverter_str (s : Lex.Str) : lookupConverter (.str s) = .fn "StringLikeConverter" := by
  simp [lookupConverter, registry, aget]

@[simp] theorem run_slc (d : Lex.Dialect) (s : Lex.Str) :
    run (world P n) StringLikeConverter [.str s, .str (dbName d)] = ret (Lex.renderString d s) := slc P n d s
@[simp] theorem run_qs (d : Lex.Dialect) (s : Lex.Str) :
    run (world P n) quote_str [.str s, .str (dbName d)] = ret (Lex.quoteStr d s) := qs P n d s
@[simp] theorem run_qls (d : Lex.Dialect) (s : Lex.Str) :
    run (world P n) quote_like_special [.str s, .str (dbName d)] = ret (Like.likeSpecial d s) := qls P n d s
theorem run_uq (hup : UpperOK P.upper) (s : Lex.Str) :
    run (world P n) unquote_str [.str s] = ret (Like.unquoteStr s) := uq P n hup s

@[simp] theorem ret_toR (s : Lex.Str) : (ret s).toR = .ok (.str s) := rfl

/-- `sqlrepr(s, db)` of a `str`: no `__sqlrepr__`, the registry gives `StringLikeConverter` -/
theorem sqlrepr_str (d : Lex.Dialect) (s : Lex.Str) :
    sqlreprX (world P (n + 2)) (.str s) (.str (dbName d)) = ret (Lex.renderString d s) := by
  unfold sqlreprX run Extracted.sqlrepr sqlrepr_s0
  pylw [xGetAttr, callFn_ext, ret]

@[simp] theorem run_sqlrepr_str (d : Lex.Dialect) (s : Lex.Str) :
    run (world P (n + 2)) Extracted.sqlrepr [.str s, .str (dbName d)] = ret (Lex.renderString d s) :=
  sqlrepr_str P n d s

end SqlObjVerif.LexX
