import SqlObjVerif.Lemmas.GraphXBase
/-!
Symbolic execution of the TRANSLATED `destroySelf` (C12), part 2: the small loops of one iteration of the loop over the
dependent classes — the related joins of the dependent class (`for2_loop` = the fold of `delDepLinks`), the loop that
builds `query` and `restrict` (`for3_loop`), the one that collects the `cascade='null'` columns in the dict `setnull`
(`for4_loop`) and the one that computes `delete` (`for7_loop`).  Each is a step lemma (one run of the translated loop
body) plus an induction over the list iterated.
-/
namespace SqlObjVerif.Graph
open SqlObjVerif.PyDestroy
open SqlObjVerif.PyDestroy.Extracted

def depFold (c i : Nat) (js : List RJ) (ls : List Link) : List Link :=
  js.foldl (fun ls j => if j.other == c then delLinks j.table (!j.ownFirst) i ls else ls) ls

variable (S : Schema) (lz : Nat → Bool) (rec : DB → Nat → Nat → Res) (c i : Nat)

theorem for2_step (j : RJ) (w : XW) (env : Env Hnd) (h1 : env 1 = some (.obj (.cls c))) : ∃ envA,
    destroySelf_for2.exec (dIface S lz rec c i) (St.setVar ⟨w, env⟩ 2 (.obj (.join j))) =
      .norm ⟨{ w with db := { w.db with links := if j.other == c then delLinks j.table (!j.ownFirst) i w.db.links else w.db.links } }, envA⟩ ∧
    ∀ x, x ≠ 2 → x ≠ 3 → envA x = env x := by
  by_cases hj : j.other = c
  · refine ⟨(env.put 2 (.obj (.join j))).put 3 (.app "%" (.cons (.str "DELETE FROM %s WHERE %s=%d") (.cons (.obj (.tbl j.table)) (.cons (.obj (.lcol (!j.ownFirst))) (.cons (.int i) .nil))))), ?_, ?_⟩
    · unfold destroySelf_for2
      drun
      simp [gCall_delete, Val.ofList]
    · intro x hx2 hx3; simp [hx2, hx3]
  · refine ⟨env.put 2 (.obj (.join j)), ?_, ?_⟩
    · unfold destroySelf_for2
      drun
    · intro x hx2 hx3; simp [hx2]

/-- the loop over the related joins of dependent class `k` -/
theorem for2_loop (js : List RJ) :
    ∀ (w : XW) (env : Env Hnd), env 1 = some (.obj (.cls c)) → ∃ env',
      forLoop (fun st a => destroySelf_for2.exec (dIface S lz rec c i) (st.setVar 2 a)) (js.map fun j => .obj (.join j)) ⟨w, env⟩ =
        .norm ⟨{ w with db := { w.db with links := depFold c i js w.db.links } }, env'⟩ ∧
      ∀ x, x ≠ 2 → x ≠ 3 → env' x = env x := by
  induction js with
  | nil => intro w env _; exact ⟨env, rfl, fun _ _ _ => rfl⟩
  | cons j js ih =>
    intro w env h1
    obtain ⟨envA, hA, hAf⟩ := for2_step S lz rec c i j w env h1
    simp only [List.map_cons, forLoop, hA]
    obtain ⟨env', e1, e2⟩ := ih _ envA (by rw [hAf 1 (by decide) (by decide)]; exact h1)
    refine ⟨env', ?_, fun x hx2 hx3 => by rw [e2 x hx2 hx3, hAf x hx2 hx3]⟩
    rw [e1]
    simp [depFold]

/-- `for _col in cols`: build `query` and `restrict` -/
theorem for3_step (k f : Nat) (w : XW) (env : Env Hnd) (q r : List PVal) (h5 : env 5 = some (.obj (.cls k)))
    (h7 : env 7 = some (Val.ofList q)) (h8 : env 8 = some (Val.ofList r)) : ∃ envA,
    destroySelf_for3.exec (dIface S lz rec c i) (St.setVar ⟨w, env⟩ 9 (.obj (.col k f))) = .norm ⟨w, envA⟩ ∧
    envA 7 = some (Val.ofList (q ++ [atomV k i f])) ∧
    envA 8 = some (Val.ofList (r ++ if (S.fk k f).policy = .restrict then [atomV k i f] else [])) ∧
    ∀ x, x ≠ 7 → x ≠ 8 → x ≠ 9 → envA x = env x := by
  by_cases hp : (S.fk k f).policy = .restrict
  · refine ⟨((env.put 9 (.obj (.col k f))).put 7 (Val.ofList (q ++ [atomV k i f]))).put 8 (Val.ofList (r ++ [atomV k i f])), ?_, ?_, ?_, ?_⟩
    · unfold destroySelf_for3
      drun
      simp [atomV]
    · simp
    · simp [hp]
    · intro x h7 h8 h9; simp [h7, h8, h9]
  · refine ⟨(env.put 9 (.obj (.col k f))).put 7 (Val.ofList (q ++ [atomV k i f])), ?_, ?_, ?_, ?_⟩
    · unfold destroySelf_for3
      drun
      simp [atomV]
    · simp
    · simp [hp, h8]
    · intro x h7 h8 h9; simp [h7, h9]

theorem for3_loop (k : Nat) (fs : List Nat) (w : XW) :
    ∀ (env : Env Hnd) (q r : List PVal), env 5 = some (.obj (.cls k)) → env 7 = some (Val.ofList q) → env 8 = some (Val.ofList r) →
    ∃ env', forLoop (fun st a => destroySelf_for3.exec (dIface S lz rec c i) (st.setVar 9 a)) (fs.map fun f => .obj (.col k f)) ⟨w, env⟩ =
        .norm ⟨w, env'⟩ ∧
      env' 7 = some (Val.ofList (q ++ fs.map (atomV k i))) ∧
      env' 8 = some (Val.ofList (r ++ (restrictCols S k fs).map (atomV k i))) ∧
      ∀ x, x ≠ 7 → x ≠ 8 → x ≠ 9 → env' x = env x := by
  induction fs with
  | nil => intro env q r _ h7 h8; exact ⟨env, rfl, by simpa using h7, by simpa [restrictCols] using h8, fun _ _ _ _ => rfl⟩
  | cons f fs ih =>
    intro env q r h5 h7 h8
    obtain ⟨envA, hA, a7, a8, af⟩ := for3_step S lz rec c i k f w env q r h5 h7 h8
    simp only [List.map_cons, forLoop, hA]
    obtain ⟨env', e1, e7, e8, ef⟩ := ih envA _ _ (by rw [af 5 (by decide) (by decide) (by decide)]; exact h5) a7 a8
    refine ⟨env', e1, by simpa using e7, ?_, fun x x7 x8 x9 => by rw [ef x x7 x8 x9, af x x7 x8 x9]⟩
    rw [e8]
    by_cases hp : (S.fk k f).policy = .restrict <;> simp [restrictCols, hp]

/-- the body of a dict `{name f: None, …}` -/
def dbody (ns : List Nat) : PVal := Val.ofList (ns.map fun f => .pair (.obj (.name f)) .none)

def addKey (f : Nat) (ns : List Nat) : List Nat := if f ∈ ns then ns else ns ++ [f]

def addKeys (ns : List Nat) (fs : List Nat) : List Nat := fs.foldl (fun ns f => addKey f ns) ns

theorem vdSet_dbody (f : Nat) (ns : List Nat) : vdSet (.obj (.name f)) .none (dbody ns) = dbody (addKey f ns) := by
  induction ns with
  | nil => rfl
  | cons g ns ih =>
    unfold dbody at ih ⊢
    by_cases h : g = f
    · subst h; simp [addKey, vdSet, Val.ofList]
    · have h' : ¬ f = g := fun e => h e.symm
      simp only [List.map_cons, Val.ofList, vdSet, Val.obj.injEq, Hnd.name.injEq, h, if_false, ih]
      by_cases hm : f ∈ ns <;> simp [addKey, hm, h', Val.ofList]

@[simp] theorem isListVal_dbody (ns : List Nat) : isListVal (dbody ns) = true := by simp [dbody]

theorem mem_addKey {f g : Nat} {ns : List Nat} : g ∈ addKey f ns ↔ g = f ∨ g ∈ ns := by
  unfold addKey; by_cases h : f ∈ ns <;> simp [h] <;> grind

theorem mem_addKeys {g : Nat} {fs : List Nat} : ∀ {ns : List Nat}, g ∈ addKeys ns fs ↔ g ∈ ns ∨ g ∈ fs := by
  induction fs with
  | nil => simp [addKeys]
  | cons f fs ih => intro ns; simp only [addKeys, List.foldl_cons] at ih ⊢; rw [ih, mem_addKey]; simp; grind

/-- `for _col in cols`: collect the `cascade='null'` columns -/
theorem for4_step (k f : Nat) (w : XW) (env : Env Hnd) (ns : List Nat) (h11 : env 11 = some (.dict (dbody ns))) : ∃ envA,
    destroySelf_for4.exec (dIface S lz rec c i) (St.setVar ⟨w, env⟩ 9 (.obj (.col k f))) = .norm ⟨w, envA⟩ ∧
    envA 11 = some (.dict (dbody (if (S.fk k f).policy = .setNull then addKey f ns else ns))) ∧
    ∀ x, x ≠ 9 → x ≠ 11 → envA x = env x := by
  by_cases hp : (S.fk k f).policy = .setNull
  · refine ⟨(env.put 9 (.obj (.col k f))).put 11 (.dict (dbody (addKey f ns))), ?_, ?_, ?_⟩
    · unfold destroySelf_for4
      drun
      simp [vdSet_dbody]
    · simp [hp]
    · intro x h9 h11; simp [h9, h11]
  · refine ⟨env.put 9 (.obj (.col k f)), ?_, ?_, ?_⟩
    · unfold destroySelf_for4
      drun
    · simp [hp, h11]
    · intro x h9 h11; simp [h9]

def nullCols (S : Schema) (k : Nat) (fs : List Nat) : List Nat := fs.filter fun f => (S.fk k f).policy == .setNull

theorem for4_loop (k : Nat) (fs : List Nat) (w : XW) :
    ∀ (env : Env Hnd) (ns : List Nat), env 11 = some (.dict (dbody ns)) →
    ∃ env', forLoop (fun st a => destroySelf_for4.exec (dIface S lz rec c i) (st.setVar 9 a)) (fs.map fun f => .obj (.col k f)) ⟨w, env⟩ =
        .norm ⟨w, env'⟩ ∧
      env' 11 = some (.dict (dbody (addKeys ns (nullCols S k fs)))) ∧
      ∀ x, x ≠ 9 → x ≠ 11 → env' x = env x := by
  induction fs with
  | nil => intro env ns h; exact ⟨env, rfl, by simpa [nullCols, addKeys] using h, fun _ _ _ => rfl⟩
  | cons f fs ih =>
    intro env ns h11
    obtain ⟨envA, hA, a11, af⟩ := for4_step S lz rec c i k f w env ns h11
    simp only [List.map_cons, forLoop, hA]
    obtain ⟨env', e1, e11, ef⟩ := ih envA _ a11
    refine ⟨env', e1, ?_, fun x x9 x11 => by rw [ef x x9 x11, af x x9 x11]⟩
    rw [e11]
    by_cases hp : (S.fk k f).policy = .setNull <;> simp [nullCols, addKeys, hp]

/-- `for _col in cols`: is there a `cascade=True` column? -/
theorem for7_step (k f : Nat) (w : XW) (env : Env Hnd) (b : Bool) (h15 : env 15 = some (.bool b)) : ∃ envA,
    destroySelf_for7.exec (dIface S lz rec c i) (St.setVar ⟨w, env⟩ 9 (.obj (.col k f))) = .norm ⟨w, envA⟩ ∧
    envA 15 = some (.bool (b || (S.fk k f).policy == .cascade)) ∧
    ∀ x, x ≠ 9 → x ≠ 15 → envA x = env x := by
  by_cases hp : (S.fk k f).policy = .cascade
  · refine ⟨(env.put 9 (.obj (.col k f))).put 15 (.bool true), ?_, ?_, ?_⟩
    · unfold destroySelf_for7
      drun
    · simp [hp]
    · intro x h9 h15; simp [h9, h15]
  · refine ⟨env.put 9 (.obj (.col k f)), ?_, ?_, ?_⟩
    · unfold destroySelf_for7
      drun
    · simp [hp, h15]
    · intro x h9 h15; simp [h9]

theorem for7_loop (k : Nat) (fs : List Nat) (w : XW) :
    ∀ (env : Env Hnd) (b : Bool), env 15 = some (.bool b) →
    ∃ env', forLoop (fun st a => destroySelf_for7.exec (dIface S lz rec c i) (st.setVar 9 a)) (fs.map fun f => .obj (.col k f)) ⟨w, env⟩ =
        .norm ⟨w, env'⟩ ∧
      env' 15 = some (.bool (b || hasPolicy S k fs .cascade)) ∧
      ∀ x, x ≠ 9 → x ≠ 15 → env' x = env x := by
  induction fs with
  | nil => intro env b h; exact ⟨env, rfl, by simpa [hasPolicy] using h, fun _ _ _ => rfl⟩
  | cons f fs ih =>
    intro env b h15
    obtain ⟨envA, hA, a15, af⟩ := for7_step S lz rec c i k f w env b h15
    simp only [List.map_cons, forLoop, hA]
    obtain ⟨env', e1, e15, ef⟩ := ih envA _ a15
    refine ⟨env', e1, ?_, fun x x9 x15 => by rw [ef x x9 x15, af x x9 x15]⟩
    rw [e15]
    simp [hasPolicy, Bool.or_assoc]

end SqlObjVerif.Graph
