import SqlObjVerif.Lemmas.ExprXRender
/-!
# C03 translation — calls of the translated constructors, builder functions and operator overloads

What a call made through the tied interface `ifaceF P k` returns, on the images of hand-model nodes:
`callD … "SQLOp" […]` builds `mkOp`, `callM … (toVal P a) "__add__" [toVal P b]` is `toVal P (applyOv Extracted.add a b)`, …
-/
namespace SqlObjVerif.ExprX
open SqlObjVerif.PyExpr SqlObjVerif.PyExpr.Extracted

set_option linter.unusedSimpArgs false

/-! ### classes of nodes -/

def isObjNode : Node → Bool
  | .field _ => true | .sqlop _ _ _ => true | .sqlin _ _ => true | .modulo _ _ => true | .prefix _ _ => true
  | _ => false

/-- the name of `type(toVal P n)` -/
def nodeCls : Node → String
  | .field _ => "SQLObjectField"
  | .sqlop _ _ _ => "SQLOp"
  | .sqlin _ _ => "SQLOp"
  | .modulo _ _ => "SQLModulo"
  | .prefix _ _ => "SQLPrefix"
  | .int _ => "int"
  | .flt _ _ => "float"
  | .none => "NoneType"
  | .lnil => "list"
  | .lcons _ _ => "list"

theorem typeName_toVal (P : Params) (n : Node) : typeName (toVal P n) = nodeCls n := by
  cases n <;> rfl

theorem isExpr_toVal (P : Params) (n : Node) : isExpr (toVal P n) = isObjNode n := by
  rw [isExpr, typeName_toVal]; cases n <;> simp only [nodeCls, isObjNode] <;> decide

theorem isNoneV_toVal (P : Params) (n : Node) : isNoneV (toVal P n) = (nodeCls n == "NoneType") := by
  cases n <;> simp [toVal, mkOp, mkPrefix, fieldVal, nodeCls]

def exprClasses : List String := ["SQLObjectField", "SQLOp", "SQLModulo", "SQLPrefix"]

theorem toVal_obj (P : Params) (n : Node) (h : isObjNode n = true) :
    ∃ fs, toVal P n = .obj (nodeCls n) fs ∧ nodeCls n ∈ exprClasses := by
  cases n <;> simp only [isObjNode, Bool.false_eq_true] at h <;>
    exact ⟨_, rfl, by simp [nodeCls, exprClasses]⟩

/-- `v.m(args)` on the image of an object node runs the program every class in `cls` resolves `m` to -/
theorem callM_toVal (P : Params) (I : Iface) (n : Node) (h : isObjNode n = true) (m : String) (prog : Block)
    (cls : List String) (hc : nodeCls n ∈ cls) (hm : ∀ c ∈ cls, findMethod c m = some prog) (args : List Val) :
    callM I (toVal P n) m args = (run I prog (toVal P n :: args)).toR := by
  obtain ⟨fs, hv, _⟩ := toVal_obj P n h
  rw [hv]; simp only [callM, hm _ hc]

/-! ### constructor calls -/

theorem fm_SQLOp_init : findMethod "SQLOp" "__init__" = some SQLOp_init := by rfl
theorem fm_SQLModulo_init : findMethod "SQLModulo" "__init__" = some SQLModulo_init := by rfl
theorem fm_SQLPrefix_init : findMethod "SQLPrefix" "__init__" = some SQLPrefix_init := by rfl

theorem upper_binText (o : BinOp) : (binText o).map upperC = binText o := by cases o <;> decide
theorem upper_inText : inText.map upperC = inText := by decide

theorem notSub_toVal (P : Params) (n : Node) : isSub (typeName (toVal P n)) "Subquery" = false :=
  notSubquery_toVal P n

/-- `SQLOp(op, a, b)` -/
theorem call_SQLOp (I : Iface) (hI : I.isSub = isSub) (op : Str) (a b : Val)
    (ha : isSub (typeName a) "Subquery" = false) :
    callD I "SQLOp" [.str op, a, b] = .ok (mkOp "SQLOp" (op.map upperC) a b) := by
  have h1 : ("SQLOp" = "sqlrepr") = False := by decide
  have h2 : isClass "SQLOp" = true := by decide
  simp only [callD, h1, if_false, h2, if_true, construct, fm_SQLOp_init]
  rw [SQLOp_init_spec, hI, ha]; rfl

/-- `SQLPrefix(p, x)` -/
theorem call_SQLPrefix (I : Iface) (p : Str) (x : Val) :
    callD I "SQLPrefix" [.str p, x] = .ok (mkPrefix p x) := by
  have h1 : ("SQLPrefix" = "sqlrepr") = False := by decide
  have h2 : isClass "SQLPrefix" = true := by decide
  simp only [callD, h1, if_false, h2, if_true, construct, fm_SQLPrefix_init]
  rw [SQLPrefix_init_spec]; rfl

/-- `SQLModulo(a, b)` (its `__init__` goes through `SQLOp.__init__`) -/
theorem call_SQLModulo (P : Params) (k : Nat) (a b : Val) (ha : isSub (typeName a) "Subquery" = false) :
    callD (ifaceF P (k + 1)) "SQLModulo" [a, b] = .ok (mkOp "SQLModulo" (binText .mod) a b) := by
  have h1 : ("SQLModulo" = "sqlrepr") = False := by decide
  have h2 : isClass "SQLModulo" = true := by decide
  simp only [callD, h1, if_false, h2, if_true, construct, fm_SQLModulo_init]
  rw [SQLModulo_init_spec, ifaceF_clsInit]
  simp only [clsInitD, fm_SQLOp_init]
  rw [SQLOp_init_spec, ifaceF_isSub, ha]; rfl

/-- a call of a translated module function -/
theorem callD_fn (I : Iface) (f : String) (prog : Block) (va : Bool) (args : List Val)
    (h1 : (f = "sqlrepr") = False) (h2 : isClass f = false) (h3 : aget f funcTable = some (prog, va)) :
    callD I f args = (run I prog (if va = true then [.tuple args] else args)).toR := by
  simp only [callD, h1, if_false, h2, Bool.false_eq_true, h3]

/-- the `SQLOp(…)` call of an overloaded operator, on images of nodes -/
theorem call_ov (P : Params) (I : Iface) (hI : I.isSub = isSub) (ov : Expr.OvBin) (a b : Node) :
    callD I "SQLOp" (ovArgs ov (toVal P a) (toVal P b)) = .ok (toVal P (Expr.applyOv ov a b)) := by
  unfold ovArgs Expr.applyOv
  cases ov.swapped
  · simp only [Bool.false_eq_true, if_false]
    rw [call_SQLOp I hI _ _ _ (notSub_toVal P a), upper_binText]; rfl
  · simp only [if_true]
    rw [call_SQLOp I hI _ _ _ (notSub_toVal P b), upper_binText]; rfl

/-! ### builder functions -/

theorem call_ISNULL (P : Params) (k : Nat) (a : Node) :
    callD (ifaceF P (k + 1)) "ISNULL" [toVal P a] = .ok (toVal P (.sqlop Expr.Extracted.isnullOp a .none)) := by
  rw [callD_fn _ "ISNULL" f_ISNULL false _ (by decide) (by decide) (by rfl)]
  simp only [Bool.false_eq_true, if_false, ISNULL_spec, toOut_toR, ifaceF_call]
  rw [call_SQLOp _ (ifaceF_isSub P k) _ _ _ (notSub_toVal P a), upper_binText]; rfl

theorem call_ISNOTNULL (P : Params) (k : Nat) (a : Node) :
    callD (ifaceF P (k + 1)) "ISNOTNULL" [toVal P a] = .ok (toVal P (.sqlop Expr.Extracted.isnotnullOp a .none)) := by
  rw [callD_fn _ "ISNOTNULL" f_ISNOTNULL false _ (by decide) (by decide) (by rfl)]
  simp only [Bool.false_eq_true, if_false, ISNOTNULL_spec, toOut_toR, ifaceF_call]
  rw [call_SQLOp _ (ifaceF_isSub P k) _ _ _ (notSub_toVal P a), upper_binText]; rfl

theorem call_NOT (P : Params) (k : Nat) (a : Node) :
    callD (ifaceF P (k + 1)) "NOT" [toVal P a] = .ok (toVal P (.prefix Expr.Extracted.notFn a)) := by
  rw [callD_fn _ "NOT" f_NOT false _ (by decide) (by decide) (by rfl)]
  simp only [Bool.false_eq_true, if_false, NOT_spec, toOut_toR, ifaceF_call]
  rw [call_SQLPrefix]; rfl

theorem call_IN0 (P : Params) (k : Nat) (a l : Node) :
    callD (ifaceF P (k + 1)) "_IN" [toVal P a, toVal P l] = .ok (toVal P (.sqlin a l)) := by
  rw [callD_fn _ "_IN" f__IN false _ (by decide) (by decide) (by rfl)]
  simp only [Bool.false_eq_true, if_false, IN0_spec, toOut_toR, ifaceF_call]
  rw [call_SQLOp _ (ifaceF_isSub P k) _ _ _ (notSub_toVal P a), upper_inText]; rfl

/-- `IN(item, <list>)` = `_IN(item, list)` = `SQLOp("IN", item, list)` -/
theorem call_IN (P : Params) (k : Nat) (a l : Node) (hl : nodeCls l = "list") :
    callD (ifaceF P (k + 2)) "IN" [toVal P a, toVal P l] = .ok (toVal P (.sqlin a l)) := by
  rw [callD_fn _ "IN" f_IN false _ (by decide) (by decide) (by rfl)]
  simp only [Bool.false_eq_true, if_false]
  rw [IN_spec _ _ _ (by rw [ifaceF_isSub, typeName_toVal, hl]; decide)]
  have : (ifaceF P (k + 2)).isSub (typeName (toVal P l)) "Select" = false := by
    rw [ifaceF_isSub, typeName_toVal, hl]; decide
  rw [this]
  simp only [Bool.false_eq_true, if_false, toOut_toR, ifaceF_call, call_IN0]

/-- `NOTIN(item, <list>)` = `NOT(_IN(item, list))` -/
theorem call_NOTIN (P : Params) (k : Nat) (a l : Node) (hl : nodeCls l = "list") :
    callD (ifaceF P (k + 2)) "NOTIN" [toVal P a, toVal P l] =
      .ok (toVal P (.prefix Expr.Extracted.notFn (.sqlin a l))) := by
  rw [callD_fn _ "NOTIN" f_NOTIN false _ (by decide) (by decide) (by rfl)]
  simp only [Bool.false_eq_true, if_false]
  rw [NOTIN_spec]
  have : (ifaceF P (k + 2)).isSub (typeName (toVal P l)) "Select" = false := by
    rw [ifaceF_isSub, typeName_toVal, hl]; decide
  rw [this]
  simp only [Bool.false_eq_true, if_false, toOut_toR, ifaceF_call, call_IN0, R.bind_ok, call_NOT]

/-- right fold of nodes -/
def foldRN (o : BinOp) (a : Node) : List Node → Node
  | [] => a
  | b :: rest => .sqlop o a (foldRN o b rest)

/-- `AND(a, b, …)` through the translated recursion: the right fold `SQLOp("AND", a, SQLOp("AND", b, …))` -/
theorem call_AND (P : Params) : ∀ (rest : List Node) (a : Node) (k : Nat),
    callD (ifaceF P (k + rest.length + 1)) "AND" ((a :: rest).map (toVal P)) =
      .ok (toVal P (foldRN Expr.Extracted.andFn a rest)) := by
  intro rest
  induction rest with
  | nil =>
    intro a k
    rw [callD_fn _ "AND" f_AND true _ (by decide) (by decide) (by rfl)]
    simp only [if_true, List.map_cons, List.map_nil, AND_one, Out.toR_ret, foldRN]
  | cons b rest ih =>
    intro a k
    rw [callD_fn _ "AND" f_AND true _ (by decide) (by decide) (by rfl)]
    simp only [if_true, List.map_cons, AND_cons, toOut_toR]
    have e : k + (b :: rest).length + 1 = (k + rest.length + 1) + 1 := by simp only [List.length_cons]; omega
    rw [e, ifaceF_call]
    have := ih b k
    simp only [List.map_cons] at this
    rw [this, R.bind_ok, call_SQLOp _ (ifaceF_isSub P _) _ _ _ (notSub_toVal P a), upper_binText]; rfl

theorem call_OR (P : Params) : ∀ (rest : List Node) (a : Node) (k : Nat),
    callD (ifaceF P (k + rest.length + 1)) "OR" ((a :: rest).map (toVal P)) =
      .ok (toVal P (foldRN Expr.Extracted.orFn a rest)) := by
  intro rest
  induction rest with
  | nil =>
    intro a k
    rw [callD_fn _ "OR" f_OR true _ (by decide) (by decide) (by rfl)]
    simp only [if_true, List.map_cons, List.map_nil, OR_one, Out.toR_ret, foldRN]
  | cons b rest ih =>
    intro a k
    rw [callD_fn _ "OR" f_OR true _ (by decide) (by decide) (by rfl)]
    simp only [if_true, List.map_cons, OR_cons, toOut_toR]
    have e : k + (b :: rest).length + 1 = (k + rest.length + 1) + 1 := by simp only [List.length_cons]; omega
    rw [e, ifaceF_call]
    have := ih b k
    simp only [List.map_cons] at this
    rw [this, R.bind_ok, call_SQLOp _ (ifaceF_isSub P _) _ _ _ (notSub_toVal P a), upper_binText]; rfl

/-! ### operator overloads on images of nodes -/

/-- every class of expression nodes resolves `m` to `prog` -/
def Resolves (cls : List String) (m : String) (prog : Block) : Prop := ∀ c ∈ cls, findMethod c m = some prog

macro "resolve4" : tactic => `(tactic|
  (intro c hc; simp only [exprClasses, List.mem_cons, List.not_mem_nil, or_false] at hc
   rcases hc with h | h | h | h <;> subst h <;> rfl))

theorem rs_add : Resolves exprClasses "__add__" SQLExpression_add := by resolve4
theorem rs_radd : Resolves exprClasses "__radd__" SQLExpression_radd := by resolve4
theorem rs_sub : Resolves exprClasses "__sub__" SQLExpression_sub := by resolve4
theorem rs_rsub : Resolves exprClasses "__rsub__" SQLExpression_rsub := by resolve4
theorem rs_mul : Resolves exprClasses "__mul__" SQLExpression_mul := by resolve4
theorem rs_rmul : Resolves exprClasses "__rmul__" SQLExpression_rmul := by resolve4
theorem rs_truediv : Resolves exprClasses "__truediv__" SQLExpression_truediv := by resolve4
theorem rs_rtruediv : Resolves exprClasses "__rtruediv__" SQLExpression_rtruediv := by resolve4
theorem rs_mod : Resolves exprClasses "__mod__" SQLExpression_mod := by resolve4
theorem rs_lt : Resolves exprClasses "__lt__" SQLExpression_lt := by resolve4
theorem rs_le : Resolves exprClasses "__le__" SQLExpression_le := by resolve4
theorem rs_gt : Resolves exprClasses "__gt__" SQLExpression_gt := by resolve4
theorem rs_ge : Resolves exprClasses "__ge__" SQLExpression_ge := by resolve4
theorem rs_and : Resolves exprClasses "__and__" SQLExpression_and := by resolve4
theorem rs_or : Resolves exprClasses "__or__" SQLExpression_or := by resolve4
theorem rs_neg : Resolves exprClasses "__neg__" SQLExpression_neg := by resolve4
theorem rs_pos : Resolves exprClasses "__pos__" SQLExpression_pos := by resolve4
theorem rs_invert : Resolves exprClasses "__invert__" SQLExpression_invert := by resolve4

def plainClasses : List String := ["SQLOp", "SQLModulo", "SQLPrefix"]

theorem rs_eq : Resolves plainClasses "__eq__" SQLExpression_eq := by
  intro c hc; simp only [plainClasses, List.mem_cons, List.not_mem_nil, or_false] at hc
  rcases hc with rfl | rfl | rfl <;> rfl
theorem rs_ne : Resolves plainClasses "__ne__" SQLExpression_ne := by
  intro c hc; simp only [plainClasses, List.mem_cons, List.not_mem_nil, or_false] at hc
  rcases hc with rfl | rfl | rfl <;> rfl
theorem rs_feq : Resolves ["SQLObjectField"] "__eq__" SQLObjectField_eq := by
  intro c hc; simp only [List.mem_cons, List.not_mem_nil, or_false] at hc; subst hc; rfl
theorem rs_fne : Resolves ["SQLObjectField"] "__ne__" SQLObjectField_ne := by
  intro c hc; simp only [List.mem_cons, List.not_mem_nil, or_false] at hc; subst hc; rfl

/-- a binary overload whose body is `return SQLOp(op, self, other)` / `SQLOp(op, other, self)`, applied to images -/
theorem callM_ov (P : Params) (k : Nat) (a b : Node) (ha : isObjNode a = true) (m : String) (prog : Block)
    (ov : Expr.OvBin) (hm : Resolves exprClasses m prog)
    (hspec : ∀ (I : Iface) (x y : Val), run I prog [x, y] = (I.call "SQLOp" (ovArgs ov x y)).toOut) :
    callM (ifaceF P (k + 1)) (toVal P a) m [toVal P b] = .ok (toVal P (Expr.applyOv ov a b)) := by
  rw [callM_toVal P _ a ha m prog exprClasses (toVal_obj P a ha).choose_spec.2 hm, hspec, toOut_toR, ifaceF_call,
    call_ov P _ (ifaceF_isSub P k)]

/-- a unary overload whose body is `return SQLPrefix(p, self)` -/
theorem callM_pre (P : Params) (k : Nat) (a : Node) (ha : isObjNode a = true) (m : String) (prog : Block)
    (p : PreOp) (hm : Resolves exprClasses m prog)
    (hspec : ∀ (I : Iface) (x : Val), run I prog [x] = (I.call "SQLPrefix" [.str (preText p), x]).toOut) :
    callM (ifaceF P (k + 1)) (toVal P a) m [] = .ok (toVal P (.prefix p a)) := by
  rw [callM_toVal P _ a ha m prog exprClasses (toVal_obj P a ha).choose_spec.2 hm, hspec, toOut_toR, ifaceF_call,
    call_SQLPrefix]; rfl

/-- `a % b` -/
theorem callM_mod (P : Params) (k : Nat) (a b : Node) (ha : isObjNode a = true) :
    callM (ifaceF P (k + 2)) (toVal P a) "__mod__" [toVal P b] = .ok (toVal P (.modulo a b)) := by
  rw [callM_toVal P _ a ha _ _ exprClasses (toVal_obj P a ha).choose_spec.2 rs_mod, mod_spec, toOut_toR, ifaceF_call,
    call_SQLModulo P k _ _ (notSub_toVal P a)]; rfl

end SqlObjVerif.ExprX
