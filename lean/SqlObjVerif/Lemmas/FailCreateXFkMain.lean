import SqlObjVerif.Lemmas.FailCreateXFk
/-!
C06, operation CREATE with ForeignKeys given by object among the keywords: the translated `_create` (default loop passing
over the columns given by object, `set` with the by-object setters RUNNING the translated `_SO_setValue`
— `PyFail.setFT_creating` —, `_SO_finishCreate`) = the hand-compiled tree `Fail.createProg` with the by-object columns
appended as ordinary entries.
-/
namespace SqlObjVerif.PyCreate
open SqlObjVerif.PyMain (PV R mapR ofOpt PDict dget dhas dset dupdate sortByKey ofVal toVal? pvIdx pyBool)
open SqlObjVerif.PyCreate.Extracted
open SqlObjVerif.Fail (Err Schema Inj Extra In clsOf colOf Mem valsOf allOk updPending asgOf)
open SqlObjVerif.PyFail (FW sendStmt memStep excErr mkW kwPV vqOf vqEx viewObs runObs obs fkOf setFWith propCallT)

theorem create_tail_goodT (ps : FW → Nat → Nat → In → PyFail.Outcome) (ctx : Ctx) (hclos : ctx.clos 0 = finishCreate_clos0)
    (st : St) (idv : Val) (id? : Option Nat) (hid : idArg idv = some id?)
    (pd pk exs : List (Nat × In)) (hnd : (pd.map (·.1)).Nodup)
    (n : Nat) (hn : st.xw.w.ncols = n)
    (hpk : pd.filter (fun e => Nat.blt e.1 n) = pk) (hexs : pd.filter (fun e => !Nat.blt e.1 n) = exs)
    (hfk : ∀ e ∈ exs, ∃ col v, st.xw.w.props e.1 = .fk col v ∧ col < n ∧
      (colOf (clsOf st.xw.w.sch st.xw.w.c).cols col).fk.isSome = true)
    (hfknd : ((exs.map (fkOf st.xw.w.props)).map (·.1)).Nodup)
    (hfkpk : ∀ e ∈ exs, hasKey pk (fkOf st.xw.w.props e).1 = false)
    (hd : st.fr.dicts 0 = some ⟨kwPV pd, []⟩) (hv : st.fr.vars 0 = some idv)
    (hcr : st.xw.w.creating = true) (hborn : st.xw.born = false) (habs : st.xw.cvAbsent = false)
    (hpost : st.xw.postponed = some []) (hlock : st.xw.w.lock = false) (hsig : st.xw.w.sigSuppress = false)
    (hnobj : st.xw.w.nobj = ⟨[], [], false⟩)
    (dflt' : Nat → Option In) (dsql' : Nat → Bool)
    (hdf : dflt' = maskD (byObject st.xw.w.sch st.xw.w.c st.xw.w.props pd) ctx.dflt)
    (hdq : dsql' = maskQ (byObject st.xw.w.sch st.xw.w.c st.xw.w.props pd) ctx.dsql)
    (hvq : st.xw.w.vq = vqOf (kwFullOf dflt' n pk) ++ vqEx (exs.map fun e => st.xw.w.props e.1)) :
    Good ctx (Block.exec ctx (createCall ctx (setFWith (propCallT ps) false)) st
        (.cons create_s3 (.cons create_s4 (.cons create_s5 .nil)))).toOutcome
      (Fail.run st.xw.w.sch st.xw.w.inj (Fail.createProg st.xw.w.sch st.xw.w.c id? (missingOf dflt' dsql' n pk)
         (kwFullOf dflt' n pk ++ exs.map (fkCol st.xw.w.props)) [] (fun _ => .done)) st.xw.w.s) := by
  subst hn
  obtain ⟨fr', h1, h2, h3⟩ := create_loopS ctx (createCall ctx (setFWith (propCallT ps) false))
    (byObject st.xw.w.sch st.xw.w.c st.xw.w.props pd) (List.range st.xw.w.ncols) pd st hd
    (by simp [List.mem_range]) (fun j _ => fkGiven_eq _ _ _)
  rw [← hdf, ← hdq, fillFrom_range, missingOf_pd, kwFullOf_pd, hpk] at h1 h3
  rw [exec_cons, create_s3, Stmt.exec]
  simp only [LExpr.eval, withR_ok]
  rw [h1, createProg_eq]
  frun []
  by_cases hm : missingOf dflt' dsql' st.xw.w.ncols pk = true
  · simp [hm, loopEnd, Good, hpost, hlock, hsig, PyFail.run_fail]
  · simp only [hm, Bool.false_eq_true, if_false, loopEnd, seq_norm] at h3 ⊢
    have hfull := h3 _ rfl
    -- the completed dict: plain columns `kwc`, by-object keywords `exs`
    have hddlt := defaulted_lt dflt' pk st.xw.w.ncols
    have hndF : ((pd ++ defaulted dflt' pk (List.range st.xw.w.ncols)).map (·.1)).Nodup := by
      have := kwFull_nodup dflt' st.xw.w.ncols pd hnd
      rwa [kwFullOf_pd, hpk] at this
    have hkwF : (pd ++ defaulted dflt' pk (List.range st.xw.w.ncols)).filter
        (fun x => Nat.blt x.1 (clsOf st.xw.w.sch st.xw.w.c).cols.length) = kwFullOf dflt' st.xw.w.ncols pk := by
      have := full_filter_lt pd _ st.xw.w.ncols hddlt
      rw [hpk] at this
      exact this
    have hexF : (pd ++ defaulted dflt' pk (List.range st.xw.w.ncols)).filter
        (fun x => !Nat.blt x.1 (clsOf st.xw.w.sch st.xw.w.c).cols.length) = exs := by
      have := full_filter_ge pd _ st.xw.w.ncols hddlt
      rw [hexs] at this
      exact this
    have hset := PyFail.setFT_creating ps false st.xw.w [] _ _ exs hcr hsig hndF hkwF hexF
      (fun e he => by
        obtain ⟨col, v, hp, hc, _⟩ := hfk e he
        exact ⟨col, v, hp, hc⟩)
      (by rw [hvq, List.append_nil])
    rw [exec_cons, create_s4, Stmt.exec]
    simp only [mapR, withR_ok, dictArg_some, hfull, ofOptRes_some, createCall, if_true, List.isEmpty_nil, Bool.and_self]
    rw [Fail.run_validates, allOk_append_fk]
    cases hok : allOk (kwFullOf dflt' st.xw.w.ncols pk)
    · obtain ⟨q, hq⟩ := hset.2 hok
      rw [hq]
      simp [Good, St.setXW, hpost, hlock, hsig]
    · rw [hset.1 hok]
      simp only [liftSet_ret, afterCall_ret, seq_norm, if_true, PyFail.creatingEnd]
      rw [exec_cons, create_s5, Stmt.exec]
      simp only [mapR, Expr.eval, St.setXW, h2, hv, PyPure.ofOpt_some, PyPure.R.bind_ok, withR_ok, dictArg_none, ofOptRes_some, createCall]
      have hne : ("_SO_finishCreate" = "set") = False := by decide
      simp only [hne, if_false, if_true, hnobj]
      refine good_afterCall ctx _ _ _ _ ?_
      have hndpk : (pk.map (·.1)).Nodup := hpk ▸ PyPure.nodup_keys_filter pd _ hnd
      have hltpk : ∀ e ∈ pk, e.1 < st.xw.w.ncols := by
        intro e he; rw [← hpk, List.mem_filter] at he; simpa [Nat.blt_eq] using he.2
      have hndK := kwFull_nodup dflt' st.xw.w.ncols pk hndpk
      have hltK := kwFull_lt dflt' st.xw.w.ncols pk hltpk
      have hkeysK : ((asgOf (kwFullOf dflt' st.xw.w.ncols pk)).map (·.1)).Nodup := by rw [asgOf_keys]; exact hndK
      -- the columns given by object are not among the plain and defaulted ones
      have hdisj : ∀ k ∈ (exs.map (fkOf st.xw.w.props)).map (·.1), k ∉ (asgOf (kwFullOf dflt' st.xw.w.ncols pk)).map (·.1) := by
        intro k hk
        simp only [List.map_map, List.mem_map, Function.comp] at hk
        obtain ⟨e, he, rfl⟩ := hk
        obtain ⟨col, v, hp, hc, hfkc⟩ := hfk e he
        have hcol : (fkOf st.xw.w.props e).1 = col := by simp [fkOf, hp]
        have hepd : e ∈ pd ∧ (!Nat.blt e.1 st.xw.w.ncols) = true := by rw [← hexs, List.mem_filter] at he; exact he
        have hby : byObject st.xw.w.sch st.xw.w.c st.xw.w.props pd col = true := by
          simp only [byObject, hfkc, Bool.true_and, List.any_eq_true]
          exact ⟨e, hepd.1, by
            have := hepd.2
            simp only [FW.ncols] at this
            simp [this, hp, fkTo]⟩
        rw [asgOf_keys, kwFullOf, List.map_append, List.mem_append, hcol]
        rintro (h | h)
        · have := hfkpk e he
          rw [hcol] at this
          rw [← hasKey_iff, this] at h
          cases h
        · rw [hdf] at h
          exact defaulted_mask _ _ _ _ _ hby h
      have hdu1 : dupdate (asgOf (kwFullOf dflt' st.xw.w.ncols pk)) [] = asgOf (kwFullOf dflt' st.xw.w.ncols pk) :=
        PyPure.dictOf_nodup _ hkeysK
      have hdu2 := PyPure.dupdate_append_of_disjoint (exs.map (fkOf st.xw.w.props)) (asgOf (kwFullOf dflt' st.xw.w.ncols pk))
        hfknd hdisj
      have hup1 : updPending [] (asgOf (kwFullOf dflt' st.xw.w.ncols pk)) = asgOf (kwFullOf dflt' st.xw.w.ncols pk) := by
        rw [updPending_append _ _ hkeysK (by simp)]; rfl
      have hup2 := updPending_append (exs.map (fkOf st.xw.w.props)) (asgOf (kwFullOf dflt' st.xw.w.ncols pk)) hfknd
        (fun a ha b hb hab => hdisj a.1 (List.mem_map_of_mem ha) (hab ▸ List.mem_map_of_mem hb))
      have hkeysAll : ((asgOf (kwFullOf dflt' st.xw.w.ncols pk) ++ exs.map (fkOf st.xw.w.props)).map (·.1)).Nodup := by
        rw [List.map_append, List.nodup_append]
        exact ⟨hkeysK, hfknd, fun a ha b hb hab => hdisj b hb (hab ▸ ha)⟩
      have hltAll : ∀ e ∈ asgOf (kwFullOf dflt' st.xw.w.ncols pk) ++ exs.map (fkOf st.xw.w.props), e.1 < st.xw.w.ncols := by
        intro e he
        rw [List.mem_append] at he
        rcases he with he | he
        · obtain ⟨a, ha, rfl⟩ := List.mem_map.1 he
          exact hltK a ha
        · obtain ⟨a, ha, rfl⟩ := List.mem_map.1 he
          obtain ⟨col, v, hp, hc, _⟩ := hfk a ha
          simpa [fkOf, hp] using hc
      rw [hdu1, hdu2, hup1, hup2, asgOf_append_fk]
      exact finishCreate_good ctx
        { st.xw with w := { st.xw.w with vq := [], nobj := ⟨asgOf (kwFullOf dflt' st.xw.w.ncols pk) ++ exs.map (fkOf st.xw.w.props),
            asgOf (kwFullOf dflt' st.xw.w.ncols pk) ++ exs.map (fkOf st.xw.w.props),
            if ((kwFullOf dflt' st.xw.w.ncols pk).isEmpty && (exs.map (fkOf st.xw.w.props)).isEmpty) = true then false else true⟩ } }
        idv id? hid hclos hcr hborn habs hpost hlock hsig hkeysAll hltAll _ rfl rfl

/-- the translated `_create` with by-object keywords = the hand-compiled tree, from any fresh world -/
theorem create_goodT (ps : FW → Nat → Nat → In → PyFail.Outcome) (ctx : Ctx) (hclos : ctx.clos 0 = finishCreate_clos0)
    (xw : XW) (idv : Val) (id? : Option Nat) (hid : idArg idv = some id?)
    (pd pk exs : List (Nat × In)) (hnd : (pd.map (·.1)).Nodup)
    (n : Nat) (hn : xw.w.ncols = n)
    (hpk : pd.filter (fun e => Nat.blt e.1 n) = pk) (hexs : pd.filter (fun e => !Nat.blt e.1 n) = exs)
    (hfk : ∀ e ∈ exs, ∃ col v, xw.w.props e.1 = .fk col v ∧ col < n ∧ (colOf (clsOf xw.w.sch xw.w.c).cols col).fk.isSome = true)
    (hfknd : ((exs.map (fkOf xw.w.props)).map (·.1)).Nodup)
    (hfkpk : ∀ e ∈ exs, hasKey pk (fkOf xw.w.props e).1 = false)
    (hcr : xw.w.creating = false) (hborn : xw.born = false) (hpost : xw.postponed = some [])
    (hlock : xw.w.lock = false) (hsig : xw.w.sigSuppress = false)
    (hnobj : xw.w.nobj = ⟨[], [], false⟩)
    (dflt' : Nat → Option In) (dsql' : Nat → Bool)
    (hdf : dflt' = maskD (byObject xw.w.sch xw.w.c xw.w.props pd) ctx.dflt)
    (hdq : dsql' = maskQ (byObject xw.w.sch xw.w.c xw.w.props pd) ctx.dsql)
    (hvq : xw.w.vq = vqOf (kwFullOf dflt' n pk) ++ vqEx (exs.map fun e => xw.w.props e.1)) :
    Good ctx (run ctx (createCall ctx (setFWith (propCallT ps) false)) createProg create_params create_hasKw [idv] ⟨kwPV pd, []⟩ xw)
      (Fail.run xw.w.sch xw.w.inj (Fail.createProg xw.w.sch xw.w.c id? (missingOf dflt' dsql' n pk)
         (kwFullOf dflt' n pk ++ exs.map (fkCol xw.w.props)) [] (fun _ => .done)) xw.w.s) := by
  obtain ⟨w, born, cvAbsent, postponed, heap⟩ := xw
  obtain ⟨sch, inj, props, s, c, id, creating, nobj, sig, lock, vq⟩ := w
  simp only [PyFail.ncols_mk] at hn hcr hborn hpost hlock hsig hnobj hvq hfk hfknd hfkpk hdf hdq
  subst hcr hborn hpost hlock hsig hnobj hn
  simp only [PyCreate.run, create_params, create_hasKw, argsOk, createProg_split]
  simp only [List.length_cons, List.length_nil, Nat.ble, List.drop, List.all_nil, Bool.and_true, Bool.true_or, if_true,
    create_s0, create_s1, create_s2]
  simp [Stmt.exec, St.setW, St.setXW, XW.cvNew]
  refine create_tail_goodT ps ctx hclos _ idv id? hid pd pk exs hnd (clsOf sch c).cols.length rfl hpk hexs hfk hfknd hfkpk rfl ?_ rfl rfl rfl rfl rfl rfl rfl
    dflt' dsql' hdf hdq hvq
  simp [bindVars]

/-- `Cls(id=…, **pd)`: the translated `__init__`, `_create`, `set`, `_SO_finishCreate`; the setter of a ForeignKey given
    by object runs the translated `_SO_setValue` (`PyFail.propCallT`) -/
def createFT (ps : FW → Nat → Nat → In → PyFail.Outcome) (dflt : Nat → Option In) (dsql : Nat → Bool) (sch : Schema)
    (inj : Option Inj) (props : Nat → Extra) (s : Fail.St) (c : Nat) (vq : List Bool) (id? : Option Nat) (pd : List (Nat × In)) :
    PyFail.Outcome :=
  createFWith (setFWith (propCallT ps) false) (mkCtx dflt dsql) (mkW sch inj props s c 0 vq) id? pd

/-- **CREATE with ForeignKeys given by object, translated = hand model.**  `pd`: the keywords (distinct names), a name
    `< ncols` a column, any other name the by-object setter of a ForeignKey column `col < ncols` (`props name = .fk col v`;
    these columns pairwise distinct and not given by name as well).  The default loop of the translated `_create` passes
    over the columns given by object (`maskD` / `maskQ` of `byObject`), the translated `set` validates / stores the plain
    columns and then runs the translated `_SO_setValue` per by-object keyword, `_SO_finishCreate` INSERTs: the outcome,
    log and post-state are those of `Fail.createProg` for the plain and defaulted columns followed by the by-object
    columns as ordinary `In.ok` entries, under the same schedule. -/
theorem C06_translated_create_fkobj_eq_model (ps : FW → Nat → Nat → In → PyFail.Outcome)
    (dflt : Nat → Option In) (dsql : Nat → Bool) (sch : Schema) (inj : Option Inj)
    (props : Nat → Extra) (s : Fail.St) (c : Nat) (id? : Option Nat) (pd pk exs : List (Nat × In))
    (hnd : (pd.map (·.1)).Nodup)
    (hpk : pd.filter (fun e => Nat.blt e.1 (clsOf sch c).cols.length) = pk)
    (hexs : pd.filter (fun e => !Nat.blt e.1 (clsOf sch c).cols.length) = exs)
    (hfk : ∀ e ∈ exs, ∃ col v, props e.1 = .fk col v ∧ col < (clsOf sch c).cols.length ∧
      (colOf (clsOf sch c).cols col).fk.isSome = true)
    (hfknd : ((exs.map (fkOf props)).map (·.1)).Nodup)
    (hfkpk : ∀ e ∈ exs, hasKey pk (fkOf props e).1 = false)
    (dflt' : Nat → Option In) (dsql' : Nat → Bool)
    (hdf : dflt' = maskD (byObject sch c props pd) dflt) (hdq : dsql' = maskQ (byObject sch c props pd) dsql) :
    viewObs (createFT ps dflt dsql sch inj props s c
        (vqOf (kwFullOf dflt' (clsOf sch c).cols.length pk) ++ vqEx (exs.map fun e => props e.1)) id? pd) =
      some (runObs (Fail.run sch inj (Fail.createProg sch c id? (missingOf dflt' dsql' (clsOf sch c).cols.length pk)
        (kwFullOf dflt' (clsOf sch c).cols.length pk ++ exs.map (fkCol props)) [] (fun _ => .done)) s)) := by
  unfold createFT createFWith
  apply init_good
  simp only [initCall, if_true]
  exact create_goodT ps (mkCtx dflt dsql) (by simp [mkCtx, closTable]) _ (idVal id?) id? (idArg_idVal id?) pd pk exs hnd
    (clsOf sch c).cols.length rfl hpk hexs hfk hfknd hfkpk rfl rfl rfl rfl rfl rfl dflt' dsql' hdf hdq rfl

/-- the remark: the oracle of that theorem is `vqOf` of the whole keyword list of the hand model -/
theorem vqOf_fkobj (props : Nat → Extra) (kw exs : List (Nat × In)) (hfk : ∀ e ∈ exs, ∃ col v, props e.1 = .fk col v) :
    vqOf kw ++ vqEx (exs.map fun e => props e.1) = vqOf (kw ++ exs.map (fkCol props)) :=
  (vqOf_append_fk props kw exs hfk).symm

end SqlObjVerif.PyCreate
