import SqlObjVerif.Model.SliceX
import SqlObjVerif.Lemmas.Slice
/-!
Symbolic execution of the TRANSLATED `__getitem__` (PyMini programs regenerated from /repo) against
the hand-written model `sliceSel` / `indexSel`: equal on all inputs.  The proofs walk every path of
the translated program (`pyrun` evaluates the interpreter on the concrete program under the path's
facts, `arith` closes the remaining integer goals), so any semantic change of the source makes
them fail.
-/
namespace SqlObjVerif.Slice
open SqlObjVerif.PyMini

theorem indexSelX_eq (d : Dialect) (xs : List α) (w : Win) (i : Int) :
    indexSelX d xs w i = indexSel d xs w i := by
  obtain ⟨s0, e0⟩ := w
  unfold indexSelX indexSel envIndex Extracted.indexProg
  by_cases hi : i < 0
  · simp [run, Block.exec, Stmt.exec, CExpr.eval, AExpr.eval, Env.get?, Cmp.holds, hi, Ret.eval, outOfOutcome]
    rfl
  · obtain ⟨n, rfl⟩ := Int.eq_ofNat_of_zero_le (by omega : 0 ≤ i)
    have h1 : ¬ ((s0 : Int) + (n : Int) < 0) := by omega
    have h2 : ¬ ((s0 : Int) + (n : Int) + 1 < 0) := by omega
    have h3 : ((s0 : Int) + (n : Int)).toNat = s0 + n := by omega
    have h4 : ((s0 : Int) + (n : Int) + 1).toNat = s0 + n + 1 := by omega
    cases e0 with
    | none =>
      simp [run, Block.exec, Stmt.exec, CExpr.eval, AExpr.eval, Env.get?, Env.set, Cmp.holds, hi, Ret.eval,
        outOfOutcome, h1, h2, h3, h4]
      rfl
    | some e0 =>
      by_cases hp : s0 + n ≥ e0
      · have hp' : (e0 : Int) ≤ (s0 : Int) + (n : Int) := by omega
        simp [run, Block.exec, Stmt.exec, CExpr.eval, AExpr.eval, Env.get?, Env.set, Cmp.holds, hi,
          outOfOutcome, hp, hp']
      · have hp' : ¬ ((e0 : Int) ≤ (s0 : Int) + (n : Int)) := by omega
        simp [run, Block.exec, Stmt.exec, CExpr.eval, AExpr.eval, Env.get?, Env.set, Cmp.holds, hi, Ret.eval,
          outOfOutcome, hp, hp', h1, h2, h3, h4]
        rfl


macro "pyrun" : tactic => `(tactic|
  simp [run, Block.exec, Stmt.exec, CExpr.eval, AExpr.eval, Env.get?, Env.set, Cmp.holds, Ret.eval,
        selOfOutcome, pyTruthy, truthy, isNeg, nonnegWin, clampStop, clampStart, *])

macro "arith" : tactic => `(tactic|
  (repeat' split) <;>
  first
  | rfl
  | (exfalso; omega)
  | (simp only [Sel.q.injEq, Win.mk.injEq, Option.some.injEq, true_and, and_true]; omega)
  | (simp only [Sel.q.injEq, Win.mk.injEq, Option.some.injEq, true_and, and_true]
     constructor <;> omega))

theorem sliceSelX_eq (d : Dialect) (xs : List α) (w : Win) (a b : Option Int) :
    sliceSelX d xs w a b = sliceSel d xs w a b := by
  obtain ⟨s0, e0⟩ := w
  unfold sliceSelX sliceSel envSlice Extracted.sliceProg
  rcases a with _ | av
  · -- start omitted
    rcases b with _ | bv
    · pyrun
    · rcases Int.lt_trichotomy bv 0 with hb | hb | hb
      · have hb' : (bv != 0) = true := by simp; omega
        pyrun
        rfl
      · subst hb
        cases e0 with
        | none => pyrun; arith
        | some e0 =>
          by_cases hc : (e0 : Int) < (s0 : Int)
          · pyrun; arith
          · pyrun; arith
      · have hb' : (bv != 0) = true := by simp; omega
        have hb2 : ¬ (bv < 0) := by omega
        have hz : ¬ (bv + (s0 : Int) < (s0 : Int)) := by omega
        cases e0 with
        | none => pyrun; arith
        | some e0 =>
          by_cases hc : (e0 : Int) < bv + (s0 : Int)
          · by_cases hd : (e0 : Int) < (s0 : Int)
            · pyrun; arith
            · pyrun; arith
          · pyrun; arith
  · rcases Int.lt_trichotomy av 0 with ha | ha | ha
    · -- negative start: list fallback
      have ha' : (av != 0) = true := by simp; omega
      pyrun
      rfl
    · -- start = 0
      subst ha
      rcases b with _ | bv
      · pyrun
      · rcases Int.lt_trichotomy bv 0 with hb | hb | hb
        · have hb' : (bv != 0) = true := by simp; omega
          pyrun
          rfl
        · subst hb
          cases e0 with
          | none => pyrun; arith
          | some e0 =>
            by_cases hc : (e0 : Int) < (s0 : Int)
            · pyrun; arith
            · pyrun; arith
        · have hb' : (bv != 0) = true := by simp; omega
          have hb2 : ¬ (bv < 0) := by omega
          have hz : ¬ (bv + (s0 : Int) < (s0 : Int)) := by omega
          cases e0 with
          | none => pyrun; arith
          | some e0 =>
            by_cases hc : (e0 : Int) < bv + (s0 : Int)
            · by_cases hd : (e0 : Int) < (s0 : Int)
              · pyrun; arith
              · pyrun; arith
            · pyrun; arith
    · -- start > 0
      have ha' : (av != 0) = true := by simp; omega
      have ha2 : ¬ (av < 0) := by omega
      have ha3 : 0 ≤ av := by omega
      rcases b with _ | bv
      · cases e0 with
        | none => pyrun; arith
        | some e0 =>
          by_cases hc : (e0 : Int) < (s0 : Int) + av
          · pyrun; arith
          · pyrun; arith
      · rcases Int.lt_trichotomy bv 0 with hb | hb | hb
        · have hb' : (bv != 0) = true := by simp; omega
          pyrun
          rfl
        · subst hb
          have hlt : (0 : Int) < av := ha
          pyrun
          arith
        · have hb' : (bv != 0) = true := by simp; omega
          have hb2 : ¬ (bv < 0) := by omega
          have hb3 : 0 ≤ bv := by omega
          by_cases hlt : bv < av
          · pyrun; arith
          · cases e0 with
            | none =>
              by_cases hd : bv + (s0 : Int) < (s0 : Int) + av
              · pyrun; arith
              · pyrun; arith
            | some e0 =>
              by_cases hc : (e0 : Int) < bv + (s0 : Int)
              · by_cases hd : (e0 : Int) < (s0 : Int) + av
                · pyrun; arith
                · pyrun; arith
              · by_cases hd : bv + (s0 : Int) < (s0 : Int) + av
                · pyrun; arith
                · pyrun; arith

end SqlObjVerif.Slice
