import SqlObjVerif.Lemmas.UriX
/-!
# C18 — the translated `SQLiteConnection.uri` and `SQLiteConnection._connectionFromParams` equal the hand model
(`Uri.sqliteUri`, `Uri.sqliteOpen`)
-/
namespace SqlObjVerif.UriX
open SqlObjVerif.Uri
open SqlObjVerif.PyUri hiding Str
open SqlObjVerif.PyUri.Extracted

section
variable (os : List Nat) (cm : Val → String → List Val → R Val) (cv : Val → List Val → List (List Nat × Val) → R Val)

theorem sqliteUri_s0_exec (env : Env) (fn : List Nat) (h0 : env 0 = some (sqliteObj fn)) :
    Stmt.exec (uriIface os cm cv) env sqliteUri_s0 = .norm (env.put 1 (.str fn)) := by
  unfold sqliteUri_s0
  simp only [sqliteObj] at h0
  pyu

/-- the path part of `SQLiteConnection.uri`; `none` = UnicodeEncodeError -/
def sqlitePath (fn : List Nat) : Option (List Nat) :=
  if fn = Extracted.sqliteMemoryName then some Extracted.sqliteMemoryPath
  else quote Extracted.sqliteSafe
    ((if startsWith Extracted.sqliteAbsTest fn then Extracted.sqliteAbsPrefix else Extracted.sqliteRelPrefix) ++ fn)

theorem sqliteUri_eq2 (fn : List Nat) :
    Uri.sqliteUri fn = match sqlitePath fn with
      | some p => .ok (Extracted.sqlitePrefix ++ p)
      | none => .unicodeEncodeError := by
  unfold Uri.sqliteUri sqlitePath
  by_cases hm : fn = Extracted.sqliteMemoryName
  · simp [hm]
  · simp only [hm, if_false]
    generalize quote _ _ = r
    cases r <;> rfl

theorem sqliteUri_s1_exec (env : Env) (fn : List Nat) (h1 : env 1 = some (.str fn)) :
    Stmt.exec (uriIface os cm cv) env sqliteUri_s1 =
      match sqlitePath fn with
      | some p => .norm (env.put 1 (.str p))
      | none => .exc (env.put 1 (.str ((if [47].isPrefixOf fn = true then [47, 47] else [47, 47, 47]) ++ fn)))
          .unicodeEncodeError := by
  unfold sqliteUri_s1 sqlitePath
  have e1 : Extracted.sqliteMemoryName = [58, 109, 101, 109, 111, 114, 121, 58] := rfl
  have e2 : Extracted.sqliteSafe = [47] := rfl
  rw [e1, e2]
  by_cases hm : fn = [58, 109, 101, 109, 111, 114, 121, 58]
  · subst hm
    pyu
    simp [Extracted.sqliteMemoryPath]
  · rw [if_neg hm]
    have hm' : (fn == [58, 109, 101, 109, 111, 114, 121, 58]) = false := by simpa using hm
    simp only [startsWith, Extracted.sqliteAbsTest, Extracted.sqliteAbsPrefix, Extracted.sqliteRelPrefix]
    by_cases hs : [47].isPrefixOf fn = true
    · simp only [hs, if_true]
      cases hq : quote [47] ([47, 47] ++ fn) <;> pyu <;> simp_all [Res.seq_norm]
    · have hs' : [47].isPrefixOf fn = false := by
        cases h : [47].isPrefixOf fn
        · rfl
        · exact absurd h hs
      simp only [hs', Bool.false_eq_true, if_false]
      cases hq : quote [47] ([47, 47, 47] ++ fn) <;> pyu <;> simp_all [Res.seq_norm]

theorem sqliteUri_s2_exec (env : Env) (p : List Nat) (h1 : env 1 = some (.str p)) :
    Stmt.exec (uriIface os cm cv) env sqliteUri_s2 = .ret env (.str (Extracted.sqlitePrefix ++ p)) := by
  unfold sqliteUri_s2
  pyu
  simp [Extracted.sqlitePrefix]

/-- the translated `SQLiteConnection.uri` computes the hand model's `sqliteUri`, for every file name -/
theorem sqliteUri_translated (fn : List Nat) :
    sqliteUriX (uriIface os cm cv) fn = ofBuildOut (Uri.sqliteUri fn) := by
  unfold sqliteUriX run PyUri.Extracted.sqliteUri
  simp only [exec_cons]
  rw [sqliteUri_s0_exec os cm cv _ fn rfl]
  simp only [Res.seq_norm]
  rw [sqliteUri_s1_exec os cm cv _ fn rfl, sqliteUri_eq2]
  cases hp : sqlitePath fn with
  | none => simp [Res.out, ofBuildOut]
  | some p =>
    simp only [Res.seq_norm]
    rw [sqliteUri_s2_exec os cm cv _ p rfl]
    simp [Res.out, ofBuildOut]

/-! ### `SQLiteConnection._connectionFromParams` -/

set_option linter.unusedSimpArgs false in
theorem sqliteOpen_translated (cls : Val) (p : Parsed) :
    sqliteOpenX (uriIface os cm cv) cls p = sqliteOpenSpec (uriIface os cm cv) cls p := by
  unfold sqliteOpenX sqliteOpenSpec run PyUri.Extracted.sqliteConnectionFromParams sqliteOpen
    sqliteConnectionFromParams_s0 sqliteConnectionFromParams_s1 sqliteConnectionFromParams_s2
    sqliteConnectionFromParams_s3
  rcases p with ⟨user, password, host, port, path, args⟩
  have e1 : Extracted.sqliteOpenMemoryPath = [47, 58, 109, 101, 109, 111, 114, 121, 58] := rfl
  have e2 : Extracted.sqliteOpenMemoryName = [58, 109, 101, 109, 111, 114, 121, 58] := rfl
  simp only [e1, e2]
  cases host <;> cases port <;> cases user <;> cases password <;>
    simp [Env.ofArgs, Stmt.exec, Block.exec, Expr.eval, Exprs.eval, Res.out, Res.seq_norm]
  by_cases hm : path = [47, 58, 109, 101, 109, 111, 114, 121, 58]
  · subst hm
    simp [Env.ofArgs, Stmt.exec, Block.exec, Expr.eval, Exprs.eval, Res.out, Res.seq_norm, Target.bind, zipKw,
      filenameKw, ofR]
    cases cv cls [] (([102, 105, 108, 101, 110, 97, 109, 101], Val.str [58, 109, 101, 109, 111, 114, 121, 58]) :: strDict args) <;> rfl
  · simp [hm, Env.ofArgs, Stmt.exec, Block.exec, Expr.eval, Exprs.eval, Res.out, Res.seq_norm, Target.bind, zipKw,
      filenameKw, ofR]
    cases cv cls [] (([102, 105, 108, 101, 110, 97, 109, 101], Val.str path) :: strDict args) <;> rfl

end
end SqlObjVerif.UriX
