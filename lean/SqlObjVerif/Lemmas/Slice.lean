import SqlObjVerif.Model.Slice
/-! Helper lemmas for C10 (window arithmetic). -/
namespace SqlObjVerif.Slice

def takeOpt : Option Nat → List α → List α
  | none, xs => xs
  | some e, xs => xs.take e

/-- what a window denotes on the full ordered result -/
def window (xs : List α) (w : Win) : List α := (takeOpt w.stop xs).drop w.start

def Win.WF (w : Win) : Prop := ∀ e, w.stop = some e → w.start ≤ e

theorem window_getElem? (xs : List α) (w : Win) (i : Nat) :
    (window xs w)[i]? =
      match w.stop with
      | none => xs[w.start + i]?
      | some e => if w.start + i < e then xs[w.start + i]? else none := by
  unfold window takeOpt
  cases h : w.stop with
  | none => simp
  | some e => simp [List.getElem?_take]

theorem window_length (xs : List α) (w : Win) :
    (window xs w).length =
      match w.stop with
      | none => xs.length - w.start
      | some e => min e xs.length - w.start := by
  unfold window takeOpt
  cases h : w.stop <;> simp

end SqlObjVerif.Slice

namespace SqlObjVerif.Slice

theorem int_sub_toNat (e s : Nat) : ((e : Int) - (s : Int)).toNat = e - s := by omega

theorem rows_spec (d : Dialect) (xs : List α) (w : Win) (hw : w.WF) :
    rows d xs w = some (window xs w) := by
  obtain ⟨s, e⟩ := w
  unfold Win.WF at hw
  simp only at hw
  cases e with
  | none =>
    by_cases hs : s = 0
    · subst hs
      cases d <;> simp [rows, windowToks, Extracted.selectGuard, Guard.holds, clauseOf, sem, window, takeOpt]
    · cases d <;>
      simp [rows, windowToks, Extracted.selectGuard, Guard.holds, hs, branchesOf, Extracted.sqlite,
        Extracted.mysql, Extracted.postgres, runBranches, Cond.holds, pieceToks, Piece.tok, Arg.val,
        clauseOf, sem, window, takeOpt]
  | some e =>
    have hse := hw e rfl
    have h0 : ¬ ((e : Int) < 0) := by omega
    have h1 : ¬ ((e : Int) - (s : Int) < 0) := by omega
    have h2 : ¬ ((e : Int) - (s : Int) = -1) := by omega
    have h3 : ¬ ((e : Int) = -1) := by omega
    have h4 : s + (e - s) = e := by omega
    by_cases hs : s = 0
    · subst hs
      cases d <;>
      simp [rows, windowToks, Extracted.selectGuard, Guard.holds, branchesOf, Extracted.sqlite,
        Extracted.mysql, Extracted.postgres, runBranches, Cond.holds, pieceToks, Piece.tok, Arg.val,
        clauseOf, sem, window, takeOpt, h0, h3]
    · cases d <;>
      simp [rows, windowToks, Extracted.selectGuard, Guard.holds, branchesOf, Extracted.sqlite,
        Extracted.mysql, Extracted.postgres, runBranches, Cond.holds, pieceToks, Piece.tok, Arg.val,
        clauseOf, sem, window, takeOpt, hs, h1, h2, List.take_drop, h4]
end SqlObjVerif.Slice

namespace SqlObjVerif.Slice

theorem pySlice_nn (l : List α) (a b : Nat) :
    pySlice l (some (a : Int)) (some (b : Int)) = (l.take b).drop a := by
  apply List.ext_getElem?
  intro i
  simp only [pySlice, pyBound, List.getElem?_drop, List.getElem?_take]
  have h1 : ¬ ((a : Int) < 0) := by omega
  have h2 : ¬ ((b : Int) < 0) := by omega
  simp only [h1, h2, if_false, Int.toNat_natCast]
  by_cases ha : a ≤ l.length
  · rw [Nat.min_eq_left ha]
    by_cases hb : b ≤ l.length
    · rw [Nat.min_eq_left hb]
    · rw [Nat.min_eq_right (by omega)]
      split <;> split <;> first | rfl | omega | (symm; apply List.getElem?_eq_none; omega) | (apply List.getElem?_eq_none; omega)
  · rw [Nat.min_eq_right (by omega)]
    have : l[l.length + i]? = none := List.getElem?_eq_none (by omega)
    have h' : l[a + i]? = none := List.getElem?_eq_none (by omega)
    simp [h']

theorem pySlice_n_none (l : List α) (a : Nat) :
    pySlice l (some (a : Int)) none = l.drop a := by
  have h := pySlice_nn l a l.length
  have h2 : ¬ ((l.length : Int) < 0) := by omega
  simp only [pySlice, pyBound, h2, if_false, Int.toNat_natCast, Nat.min_self] at *
  rw [h, List.take_length]

theorem pySlice_none_n (l : List α) (b : Nat) :
    pySlice l none (some (b : Int)) = l.take b := by
  have h := pySlice_nn l 0 b
  simp only [pySlice, pyBound] at *
  simpa using h

end SqlObjVerif.Slice

namespace SqlObjVerif.Slice

theorem window_take_drop (xs : List α) (s0 : Nat) (e0 : Option Nat) (a b : Nat) :
    ((window xs ⟨s0, e0⟩).take b).drop a = window xs ⟨s0 + a, some (clampStop e0 (b + s0))⟩ := by
  apply List.ext_getElem?
  intro i
  simp only [List.getElem?_drop, List.getElem?_take, window_getElem?]
  cases e0 with
  | none =>
    simp only [clampStop]
    have : s0 + (a + i) = s0 + a + i := by omega
    rw [this]
    by_cases h : a + i < b
    · have h' : s0 + a + i < b + s0 := by omega
      simp [h, h']
    · have h' : ¬ s0 + a + i < b + s0 := by omega
      simp [h, h']
  | some e0 =>
    simp only [clampStop]
    have : s0 + (a + i) = s0 + a + i := by omega
    rw [this]
    repeat' split
    all_goals first | rfl | omega

theorem window_drop (xs : List α) (s0 : Nat) (e0 : Option Nat) (a : Nat) :
    (window xs ⟨s0, e0⟩).drop a = window xs ⟨s0 + a, e0⟩ := by
  apply List.ext_getElem?
  intro i
  simp only [List.getElem?_drop, window_getElem?]
  have : s0 + (a + i) = s0 + a + i := by omega
  rw [this]

theorem window_clampStart (xs : List α) (s : Nat) (e : Option Nat) :
    window xs ⟨clampStart s e, e⟩ = window xs ⟨s, e⟩ := by
  cases e with
  | none => rfl
  | some e =>
    apply List.ext_getElem?
    intro i
    simp only [window_getElem?, clampStart]
    repeat' split
    all_goals first | rfl | omega

theorem window_empty (xs : List α) (s : Nat) : window xs ⟨s, some s⟩ = [] := by
  apply List.ext_getElem?
  intro i
  simp only [window_getElem?]
  have : ¬ s + i < s := by omega
  simp [this]

theorem clampStart_WF (s : Nat) (e : Option Nat) : Win.WF ⟨clampStart s e, e⟩ := by
  intro e' h
  simp only at h
  subst h
  simp only [clampStart]
  split <;> omega

end SqlObjVerif.Slice

namespace SqlObjVerif.Slice

theorem nonneg_spec (xs : List α) (w : Win) (a b : Option Int)
    (ha : isNeg a = false) (hb : isNeg b = false) (hid : ¬ (truthy a = false ∧ b = none)) :
    window xs (nonnegWin w a b) = pySlice (window xs w) a b ∧ (nonnegWin w a b).WF := by
  obtain ⟨s0, e0⟩ := w
  by_cases hta : truthy a = true
  · -- a = some n, n > 0
    obtain ⟨av, rfl⟩ : ∃ av, a = some av := by
      cases a with
      | none => simp [truthy] at hta
      | some av => exact ⟨av, rfl⟩
    have hav : 0 ≤ av := by simpa [isNeg] using ha
    obtain ⟨n, rfl⟩ := Int.eq_ofNat_of_zero_le hav
    cases b with
    | none =>
      simp only [nonnegWin, hta, if_true, Option.getD, Int.toNat_natCast]
      refine ⟨?_, clampStart_WF _ _⟩
      rw [window_clampStart, pySlice_n_none, window_drop]
    | some bv =>
      have hbv : 0 ≤ bv := by simpa [isNeg] using hb
      obtain ⟨m, rfl⟩ := Int.eq_ofNat_of_zero_le hbv
      simp only [nonnegWin, hta, if_true, Option.getD, Int.toNat_natCast]
      by_cases hlt : (m : Int) < (n : Int)
      · simp only [hlt, if_true]
        refine ⟨?_, clampStart_WF _ _⟩
        rw [window_clampStart, window_empty, pySlice_nn]
        have : m < n := by omega
        simp [List.drop_eq_nil_iff]
        omega
      · simp only [hlt, if_false]
        refine ⟨?_, clampStart_WF _ _⟩
        rw [window_clampStart, pySlice_nn, window_take_drop]
  · have hta' : truthy a = false := by simpa using hta
    obtain ⟨bv, rfl⟩ : ∃ bv, b = some bv := by
      cases b with
      | none => exact absurd ⟨hta', rfl⟩ hid
      | some bv => exact ⟨bv, rfl⟩
    have hbv : 0 ≤ bv := by simpa [isNeg] using hb
    obtain ⟨m, rfl⟩ := Int.eq_ofNat_of_zero_le hbv
    simp only [nonnegWin, hta', Option.getD, Int.toNat_natCast, Bool.false_eq_true, if_false]
    refine ⟨?_, clampStart_WF _ _⟩
    have hp : pySlice (window xs ⟨s0, e0⟩) a (some (m : Int)) = (window xs ⟨s0, e0⟩).take m := by
      cases a with
      | none => exact pySlice_none_n _ _
      | some av =>
        have : av = 0 := by simpa [truthy] using hta'
        subst this
        have := pySlice_nn (window xs ⟨s0, e0⟩) 0 m
        simpa using this
    rw [hp, window_clampStart]
    have := window_take_drop xs s0 e0 0 m
    simpa using this.symm

theorem pySlice_id (l : List α) (a : Option Int) (h : truthy a = false) : pySlice l a none = l := by
  cases a with
  | none => simp [pySlice, pyBound]
  | some a =>
    have : a = 0 := by simpa [truthy] using h
    subst this
    simp [pySlice, pyBound]

end SqlObjVerif.Slice
