import SqlObjVerif.Model.DdlX
/-!
# C14 translation — evaluation lemmas and the symbolic-execution macro

The image values (`colV`, `connV`, …) stay FOLDED during symbolic execution; attribute reads, method dispatch and the
one attribute assignment go through the lemmas of this file.
-/
namespace SqlObjVerif.DdlX
open SqlObjVerif.Ddl
open SqlObjVerif.PyDdl hiding Str isUpperC
open SqlObjVerif.PyDdl.Extracted

theorem aget_append {α : Type} (a : String) (l1 l2 : List (String × α)) :
    aget a (l1 ++ l2) = (aget a l1).or (aget a l2) := by
  induction l1 with
  | nil => rfl
  | cons e l ih => simp only [List.cons_append, aget]; split <;> simp_all

@[simp] theorem IX_ext : IX.ext = extX := rfl
@[simp] theorem IX_extMeth : IX.extMeth = extMethX := rfl
@[simp] theorem IX_fmtD : IX.fmtD = fmtDX := rfl
@[simp] theorem IX_mro : IX.mro = prog.mroOf := rfl
@[simp] theorem IX_lower (s : Str) : IX.lower s = s.map lowerC := rfl
@[simp] theorem IX_upper (s : Str) : IX.upper s = s.map upperC := rfl

@[simp] theorem fmtDX_nat (n : Nat) : fmtDX (n : Int) = natDigits n := by
  have h : ¬ ((n : Int) < 0) := by omega
  simp [fmtDX, h]

/-! ### the column object -/

@[simp] theorem kindFields_simple (T : Tables) (k : SimpleKind) : kindFields T (.simple k) = [] := rfl
@[simp] theorem kindFields_int (T : Tables) (k : IntKind) (length : Nat) (u z : Bool) :
    kindFields T (.int k length u z) = [("length", .int length), ("unsigned", .bool u), ("zerofill", .bool z)] := rfl
@[simp] theorem kindFields_str (T : Tables) (b : Bool) (length : Nat) (v : Option Bool) :
    kindFields T (.str b length v) =
      [("length", .int length), ("varchar", .bool (varcharEff length v true)), ("char_binary", .none)] := rfl
@[simp] theorem kindFields_blob (T : Tables) (length : Nat) (v : Option Bool) :
    kindFields T (.blob length v) =
      [("length", .int length), ("varchar", .bool (varcharEff length v false)), ("char_binary", .none)] := rfl
@[simp] theorem kindFields_pickle (T : Tables) (length : Nat) (v : Option Bool) :
    kindFields T (.pickle length v) =
      [("length", .int length), ("varchar", .bool (varcharEff length v false)), ("char_binary", .none)] := rfl
@[simp] theorem kindFields_decimal (T : Tables) (s p : Nat) :
    kindFields T (.decimal s p) = [("size", .int s), ("precision", .int p)] := rfl
@[simp] theorem kindFields_currency (T : Tables) :
    kindFields T .currency = [("size", .int T.currencySize), ("precision", .int T.currencyPrecision)] := rfl
@[simp] theorem kindFields_enum (T : Tables) (vals : List (Option Str)) :
    kindFields T (.enum vals) = [("enumValues", .list (vals.map optStr))] := rfl
@[simp] theorem kindFields_fk (T : Tables) (tTable tId : Str) (tIdStr : Bool) (cas : Cascade) :
    kindFields T (.fk tTable tId tIdStr cas) =
      [("foreignKey", otherV tTable tId tIdStr), ("cascade", cascadeV cas), ("refColumn", .none)] := rfl

@[simp] theorem clsOf_simple (k : SimpleKind) : clsOf (.simple k) = simpleCls k := rfl
@[simp] theorem clsOf_int (k : IntKind) (l : Nat) (u z : Bool) : clsOf (.int k l u z) = intCls k := rfl
@[simp] theorem clsOf_str_false (l : Nat) (v : Option Bool) : clsOf (.str false l v) = C_SOStringCol := rfl
@[simp] theorem clsOf_str_true (l : Nat) (v : Option Bool) : clsOf (.str true l v) = C_SOUnicodeCol := rfl
@[simp] theorem clsOf_blob (l : Nat) (v : Option Bool) : clsOf (.blob l v) = C_SOBLOBCol := rfl
@[simp] theorem clsOf_pickle (l : Nat) (v : Option Bool) : clsOf (.pickle l v) = C_SOPickleCol := rfl
@[simp] theorem clsOf_decimal (s p : Nat) : clsOf (.decimal s p) = C_SODecimalCol := rfl
@[simp] theorem clsOf_currency : clsOf .currency = C_SOCurrencyCol := rfl
@[simp] theorem clsOf_enum (vals : List (Option Str)) : clsOf (.enum vals) = C_SOEnumCol := rfl
@[simp] theorem clsOf_fk (a b : Str) (c : Bool) (d : Cascade) : clsOf (.fk a b c d) = C_SOForeignKey := rfl

/-- the attributes every column class reads are not kind-specific -/
theorem aget_kindFields_common (T : Tables) (k : Kind) (a : String)
    (ha : a = "dbName" ∨ a = "notNone" ∨ a = "alternateID" ∨ a = "unique" ∨ a = "defaultSQL" ∨ a = "customSQLType"
      ∨ a = "connection" ∨ a = "soClass") : aget a (kindFields T k) = none := by
  cases k <;> rcases ha with rfl | rfl | rfl | rfl | rfl | rfl | rfl | rfl <;> rfl

@[simp] theorem attrOf_colV (I : Iface) (T : Tables) (st : Style) (tb : Str) (c0 : Val) (col : Col) (a : String) :
    attrOf I (colV T st tb c0 col) a =
      attrRes I (clsOf col.kind) a ((aget a (kindFields T col.kind)).or (aget a (commonFields st tb c0 col))) := by
  rw [colV, attrOf_obj, aget_append]

@[simp] theorem recvCls_colV (T : Tables) (st : Style) (tb : Str) (c0 : Val) (col : Col) :
    recvCls (colV T st tb c0 col) = .ok (clsOf col.kind) := rfl

@[simp] theorem isInst_colV (I : Iface) (T : Tables) (st : Style) (tb : Str) (c0 : Val) (col : Col) (c : Nat) :
    isInst I (colV T st tb c0 col) c = .ok (.bool ((I.mro (clsOf col.kind)).contains c)) := rfl

theorem map_fset_id (l : List (String × Val)) (a : String) (v : Val) (h : l.any (fun e => e.1 == a) = false) :
    l.map (fun e => if e.1 == a then (e.1, v) else e) = l := by
  induction l with
  | nil => rfl
  | cons e l ih =>
    rw [List.any_cons, Bool.or_eq_false_iff] at h
    rw [List.map_cons, ih h.2, h.1]
    rfl

theorem fset_append_right (l1 l2 : List (String × Val)) (a : String) (v : Val)
    (h1 : l1.any (fun e => e.1 == a) = false) (h2 : l2.any (fun e => e.1 == a) = true) :
    fset (l1 ++ l2) a v = l1 ++ fset l2 a v := by
  unfold fset
  rw [List.any_append, h1, h2, Bool.false_or, if_pos rfl, if_pos rfl, List.map_append, map_fset_id l1 a v h1]

@[simp] theorem setAttrVal_connection (T : Tables) (st : Style) (tb : Str) (c0 v : Val) (col : Col) :
    setAttrVal "connection" v (colV T st tb c0 col) = some (colV T st tb v col) := by
  rw [colV, setAttrVal_obj, fset_append_right]
  · rfl
  · cases col.kind <;> rfl
  · rfl

/-! ### the connection object -/

@[simp] theorem truthy_connV (d : Dialect) (c : Caps) : truthy (connV d c) = true := rfl
@[simp] theorem micro_connV (I : Iface) (d : Dialect) (c : Caps) :
    bmethOf I (connV d c) "can_use_microseconds" [] = I.extMeth (connV d c) "can_use_microseconds" [] := rfl
@[simp] theorem extMethX_micro (d : Dialect) (c : Caps) :
    extMethX (connV d c) "can_use_microseconds" [] = .ok (.bool c.micro) := rfl
@[simp] theorem maxTypes_connV (I : Iface) (d : Dialect) (c : Caps) :
    bmethOf I (connV d c) "can_use_max_types" [] = I.extMeth (connV d c) "can_use_max_types" [] := rfl
@[simp] theorem extMethX_maxTypes (d : Dialect) (c : Caps) :
    extMethX (connV d c) "can_use_max_types" [] = .ok (.bool c.maxTypes) := rfl
@[simp] theorem recvCls_connV (d : Dialect) (c : Caps) : recvCls (connV d c) = .ok (connCls d) := rfl

/-! ### strings and lists -/

@[simp] theorem allStr_map_str (l : List Str) : allStr (l.map Val.str) = some l := by
  induction l with
  | nil => rfl
  | cons a l ih => simp [allStr, ih]

@[simp] theorem allStr_cons_str (s : Str) (l : List Val) : allStr (.str s :: l) = (allStr l).map (s :: ·) := rfl
@[simp] theorem allStr_nil : allStr [] = some [] := rfl

theorem joinStr_blank (a : Str) (l : List Str) : joinStr [32] (a :: l) = a ++ spaced l := by
  induction l generalizing a with
  | nil => simp [joinStr, spaced]
  | cons b l ih => rw [joinStr, ih]; simp [spaced]; intro h; cases h

theorem joinStr_eq_joinWith (sep : Str) (l : List Str) : joinStr sep l = joinWith sep l := by
  induction l with
  | nil => rfl
  | cons a l ih =>
    cases l with
    | nil => rfl
    | cons b l => simp only [joinStr, joinWith, ih]

@[simp] theorem strMethod_join (I : Iface) (sep : Str) (l : List Val) :
    strMethod I sep "join" [.list l] = (ofOpt (allStr l)).bind fun ss => .ok (.str (joinStr sep ss)) := by
  simp [strMethod]

/-! ### calls -/

theorem callX_succ (n : Nat) (c : Callee) (args : List Val) (f : Fn) (h : prog.resolve c = some f) :
    callN prog ddlI (n + 1) c args = f.run (callN prog ddlI n) IX args := callN_succ prog ddlI n c args f h

/-- evaluate the translated program by simp (hypotheses in the context are used as rewrite rules); calls of program
    functions are NOT unfolded: rewrite them with lemmas about the callee -/
macro "pyx" : tactic =>
  `(tactic| simp [pyddl, Fn.run, Fn.args, Block.exec, Stmt.exec, Expr.eval, Exprs.eval, Res.seq_norm,
      appendOf, setAttrOf, selfCls, pyFmt, fmtPos, fmtNamed, hasNamed, aget, commonFields, *])

macro "pyxwith" "[" ts:Lean.Parser.Tactic.simpLemma,* "]" : tactic =>
  `(tactic| simp [pyddl, Fn.run, Fn.args, Block.exec, Stmt.exec, Expr.eval, Exprs.eval, Res.seq_norm,
      appendOf, setAttrOf, selfCls, pyFmt, fmtPos, fmtNamed, hasNamed, aget, commonFields, $ts,*, *])

/-- the same, unfolding every call whose callee `Prog.resolve` determines -/
macro "pyxc" "[" ts:Lean.Parser.Tactic.simpLemma,* "]" : tactic =>
  `(tactic| simp [pyddl, callX_succ, Fn.run, Fn.args, Block.exec, Stmt.exec, Expr.eval, Exprs.eval, Res.seq_norm,
      appendOf, setAttrOf, selfCls, pyFmt, fmtPos, fmtNamed, hasNamed, aget, commonFields, $ts,*, *])

end SqlObjVerif.DdlX
