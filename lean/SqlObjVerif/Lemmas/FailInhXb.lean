import SqlObjVerif.Lemmas.FailInhXa
/-!
C06, the TRANSLATED `InheritableSQLObject._create` against the `Fail` machinery — part (b): interface projections,
dict values, and the two loops of `_create` (`create_loop0_run`: the split of `kw` by `hasattr(parentClass, name)`;
`create_loop1_run`: the required-keyword check, a no-op under `Required`).  `fhrun` evaluates the interpreter on the
concrete program under the path's facts.
-/
set_option linter.unusedSimpArgs false
namespace SqlObjVerif.Fail.InhX
open SqlObjVerif.PyInh (Iface CallRes R Exc ExcCls vdGet vdHas vdSet forLoop pairBody isListVal pyBool)
open SqlObjVerif.PyInh.Extracted (create_loop0 create_loop1)

@[simp] theorem xIface_self (X : Ctx) (C : Construct) (s : PVal) : (xIface X C s).self = s := rfl
@[simp] theorem xIface_attrOf (X : Ctx) (C : Construct) (s : PVal) : (xIface X C s).attrOf = xAttrOf X := rfl
@[simp] theorem xIface_setAttrOf (X : Ctx) (C : Construct) (s : PVal) : (xIface X C s).setAttrOf = xSetAttrOf := rfl
@[simp] theorem xIface_hasattr (X : Ctx) (C : Construct) (s : PVal) (w : FW) : (xIface X C s).hasattr w = xHasattr X := rfl
@[simp] theorem xIface_global (X : Ctx) (C : Construct) (s : PVal) (n : String) :
    (xIface X C s).global n = if n = "sqlbuilder.NoDefault" then some noDefault else none := rfl
@[simp] theorem xIface_isinstance (X : Ctx) (C : Construct) (s : PVal) (w : FW) : (xIface X C s).isinstance w = xIsinstance := rfl
@[simp] theorem xIface_call (X : Ctx) (C : Construct) (s : PVal) : (xIface X C s).call = xCall X := rfl
@[simp] theorem xIface_callFn (X : Ctx) (C : Construct) (s : PVal) : (xIface X C s).callFn = xCallFn C := rfl
@[simp] theorem xIface_super (X : Ctx) (C : Construct) (s : PVal) : (xIface X C s).super = xSuper X s := rfl

/-! `pyBool` on constructors only -/
@[simp] theorem pyBool_none : pyBool .none = false := rfl
@[simp] theorem pyBool_bool (b : Bool) : pyBool (.bool b) = b := rfl
@[simp] theorem pyBool_int (n : Int) : pyBool (.int n) = (n != 0) := rfl
@[simp] theorem pyBool_nat (n : Nat) : pyBool (.nat n) = (n != 0) := rfl
@[simp] theorem pyBool_str (s : String) : pyBool (.str s) = (s != "") := rfl
@[simp] theorem pyBool_name (a j : Nat) : pyBool (.name a j) = true := rfl
@[simp] theorem pyBool_cls (c : Nat) : pyBool (.cls c) = true := rfl
@[simp] theorem pyBool_conn (k : Nat) : pyBool (.conn k) = true := rfl
@[simp] theorem pyBool_inst (k c i : Nat) : pyBool (.inst k c i) = true := rfl
@[simp] theorem pyBool_ref (a b : Nat) : pyBool (.ref a b) = true := rfl
@[simp] theorem pyBool_pair (a b : PVal) : pyBool (.pair a b) = true := rfl
@[simp] theorem pyBool_nil : pyBool .nil = false := rfl
@[simp] theorem pyBool_cons (a b : PVal) : pyBool (.cons a b) = true := rfl

macro "fhrun" : tactic => `(tactic|
  simp [PyInh.run, PyInh.Block.exec, PyInh.Stmt.exec, PyInh.Cond.eval, PyInh.Expr.eval, PyInh.Exprs.eval, PyInh.eval2,
        PyInh.evalArgs, PyInh.evalStar, PyInh.Env.get, PyInh.St.setVar, PyInh.St.setOpt, PyInh.afterCall,
        PyInh.Res.toCall, PyInh.zipKw, PyInh.ExcPat.catches, xAttrOf, xSetAttrOf, xHasattr, xIsinstance,
        xSuper, xCall, xCallFn, PyInh.Val.isNone, PyInh.isListVal, classOpt, newInst, *])

@[simp] theorem setSt_st (w : FW) (s : St) : (w.setSt s).st = s := rfl
@[simp] theorem setSt_par (w : FW) (s : St) : (w.setSt s).par = w.par := rfl
@[simp] theorem setSt_setSt (w : FW) (s s' : St) : (w.setSt s).setSt s' = w.setSt s' := rfl
@[simp] theorem setPar_st (w : FW) (c : Nat) (v : PVal) : (w.setPar c v).st = w.st := rfl
@[simp] theorem setPar_par_self (w : FW) (c : Nat) (v : PVal) : (w.setPar c v).par c = v := by simp [FW.setPar]
theorem setPar_setSt (w : FW) (c : Nat) (v : PVal) (s : St) : (w.setPar c v).setSt s = (w.setSt s).setPar c v := rfl
@[simp] theorem setSt_self (w : FW) : w.setSt w.st = w := rfl

theorem errOf_excOf (e : Err) : errOf (excOf e) = some e := by cases e <;> rfl

theorem excOf_inj (a b : Err) (h : excOf a = excOf b) : a = b := by
  have := congrArg errOf h
  simpa [errOf_excOf] using this

theorem decIn_encIn (v : In) : decIn (encIn v) = v := by
  cases v with
  | bad => rfl
  | bad2 v => cases v <;> rfl
  | ok v => cases v <;> rfl

/-! ### dict values -/

theorem toList_ofList (l : List PVal) : PyInh.Val.toList (PyInh.Val.ofList l) = some l := by
  induction l with
  | nil => rfl
  | cons a l ih => simp [PyInh.Val.ofList, PyInh.Val.toList, ih]

theorem isListVal_ofList (l : List PVal) : isListVal (PyInh.Val.ofList l) = true := by
  induction l with
  | nil => rfl
  | cons a l ih => simpa [PyInh.Val.ofList, isListVal] using ih

theorem entriesOf_ofList (es : List (PVal × PVal)) : entriesOf (PyInh.Val.ofList (pairsOf es)) = es := by
  induction es with
  | nil => rfl
  | cons e es ih =>
    simp only [pairsOf, List.map_cons, PyInh.Val.ofList, entriesOf] at ih ⊢
    rw [ih]

theorem vdGet_pairsOf (k : PVal) (es : List (PVal × PVal)) :
    vdGet k (PyInh.Val.ofList (pairsOf es)) = (es.find? fun e => e.1 == k).map (·.2) := by
  induction es with
  | nil => simp [pairsOf, PyInh.Val.ofList, vdGet]
  | cons e es ih =>
    simp only [pairsOf, List.map_cons, PyInh.Val.ofList, vdGet, List.find?_cons] at ih ⊢
    by_cases h : e.1 = k
    · simp [h]
    · have hb : (e.1 == k) = false := beq_eq_false_iff_ne.mpr h
      simp [h, hb, ih]

theorem vdSet_fresh (k v : PVal) (es : List (PVal × PVal)) (h : ∀ e, e ∈ es → e.1 ≠ k) :
    vdSet k v (PyInh.Val.ofList (pairsOf es)) = PyInh.Val.ofList (pairsOf (es ++ [(k, v)])) := by
  induction es with
  | nil => simp [pairsOf, PyInh.Val.ofList, vdSet]
  | cons e es ih =>
    have h1 : e.1 ≠ k := h e List.mem_cons_self
    have := ih (fun e' he' => h e' (List.mem_cons_of_mem _ he'))
    simp only [pairsOf, List.map_cons, PyInh.Val.ofList, vdSet, List.cons_append] at this ⊢
    simp [h1, this]

/-- `hasattr(<class p>, key)` as the translated loop evaluates it -/
def toParent (X : Ctx) (p : Nat) : PVal → Bool
  | .name a _ => (ancs X.sch X.depth p).contains a
  | _ => false

def KwKey (key : PVal) : Prop := (∃ a j, key = PyInh.Val.name a j) ∨ key = .str "childName"

theorem create_loop0_run (X : Ctx) (C : Construct) (s : PVal) (p : Nat) (v0 v1 v7 v8 v9 : Option PVal) :
    ∀ (rest nk pk : List (PVal × PVal)) (w : FW) (v5 v6 : Option PVal),
      (∀ e, e ∈ rest → KwKey e.1) → (rest.map (·.1)).Nodup →
      (∀ e, e ∈ rest → (∀ e', e' ∈ nk → e'.1 ≠ e.1) ∧ (∀ e', e' ∈ pk → e'.1 ≠ e.1)) →
      ∃ v5' v6',
        forLoop (pairBody fun st a b => create_loop0.exec (xIface X C s) none ((st.setVar 5 a).setVar 6 b)) (pairsOf rest)
          { w := w, vars := [v0, v1, some (.cls p), some (PyInh.Val.ofList (pairsOf nk)), some (PyInh.Val.ofList (pairsOf pk)),
                             v5, v6, v7, v8, v9] } =
        .norm { w := w, vars := [v0, v1, some (.cls p),
                  some (PyInh.Val.ofList (pairsOf (nk ++ rest.filter fun e => !toParent X p e.1))),
                  some (PyInh.Val.ofList (pairsOf (pk ++ rest.filter fun e => toParent X p e.1))), v5', v6', v7, v8, v9] } := by
  intro rest
  induction rest with
  | nil => intro nk pk w v5 v6 _ _ _; exact ⟨v5, v6, by simp [pairsOf, forLoop]⟩
  | cons e rest ih =>
    intro nk pk w v5 v6 hkey hnd hfresh
    obtain ⟨key, val⟩ := e
    have hk := hkey (key, val) List.mem_cons_self
    obtain ⟨hf1, hf2⟩ := hfresh (key, val) List.mem_cons_self
    simp only [List.map_cons, List.nodup_cons, List.mem_map, not_exists, not_and] at hnd
    obtain ⟨hnotin, hnd'⟩ := hnd
    have hrest : ∀ e, e ∈ rest → KwKey e.1 := fun e he => hkey e (List.mem_cons_of_mem _ he)
    by_cases hP : toParent X p key = true
    · -- to the parent
      have hstep : create_loop0.exec (xIface X C s) none
          (PyInh.St.setVar (PyInh.St.setVar { w := w, vars := [v0, v1, some (.cls p), some (PyInh.Val.ofList (pairsOf nk)),
            some (PyInh.Val.ofList (pairsOf pk)), v5, v6, v7, v8, v9] } 5 key) 6 val) =
          .norm { w := w, vars := [v0, v1, some (.cls p), some (PyInh.Val.ofList (pairsOf nk)),
            some (PyInh.Val.ofList (pairsOf (pk ++ [(key, val)]))), some key, some val, v7, v8, v9] } := by
        unfold create_loop0
        rcases hk with ⟨a, j, rfl⟩ | rfl
        · simp only [toParent, List.contains_eq_mem, decide_eq_true_eq] at hP
          fhrun
          simp [isListVal_ofList, vdSet_fresh _ _ pk hf2]
        · simp [toParent] at hP
      obtain ⟨v5', v6', hih⟩ := ih nk (pk ++ [(key, val)]) w (some key) (some val) hrest hnd' (by
        intro e' he'
        obtain ⟨g1, g2⟩ := hfresh e' (List.mem_cons_of_mem _ he')
        refine ⟨g1, ?_⟩
        intro e'' he''
        rcases List.mem_append.mp he'' with h1 | h1
        · exact g2 e'' h1
        · simp only [List.mem_singleton] at h1
          subst h1
          intro heq
          exact hnotin e' he' heq.symm)
      refine ⟨v5', v6', ?_⟩
      simp only [pairsOf, List.map_cons, forLoop, pairBody] at hih ⊢
      simp only [pairsOf] at hstep
      rw [hstep]; dsimp only; rw [hih]
      simp [hP]
    · -- stays here
      have hP' : toParent X p key = false := by simpa using hP
      have hstep : create_loop0.exec (xIface X C s) none
          (PyInh.St.setVar (PyInh.St.setVar { w := w, vars := [v0, v1, some (.cls p), some (PyInh.Val.ofList (pairsOf nk)),
            some (PyInh.Val.ofList (pairsOf pk)), v5, v6, v7, v8, v9] } 5 key) 6 val) =
          .norm { w := w, vars := [v0, v1, some (.cls p), some (PyInh.Val.ofList (pairsOf (nk ++ [(key, val)]))),
            some (PyInh.Val.ofList (pairsOf pk)), some key, some val, v7, v8, v9] } := by
        unfold create_loop0
        rcases hk with ⟨a, j, rfl⟩ | rfl
        · simp only [toParent, List.contains_eq_mem, decide_eq_false_iff_not] at hP'
          fhrun
          simp [isListVal_ofList, vdSet_fresh _ _ nk hf1]
        · fhrun
          simp [isListVal_ofList, vdSet_fresh _ _ nk hf1]
      obtain ⟨v5', v6', hih⟩ := ih (nk ++ [(key, val)]) pk w (some key) (some val) hrest hnd' (by
        intro e' he'
        obtain ⟨g1, g2⟩ := hfresh e' (List.mem_cons_of_mem _ he')
        refine ⟨?_, g2⟩
        intro e'' he''
        rcases List.mem_append.mp he'' with h1 | h1
        · exact g1 e'' h1
        · simp only [List.mem_singleton] at h1
          subst h1
          intro heq
          exact hnotin e' he' heq.symm)
      refine ⟨v5', v6', ?_⟩
      simp only [pairsOf, List.map_cons, forLoop, pairBody] at hih ⊢
      simp only [pairsOf] at hstep
      rw [hstep]; dsimp only; rw [hih]
      simp [hP']

theorem create_loop0_run' (X : Ctx) (C : Construct) (s : PVal) (p : Nat) {v0 v1 v5 v6 v7 v8 v9 : Option PVal}
    {rest : List (PVal × PVal)} {w : FW} {r : PyInh.Res FW}
    (hF : forLoop (pairBody fun st a b => create_loop0.exec (xIface X C s) none ((st.setVar 5 a).setVar 6 b)) (pairsOf rest)
          { w := w, vars := [v0, v1, some (.cls p), some .nil, some .nil, v5, v6, v7, v8, v9] } = r)
    (hkey : ∀ e, e ∈ rest → KwKey e.1) (hnd : (rest.map (·.1)).Nodup) :
    ∃ v5' v6', r = .norm { w := w, vars := [v0, v1, some (.cls p),
                  some (PyInh.Val.ofList (pairsOf (rest.filter fun e => !toParent X p e.1))),
                  some (PyInh.Val.ofList (pairsOf (rest.filter fun e => toParent X p e.1))), v5', v6', v7, v8, v9] } := by
  obtain ⟨v5', v6', h⟩ := create_loop0_run X C s p v0 v1 v7 v8 v9 rest [] [] w v5 v6 hkey hnd
    (fun e _ => ⟨fun e' h' => absurd h' List.not_mem_nil, fun e' h' => absurd h' List.not_mem_nil⟩)
  refine ⟨v5', v6', ?_⟩
  rw [← hF]
  simpa [pairsOf, PyInh.Val.ofList] using h

theorem create_loop1_run (X : Ctx) (C : Construct) (s : PVal) (a : Nat) (kwv : PVal) (hl : isListVal kwv = true)
    (hkw : ∀ j, j < (clsOf X.sch a).cols.length → X.nodefault a j = true → vdHas (.name a j) kwv = true)
    (v0 v2 v3 v4 v5 v6 v8 v9 : Option PVal) : ∀ (cols : List PVal) (w : FW) (v7 : Option PVal),
      (∀ col, col ∈ cols → ∃ j, j < (clsOf X.sch a).cols.length ∧ col = colObj a j) → ∃ v7',
      forLoop (fun st col => create_loop1.exec (xIface X C s) none (st.setVar 7 col)) cols
        { w := w, vars := [v0, some kwv, v2, v3, v4, v5, v6, v7, v8, v9] } =
      .norm { w := w, vars := [v0, some kwv, v2, v3, v4, v5, v6, v7', v8, v9] } := by
  intro cols
  induction cols with
  | nil => intro w v7 _; exact ⟨v7, rfl⟩
  | cons col cols ih =>
    intro w v7 hc
    have hstep : create_loop1.exec (xIface X C s) none
        (PyInh.St.setVar { w := w, vars := [v0, some kwv, v2, v3, v4, v5, v6, v7, v8, v9] } 7 col) =
        .norm { w := w, vars := [v0, some kwv, v2, v3, v4, v5, v6, some col, v8, v9] } := by
      unfold create_loop1
      obtain ⟨j, hj, rfl⟩ := hc col List.mem_cons_self
      have := hkw j hj
      cases hd : X.nodefault a j <;> (simp only [colObj]; fhrun) <;> simp [noDefault]
    obtain ⟨v7', hih⟩ := ih w (some col) (fun c hc' => hc c (List.mem_cons_of_mem _ hc'))
    exact ⟨v7', by simp only [forLoop]; rw [hstep]; dsimp only; rw [hih]⟩

theorem create_loop1_run' (X : Ctx) (C : Construct) (s : PVal) (a : Nat) {kwv : PVal} (hl : isListVal kwv = true)
    (hkw : ∀ j, j < (clsOf X.sch a).cols.length → X.nodefault a j = true → vdHas (.name a j) kwv = true)
    {v0 v2 v3 v4 v5 v6 v7 v8 v9 : Option PVal} {cols : List PVal} {w : FW} {r : PyInh.Res FW}
    (hF : forLoop (fun st col => create_loop1.exec (xIface X C s) none (st.setVar 7 col)) cols
        { w := w, vars := [v0, some kwv, v2, v3, v4, v5, v6, v7, v8, v9] } = r)
    (hc : ∀ col, col ∈ cols → ∃ j, j < (clsOf X.sch a).cols.length ∧ col = colObj a j) :
    ∃ v7', r = .norm { w := w, vars := [v0, some kwv, v2, v3, v4, v5, v6, v7', v8, v9] } := by
  obtain ⟨v7', h⟩ := create_loop1_run X C s a kwv hl hkw v0 v2 v3 v4 v5 v6 v8 v9 cols w v7 hc
  exact ⟨v7', by rw [← hF, h]⟩

end SqlObjVerif.Fail.InhX
