import SqlObjVerif.Lemmas.EvSubX
/-!
C19 translator tie, part 19: the connection table after a subclass declaration.
-/
namespace SqlObjVerif.Events
open SqlObjVerif.PyVer

/-- the connection a live clone entry `(weakref(receiver), signal)` gives the new class -/
def cloneConn (alive : PVal → Bool) (new : PVal) (x : PVal) : Option (PVal × PVal × PVal × PVal) :=
  match x with
  | .pair (.obj _ r _) s => if alive r then some (r, s, new, .bool true) else none
  | _ => none

theorem foldl_copy_conns (alive : PVal → Bool) (new : PVal) (l : List PVal) : ∀ w : LW,
    (l.foldl (copyOne alive new) w).conns = w.conns ++ l.filterMap (cloneConn alive new) := by
  induction l with
  | nil => intro w; simp
  | cons x l ih =>
    intro w
    rw [List.foldl_cons, ih]
    unfold copyOne cloneConn
    split
    · split <;> simp [listened, *]
    · simp

/-- declaring `new` with the single base `base`: the new class gets, appended in the order of the base's list, one connection
    per live `(receiver, signal)` registered for the base — each exactly once -/
theorem subclassed_conns_single (alive : PVal → Bool) (w : LW) (base new : PVal) :
    (subclassed [base] alive w new).conns = w.conns ++ (clonesOf w.clones base).filterMap (cloneConn alive new) := by
  simp [subclassed, foldl_copy_conns]

end SqlObjVerif.Events
