import SqlObjVerif.Lemmas.JoinsXRec
/-!
Symbolic execution of the TRANSLATED join accessors (C13), part 4: `_applyOrderBy`, `SOMultipleJoin.performJoin`,
`SORelatedJoin.performJoin / add / remove`, `getID`, `SOSingleJoin.performJoin` — each for an arbitrary connection `P.C`.
-/
namespace SqlObjVerif.Joins
open SqlObjVerif.Graph
open SqlObjVerif.PyJoins
open SqlObjVerif.PyJoins.Extracted

/-- the value of `join.orderBy` denotes the key list `ks`: `None` for no ordering, else `Denotes` -/
def ObDenotes (nm : Nat → List Char) (v : PVal) (ks : List SortKey) : Prop := (v = .none ∧ ks = []) ∨ Denotes nm v ks

theorem Heap.set_same (h : Heap Hnd) (r : Nat) (l : List PVal) (hr : h.cells r = some l) : h.set r l = h := by
  cases h with
  | mk cells next =>
    simp only [Heap.set]; congr 1; funext r'
    by_cases e : r' = r
    · subst e; simp [hr.symm]
    · simp [e]

@[simp] theorem Heap.empty_next : (Heap.empty : Heap Hnd).next = 0 := rfl
@[simp] theorem Heap.empty_cells (r : Nat) : (Heap.empty : Heap Hnd).cells r = none := rfl

theorem denotes_ne_none {nm v ks} (h : Denotes nm v ks) : v ≠ .none := by
  cases h with
  | leaf v k hl => cases hl <;> simp
  | _ => simp [Val.ofList]

/-- the TRANSLATED `_applyOrderBy` sorts the list object by the join's `orderBy` and returns it -/
theorem applyOrderByX_eq (P : Params) (hnm : ∀ a, (P.nm a).head? ≠ some '-') (self : PVal) (hs : self = .obj .mjoin ∨ self = .obj .rjoin)
    (ks : List SortKey) (hob : ObDenotes P.nm P.D.orderBy ks) :
    ∃ n0, ∀ n, n0 ≤ n → ∀ (db : DB) (heap : Heap Hnd) (r c : Nat) (l : List Nat) (x : PVal), heap.cells r = some (instList c l) →
      applyOrderByX P self n db heap [.ref r, x] = .ret db (heap.set r (instList c (doSort (valOf P) ks l))) (.ref r) := by
  rcases hob with ⟨hv, rfl⟩ | hd
  · refine ⟨0, fun n _ db heap r c l x hr => ?_⟩
    unfold applyOrderByX PyJoins.run applyOrderByProg applyOrderByBody
    rcases hs with rfl | rfl <;> jrun <;> simp [doSort, Heap.set_same _ _ _ hr]
  · obtain ⟨n0, h0⟩ := doSortN_denotes P hnm hd
    refine ⟨n0, fun n hn db heap r c l x hr => ?_⟩
    have e := h0 n hn db heap r c l hr
    have hne := denotes_ne_none hd
    unfold applyOrderByX PyJoins.run applyOrderByProg applyOrderByBody
    rcases hs with rfl | rfl <;> jrun


theorem mapR_map_ok {α β γ : Type} (f : β → R γ) (g : α → β) (h : α → γ) (l : List α) (hl : ∀ a ∈ l, f (g a) = .ok (h a)) :
    mapR f (l.map g) = .ok (l.map h) := by
  induction l with
  | nil => rfl
  | cons a l ih =>
    simp only [List.map_cons, mapR, hl a (by simp), ih (fun x hx => hl x (by simp [hx]))]

/-- one row `(id,)` of the comprehension `[self.otherClass.get(id, conn) for (id,) in ids if id is not None]` -/
theorem compItem_get (P : Params) (self rec apply) (hs : self = .obj .mjoin ∨ self = .obj .rjoin) (db : DB) (heap : Heap Hnd)
    (env : Env Hnd) (cv : PVal) (h2 : env 2 = some cv) (hc : cv = .none ∨ cv = .obj .conn) (i : Option Nat) :
    compItem (jIface P self rec apply) db heap env
      (.query (.attr .self "otherClass") "get" (.cons (.var 3) (.cons (.var 2) .nil)) [] .nil) (.tuple [3])
      (.truthy (.isNotC (.var 3) .none)) (.tup (.cons (optId i) .nil)) =
      .ok (i.map fun j => .obj (.inst P.D.other j)) := by
  rcases hs with rfl | rfl <;> rcases hc with rfl | rfl <;> cases i <;>
    simp [compItem, bindPat, Val.toList, Cond.eval, Expr.eval, Exprs.eval, Const.val, optId, h2, jQuery, zipKw]

section queries
variable (P : Params) (db : DB)
@[simp] theorem jq_selectJoin (k f v : Nat) : jQuery P db (.obj .conn) "_SO_selectJoin" [.obj (.cls k), .obj (.col f), .int v] [] =
    .ok (rowsVal (P.C.selectJoin db k f v)) := by simp [jQuery]
@[simp] theorem jq_interJoin (t : Nat) (g c : Bool) (v : Nat) :
    jQuery P db (.obj .conn) "_SO_intermediateJoin" [.obj (.tbl t), .obj (.lcol g), .obj (.lcol c), .int v] [] =
    .ok (rowsVal (P.C.interJoin db t g c v)) := by simp [jQuery]
@[simp] theorem itemsOf_rowsVal (heap : Heap Hnd) (ids : List (Option Nat)) :
    itemsOf heap (rowsVal ids) = some (ids.map fun i => .tup (.cons (optId i) .nil)) := by simp [rowsVal]
end queries

theorem filterMap_map_inst (c : Nat) (ids : List (Option Nat)) :
    (ids.map (Option.map fun j => (.obj (.inst c j) : PVal))).filterMap id = instList c (ids.filterMap id) := by
  induction ids with
  | nil => rfl
  | cons a l ih => cases a <;> simp_all [instList]

set_option maxHeartbeats 400000 in
/-- the TRANSLATED `SOMultipleJoin.performJoin`: the instances of the ids `_SO_selectJoin` lists (NULLs dropped), sorted
    by the join's `orderBy` -/
theorem multiplePerformJoinX_eq (P : Params) (hnm : ∀ a, (P.nm a).head? ≠ some '-') (ks : List SortKey)
    (hob : ObDenotes P.nm P.D.orderBy ks) : ∃ n0, ∀ n, n0 ≤ n → ∀ (db : DB) (k j : Nat),
      resultIds (multiplePerformJoinX P n db k j) =
        some (db, instList P.D.other (doSort (valOf P) ks ((P.C.selectJoin db P.D.other P.D.fkcol j).filterMap id))) := by
  obtain ⟨n0, h0⟩ := applyOrderByX_eq P hnm (.obj .mjoin) (Or.inl rfl) ks hob
  refine ⟨n0, fun n hn db k j => ?_⟩
  have ha := h0 n hn db
  unfold multiplePerformJoinX PyJoins.run multiplePerformJoinProg multiplePerformJoinBody
  cases hpc : P.D.perConn
  · have e := ha (Heap.empty.alloc (instList P.D.other ((P.C.selectJoin db P.D.other P.D.fkcol j).filterMap id))) 0 P.D.other
      ((P.C.selectJoin db P.D.other P.D.fkcol j).filterMap id) (.obj (.cls P.D.other)) (by simp)
    jrun
    rw [mapR_map_ok _ _ (Option.map fun j => .obj (.inst P.D.other j)) _
      (fun a _ => compItem_get P _ _ _ (Or.inl rfl) db _ _ .none (by simp) (Or.inl rfl) a)]
    simp only [filterMap_map_inst]
    jrun
    simp [e, resultIds]
  · have e := ha (Heap.empty.alloc (instList P.D.other ((P.C.selectJoin db P.D.other P.D.fkcol j).filterMap id))) 0 P.D.other
      ((P.C.selectJoin db P.D.other P.D.fkcol j).filterMap id) (.obj (.cls P.D.other)) (by simp)
    jrun
    rw [mapR_map_ok _ _ (Option.map fun j => .obj (.inst P.D.other j)) _
      (fun a _ => compItem_get P _ _ _ (Or.inl rfl) db _ _ (.obj .conn) (by simp) (Or.inr rfl) a)]
    simp only [filterMap_map_inst]
    jrun
    simp [e, resultIds]


set_option maxHeartbeats 400000 in
/-- the TRANSLATED `SORelatedJoin.performJoin`: the instances of the ids `_SO_intermediateJoin(table, otherColumn,
    joinColumn, inst.id)` lists (NULLs dropped), sorted by the join's `orderBy` -/
theorem relatedPerformJoinX_eq (P : Params) (hnm : ∀ a, (P.nm a).head? ≠ some '-') (ks : List SortKey)
    (hob : ObDenotes P.nm P.D.orderBy ks) : ∃ n0, ∀ n, n0 ≤ n → ∀ (db : DB) (k j : Nat),
      resultIds (relatedPerformJoinX P n db k j) =
        some (db, instList P.D.other (doSort (valOf P) ks
          ((P.C.interJoin db P.D.table (!P.D.ownFirst) P.D.ownFirst j).filterMap id))) := by
  obtain ⟨n0, h0⟩ := applyOrderByX_eq P hnm (.obj .rjoin) (Or.inr rfl) ks hob
  refine ⟨n0, fun n hn db k j => ?_⟩
  have ha := h0 n hn db
  unfold relatedPerformJoinX PyJoins.run relatedPerformJoinProg relatedPerformJoinBody
  have e := ha (Heap.empty.alloc (instList P.D.other ((P.C.interJoin db P.D.table (!P.D.ownFirst) P.D.ownFirst j).filterMap id))) 0 P.D.other
      ((P.C.interJoin db P.D.table (!P.D.ownFirst) P.D.ownFirst j).filterMap id) (.obj (.cls P.D.other)) (by simp)
  cases hpc : P.D.perConn
  · jrun
    rw [mapR_map_ok _ _ (Option.map fun j => .obj (.inst P.D.other j)) _
      (fun a _ => compItem_get P _ _ _ (Or.inr rfl) db _ _ .none (by simp) (Or.inl rfl) a)]
    simp only [filterMap_map_inst]
    jrun
    simp [resultIds]
  · jrun
    rw [mapR_map_ok _ _ (Option.map fun j => .obj (.inst P.D.other j)) _
      (fun a _ => compItem_get P _ _ _ (Or.inr rfl) db _ _ (.obj .conn) (by simp) (Or.inr rfl) a)]
    simp only [filterMap_map_inst]
    jrun
    simp [resultIds]

/-! ### `getID`, `add`, `remove` -/

/-- the TRANSLATED `getID`: an instance's id, an integer itself -/
theorem getIDX_inst (P : Params) (db : DB) (k j : Nat) : getIDX P db (.obj (.inst k j)) = .ok (.int j) := by
  unfold getIDX PyJoins.run getIDProg getIDBody
  jrun
  simp [CallRes.toR]

theorem getIDX_int (P : Params) (db : DB) (n : Int) : getIDX P db (.int n) = .ok (.int n) := by
  unfold getIDX PyJoins.run getIDProg getIDBody
  jrun
  simp [CallRes.toR]

/-- `v` is an instance with id `j`, or the plain id `j` -/
def IsId (v : PVal) (j : Nat) : Prop := (∃ k, v = .obj (.inst k j)) ∨ v = .int j

theorem getIDX_isId (P : Params) (db : DB) (v : PVal) (j : Nat) (h : IsId v j) : getIDX P db v = .ok (.int j) := by
  rcases h with ⟨k, rfl⟩ | rfl
  · exact getIDX_inst P db k j
  · exact getIDX_int P db j

@[simp] theorem jFn_getID (P : Params) (db : DB) (v : PVal) : jFn P db "getID" [v] = getIDX P db v := by simp [jFn]

/-- the TRANSLATED `SORelatedJoin.add(inst, other)`: one `_SO_intermediateInsert(table, joinColumn, id(inst), otherColumn, id(other))` -/
theorem relatedAddX_eq (P : Params) (db : DB) (k j : Nat) (other : PVal) (j' : Nat) (ho : IsId other j') :
    relatedAddX P db (.obj (.inst k j)) other =
      .ret (P.C.interInsert db P.D.table P.D.ownFirst j (!P.D.ownFirst) j') Heap.empty .none := by
  have e1 := getIDX_inst P db k j
  have e2 := getIDX_isId P db other j' ho
  unfold relatedAddX PyJoins.run relatedAddProg relatedAddBody
  jrun
  simp [jCallConn]

/-- the TRANSLATED `SORelatedJoin.remove(inst, other)`: one `_SO_intermediateDelete(…)` -/
theorem relatedRemoveX_eq (P : Params) (db : DB) (k j : Nat) (other : PVal) (j' : Nat) (ho : IsId other j') :
    relatedRemoveX P db (.obj (.inst k j)) other =
      .ret (P.C.interDelete db P.D.table P.D.ownFirst j (!P.D.ownFirst) j') Heap.empty .none := by
  have e1 := getIDX_inst P db k j
  have e2 := getIDX_isId P db other j' ho
  unfold relatedRemoveX PyJoins.run relatedRemoveProg relatedRemoveBody
  jrun
  simp [jCallConn]


/-! ### `SOSingleJoin.performJoin` -/
section single
variable (P : Params) (db : DB)
@[simp] theorem ga_mjoin_so : jGetAttr P db (.obj .mjoin) "soClass" = .ok (.obj (.cls P.D.own)) := by simp [jGetAttr]
@[simp] theorem ga_cls_meta (k) : jGetAttr P db (.obj (.cls k)) "sqlmeta" = .ok (.obj (.cmeta k)) := by simp [jGetAttr]
@[simp] theorem ga_cmeta_style (k) : jGetAttr P db (.obj (.cmeta k)) "style" = .ok (.obj .style) := by simp [jGetAttr]
@[simp] theorem jq_pyname : jQuery P db (.obj .mjoin) "_dbNameToPythonName" [] [] = .ok (.obj (.pycol P.D.fkcol)) := by simp [jQuery]
@[simp] theorem jq_attrname (f : Nat) : jQuery P db (.obj .style) "instanceIDAttrToAttr" [.obj (.pycol f)] [] = .ok (.obj (.fkattr f)) := by
  simp [jQuery]
theorem jq_select (k f v : Nat) (cv : PVal) (hc : cv = .none ∨ cv = .obj .conn) :
    jQuery P db (.obj (.cls k)) "select" [.app "==" (.cons (.obj (.field k f)) (.cons (.int v) .nil))] [("connection", cv)] =
      .ok (.app "select" (.cons (.obj (.cls k)) (.cons (.obj (.col f)) (.cons (.int v) .nil)))) := by
  rcases hc with rfl | rfl <;> simp [jQuery]
@[simp] theorem jq_count (k f v : Nat) :
    jQuery P db (.app "select" (.cons (.obj (.cls k)) (.cons (.obj (.col f)) (.cons (.int v) .nil)))) "count" [] [] =
      .ok (.int ((P.C.selectJoin db k f v).filterMap id).length) := by
  simp [jQuery, selRows]
@[simp] theorem indexOf_select (heap : Heap Hnd) (a : PVal) (i : PVal) : indexOf heap (.app "select" a) i = none := by
  cases i <;> simp [indexOf, itemsOf]
  rename_i n; cases n <;> simp [itemsOf]
@[simp] theorem jIndex_select (k f v : Nat) :
    jIndex P db (.app "select" (.cons (.obj (.cls k)) (.cons (.obj (.col f)) (.cons (.int v) .nil)))) (.int 0) =
      idxRes (fun i => .obj (.inst k i)) ((P.C.selectJoin db k f v).filterMap id)[0]? := by
  simp [jIndex, selRows]
theorem len1_ne_0 (n : Nat) : ((n : Int) + 1 = 0) = False := by
  simp; omega
end single

set_option maxHeartbeats 400000 in
/-- the TRANSLATED `SOSingleJoin.performJoin`: `None` / a new default instance when nothing references the owner, else
    the first referencing row -/
theorem singlePerformJoinX_eq (P : Params) (db : DB) (k j : Nat) :
    singlePerformJoinX P db k j =
      match ((P.C.selectJoin db P.D.other P.D.fkcol j).filterMap id).head? with
      | some i => .ret db Heap.empty (.obj (.inst P.D.other i))
      | none => if P.D.makeDefault then
          .ret (P.C.create db P.D.other P.D.fkcol j).1 Heap.empty (.obj (.inst P.D.other (P.C.create db P.D.other P.D.fkcol j).2))
        else .ret db Heap.empty .none := by
  unfold singlePerformJoinX PyJoins.run singlePerformJoinProg singlePerformJoinBody
  cases hpc : P.D.perConn <;> cases hmd : P.D.makeDefault <;>
    cases hl : (P.C.selectJoin db P.D.other P.D.fkcol j).filterMap id <;>
    simp [Block.exec, Stmt.exec, Cond.eval, Expr.eval, Exprs.eval, St.setVar, St.setOpt, afterCall, zipKw,
        starKwOf, Const.val, Env.ofArgs, Res.toCall, jq_select, hpc, hmd, hl, jCallV, pairsOf, idxRes, len1_ne_0]

end SqlObjVerif.Joins
