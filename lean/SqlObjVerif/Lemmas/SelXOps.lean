import SqlObjVerif.Model.SelX
/-!
# C03 translation — what each translated method of `sqlbuilder.Select` does to the heap

One theorem per translated method, for EVERY interface `I`, heap and argument values: `__init__` allocates one dict
and writes it 15 times (`initOps`), `clone` copies `self.ops` into a fresh dict, updates the COPY and calls
`self.__class__(**copy)`; the derivers are `clone(k=v)`; `filter` is `newClause(AND(clause, c))`.
-/
namespace SqlObjVerif.SelX
open SqlObjVerif.PyExpr hiding Expr Exprs Stmt Block Res
open SqlObjVerif.PySel SqlObjVerif.PySel.Extracted

set_option linter.unusedSimpArgs false

@[simp] theorem truthyS_bool (b : Bool) : truthyS (.bool b) = b := by simp [truthyS, setOf]
@[simp] theorem truthyS_none : truthyS .none = false := by simp [truthyS, setOf]
@[simp] theorem truthyS_str (s : Str) : truthyS (.str s) = !s.isEmpty := by cases s <;> simp [truthyS, setOf, truthy]
@[simp] theorem truthyS_list (l : List Val) : truthyS (.list l) = !l.isEmpty := by cases l <;> simp [truthyS, setOf, truthy]
@[simp] theorem truthyS_setV (l : List Val) : truthyS (setV l) = !l.isEmpty := by simp [truthyS]

theorem Heap.ext {h1 h2 : Heap} (hc : h1.cells = h2.cells) (hn : h1.next = h2.next) : h1 = h2 := by
  cases h1; cases h2; simp_all

@[simp] theorem Heap.write_write (h : Heap) (a : Nat) (d e : Dict) : (h.write a d).write a e = h.write a e := by
  apply Heap.ext
  · funext q; simp only [Heap.write_cells]; split <;> rfl
  · rfl

@[simp] theorem Heap.alloc_write (h : Heap) (d e : Dict) : (h.alloc d).1.write h.next e = (h.alloc e).1 := by
  apply Heap.ext
  · funext q; simp only [Heap.write_cells, Heap.alloc_cells]; split <;> rfl
  · rfl

theorem St.put_same (s : St) (x : Nat) (v : Val) (h : s.env x = some v) : s.put x v = s := by
  cases s with
  | mk env heap =>
    simp only [St.put, St.mk.injEq, and_true]
    funext y; simp only [Env.put_apply]; split
    · next h' => rw [h']; exact h.symm
    · rfl

theorem St.put_same' (s : St) (x : Nat) (v : Val) (h : s.env x = some v) :
    ({ env := s.env.put x v, heap := s.heap } : St) = s := St.put_same s x v h

@[simp] theorem withV_seq {α : Type} (s : St) (r : R α) (f : α → Res) (k : St → Res) :
    (withV s r f).seq k = withV s r fun v => (f v).seq k := by
  cases r <;> simp

macro "pys" : tactic => `(tactic|
  simp [runH, runInitH, runP, PySel.Block.exec, PySel.Stmt.exec, PySel.Expr.eval, PySel.Exprs.eval, Env.ofArgs, Target.bind, bindAll,
    attrS, attrOf, indexS, setAttrS, setAttrItemS, attrRef, aset, aget, St.put, refOf_refV, selObj, *])

/-- what `__init__` makes of the `items` argument -/
def normItems (v : Val) : Val :=
  if ["list", "tuple", "GeneratorType"].any (fun c => ExprX.isSub (typeName v) c) then v else .list [v]
def clauseOf (clause where_ : Val) : Val :=
  if (typeName clause == "@NoDefault") && !(typeName where_ == "@NoDefault") then where_ else clause
def staticOf (v : Val) : Val := if typeName v == "@NoDefault" then .list [] else v

theorem init_s1 (I : SIface) (hsub : ∀ h, (I.E h).isSub = ExprX.isSub) (s : St) (v : Val) (h1 : s.env 1 = some v) :
    PySel.Stmt.exec I s Select_init_s1 = .norm (s.put 1 (normItems v)) := by
  unfold normItems
  by_cases hc : (["list", "tuple", "GeneratorType"].any fun c => ExprX.isSub (typeName v) c) = true
  · rw [if_pos hc, St.put_same _ _ _ h1]; simp only [Select_init_s1]; pys
    intro a b c; simp [a, b, c] at hc
  · rw [if_neg hc]; simp only [Select_init_s1]; pys
    intro hh; exfalso; apply hc
    simp only [List.any_cons, List.any_nil, Bool.or_false, Bool.or_eq_true]
    by_cases a : ExprX.isSub (typeName v) "list" = true
    · exact Or.inl a
    · by_cases b : ExprX.isSub (typeName v) "tuple" = true
      · exact Or.inr (Or.inl b)
      · exact Or.inr (Or.inr (hh (by simpa using a) (by simpa using b)))

theorem init_s2 (I : SIface) (s : St) (c w : Val) (h14 : s.env 14 = some c) (h2 : s.env 2 = some w) :
    PySel.Stmt.exec I s Select_init_s2 = .norm (s.put 14 (clauseOf c w)) := by
  unfold clauseOf
  cases hc : (typeName c == "@NoDefault") <;> cases hw : (typeName w == "@NoDefault") <;>
    simp only [Select_init_s2] <;> pys <;>
    first | done | exact (St.put_same' _ _ _ h14).symm | exact St.put_same' _ _ _ h14

theorem init_s3 (I : SIface) (s : St) (v : Val) (h15 : s.env 15 = some v) :
    PySel.Stmt.exec I s Select_init_s3 = .norm (s.put 15 (staticOf v)) := by
  unfold staticOf
  cases hc : (typeName v == "@NoDefault") <;> simp only [Select_init_s3] <;> pys <;>
    first | done | exact (St.put_same' _ _ _ h15).symm | exact St.put_same' _ _ _ h15

def initOps (items where_ groupBy having orderBy limit join lazy distinct start end_ reversed forUpdate clause static
    distinctOn : Val) : OpsM :=
  ⟨normItems items, clauseOf clause where_, groupBy, having, orderBy, limit, join, lazy, distinct, distinctOn, start, end_,
    reversed, forUpdate, staticOf static⟩

/-- `Select.__init__`: one fresh dict, written 15 times; nothing else in the heap is touched -/
theorem Select_init_spec (I : SIface) (hsub : ∀ h, (I.E h).isSub = ExprX.isSub) (h : Heap)
    (items where_ groupBy having orderBy limit join lazy distinct start end_ reversed forUpdate clause static
      distinctOn : Val) :
    runInitH I Select_init [.obj "Select" [], items, where_, groupBy, having, orderBy, limit, join, lazy, distinct, start,
      end_, reversed, forUpdate, clause, static, distinctOn] h =
    .ok (selObj h.next, (h.alloc (opsDict (initOps items where_ groupBy having orderBy limit join lazy distinct start end_
      reversed forUpdate clause static distinctOn))).1) := by
  simp only [Select_init, runInitH]
  rw [exec_cons]
  have e0 : PySel.Stmt.exec I ⟨Env.ofArgs [.obj "Select" [], items, where_, groupBy, having, orderBy, limit, join, lazy,
      distinct, start, end_, reversed, forUpdate, clause, static, distinctOn], h⟩ Select_init_s0 =
      .norm ⟨(Env.ofArgs [.obj "Select" [], items, where_, groupBy, having, orderBy, limit, join, lazy,
      distinct, start, end_, reversed, forUpdate, clause, static, distinctOn]).put 0 (selObj h.next), (h.alloc []).1⟩ := by
    simp only [Select_init_s0]; pys
  rw [e0, PySel.Res.seq_norm, exec_cons, init_s1 I hsub _ items rfl, PySel.Res.seq_norm, exec_cons, init_s2 I _ clause where_ rfl rfl,
    PySel.Res.seq_norm, exec_cons, init_s3 I _ static rfl, PySel.Res.seq_norm]
  simp only [Select_init_s4, Select_init_s5, Select_init_s6, Select_init_s7, Select_init_s8, Select_init_s9,
    Select_init_s10, Select_init_s11, Select_init_s12, Select_init_s13, Select_init_s14, Select_init_s15,
    Select_init_s16, Select_init_s17, Select_init_s18]
  pys
  simp [selObj, opsDict, initOps, k_items, k_clause, k_groupBy, k_having, k_orderBy, k_limit, k_join, k_lazyColumns,
    k_distinct, k_distinctOn, k_start, k_end, k_reversed, k_forUpdate, k_staticTables]


theorem finish_ret_outH (env : Env) (r : R (Val × Heap)) (s : St) : (finish .ret env r s).outH = r := by
  cases r with
  | ok a => cases a; rfl
  | exc e => rfl
  | stuck => rfl

theorem finish_ret_seq_outH (env : Env) (r : R (Val × Heap)) (s : St) (k : St → Res) :
    ((finish .ret env r s).seq k).outH = r := by
  cases r with
  | ok a => cases a; rfl
  | exc e => rfl
  | stuck => rfl

/-- `Select.clone(**newOps)`: copies `self.ops` into a FRESH dict, updates the copy, and passes (a copy of) it to
    `self.__class__`; the dict of `self` (address `p`) is only read -/
theorem Select_clone_spec (I : SIface) (h : Heap) (p q : Nat) (d kw : Dict) (hp : h.cells p = some d)
    (hq : h.cells q = some kw) (hq' : q ≠ h.next) :
    runH I Select_clone [selObj p, refV q] h =
      I.callH (selObj p) "__class__" [] (h.next + 1) ((h.alloc (dupdate d kw)).1.alloc (dupdate d kw)).1 := by
  simp only [Select_clone, runH, exec_cons, exec_nil]
  have e0 : PySel.Stmt.exec I ⟨Env.ofArgs [selObj p, refV q], h⟩ Select_clone_s0 =
      .norm ⟨(Env.ofArgs [selObj p, refV q]).put 2 (refV h.next), (h.alloc d).1⟩ := by
    simp only [Select_clone_s0]; pys
  rw [e0, PySel.Res.seq_norm]
  have e1 : PySel.Stmt.exec I ⟨(Env.ofArgs [selObj p, refV q]).put 2 (refV h.next), (h.alloc d).1⟩ Select_clone_s1 =
      .norm ⟨(Env.ofArgs [selObj p, refV q]).put 2 (refV h.next), (h.alloc (dupdate d kw)).1⟩ := by
    simp only [Select_clone_s1]; pys; simp [mutateS, mutate1, dictMut, hq', hq]
  rw [e1, PySel.Res.seq_norm]
  simp only [Select_clone_s2]
  pys
  simp [finish_ret_seq_outH, finish_ret_outH, zipKw]

theorem Select_newClause_spec (I : SIface) (h : Heap) (self x : Val) :
    runH I Select_newClause [self, x] h = I.callH self "clone" [] h.next (h.alloc [(k_clause, x)]).1 := by
  simp only [Select_newClause, Select_newClause_s0, runH]; pys; simp [finish_ret_seq_outH, finish_ret_outH, zipKw, k_clause]

theorem Select_newItems_spec (I : SIface) (h : Heap) (self x : Val) :
    runH I Select_newItems [self, x] h = I.callH self "clone" [] h.next (h.alloc [(k_items, x)]).1 := by
  simp only [Select_newItems, Select_newItems_s0, runH]; pys; simp [finish_ret_seq_outH, finish_ret_outH, zipKw, k_items]

theorem Select_orderBy_spec (I : SIface) (h : Heap) (self x : Val) :
    runH I Select_orderBy [self, x] h = I.callH self "clone" [] h.next (h.alloc [(k_orderBy, x)]).1 := by
  simp only [Select_orderBy, Select_orderBy_s0, runH]; pys; simp [finish_ret_seq_outH, finish_ret_outH, zipKw, k_orderBy]

theorem Select_lazyColumns_spec (I : SIface) (h : Heap) (self x : Val) :
    runH I Select_lazyColumns [self, x] h = I.callH self "clone" [] h.next (h.alloc [(k_lazyColumns, x)]).1 := by
  simp only [Select_lazyColumns, Select_lazyColumns_s0, runH]; pys; simp [finish_ret_seq_outH, finish_ret_outH, zipKw, k_lazyColumns]

theorem Select_distinct_spec (I : SIface) (h : Heap) (self : Val) :
    runH I Select_distinct [self] h = I.callH self "clone" [] h.next (h.alloc [(k_distinct, .bool true)]).1 := by
  simp only [Select_distinct, Select_distinct_s0, runH]; pys; simp [finish_ret_seq_outH, finish_ret_outH, zipKw, k_distinct]

theorem Select_unlimited_spec (I : SIface) (h : Heap) (self : Val) :
    runH I Select_unlimited [self] h = I.callH self "clone" [] h.next
      (h.alloc [(k_limit, noDefault), (k_start, .int 0), (k_end, .none)]).1 := by
  simp only [Select_unlimited, Select_unlimited_s0, runH]; pys
  simp [finish_ret_seq_outH, finish_ret_outH, zipKw, k_limit, k_start, k_end, noDefault]

/-- `limit()` derives a Select and DROPS it: it returns `None` (what the code does) -/
theorem Select_limit_spec (I : SIface) (h : Heap) (self x v : Val) (h' : Heap)
    (hc : I.callH self "clone" [] h.next (h.alloc [(k_limit, x)]).1 = .ok (v, h')) :
    runH I Select_limit [self, x] h = .ok (.none, h') := by
  simp only [Select_limit, Select_limit_s0, runH]; pys
  have : zipKw [[108, 105, 109, 105, 116]] [x] = [(k_limit, x)] := by simp [zipKw, k_limit]
  simp [this, hc, finish]

/-- `reversed()`: `clone(reversed=not self.ops.get('reversed', False))` -/
theorem Select_reversed_spec (I : SIface) (h : Heap) (p : Nat) (d : Dict) (hp : h.cells p = some d) :
    runH I Select_reversed [selObj p] h = I.callH (selObj p) "clone" [] h.next
      (h.alloc [(k_reversed, .bool (!truthyS ((aget k_reversed d).getD (.bool false))))]).1 := by
  simp only [Select_reversed, Select_reversed_s0, runH]; pys
  simp [methodS, hp, k_reversed, finish_ret_seq_outH, finish_ret_outH, zipKw]

/-- `filter(None)` is `self`; `filter(c)` is `newClause(AND(<the clause>, c))`, a `str` clause first wrapped in
    `SQLConstant('(…)')` -/
theorem Select_filter_none (I : SIface) (h : Heap) (self : Val) :
    runH I Select_filter [self, .none] h = .ok (self, h) := by
  simp only [Select_filter, Select_filter_s0, Select_filter_s1, Select_filter_s2, Select_filter_s3, runH]; pys

theorem Select_filter_spec (I : SIface) (hsub : ∀ h, (I.E h).isSub = ExprX.isSub) (h : Heap) (p : Nat) (d : Dict)
    (c fc : Val) (hp : h.cells p = some d) (hc : aget k_clause d = some c) (hfc : isNoneV fc = false)
    (hstr : ExprX.isSub (typeName c) "str" = false) :
    runH I Select_filter [selObj p, fc] h =
      match (I.E h).call "AND" [c, fc] with
      | .ok a => I.callH (selObj p) "newClause" [a] h.next (h.alloc []).1
      | .exc e => .exc e
      | .stuck => .stuck := by
  simp only [Select_filter, Select_filter_s0, Select_filter_s1, Select_filter_s2, Select_filter_s3, runH]
  have hc' : aget [99, 108, 97, 117, 115, 101] d = some c := hc
  pys
  simp [keyRes, hc', hstr, callS, callFn]
  cases (I.E h).call "AND" [c, fc] <;> simp [finish_ret_seq_outH, finish_ret_outH, zipKw]
end SqlObjVerif.SelX
