import SqlObjVerif.Lemmas.PyFail
/-!
C06, `set(**kw)`: the loops of the translated `set` under the validator oracle of the keywords
(`set_for4` eager validation, `set_for0` lazy / creating validation, `set_for2` / `set_for6` caching).
-/
namespace SqlObjVerif.PyFail
open SqlObjVerif.PyMain (PV FnKind Flag Expr Cond LExpr Target DRef ColAttr R mapR ofOpt PDict CVal
  dget dhas dset dupdate dictOf sortByKey ofVal toVal? pvIdx pyBool nameOf natOf itemsOf dbNameOf optMap
  updItemOf dictItemOf cvOf Block)
open SqlObjVerif.PyMain.Extracted
open SqlObjVerif.Fail (Err Schema Inj Extra clsOf hit exec bump applyMem Mem updPending rowVals In allOk)
open SqlObjVerif.PyPure (dset_not_mem)

/-- a state of `set`: twelve value locals of which the loops write 3..7, four dicts -/
def setSt (w : FW) (v0 v1 v2 b3 b4 b5 b6 b7 v8 v9 v10 v11 : Option PV) (ls : List (List PV))
    (d0 d1 d2 d3 : PDict) : St :=
  { w := w, vars := [v0, v1, v2, b3, b4, b5, b6, b7, v8, v9, v10, v11], lists := ls, dicts := [d0, d1, d2, d3] }

theorem allOk_cons (a : Nat × In) (l : List (Nat × In)) : allOk (a :: l) = (a.2.isOk && allOk l) := by
  simp [allOk]

theorem vqOf_cons (a : Nat × In) (l : List (Nat × In)) : vqOf (a :: l) = a.2.fromOk :: a.2.toOk :: vqOf l := by
  simp [vqOf]

theorem kwPV_cons (a : Nat × In) (l : List (Nat × In)) : kwPV (a :: l) = (a.1, ofVal a.2.val) :: kwPV l := by
  simp [kwPV, pvOfIn]

/-- validation loop of the eager branch of `set` (loop 4) under the validator oracle of the keywords -/
theorem set_for4_loop (call : CallT) (kvs : List (Nat × In)) :
    ∀ (w : FW) (tail : List Bool) (v0 v1 v2 a3 a4 a5 a6 a7 v8 v9 v10 v11 : Option PV) (ls : List (List PV))
      (d0 d1 d2 d3 : PDict),
      w.vq = vqOf kvs ++ tail → (∀ e ∈ kvs, Nat.blt e.1 (clsOf w.sch w.c).cols.length = true) → (kvs.map (·.1)).Nodup →
      (∀ e ∈ kvs, e.1 ∉ d2.map (·.1) ∧ e.1 ∉ d3.map (·.1)) →
      (allOk kvs = true → ∃ b3 b4 b5 b6 b7,
        forLoop (bindThen (.two 3 4) fun st' => Block.exec call st' set_for4)
            (kvs.map fun e => PV.pair (.name e.1) (pvOfIn e.2))
            (setSt w v0 v1 v2 a3 a4 a5 a6 a7 v8 v9 v10 v11 ls d0 d1 d2 d3) =
          .norm (setSt { w with vq := tail } v0 v1 v2 b3 b4 b5 b6 b7 v8 v9 v10 v11 ls d0 d1 (d2 ++ kwPV kvs) (d3 ++ kwPV kvs))) ∧
      (allOk kvs = false → ∃ st' q,
        forLoop (bindThen (.two 3 4) fun st' => Block.exec call st' set_for4)
            (kvs.map fun e => PV.pair (.name e.1) (pvOfIn e.2))
            (setSt w v0 v1 v2 a3 a4 a5 a6 a7 v8 v9 v10 v11 ls d0 d1 d2 d3) = .exc st' .invalid ∧
          st'.w = { w with vq := q }) := by
  induction kvs with
  | nil =>
    intro w tail v0 v1 v2 a3 a4 a5 a6 a7 v8 v9 v10 v11 ls d0 d1 d2 d3 hvq _ _ _
    refine ⟨fun _ => ⟨a3, a4, a5, a6, a7, ?_⟩, fun h => by simp [allOk] at h⟩
    simp only [vqOf, List.flatMap_nil, List.nil_append] at hvq
    simp [forLoop, kwPV, ← hvq]
  | cons e kvs ih =>
    intro w tail v0 v1 v2 a3 a4 a5 a6 a7 v8 v9 v10 v11 ls d0 d1 d2 d3 hvq hlt hnd hfresh
    obtain ⟨k, inp⟩ := e
    have hk := hlt (k, inp) (by simp)
    simp only [Nat.blt_eq] at hk
    simp only [List.map_cons, List.nodup_cons] at hnd
    have hk2 : k ∉ d2.map (·.1) := (hfresh (k, inp) (by simp)).1
    have hk3 : k ∉ d3.map (·.1) := (hfresh (k, inp) (by simp)).2
    rw [vqOf_cons] at hvq
    simp only [List.cons_append] at hvq
    cases inp with
    | bad =>
      refine ⟨fun h => by simp [allOk_cons, In.isOk, In.fromOk] at h, fun _ => ?_⟩
      simp only [List.map_cons, forLoop, bind_two, set_for4, setSt]
      pfonly [hk, hvq, In.fromOk, FW.ncols]
    | bad2 v =>
      refine ⟨fun h => by simp [allOk_cons, In.isOk, In.fromOk, In.toOk] at h, fun _ => ?_⟩
      simp only [List.map_cons, forLoop, bind_two, set_for4, setSt]
      pfonly [hk, hvq, In.fromOk, In.toOk, In.val, FW.ncols]
    | ok v =>
      have hstep : bindThen (.two 3 4) (fun st' => Block.exec call st' set_for4)
          (setSt w v0 v1 v2 a3 a4 a5 a6 a7 v8 v9 v10 v11 ls d0 d1 d2 d3) (PV.pair (.name k) (pvOfIn (.ok v))) =
          .norm (setSt { w with vq := vqOf kvs ++ tail } v0 v1 v2 (some (.name k)) (some (ofVal v)) (some (.fn .fromPy k))
            (some (ofVal v)) (some (.fn .toPy k)) v8 v9 v10 v11 ls d0 d1 (d2 ++ [(k, ofVal v)]) (d3 ++ [(k, ofVal v)])) := by
        simp only [bind_two, set_for4, setSt]
        pfonly [hk, hvq, In.fromOk, In.toOk, In.val, FW.ncols]
        rw [dset_not_mem _ _ _ hk2, dset_not_mem _ _ _ hk3]
        simp
      have hfresh' : ∀ e ∈ kvs, e.1 ∉ (d2 ++ [(k, ofVal v)]).map (·.1) ∧ e.1 ∉ (d3 ++ [(k, ofVal v)]).map (·.1) := by
        intro e he
        have h1 := hfresh e (by simp [he])
        have hne : e.1 ≠ k := fun h => hnd.1 (h ▸ List.mem_map_of_mem (f := (·.1)) he)
        simp [h1.1, h1.2, hne]
      obtain ⟨ihok, ihbad⟩ := ih { w with vq := vqOf kvs ++ tail } tail v0 v1 v2 (some (.name k)) (some (ofVal v)) (some (.fn .fromPy k))
        (some (ofVal v)) (some (.fn .toPy k)) v8 v9 v10 v11 ls d0 d1 (d2 ++ [(k, ofVal v)]) (d3 ++ [(k, ofVal v)]) rfl
        (fun e he => hlt e (by simp [he])) hnd.2 hfresh'
      simp only [List.map_cons, forLoop, hstep]
      refine ⟨fun h => ?_, fun h => ?_⟩
      · obtain ⟨b3, b4, b5, b6, b7, hb⟩ := ihok (by simpa [allOk_cons, In.isOk, In.fromOk, In.toOk] using h)
        refine ⟨b3, b4, b5, b6, b7, ?_⟩
        rw [hb, kwPV_cons]
        simp [In.val]
      · obtain ⟨st', q, hb, hw⟩ := ihbad (by simpa [allOk_cons, In.isOk, In.fromOk, In.toOk] using h)
        exact ⟨st', q, hb, hw⟩

theorem dset_same {α : Type} (k : Nat) (v : α) (l : List (Nat × α)) (hnd : (l.map (·.1)).Nodup) (h : (k, v) ∈ l) :
    dset k v l = l := by
  rw [PyPure.dset_mem _ _ _ (List.mem_map_of_mem (f := (·.1)) h)]
  conv => rhs; rw [← List.map_id l]
  apply List.map_congr_left
  intro e he
  by_cases hk : e.1 = k
  · have : e = (k, v) := PyPure.eq_of_key_eq hnd he h hk
    simp [this]
  · simp [hk]

/-- validation loop of the lazy / creating branch of `set` (loop 0): `kw[name] = dbValue` rewrites the entry with the
    value it holds (the hand model does not distinguish the two sides), `toCache` collects the values -/
theorem set_for0_loop (call : CallT) (kvs : List (Nat × In)) :
    ∀ (w : FW) (tail : List Bool) (v0 v1 v2 a3 a4 a5 a6 a7 v8 v9 v10 v11 : Option PV) (ls : List (List PV))
      (d0 d1 d2 d3 : PDict),
      w.vq = vqOf kvs ++ tail → (∀ e ∈ kvs, Nat.blt e.1 (clsOf w.sch w.c).cols.length = true) → (kvs.map (·.1)).Nodup →
      (∀ e ∈ kvs, e.1 ∉ d2.map (·.1)) → (∀ e ∈ kvs, dset e.1 (ofVal e.2.val) d0 = d0) →
      (allOk kvs = true → ∃ b3 b4 b5 b6 b7,
        forLoop (bindThen (.two 3 4) fun st' => Block.exec call st' set_for0)
            (kvs.map fun e => PV.pair (.name e.1) (pvOfIn e.2))
            (setSt w v0 v1 v2 a3 a4 a5 a6 a7 v8 v9 v10 v11 ls d0 d1 d2 d3) =
          .norm (setSt { w with vq := tail } v0 v1 v2 b3 b4 b5 b6 b7 v8 v9 v10 v11 ls d0 d1 (d2 ++ kwPV kvs) d3)) ∧
      (allOk kvs = false → ∃ st' q,
        forLoop (bindThen (.two 3 4) fun st' => Block.exec call st' set_for0)
            (kvs.map fun e => PV.pair (.name e.1) (pvOfIn e.2))
            (setSt w v0 v1 v2 a3 a4 a5 a6 a7 v8 v9 v10 v11 ls d0 d1 d2 d3) = .exc st' .invalid ∧
          st'.w = { w with vq := q }) := by
  induction kvs with
  | nil =>
    intro w tail v0 v1 v2 a3 a4 a5 a6 a7 v8 v9 v10 v11 ls d0 d1 d2 d3 hvq _ _ _ _
    refine ⟨fun _ => ⟨a3, a4, a5, a6, a7, ?_⟩, fun h => by simp [allOk] at h⟩
    simp only [vqOf, List.flatMap_nil, List.nil_append] at hvq
    simp [forLoop, kwPV, ← hvq]
  | cons e kvs ih =>
    intro w tail v0 v1 v2 a3 a4 a5 a6 a7 v8 v9 v10 v11 ls d0 d1 d2 d3 hvq hlt hnd hfresh hd0
    obtain ⟨k, inp⟩ := e
    have hk := hlt (k, inp) (by simp)
    simp only [Nat.blt_eq] at hk
    simp only [List.map_cons, List.nodup_cons] at hnd
    have hk2 : k ∉ d2.map (·.1) := hfresh (k, inp) (by simp)
    have hk0 := hd0 (k, inp) (by simp)
    simp only at hk0
    rw [vqOf_cons] at hvq
    simp only [List.cons_append] at hvq
    cases inp with
    | bad =>
      refine ⟨fun h => by simp [allOk_cons, In.isOk, In.fromOk] at h, fun _ => ?_⟩
      simp only [List.map_cons, forLoop, bind_two, set_for0, setSt]
      pfonly [hk, hvq, In.fromOk, FW.ncols]
    | bad2 v =>
      simp only [In.val] at hk0
      refine ⟨fun h => by simp [allOk_cons, In.isOk, In.fromOk, In.toOk] at h, fun _ => ?_⟩
      simp only [List.map_cons, forLoop, bind_two, set_for0, setSt]
      pfonly [hk, hvq, In.fromOk, In.toOk, In.val, FW.ncols, hk0]
    | ok v =>
      simp only [In.val] at hk0
      have hstep : bindThen (.two 3 4) (fun st' => Block.exec call st' set_for0)
          (setSt w v0 v1 v2 a3 a4 a5 a6 a7 v8 v9 v10 v11 ls d0 d1 d2 d3) (PV.pair (.name k) (pvOfIn (.ok v))) =
          .norm (setSt { w with vq := vqOf kvs ++ tail } v0 v1 v2 (some (.name k)) (some (ofVal v)) (some (.fn .fromPy k))
            (some (ofVal v)) (some (.fn .toPy k)) v8 v9 v10 v11 ls d0 d1 (d2 ++ [(k, ofVal v)]) d3) := by
        simp only [bind_two, set_for0, setSt]
        pfonly [hk, hvq, In.fromOk, In.toOk, In.val, FW.ncols, hk0]
        rw [dset_not_mem _ _ _ hk2]
      have hfresh' : ∀ e ∈ kvs, e.1 ∉ (d2 ++ [(k, ofVal v)]).map (·.1) := by
        intro e he
        have h1 := hfresh e (by simp [he])
        have hne : e.1 ≠ k := fun h => hnd.1 (h ▸ List.mem_map_of_mem (f := (·.1)) he)
        simp [h1, hne]
      obtain ⟨ihok, ihbad⟩ := ih { w with vq := vqOf kvs ++ tail } tail v0 v1 v2 (some (.name k)) (some (ofVal v)) (some (.fn .fromPy k))
        (some (ofVal v)) (some (.fn .toPy k)) v8 v9 v10 v11 ls d0 d1 (d2 ++ [(k, ofVal v)]) d3 rfl
        (fun e he => hlt e (by simp [he])) hnd.2 hfresh' (fun e he => hd0 e (by simp [he]))
      simp only [List.map_cons, forLoop, hstep]
      refine ⟨fun h => ?_, fun h => ?_⟩
      · obtain ⟨b3, b4, b5, b6, b7, hb⟩ := ihok (by simpa [allOk_cons, In.isOk, In.fromOk, In.toOk] using h)
        refine ⟨b3, b4, b5, b6, b7, ?_⟩
        rw [hb, kwPV_cons]
        simp [In.val]
      · obtain ⟨st', q, hb, hw⟩ := ihbad (by simpa [allOk_cons, In.isOk, In.fromOk, In.toOk] using h)
        exact ⟨st', q, hb, hw⟩

/-- `setattr(self, instanceName(name), value)` for the items `xs`, one after the other -/
def setVals (w : FW) (xs : List (Nat × Fail.Val)) : FW := xs.foldl (fun w e => w.setVal e.1 e.2) w

/-- the caching loops of `set` (loops 2 and 6) -/
theorem set_cache_loop (call : CallT) (body : Block) (hbody : body = .cons (.setattrSelf (.instName (.var 3)) (.var 4)) .nil)
    (xs : List (Nat × Fail.Val)) :
    ∀ (w : FW) (v0 v1 v2 a3 a4 a5 a6 a7 v8 v9 v10 v11 : Option PV) (ls : List (List PV)) (d0 d1 d2 d3 : PDict),
      ∃ b3 b4,
        forLoop (bindThen (.two 3 4) fun st' => Block.exec call st' body)
            (xs.map fun e => PV.pair (.name e.1) (ofVal e.2))
            (setSt w v0 v1 v2 a3 a4 a5 a6 a7 v8 v9 v10 v11 ls d0 d1 d2 d3) =
          .norm (setSt (setVals w xs) v0 v1 v2 b3 b4 a5 a6 a7 v8 v9 v10 v11 ls d0 d1 d2 d3) := by
  subst hbody
  induction xs with
  | nil => intro w v0 v1 v2 a3 a4 a5 a6 a7 v8 v9 v10 v11 ls d0 d1 d2 d3; exact ⟨a3, a4, by simp [forLoop, setVals]⟩
  | cons e xs ih =>
    intro w v0 v1 v2 a3 a4 a5 a6 a7 v8 v9 v10 v11 ls d0 d1 d2 d3
    obtain ⟨k, v⟩ := e
    have hstep : bindThen (.two 3 4) (fun st' => Block.exec call st' (.cons (.setattrSelf (.instName (.var 3)) (.var 4)) .nil))
        (setSt w v0 v1 v2 a3 a4 a5 a6 a7 v8 v9 v10 v11 ls d0 d1 d2 d3) (PV.pair (.name k) (ofVal v)) =
        .norm (setSt (w.setVal k v) v0 v1 v2 (some (.name k)) (some (ofVal v)) a5 a6 a7 v8 v9 v10 v11 ls d0 d1 d2 d3) := by
      simp only [bind_two, setSt]
      pfonly []
    obtain ⟨b3, b4, hb⟩ := ih (w.setVal k v) v0 v1 v2 (some (.name k)) (some (ofVal v)) a5 a6 a7 v8 v9 v10 v11 ls d0 d1 d2 d3
    exact ⟨b3, b4, by simp only [List.map_cons, forLoop, hstep, hb, setVals, List.foldl_cons]⟩

end SqlObjVerif.PyFail
