import SqlObjVerif.Lemmas.FailXSetExEager
/-!
C06, `obj.set(**kw)` on a LAZY class with EXTRA keywords, column keywords and extra keywords interleaved arbitrarily:
the translated `set` = the hand-compiled tree `Fail.setProg sch c id kw ex .done` under the same schedule.  An unknown
keyword is refused by the pre-check loop (`set_for1` = `Fail.precheck`) before anything changes.  Before the extras
loop the Python side has done several in-memory steps (one `setattr` per column, `_SO_createValues.update`) where the
hand tree does one (`.mem (.pend …)`): the two states agree up to the ghost counter `changes`, and the rest of the tree
(`extras … (dirty)`) contains no `dyn`, so it cannot tell them apart (`run_sim`).
Closed examples: two witnesses of `Props/C06.lean` replayed through the TRANSLATED program.
-/
namespace SqlObjVerif.PyFail
open SqlObjVerif.PyMain (PV FnKind Flag Expr Cond LExpr Target DRef ColAttr R mapR ofOpt PDict CVal
  dget dhas dset dupdate dictOf sortByKey ofVal toVal? pvIdx pyBool nameOf natOf itemsOf dbNameOf optMap
  updItemOf dictItemOf cvOf Block)
open SqlObjVerif.PyMain.Extracted
open SqlObjVerif.Fail (Err Schema Inj Extra clsOf hit exec bump applyMem Mem updPending rowVals In allOk)
open SqlObjVerif.PyPure (dset_not_mem dictOf_nodup filter_fst_none filter_fst_all mapR_ok_of filter_fst_map nodup_keys_filter)

theorem set_for3_eq : set_for3 = set_for5 := rfl

theorem Sim.runObs_eq {r r' : Fail.St × Option Err} (h : Sim r r') : runObs r = runObs r' := by
  obtain ⟨h1, h2⟩ := h
  simp [runObs, h1, h2]

theorem setF_extras_lazy_core (sch : Schema) (inj : Option Inj) (props : Nat → Extra) (s : Fail.St) (c id : Nat)
    (pd kw exs : List (Nat × In))
    (hl : (clsOf sch c).lazy = true) (hnd : (pd.map (·.1)).Nodup)
    (hkwF : pd.filter (fun x => Nat.blt x.1 (clsOf sch c).cols.length) = kw)
    (hexF : pd.filter (fun x => !Nat.blt x.1 (clsOf sch c).cols.length) = exs) :
    viewObs (setF (mkW sch inj props s c id (vqOf kw)) (kwPV pd)) =
      some (runObs (Fail.run sch inj (Fail.setProg sch c id kw (exs.map fun e => props e.1) .done) s)) := by
  have hlt : ∀ e ∈ kw, e.1 < (clsOf sch c).cols.length := by
    intro e he; rw [← hkwF, List.mem_filter] at he; simpa [Nat.blt_eq] using he.2
  have hge : ∀ e ∈ exs, Nat.blt e.1 (clsOf sch c).cols.length = false := by
    intro e he; rw [← hexF, List.mem_filter] at he; simpa using he.2
  have hkwnd : (kw.map (·.1)).Nodup := hkwF ▸ nodup_keys_filter pd _ hnd
  have hexnd : (exs.map (·.1)).Nodup := hexF ▸ nodup_keys_filter pd _ hnd
  have hf1 := filter_fst_map pd (fun x => !Nat.blt x.fst (clsOf sch c).cols.length) (fun x => (PV.name x.fst).pair (ofVal x.snd.val))
  have hf2 := filter_fst_map pd (fun x => Nat.blt x.fst (clsOf sch c).cols.length) (fun x => (PV.name x.fst).pair (ofVal x.snd.val))
  rw [hexF] at hf1
  rw [hkwF] at hf2
  have hkw0 : dictOf (kw.map fun e => (e.1, ofVal e.2.val)) = kw.map fun e => (e.1, ofVal e.2.val) :=
    dictOf_nodup _ (by simpa [Function.comp_def] using hkwnd)
  have hex0 : dictOf (exs.map fun e => (e.1, ofVal e.2.val)) = exs.map fun e => (e.1, ofVal e.2.val) :=
    dictOf_nodup _ (by simpa [Function.comp_def] using hexnd)
  clear hkwF hexF hnd
  unfold setF setFWith setProg set_nlocals set_nlists set_ndicts
  pfonly [hl, kwPV, hf1, hf2, hkw0, hex0]
  simp only [Function.comp_def]
  generalize hF : forLoop _ _ _ = r
  obtain ⟨hOk, hBad⟩ := set_for0_loop propCall kw
    { sch := sch, inj := inj, props := props, s := s, c := c, id := id, creating := false,
      nobj := { vals := [], cv := [], dirty := false }, sigSuppress := false, lock := false, vq := vqOf kw }
    [] (some (.bool false)) none none none none none none none none none none none [[], [], []] (kwPV kw) (kwPV exs) [] []
    (by simp) (fun e he => by simpa [Nat.blt_eq] using hlt e he) hkwnd (by simp)
    (fun e he => dset_same _ _ _ (by simpa [kwPV, Function.comp_def] using hkwnd)
      (List.mem_map.mpr ⟨e, he, by simp [pvOfIn]⟩))
  simp only [kwPV, pvOfIn] at hOk hBad
  cases hok : allOk kw
  · obtain ⟨st', q, hb, hw⟩ := hBad hok
    have hr : r = .exc st' .invalid := hF.symm.trans hb
    subst hr
    clear hF hOk hBad hb
    pfonly [hw]
    simp [viewObs, Outcome.view, runObs, Fail.setProg, hl, run_event, Fail.run_validates, hok]
  · obtain ⟨b3, b4, b5, b6, b7, hb⟩ := hOk hok
    have hr : r = _ := hF.symm.trans hb
    subst hr
    clear hF hOk hBad hb
    simp only [setSt]
    pfonly [kwPV]
    simp only [Function.comp_def]
    generalize hF : forLoop _ _ _ = r
    obtain ⟨p3, hp⟩ := set_for1_loop propCall (exs.map (·.1))
      { sch := sch, inj := inj, props := props, s := s, c := c, id := id, creating := false,
        nobj := { vals := [], cv := [], dirty := false }, sigSuppress := false, lock := false, vq := [] }
      (some (.bool false)) none none b3 b4 b5 b6 b7 none none none none [[], [], []]
      (List.map (fun e => (e.1, ofVal e.2.val)) kw) (List.map (fun e => (e.1, ofVal e.2.val)) exs)
      (List.map (fun e => (e.1, ofVal e.2.val)) kw) []
      (fun k hk => by
        obtain ⟨e, he, rfl⟩ := List.mem_map.mp hk
        exact hge e he)
    simp only [setSt, List.map_map, Function.comp_def] at hp
    have hr : r = _ := hF.symm.trans hp
    subst hr
    clear hF hp
    have hasg : (Fail.asgOf kw).isEmpty = kw.isEmpty := by cases kw <;> rfl
    cases hun : Fail.hasUnknown (exs.map fun e => props e.1)
    · pfonly []
      simp only [Function.comp_def]
      have hitems : kw.map (fun x => (PV.name x.1).pair (ofVal x.2.val)) =
          (Fail.asgOf kw).map fun e => PV.pair (.name e.1) (ofVal e.2) := by simp [Fail.asgOf]
      rw [hitems]
      generalize hF : forLoop _ _ _ = r
      obtain ⟨c3, c4, hcl⟩ := set_cache_loop propCall set_for2 rfl (Fail.asgOf kw)
        { sch := sch, inj := inj, props := props, s := s, c := c, id := id, creating := false,
          nobj := { vals := [], cv := [], dirty := false }, sigSuppress := false, lock := false, vq := [] }
        (some (.bool false)) none none p3 b4 b5 b6 b7 none none none none [[], [], []]
        (List.map (fun e => (e.1, ofVal e.2.val)) kw) (List.map (fun e => (e.1, ofVal e.2.val)) exs)
        (List.map (fun e => (e.1, ofVal e.2.val)) kw) []
      have hr : r = _ := hF.symm.trans hcl
      subst hr
      clear hF hcl
      rw [setVals_eq _ _ rfl]
      simp only [setSt]
      pfonly [cvOf_kwPV, FW.updCV]
      simp only [Function.comp_def]
      -- the state the Python side reached by several in-memory steps = the hand model's `.mem (.pend …)`, up to `changes`
      generalize hspy : bump _ _ = spy
      have hobs : obs spy = obs (memStep (.pend c id (Fail.asgOf kw)) s) := by
        rw [← hspy]
        simp [obs, cacheFold_core, cacheFold_rest]
        simp only [applyMem, mapInst_mapInst']
      clear hspy
      generalize hF : forLoop _ _ _ = r
      obtain ⟨e3, e4, he⟩ := set_extra_loop propCall propCall_setattr set_for3 set_for3_eq exs
        { sch := sch, inj := inj, props := props, s := spy, c := c, id := id, creating := false,
          nobj := { vals := [], cv := [], dirty := false }, sigSuppress := false, lock := false, vq := [] }
        (some (.bool false)) none none c3 c4 b5 b6 b7 none none none none [[], [], []]
        (List.map (fun e => (e.1, ofVal e.2.val)) kw) (List.map (fun e => (e.1, ofVal e.2.val)) exs)
        (List.map (fun e => (e.1, ofVal e.2.val)) kw) [] hge
      simp only [setSt, pvOfIn] at he
      have hr : r = _ := hF.symm.trans he
      subst hr
      clear hF he
      -- the hand model: validation and pre-check passed, `.mem (.pend …)`, the extras loop, the dirty flag
      have hhand : Fail.run sch inj (Fail.setProg sch c id kw (exs.map fun e => props e.1) .done) s =
          Fail.run sch inj (Fail.extras sch c id (exs.map fun e => props e.1)
            (if (Fail.asgOf kw).isEmpty then .done else .mem (.dirty c id true) .done))
            (memStep (.pend c id (Fail.asgOf kw)) s) := by
        simp only [Fail.setProg, hl, if_true]
        frun [Fail.run_validates, hok, Fail.run_precheck, hun]
      have hsim := (run_sim sch inj _ (noDyn_extras sch c id (exs.map fun e => props e.1)
        (if (Fail.asgOf kw).isEmpty then .done else .mem (.dirty c id true) .done)
        (by split <;> simp [noDyn])) _ _ hobs).runObs_eq
      rw [hhand, ← hsim, run_extras_bind sch inj c id (exs.map fun e => props e.1)
        (if (Fail.asgOf kw).isEmpty then .done else .mem (.dirty c id true) .done) spy]
      generalize Fail.run sch inj (Fail.extras sch c id (exs.map fun e => props e.1) .done) spy = rx
      obtain ⟨s1, x⟩ := rx
      cases x with
      | some e =>
        pfonly [FW.setS]
        simp [viewObs, Outcome.view, runObs]
      | none =>
        simp only [thenRun_none]
        by_cases hP : kw = []
        · subst hP
          pfonly [FW.setS]
          simp [viewObs, Outcome.view, runObs, Fail.asgOf, run_done]
        · have hasg' : ¬ Fail.asgOf kw = [] := by simpa [Fail.asgOf] using hP
          pfonly [hP, FW.setS, FW.setDirty, FW.mem]
          simp [viewObs, Outcome.view, runObs, hasg', run_mem, run_done]
    · pfonly []
      simp [viewObs, Outcome.view, runObs, Fail.setProg, hl, run_event, Fail.run_validates, hok, Fail.run_precheck, hun]

/-- **`set(**pd)` on a LAZY class, any mix of column keywords and extra keywords** = the hand-compiled tree under the
    same schedule -/
theorem setF_extras_lazy_eq (sch : Schema) (inj : Option Inj) (props : Nat → Extra) (s : Fail.St) (c id : Nat)
    (pd : List (Nat × In)) (hl : (clsOf sch c).lazy = true) (hnd : (pd.map (·.1)).Nodup) :
    viewObs (setF (mkW sch inj props s c id (vqOf (pd.filter fun e => e.1 < (clsOf sch c).cols.length))) (kwPV pd)) =
      some (runObs (Fail.run sch inj
        (Fail.setProg sch c id (pd.filter fun e => e.1 < (clsOf sch c).cols.length)
          ((pd.filter fun e => ¬ e.1 < (clsOf sch c).cols.length).map fun e => props e.1) .done) s)) :=
  setF_extras_lazy_core sch inj props s c id pd _ _ hl hnd (filter_cols_eq _ pd) (filter_extras_eq _ pd)

end SqlObjVerif.PyFail
