import SqlObjVerif.Lemmas.CacheX
/-!
`CacheFactory.cull`, `get`, `created` as translated, against the hand model (`cull`, `tick`,
`lookupCache`, `insertEntry`).  `cull` iterates over two dicts: the theorems need the
representation invariant `Rep` (both association lists have pairwise distinct keys — they are
Python dicts — and what the strong map refers to is alive), `cullFraction ≠ 0` (Python: `range()`
raises ValueError for a zero step) and the hand model's reading of reference counting (`relOf`).

Loop 1 (`for key in keys: if self.expiredCache[key]() is None: self.expiredCache.pop(key, None)`)
keeps the invariant "dict = processed-and-alive prefix ++ unprocessed suffix"; loop 2
(`for i in range(self.cullOffset, len(keys), self.cullFraction)`) keeps "the world is `cullW` of
the entries at the positions done so far"; `entsAt_range` + `filter_sel_eq` + `pickE_keys` connect
the positions `range` yields with the hand model's `pick`.
-/
namespace SqlObjVerif.Cache
open SqlObjVerif.PyCache
open SqlObjVerif.PyCache.Extracted

/-- the entries at positions `off, off+frac, …` (`i` = position of the head) -/
def pickE (off frac : Nat) : Nat → AList → AList
  | _, [] => []
  | i, e :: es => if off ≤ i ∧ (i - off) % frac = 0 then e :: pickE off frac (i + 1) es else pickE off frac (i + 1) es

theorem pickE_keys (off frac : Nat) (i : Nat) (l : AList) :
    (pickE off frac i l).map (·.1) = pick off frac i (l.map (·.1)) := by
  induction l generalizing i with
  | nil => rfl
  | cons e es ih =>
    simp only [pickE, List.map_cons, pick]
    split <;> simp [ih]

theorem mem_pick (off frac : Nat) (i : Nat) (ks : List Id) (x : Id) (h : x ∈ pick off frac i ks) : x ∈ ks := by
  induction ks generalizing i with
  | nil => simp [pick] at h
  | cons k ks ih =>
    simp only [pick] at h
    split at h
    · simp only [List.mem_cons] at h ⊢
      rcases h with h | h
      · exact Or.inl h
      · exact Or.inr (ih _ h)
    · exact List.mem_cons_of_mem _ (ih _ h)

theorem DictRep.tail {e : Id × Handle} {l : AList} (h : DictRep (e :: l)) : DictRep l := by
  unfold DictRep at *; simp only [List.map_cons, List.nodup_cons] at h; exact h.2

theorem DictRep.head {e : Id × Handle} {l : AList} (h : DictRep (e :: l)) : ∀ x ∈ l, x.1 ≠ e.1 := by
  unfold DictRep at *; simp only [List.map_cons, List.nodup_cons, List.mem_map, not_exists, not_and] at h
  intro x hx hxe; exact h.1 x hx hxe

theorem filter_sel_eq (off frac : Nat) (i : Nat) (l : AList) (hl : DictRep l) :
    l.filter (fun e => (pick off frac i (l.map (·.1))).contains e.1) = pickE off frac i l := by
  induction l generalizing i with
  | nil => rfl
  | cons e es ih =>
    have hne := hl.head
    have ih' := ih (i + 1) hl.tail
    simp only [List.map_cons, pick, pickE]
    by_cases hP : off ≤ i ∧ (i - off) % frac = 0
    · simp only [hP, and_self, if_true, List.filter_cons, List.contains_cons, beq_self_eq_true, Bool.true_or]
      congr 1
      rw [← ih']
      apply List.filter_congr
      intro x hx
      have : (x.1 == e.1) = false := by simpa using hne x hx
      simp [this]
    · simp only [hP, if_false, List.filter_cons]
      have : (pick off frac (i + 1) (es.map (·.1))).contains e.1 = false := by
        cases hc : (pick off frac (i + 1) (es.map (·.1))).contains e.1 with
        | false => rfl
        | true =>
          have := mem_pick _ _ _ _ _ (List.contains_iff_mem.1 hc)
          simp only [List.mem_map] at this
          obtain ⟨x, hx, hxe⟩ := this
          exact absurd hxe (hne x hx)
      simp only [this, Bool.false_eq_true, if_false]
      exact ih'

/-- the entries of `l` at the positions `is` -/
def entsAt (l : AList) (is : List Nat) : AList := is.filterMap (l[·]?)

theorem entsAt_append (l : AList) (a b : List Nat) : entsAt l (a ++ b) = entsAt l a ++ entsAt l b := by
  simp [entsAt, List.filterMap_append]

theorem entsAt_range_aux (off frac : Nat) (l : AList) (i0 : Nat) :
    ((List.range l.length).filter (fun j => decide (off ≤ i0 + j) && decide ((i0 + j - off) % frac = 0))).filterMap (l[·]?)
      = pickE off frac i0 l := by
  induction l generalizing i0 with
  | nil => rfl
  | cons e es ih =>
    have ih' := ih (i0 + 1)
    simp only [List.length_cons, List.range_succ_eq_map, List.filter_cons, Nat.add_zero, pickE]
    have hf : List.filter (fun j => decide (off ≤ i0 + j) && decide ((i0 + j - off) % frac = 0)) (List.map Nat.succ (List.range es.length))
        = List.map Nat.succ (List.filter (fun j => decide (off ≤ i0 + 1 + j) && decide ((i0 + 1 + j - off) % frac = 0)) (List.range es.length)) := by
      rw [List.filter_map]
      congr 1
      apply List.filter_congr
      intro x _
      simp only [Function.comp, Nat.succ_eq_add_one]
      have : i0 + (x + 1) = i0 + 1 + x := by omega
      rw [this]
    rw [hf]
    have hc : ((fun x => (e :: es)[x]?) ∘ Nat.succ) = fun x => es[x]? := by
      funext x; simp [Function.comp]
    by_cases hP : off ≤ i0 ∧ (i0 - off) % frac = 0
    · simp [hP, List.filterMap_map]
      rw [hc]; exact ih'
    · have hP' : (decide (off ≤ i0) && decide ((i0 - off) % frac = 0)) = false := by
        simpa using hP
      simp [hP, hP', List.filterMap_map]
      rw [hc]; exact ih'

theorem entsAt_range (off frac : Nat) (l : AList) : entsAt l (pyRange off l.length frac) = pickE off frac 0 l := by
  have := entsAt_range_aux off frac l 0
  simpa [entsAt, pyRange] using this


theorem fun_of_dictRep {l : AList} (h : DictRep l) : Fun l := by
  induction l with
  | nil => intro k v1 v2 h1; simp at h1
  | cons e es ih =>
    intro k v1 v2 h1 h2
    simp only [List.mem_cons] at h1 h2
    rcases h1 with h1 | h1 <;> rcases h2 with h2 | h2
    · rw [← h2] at h1; exact (Prod.mk.inj h1).2
    · exact absurd (by rw [← h1]) (h.head _ h2)
    · exact absurd (by rw [← h2]) (h.head _ h1)
    · exact ih h.tail k v1 v2 h1 h2

theorem DictRep.filter {l : AList} (h : DictRep l) (p : Id × Handle → Bool) : DictRep (l.filter p) := by
  unfold DictRep at *
  exact List.Nodup.sublist (List.Sublist.map _ List.filter_sublist) h

theorem filter_key_singleton {l : AList} (hl : DictRep l) {k : Id} {h : Handle} (hm : (k, h) ∈ l) :
    l.filter (fun e => decide (e.1 = k)) = [(k, h)] := by
  induction l with
  | nil => simp at hm
  | cons e es ih =>
    simp only [List.mem_cons] at hm
    rcases hm with hm | hm
    · subst hm
      have : es.filter (fun e => decide (e.1 = k)) = [] := by
        simp only [List.filter_eq_nil_iff, decide_eq_true_eq]
        intro x hx; exact hl.head x hx
      simp [List.filter_cons, this]
    · have hne : e.1 ≠ k := fun he => hl.head _ hm he.symm
      simp [List.filter_cons, hne, ih hl.tail hm]

theorem aget_append_mid (pre t : AList) (k : Id) (h : Handle) (hp : ∀ e ∈ pre, e.1 ≠ k) :
    aget k (pre ++ (k, h) :: t) = some h := by
  induction pre with
  | nil => simp [aget]
  | cons e es ih =>
    have := hp e (by simp)
    simp only [List.cons_append, aget, this, if_false]
    exact ih (fun x hx => hp x (List.mem_cons_of_mem _ hx))

theorem aerase_append_mid (pre t : AList) (k : Id) (h : Handle) (hp : ∀ e ∈ pre, e.1 ≠ k) (ht : ∀ e ∈ t, e.1 ≠ k) :
    aerase k (pre ++ (k, h) :: t) = pre ++ t := by
  unfold aerase
  rw [List.filter_append, List.filter_cons]
  simp only [ne_eq, not_true_eq_false, decide_false, Bool.false_eq_true, if_false]
  rw [List.filter_eq_self.2, List.filter_eq_self.2]
  · intro e he; simpa using ht e he
  · intro e he; simpa using hp e he

theorem dictRep_mid {pre t : AList} {k : Id} {h : Handle} (hr : DictRep (pre ++ (k, h) :: t)) :
    (∀ e ∈ pre, e.1 ≠ k) ∧ (∀ e ∈ t, e.1 ≠ k) := by
  unfold DictRep at hr
  simp only [List.map_append, List.map_cons, List.nodup_append, List.nodup_cons, List.mem_map, List.mem_cons] at hr
  obtain ⟨_, ⟨h2, _⟩, h3⟩ := hr
  constructor
  · intro e he hk
    exact h3 e.1 ⟨e, he, rfl⟩ k (Or.inl rfl) hk
  · intro e he hk
    exact h2 ⟨e, he, hk⟩


theorem mem_pyRange {a b c i : Nat} (h : i ∈ pyRange a b c) : i < b := by
  simp only [pyRange, List.mem_filter, List.mem_range] at h; exact h.1

theorem nodup_pyRange (a b c : Nat) : (pyRange a b c).Nodup :=
  List.Nodup.sublist List.filter_sublist List.nodup_range

theorem key_index_inj {l : AList} (hl : DictRep l) {i j : Nat} {e e' : Id × Handle}
    (hi : l[i]? = some e) (hj : l[j]? = some e') (hk : e.1 = e'.1) : i = j := by
  unfold DictRep at hl
  have h1 : (l.map (·.1))[i]? = some e.1 := by simp [hi]
  have h2 : (l.map (·.1))[j]? = some e.1 := by simp [hj, hk]
  have hlt : i < (l.map (·.1)).length := by
    have := (List.getElem?_eq_some_iff.1 h1).1; exact this
  exact (List.getElem?_inj hlt hl).1 (h1.trans h2.symm)

theorem aerase_filter_ids (k : Id) (ids : List Id) (l : AList) :
    aerase k (l.filter (fun e => !(ids.contains e.1))) = l.filter (fun e => !((ids ++ [k]).contains e.1)) := by
  unfold aerase
  rw [List.filter_filter]
  apply List.filter_congr
  intro e _
  by_cases h1 : e.1 = k <;> by_cases h2 : e.1 ∈ ids <;> simp [h1, h2]

theorem asetAll_append (a b l : AList) : asetAll (a ++ b) l = asetAll b (asetAll a l) := by
  simp [asetAll, List.foldl_append]

theorem cull_for1_step (w : World) (L : List Val) (i k h : Nat) (a0 a2 a3 : Option Val)
    (hdc : w.self.doCache = true) (hL : L[i]? = some (.key k)) (hg : aget k w.self.cache = some h)
    (hs : w.self.cache.filter (fun e => decide (e.1 = k)) = [(k, h)]) :
    Block.exec noCall { w := w, vars := [a0, some (.int i), a2, a3], lists := [L] } cull_for1 =
      .norm { w := { self := { w.self with cache := aerase k w.self.cache,
                                           expiredCache := if w.dead h || w.rel h then w.self.expiredCache
                                                           else aset k h w.self.expiredCache },
                     dead := fun x => w.dead x || (w.rel x && decide (x = h)), rel := w.rel, falsy := w.falsy },
              vars := [a0, some (.int i), some (.key k), some (.wref h)], lists := [L] } := by
  have hk : ahasKey k w.self.cache = true := by
    rw [ahasKey_iff]; exact ⟨h, aget_some_mem hg⟩
  cases hr : w.rel h <;> cases hdead : w.dead h
  all_goals
    simp [cull_for1]
    pyrun
    simp [World.release, hdead, hr]

theorem ahas_eq_contains (x : Handle) (l : AList) : ahas x l = (l.map (·.2)).contains x := by
  induction l with
  | nil => rfl
  | cons e es ih =>
    unfold ahas at ih ⊢
    rw [List.any_cons, ih, List.map_cons, List.contains_cons]
    by_cases h : e.2 = x
    · simp [h]
    · have : ¬ x = e.2 := fun h' => h h'.symm
      simp [h, this]


theorem decide_mem_snoc (x h : Nat) (L : List Nat) :
    decide (x ∈ L ++ [h]) = (decide (x ∈ L) || decide (x = h)) := by
  by_cases h1 : x ∈ L <;> by_cases h2 : x = h <;> simp [h1, h2]

/-- the world during the stride loop of `cull`, after the entries `E` were moved -/
def cullW (s : State) (c : Cls) (falsy : Handle → Bool) (E : AList) : World :=
  { self := { absSelf s c true with
      cache := (s.fac c).strong.filter (fun e => !((E.map (·.1)).contains e.1)),
      expiredCache := asetAll (E.filter (fun e => !relOf s e.2)) ((s.fac c).weak.filter (fun e => !(s.obj e.2).dead)) },
    dead := fun x => (s.obj x).dead || (relOf s x && (E.map (·.2)).contains x),
    rel := relOf s, falsy := falsy }

theorem cullX_eq (s : State) (c : Cls) (falsy : Handle → Bool)
    (hdc : s.cfg.doCache = true) (hfr : s.cfg.cullFraction ≠ 0) (hrep : Rep s c) :
    cullX (absW s c (relOf s) falsy false) = .ret (absW (cull s c) c (relOf s) falsy false) .none := by
  unfold cullX cullProg cull_nlocals cull_nlists
  pyrun
  generalize hF : forLoop _ _ _ = r
  obtain ⟨st', rfl, pre, suf, a0, a1, a2, a3, hrest, rfl, _, hfin⟩ := forLoop_inv hF
    (fun rest st => ∃ pre suf a0 a1 a2 a3, rest = suf.map (fun x => Val.key x.1) ∧
      st = { w := absD s c (relOf s) falsy true (s.fac c).strong (pre ++ suf), vars := [a0, a1, a2, a3],
             lists := [(s.fac c).weak.map (fun x => Val.key x.1)] } ∧
      DictRep (pre ++ suf) ∧
      pre ++ suf.filter (fun e => !(s.obj e.2).dead) = (s.fac c).weak.filter (fun e => !(s.obj e.2).dead))
    ⟨[], (s.fac c).weak, none, none, none, none, rfl, by simp [absD, absSelf, hdc], hrep.weak, rfl⟩
    (by
      rintro e rest st ⟨pre, suf, a0, a1, a2, a3, hrest, rfl, hdr, hfin⟩
      cases suf with
      | nil => simp at hrest
      | cons kh suf' =>
        obtain ⟨k, h⟩ := kh
        simp only [List.map_cons, List.cons.injEq] at hrest
        obtain ⟨rfl, rfl⟩ := hrest
        obtain ⟨hp, ht⟩ := dictRep_mid hdr
        have hg := aget_append_mid pre suf' k h hp
        have he := aerase_append_mid pre suf' k h hp ht
        cases hdead : (s.obj h).dead
        · refine ⟨{ w := absD s c (relOf s) falsy true (s.fac c).strong (pre ++ (k, h) :: suf'),
                    vars := [some (.key k), a1, a2, a3], lists := [(s.fac c).weak.map (fun x => Val.key x.1)] }, ?_,
                  ⟨pre ++ [(k, h)], suf', some (.key k), a1, a2, a3, rfl, by simp, by simpa using hdr, ?_⟩⟩
          · simp [absD, cull_for0]
            pyrun
          · simpa [List.filter_cons, hdead] using hfin
        · refine ⟨{ w := absD s c (relOf s) falsy true (s.fac c).strong (pre ++ suf'),
                    vars := [some (.key k), a1, a2, a3], lists := [(s.fac c).weak.map (fun x => Val.key x.1)] }, ?_,
                  ⟨pre, suf', some (.key k), a1, a2, a3, rfl, rfl, ?_, ?_⟩⟩
          · simp [absD, cull_for0]
            pyrun
          · rw [← he]; exact hdr.filter _
          · simpa [List.filter_cons, hdead] using hfin)
  cases suf with
  | cons _ _ => simp at hrest
  | nil =>
  simp only [List.filter_nil, List.append_nil] at hfin
  subst hfin
  clear hF hrest
  simp only [absD, List.append_nil]
  pyrun
  generalize hF : forLoop _ _ _ = r
  obtain ⟨st', rfl, done, b0, b1, b2, b3, hdone, rfl⟩ := forLoop_inv hF
    (fun rest st => ∃ done b0 b1 b2 b3,
      done ++ rest = pyRange (s.fac c).cullOffset (s.fac c).strong.length s.cfg.cullFraction ∧
      st = { w := cullW s c falsy (entsAt (s.fac c).strong done), vars := [b0, b1, b2, b3],
             lists := [(s.fac c).strong.map (fun x => Val.key x.1)] })
    ⟨[], a0, a1, a2, a3, rfl, by
      simp [cullW, absSelf, entsAt, asetAll, hdc]
      exact (List.filter_eq_self.2 (fun _ _ => rfl)).symm⟩
    (by
      rintro i rest st ⟨done, b0, b1, b2, b3, hitems, rfl⟩
      have hnd := nodup_pyRange (s.fac c).cullOffset (s.fac c).strong.length s.cfg.cullFraction
      rw [← hitems] at hnd
      have hi : i ∈ pyRange (s.fac c).cullOffset (s.fac c).strong.length s.cfg.cullFraction := by
        rw [← hitems]; simp
      have hlt := mem_pyRange hi
      obtain ⟨⟨k, h⟩, hS⟩ : ∃ e, (s.fac c).strong[i]? = some e := ⟨(s.fac c).strong[i], by simp [hlt]⟩
      have hmem : (k, h) ∈ (s.fac c).strong := List.mem_of_getElem? hS
      have hidone : i ∉ done := by
        intro hc
        have := (List.nodup_append.1 hnd).2.2 i hc i (by simp)
        exact this rfl
      have hk : k ∉ (entsAt (s.fac c).strong done).map (·.1) := by
        intro hc
        simp only [entsAt, List.mem_map, List.mem_filterMap] at hc
        obtain ⟨e', ⟨j, hj, hj2⟩, hke⟩ := hc
        have := key_index_inj hrep.strong hS hj2 (by simp [hke])
        exact hidone (this ▸ hj)
      have hmemC : (k, h) ∈ (cullW s c falsy (entsAt (s.fac c).strong done)).self.cache := by
        simp only [cullW, List.mem_filter]
        refine ⟨hmem, ?_⟩
        simpa using hk
      have hrepC : DictRep (cullW s c falsy (entsAt (s.fac c).strong done)).self.cache := hrep.strong.filter _
      have hC := aget_eq_some_of_fun (fun_of_dictRep hrepC) hmemC
      have hsing := filter_key_singleton hrepC hmemC
      have hD0 : (s.obj h).dead = false := hrep.alive _ hmem
      have hstep := cull_for1_step (cullW s c falsy (entsAt (s.fac c).strong done))
        ((s.fac c).strong.map (fun x => Val.key x.1)) i k h b0 b2 b3 (by simp [cullW, absSelf, hdc])
        (by simp [hS]) hC hsing
      refine ⟨_, hstep, ⟨done ++ [i], b0, some (.int i), some (.key k), some (.wref h), by simpa using hitems, ?_⟩⟩
      have hE : entsAt (s.fac c).strong (done ++ [i]) = entsAt (s.fac c).strong done ++ [(k, h)] := by
        rw [entsAt_append]; simp [entsAt, hS]
      rw [hE]
      have hdk : ((cullW s c falsy (entsAt (s.fac c).strong done)).dead h ||
          (cullW s c falsy (entsAt (s.fac c).strong done)).rel h) = relOf s h := by
        simp only [cullW, hD0, Bool.false_or]
        cases relOf s h <;> simp
      rw [hdk]
      simp only [cullW, absSelf, List.map_append, List.map_cons, List.map_nil, List.filter_append, asetAll_append,
        aerase_filter_ids]
      cases hr : relOf s h
      · simp [List.filter_cons, hr, asetAll]
        funext x
        cases relOf s x <;> simp [decide_mem_snoc, Bool.or_assoc]
      · simp [List.filter_cons, hr, asetAll]
        funext x
        cases relOf s x <;> simp [decide_mem_snoc, Bool.or_assoc])
  simp only [List.append_nil] at hdone
  subst hdone
  clear hF
  rw [entsAt_range]
  simp only [cullW]
  pyrun
  have hsel := pickE_keys (s.fac c).cullOffset s.cfg.cullFraction 0 (s.fac c).strong
  have hfil := filter_sel_eq (s.fac c).cullOffset s.cfg.cullFraction 0 (s.fac c).strong hrep.strong
  have hpred : (fun e : Id × Handle => !relOf s e.2) = fun e => (s.obj e.2).held || !s.cfg.refcount := by
    funext e
    simp only [relOf]
    cases s.cfg.refcount <;> cases (s.obj e.2).held <;> rfl
  rw [← hsel] at hfil
  simp only [cull, upd, if_true, hfil, ← hsel, hpred]
  refine ⟨⟨?_, trivial, trivial, trivial, trivial, trivial, hdc⟩, ?_⟩
  · apply List.filter_congr
    intro e _
    simp
  · funext x
    rw [ahas_eq_contains]
    simp only [relOf]
    cases s.cfg.refcount <;> cases (s.obj x).held <;>
      cases hc : (List.map (fun x => x.snd) (pickE (s.fac c).cullOffset s.cfg.cullFraction 0 (s.fac c).strong)).contains x <;>
      simp_all
/-- the state in which `get` / `created` call `cull` -/
def zeroCount (s : State) (c : Cls) : State := setFac s c { s.fac c with cullCount := 0 }

theorem rep_zeroCount {s : State} {c : Cls} (h : Rep s c) : Rep (zeroCount s c) c := by
  obtain ⟨h1, h2, h3⟩ := h
  have e1 : ((zeroCount s c).fac c).strong = (s.fac c).strong := by simp [zeroCount, setFac, upd]
  have e2 : ((zeroCount s c).fac c).weak = (s.fac c).weak := by simp [zeroCount, setFac, upd]
  exact ⟨by rw [e1]; exact h1, by rw [e2]; exact h2, by rw [e1]; exact h3⟩

theorem callCull_eq (s : State) (c : Cls) (falsy : Handle → Bool) (W : World)
    (hdc : s.cfg.doCache = true) (hfr : s.cfg.cullFraction ≠ 0) (hrep : Rep s c)
    (hW : W = absW (zeroCount s c) c (relOf s) falsy false) :
    callTable "cull" W = .ret (absW (cull (zeroCount s c) c) c (relOf s) falsy false) .none := by
  subst hW
  have := cullX_eq (zeroCount s c) c falsy hdc hfr (rep_zeroCount hrep)
  have hr : relOf (zeroCount s c) = relOf s := rfl
  rw [hr] at this
  simpa [callTable, cullX] using this

theorem tick_trigger (s : State) (c : Cls) (hdc : s.cfg.doCache = true)
    (h : (s.fac c).cullCount > s.cfg.cullFrequency) : tick s c = cull (zeroCount s c) c := by
  simp [tick, hdc, Extracted.Cache.cullTriggerStrict, h, zeroCount]

theorem tick_count (s : State) (c : Cls) (hdc : s.cfg.doCache = true)
    (h : ¬ (s.fac c).cullCount > s.cfg.cullFrequency) :
    tick s c = setFac s c { s.fac c with cullCount := (s.fac c).cullCount + 1 } := by
  simp [tick, hdc, Extracted.Cache.cullTriggerStrict, h]

theorem tick_off (s : State) (c : Cls) (hdc : s.cfg.doCache = false) : tick s c = s := by
  simp [tick, hdc]

theorem createdX_eq (s : State) (c : Cls) (k : Id) (h : Handle) (falsy : Handle → Bool)
    (hfr : s.cfg.cullFraction ≠ 0) (hrep : Rep s c)
    (hrel : ∀ e ∈ (s.fac c).strong, e.1 = k → e.2 ≠ h → relOf s e.2 = false) :
    createdX (absW s c (relOf s) falsy false) k h =
      .ret (absW (insertEntry (tick s c) c k h) c (relOf s) falsy false) .none := by
  unfold createdX createdProg created_nlocals created_nlists insertEntry
  cases hdc : s.cfg.doCache
  · rw [tick_off s c hdc]
    pyrun
    simp [setFac, upd, *]
  · by_cases htr : (s.fac c).cullCount > s.cfg.cullFrequency
    · rw [tick_trigger s c hdc htr]
      have hcd : (cull (zeroCount s c) c).cfg.doCache = true := by rw [(cull_n _ c).2.2]; exact hdc
      pyrun
      rw [callCull_eq s c falsy _ hdc hfr hrep (by simp [absW, absSelf, zeroCount, setFac, upd, hdc])]
      simp [afterCall]
      pyrun
      simp [setFac, upd, *]
      apply release_map_filter
      intro e he hp
      simp at hp
      have he' := cull_strong_mem _ c e he
      simp [zeroCount, setFac, upd] at he'
      exact hrel e he' hp.1 hp.2
    · rw [tick_count s c hdc htr]
      pyrun
      simp [setFac, upd, *]
      apply release_map_filter
      intro e he hp
      simp at hp
      exact hrel e he hp.1 hp.2

theorem ahasKey_of_aget {k : Id} {l : AList} {h : Handle} (hg : aget k l = some h) : ahasKey k l = true := by
  rw [ahasKey_iff]; exact ⟨h, aget_some_mem hg⟩

theorem ahasKey_false_of_aget {k : Id} {l : AList} (hg : aget k l = none) : ahasKey k l = false := by
  cases hk : ahasKey k l with
  | false => rfl
  | true =>
    obtain ⟨v, hv⟩ := (ahasKey_iff k l).1 hk
    exact absurd hv (aget_none_iff.1 hg v)

theorem filter_key_nil {k : Id} {l : AList} (hg : aget k l = none) (p : Id × Handle → Bool) :
    l.filter (fun e => decide (e.1 = k) && p e) = [] := by
  rw [List.filter_eq_nil_iff]
  intro e he
  have := aget_none_iff.1 hg e.2
  simp only [Bool.and_eq_true, decide_eq_true_eq, not_and]
  intro hk
  exact absurd (by rw [← hk]; exact he) this

theorem getX_eq (s : State) (c : Cls) (k : Id) (falsy : Handle → Bool)
    (hfr : s.cfg.cullFraction ≠ 0) (hrep : Rep s c) :
    getX (absW s c (relOf s) falsy false) k =
      .ret (absW (lookupCache (tick s c) c k).1 c (relOf s) falsy (lookupCache (tick s c) c k).2.isNone)
        (optObj (lookupCache (tick s c) c k).2) := by
  unfold getX getProg get_nlocals get_nlists lookupCache
  cases hdc : s.cfg.doCache
  · rw [tick_off s c hdc]
    cases hw : aget k (s.fac c).weak with
    | none => pyrun
    | some h =>
      have hkw := ahasKey_of_aget hw
      cases hd : (s.obj h).dead
      · pyrun
      · pyrun
        simp [setFac, upd, *]
  · by_cases htr : (s.fac c).cullCount > s.cfg.cullFrequency
    · rw [tick_trigger s c hdc htr]
      have hcd : (cull (zeroCount s c) c).cfg.doCache = true := by rw [(cull_n _ c).2.2]; exact hdc
      pyrun
      rw [callCull_eq s c falsy _ hdc hfr hrep (by simp [absW, absSelf, zeroCount, setFac, upd, hdc])]
      simp [afterCall]
      generalize cull (zeroCount s c) c = s1 at hcd ⊢
      cases hs : aget k (s1.fac c).strong with
      | some h => pyrun
      | none =>
        have hks := ahasKey_false_of_aget hs
        have hfn := fun p => filter_key_nil hs p
        cases hw : aget k (s1.fac c).weak with
        | none => pyrun
        | some h =>
          have hkw := ahasKey_of_aget hw
          cases hd : (s1.obj h).dead
          · pyrun
            simp [setFac, upd, *]
          · pyrun
            simp [setFac, upd, *]
    · rw [tick_count s c hdc htr]
      have htr' : ¬ (s.cfg.cullFrequency < (s.fac c).cullCount) := htr
      cases hs : aget k (s.fac c).strong with
      | some h =>
        pyrun
        simp [setFac, upd, *]
      | none =>
        have hks := ahasKey_false_of_aget hs
        have hfn := fun p => filter_key_nil hs p
        cases hw : aget k (s.fac c).weak with
        | none =>
          pyrun
          simp [setFac, upd, *]
        | some h =>
          have hkw := ahasKey_of_aget hw
          cases hd : (s.obj h).dead
          · pyrun
            simp [setFac, upd, *]
          · pyrun
            simp [setFac, upd, *]
end SqlObjVerif.Cache
