import SqlObjVerif.Lemmas.FailDestroyXNat
/-!
C06, translated `destroySelf`, part 1: constructor-only simp lemmas of the injecting interpreter
(`Model/PyDestroyF.lean`), the projections of the interface record `fIface` and of its `getAttr` (the record and
`fGetAttr` stay FOLDED in proofs), the evaluation macros `fdrun` / `fhead`, and the first loop: the victim's own
related joins (`for0_loop` = `Fail.ownLinksSeg`, segment (a)).
(The GENERIC lemmas about the shared `PyDestroy` values — `Val.ofList`, `vlSnoc`, `pyBool`, `Res.seq` — are restated
here from `Lemmas/GraphXBase.lean`, so that this development does not import C12's model and extracted constants.)
-/
namespace SqlObjVerif.PyDestroyF
open SqlObjVerif.PyDestroy (Val Const Exc R CallRes Expr Exprs Cond Stmt Block Env St Res forLoop zipKw pyBool
  lenOf keysOf pairsOf vlSnoc isListVal vdSet starKwOf afterCall)
variable {H W : Type} {α β : Type}

/-! generic facts about the values and results shared with `Model/PyDestroy.lean` -/
@[simp] theorem toList_ofList (l : List (Val H)) : (Val.ofList l).toList = some l := by
  induction l with
  | nil => rfl
  | cons v l ih => simp [Val.ofList, Val.toList, ih]

@[simp] theorem isListVal_ofList (l : List (Val H)) : isListVal (Val.ofList l) = true := by
  induction l with
  | nil => rfl
  | cons v l ih => simpa [Val.ofList, isListVal] using ih

@[simp] theorem vlen_ofList (l : List (Val H)) : SqlObjVerif.PyDestroy.vlen (Val.ofList l) = l.length := by
  induction l with
  | nil => rfl
  | cons v l ih => simp [Val.ofList, SqlObjVerif.PyDestroy.vlen, ih]

@[simp] theorem lenOf_ofList (l : List (Val H)) : lenOf (Val.ofList l) = some l.length := by
  cases l with
  | nil => rfl
  | cons a l => simp [Val.ofList, lenOf, isListVal, SqlObjVerif.PyDestroy.vlen]

@[simp] theorem vlSnoc_ofList (v : Val H) (l : List (Val H)) : vlSnoc v (Val.ofList l) = Val.ofList (l ++ [v]) := by
  induction l with
  | nil => rfl
  | cons a l ih => simp [Val.ofList, vlSnoc, ih]

@[simp] theorem pyBool_bool (b : Bool) : pyBool (.bool b : Val H) = b := rfl
@[simp] theorem pyBool_int (n : Nat) : pyBool (.int n : Val H) = (n != 0) := rfl
@[simp] theorem pyBool_none : pyBool (.none : Val H) = false := rfl
@[simp] theorem pyBool_nil : pyBool (.nil : Val H) = false := rfl
@[simp] theorem pyBool_cons (a t : Val H) : pyBool (.cons a t) = true := rfl
@[simp] theorem pyBool_dict_nil : pyBool (.dict .nil : Val H) = false := rfl
@[simp] theorem pyBool_dict_cons (a t : Val H) : pyBool (.dict (.cons a t)) = true := rfl
@[simp] theorem pyBool_ofList (l : List (Val H)) : pyBool (Val.ofList l) = !l.isEmpty := by cases l <;> rfl

@[simp] theorem seq_norm (st : St H W) (k : St H W → Res H W) : (Res.norm st).seq k = k st := by rw [Res.seq]
@[simp] theorem seq_cont (st : St H W) (k : St H W → Res H W) : (Res.cont st).seq k = .cont st := by simp only [Res.seq]
@[simp] theorem seq_brk (st : St H W) (k : St H W → Res H W) : (Res.brk st).seq k = .brk st := by simp only [Res.seq]
@[simp] theorem seq_ret (st : St H W) (v : Val H) (k : St H W → Res H W) : (Res.ret st v).seq k = .ret st v := by simp only [Res.seq]
@[simp] theorem seq_exc (st : St H W) (e : Exc) (k : St H W → Res H W) : (Res.exc st e).seq k = .exc st e := by simp only [Res.seq]
@[simp] theorem seq_stuck (k : St H W → Res H W) : (Res.stuck : Res H W).seq k = .stuck := by simp only [Res.seq]

@[simp] theorem bind_ok (w : W) (a : α) (f : W → α → ER W β) : (ER.ok w a).bind f = f w a := by simp only [ER.bind]
@[simp] theorem bind_exc (w : W) (e : Exc) (f : W → α → ER W β) : (ER.exc w e : ER W α).bind f = .exc w e := by
  simp only [ER.bind]
@[simp] theorem bind_stuck (f : W → α → ER W β) : (ER.stuck : ER W α).bind f = .stuck := by simp only [ER.bind]
@[simp] theorem ofR_ok (w : W) (a : α) : ofR w (.ok a) = ER.ok w a := rfl
@[simp] theorem ofR_exc (w : W) (e : Exc) : ofR w (.exc e : R α) = ER.exc w e := rfl
@[simp] theorem ofR_stuck (w : W) : ofR w (.stuck : R α) = ER.stuck := rfl
@[simp] theorem ofOpt_some (w : W) (a : α) : ofOpt w (some a) = ER.ok w a := rfl
@[simp] theorem ofOpt_none (w : W) : ofOpt w (Option.none : Option α) = ER.stuck := rfl
@[simp] theorem withE_ok (st : St H W) (w : W) (a : α) (f : W → α → Res H W) : withE st (.ok w a) f = f w a := by
  simp only [withE]
@[simp] theorem withE_exc (st : St H W) (w : W) (e : Exc) (f : W → α → Res H W) :
    withE st (.exc w e : ER W α) f = .exc ⟨w, st.vars⟩ e := by simp only [withE]
@[simp] theorem withE_stuck (st : St H W) (f : W → α → Res H W) : withE st (.stuck : ER W α) f = .stuck := by
  simp only [withE]
@[simp] theorem ofOptRes_some (a : α) (f : α → Res H W) : ofOptRes (some a) f = f a := by simp only [ofOptRes]
@[simp] theorem ofOptRes_none (f : α → Res H W) : ofOptRes (Option.none : Option α) f = .stuck := by simp only [ofOptRes]

@[simp] theorem afterCall_ret (w : W) (v : Val H) (st : St H W) (x : Option Nat) :
    afterCall (.ret w v) st x = .norm (St.setOpt ⟨w, st.vars⟩ x v) := rfl
@[simp] theorem afterCall_exc (w : W) (e : Exc) (st : St H W) (x : Option Nat) :
    afterCall (.exc w e) st x = .exc ⟨w, st.vars⟩ e := rfl
@[simp] theorem afterCall_stuck (st : St H W) (x : Option Nat) : afterCall (.stuck : CallRes H W) st x = .stuck := rfl

section
variable [DecidableEq H]

theorem execB_cons (I : IfaceF H W) (st : St H W) (s : Stmt) (rest : Block) :
    execB I st (.cons s rest) = (execS I st s).seq fun st' => execB I st' rest := by rw [execB]

@[simp] theorem execB_nil (I : IfaceF H W) (st : St H W) : execB I st .nil = .norm st := by rw [execB]

end

@[simp] theorem iterF_ofList (I : IfaceF H W) (w : W) (l : List (Val H)) : iterF I w (Val.ofList l) = .ok w l := by
  cases l with
  | nil => rfl
  | cons a l => simp [Val.ofList, iterF, Val.toList]

@[simp] theorem iterF_nil (I : IfaceF H W) (w : W) : iterF I w .nil = .ok w [] := rfl
@[simp] theorem iterF_dict (I : IfaceF H W) (w : W) (d : Val H) : iterF I w (.dict d) = ofOpt w (keysOf d) := rfl
@[simp] theorem iterF_app (I : IfaceF H W) (w : W) (t : String) (a : Val H) : iterF I w (.app t a) = I.iter w (.app t a) := rfl

end SqlObjVerif.PyDestroyF

namespace SqlObjVerif.FailDX
open SqlObjVerif.PyDestroy (Val Const Exc R CallRes Expr Exprs Cond Stmt Block Env St Res forLoop zipKw pyBool
  lenOf keysOf pairsOf vlSnoc isListVal vdSet starKwOf afterCall)
open SqlObjVerif.PyDestroyF
open SqlObjVerif.PyDestroy.Extracted
open SqlObjVerif.Fail (Err Schema Inj Pol Col Join Cls clsOf colOf fkCols Mem In)
open SqlObjVerif.PyFail (sendStmt memStep)

section iface
variable (sch : Schema) (inj : Option Inj) (fdc : Nat → Nat → R PVal)
  (recC : Nat → Nat → Fail.St → CallRes Hnd Fail.St) (self : PVal)
@[simp] theorem fIface_self : (fIface sch inj fdc recC self).self = self := rfl
@[simp] theorem fIface_getAttr : (fIface sch inj fdc recC self).getAttr = fGetAttr sch := rfl
@[simp] theorem fIface_setAttr : (fIface sch inj fdc recC self).setAttr = fSetAttr := rfl
@[simp] theorem fIface_glob : (fIface sch inj fdc recC self).glob = fGlob := rfl
@[simp] theorem fIface_isinstance : (fIface sch inj fdc recC self).isinstance = fIsinstance := rfl
@[simp] theorem fIface_eqOver : (fIface sch inj fdc recC self).eqOver = fEqOver := rfl
@[simp] theorem fIface_query : (fIface sch inj fdc recC self).query = fQuery sch inj := rfl
@[simp] theorem fIface_fn (w : Fail.St) : (fIface sch inj fdc recC self).fn w = fFn fdc := rfl
@[simp] theorem fIface_iter : (fIface sch inj fdc recC self).iter = fIter sch inj := rfl
@[simp] theorem fIface_call : (fIface sch inj fdc recC self).call = fCall sch inj recC := rfl
@[simp] theorem fIface_callFn : (fIface sch inj fdc recC self).callFn = fun _ _ _ => .stuck := rfl
end iface

/-- `getattr(row, name f)`: entry `f` of the cached values of the instance the select yielded for row `r` -/
def rowVal (s : Fail.St) (k : Nat) (r : Fail.Row) (f : Nat) : Fail.Val := (Fail.instVals s k r.id r.vals).getD f none

section attrs
variable (sch : Schema) (s : Fail.St)
@[simp] theorem ga_inst_id (k j) : fGetAttr sch s (.obj (.inst k j)) (.str "id") = .ok (.int j) := by simp [fGetAttr]
@[simp] theorem ga_inst_class (k j) : fGetAttr sch s (.obj (.inst k j)) (.str "__class__") = .ok (.obj (.cls k)) := by simp [fGetAttr]
@[simp] theorem ga_inst_conn (k j) : fGetAttr sch s (.obj (.inst k j)) (.str "_connection") = .ok (.obj .conn) := by simp [fGetAttr]
@[simp] theorem ga_inst_meta (k j) : fGetAttr sch s (.obj (.inst k j)) (.str "sqlmeta") = .ok (.obj (.imeta k j)) := by simp [fGetAttr]
@[simp] theorem ga_row_meta (k r) : fGetAttr sch s (.obj (.row k r)) (.str "sqlmeta") = .ok (.obj (.rmeta k)) := by simp [fGetAttr]
@[simp] theorem ga_row_col (k r f) : fGetAttr sch s (.obj (.row k r)) (.obj (.name f)) =
    .ok (valOf (rowVal s k r f)) := by simp [fGetAttr, rowVal]
@[simp] theorem ga_cls_meta (k) : fGetAttr sch s (.obj (.cls k)) (.str "sqlmeta") = .ok (.obj (.cmeta k)) := by simp [fGetAttr]
@[simp] theorem ga_cls_name (k) : fGetAttr sch s (.obj (.cls k)) (.str "__name__") = .ok (.obj (.cname k)) := by simp [fGetAttr]
@[simp] theorem ga_cls_q (k) : fGetAttr sch s (.obj (.cls k)) (.str "q") = .ok (.obj (.qns k)) := by simp [fGetAttr]
@[simp] theorem ga_cmeta_joins (k) : fGetAttr sch s (.obj (.cmeta k)) (.str "joins") =
    .ok (Val.ofList ((clsOf sch k).joins.map fun j => .obj (.join j))) := by simp [fGetAttr]
@[simp] theorem ga_cmeta_cols (k) : fGetAttr sch s (.obj (.cmeta k)) (.str "columnList") =
    .ok (Val.ofList ((fkCols.enumFrom (clsOf sch k).cols).map fun jc => .obj (.col k jc.1 jc.2.fk))) := by simp [fGetAttr]
@[simp] theorem ga_rmeta_lazy (k) : fGetAttr sch s (.obj (.rmeta k)) (.str "lazyUpdate") = .ok (.bool (clsOf sch k).lazy) := by simp [fGetAttr]
@[simp] theorem ga_join_tbl (j) : fGetAttr sch s (.obj (.join j)) (.str "intermediateTable") = .ok (.obj (.tbl j.tab)) := by simp [fGetAttr]
@[simp] theorem ga_join_jc (j) : fGetAttr sch s (.obj (.join j)) (.str "joinColumn") = .ok (.obj (.lcol j.side)) := by simp [fGetAttr]
@[simp] theorem ga_join_oc (j) : fGetAttr sch s (.obj (.join j)) (.str "otherColumn") = .ok (.obj (.lcol (!j.side))) := by simp [fGetAttr]
@[simp] theorem ga_join_ocn (j) : fGetAttr sch s (.obj (.join j)) (.str "otherClassName") = .ok (.obj (.cname j.other)) := by simp [fGetAttr]
@[simp] theorem ga_col_name (k j fk) : fGetAttr sch s (.obj (.col k j fk)) (.str "name") = .ok (.obj (.name j)) := by simp [fGetAttr]
@[simp] theorem ga_col_cascade (k j fk) : fGetAttr sch s (.obj (.col k j fk)) (.str "cascade") = .ok (colCascade fk) := by simp [fGetAttr]
@[simp] theorem ga_col_fk (k j fk) : fGetAttr sch s (.obj (.col k j fk)) (.str "foreignKey") = .ok (colTarget fk) := by simp [fGetAttr]
@[simp] theorem ga_qns (k f) : fGetAttr sch s (.obj (.qns k)) (.obj (.name f)) = .ok (.obj (.field k f)) := by simp [fGetAttr]
@[simp] theorem ga_conn_cache : fGetAttr sch s (.obj .conn) (.str "cache") = .ok (.obj .cache) := by simp [fGetAttr]
end attrs

@[simp] theorem colCascade_some (t : Nat) (p : Pol) : colCascade (some (t, p)) = polVal p := rfl
@[simp] theorem fEqOver_field (k f : Nat) (v : PVal) :
    fEqOver (.obj (.field k f)) v = some (.app "==" (.cons (.obj (.field k f)) (.cons v .nil))) := rfl
@[simp] theorem fEqOver_cname (k : Nat) (v : PVal) : fEqOver (.obj (.cname k)) v = none := rfl
@[simp] theorem fEqOver_int (n : Nat) (v : PVal) : fEqOver (.int n) v = none := rfl
@[simp] theorem fEqOver_none (v : PVal) : fEqOver .none v = none := rfl
@[simp] theorem fEqOver_valOf (x : Fail.Val) (v : PVal) : fEqOver (valOf x) v = none := by
  rcases x with _ | (n | n) <;> rfl
@[simp] theorem fEqOver_polVal (p : Pol) (v : PVal) : fEqOver (polVal p) v = none := by cases p <;> rfl
@[simp] theorem fEqOver_colTarget (fk : Option (Nat × Pol)) (v : PVal) : fEqOver (colTarget fk) v = none := by
  rcases fk with _ | ⟨t, p⟩ <;> rfl
@[simp] theorem polVal_eq_true (p : Pol) : (polVal p = (.bool true : PVal)) ↔ p = .cascade := by cases p <;> simp [polVal]
@[simp] theorem polVal_eq_false (p : Pol) : (polVal p = (.bool false : PVal)) ↔ p = .restrict := by cases p <;> simp [polVal]
@[simp] theorem polVal_eq_null (p : Pol) : (polVal p = (.str "null" : PVal)) ↔ p = .null := by cases p <;> simp [polVal]
@[simp] theorem polVal_eq_none (p : Pol) : (polVal p = (.none : PVal)) ↔ p = .none := by cases p <;> simp [polVal]
@[simp] theorem valOf_eq_int (x : Fail.Val) (i : Nat) : (valOf x = (.int i : PVal)) ↔ x = some (i : Int) := by
  rcases x with _ | (n | n) <;> simp [valOf] <;> omega

/-- the statement-level image of a piece of the hand model: go on, or the exception named after the error -/
def resSt (env : Env Hnd) (r : Fail.St × Option Err) : Res Hnd Fail.St :=
  match r with
  | (s, none) => .norm ⟨s, env⟩
  | (s, some e) => .exc ⟨s, env⟩ (errName e)

@[simp] theorem resSt_ok (env : Env Hnd) (s : Fail.St) : resSt env (s, none) = .norm ⟨s, env⟩ := rfl
@[simp] theorem resSt_err (env : Env Hnd) (s : Fail.St) (e : Err) : resSt env (s, some e) = .exc ⟨s, env⟩ (errName e) := rfl

theorem afterCall_outCall (r : Fail.St × Option Err) (st : St Hnd Fail.St) :
    afterCall (outCall r) st none = resSt st.vars r := by
  rcases r with ⟨s, _ | e⟩ <;> rfl

macro "fdrun" : tactic => `(tactic|
  simp [execB, execS, evalC, evalE, evalEs, St.setVar, St.setOpt, zipKw, starKwOf, Const.val, appendTo, setItemOf, eqVal,
        fIsinstance, fGlob, *])

/-- run the first statement of the block at the head of the goal; the rest of the block stays folded -/
macro "fhead" : tactic => `(tactic|
  (rw [execB_cons];
   simp [execS, evalC, evalE, evalEs, St.setVar, St.setOpt, zipKw, starKwOf, Const.val, appendTo, setItemOf, eqVal,
         fIsinstance, fGlob, *]))

theorem fCall_delete (sch inj recC) (s : Fail.St) (tb : Nat) (b : Bool) (i : Nat) :
    fCall sch inj recC s (.obj .conn) "query"
      [.app "%" (.cons (.str "DELETE FROM %s WHERE %s=%d") (.cons (.obj (.tbl tb)) (.cons (.obj (.lcol b)) (.cons (.int i) .nil))))] [] =
    outCall (sendStmt sch inj (.delLinks tb b i) s) := by
  simp [fCall]

variable (sch : Schema) (inj : Option Inj) (recC : Nat → Nat → Fail.St → CallRes Hnd Fail.St) (c id : Nat)

/-- one run of the body of the loop over the victim's own joins -/
theorem for0_step (j : Join) (s : Fail.St) (env : Env Hnd) :
    execB (dIface sch inj recC c id) (St.setVar ⟨s, env⟩ 2 (.obj (.join j))) destroySelf_for0 =
      resSt ((env.put 2 (.obj (.join j))).put 3 (.app "%" (.cons (.str "DELETE FROM %s WHERE %s=%d")
          (.cons (.obj (.tbl j.tab)) (.cons (.obj (.lcol j.side)) (.cons (.int id) .nil))))))
        (sendStmt sch inj (.delLinks j.tab j.side id) s) := by
  unfold destroySelf_for0
  fdrun
  simp only [Val.ofList, fCall_delete, afterCall_outCall]
  rcases sendStmt sch inj (.delLinks j.tab j.side id) s with ⟨s1, _ | e⟩ <;> simp

/-- **segment (a)**: the loop over the victim's own related joins is `Fail.ownLinksSeg` -/
theorem for0_loop (js : List Join) :
    ∀ (s : Fail.St) (env : Env Hnd), ∃ env',
      forLoop (fun st a => execB (dIface sch inj recC c id) (st.setVar 2 a) destroySelf_for0) (js.map fun j => .obj (.join j)) ⟨s, env⟩ =
        resSt env' (Fail.run sch inj (js.foldr (fun j acc => .stmt (.delLinks j.tab j.side id) acc) .done) s) ∧
      ∀ x, x ≠ 2 → x ≠ 3 → env' x = env x := by
  induction js with
  | nil => intro s env; exact ⟨env, by simp [forLoop, run_done], fun _ _ _ => rfl⟩
  | cons j js ih =>
    intro s env
    simp only [List.map_cons, forLoop, List.foldr_cons, for0_step, run_stmt]
    rcases sendStmt sch inj (.delLinks j.tab j.side id) s with ⟨s1, _ | e⟩
    · obtain ⟨env', h1, h2⟩ := ih s1 ((env.put 2 (.obj (.join j))).put 3 (.app "%" (.cons (.str "DELETE FROM %s WHERE %s=%d")
          (.cons (.obj (.tbl j.tab)) (.cons (.obj (.lcol j.side)) (.cons (.int id) .nil))))))
      refine ⟨env', by simpa using h1, ?_⟩
      intro x hx2 hx3
      rw [h2 x hx2 hx3]
      simp [hx2, hx3]
    · exact ⟨_, rfl, fun x hx2 hx3 => by simp [hx2, hx3]⟩

end SqlObjVerif.FailDX
