import SqlObjVerif.Lemmas.InheritXGet
/-!
The TRANSLATED `InheritableSQLObject.get` along the whole class chain: `getN_eq` — the translated method calling ITSELF
for the class named by `childName` (any depth) is the hand model's `descend` followed by the `_parent` fetch
(`parentsSpec`); `getC_eq` — entered through any class it is the hand model's `get`.
-/
set_option linter.unusedSimpArgs false
namespace SqlObjVerif.Inherit
open SqlObjVerif.PyInh
open SqlObjVerif.PyInh.Extracted

theorem getParentX_eq (X : Ctx) (w' : XW) (k p i : Nat) :
    getParentX X w' k p i = if (w'.cur k).has p i then .ret w' (.inst k p i) else .exc w' ⟨.notFound, 0⟩ :=
  getX_childUpdate X noCalls w' p i (.conn k) .none k rfl

theorem colless_not_inh (T : Tree) (c : Nat) (h : T.colless c = true) : T.inh c = false := by
  simp only [Tree.colless, Bool.and_eq_true, Bool.not_eq_true'] at h
  exact h.2

/-- the whole dispatch: the translated `get` calling itself for the child class is the hand model's `descend`
    followed by the `_parent` fetch -/
theorem getN_eq {X : Ctx} (h : X.T.WF) (w : XW) (k i : Nat)
    (hcold : ∀ a, w.par k a i = .none)
    (htag : ∀ c r, w.cur k c i = some r → X.T.inh c = false → r.child = none) :
    ∀ (n e : Nat), 1 ≤ n → X.T.n + 1 ≤ e + n →
      getN X n w e i (.conn k) .none = getRes X w k i (descend Extracted.shuntColless X.T (w.cur k) i n e) ∧
      (X.T.inh e = false → getN X n w e i (.conn k) (.cons .none .nil) = parentsFetch X w k e i) := by
  have hsh : Extracted.shuntColless = true := rfl
  intro n
  induction n with
  | zero => intro e h1; omega
  | succ n ih =>
    intro e _ hfuel
    constructor
    · unfold getN
      rw [getX_level h _ w k e i (.conn k) rfl (fun a _ => hcold a) (fun w' p => getParentX_eq X w' k p i) (htag e)]
      unfold descend
      cases hrow : w.cur k e i with
      | none => rfl
      | some r =>
        dsimp only
        cases hch : r.child with
        | none => rfl
        | some d =>
          dsimp only
          by_cases hpd : X.T.parent d = some e
          · obtain ⟨h1, h2⟩ := h.lt d e hpd
            obtain ⟨iha, ihb⟩ := ih d (by omega) (by omega)
            have hb : (Extracted.shuntColless && X.T.colless d) = X.T.colless d := by rw [hsh]; simp
            simp only [hpd, if_true, hb]
            cases hcl : X.T.colless d
            · simpa [shuntArg] using iha
            · simpa [shuntArg, getRes] using ihb (colless_not_inh X.T d hcl)
          · simp [hpd, getRes]
    · intro hinh
      unfold getN
      exact getX_level_shunted h _ w k e i (.conn k) rfl (fun a _ => hcold a) (fun w' p => getParentX_eq X w' k p i) hinh

theorem parentsSpec_spec (k i : Nat) : ∀ (l : List Nat) (w : XW),
    (parentsSpec k i l w).2 = l.tail.all (fun a => (w.cur k).has a i) ∧ (parentsSpec k i l w).1.cur = w.cur := by
  intro l
  induction l with
  | nil => intro w; simp [parentsSpec]
  | cons a l ih =>
    intro w
    cases l with
    | nil => simp [parentsSpec]
    | cons p rest =>
      simp only [parentsSpec, List.tail_cons, List.all_cons]
      by_cases hh : (w.cur k).has p i = true
      · obtain ⟨h1, h2⟩ := ih (w.setPar k a i (.inst k p i))
        simp only [hh, if_true, h1, h2, List.tail_cons, setPar_cur, Bool.true_and, and_self]
      · simp [hh]

theorem all_skip (db : DB) (m i : Nat) : ∀ (l : List Nat), m ∉ l →
    l.all (fun a => a == m || db.has a i) = l.all (fun a => db.has a i) := by
  intro l
  induction l with
  | nil => intro _; rfl
  | cons a l ih =>
    intro hm
    simp only [List.mem_cons, not_or] at hm
    have : (a == m) = false := beq_eq_false_iff_ne.mpr (fun e => hm.1 e.symm)
    simp only [List.all_cons, this, Bool.false_or, ih hm.2]

theorem chain_all {T : Tree} (h : T.WF) (db : DB) (m i : Nat) :
    (T.anc m).all (fun a => a == m || db.has a i) = (T.anc m).tail.all (fun a => db.has a i) := by
  have hnd := anc_nodup h m
  rw [anc_eq_cons] at hnd ⊢
  rw [List.nodup_cons] at hnd
  simp only [List.all_cons, List.tail_cons, beq_self_eq_true, Bool.true_or, Bool.true_and]
  exact all_skip db m i _ hnd.1

/-- **the translated `get`, entered through any class, is the hand model's `get`** -/
theorem getC_eq {X : Ctx} (h : X.T.WF) (w : XW) (k e i : Nat)
    (hcold : ∀ a, w.par k a i = .none)
    (htag : ∀ c r, w.cur k c i = some r → X.T.inh c = false → r.child = none) :
    ∃ w', w'.cur = w.cur ∧ getC X w e i (.conn k) =
      match get X.T (w.cur k) e i with
      | .ok m => .ret w' (.inst k m i)
      | .notFound => .exc w' ⟨.notFound, 0⟩
      | .keyError => .exc w' ⟨.keyError, 0⟩ := by
  unfold getC
  rw [(getN_eq h w k i hcold htag (X.T.n + 1) e (by omega) (by omega)).1]
  unfold get
  cases hd : descend Extracted.shuntColless X.T (w.cur k) i (X.T.n + 1) e with
  | notFound => exact ⟨w, rfl, rfl⟩
  | keyError => exact ⟨w, rfl, rfl⟩
  | ok m =>
    obtain ⟨h1, h2⟩ := parentsSpec_spec k i (X.T.anc m) w
    refine ⟨(parentsSpec k i (X.T.anc m) w).1, h2, ?_⟩
    simp only [getRes, parentsFetch, chain_all h]
    rw [← h1]
    generalize parentsSpec k i (X.T.anc m) w = ps
    obtain ⟨w', b⟩ := ps
    cases b <;> rfl
end SqlObjVerif.Inherit
