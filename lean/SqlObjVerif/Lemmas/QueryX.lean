import SqlObjVerif.Model.QueryX
/-!
# C11 — the translated `SelectResults._mungeOrderBy` equals the hand model `Query.mungeOrderBy`

Also: the evaluation macros `pyq` / `pyqw [extra]` (one simp call that runs a translated statement), the attribute
lemmas of the class / `sqlmeta` / column objects, `findCol_aget` (the dict `sqlmeta.columns` against `Schema.lookupPy`).
-/
namespace SqlObjVerif.QueryX
open SqlObjVerif.PyQ
open SqlObjVerif.PyQ.Extracted

@[simp] theorem out_ret (env : Env) (v : Val) : (Res.ret env v).out = .ret v := rfl
@[simp] theorem out_norm (env : Env) : (Res.norm env).out = .ret .none := rfl
@[simp] theorem out_exc (env : Env) (e : Exc) : (Res.exc env e).out = .exc e := rfl
@[simp] theorem out_stuck : Res.stuck.out = .stuck := rfl


theorem findCol_aget (s : Str) (cols : List Query.ColSpec) (k : Nat) :
    match Query.findCol (fun c => c.name = s) cols k with
    | none => aget s (cols.map fun c => (c.name, colV c)) = none
    | some i => k ≤ i ∧ ∃ c, cols[i - k]? = some c ∧ c.name = s ∧ aget s (cols.map fun c => (c.name, colV c)) = some (colV c) := by
  induction cols generalizing k with
  | nil => simp [Query.findCol, aget]
  | cons c cs ih =>
    simp only [Query.findCol, List.map_cons, aget]
    by_cases h : c.name = s
    · simp [h]
    · have h' : (c.name == s) = false := by simpa using h
      simp only [h, decide_false, Bool.false_eq_true, if_false, h']
      have := ih (k + 1)
      cases hf : Query.findCol (fun c => c.name = s) cs (k + 1) with
      | none => rw [hf] at this; simpa using this
      | some i =>
        rw [hf] at this
        obtain ⟨hk, c', h1, h2, h3⟩ := this
        refine ⟨by omega, c', ?_, h2, h3⟩
        have : i - k = (i - (k + 1)) + 1 := by omega
        rw [this]; simpa using h1

@[simp] theorem attr_sqlmeta_columns (I : Iface) (sch : Schema) :
    attrOf I (sqlmetaV sch) "columns" = .ok (.dict (sch.cols.map fun c => (c.name, colV c))) := rfl
@[simp] theorem attr_sqlmeta_columnList (I : Iface) (sch : Schema) :
    attrOf I (sqlmetaV sch) "columnList" = .ok (.list (sch.cols.map colV)) := rfl
@[simp] theorem attr_sqlmeta_defaultOrder (I : Iface) (sch : Schema) :
    attrOf I (sqlmetaV sch) "defaultOrder" = .ok (OrderBy.toVal sch sch.defaultOrder) := rfl
@[simp] theorem attr_sqlmeta_table (I : Iface) (sch : Schema) :
    attrOf I (sqlmetaV sch) "table" = .ok (.str sch.table) := rfl
@[simp] theorem attr_sqlmeta_idName (I : Iface) (sch : Schema) :
    attrOf I (sqlmetaV sch) "idName" = .ok (.str idName) := rfl
@[simp] theorem attr_col_name (I : Iface) (c : Query.ColSpec) : attrOf I (colV c) "name" = .ok (.str c.name) := rfl
@[simp] theorem attr_col_dbName (I : Iface) (c : Query.ColSpec) : attrOf I (colV c) "dbName" = .ok (.str c.dbName) := rfl
@[simp] theorem attr_col_foreignName (I : Iface) (c : Query.ColSpec) :
    attrOf I (colV c) "foreignName" = .ok (optStr c.foreignName) := rfl
@[simp] theorem attr_col_from_python (I : Iface) (c : Query.ColSpec) : attrOf I (colV c) "from_python" = .ok .none := rfl
@[simp] theorem attr_cls_sqlmeta (sch : Schema) (P : Params) fnRec cm cv :
    attrOf (qIface sch P fnRec cm cv) clsV "sqlmeta" = .ok (sqlmetaV sch) := rfl
@[simp] theorem attr_cls_q (sch : Schema) (P : Params) fnRec cm cv :
    attrOf (qIface sch P fnRec cm cv) clsV "q" = .ok qV := rfl
@[simp] theorem attr_cls_connection (sch : Schema) (P : Params) fnRec cm cv :
    attrOf (qIface sch P fnRec cm cv) clsV "_connection" = .ok P.conn := rfl
@[simp] theorem attr_q_id (sch : Schema) (P : Params) fnRec cm cv :
    attrOf (qIface sch P fnRec cm cv) qV "id" = .ok (fieldV idName) := rfl
@[simp] theorem getattrDyn_q (n : Str) : qGetAttrDyn qV n = .ok (fieldV n) := rfl
theorem attrOf_obj (I : Iface) (c : String) (fs : List (String × Val)) (a : String) (v : Val) (h : aget a fs = some v) :
    attrOf I (.obj c fs) a = .ok v := by simp [attrOf, h]

macro "pyq" : tactic => `(tactic| simp [Stmt.exec, Block.exec, Expr.eval, Exprs.eval, callFn, qFn,
  aget, Target.bind, bindAll, zipKw, strMethod, dictMethod, pyMod, pyFormat, fmtArgs, Res.seq_norm, isAny, isA1, qIsA, Env.ofArgs, attrOf_obj, *])

macro "pyqw" "[" ts:Lean.Parser.Tactic.simpLemma,* "]" : tactic => `(tactic| simp [Stmt.exec, Block.exec, Expr.eval, Exprs.eval, callFn, qFn,
  aget, Target.bind, bindAll, zipKw, strMethod, dictMethod, pyMod, pyFormat, fmtArgs, Res.seq_norm, isAny, isA1, qIsA, Env.ofArgs, attrOf_obj, $ts,*, *])

section
variable (sch : Schema) (P : Params) (fnRec : String → List Val → List (Str × Val) → R Val)
  (cm : Val → String → List Val → List (Str × Val) → R Val) (cv : Val → List Val → R Val)

theorem munge_expr (self : Val) (e : OExpr) :
    mungeX (qIface sch P fnRec cm cv) self (OExpr.toVal sch e) = .ret (OExpr.toVal sch e) := by
  unfold mungeX run mungeOrderBy mungeOrderBy_s0 mungeOrderBy_s1
  cases e <;> simp [OExpr.toVal, fieldV, constV, descV, Env.ofArgs] <;> pyq

/-- after the prefix test: name `s`, flag `d` -/
theorem munge_s1 (env : Env) (c : String) (fs : List (String × Val)) (s : Str) (d : Bool)
    (h0 : env 0 = some (.obj c fs)) (hsc : aget "sourceClass" fs = some clsV)
    (h1 : env 1 = some (.str s)) (h2 : env 2 = some (.bool d)) (k : Env → Res) :
    ((Stmt.exec (qIface sch P fnRec cm cv) env mungeOrderBy_s1).seq k).out =
      .ret (match sch.lookupPy s with
        | some i => Query.wrapIf d (.field (.col i)) |> OExpr.toVal sch
        | none => Query.wrapIf d (.const s) |> OExpr.toVal sch) := by
  unfold mungeOrderBy_s1 Query.Schema.lookupPy
  have := findCol_aget s sch.cols 0
  cases hf : Query.findCol (fun c => c.name = s) sch.cols 0 with
  | none =>
    rw [hf] at this
    cases d <;> pyq <;> simp [Query.wrapIf, OExpr.toVal, constV, descV]
  | some i =>
    rw [hf] at this
    obtain ⟨_, c', h1', h2', h3'⟩ := this
    simp only [Nat.sub_zero] at h1'
    cases d <;> pyq <;> simp [Query.wrapIf, OExpr.toVal, colName, h1', h2', descV]

/-- `_mungeOrderBy` on a string -/
theorem munge_str (c : String) (fs : List (String × Val)) (hsc : aget "sourceClass" fs = some clsV) (s : Str) :
    mungeX (qIface sch P fnRec cm cv) (.obj c fs) (.str s) = .ret (OExpr.toVal sch (Query.mungeOrderBy sch (.str s))) := by
  unfold mungeX run mungeOrderBy
  simp only [exec_cons]
  have hp : Query.Extracted.descPrefix = '-' := by decide
  cases s with
  | nil =>
    have e0 : Stmt.exec (qIface sch P fnRec cm cv) (Env.ofArgs [.obj c fs, .str []]) mungeOrderBy_s0
        = .norm ((Env.ofArgs [.obj c fs, .str []]).put 2 (.bool false)) := by
      unfold mungeOrderBy_s0; pyq
    rw [e0, Res.seq_norm, munge_s1 sch P fnRec cm cv _ c fs [] false rfl hsc rfl rfl]
    simp [Query.mungeOrderBy, Query.splitPrefix, Query.Extracted.descWhenPlain, Query.Extracted.mungeColumn,
      Query.Extracted.mungeRaw]
    cases sch.lookupPy [] <;> rfl
  | cons a t =>
    by_cases ha : a = '-'
    · subst ha
      have e0 : Stmt.exec (qIface sch P fnRec cm cv) (Env.ofArgs [.obj c fs, .str ('-' :: t)]) mungeOrderBy_s0
          = .norm (((Env.ofArgs [.obj c fs, .str ('-' :: t)]).put 1 (.str t)).put 2 (.bool true)) := by
        unfold mungeOrderBy_s0; pyqw [pySlice, sliceL, sliceBound, clampIdx]
      rw [e0, Res.seq_norm, munge_s1 sch P fnRec cm cv _ c fs t true rfl hsc rfl rfl]
      simp [Query.mungeOrderBy, Query.splitPrefix, hp, Query.Extracted.descWhenPrefixed, Query.Extracted.mungeColumn,
        Query.Extracted.mungeRaw]
      cases sch.lookupPy t <;> rfl
    · have e0 : Stmt.exec (qIface sch P fnRec cm cv) (Env.ofArgs [.obj c fs, .str (a :: t)]) mungeOrderBy_s0
          = .norm ((Env.ofArgs [.obj c fs, .str (a :: t)]).put 2 (.bool false)) := by
        unfold mungeOrderBy_s0; pyq
        intro h; exact absurd h.symm ha
      rw [e0, Res.seq_norm, munge_s1 sch P fnRec cm cv _ c fs (a :: t) false rfl hsc rfl rfl]
      simp [Query.mungeOrderBy, Query.splitPrefix, hp, ha, Query.Extracted.descWhenPlain, Query.Extracted.mungeColumn,
        Query.Extracted.mungeRaw]
      cases sch.lookupPy (a :: t) <;> rfl

/-- **`_mungeOrderBy` = `Query.mungeOrderBy`** -/
theorem munge_translated (c : String) (fs : List (String × Val)) (hsc : aget "sourceClass" fs = some clsV)
    (a : Query.OrderArg) :
    mungeX (qIface sch P fnRec cm cv) (.obj c fs) (OrderArg.toVal sch a) = .ret (OExpr.toVal sch (Query.mungeOrderBy sch a)) := by
  cases a with
  | str s => exact munge_str sch P fnRec cm cv c fs hsc s
  | expr e => exact munge_expr sch P fnRec cm cv _ e
end
end SqlObjVerif.QueryX
