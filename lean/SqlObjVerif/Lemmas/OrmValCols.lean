import SqlObjVerif.Lemmas.OrmVal
/-!
# `ColsOK`: an instance has cached attributes and pending values only for the columns of its class

Part of the representation invariant the translated-method theorems (`Props/C05.lean`, `Props/C16.lean`)
need: `o.cached c = none` for `c ≥ ncols`, and every pending key is a column.  Preserved by EVERY operation of
the model (raw SQL included), hence true in every state reachable by any history (`anyReach_cols`).
-/
namespace SqlObjVerif.OrmVal

structure ColsOK (cfg : Cfg) (o : Inst) : Prop where
  attrs : ∀ c, cfg.ncols o.cls ≤ c → o.cached c = none
  pend : ∀ e ∈ o.pending, e.1 < cfg.ncols o.cls

def AllCols (cfg : Cfg) (s : State) : Prop := ∀ h o, s.objs h = some o → ColsOK cfg o

theorem plookup_none_of_keys (k : Col) (p : Pend) (h : ∀ e ∈ p, e.1 ≠ k) : plookup k p = none := by
  induction p with
  | nil => rfl
  | cons a r ih =>
    obtain ⟨c, v⟩ := a
    have h1 : k ≠ c := fun e => h (c, v) (by simp) e.symm
    simp only [plookup, h1, if_false]
    exact ih (fun e he => h e (by simp [he]))

theorem pmerge_fst_mem (new old : Pend) (x : Col × Val) (hx : x ∈ pmerge new old) :
    (∃ e ∈ new, e.1 = x.1) ∨ x ∈ old := by
  unfold pmerge at hx
  induction new generalizing old with
  | nil => exact Or.inr hx
  | cons a r ih =>
    simp only [List.foldl_cons] at hx
    rcases ih _ hx with ⟨e, he, h1⟩ | h2
    · exact Or.inl ⟨e, by simp [he], h1⟩
    · rcases passign_fst_mem _ _ _ _ h2 with h3 | h3
      · exact Or.inl ⟨a, by simp, h3.symm⟩
      · exact Or.inr h3

theorem validate_keys (enc : Col → Val → Val) (kvs : List (Col × Inp)) (p : Pend) (h : validate enc kvs = some p)
    (x : Col × Val) (hx : x ∈ p) : ∃ e ∈ kvs, e.1 = x.1 := by
  induction kvs generalizing p with
  | nil => simp [validate] at h; subst h; simp at hx
  | cons a r ih =>
    obtain ⟨c, i⟩ := a
    cases i with
    | bad => simp [validate] at h
    | ok v =>
      simp only [validate, Option.map_eq_some_iff] at h
      obtain ⟨q, hq, rfl⟩ := h
      rcases passign_fst_mem _ _ _ _ hx with h1 | h1
      · exact ⟨(c, .ok v), by simp, h1.symm⟩
      · obtain ⟨e, he, h2⟩ := ih q hq h1
        exact ⟨e, by simp [he], h2⟩

theorem colsOK_fresh (cfg : Cfg) (cls : Cls) (id : Id) (row : Row) : ColsOK cfg (freshInst cfg cls id row) :=
  ⟨fun c hc => by
    have hc' : cfg.ncols cls ≤ c := hc
    simp [freshInst, loadRow, Nat.not_lt_of_ge hc'], by simp [freshInst]⟩

theorem colsOK_of_eq (cfg : Cfg) (o o' : Inst) (hf : ColsOK cfg o) (hc : o'.cls = o.cls)
    (hd : o'.cached = o.cached) (hp : o'.pending = o.pending) : ColsOK cfg o' :=
  ⟨by rw [hc, hd]; exact hf.attrs, by rw [hc, hp]; exact hf.pend⟩

theorem colsOK_loadRow (cfg : Cfg) (o o' : Inst) (hf : ColsOK cfg o) (hc : o'.cls = o.cls) (row : Row)
    (hd : o'.cached = loadRow (cfg.dec o.cls) (cfg.ncols o.cls) row) (hp : o'.pending = o.pending) : ColsOK cfg o' :=
  ⟨by rw [hc, hd]; intro c h; simp [loadRow, Nat.not_lt_of_ge h], by rw [hc, hp]; exact hf.pend⟩

theorem colsOK_clean (cfg : Cfg) (o o' : Inst) (hf : ColsOK cfg o) (hc : o'.cls = o.cls)
    (hd : o'.cached = o.cached) (hp : o'.pending = []) : ColsOK cfg o' :=
  ⟨by rw [hc, hd]; exact hf.attrs, by simp [hp]⟩

theorem colsOK_setCached (cfg : Cfg) (o : Inst) (hf : ColsOK cfg o) (c : Col) (v : Val) (hc : c < cfg.ncols o.cls)
    (k : Col) (hk : cfg.ncols o.cls ≤ k) : setCached o.cached c v k = none := by
  unfold setCached
  have : k ≠ c := fun e => by rw [e] at hk; exact absurd hc (Nat.not_lt_of_ge hk)
  simp [this, hf.attrs k hk]

theorem colsOK_cacheAll (cfg : Cfg) (cls : Cls) (cached : Col → Option Val) (p : Pend)
    (ha : ∀ c, cfg.ncols cls ≤ c → cached c = none) (hp : ∀ e ∈ p, e.1 < cfg.ncols cls)
    (k : Col) (hk : cfg.ncols cls ≤ k) : cacheAll (cfg.dec cls) cached p k = none := by
  unfold cacheAll
  rw [plookup_none_of_keys k p (fun e he heq => by
    have := hp e he; rw [heq] at this; exact absurd this (Nat.not_lt_of_ge hk))]
  exact ha k hk

theorem allCols_setObj (cfg : Cfg) (s : State) (h : Hnd) (o' : Inst) (hf : AllCols cfg s) (ho : ColsOK cfg o') :
    AllCols cfg (setObj s h o') := by
  intro k ok hk
  simp only [setObj] at hk
  by_cases hkh : k = h
  · simp only [hkh, if_true, Option.some.injEq] at hk; subst hk; exact ho
  · simp only [hkh, if_false] at hk; exact hf k ok hk

theorem allCols_congr (cfg : Cfg) (s s' : State) (hf : AllCols cfg s) (h : s'.objs = s.objs) : AllCols cfg s' := by
  intro k ok hk; rw [h] at hk; exact hf k ok hk

theorem cols_setattr (cfg : Cfg) (s : State) (h : Hnd) (c : Col) (inp : Inp) (fail : Bool) (hf : AllCols cfg s) :
    AllCols cfg (opSetattr cfg s h c inp fail).1 := by
  unfold opSetattr
  split
  · exact hf
  · rename_i o ho
    have hfo := hf h o ho
    split
    · exact hf
    · rename_i hc
      have hc' : c < cfg.ncols o.cls := Nat.lt_of_not_ge hc
      split
      · exact hf
      · rename_i v
        split
        · apply allCols_setObj _ _ _ _ hf
          refine ⟨fun k hk => colsOK_setCached cfg o hfo c _ hc' k hk, ?_⟩
          intro e he
          rcases passign_fst_mem _ _ _ _ he with h1 | h1
          · rw [h1]; exact hc'
          · exact hfo.pend e h1
        · split
          · exact allCols_congr _ _ _ hf rfl
          · split
            · apply allCols_setObj _ _ _ _ (allCols_congr _ s _ hf rfl)
              exact ⟨fun k hk => colsOK_setCached cfg o hfo c _ hc' k hk, hfo.pend⟩
            · exact allCols_congr _ _ _ hf rfl

theorem cols_set (cfg : Cfg) (s : State) (h : Hnd) (kvs : List (Col × Inp)) (fail : Bool) (hf : AllCols cfg s) :
    AllCols cfg (opSet cfg s h kvs fail).1 := by
  unfold opSet
  split
  · exact hf
  · rename_i o ho
    have hfo := hf h o ho
    split
    · exact hf
    · rename_i hco
      have hlt : ∀ e ∈ kvs, e.1 < cfg.ncols o.cls := by simpa [colsOk] using hco
      split
      · exact hf
      · rename_i p hp
        have hpk : ∀ e ∈ p, e.1 < cfg.ncols o.cls := by
          intro e he
          obtain ⟨e', he', h1⟩ := validate_keys _ _ _ hp e he
          rw [← h1]; exact hlt e' he'
        split
        · apply allCols_setObj _ _ _ _ hf
          refine ⟨fun k hk => colsOK_cacheAll cfg o.cls o.cached p hfo.attrs hpk k hk, ?_⟩
          intro e he
          rcases pmerge_fst_mem _ _ _ he with ⟨e', he', h1⟩ | h2
          · rw [← h1]; exact hpk e' he'
          · exact hfo.pend e h2
        · split
          · exact hf
          · split
            · exact allCols_congr _ _ _ hf rfl
            · split
              · apply allCols_setObj _ _ _ _ (allCols_congr _ s _ hf rfl)
                exact ⟨fun k hk => colsOK_cacheAll cfg o.cls o.cached p hfo.attrs hpk k hk, hfo.pend⟩
              · exact allCols_congr _ _ _ hf rfl

theorem cols_syncUpdate (cfg : Cfg) (s : State) (h : Hnd) (fail : Bool) (hf : AllCols cfg s) :
    AllCols cfg (opSyncUpdate s h fail).1 := by
  unfold opSyncUpdate
  split
  · exact hf
  · rename_i o ho
    split
    · exact hf
    · split
      · exact allCols_congr _ _ _ hf rfl
      · exact allCols_setObj _ _ _ _ (allCols_congr _ s _ hf rfl) (colsOK_clean _ o _ (hf h o ho) rfl rfl rfl)

theorem cols_reload (cfg : Cfg) (s : State) (h : Hnd) (hf : AllCols cfg s) :
    AllCols cfg (opReload cfg s h).1 := by
  unfold opReload
  split
  · exact hf
  · rename_i o ho
    split
    · exact allCols_congr _ _ _ hf rfl
    · rename_i row _
      exact allCols_setObj _ _ _ _ (allCols_congr _ s _ hf rfl) (colsOK_loadRow _ o _ (hf h o ho) rfl row rfl rfl)

theorem cols_sync (cfg : Cfg) (s : State) (h : Hnd) (fail : Bool) (hf : AllCols cfg s) :
    AllCols cfg (opSync cfg s h fail).1 := by
  unfold opSync
  split
  · exact hf
  · split
    · dsimp only
      split
      · exact cols_reload _ _ _ (cols_syncUpdate _ _ _ _ hf)
      · exact cols_syncUpdate _ _ _ _ hf
    · exact cols_reload _ _ _ hf

theorem colsOK_expire (cfg : Cfg) (o : Inst) : ColsOK cfg (expireInst o) :=
  ⟨fun _ _ => rfl, by simp [expireInst]⟩

theorem allCols_evictOthers (cfg : Cfg) (s : State) (h : Hnd) (cls : Cls) (id : Id) (hf : AllCols cfg s) :
    AllCols cfg (evictOthers s h cls id) := by
  intro k ok hk
  simp only [evictOthers] at hk
  by_cases hkh : k = h
  · simp only [hkh, if_true] at hk; exact hf h ok hk
  · simp only [hkh, if_false, Option.map_eq_some_iff] at hk
    obtain ⟨o2, ho2, rfl⟩ := hk
    split
    · exact colsOK_of_eq _ o2 _ (hf k o2 ho2) rfl rfl rfl
    · exact hf k o2 ho2

theorem cols_expire (cfg : Cfg) (s : State) (h : Hnd) (hf : AllCols cfg s) : AllCols cfg (opExpire s h).1 := by
  unfold opExpire
  split
  · exact hf
  · exact allCols_setObj _ _ _ _ (allCols_evictOthers _ _ _ _ _ hf) (colsOK_expire _ _)

theorem cols_expireAll (cfg : Cfg) (s : State) (only : Option Cls) (hf : AllCols cfg s) :
    AllCols cfg (opExpireAll s only).1 := by
  intro k ok hk
  simp only [opExpireAll, Option.map_eq_some_iff] at hk
  obtain ⟨o, ho, rfl⟩ := hk
  generalize (o.inCache && match only with | none => true | some c => o.cls == c) = b
  cases b
  · exact hf k o ho
  · exact colsOK_expire _ _

theorem cols_destroy (cfg : Cfg) (s : State) (h : Hnd) (hf : AllCols cfg s) : AllCols cfg (opDestroy s h).1 := by
  unfold opDestroy
  split
  · exact hf
  · rename_i o ho
    exact allCols_setObj _ _ _ _ (allCols_evictOthers _ _ _ _ _ (allCols_congr _ s _ hf rfl))
      (colsOK_of_eq _ o _ (hf h o ho) rfl rfl rfl)

theorem cols_pickle (cfg : Cfg) (s : State) (h : Hnd) (fail : Bool) (hf : AllCols cfg s) :
    AllCols cfg (opPickle cfg s h fail).1 := by
  unfold opPickle
  split
  · exact hf
  · split
    · exact cols_syncUpdate _ _ _ _ hf
    · exact hf

theorem cols_drop (cfg : Cfg) (s : State) (h : Hnd) (hf : AllCols cfg s) : AllCols cfg (opDrop s h).1 := by
  intro k ok hk
  simp only [opDrop] at hk
  by_cases hkh : k = h
  · simp [hkh] at hk
  · simp only [hkh, if_false] at hk; exact hf k ok hk

theorem allCols_register (cfg : Cfg) (s : State) (h : Hnd) (o : Inst) (hf : AllCols cfg s) (ho : ColsOK cfg o) :
    AllCols cfg (register s h o) := by
  intro k ok hk
  simp only [register] at hk
  by_cases hkh : k = h
  · simp only [hkh, if_true, Option.some.injEq] at hk; subst hk; exact ho
  · simp only [hkh, if_false, Option.map_eq_some_iff] at hk
    obtain ⟨o2, ho2, rfl⟩ := hk
    split
    · exact colsOK_of_eq _ o2 _ (hf k o2 ho2) rfl rfl rfl
    · exact hf k o2 ho2

theorem cols_create (cfg : Cfg) (s : State) (h : Hnd) (cls : Cls) (id : Id) (kvs : List (Col × Inp))
    (hf : AllCols cfg s) : AllCols cfg (opCreate cfg s h cls id kvs).1 := by
  unfold opCreate
  split
  · exact hf
  · split
    · exact hf
    · split
      · exact hf
      · split
        · exact allCols_congr _ _ _ hf rfl
        · exact allCols_register _ _ _ _ (allCols_congr _ s _ hf rfl) (colsOK_fresh _ _ _ _)

theorem cols_fetch (cfg : Cfg) (s : State) (h : Hnd) (cls : Cls) (id : Id) (v : Bool)
    (hf : AllCols cfg s) : AllCols cfg (opFetch cfg s h cls id v).1 := by
  unfold opFetch
  have h1 : AllCols cfg (fetchLog s v cls id) := by
    unfold fetchLog
    split
    · exact hf
    · exact allCols_congr _ _ _ hf rfl
  split
  · exact hf
  · split
    · exact h1
    · exact allCols_register _ _ _ _ h1 (colsOK_fresh _ _ _ _)

theorem cols_refresh (cfg : Cfg) (s : State) (h : Hnd) (hf : AllCols cfg s) : AllCols cfg (opRefresh cfg s h).1 := by
  unfold opRefresh
  split
  · exact hf
  · rename_i o ho
    split
    · exact hf
    · split
      · exact hf
      · rename_i row _
        exact allCols_setObj _ _ _ _ hf (colsOK_loadRow _ o _ (hf h o ho) rfl row rfl rfl)

theorem cols_read (cfg : Cfg) (s : State) (h : Hnd) (c : Col) (hf : AllCols cfg s) : AllCols cfg (opRead cfg s h c).1 := by
  unfold opRead
  split
  · exact hf
  · rename_i o ho
    have hfo := hf h o ho
    split
    · exact hf
    · split
      · split
        · exact hf
        · split
          · exact allCols_setObj _ _ _ _ (allCols_congr _ s _ hf rfl) (colsOK_of_eq _ o _ hfo rfl rfl rfl)
          · rename_i row _
            apply allCols_setObj _ _ _ _ (allCols_congr _ s _ hf rfl)
            refine ⟨fun k hk => colsOK_cacheAll cfg o.cls _ o.pending
              (fun c hc => by simp [loadRow, Nat.not_lt_of_ge hc]) hfo.pend k hk, hfo.pend⟩
      · split
        · exact hf
        · split <;> exact allCols_congr _ _ _ hf rfl

theorem cols_refRow (cfg : Cfg) (s : State) (T : Cls) (r : Id) (hr : Hnd) (fresh : Option (Cls × Id))
    (hf : AllCols cfg s) : AllCols cfg (opRefRow cfg s T r hr fresh).1 := by
  unfold opRefRow
  have h1 : AllCols cfg (refGet cfg s hr fresh).1 := by
    cases fresh with
    | none => exact cols_refresh _ _ _ hf
    | some ki => exact cols_fetch _ _ _ _ _ _ hf
  generalize (refGet cfg s hr fresh) = r1 at h1 ⊢
  dsimp only
  split
  · exact h1
  · split
    · exact h1
    · split
      · exact h1
      · split
        · exact h1
        · split
          · exact cols_destroy _ _ _ h1
          · have h2 := cols_read cfg r1.1 hr 0 h1
            split
            · split
              · exact cols_syncUpdate _ _ _ _ (cols_set _ _ _ _ _ h2)
              · exact cols_set _ _ _ _ _ h2
            · exact h2

theorem cols_refSteps (cfg : Cfg) (s : State) (T : Cls) (r : Id) (refs : List RefStep) (hf : AllCols cfg s) :
    AllCols cfg (opRefSteps cfg s T r refs).1 := by
  induction refs generalizing s with
  | nil => exact hf
  | cons a rest ih =>
    cases a with
    | sel k => exact ih _ (allCols_congr _ _ _ hf rfl)
    | row hr fresh =>
      simp only [opRefSteps]
      split
      · exact ih _ (cols_refRow _ _ _ _ _ _ hf)
      · exact cols_refRow _ _ _ _ _ _ hf

theorem cols_destroyRefs (cfg : Cfg) (s : State) (h : Hnd) (refs : List RefStep) (hf : AllCols cfg s) :
    AllCols cfg (opDestroyRefs cfg s h refs).1 := by
  unfold opDestroyRefs
  split
  · exact hf
  · dsimp only
    split
    · exact cols_destroy _ _ _ (cols_refSteps _ _ _ _ _ hf)
    · exact cols_refSteps _ _ _ _ _ hf

/-- `ColsOK` is preserved by EVERY operation, raw SQL included -/
theorem cols_step (cfg : Cfg) (s : State) (op : Op) (hf : AllCols cfg s) : AllCols cfg (step cfg s op).1 := by
  cases op with
  | create h cls id kvs => exact cols_create _ _ _ _ _ _ hf
  | fetch h cls id v => exact cols_fetch _ _ _ _ _ _ hf
  | refresh h => exact cols_refresh _ _ _ hf
  | selectStmt cls => exact allCols_congr _ _ _ hf rfl
  | read h c => exact cols_read _ _ _ _ hf
  | setattr h c inp fail => exact cols_setattr _ _ _ _ _ _ hf
  | set h kvs fail => exact cols_set _ _ _ _ _ hf
  | syncUpdate h fail => exact cols_syncUpdate _ _ _ _ hf
  | sync h fail => exact cols_sync _ _ _ _ hf
  | expire h => exact cols_expire _ _ _ hf
  | expireAll => exact cols_expireAll _ _ _ hf
  | expireAllCls cls => exact cols_expireAll _ _ _ hf
  | destroy h refs => exact cols_destroyRefs _ _ _ _ hf
  | pickle h fail => exact cols_pickle _ _ _ _ hf
  | drop h => exact cols_drop _ _ _ hf
  | bulkDelete cls ids => exact allCols_congr _ _ _ hf rfl
  | unpickle h cls id snap clash =>
    simp only [step, opUnpickle]
    split
    · exact hf
    · split
      · exact hf
      · refine allCols_register _ _ _ _ hf ⟨fun c hc => ?_, by simp [unpickledInst]⟩
        have hc' : cfg.ncols cls ≤ c := hc
        simp [unpickledInst, snapCached, Nat.not_lt_of_ge hc']
  | oobUpdate cls id c v => exact allCols_congr _ _ _ hf rfl
  | oobDelete cls id => exact allCols_congr _ _ _ hf rfl
  | oobInsert cls id vals =>
    simp only [step]
    split
    · exact hf
    · exact allCols_congr _ _ _ hf rfl

theorem allCols_init (cfg : Cfg) : AllCols cfg init := fun h o ho => by simp [init] at ho

/-- in every state reachable by ANY operations every held instance has attributes / pending values only for
    its columns -/
theorem anyReach_cols (cfg : Cfg) (s : State) (hs : AnyReach cfg s) : AllCols cfg s := by
  induction hs with
  | init => exact allCols_init cfg
  | step s op _ ih => exact cols_step cfg s op ih

end SqlObjVerif.OrmVal
