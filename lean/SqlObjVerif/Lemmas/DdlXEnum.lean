import SqlObjVerif.Lemmas.DdlXTypeA
/-!
# C14 translation — EnumCol: `_getlength`, `_checkType`, `_mysqlType`, `_firebirdType` (comprehensions over the values)
-/
namespace SqlObjVerif.DdlX
open SqlObjVerif.Ddl
open SqlObjVerif.PyDdl hiding Str isUpperC
open SqlObjVerif.PyDdl.Extracted

/-! ### comprehensions over the image of a list -/

/-- `filterMapR` over the image `l.map g`, as a function of the original elements -/
def collectR {α : Type} (f : α → R (Option Val)) : List α → R (List Val)
  | [] => .ok []
  | a :: l => (f a).bind fun o => (collectR f l).bind fun r => .ok (consOpt o r)

theorem filterMapR_map {α : Type} (f : Val → R (Option Val)) (g : α → Val) (l : List α) :
    filterMapR f (l.map g) = collectR (fun a => f (g a)) l := by
  induction l with
  | nil => rfl
  | cons a l ih => simp [filterMapR, collectR, ih]

theorem collectR_some {α : Type} (h : α → Val) (l : List α) :
    collectR (fun a => R.ok (some (h a))) l = .ok (l.map h) := by
  induction l with
  | nil => rfl
  | cons a l ih => simp [collectR, ih, consOpt]

theorem collectR_filter {α : Type} (p : α → Bool) (h : α → Val) (l : List α) (inst : ∀ a, Decidable (p a = true)) :
    collectR (fun a => @ite _ (p a = true) (inst a) (R.ok (some (h a))) (R.ok none)) l = .ok ((l.filter p).map h) := by
  induction l with
  | nil => rfl
  | cons a l ih =>
    rw [collectR, ih]
    by_cases hp : p a = true
    · rw [if_pos hp]; simp [consOpt, hp]
    · rw [if_neg hp]; simp [consOpt, hp]

/-! ### enum values -/

def glen : Option Str → Int
  | none => 0
  | some s => s.length

theorem allStr_map_fun {α : Type} (h : α → Str) (l : List α) : allStr (l.map fun a => Val.str (h a)) = some (l.map h) := by
  induction l with
  | nil => rfl
  | cons a l ih => simp [allStr, ih]

theorem allInt_map_int {α : Type} (g : α → Int) (l : List α) : allInt (l.map fun a => Val.int (g a)) = some (l.map g) := by
  induction l with
  | nil => rfl
  | cons a l ih => simp [allInt, ih]

theorem enumMaxLen_cons (a : Option Str) (t : List (Option Str)) :
    (enumMaxLen (a :: t) : Int) = if glen a < enumMaxLen t then (enumMaxLen t : Int) else glen a := by
  cases a with
  | none =>
    have h : enumMaxLen (none :: t) = enumMaxLen t := rfl
    have g : glen none = 0 := rfl
    rw [h, g]; split <;> omega
  | some s =>
    have h : enumMaxLen (some s :: t) = max s.length (enumMaxLen t) := rfl
    have g : glen (some s) = (s.length : Int) := rfl
    rw [h, g]; split <;> omega

theorem maxInt_glen (vals : List (Option Str)) :
    maxInt (vals.map glen) = if vals = [] then none else some (enumMaxLen vals : Int) := by
  induction vals with
  | nil => rfl
  | cons a l ih =>
    cases l with
    | nil => cases a <;> simp [maxInt, glen, enumMaxLen]
    | cons b l =>
      rw [List.map_cons, maxInt, ih, enumMaxLen_cons a (b :: l)]
      simp only [reduceCtorEq, if_false]

@[simp] theorem sqlreprX_optStr (a : Option Str) (db : Str) :
    sqlreprX [optStr a, .str db] = .ok (.str (enumLit (litOfDb db) a)) := by cases a <;> rfl

@[simp] theorem pyIs_optStr_none (a : Option Str) : pyIs (optStr a) .none = some a.isNone := by cases a <;> rfl

theorem anyEq_none_optStr (vals : List (Option Str)) : anyEq .none (vals.map optStr) = some (vals.contains none) := by
  induction vals with
  | nil => rfl
  | cons a l ih => cases a <;> simp [anyEq, ih]

theorem enumLit_no_none (l : LitDb) (vals : List (Option Str)) (h : vals.contains none = false) :
    vals.map (enumLit l) = (vals.filterMap id).map (sqlLit l) := by
  induction vals with
  | nil => rfl
  | cons a t ih =>
    cases a with
    | none => simp at h
    | some s =>
      have ht : t.contains none = false := by simpa using h
      simp [enumLit, ih ht]

theorem filter_isSome_map (l : LitDb) (vals : List (Option Str)) :
    (vals.filter fun a => a.isSome).map (enumLit l) = (vals.filterMap id).map (sqlLit l) := by
  induction vals with
  | nil => rfl
  | cons a t ih => cases a <;> simp [enumLit, ih]

/-- the enum column object -/
abbrev enumCol (name : Str) (dbn : Option Str) (vals : List (Option Str)) (nn : Bool) (uq : Option Bool) (alt : Bool)
    (ds : Option Str) : Col := ⟨name, dbn, .enum vals, nn, uq, alt, ds⟩

theorem getlength_call (n : Nat) (self : Val) (a : Option Str) :
    callN prog ddlI (n + 1) (.meth C_SOEnumCol M__getlength) [self, optStr a] = .ok (.int (glen a)) := by
  cases a <;> pyxc [glen]

macro "enumeval" : tactic =>
  `(tactic| simp [pyddl, callX_succ, Fn.run, Fn.args, Block.exec, Stmt.exec, Expr.eval, Exprs.eval, Res.seq_norm,
      appendOf, setAttrOf, selfCls, pyFmt, fmtPos, fmtNamed, hasNamed, aget, commonFields,
      getlength_call, -res_SOEnumCol__getlength, extX, filterMapR, allInt, maxInt, allStr_map_fun, tyM, filterMapR_map, compStep, collectR_some,
      collectR_filter, allInt_map_int, maxInt_glen, anyEq_none_optStr, pyMax, typePieces, Ddl.Extracted.tables, joinStr,
      enumCheckGroup, wordParen, joinStr_eq_joinWith, litOfDb, Ddl.Extracted.enumLit, connDuring, *])

/-- sqlite / postgres / sybase / mssql: `_checkType(db)`; mysql: `ENUM(…)` -/
theorem enum_type (n : Nat) (T : Tables) (st : Style) (tb : Str) (c0 : Val) (vals : List (Option Str))
    (d : Dialect) (c : Caps)
    (name : Str) (dbn : Option Str) (nn : Bool) (uq : Option Bool) (alt : Bool) (ds : Option Str)
    (hd : d ≠ .firebird) (hd' : d ≠ .maxdb) (hne : d ≠ .mysql → vals ≠ []) :
    callN prog ddlI (n + 3) (.meth C_SOEnumCol (tyM d))
        [colV T st tb (connDuring d c c0) (enumCol name dbn vals nn uq alt ds)] =
      tyRes (typePieces TX d c ((enumCol name dbn vals nn uq alt ds).db st) (.enum vals)) := by
  cases d
  case firebird => exact absurd rfl hd
  case maxdb => exact absurd rfl hd'
  case mysql =>
    cases hc : vals.contains none
    · have hc' : none ∉ vals := by
        intro hx
        have : vals.contains none = true := by simpa using hx
        rw [hc] at this; cases this
      enumeval
      rw [enumLit_no_none _ _ hc]
    · have hc' : none ∈ vals := by simpa using hc
      enumeval
      rw [filter_isSome_map]
  all_goals
    have hne' := hne (by intro h; cases h)
    enumeval

/-- an EnumCol without values: `max()` of nothing raises -/
theorem enum_type_empty (n : Nat) (T : Tables) (st : Style) (tb : Str) (c0 : Val)
    (d : Dialect) (c : Caps)
    (name : Str) (dbn : Option Str) (nn : Bool) (uq : Option Bool) (alt : Bool) (ds : Option Str)
    (hd : d ≠ .maxdb) (hd' : d ≠ .mysql) :
    callN prog ddlI (n + 3) (.meth C_SOEnumCol (tyM d))
        [colV T st tb (connDuring d c c0) (enumCol name dbn [] nn uq alt ds)] = .exc .valueError := by
  cases d
  case maxdb => exact absurd rfl hd
  case mysql => exact absurd rfl hd'
  all_goals enumeval

theorem enum_type_maxdb (n : Nat) (T : Tables) (st : Style) (tb : Str) (c0 : Val) (vals : List (Option Str))
    (name : Str) (dbn : Option Str) (nn : Bool) (uq : Option Bool) (alt : Bool) (ds : Option Str) :
    callN prog ddlI (n + 3) (.meth C_SOEnumCol (tyM .maxdb))
        [colV T st tb c0 (enumCol name dbn vals nn uq alt ds)] = .exc .typeError := by
  enumeval

/-- Firebird: a pair (type, CHECK constraint) -/
theorem enum_type_firebird (n : Nat) (T : Tables) (st : Style) (tb : Str) (c0 : Val) (vals : List (Option Str))
    (name : Str) (dbn : Option Str) (nn : Bool) (uq : Option Bool) (alt : Bool) (ds : Option Str) (hne : vals ≠ []) :
    callN prog ddlI (n + 3) (.meth C_SOEnumCol (tyM .firebird))
        [colV T st tb c0 (enumCol name dbn vals nn uq alt ds)] =
      .ok (.tuple [.str (wordParen TX.enumVarchar.1 (natDigits (enumMaxLen vals))),
        .str (joinStr [32] [TX.enumCheck.1, enumCheckGroup TX ((enumCol name dbn vals nn uq alt ds).db st)
          (vals.map (enumLit (TX.enumLit .firebird)))])]) := by
  enumeval

end SqlObjVerif.DdlX
