import SqlObjVerif.Lemmas.DdlRead
import SqlObjVerif.Model.Ddl
/-! # C14 — from fragments to the skeleton of a whole CREATE TABLE text (generic in the item texts) -/
namespace SqlObjVerif.Ddl

/-! ### pieces, items, body -/

inductive All2 {α β} (R : α → β → Prop) : List α → List β → Prop where
  | nil : All2 R [] []
  | cons {a b as bs} : R a b → All2 R as bs → All2 R (a :: as) (b :: bs)

theorem fragL (bs : Bool) (ps : List Str) (ts : List (List Tok)) (h : All2 (Frag bs) ps ts) :
    ∀ s : St, Quiet s.mode → s.depth = 0 →
      Quiet (run bs s (spaced ps)).mode ∧ (run bs s (spaced ps)).depth = 0 ∧
        emitted (run bs s (spaced ps)).cur (run bs s (spaced ps)).out = ts.flatten.reverse ++ emitted s.cur s.out := by
  induction h with
  | nil => intro s hq hd; exact ⟨hq, hd, by simp [spaced, run]⟩
  | @cons p t ps ts hp _ ih =>
    intro s hq hd
    have e : spaced (p :: ps) = (32 :: p) ++ spaced ps := by simp [spaced]
    rw [e, run_append]
    obtain ⟨a1, a2, a3⟩ := hp s hq hd
    obtain ⟨b1, b2, b3⟩ := ih _ a1 a2
    refine ⟨b1, b2, ?_⟩
    rw [b3, a3]; simp

/-- an item, started right after the indentation -/
def ItemOK (bs : Bool) (it : Str) (toks : List Tok) : Prop :=
  ∀ out : List Tok,
    Quiet (run bs ⟨.top, 0, [], out⟩ it).mode ∧ (run bs ⟨.top, 0, [], out⟩ it).depth = 0 ∧
      emitted (run bs ⟨.top, 0, [], out⟩ it).cur (run bs ⟨.top, 0, [], out⟩ it).out = toks.reverse ++ out

theorem item_of_pieces (bs : Bool) (name : Str) (hn : ∀ c ∈ name, isPlain c = true) (hne : name ≠ [])
    (ps : List Str) (ts : List (List Tok)) (h : All2 (Frag bs) ps ts) :
    ItemOK bs (name ++ spaced ps) (.w name :: ts.flatten) := by
  intro out
  rw [run_append, run_plain_top bs _ _ name hn]
  obtain ⟨a1, a2, a3⟩ := fragL bs ps ts h ⟨.top, 0, name.reverse ++ [], out⟩ (Or.inl rfl) rfl
  refine ⟨a1, a2, ?_⟩
  rw [a3]
  simp only [List.append_nil, emitted_rev]
  cases name with
  | nil => exact absurd rfl hne
  | cons a l => simp [wordToks]

def joinComma : List (List Tok) → List Tok
  | [] => []
  | [a] => a
  | a :: b :: rest => a ++ .comma :: joinComma (b :: rest)

theorem step_blank' (bs : Bool) (s : St) (hq : Quiet s.mode) (hd : s.depth = 0) (c : Nat) (hc : isBlank c = true) :
    step bs s c = ⟨.top, 0, [], emitted s.cur s.out⟩ := by
  obtain ⟨m, d, cur, out⟩ := s
  simp only at hd; subst hd
  have h39 : c ≠ 39 := by intro h; subst h; simp [isBlank] at hc
  rcases hq with h | h <;> simp only at h <;> subst h <;> simp [step, stepTop, hc, h39]

theorem step_comma (bs : Bool) (s : St) (hq : Quiet s.mode) (hd : s.depth = 0) :
    step bs s 44 = ⟨.top, 0, [], .comma :: emitted s.cur s.out⟩ := by
  obtain ⟨m, d, cur, out⟩ := s
  simp only at hd; subst hd
  rcases hq with h | h <;> simp only at h <;> subst h <;> simp [step, stepTop, isBlank]

theorem run_blanks (bs : Bool) (s : St) (hq : Quiet s.mode) (hd : s.depth = 0) (l : Str) (hl : ∀ c ∈ l, isBlank c = true)
    (hne : l ≠ []) : run bs s l = ⟨.top, 0, [], emitted s.cur s.out⟩ := by
  induction l generalizing s with
  | nil => exact absurd rfl hne
  | cons c l ih =>
    rw [run_cons, step_blank' bs s hq hd c (hl c (by simp))]
    cases l with
    | nil => rfl
    | cons c2 l2 =>
      rw [ih ⟨.top, 0, [], emitted s.cur s.out⟩ (Or.inl rfl) rfl (fun x hx => hl x (by simp [hx])) (by simp)]
      simp [emitted]

structure FrameOK (T : Tables) : Prop where
  indent : (∀ c ∈ T.indent, isBlank c = true) ∧ T.indent ≠ []
  colSep : T.colSep = [44, 10]
  open_ : T.createTable.2.1 = [32, 40, 10]
  close : T.createTable.2.2 = [10, 41]
  pre : ∀ c ∈ T.createTable.1, c ≠ 40

theorem body_run (bs : Bool) (T : Tables) (hT : FrameOK T) (items : List Str) (toks : List (List Tok))
    (h : All2 (ItemOK bs) items toks) (hne : items ≠ []) :
    ∀ s : St, Quiet s.mode → s.depth = 0 →
      Quiet (run bs s (bodyItems T items)).mode ∧ (run bs s (bodyItems T items)).depth = 0 ∧
        emitted (run bs s (bodyItems T items)).cur (run bs s (bodyItems T items)).out
          = (joinComma toks).reverse ++ emitted s.cur s.out := by
  induction h with
  | nil => exact absurd rfl hne
  | @cons it tk its tks hi hrest ih =>
    intro s hq hd
    cases hrest with
    | nil =>
      simp only [bodyItems, joinComma]
      rw [run_append, run_blanks bs s hq hd T.indent hT.indent.1 hT.indent.2]
      exact hi _
    | @cons it2 tk2 its2 tks2 hi2 hrest2 =>
      simp only [bodyItems, joinComma] at ih ⊢
      rw [run_append, run_append, run_append, run_blanks bs s hq hd T.indent hT.indent.1 hT.indent.2, hT.colSep]
      obtain ⟨a1, a2, a3⟩ := hi (emitted s.cur s.out)
      generalize run bs ⟨.top, 0, [], emitted s.cur s.out⟩ it = r at a1 a2 a3
      have e1 : run bs r [44, 10] = ⟨.top, 0, [], .comma :: emitted r.cur r.out⟩ := by
        rw [run_cons, step_comma bs r a1 a2, run_cons, run_nil,
          step_blank' bs _ (Or.inl rfl) rfl 10 (by decide)]
        simp [emitted]
      rw [e1]
      obtain ⟨b1, b2, b3⟩ := ih (by simp) ⟨.top, 0, [], .comma :: emitted r.cur r.out⟩ (Or.inl rfl) rfl
      refine ⟨b1, b2, ?_⟩
      rw [b3, a3]
      simp [emitted]


theorem dropWhile_pre (pre rest : Str) (h : ∀ c ∈ pre, c ≠ 40) :
    (pre ++ 40 :: rest).dropWhile (· ≠ 40) = 40 :: rest := by
  induction pre with
  | nil => simp
  | cons c pre ih =>
    have hc : c ≠ 40 := h c (by simp)
    simp only [List.cons_append, List.dropWhile_cons, ne_eq, hc, not_false_eq_true, decide_true, if_true]
    exact ih (fun x hx => h x (by simp [hx]))

theorem tokens_createText (bs : Bool) (T : Tables) (hT : FrameOK T) (table : Str) (htab : ∀ c ∈ table, isPlain c = true)
    (items : List Str) (toks : List (List Tok)) (h : All2 (ItemOK bs) items toks) (hne : items ≠ []) :
    tokens bs (createText T table items) = joinComma toks := by
  have hb : body (createText T table items) = 10 :: (bodyItems T items ++ [10, 41]) := by
    unfold body createText
    rw [hT.open_, hT.close]
    have : T.createTable.1 ++ table ++ [32, 40, 10] ++ bodyItems T items ++ [10, 41]
        = (T.createTable.1 ++ table ++ [32]) ++ 40 :: (10 :: (bodyItems T items ++ [10, 41])) := by simp
    rw [this, dropWhile_pre]
    · rfl
    · intro c hc
      simp only [List.mem_append, List.mem_singleton] at hc
      rcases hc with (hc | hc) | hc
      · exact hT.pre c hc
      · have := htab c hc
        intro h40; subst h40; simp [isPlain] at this
      · subst hc; decide
  unfold tokens
  rw [hb, run_cons]
  have h0 : step bs init 10 = init := by simp [step, init, stepTop, isBlank, emitted]
  rw [h0, run_append]
  obtain ⟨a1, a2, a3⟩ := body_run bs T hT items toks h hne init (Or.inl rfl) rfl
  generalize run bs init (bodyItems T items) = r at a1 a2 a3
  have e : run bs r [10, 41] = ⟨.done, 0, [], emitted r.cur r.out⟩ := by
    rw [run_cons, step_blank' bs r a1 a2 10 (by decide), run_cons, run_nil]
    simp [step, stepTop, isBlank, emitted]
  rw [e]
  show (emitted [] (emitted r.cur r.out)).reverse = joinComma toks
  rw [a3]
  simp [init, emitted]

def commaFree (ts : List Tok) : Bool := ts.all (· != .comma)

theorem splitItems_ne_nil (l : List Tok) : splitItems l ≠ [] := by
  induction l with
  | nil => simp [splitItems]
  | cons t rest ih =>
    cases t <;> simp only [splitItems] <;> (try split) <;> simp

theorem splitItems_append (a l : List Tok) (ha : commaFree a = true) :
    splitItems (a ++ l) = (a ++ (splitItems l).headD []) :: (splitItems l).tail := by
  induction a with
  | nil =>
    cases h : splitItems l with
    | nil => exact absurd h (splitItems_ne_nil l)
    | cons i is => simp [h]
  | cons t a ih =>
    simp only [commaFree, List.all_cons, Bool.and_eq_true, bne_iff_ne, ne_eq] at ha
    have ih' := ih (by simpa [commaFree] using ha.2)
    cases t with
    | comma => exact absurd rfl ha.1
    | w s => simp only [List.cons_append, splitItems, ih']
    | grp => simp only [List.cons_append, splitItems, ih']
    | str => simp only [List.cons_append, splitItems, ih']

theorem splitItems_joinComma (toks : List (List Tok)) (hne : toks ≠ []) (h : ∀ t ∈ toks, commaFree t = true) :
    splitItems (joinComma toks) = toks := by
  induction toks with
  | nil => exact absurd rfl hne
  | cons a rest ih =>
    cases rest with
    | nil =>
      simp only [joinComma]
      have := splitItems_append a [] (h a (by simp))
      simpa [splitItems] using this
    | cons b rest2 =>
      simp only [joinComma]
      rw [splitItems_append a _ (h a (by simp))]
      simp only [splitItems, List.headD_cons, List.append_nil, List.tail_cons]
      rw [ih (by simp) (fun t ht => h t (by simp [ht]))]


/-! ### keyword segments -/

def SafeTok (t : Tok) : Bool :=
  t != .comma && !isW kwNOT t && !isW kwPRIMARY t && !isW kwUNIQUE t && !isW kwIDENTITY t

inductive Seg where
  | nn | uq | safe (ts : List Tok)

def Seg.toks : Seg → List Tok
  | .nn => [.w kwNOT, .w kwNULL]
  | .uq => [.w kwUNIQUE]
  | .safe ts => ts

def Seg.ok : Seg → Bool
  | .safe ts => ts.all SafeTok
  | _ => true

def Seg.isNN : Seg → Bool | .nn => true | _ => false
def Seg.isUQ : Seg → Bool | .uq => true | _ => false

theorem scanFlags_safe_cons (t : Tok) (rest : List Tok) (h : SafeTok t = true) :
    scanFlags (t :: rest) = scanFlags rest := by
  simp only [SafeTok, Bool.and_eq_true, Bool.not_eq_true', bne_iff_ne, ne_eq] at h
  obtain ⟨⟨⟨⟨_, h1⟩, h2⟩, h3⟩, h4⟩ := h
  simp [scanFlags, h1, h2, h3, h4]

theorem scanFlags_safe_append (ts rest : List Tok) (h : ts.all SafeTok = true) :
    scanFlags (ts ++ rest) = scanFlags rest := by
  induction ts with
  | nil => rfl
  | cons t ts ih =>
    simp only [List.all_cons, Bool.and_eq_true] at h
    rw [List.cons_append, scanFlags_safe_cons _ _ h.1, ih h.2]

theorem scanFlags_nn (rest : List Tok) :
    scanFlags (.w kwNOT :: .w kwNULL :: rest) = { scanFlags rest with notNull := true } := by
  have h1 : isW kwNOT (.w kwNOT) = true := by decide
  have h2 : isW kwNULL (.w kwNULL) = true := by decide
  have h3 : scanFlags (.w kwNULL :: rest) = scanFlags rest := scanFlags_safe_cons _ _ (by decide)
  rw [scanFlags]
  simp only [List.head?_cons, Option.getD_some, h1, h2, Bool.and_self, if_true, h3]

theorem scanFlags_uq (rest : List Tok) :
    scanFlags (.w kwUNIQUE :: rest) = { scanFlags rest with unique := true } := by
  have h1 : isW kwNOT (.w kwUNIQUE) = false := by decide
  have h2 : isW kwPRIMARY (.w kwUNIQUE) = false := by decide
  have h3 : isW kwUNIQUE (.w kwUNIQUE) = true := by decide
  rw [scanFlags]
  simp [h1, h2, h3]

theorem scanFlags_segs (segs : List Seg) (h : ∀ s ∈ segs, s.ok = true) :
    scanFlags (segs.flatMap Seg.toks) = ⟨segs.any Seg.isNN, segs.any Seg.isUQ, .none⟩ := by
  induction segs with
  | nil => rfl
  | cons s segs ih =>
    have ih' := ih (fun x hx => h x (by simp [hx]))
    have hs := h s (by simp)
    simp only [List.flatMap_cons, List.any_cons]
    cases s with
    | nn => simp only [Seg.toks, List.cons_append, List.nil_append, scanFlags_nn, ih', Seg.isNN, Seg.isUQ]; simp
    | uq => simp only [Seg.toks, List.cons_append, List.nil_append, scanFlags_uq, ih', Seg.isNN, Seg.isUQ]; simp
    | safe ts =>
      simp only [Seg.ok] at hs
      simp only [Seg.toks, scanFlags_safe_append _ _ hs, ih', Seg.isNN, Seg.isUQ]; simp

theorem commaFree_segs (segs : List Seg) (h : ∀ s ∈ segs, s.ok = true) :
    commaFree (segs.flatMap Seg.toks) = true := by
  simp only [commaFree, List.all_flatMap, List.all_eq_true]
  intro s hs
  have := h s hs
  cases s with
  | nn => decide
  | uq => decide
  | safe ts =>
    simp only [Seg.ok, List.all_eq_true] at this
    simp only [Seg.toks]
    intro t ht
    have := this t ht
    simp only [SafeTok, Bool.and_eq_true] at this
    exact this.1.1.1.1

/-- a rendered piece together with the segment the reader sees in it -/
def PieceSeg (bs : Bool) (p : Str) (s : Seg) : Prop := Frag bs p s.toks ∧ s.ok = true

structure ItemSpec where
  name : Str
  nn : Bool
  uq : Bool
  key : KeyMark

def ItemSpec.skel (sp : ItemSpec) : ColSkel := ⟨sp.name, sp.nn, sp.uq, sp.key⟩

/-- what is established for the text of every column (and of the id column): the reader sees one or
    more comma-separated items in it, exactly one of which is a column, with the expected skeleton -/
def ColItems (bs : Bool) (text : Str) (sp : ItemSpec) : Prop :=
  ∃ tl : List (List Tok), ItemOK bs text (joinComma tl) ∧ tl ≠ [] ∧ (∀ t ∈ tl, commaFree t = true) ∧
    tl.filterMap itemSkel = [sp.skel]

theorem all2_frag_of_pieceSeg (bs : Bool) (ps : List Str) (segs : List Seg) (h : All2 (PieceSeg bs) ps segs) :
    All2 (Frag bs) ps (segs.map Seg.toks) ∧ ∀ s ∈ segs, s.ok = true := by
  induction h with
  | nil => exact ⟨.nil, by simp⟩
  | cons hp _ ih =>
    refine ⟨.cons hp.1 ih.1, ?_⟩
    intro s hs
    simp only [List.mem_cons] at hs
    rcases hs with rfl | hs
    · exact hp.2
    · exact ih.2 s hs

theorem itemSkel_segs (name : Str) (hc : isTableConstraintWord name = false) (segs : List Seg)
    (hok : ∀ s ∈ segs, s.ok = true) :
    itemSkel (.w name :: segs.flatMap Seg.toks) = some ⟨name, segs.any Seg.isNN, segs.any Seg.isUQ, .none⟩ := by
  simp [itemSkel, hc, scanFlags_segs segs hok]

theorem colitems_of_pieces (bs : Bool) (name : Str) (hn : ∀ c ∈ name, isPlain c = true) (hne : name ≠ [])
    (hc : isTableConstraintWord name = false)
    (ps : List Str) (segs : List Seg) (h : All2 (PieceSeg bs) ps segs) :
    ColItems bs (name ++ spaced ps) ⟨name, segs.any Seg.isNN, segs.any Seg.isUQ, .none⟩ := by
  obtain ⟨hf, hok⟩ := all2_frag_of_pieceSeg bs ps segs h
  refine ⟨[.w name :: segs.flatMap Seg.toks], ?_, by simp, ?_, ?_⟩
  · have := item_of_pieces bs name hn hne ps _ hf
    simpa [joinComma, List.flatMap_def] using this
  · intro t ht
    simp only [List.mem_singleton] at ht
    subst ht
    have := commaFree_segs segs hok
    simpa [commaFree] using this
  · simp [itemSkel_segs name hc segs hok, ItemSpec.skel]

theorem joinComma_append (a b : List (List Tok)) (ha : a ≠ []) (hb : b ≠ []) :
    joinComma (a ++ b) = joinComma a ++ .comma :: joinComma b := by
  induction a with
  | nil => exact absurd rfl ha
  | cons x a ih =>
    cases a with
    | nil =>
      cases b with
      | nil => exact absurd rfl hb
      | cons y b => simp [joinComma]
    | cons x2 a2 =>
      have := ih (by simp)
      simp only [List.cons_append, joinComma] at this ⊢
      rw [this]; simp

theorem joinComma_flatten (tls : List (List (List Tok))) (h : ∀ tl ∈ tls, tl ≠ []) :
    joinComma (tls.map joinComma) = joinComma tls.flatten := by
  induction tls with
  | nil => rfl
  | cons tl tls ih =>
    have ih' := ih (fun x hx => h x (by simp [hx]))
    cases tls with
    | nil => simp [joinComma]
    | cons tl2 tls2 =>
      have hne : (tl2 :: tls2).flatten ≠ [] := by
        have := h tl2 (by simp)
        cases tl2 with
        | nil => exact absurd rfl this
        | cons a b => simp
      simp only [List.map_cons, joinComma, List.flatten_cons] at ih' ⊢
      rw [joinComma_append tl _ (h tl (by simp)) (by simpa using hne)]
      rw [← ih']

theorem skeleton_generic (bs : Bool) (T : Tables) (hT : FrameOK T) (table : Str) (htab : ∀ c ∈ table, isPlain c = true)
    (texts : List Str) (specs : List ItemSpec) (hne : texts ≠ [])
    (h : All2 (ColItems bs) texts specs) :
    skeleton bs (createText T table texts) = specs.map ItemSpec.skel := by
  have hex : ∃ tls : List (List (List Tok)), All2 (ItemOK bs) texts (tls.map joinComma) ∧ (∀ tl ∈ tls, tl ≠ []) ∧
      (∀ tl ∈ tls, ∀ t ∈ tl, commaFree t = true) ∧ tls.flatten.filterMap itemSkel = specs.map ItemSpec.skel := by
    clear hne
    induction h with
    | nil => exact ⟨[], .nil, by simp, by simp, rfl⟩
    | @cons t sp ts sps hc _ ih =>
      obtain ⟨tls, a1, a2, a3, a4⟩ := ih
      obtain ⟨tl, b1, b2, b3, b4⟩ := hc
      refine ⟨tl :: tls, .cons b1 a1, ?_, ?_, ?_⟩
      · intro x hx
        simp only [List.mem_cons] at hx
        rcases hx with rfl | hx
        · exact b2
        · exact a2 x hx
      · intro x hx
        simp only [List.mem_cons] at hx
        rcases hx with rfl | hx
        · exact b3
        · exact a3 x hx
      · simp [List.filterMap_append, b4, a4]
  obtain ⟨tls, a1, a2, a3, a4⟩ := hex
  unfold skeleton
  rw [tokens_createText bs T hT table htab texts _ a1 hne, joinComma_flatten tls a2]
  have hfl : tls.flatten ≠ [] := by
    cases tls with
    | nil => cases a1; exact absurd rfl hne
    | cons tl tls2 =>
      have := a2 tl (by simp)
      cases tl with
      | nil => exact absurd rfl this
      | cons x y => simp
  rw [splitItems_joinComma _ hfl, a4]
  intro t ht
  simp only [List.mem_flatten] at ht
  obtain ⟨tl, h1, h2⟩ := ht
  exact a3 tl h1 t h2

end SqlObjVerif.Ddl
