import SqlObjVerif.Lemmas.EvMainXSetLazy
/-!
C19 translator tie, part 6: `set` as translated, in any world (`setX_run`).
-/
namespace SqlObjVerif.Events
open SqlObjVerif.PyEv
open SqlObjVerif.PyEv.Extracted
open SqlObjVerif.PyMain (R mapR ofOpt dget dhas dset dupdate dictOf sortByKey insByKey Exc FnKind)

theorem put_nodup (kw : Kw) (k : Key) (v : Val) (h : (kw.map (·.1)).Nodup) : ((Kw.put kw k v).map (·.1)).Nodup := by
  unfold Kw.put
  split
  · have : (kw.map fun p => if p.1 = k then (k, v) else p).map (·.1) = kw.map (·.1) := by
      rw [List.map_map]; apply List.map_congr_left; intro e _; by_cases he : e.1 = k <;> simp [he]
    rw [this]; exact h
  · next hn =>
    have hk : k ∉ kw.map (·.1) := fun hm => hn (by
      unfold Kw.get; rw [← dhas_eq_lookup]; exact (dhas_iff k kw).mpr hm)
    rw [List.map_append, List.nodup_append]
    refine ⟨h, by simp, ?_⟩
    intro a ha b hb hab
    simp only [List.map_cons, List.map_nil, List.mem_singleton] at hb
    subst hb; subst hab
    exact hk ha

theorem actKw_nodup (sig : Sig) (a : Act) (kw : Kw) (h : (kw.map (·.1)).Nodup) : ((actKw sig a kw).map (·.1)).Nodup := by
  unfold actKw
  split
  · cases a with
    | setKey k v => exact put_nodup kw k v h
    | delKey k => exact keys_filter_nodup _ _ h
    | _ => exact h
  · exact h

theorem deliver_nodup (sig : Sig) (id : Option Nat) : ∀ (L : List Listener) (i : Nat) (kw : Kw) (pf : List Nat),
    (kw.map (·.1)).Nodup → (((deliver sig id i L kw pf).1).map (·.1)).Nodup := by
  intro L
  induction L with
  | nil => intro i kw pf h; exact h
  | cons l L ih =>
    intro i kw pf h
    rw [deliver]
    split
    · exact ih _ _ _ (actKw_nodup sig l.act kw h)
    · exact ih _ _ _ h


theorem setProg_split : setProg = .cons (.ite (.and (.not (.truthy (.flag .creating))) (.and (.not (.truthy .sigSuppress)) (.not (.truthy (.var 0)))))
    (.cons (.send .update [.self, (.dict (.loc 0))]) .nil) .nil) (tailOf setProg) := rfl

theorem tailOf_cons (s : Stmt) (r : Block) : tailOf (.cons s r) = r := rfl

theorem toOutcome_seq_norm (st : St) (k : St → Res) : ((Res.norm st).seq k).toOutcome = (k st).toOutcome := by rw [seq_norm]

/-- the `RowUpdateSignal` of `set` / `_SO_setValue`: sent unless the object is being created or the flag is set -/
def setSig (w : World) (kw : Kw) : Kw × List Nat × List Entry :=
  if (!w.o.creating && !w.o.sigSuppress) = true then deliver .update w.o.id 0 w.c.listeners kw [] else (kw, [], [])

def afterSig (w : World) (kw : Kw) : World := { w with log := w.log ++ tagLog w.lvl (setSig w kw).2.2 }

theorem setSig_nodup (w : World) (kw : Kw) (hnd : (kw.map (·.1)).Nodup) : (((setSig w kw).1).map (·.1)).Nodup := by
  unfold setSig
  split
  · exact deliver_nodup _ _ _ _ _ _ hnd
  · exact hnd

theorem setX_head (fuel : Nat) (w : World) (kw : Kw) :
    setX fuel w [] (kwPV kw) = (Block.exec (evOps fuel) noCalls
      { w := afterSig w kw, vars := envOfList [.bool false], lists := Env.empty, dicts := Env.empty.put 0 (kwPV (setSig w kw).1) }
      (tailOf setProg)).toOutcome := by
  unfold setX
  rw [setProg_split]
  simp only [PyEv.run, Block.exec]
  obtain ⟨c, lvl, rows, nextId, ⟨id, vals, cv, creating, dirty, obsolete, sup, lock⟩, postponed, log⟩ := w
  cases creating <;> cases sup <;>
    evwith [fillArgs, set_nargs, set_defaults, setSig, afterSig, put_put, tailOf_cons]

/-- what `self.set(**kw)` does in ANY world: the `RowUpdateSignal` (unless creating / suppressed), then one of the two branches -/
theorem setX_run (fuel : Nat) (w : World) (kw : Kw) (hnd : (kw.map (·.1)).Nodup) :
    ((w.o.creating || w.c.lazy) = true → ∀ cv0, w.o.cv = some cv0 →
        ∃ vals', setX fuel w [] (kwPV kw) = lazyOut (afterSig w kw) cv0 (setSig w kw).1 vals')
    ∧ ((w.o.creating || w.c.lazy) = false → w.o.lock = false → ∀ i, w.o.id = some i →
        ∃ vals', setX fuel w [] (kwPV kw) = eagerOut (afterSig w kw) i (setSig w kw).1 vals') := by
  rw [setX_head]
  refine ⟨fun hlz cv0 hcv => ?_, fun hlz hlk i hid => ?_⟩
  · exact set_tail_lazy fuel _ _ cv0 (by simp) (setSig_nodup w kw hnd) hlz hcv
  · have h := Bool.or_eq_false_iff.mp hlz
    exact set_tail_eager fuel _ _ i (by simp) (setSig_nodup w kw hnd) h.1 h.2 hlk hid

end SqlObjVerif.Events
