import SqlObjVerif.Lemmas.DdlXWCreate
/-!
# C14 translation (stateful part) — the connection classes' `addColumn` / `delColumn`: the statements they issue
-/
namespace SqlObjVerif.DdlX
open SqlObjVerif.Ddl
open SqlObjVerif.PyDdl hiding Str isUpperC
open SqlObjVerif.PyDdl.Extracted

theorem callLog_succ (n : Nat) (w : List Str) (c : Callee) (args : List Val) (f : Fn) (h : prog.resolve c = some f) :
    callNW prog ddlI ELog (n + 1) w c args = f.runW (callNW prog ddlI ELog n) (callN prog ddlI n) IX ELog w args :=
  callNW_succ prog ddlI ELog n w c args f h

@[simp] theorem ELog_query (log : List Str) (r : Val) (s : Str) :
    ELog.eff log r "query" [.str s] = some (.ok .none, log ++ [s]) := rfl
@[simp] theorem ELog_effMeths : ELog.effMeths = effMeths := rfl

/-- the statements of `addColumn`: `ALTER TABLE t ADD [COLUMN] <column definition>` (+ `VACUUM` on SQLite) -/
def addColumnStmts (d : Dialect) (t text : Str) : List Str :=
  match d with
  | .sqlite => [lit "ALTER TABLE " ++ t ++ lit " ADD COLUMN " ++ text, lit "VACUUM"]
  | .mysql | .postgres | .sybase => [lit "ALTER TABLE " ++ t ++ lit " ADD COLUMN " ++ text]
  | _ => [lit "ALTER TABLE " ++ t ++ lit " ADD " ++ text]

/-- the statement of `delColumn` on every connection class but SQLite's (which re-creates the table) -/
def delColumnStmts (d : Dialect) (t db : Str) : List Str :=
  match d with
  | .firebird => [lit "ALTER TABLE " ++ t ++ lit " DROP " ++ db]
  | _ => [lit "ALTER TABLE " ++ t ++ lit " DROP COLUMN " ++ db]

def addColumnFn : Dialect → Fn
  | .sqlite => SQLiteConnection__addColumn_fn | .mysql => MySQLConnection__addColumn_fn
  | .postgres => PostgresConnection__addColumn_fn | .firebird => FirebirdConnection__addColumn_fn
  | .mssql => MSSQLConnection__addColumn_fn | .sybase => SybaseConnection__addColumn_fn
  | .maxdb => MaxdbConnection__addColumn_fn

set_option maxHeartbeats 1000000 in
/-- **`<Connection>.addColumn(tableName, column)` translated issues exactly `addColumnStmts`**, the column definition
    being `colText` of the hand model (through `col.<dialect>CreateSQL`) -/
theorem addColumn_log (n : Nat) (d : Dialect) (c : Caps) (st : Style) (tb : Str) (c0 : Val) (col : Col) (t text : Str)
    (log : List Str) (ht : colText TX d c st col = some text) :
    callNW prog ddlI ELog (n + 6) log (.meth (connCls d) M_addColumn) [connV d c, .str t, colV TX st tb c0 col] =
      (.ok .none, log ++ addColumnStmts d t text) := by
  have hr : prog.resolve (.meth (connCls d) M_addColumn) = some (addColumnFn d) := by cases d <;> rfl
  rw [callLog_succ _ _ _ _ _ hr]
  have hc := col_createSQL n st tb c0 col d c
  rw [ht] at hc
  simp only [agrees] at hc
  cases d <;> simp only [csM, csArgs] at hc <;>
    pyw [addColumnFn, addColumnStmts, lit,
      SQLiteConnection__addColumn_fn, SQLiteConnection__addColumn, SQLiteConnection__addColumn_s0,
      SQLiteConnection__addColumn_s1, MySQLConnection__addColumn_fn, MySQLConnection__addColumn,
      MySQLConnection__addColumn_s0, PostgresConnection__addColumn_fn, PostgresConnection__addColumn,
      PostgresConnection__addColumn_s0, FirebirdConnection__addColumn_fn, FirebirdConnection__addColumn,
      FirebirdConnection__addColumn_s0, MSSQLConnection__addColumn_fn, MSSQLConnection__addColumn,
      MSSQLConnection__addColumn_s0, SybaseConnection__addColumn_fn, SybaseConnection__addColumn,
      SybaseConnection__addColumn_s0, MaxdbConnection__addColumn_fn, MaxdbConnection__addColumn,
      MaxdbConnection__addColumn_s0]

def delColumnFn : Dialect → Fn
  | .sqlite => SQLiteConnection__delColumn_fn | .mysql => MySQLConnection__delColumn_fn
  | .postgres => PostgresConnection__delColumn_fn | .firebird => FirebirdConnection__delColumn_fn
  | .mssql => MSSQLConnection__delColumn_fn | .sybase => SybaseConnection__delColumn_fn
  | .maxdb => MaxdbConnection__delColumn_fn

/-- **`<Connection>.delColumn(sqlmeta, column)` translated issues exactly `delColumnStmts`** (every class but SQLite's) -/
theorem delColumn_log (n : Nat) (d : Dialect) (hd : d ≠ .sqlite) (c : Caps) (decl : Decl) (c0 : Val) (x : ClsX)
    (col : Col) (log : List Str) :
    callNW prog ddlI ELog (n + 1) log (.meth (connCls d) M_delColumn)
        [connV d c, metaV decl c0 x, colV TX decl.style decl.tableName c0 col] =
      (.ok .none, log ++ delColumnStmts d decl.tableName (col.db decl.style)) := by
  have hr : prog.resolve (.meth (connCls d) M_delColumn) = some (delColumnFn d) := by cases d <;> rfl
  rw [callLog_succ _ _ _ _ _ hr]
  have h1 := aget_kindFields_common TX col.kind "dbName" (by simp)
  cases d
  case sqlite => exact absurd rfl hd
  all_goals
    pyw [delColumnFn, delColumnStmts, lit, commonFields,
      MySQLConnection__delColumn_fn, MySQLConnection__delColumn, MySQLConnection__delColumn_s0,
      PostgresConnection__delColumn_fn, PostgresConnection__delColumn, PostgresConnection__delColumn_s0,
      FirebirdConnection__delColumn_fn, FirebirdConnection__delColumn, FirebirdConnection__delColumn_s0,
      MSSQLConnection__delColumn_fn, MSSQLConnection__delColumn, MSSQLConnection__delColumn_s0,
      SybaseConnection__delColumn_fn, SybaseConnection__delColumn, SybaseConnection__delColumn_s0,
      MaxdbConnection__delColumn_fn, MaxdbConnection__delColumn, MaxdbConnection__delColumn_s0]

/-! ### SQLite's `delColumn`: the table is re-created — and its indexes are not -/

/-- a class `t(id, a)` with an index `i` on `a`, after `b` has been taken off the column list -/
def witDecl : Decl :=
  ⟨[84], .under, false, some [116], none, false, .none, [⟨[97], none, .int .int 0 false false, false, none, false, none⟩],
    [⟨[105], false, [0]⟩], []⟩

def witVictim : Col := ⟨[98], none, .int .int 0 false false, false, none, false, none⟩

def witCat : Cat := ⟨[[116]], [([116], [105])]⟩

/-- the translated `SQLiteConnection.delColumn` (→ `recreateTableWithoutColumn`: RENAME, CREATE TABLE, INSERT … SELECT,
    DROP TABLE of the renamed original) run against the catalogue whose reader follows the RENAME: the table is back
    under its name, the index is gone -/
theorem delColumn_witness :
    (callNW prog ddlI EX2 12 witCat (.meth C_SQLiteConnection M_delColumn)
      [connV .sqlite ⟨false, false⟩, metaV witDecl .none ⟨[], .none⟩, colV TX .under [116] .none witVictim]) =
      (.ok .none, ⟨[[116]], []⟩) := by
  rfl

end SqlObjVerif.DdlX
