import SqlObjVerif.Lemmas.VersionXGet
/-!
The translated `Version.__getattr__` and `Version.nextVersion` (PyVersion programs regenerated from /repo on every run).
-/
namespace SqlObjVerif.Version
open SqlObjVerif.Events
open SqlObjVerif.PyVer
open SqlObjVerif.PyVer.Extracted

/-- how an attribute read ends as the result of a method that returns it -/
def retOf (w : XW) (ps : List PVal) : R PVal → ProcRes XW
  | .ok v => .ret w v ps
  | .exc e => .exc w e
  | .stuck => .stuck

/-- **`Version.__getattr__` as translated**: a name normal lookup did not find is read from the master instance on the
    version's own connection -/
theorem getattrX_eq (X : Ctx) (w : XW) (d vid : Nat) (v : VRow) (n : String) (hv : findV (w.S d) vid = some v) :
    getattrX X w d vid (.str n) = retOf w [.str n] (xAttr X w (.inst d 0 v.master) n) := by
  unfold getattrX
  simp only [getattrProg, getattr_nlocals]
  have hm : xAttr X w (.inst d 1 vid) "master" = .ok (.inst d 0 v.master) := by simp [xAttr, hv]
  have hd : xAttr X w (.inst d 1 vid) "__dict__" = .ok (.ref 2 vid) := by simp [xAttr]
  simp [PyVer.run, Block.exec, Stmt.exec, Cond.eval, Expr.eval, Env.get, hm, hd, xContains]
  cases xAttr X w (.inst d 0 v.master) n <;> simp [retOf, paramsOf]

/-- the clause `nextVersion` selects with -/
def nextClause (m vid : Nat) : PVal :=
  .obj "AND" (.obj "==" (.obj "field" (.cls 1) (.str "masterID")) (.nat m)) (.obj ">" (.obj "field" (.cls 1) (.str "id")) (.nat vid))

theorem nextClause_holds (r : VRow) (m vid : Nat) : clauseHolds r (nextClause m vid) = (decide (r.master = m) && decide (vid < r.vid)) := by
  by_cases h : r.master = m
  · subst h; simp [nextClause, clauseHolds]
  · have h' : ¬ m = r.master := fun e => h e.symm
    simp [nextClause, clauseHolds, h, h']

/-- **`Version.nextVersion` as translated**: the version of the same master with the next larger id, else the master —
    looked up through the version CLASS's connection `k` (`self.select(…)` passes no `connection=`), the result of the
    fall-back `self.master` being on the version's own connection -/
theorem nextVersionX_eq (X : Ctx) (w : XW) (d vid k : Nat) (v : VRow) (hv : findV (w.S d) vid = some v)
    (hk : (withConn X w).vconn = .conn k) :
    nextVersionX X (.inst d 1 vid) w = .ret (withConn X w)
      (match ((w.S k).versions.filter fun r => decide (r.master = v.master) && decide (vid < r.vid)).head? with
       | some r => .inst k 1 r.vid
       | none => .inst d 0 v.master) [] := by
  have hsel := selectX_eq X w (nextClause v.master vid) .nil
    (.dictv (body [("orderBy", .obj "field" (.cls 1) (.str "id"))])) [] rfl
  have hv' : findV ((withConn X w).S d) vid = some v := by rw [withConn_S]; exact hv
  simp only [body, List.map_cons, List.map_nil, PyVer.Val.ofList] at hsel
  unfold nextVersionX
  simp only [nextVersionProg, nextVersion_nlocals, nextClause] at *
  vxwith [calls1, bindSelect, cmpVal, isFld, CmpOp.name, PyVer.Val.ofList, vdUpdate, body, selRows, selConn, selClause, vdGet, xGetItem]
  have hch : ∀ r : VRow, clauseHolds r (.obj "AND" (.obj "==" (.obj "field" (.cls 1) (.str "masterID")) (.nat v.master))
      (.obj ">" (.obj "field" (.cls 1) (.str "id")) (.nat vid))) = (decide (r.master = v.master) && decide (vid < r.vid)) :=
    fun r => by have := nextClause_holds r v.master vid; simpa [nextClause] using this
  simp only [hch, withConn_S, ← List.head?_eq_getElem?, List.head?_filter]
  cases hf : List.find? (fun r => decide (r.master = v.master) && decide (vid < r.vid)) (w.S k).versions with
  | none =>
    have hn : ¬ ∃ x, x ∈ (w.S k).versions ∧ (decide (x.master = v.master) && decide (vid < x.vid)) = true := by
      rintro ⟨x, hx, hp⟩
      exact absurd hp (by simpa using (List.find?_eq_none.mp hf) x hx)
    simp only [Bool.and_eq_true, decide_eq_true_eq] at hn
    simp [hn, paramsOf]
  | some r =>
    have hs : ∃ x, x ∈ (w.S k).versions ∧ (decide (x.master = v.master) && decide (vid < x.vid)) = true :=
      ⟨r, List.mem_of_find?_eq_some hf, by have := List.find?_some hf; exact this⟩
    simp only [Bool.and_eq_true, decide_eq_true_eq] at hs
    simp [hs, paramsOf]

end SqlObjVerif.Version
