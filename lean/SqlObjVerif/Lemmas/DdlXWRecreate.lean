import SqlObjVerif.Lemmas.DdlXWCol
/-!
# C14 translation (stateful part) — SQLite's `delColumn` → `recreateTableWithoutColumn`: the statements it issues
-/
namespace SqlObjVerif.DdlX
open SqlObjVerif.Ddl
open SqlObjVerif.PyDdl hiding Str isUpperC
open SqlObjVerif.PyDdl.Extracted

@[simp] theorem clsRes_connV_log (w : List Str) (d : Dialect) (c : Caps) (k : Nat → R Val × List Str) :
    clsRes w (connV d c) k = k (connCls d) := rfl

@[simp] theorem ELog_join (log : List Str) (r : Val) (as : List Val) : ELog.eff log r "join" as = none := rfl

theorem aget_kindFields_name (T : Tables) (k : Kind) : aget "name" (kindFields T k) = none := by cases k <;> rfl
theorem aget_kindFields_dbName (T : Tables) (k : Kind) : aget "dbName" (kindFields T k) = none := by cases k <;> rfl

theorem collectR_ite_neg {α : Type} (q : α → Prop) (inst : ∀ a, Decidable (q a)) (X : α → R (Option Val))
    (l : List α) :
    collectR (fun a => @ite _ (q a) (inst a) (R.ok none) (X a)) l =
      collectR X (l.filter fun a => !@decide (q a) (inst a)) := by
  induction l with
  | nil => rfl
  | cons a l ih =>
    by_cases hq : q a
    · rw [collectR, if_pos hq, ih, List.filter_cons_of_neg (by simp [hq])]
      cases collectR X (l.filter fun a => !@decide (q a) (inst a)) <;> simp [consOpt]
    · rw [collectR, if_neg hq, ih, List.filter_cons_of_pos (by simp [hq]), collectR]

@[simp] theorem metaV_idName (I : Iface) (decl : Decl) (c0 : Val) (x : ClsX) :
    attrOf I (metaV decl c0 x) "idName" = .ok (.str decl.idCol) := rfl
@[simp] theorem metaV_columnList (I : Iface) (decl : Decl) (c0 : Val) (x : ClsX) :
    attrOf I (metaV decl c0 x) "columnList" = .ok (.list (decl.cols.map (colV TX decl.style decl.tableName c0))) := rfl

/-- `SQLiteConnection._createIDColumn(sqlmeta)` on the sqlmeta object itself -/
theorem sqlite_createIDColumn_meta (n : Nat) (c : Caps) (decl : Decl) (c0 : Val) (x : ClsX) :
    callN prog ddlI (n + 1) (.meth C_SQLiteConnection M__createIDColumn) [connV .sqlite c, metaV decl c0 x] =
      resS (idText TX .sqlite decl) := by
  obtain ⟨cn, sty, lid, tbl, idn, ids, sz, cols, ixs, js⟩ := decl
  cases ids <;> cases sz <;> ideval

/-- the columns that stay: those whose attribute name differs from the deleted column's -/
def keepCol (victim : Col) (k : Col) : Bool := !(k.attr == victim.attr)

/-- the four statements of `recreateTableWithoutColumn` -/
def recreateStmts (decl : Decl) (i : Str) (ts : List Str) : List Str :=
  let t := decl.tableName
  let orig := t ++ lit "_ORIGINAL"
  let cols := joinWith (lit ", ") (decl.idCol :: decl.cols.map (Col.db decl.style))
  [lit "ALTER TABLE " ++ t ++ lit " RENAME TO " ++ orig,
   createText TX t (i :: ts),
   lit "INSERT INTO " ++ t ++ lit " (" ++ cols ++ lit ") SELECT " ++ cols ++ lit " FROM " ++ orig,
   lit "DROP TABLE " ++ orig]

set_option maxHeartbeats 2000000 in
/-- **`SQLiteConnection.delColumn(sqlmeta, column)` translated issues exactly `recreateStmts`**: RENAME the table away,
    CREATE TABLE under the old name with the key column and the definitions (`colText`) of the columns of
    `sqlmeta.columnList` other than the deleted one, copy the rows (`INSERT … SELECT` over the key and ALL columns of
    `columnList`), DROP the renamed original — and no index statement -/
theorem sqlite_delColumn_log (n : Nat) (c : Caps) (decl : Decl) (c0 : Val) (x : ClsX) (victim : Col) (i : Str)
    (ts : List Str) (log : List Str) (hi : idText TX .sqlite decl = some i)
    (hts : allSome ((decl.cols.filter (keepCol victim)).map (colText TX .sqlite c decl.style)) = some ts) :
    callNW prog ddlI ELog (n + 9) log (.meth C_SQLiteConnection M_delColumn)
        [connV .sqlite c, metaV decl c0 x, colV TX decl.style decl.tableName c0 victim] =
      (.ok .none, log ++ recreateStmts decl i ts) := by
  rw [callLog_succ _ _ _ _ _ res_SQLiteConnection_delColumn]
  have hid : callN prog ddlI (n + 7) (.meth (connCls .sqlite) M__createIDColumn) [connV .sqlite c, metaV decl c0 x] =
      .ok (.str i) := by
    rw [show connCls .sqlite = C_SQLiteConnection from rfl, sqlite_createIDColumn_meta (n + 6), hi]; rfl
  have hcols := collect_cols
    (fun col => callN prog ddlI (n + 7) (.meth (connCls .sqlite) M_createColumn)
      [connV .sqlite c, .none, colV TX decl.style decl.tableName c0 col])
    (colText TX .sqlite c decl.style) (decl.cols.filter (keepCol victim))
    (fun col _ => by rw [createColumn_fwd (n + 6)]; exact col_createSQL (n + 1) decl.style decl.tableName c0 col .sqlite c)
  rw [hts] at hcols
  dsimp only at hcols
  have hfil : decl.cols.filter (fun a => !decide (a.attr = victim.attr)) = decl.cols.filter (keepCol victim) := by
    congr 1; funext a; by_cases h : a.attr = victim.attr <;> simp [keepCol, h]
  have hkn := aget_kindFields_name
  have hkd := aget_kindFields_dbName
  have hrec : callNW prog ddlI ELog (n + 8) log (.meth C_SQLiteConnection M_recreateTableWithoutColumn)
      [connV .sqlite c, metaV decl c0 x, colV TX decl.style decl.tableName c0 victim] =
      (.ok .none, log ++ recreateStmts decl i ts) := by
    rw [callLog_succ _ _ _ _ _ res_SQLiteConnection_recreateTableWithoutColumn]
    pyw [SQLiteConnection__recreateTableWithoutColumn_fn, SQLiteConnection__recreateTableWithoutColumn,
      SQLiteConnection__recreateTableWithoutColumn_s0, SQLiteConnection__recreateTableWithoutColumn_s1,
      SQLiteConnection__recreateTableWithoutColumn_s2, filterMapR_map, compStep, commonFields]
    rw [collectR_ite_neg, hfil, hcols]
    pyw [SQLiteConnection__recreateTableWithoutColumn_s3, SQLiteConnection__recreateTableWithoutColumn_s4,
      SQLiteConnection__recreateTableWithoutColumn_s5, SQLiteConnection__recreateTableWithoutColumn_s6,
      SQLiteConnection__recreateTableWithoutColumn_s7]
    simp only [show Val.str i :: List.map Val.str ts = List.map Val.str (i :: ts) from rfl, filterMapR_map]
    pyw [compStep, collectR_some, allStr_map_fun, commonFields, filterMapR_map]
    rw [recreateStmts, createText, bodyItems_eq_join]
    simp [lit, ← joinStr_eq_joinWith, Ddl.Extracted.tables]
  pyw [SQLiteConnection__delColumn_fn, SQLiteConnection__delColumn, SQLiteConnection__delColumn_s0, connCls]

end SqlObjVerif.DdlX
