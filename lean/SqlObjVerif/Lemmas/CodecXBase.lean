import SqlObjVerif.Model.CodecX
import SqlObjVerif.Lemmas.CodecXAttr
/-!
# CodecX — evaluation machinery for the translated validators

Payload-independent cases (`int i`, `bytes b`, a date/time record, …: the control flow does not look at the payload)
are closed by `rfl`: the kernel runs the interpreter on the translated program.  Payload-dependent cases (`floatClass t`,
`vals.contains s`, `intText s`, the text of a date) are evaluated with `pyx` / `pyxw [facts]` (simp with the set `pyxs`).
-/
namespace SqlObjVerif.PyCodec

open SqlObjVerif.Codec (Str PyVal FTok)

theorem ofArgs3 (a b c : Val) : Env.ofArgs [a, b, c] = ((Env.empty.put 2 c).put 1 b).put 0 a := by
  funext y
  match y with
  | 0 => rfl
  | 1 => rfl
  | 2 => rfl
  | y + 3 => simp [Env.ofArgs, Env.put, Env.empty]

@[simp] theorem empty_apply (y : Nat) : Env.empty y = Option.none := rfl

attribute [pyxs] runV run Block.exec Stmt.exec Handlers.exec Expr.eval Exprs.eval ofArgs3 selfV stateV
  iface globOf xGlob Extracted.py3Names List.lookup truthy isInstOf isInstAny isInst1 xIsInst classesOf
  xHasAttr attrsOf boolV iterOf forLoop loopStep Target.bind bindAll callVal methodOf strMethod
  xCall xMethod xGetAttr xGetAttrObj xBinop xCmp pyCmp pyBin pySliceTo cmpInt
  catches excOfClass Res.out Out.toModel Res.seq_norm zipKw ofModel isNoneV setLastOf
  nmInt nmFloat nmLong nmBool nmNonzero nmUnicode nmSqlmeta nmStrftime nmDecSep sSqlite sUtf8 sAscii
  intOf strOf boolOf decimalOf notStrContainer Out.toR
  Cfg.base cfgInt cfgString cfgEnum cfgFkInt cfgFkStr cfgDt cfgDtSub cfgDecRead cfgDecStr
  R.bind_ok R.bind_exc R.bind_unmodelled R.bind_stuck ofOpt_some ofOpt_none ofModel_some ofModel_none
  Env.put_apply empty_apply Res.seq_ret Res.seq_exc Res.seq_brk Res.seq_unmodelled Res.seq_stuck
  withR_ok withR_exc withR_unmodelled withR_stuck normOpt_some normOpt_none
  tryRes_exc tryRes_norm tryRes_ret tryRes_brk tryRes_unmodelled tryRes_stuck

syntax "pyx" : tactic
syntax "pyxw" "[" Lean.Parser.Tactic.simpLemma,* "]" : tactic
macro_rules
  | `(tactic| pyxw [$ls,*]) => `(tactic| simp [pyxs, $ls,*])
  | `(tactic| pyx) => `(tactic| simp [pyxs])

end SqlObjVerif.PyCodec
