import SqlObjVerif.Model.CacheX
import SqlObjVerif.Lemmas.Cache
/-!
Symbolic execution of the TRANSLATED `CacheFactory` methods (PyCache programs regenerated from
/repo's cache.py on every run) against the hand-written model `Model/Cache.lean`: each `…X_eq`
theorem says that running the translated method from the image of ANY model state ends in the
image of the state the hand model's function for that method yields, with the value it yields.
`pyrun` evaluates the interpreter on the concrete program under the path's facts; loops are
handled with the Hoare-style rule `forLoop_inv` (an invariant indexed by the items still to come).
A semantic edit of cache.py changes the programs and breaks these proofs.

This file: the loop-free methods and `expireAll`; `Lemmas/CacheXCull.lean`: `cull`, `get`, `created`.
-/
namespace SqlObjVerif.Cache
open SqlObjVerif.PyCache
open SqlObjVerif.PyCache.Extracted

/-! `pyRange a b c` is the declarative reading of Python's `range(a, b, c)` for naturals and `c > 0`
(`{i | a ≤ i < b, c ∣ i - a}` in increasing order); sanity checks against CPython's answers: -/
example : pyRange 1 10 3 = [1, 4, 7] := by decide
example : pyRange 0 5 2 = [0, 2, 4] := by decide
example : pyRange 2 6 1 = [2, 3, 4, 5] := by decide
example : pyRange 7 5 2 = [] := by decide
example : pyRange 4 5 9 = [4] := by decide

theorem dget_eq (k : Nat) (l : AList) : dget k l = aget k l := by
  induction l with
  | nil => rfl
  | cons e l ih => simp [dget, aget, ih]
theorem dhasKey_eq (k : Nat) (l : AList) : dhasKey k l = ahasKey k l := rfl
theorem ddel_eq (k : Nat) (l : AList) : ddel k l = aerase k l := rfl
theorem dset_eq (k v : Nat) (l : AList) : dset k v l = aset k v l := rfl

theorem release_noop (w : World) (hs : List Nat) (h : ∀ x ∈ hs, w.rel x = false) : w.release hs = w := by
  unfold World.release
  have : (fun x => w.dead x || (w.rel x && hs.contains x)) = w.dead := by
    funext x
    by_cases hx : x ∈ hs
    · simp [h x hx]
    · simp [hx]
  rw [this]

@[simp] theorem release_nil (w : World) : w.release [] = w := by unfold World.release; simp
@[simp] theorem release_self (w : World) (hs : List Nat) : (w.release hs).self = w.self := rfl
@[simp] theorem release_rel (w : World) (hs : List Nat) : (w.release hs).rel = w.rel := rfl
@[simp] theorem release_falsy (w : World) (hs : List Nat) : (w.release hs).falsy = w.falsy := rfl

macro "pyrun" : tactic => `(tactic|
  simp [PyCache.run, Block.exec, Stmt.exec, Cond.eval, Expr.eval, St.getVar, St.setVar, St.getList, St.setList,
        Res.toOutcome, pyBool, Cmp.holds, Self.getDict, Self.setDict, Self.getInt, Self.setInt, wrap, unwrap,
        St.putDict, strongRefs,
        absW, absSelf, optObj, dget_eq, dhasKey_eq, ddel_eq, dset_eq, Val.isNone, Extracted.Cache.tryGetFallsThrough, *])

theorem aerase_noop (k : Id) (l : AList) (h : ahasKey k l = false) : aerase k l = l := by
  unfold aerase ahasKey at *
  simp at h ⊢
  intro a b hab; exact h a b hab



theorem tryGetX_eq (s : State) (c : Cls) (k : Id) (rel falsy : Handle → Bool) (lock : Bool) :
    tryGetX (absW s c rel falsy lock) k = .ret (absW s c rel falsy lock) (optObj (tryGet s c k)) := by
  unfold tryGetX tryGet tryGetProg tryGet_nlocals tryGet_nlists
  cases hw : aget k (s.fac c).weak with
  | none =>
    cases hd : s.cfg.doCache
    · pyrun
    · cases hs : aget k (s.fac c).strong <;> pyrun
  | some h =>
    cases hdead : (s.obj h).dead
    · pyrun
    · cases hd : s.cfg.doCache
      · pyrun
      · cases hs : aget k (s.fac c).strong <;> pyrun

theorem release_map_filter (w : World) (l : AList) (p : Id × Handle → Bool)
    (h : ∀ e ∈ l, p e = true → w.rel e.2 = false) : w.release ((l.filter p).map (·.2)) = w := by
  apply release_noop
  intro x hx
  simp only [List.mem_map, List.mem_filter] at hx
  obtain ⟨e, ⟨he1, he2⟩, rfl⟩ := hx
  exact h e he1 he2

theorem putX_eq (s : State) (c : Cls) (k : Id) (h : Handle) (rel falsy : Handle → Bool) (lock : Bool)
    (hrel : ∀ e ∈ (s.fac c).strong, e.1 = k → e.2 ≠ h → rel e.2 = false) :
    putX (absW s c rel falsy lock) k h = .ret (absW (insertEntry s c k h) c rel falsy lock) .none := by
  unfold putX putProg put_nlocals put_nlists insertEntry
  cases hd : s.cfg.doCache
  · pyrun
    simp [setFac, upd, *]
  · pyrun
    simp [setFac, upd, *]
    apply release_map_filter
    intro e he hp
    simp at hp
    exact hrel e he hp.1 hp.2

theorem finishPutX_eq (s : State) (c : Cls) (rel falsy : Handle → Bool) :
    finishPutX (absW s c rel falsy true) = .ret (absW s c rel falsy false) .none := by
  unfold finishPutX finishPutProg finishPut_nlocals finishPut_nlists
  pyrun


theorem expireX_eq (s : State) (c : Cls) (k : Id) (rel falsy : Handle → Bool)
    (hnc : s.cfg.doCache = false → (s.fac c).strong = [])
    (hrel : ∀ e ∈ (s.fac c).strong, e.1 = k → rel e.2 = false) :
    expireX (absW s c rel falsy false) k = .ret (absW (purge s c k) c rel falsy false) .none := by
  unfold expireX expireProg expire_nlocals expire_nlists
  rw [purge_eq]
  have hr : ∀ w : World, w.rel = rel → w.release (List.map (fun x => x.snd) (List.filter (fun e => decide (e.fst = k)) (s.fac c).strong)) = w := by
    intro w hw
    apply release_noop
    intro x hx
    simp only [List.mem_map, List.mem_filter, decide_eq_true_eq] at hx
    obtain ⟨e, ⟨he1, he2⟩, rfl⟩ := hx
    rw [hw]; exact hrel e he1 he2
  cases hd : s.cfg.doCache
  · have hs := hnc hd
    cases hw : ahasKey k (s.fac c).weak
    · have := aerase_noop k _ hw
      pyrun
      simp [setFac, upd, aerase, *]
    · pyrun
      simp [setFac, upd, aerase, *]
  · cases hs : ahasKey k (s.fac c).strong <;> cases hw : ahasKey k (s.fac c).weak
    · have := aerase_noop k _ hw
      have := aerase_noop k _ hs
      pyrun
      simp [setFac, upd, *]
    · have := aerase_noop k _ hs
      pyrun
      simp [setFac, upd, *]
    · have := aerase_noop k _ hw
      pyrun
      simp [setFac, upd, *]
    · pyrun
      simp [setFac, upd, *]

theorem forLoop_inv {α : Type} {f : St → α → Res} {es : List α} {st : St} {r : Res}
    (hr : forLoop f es st = r) (I : List α → St → Prop) (hI : I es st)
    (step : ∀ e rest st, I (e :: rest) st → ∃ st', f st e = .norm st' ∧ I rest st') :
    ∃ st', r = .norm st' ∧ I [] st' := by
  induction es generalizing st with
  | nil => exact ⟨st, by rw [← hr]; rfl, hI⟩
  | cons e rest ih =>
    obtain ⟨st1, h1, h2⟩ := step e rest st hI
    simp only [forLoop, h1] at hr
    exact ih hr h2


/-- class `c`'s world with other dict contents -/
def absD (s : State) (c : Cls) (rel falsy : Handle → Bool) (lock : Bool) (S W : AList) : World :=
  { self := { absSelf s c lock with cache := S, expiredCache := W }, dead := fun h => (s.obj h).dead, rel := rel, falsy := falsy }

theorem expireAllX_eq (s : State) (c : Cls) (rel falsy : Handle → Bool)
    (hrel : ∀ e ∈ (s.fac c).strong, rel e.2 = false) :
    expireAllX (absW s c rel falsy false) = .ret (absW (weakrefAll s) c rel falsy false) .none := by
  unfold expireAllX expireAllProg expireAll_nlocals expireAll_nlists weakrefAll
  cases hd : s.cfg.doCache
  · pyrun
  · pyrun
    generalize hF : forLoop _ _ _ = r
    obtain ⟨st', rfl, X, a, b, rfl, hX⟩ := forLoop_inv hF
      (fun rest st => ∃ X a b, st = { w := absD s c rel falsy true (s.fac c).strong X, vars := [a, b], lists := [] } ∧
        asetAll rest X = asetAll (s.fac c).strong (s.fac c).weak)
      ⟨(s.fac c).weak, none, none, by simp [absD, absSelf, hd], rfl⟩
      (by
        rintro e rest st ⟨X, a, b, rfl, hX⟩
        refine ⟨{ w := absD s c rel falsy true (s.fac c).strong (aset e.1 e.2 X), vars := [some (.key e.1), some (.obj e.2)], lists := [] }, ?_, ⟨_, _, _, rfl, ?_⟩⟩
        · simp [absD, expireAll_for0]
          pyrun
        · simpa [asetAll] using hX)
    have hX' : X = asetAll (s.fac c).strong (s.fac c).weak := hX
    subst hX'
    clear hF hX
    simp only [absD]
    pyrun
    rw [release_noop]
    intro x hx
    simp at hx
    obtain ⟨k, hk⟩ := hx
    exact hrel _ hk

end SqlObjVerif.Cache
