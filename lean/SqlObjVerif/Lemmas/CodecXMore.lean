import SqlObjVerif.Lemmas.CodecXBase
/-!
# CodecX — the translated Float / DecimalString / Pickle / Uuid / JSON validators = the hand model (codecs abstract: a value
is identified with its encoding, see the header of `Model/CodecX.lean`)
-/
namespace SqlObjVerif.PyCodec

open SqlObjVerif.Codec (Str PyVal FTok)
open Extracted

/-! ### FloatValidator -/

theorem floatToPython_eq (v : PyVal) : runV Cfg.base floatToPython v = some (Codec.floatV v) := by
  cases v <;> rfl

/-! ### UuidValidator -/

theorem uuidToPython_eq (v : PyVal) : runV Cfg.base uuidToPython v = some (Codec.toPy .uuid v) := by
  cases v <;> rfl

theorem uuidFromPython_eq (v : PyVal) : runV Cfg.base uuidFromPython v = some (Codec.toDb .uuid v) := by
  cases v <;> rfl

/-! ### JSONValidator -/

theorem jsonToPython_eq (v : PyVal) : runV Cfg.base jsonToPython v = some (Codec.toPy .json v) := by
  cases v <;> rfl

theorem jsonFromPython_eq (v : PyVal) : runV Cfg.base jsonFromPython v = some (Codec.toDb .json v) := by
  cases v <;> rfl

/-! ### PickleValidator (the first of the chain Pickle, Binary, String) -/

/-- `pickle.dumps` of the object a token stands for -/
def pickleFromM : PyVal → Codec.Res PyVal
  | .none => .ok .none
  | .pickled b => .ok (.bytes b)
  | _ => .unmodelled

/-- `pickle.loads` of the bytes the Binary validator hands over (a `str` would be encoded first: not interpreted) -/
def pickleToM : PyVal → Codec.Res PyVal
  | .none => .ok .none
  | .bytes b => .ok (.pickled b)
  | .str _ => .unmodelled
  | .other => .unmodelled
  | _ => .invalid

theorem pickleFromPython_eq (v : PyVal) : runV Cfg.base pickleFromPython v = some (pickleFromM v) := by
  cases v <;> rfl

theorem pickleToPython_eq (v : PyVal) : runV Cfg.base pickleToPython v = some (pickleToM v) := by
  cases v <;> rfl

/-! ### DecimalStringValidator (`super()` = the translated DecimalValidator) -/

/-- the read side: the text of the cell is the Decimal token -/
def decStrToM : PyVal → Codec.Res PyVal
  | .str s => .ok (.decimal s)
  | v => Codec.toPy .decimal v

theorem decStrToPython_eq (v : PyVal) : runV cfgDecStr decStrToPython v = some (decStrToM v) := by
  cases v <;> rfl

theorem decStrFromPython_eq (v : PyVal) : runV cfgDecStr decStrFromPython v = some (Codec.toDb .decimalString v) := by
  cases v <;> rfl

end SqlObjVerif.PyCodec
