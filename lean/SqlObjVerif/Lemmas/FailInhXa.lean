import SqlObjVerif.Model.FailInhX
import SqlObjVerif.Lemmas.FailChain
/-!
C06, the TRANSLATED `InheritableSQLObject._create` against the `Fail` machinery — part (a), the `Fail` side:
`Fail.createInh` (continuation-passing) in direct style (`inhRun`: the parent chain first, then the level's own tree,
then the clean-up), `createInh_eq_inhRun` / `createInh_done`; a `Chain` has pairwise distinct classes (`chain_nodup`);
the child level's tree runs as `Fail.createProg` with the explicit id (`ownTree_eq_createProg`).
-/
namespace SqlObjVerif.Fail.InhX

theorem ownTree_eq (sch : Schema) (c pid : Nat) (kw : List (Nat × In)) : ownTree sch c pid kw = childBody sch c pid kw := rfl

/-- go on with `k` (which receives the new id, `lastrowid`) when the run ended without error -/
def bindRun (sch : Schema) (inj : Option Inj) (r : St × Option Err) (k : Nat → Prog) : St × Option Err :=
  match r.2 with
  | none => run sch inj (k r.1.lastId) r.1
  | some e => (r.1, some e)

@[simp] theorem bindRun_ok (sch inj) (s : St) (k : Nat → Prog) : bindRun sch inj (s, none) k = run sch inj (k s.lastId) s := rfl
@[simp] theorem bindRun_err (sch inj) (s : St) (e : Err) (k : Nat → Prog) : bindRun sch inj (s, some e) k = (s, some e) := rfl

theorem bindRun_done (sch inj) (r : St × Option Err) : bindRun sch inj r (fun _ => .done) = r := by
  obtain ⟨s, oe⟩ := r
  cases oe <;> rfl

/-- the tail of a creation after its INSERT keeps `lastrowid` -/
theorem run_createTail (sch inj) (c id : Nat) (vals : List Val) (k : Prog) (s : St) :
    run sch inj (.mem (.addInst c id vals) <| .stmt (.select c) <| .mem (.reload c id) k) s =
      (match run sch inj (.mem (.addInst c id vals) <| .stmt (.select c) <| .mem (.reload c id) .done) s with
       | (s1, none) => run sch inj k s1
       | (s1, some e) => (s1, some e)) ∧
    ∀ s1, run sch inj (.mem (.addInst c id vals) <| .stmt (.select c) <| .mem (.reload c id) .done) s = (s1, none) →
      s1.lastId = s.lastId := by
  simp only [run, exec_select]
  cases hh : hit inj (s.n + 1) <;> simp [bump_n, hh, bump_lastId]

theorem bind_stmt (sch inj) (q : Stmt) (k1 k2 : Prog) (k : Nat → Prog)
    (h : ∀ s', run sch inj k1 s' = bindRun sch inj (run sch inj k2 s') k) (s : St) :
    run sch inj (.stmt q k1) s = bindRun sch inj (run sch inj (.stmt q k2) s) k := by
  simp only [run]
  split
  · rfl
  · split
    · rfl
    · exact h _

theorem bind_afterInsert (sch inj) (c : Nat) (vals : List Val) (k : Nat → Prog) (s : St) :
    run sch inj (.dyn fun s => let id := s.lastId
        .mem (.addInst c id vals) <| .stmt (.select c) <| .mem (.reload c id) <| k id) s =
      bindRun sch inj (run sch inj (.dyn fun s => let id := s.lastId
        .mem (.addInst c id vals) <| .stmt (.select c) <| .mem (.reload c id) <| .done) s) k := by
  show run sch inj (.mem (.addInst c s.lastId vals) <| .stmt (.select c) <| .mem (.reload c s.lastId) <| k s.lastId) s =
      bindRun sch inj (run sch inj (.mem (.addInst c s.lastId vals) <| .stmt (.select c) <| .mem (.reload c s.lastId) <| .done) s) k
  obtain ⟨h1, h2⟩ := run_createTail sch inj c s.lastId vals (k s.lastId) s
  rw [h1]
  generalize hr : run sch inj (.mem (.addInst c _ _) <| .stmt (.select c) <| .mem (.reload c _) .done) _ = r at *
  obtain ⟨s1, oe⟩ := r
  cases oe with
  | some e => rfl
  | none => simp only [bindRun_ok, h2 s1 rfl]

/-- the root's creation, continuation split off -/
theorem run_createProg_bind (sch inj) (c : Nat) (kw : List (Nat × In)) (k : Nat → Prog) (s : St) :
    run sch inj (Fail.createProg sch c none false kw [] k) s =
      bindRun sch inj (run sch inj (Fail.createProg sch c none false kw [] fun _ => .done) s) k := by
  unfold Fail.createProg
  show run sch inj (validates kw _) s = bindRun sch inj (run sch inj (validates kw _) s) k
  rw [run_validates, run_validates]
  split
  · simp only [run_precheck, hasUnknown, List.any_nil, Bool.false_eq_true, if_false, run_extrasPure, extrasErr]
    exact bind_stmt sch inj _ _ _ k (bind_afterInsert sch inj c _ k) s
  · rfl

/-- a level's own creation leaves its id in `lastrowid` -/
theorem ownTree_lastId (sch inj) (c pid : Nat) (kw : List (Nat × In)) (s s1 : St)
    (h : run sch inj (ownTree sch c pid kw) s = (s1, none)) : s1.lastId = pid := by
  unfold ownTree at h
  rw [run_validates] at h
  split at h
  · rw [run] at h
    simp only at h
    split at h
    · simp at h
    · rcases exec_insert_cases sch c (some pid) (valsOf (clsOf sch c).cols.length (asgOf kw))
        { s with n := s.n + 1, log := _ :: s.log } with ⟨e, he⟩ | ⟨s2, he, _, hl, _, _⟩
      · rw [he] at h; simp at h
      · rw [he] at h
        simp only at h
        rw [(run_createTail sch inj c pid _ .done _).2 s1 h, bump_lastId, hl]
        rfl
  · simp at h

/-- the clean-up of a level whose own creation failed with `e` in state `s2` -/
def cleanup (sch : Schema) (inj : Option Inj) (handler : Prog) (s2 : St) (e : Err) : St × Option Err :=
  match (run sch inj handler s2).2 with
  | none => ((run sch inj handler s2).1, some e)
  | some e2 => ((run sch inj handler s2).1, some e2)

/-- one level of `createInh` in direct style: the parent chain ended with `r` -/
def inhStep (sch : Schema) (inj : Option Inj) (body : Nat → Prog) (handler : Nat → Prog) (r : St × Option Err) :
    St × Option Err :=
  match r.2 with
  | some e => (r.1, some e)
  | none =>
    match (run sch inj (body r.1.lastId) r.1).2 with
    | none => run sch inj (body r.1.lastId) r.1
    | some e => cleanup sch inj (handler r.1.lastId) (run sch inj (body r.1.lastId) r.1).1 e

/-- `createInh` in direct style -/
def inhRun (sch : Schema) (inj : Option Inj) (fuel : Nat) : List (Nat × List (Nat × In)) → St → St × Option Err
  | [], s => (s, none)
  | [(c, kw)], s => run sch inj (Fail.createProg sch c none false kw [] fun _ => .done) s
  | (c, kw) :: (p, pkw) :: rest, s =>
    inhStep sch inj (fun pid => ownTree sch c pid kw)
      (fun pid => destroyProg sch fuel p pid (drops ((p, pkw) :: rest) pid)) (inhRun sch inj fuel ((p, pkw) :: rest) s)

theorem run_guard_step (sch inj) (body handler : Nat → Prog) (k : Nat → Prog) (r : St × Option Err)
    (hid : ∀ s2, run sch inj (body r.1.lastId) r.1 = (s2, none) → s2.lastId = r.1.lastId) :
    bindRun sch inj r (fun pid => .guard (body pid) (handler pid) (k pid)) =
      bindRun sch inj (inhStep sch inj body handler r) k := by
  obtain ⟨s1, oe⟩ := r
  cases oe with
  | some e => rfl
  | none =>
    simp only [bindRun_ok, inhStep, run] at hid ⊢
    generalize hr : run sch inj (body s1.lastId) s1 = r2 at *
    obtain ⟨s2, oe2⟩ := r2
    cases oe2 with
    | none => simp only [bindRun_ok, hid s2 rfl]
    | some e =>
      simp only [cleanup]
      generalize run sch inj (handler s1.lastId) s2 = r3
      obtain ⟨s3, oe3⟩ := r3
      cases oe3 <;> rfl

theorem createInh_eq_inhRun (sch inj) (fuel : Nat) : ∀ (L : List (Nat × List (Nat × In))), L ≠ [] →
    ∀ (k : Nat → Prog) (s : St),
      run sch inj (createInh sch fuel L k) s = bindRun sch inj (inhRun sch inj fuel L s) k := by
  intro L
  induction L with
  | nil => intro h; exact absurd rfl h
  | cons a L ih =>
    intro _ k s
    obtain ⟨c, kw⟩ := a
    cases L with
    | nil =>
      rw [show createInh sch fuel [(c, kw)] k = Fail.createProg sch c none false kw [] k by rw [createInh]]
      exact run_createProg_bind sch inj c kw k s
    | cons b rest =>
      obtain ⟨p, pkw⟩ := b
      rw [createInh_step, ih (by simp)]
      show bindRun sch inj _ (fun pid => .guard (ownTree sch c pid kw) _ (k pid)) = _
      rw [run_guard_step sch inj (fun pid => ownTree sch c pid kw)
        (fun pid => destroyProg sch fuel p pid (drops ((p, pkw) :: rest) pid)) k _
        (fun s2 h => ownTree_lastId sch inj c _ kw _ s2 h)]
      rfl

theorem createInh_done (sch inj) (fuel : Nat) (L : List (Nat × List (Nat × In))) (hL : L ≠ []) (s : St) :
    run sch inj (createInh sch fuel L fun _ => .done) s = inhRun sch inj fuel L s := by
  rw [createInh_eq_inhRun sch inj fuel L hL, bindRun_done]


/-! ### a chain has pairwise distinct classes -/

theorem chain_tail (sch : Schema) (c : Nat) (L : List Nat) (h : Chain sch (c :: L)) : Chain sch L := by
  cases L with
  | nil => trivial
  | cons p L => exact h.2

theorem chain_unique (sch : Schema) : ∀ (L1 : List Nat) (c : Nat) (L2 : List Nat),
    Chain sch (c :: L1) → Chain sch (c :: L2) → L1 = L2 := by
  intro L1
  induction L1 with
  | nil =>
    intro c L2 h1 h2
    cases L2 with
    | nil => rfl
    | cons p L2 => simp only [Chain] at h1 h2; rw [h1] at h2; exact absurd h2.1 (by simp)
  | cons p L1 ih =>
    intro c L2 h1 h2
    cases L2 with
    | nil => simp only [Chain] at h1 h2; rw [h2] at h1; exact absurd h1.1 (by simp)
    | cons p' L2 =>
      simp only [Chain] at h1 h2
      have : p = p' := by have := h1.1; rw [h2.1] at this; exact (Option.some.inj this).symm
      subst this
      rw [ih p L2 h1.2 h2.2]

theorem chain_suffix (sch : Schema) : ∀ (A : List Nat) (c : Nat) (B : List Nat),
    Chain sch (A ++ c :: B) → Chain sch (c :: B) := by
  intro A
  induction A with
  | nil => intro c B h; exact h
  | cons a A ih => intro c B h; exact ih c B (chain_tail sch a _ h)

theorem chain_nodup (sch : Schema) : ∀ (L : List Nat), Chain sch L → L.Nodup := by
  intro L
  induction L with
  | nil => intro _; exact List.nodup_nil
  | cons c L ih =>
    intro h
    rw [List.nodup_cons]
    refine ⟨?_, ih (chain_tail sch c L h)⟩
    intro hc
    obtain ⟨A, B, rfl⟩ := List.append_of_mem hc
    have h2 := chain_suffix sch (c :: A) c B h
    have := chain_unique sch _ c _ h h2
    have := congrArg List.length this
    simp at this
    omega

/-! ### the child level's tree is `Fail.createProg` with the explicit id -/

theorem stmt_congr (sch inj) (q : Stmt) (k1 k2 : Prog) (s : St)
    (h : ∀ s2, exec sch q { s with n := s.n + 1, log := q :: s.log } = .ok s2 →
      run sch inj k1 (bump { s with n := s.n + 1, log := q :: s.log } s2) =
      run sch inj k2 (bump { s with n := s.n + 1, log := q :: s.log } s2)) :
    run sch inj (.stmt q k1) s = run sch inj (.stmt q k2) s := by
  simp only [run]
  split
  · rfl
  · split
    · rfl
    · rename_i s2 he
      exact h s2 he

/-- `SQLObject._create(pid, **kw)`: the tree `createInh` uses for a child level runs as `Fail.createProg` with the
    explicit id `pid` does -/
theorem ownTree_eq_createProg (sch inj) (c pid : Nat) (kw : List (Nat × In)) (s : St) :
    run sch inj (ownTree sch c pid kw) s = run sch inj (Fail.createProg sch c (some pid) false kw [] fun _ => .done) s := by
  unfold ownTree Fail.createProg
  show run sch inj (validates kw _) s = run sch inj (validates kw _) s
  rw [run_validates, run_validates]
  split
  · simp only [run_precheck, hasUnknown, List.any_nil, Bool.false_eq_true, if_false, run_extrasPure, extrasErr]
    apply stmt_congr
    intro s2 he
    rcases exec_insert_cases sch c (some pid) (valsOf (clsOf sch c).cols.length (asgOf kw))
      { s with n := s.n + 1, log := _ :: s.log } with ⟨e, he'⟩ | ⟨s2', he', _, hl, _, _⟩
    · rw [he'] at he; cases he
    · rw [he'] at he
      cases he
      have hid : (bump { s with n := s.n + 1, log := Stmt.insert c (some pid) (valsOf (clsOf sch c).cols.length (asgOf kw)) :: s.log } s2).lastId = pid := by
        rw [bump_lastId, hl]; rfl
      show _ = run sch inj (.mem (.addInst c (bump _ s2).lastId _) <| .stmt (.select c) <| .mem (.reload c (bump _ s2).lastId) <| .done) _
      rw [hid]
  · rfl
end SqlObjVerif.Fail.InhX
