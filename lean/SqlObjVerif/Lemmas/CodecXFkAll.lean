import SqlObjVerif.Lemmas.CodecXFk
import SqlObjVerif.Lemmas.CodecXFk2
/-!
# CodecX — the translated ForeignKeyValidator.from_python (int-keyed target) = the hand model, for all values
-/
namespace SqlObjVerif.PyCodec

open SqlObjVerif.Codec (Str PyVal FTok)
open Extracted

theorem fkFromPython_int_eq (first : Bool) (v : PyVal) :
    runV (cfgFkInt first) fkFromPython v = some (Codec.fkFromPython v) := by
  cases v with
  | str s => exact fkInt_str first s
  | float t => exact fkInt_float first t
  | _ => cases first <;> rfl

end SqlObjVerif.PyCodec
