import SqlObjVerif.Lemmas.FailXSetExBase
/-!
C06, `obj.set(**kw)` on an EAGER class with EXTRA keywords (names that are not plain columns: properties of the
application, a ForeignKey given by object, an inherited column, unknown names), column keywords and extra keywords
interleaved arbitrarily in the Python dict: the translated `set` under the schedule σ = (`inj`, `vqOf kw`) = the
hand-compiled tree `Fail.setProg sch c id kw ex .done` under σ, where `kw` = the column keywords of the dict and
`ex` = the kinds (`props`) of the others, both in dict order.  Nothing touches the state before the extras loop, so up
to the `UPDATE` of the plain columns the two states are literally equal.
-/
namespace SqlObjVerif.PyFail
open SqlObjVerif.PyMain (PV FnKind Flag Expr Cond LExpr Target DRef ColAttr R mapR ofOpt PDict CVal
  dget dhas dset dupdate dictOf sortByKey ofVal toVal? pvIdx pyBool nameOf natOf itemsOf dbNameOf optMap
  updItemOf dictItemOf cvOf Block)
open SqlObjVerif.PyMain.Extracted
open SqlObjVerif.Fail (Err Schema Inj Extra clsOf hit exec bump applyMem Mem updPending rowVals In allOk)
open SqlObjVerif.PyPure (dset_not_mem dictOf_nodup filter_fst_none filter_fst_all mapR_ok_of filter_fst_map nodup_keys_filter)

theorem setF_extras_eager_core (sch : Schema) (inj : Option Inj) (props : Nat → Extra) (s : Fail.St) (c id : Nat)
    (pd kw exs : List (Nat × In))
    (hl : (clsOf sch c).lazy = false) (hnd : (pd.map (·.1)).Nodup)
    (hkwF : pd.filter (fun x => Nat.blt x.1 (clsOf sch c).cols.length) = kw)
    (hexF : pd.filter (fun x => !Nat.blt x.1 (clsOf sch c).cols.length) = exs) :
    viewObs (setF (mkW sch inj props s c id (vqOf kw)) (kwPV pd)) =
      some (runObs (Fail.run sch inj (Fail.setProg sch c id kw (exs.map fun e => props e.1) .done) s)) := by
  have hlt : ∀ e ∈ kw, e.1 < (clsOf sch c).cols.length := by
    intro e he; rw [← hkwF, List.mem_filter] at he; simpa [Nat.blt_eq] using he.2
  have hge : ∀ e ∈ exs, Nat.blt e.1 (clsOf sch c).cols.length = false := by
    intro e he; rw [← hexF, List.mem_filter] at he; simpa using he.2
  have hkwnd : (kw.map (·.1)).Nodup := hkwF ▸ nodup_keys_filter pd _ hnd
  have hexnd : (exs.map (·.1)).Nodup := hexF ▸ nodup_keys_filter pd _ hnd
  have hf1 := filter_fst_map pd (fun x => !Nat.blt x.fst (clsOf sch c).cols.length) (fun x => (PV.name x.fst).pair (ofVal x.snd.val))
  have hf2 := filter_fst_map pd (fun x => Nat.blt x.fst (clsOf sch c).cols.length) (fun x => (PV.name x.fst).pair (ofVal x.snd.val))
  rw [hexF] at hf1
  rw [hkwF] at hf2
  have hkw0 : dictOf (kw.map fun e => (e.1, ofVal e.2.val)) = kw.map fun e => (e.1, ofVal e.2.val) :=
    dictOf_nodup _ (by simpa [Function.comp_def] using hkwnd)
  have hex0 : dictOf (exs.map fun e => (e.1, ofVal e.2.val)) = exs.map fun e => (e.1, ofVal e.2.val) :=
    dictOf_nodup _ (by simpa [Function.comp_def] using hexnd)
  clear hkwF hexF hnd
  unfold setF setFWith setProg set_nlocals set_nlists set_ndicts
  pfonly [hl, kwPV, hf1, hf2, hkw0, hex0]
  simp only [Function.comp_def]
  generalize hF : forLoop _ _ _ = r
  obtain ⟨hOk, hBad⟩ := set_for4_loop propCall kw
    { sch := sch, inj := inj, props := props, s := s, c := c, id := id, creating := false,
      nobj := { vals := [], cv := [], dirty := false }, sigSuppress := false, lock := true, vq := vqOf kw }
    [] (some (.bool false)) none none none none none none none none none none none [[], [], []] (kwPV kw) (kwPV exs) [] []
    (by simp) (fun e he => by simpa [Nat.blt_eq] using hlt e he) hkwnd (by simp)
  simp only [kwPV, pvOfIn] at hOk hBad
  cases hok : allOk kw
  · obtain ⟨st', q, hb, hw⟩ := hBad hok
    have hr : r = .exc st' .invalid := hF.symm.trans hb
    subst hr
    clear hF hOk hBad hb
    pfonly [hw]
    simp [viewObs, Outcome.view, runObs, Fail.setProg, hl, run_event, Fail.run_validates, hok]
  · obtain ⟨b3, b4, b5, b6, b7, hb⟩ := hOk hok
    have hr : r = _ := hF.symm.trans hb
    subst hr
    clear hF hOk hBad hb
    simp only [setSt]
    pfonly [kwPV]
    generalize hF : forLoop _ _ _ = r
    obtain ⟨e3, e4, he⟩ := set_extra_loop propCall propCall_setattr set_for5 rfl exs
      { sch := sch, inj := inj, props := props, s := s, c := c, id := id, creating := false,
        nobj := { vals := [], cv := [], dirty := false }, sigSuppress := false, lock := true, vq := [] }
      (some (.bool false)) none none b3 b4 b5 b6 b7 none none none none [[], [], []]
      (List.map (fun e => (e.1, ofVal e.2.val)) kw) (List.map (fun e => (e.1, ofVal e.2.val)) exs)
      (List.map (fun e => (e.1, ofVal e.2.val)) kw) (List.map (fun e => (e.1, ofVal e.2.val)) kw) hge
    simp only [setSt, pvOfIn] at he
    have hr : r = _ := hF.symm.trans he
    subst hr
    clear hF he
    -- the hand model: validation passed, the extras loop, then the UPDATE of the plain columns
    have hhand : Fail.run sch inj (Fail.setProg sch c id kw (exs.map fun e => props e.1) .done) s =
        thenRun (Fail.run sch inj (Fail.extras sch c id (exs.map fun e => props e.1) .done) s)
          (Fail.run sch inj (if (Fail.asgOf kw).isEmpty then .mem (.cache c id (Fail.asgOf kw)) (.event 2 .done)
             else .stmt (.update c id (Fail.sortAsg (Fail.asgOf kw))) <| .mem (.cache c id (Fail.asgOf kw)) <| .event 2 .done)) := by
      simp only [Fail.setProg, hl, Bool.false_eq_true, if_false]
      frun [Fail.run_validates, hok]
      exact run_extras_bind sch inj c id _ _ s
    rw [hhand]
    generalize Fail.run sch inj (Fail.extras sch c id (exs.map fun e => props e.1) .done) s = rx
    obtain ⟨s1, x⟩ := rx
    cases x with
    | some e =>
      pfonly [FW.setS]
      simp [viewObs, Outcome.view, runObs]
    | none =>
      simp only [thenRun_none]
      have hasg : (Fail.asgOf kw).isEmpty = kw.isEmpty := by cases kw <;> rfl
      by_cases hP : kw = []
      · subst hP
        pfonly [FW.setS]
        simp [viewObs, Outcome.view, runObs, Fail.asgOf, run_event, run_mem, run_done, obs, applyMem, Fail.assign]
        exact (mapInst_self _ _ _).symm
      · pfonly [hP, FW.setS]
        generalize hM : mapR _ kw = m
        have hm := mapR_ok_of hM (fun e => (e.1, PV.pair (.name e.1) (ofVal e.2.val))) (by
          intro x hx
          simp [hlt x hx])
        subst hm
        clear hM
        simp only [PyPure.R.bind_ok, PyPure.sortByKey_map, List.map_map]
        pfonly [hP]
        generalize hM : mapR _ (sortByKey kw) = m
        have hm := mapR_ok_of hM (fun e => PV.pair (.dbName e.1) (ofVal e.2.val)) (by
          intro x hx
          simp [hlt x ((PyPure.mem_sortByKey _ _).mp hx)])
        subst hm
        clear hM
        have hsort : (sortByKey kw).map (fun x => (x.1, x.2.val)) = Fail.sortAsg (Fail.asgOf kw) := by
          rw [← sortByKey_eq_sortAsg _ (by simpa [Fail.asgOf, Function.comp_def] using hkwnd)]
          exact (PyPure.sortByKey_map (fun e => e.2.val) kw).symm
        have hasg' : ¬ Fail.asgOf kw = [] := by simpa [Fail.asgOf] using hP
        cases hs : sendStmt sch inj (Fail.Stmt.update c id (Fail.sortAsg (Fail.asgOf kw))) s1 with
        | mk s2 r =>
        cases r
        · pfonly [hP, hsort, hs, FW.setS]
          simp only [Function.comp_def]
          have hitems : kw.map (fun x => (PV.name x.1).pair (ofVal x.2.val)) =
              (Fail.asgOf kw).map fun e => PV.pair (.name e.1) (ofVal e.2) := by simp [Fail.asgOf]
          rw [hitems]
          generalize hF : forLoop _ _ _ = r
          obtain ⟨c3, c4, hc⟩ := set_cache_loop propCall set_for6 rfl (Fail.asgOf kw)
            { sch := sch, inj := inj, props := props, s := s2, c := c, id := id, creating := false,
              nobj := { vals := [], cv := [], dirty := false }, sigSuppress := false, lock := true, vq := [] }
            (some (.bool false)) none none e3 e4 b5 b6 b7 none none none none
            [List.map (fun x => (PV.name x.1).pair (ofVal x.2.val)) (sortByKey kw),
              List.map (fun e => (PV.dbName e.1).pair (ofVal e.2.val)) (sortByKey kw), []]
            (List.map (fun e => (e.1, ofVal e.2.val)) kw) (List.map (fun e => (e.1, ofVal e.2.val)) exs)
            (List.map (fun e => (e.1, ofVal e.2.val)) kw)
            (List.map (fun e => (e.1, ofVal e.2.val)) kw)
          have hr : r = _ := hF.symm.trans hc
          subst hr
          clear hF hc
          rw [setVals_eq _ _ rfl]
          simp only [setSt]
          pfonly []
          rw [if_neg hasg']
          frun [hs]
          simp [viewObs, Outcome.view, runObs, obs_cacheFold]
        · pfonly [hP, hsort, hs, FW.setS]
          rw [if_neg hasg']
          frun [hs]
          simp [viewObs, Outcome.view, runObs]

theorem blt_eq_decide (a b : Nat) : Nat.blt a b = decide (a < b) := by
  cases h : Nat.blt a b
  · exact (decide_eq_false (blt_false_of a b h)).symm
  · exact (decide_eq_true ((Nat.blt_eq).mp h)).symm

theorem filter_cols_eq (n : Nat) (pd : List (Nat × In)) :
    pd.filter (fun x => Nat.blt x.1 n) = pd.filter (fun e => e.1 < n) :=
  List.filter_congr fun x _ => blt_eq_decide x.1 n

theorem filter_extras_eq (n : Nat) (pd : List (Nat × In)) :
    pd.filter (fun x => !Nat.blt x.1 n) = pd.filter (fun e => ¬ e.1 < n) :=
  List.filter_congr fun x _ => by rw [blt_eq_decide, decide_not]

/-- **`set(**pd)` on an EAGER class, any mix of column keywords and extra keywords** = the hand-compiled tree under the
    same schedule: `kw` = the column keywords, `ex` = the kinds of the extra keywords, in dict order -/
theorem setF_extras_eager_eq (sch : Schema) (inj : Option Inj) (props : Nat → Extra) (s : Fail.St) (c id : Nat)
    (pd : List (Nat × In)) (hl : (clsOf sch c).lazy = false) (hnd : (pd.map (·.1)).Nodup) :
    viewObs (setF (mkW sch inj props s c id (vqOf (pd.filter fun e => e.1 < (clsOf sch c).cols.length))) (kwPV pd)) =
      some (runObs (Fail.run sch inj
        (Fail.setProg sch c id (pd.filter fun e => e.1 < (clsOf sch c).cols.length)
          ((pd.filter fun e => ¬ e.1 < (clsOf sch c).cols.length).map fun e => props e.1) .done) s)) :=
  setF_extras_eager_core sch inj props s c id pd _ _ hl hnd (filter_cols_eq _ pd) (filter_extras_eq _ pd)

end SqlObjVerif.PyFail
