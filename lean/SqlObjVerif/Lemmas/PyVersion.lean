import SqlObjVerif.Model.PyVersion
/-!
Constructor-only `@[simp]` lemmas for the helpers of the PyVersion interpreter (`Model/PyVersion.lean`): the symbolic
execution macros unfold the recursive interpreter functions and use these for everything else.
-/
namespace SqlObjVerif.PyVer

/-! ### the interpreter's helpers on constructors -/
@[simp] theorem R.bind_ok {α β : Type} (a : α) (f : α → R β) : (R.ok a).bind f = f a := rfl
@[simp] theorem R.bind_exc {α β : Type} (e : Exc) (f : α → R β) : (R.exc e : R α).bind f = .exc e := rfl
@[simp] theorem R.bind_stuck {α β : Type} (f : α → R β) : (R.stuck : R α).bind f = .stuck := rfl
@[simp] theorem R.ofOpt_some {α : Type} (a : α) : R.ofOpt (some a) = .ok a := rfl
@[simp] theorem R.ofOpt_none {α : Type} : R.ofOpt (Option.none : Option α) = .stuck := rfl
@[simp] theorem withR_ok {W α : Type} (st : St W) (a : α) (k : α → Res W) : withR st (.ok a) k = k a := rfl
@[simp] theorem withR_exc {W α : Type} (st : St W) (e : Exc) (k : α → Res W) : withR st (.exc e) k = .exc st e := rfl
@[simp] theorem withR_stuck {W α : Type} (st : St W) (k : α → Res W) : withR st (.stuck) k = .stuck := rfl
@[simp] theorem afterCall_ret {W : Type} (w : W) (v : Val) (st : St W) (x : Option Nat) :
    afterCall (.ret w v) st x = .norm ({ st with w := w }.setOpt x v) := rfl
@[simp] theorem afterCall_exc {W : Type} (w : W) (e : Exc) (st : St W) (x : Option Nat) :
    afterCall (.exc w e) st x = .exc { st with w := w } e := rfl
@[simp] theorem afterCall_stuck {W : Type} (st : St W) (x : Option Nat) : afterCall (.stuck : CallRes W) st x = .stuck := rfl
@[simp] theorem afterProc_ret {W : Type} (w : W) (v : Val) (ps : List Val) (st : St W) (x : Option Nat) (args : Exprs) :
    afterProc (.ret w v ps) st x args = .norm ({ w := w, vars := writeBack args ps st.vars : St W }.setOpt x v) := rfl
@[simp] theorem afterProc_exc {W : Type} (w : W) (e : Exc) (st : St W) (x : Option Nat) (args : Exprs) :
    afterProc (.exc w e) st x args = .exc { st with w := w } e := rfl
@[simp] theorem afterProc_stuck {W : Type} (st : St W) (x : Option Nat) (args : Exprs) :
    afterProc (.stuck : ProcRes W) st x args = .stuck := rfl
@[simp] theorem toCall_ret {W : Type} (w : W) (v : Val) (ps : List Val) : (ProcRes.ret w v ps).toCall = .ret w v := rfl
@[simp] theorem toCall_exc {W : Type} (w : W) (e : Exc) : (ProcRes.exc w e).toCall = .exc w e := rfl
@[simp] theorem toCall_stuck {W : Type} : (ProcRes.stuck : ProcRes W).toCall = .stuck := rfl
@[simp] theorem toProc_norm {W : Type} (n : Nat) (st : St W) : (Res.norm st).toProc n = .ret st.w .none (paramsOf n st.vars) := rfl
@[simp] theorem toProc_ret {W : Type} (n : Nat) (st : St W) (v : Val) : (Res.ret st v).toProc n = .ret st.w v (paramsOf n st.vars) := rfl
@[simp] theorem toProc_exc {W : Type} (n : Nat) (st : St W) (e : Exc) : (Res.exc st e).toProc n = .exc st.w e := rfl
@[simp] theorem toProc_stuck {W : Type} (n : Nat) : (Res.stuck : Res W).toProc n = .stuck := rfl

@[simp] theorem pyBool_none : pyBool .none = false := rfl
@[simp] theorem pyBool_bool (b : Bool) : pyBool (.bool b) = b := rfl
@[simp] theorem pyBool_int (n : Int) : pyBool (.int n) = (n != 0) := rfl
@[simp] theorem pyBool_nat (n : Nat) : pyBool (.nat n) = (n != 0) := rfl
@[simp] theorem pyBool_str (s : String) : pyBool (.str s) = (s != "") := rfl
@[simp] theorem pyBool_cls (c : Nat) : pyBool (.cls c) = true := rfl
@[simp] theorem pyBool_conn (k : Nat) : pyBool (.conn k) = true := rfl
@[simp] theorem pyBool_inst (k c i : Nat) : pyBool (.inst k c i) = true := rfl
@[simp] theorem pyBool_ref (a b : Nat) : pyBool (.ref a b) = true := rfl
@[simp] theorem pyBool_obj (t : String) (a b : Val) : pyBool (.obj t a b) = true := rfl
@[simp] theorem pyBool_pair (a b : Val) : pyBool (.pair a b) = true := rfl
@[simp] theorem pyBool_nil : pyBool .nil = false := rfl
@[simp] theorem pyBool_cons (a b : Val) : pyBool (.cons a b) = true := rfl
@[simp] theorem pyBool_dictv (b : Val) : pyBool (.dictv b) = (b != .nil) := rfl

@[simp] theorem setItemRes_dictv {W : Type} (I : Iface W) (st : St W) (x : Nat) (b k v : Val) :
    setItemRes I st x (.dictv b) k v = .norm (st.setVar x (.dictv (vdSet k v b))) := rfl
@[simp] theorem delItemRes_dictv {W : Type} (I : Iface W) (st : St W) (x : Nat) (b k : Val) :
    delItemRes I st x (.dictv b) k
      = if vdHas k b then .norm (st.setVar x (.dictv (vdDel k b))) else .exc st ⟨.keyError, 0⟩ := rfl
@[simp] theorem iterOf_dictv {W : Type} (I : Iface W) (w : W) (b : Val) : iterOf I w (.dictv b) = some (vdKeys b) := rfl
@[simp] theorem iterOf_nil {W : Type} (I : Iface W) (w : W) : iterOf I w .nil = some [] := rfl
@[simp] theorem iterOf_cons {W : Type} (I : Iface W) (w : W) (h t : Val) : iterOf I w (.cons h t) = Val.toList (.cons h t) := rfl
@[simp] theorem dictOfVal_dictv {W : Type} (I : Iface W) (w : W) (b : Val) : dictOfVal I w (.dictv b) = .ok (.dictv b) := rfl
@[simp] theorem itemsOfVal_dictv {W : Type} (I : Iface W) (w : W) (b : Val) : itemsOfVal I w (.dictv b) = .ok b := rfl
@[simp] theorem subscriptVal_dictv {W : Type} (I : Iface W) (w : W) (b k : Val) :
    subscriptVal I w (.dictv b) k = (match vdGet k b with
      | some v => .ok v
      | Option.none => .exc ⟨.keyError, 0⟩) := rfl
@[simp] theorem subscriptVal_obj {W : Type} (I : Iface W) (w : W) (t : String) (a b k : Val) :
    subscriptVal I w (.obj t a b) k = I.getItem w (.obj t a b) k := rfl
@[simp] theorem subscriptVal_ref {W : Type} (I : Iface W) (w : W) (a b : Nat) (k : Val) :
    subscriptVal I w (.ref a b) k = I.getItem w (.ref a b) k := rfl
@[simp] theorem inVal_dictv {W : Type} (I : Iface W) (w : W) (k b : Val) : inVal I w k (.dictv b) = .ok (vdHas k b) := rfl
@[simp] theorem inVal_nil {W : Type} (I : Iface W) (w : W) (k : Val) : inVal I w k .nil = .ok false := rfl
@[simp] theorem inVal_cons {W : Type} (I : Iface W) (w : W) (k h t : Val) : inVal I w k (.cons h t) = .ok (vMem k (.cons h t)) := rfl
@[simp] theorem inVal_ref {W : Type} (I : Iface W) (w : W) (k : Val) (a b : Nat) :
    inVal I w k (.ref a b) = R.ofOpt (I.contains w (.ref a b) k) := rfl
@[simp] theorem getattrOf_str {W : Type} (I : Iface W) (w : W) (v : Val) (s : String) : getattrOf I w v (.str s) = I.attr w v s := rfl
@[simp] theorem orDefault_ok (v d : Val) : orDefault (.ok v) d = .ok v := rfl
@[simp] theorem orDefault_stuck (d : Val) : orDefault .stuck d = .stuck := rfl
@[simp] theorem orDefault_exc (e : Exc) (d : Val) : orDefault (.exc e) d = if e.cls = .attributeError then .ok d else .exc e := rfl
@[simp] theorem restList_none : restList .none = some [] := rfl
@[simp] theorem restList_nil : restList .nil = some [] := rfl
@[simp] theorem isNone_none : Val.isNone .none = true := rfl
@[simp] theorem isNone_inst (k c i : Nat) : Val.isNone (.inst k c i) = false := rfl


end SqlObjVerif.PyVer
