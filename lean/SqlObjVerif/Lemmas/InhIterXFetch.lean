import SqlObjVerif.Lemmas.InhIterX
/-!
The TRANSLATED `InheritableIteration.fetchChildren` as a whole, for every batch (`fetchChildrenX_eq`): grouping dict =
`groupL` (`groups_eq`), the middle loop (`loop1_body`, `loop1_run`: one query per group on the SECOND cursor), the result
`childrenOf`; the iteration's own cursor and the batch are untouched.
-/
set_option linter.unusedSimpArgs false
namespace SqlObjVerif.InhIter
open SqlObjVerif.PyIS
open SqlObjVerif.PyIS.Extracted
open SqlObjVerif.InhSel (toList_ofList isListVal_ofList)

def idsV (js : List Nat) : Val := Val.ofList (js.map Val.nat)

abbrev GL := List (Nat × List Nat)

def gV (gl : GL) : Val := Val.ofList (gl.map fun p => Val.pair (.kindName p.1) (idsV p.2))

def glAdd (d j : Nat) : GL → GL
  | [] => [(d, [j])]
  | (d', js) :: t => if d' = d then (d', js ++ [j]) :: t else (d', js) :: glAdd d j t

def groupL (gl : GL) (r : Nat × List Val × Option Nat) : GL :=
  match r.2.2 with
  | some d => glAdd d r.1 gl
  | none => gl

theorem vlAppend_idsV (j : Nat) (js : List Nat) : vlAppend (.nat j) (idsV js) = idsV (js ++ [j]) := by
  induction js with
  | nil => rfl
  | cons a js ih => simp only [idsV, List.map_cons, Val.ofList, vlAppend, List.cons_append] at ih ⊢; rw [ih]

theorem groupStep_gV (gl : GL) (r : Nat × List Val × Option Nat) : groupStep (gV gl) r = gV (groupL gl r) := by
  obtain ⟨j, cols, tag⟩ := r
  cases tag with
  | none => rfl
  | some d =>
    simp only [groupStep, groupL]
    induction gl with
    | nil => rfl
    | cons p gl ih =>
      obtain ⟨d', js⟩ := p
      by_cases h : d' = d
      · subst h
        simp [gV, Val.ofList, vdGet, vdSet, glAdd, vlAppend_idsV]
      · have h' : ¬ Val.kindName d' = Val.kindName d := by intro e; injection e with e; exact h e
        simp only [gV, List.map_cons, Val.ofList, vdGet, vdSet, glAdd, h, h', if_false] at ih ⊢
        rw [ih]

theorem glAdd_nonempty (d j : Nat) : ∀ gl : GL, (∀ p, p ∈ gl → p.2 ≠ []) → ∀ p, p ∈ glAdd d j gl → p.2 ≠ [] := by
  intro gl
  induction gl with
  | nil => intro _ p hp; simp [glAdd] at hp; subst hp; simp
  | cons q gl ih =>
    intro h p hp
    obtain ⟨d', js⟩ := q
    by_cases hd : d' = d
    · simp only [glAdd, hd, if_true, List.mem_cons] at hp
      rcases hp with rfl | hp
      · simp
      · exact h p (List.mem_cons_of_mem _ hp)
    · simp only [glAdd, hd, if_false, List.mem_cons] at hp
      rcases hp with rfl | hp
      · exact h _ List.mem_cons_self
      · exact ih (fun p hp => h p (List.mem_cons_of_mem _ hp)) p hp

theorem groups_eq (rs : List (Nat × List Val × Option Nat)) : ∀ gl : GL, (∀ p, p ∈ gl → p.2 ≠ []) →
    rs.foldl groupStep (gV gl) = gV (rs.foldl groupL gl) ∧ ∀ p, p ∈ rs.foldl groupL gl → p.2 ≠ [] := by
  induction rs with
  | nil => intro gl h; exact ⟨rfl, h⟩
  | cons r rs ih =>
    intro gl h
    simp only [List.foldl_cons, groupStep_gV]
    apply ih
    unfold groupL
    cases r.2.2 with
    | none => exact h
    | some d => exact glAdd_nonempty d r.1 gl h

theorem loop2_run' {X : ICtx} {rs : List (Nat × Val)} {st : St IW} {r : Res IW}
    (hF : forLoop (fun st a => fetchChildren_loop2.exec (iIface X) none (st.setVar 2 a)) (fun st => .norm st)
        (rs.map crowV) st = r) (hl : ∀ r, r ∈ rs → isListVal r.2 = true) (hc : isListVal st.w.children = true) :
    ∃ st', r = .norm st' ∧ st'.w = { st.w with children := rs.foldl storeRow st.w.children } ∧
      ∀ y, y ≠ 2 → st'.env y = st.env y := by
  obtain ⟨st', e, rest⟩ := loop2_run X rs st hl hc
  exact ⟨st', hF.symm.trans e, rest⟩

theorem storeFold_isList : ∀ (rs : List (Nat × Val)) (acc : Val), isListVal acc = true →
    isListVal (rs.foldl storeRow acc) = true := by
  intro rs
  induction rs with
  | nil => intro acc h; exact h
  | cons r rs ih => intro acc h; exact ih _ (isListVal_vdSet _ _ _ h)

theorem natsOf_map (js : List Nat) : natsOf (js.map Val.nat) = some js := by
  induction js with
  | nil => rfl
  | cons a js ih => simp [natsOf, ih]

theorem vlLen_idsV (js : List Nat) : vlLen (idsV js) = js.length := by
  induction js with
  | nil => rfl
  | cons a js ih => simp only [idsV, List.map_cons, Val.ofList, vlLen, List.length_cons] at ih ⊢; rw [ih]

/-- the middle loop, one group: ONE query on the second cursor, its rows stored by id; the own cursor is not touched -/
theorem loop1_body (X : ICtx) (crows : Nat → Sql → List (Nat × Val))
    (hrf : ∀ d e, X.rowsFor d e = (crows d e).map crowV) (hgood : ∀ d e r, r ∈ crows d e → isListVal r.2 = true)
    (d : Nat) (js : List Nat) (hjs : js ≠ []) (st : St IW)
    (h5 : st.env 5 = some (.conn X.k)) (h6 : st.env 6 = some (.ref 21 0)) (h7 : st.env 7 = some (.ref 20 2))
    (h8 : st.env 8 = some (.ref 8 0)) (hc : isListVal st.w.children = true) :
    ∃ st1, fetchChildren_loop1.exec (iIface X) none ((st.setVar 3 (.kindName d)).setVar 4 (idsV js)) = .norm st1 ∧
      st1.w = { st.w with c2 := [], children := (crows d (prefetchClause d js)).foldl storeRow st.w.children } ∧
      ∀ y, 4 < y → y < 9 → st1.env y = st.env y := by
  unfold fetchChildren_loop1
  have hil : isListVal (idsV js) = true := isListVal_ofList _
  have htl : Val.toList (idsV js) = some (js.map Val.nat) := toList_ofList _
  cases js with
  | nil => exact absurd rfl hjs
  | cons i rest =>
    cases rest with
    | nil =>
      itrun [h5, h6, h7, h8, hil, vlLen_idsV, idsV, Val.ofList, vlIdx, vlLen, isListVal, hrf, prefetchClause]
      generalize hF : forLoop _ _ _ _ = r
      obtain ⟨st', rfl, w', f'⟩ := loop2_run' hF (hgood d _) (by simpa using hc)
      refine ⟨st', by simp, by simpa using w', ?_⟩
      intro y hy1 hy2
      rw [f' y (by omega)]
      have a1 : y ≠ 12 := by omega
      have a2 : y ≠ 11 := by omega
      have a3 : y ≠ 10 := by omega
      have a4 : y ≠ 9 := by omega
      have a5 : y ≠ 4 := by omega
      have a6 : y ≠ 3 := by omega
      simp [a1, a2, a3, a4, a5, a6]
    | cons i2 rest =>
      have hn : natsOf (Val.nat i :: Val.nat i2 :: List.map Val.nat rest) = some (i :: i2 :: rest) := natsOf_map (i :: i2 :: rest)
      itrun [h5, h6, h7, h8, hil, htl, hn, vlLen_idsV, hrf, prefetchClause]
      generalize hF : forLoop _ _ _ _ = r
      obtain ⟨st', rfl, w', f'⟩ := loop2_run' hF (hgood d _) (by simpa using hc)
      refine ⟨st', by simp, by simpa using w', ?_⟩
      intro y hy1 hy2
      rw [f' y (by omega)]
      have a1 : y ≠ 12 := by omega
      have a2 : y ≠ 11 := by omega
      have a3 : y ≠ 10 := by omega
      have a4 : y ≠ 9 := by omega
      have a5 : y ≠ 4 := by omega
      have a6 : y ≠ 3 := by omega
      simp [a1, a2, a3, a4, a5, a6]


/-- `self._childrenResults` after the prefetch of the groups -/
def childrenOf (crows : Nat → Sql → List (Nat × Val)) (gl : GL) (acc : Val) : Val :=
  gl.foldl (fun acc p => (crows p.1 (prefetchClause p.1 p.2)).foldl storeRow acc) acc

/-- the middle loop: every group is prefetched through the second cursor -/
theorem loop1_run (X : ICtx) (crows : Nat → Sql → List (Nat × Val))
    (hrf : ∀ d e, X.rowsFor d e = (crows d e).map crowV) (hgood : ∀ d e r, r ∈ crows d e → isListVal r.2 = true) :
    ∀ (gl : GL) (st : St IW), (∀ p, p ∈ gl → p.2 ≠ []) →
    st.env 5 = some (.conn X.k) → st.env 6 = some (.ref 21 0) → st.env 7 = some (.ref 20 2) →
    st.env 8 = some (.ref 8 0) → isListVal st.w.children = true → st.w.c2 = [] →
    ∃ st', forLoop (pairBody fun st p q => fetchChildren_loop1.exec (iIface X) none ((st.setVar 3 p).setVar 4 q))
        (fun st => .norm st) (gl.map fun p => Val.pair (.kindName p.1) (idsV p.2)) st = .norm st' ∧
      st'.w = { st.w with children := childrenOf crows gl st.w.children } := by
  intro gl
  induction gl with
  | nil => intro st _ _ _ _ _ _ _; exact ⟨st, rfl, rfl⟩
  | cons p gl ih =>
    intro st hne h5 h6 h7 h8 hc hc2
    obtain ⟨d, js⟩ := p
    obtain ⟨st1, e1, w1, f1⟩ := loop1_body X crows hrf hgood d js (hne _ List.mem_cons_self) st h5 h6 h7 h8 hc
    obtain ⟨st', e2, w2⟩ := ih st1 (fun p hp => hne p (List.mem_cons_of_mem _ hp))
      (by rw [f1 5 (by omega) (by omega)]; exact h5) (by rw [f1 6 (by omega) (by omega)]; exact h6)
      (by rw [f1 7 (by omega) (by omega)]; exact h7) (by rw [f1 8 (by omega) (by omega)]; exact h8)
      (by rw [w1]; exact storeFold_isList _ _ hc) (by rw [w1])
    refine ⟨st', ?_, ?_⟩
    · simp only [List.map_cons, forLoop, pairBody, e1, e2]
    · rw [w2, w1]
      simp only [childrenOf, List.foldl_cons, hc2]
      try (cases hw : st.w; simp [hw] at hc2 ⊢)


def rowOf (r : Nat × List Val × Option Nat) : Val := rowV r.1 r.2.1 r.2.2

theorem gV_isList (gl : GL) : isListVal (gV gl) = true := isListVal_ofList _
theorem gV_toList (gl : GL) : Val.toList (gV gl) = some (gl.map fun p => Val.pair (.kindName p.1) (idsV p.2)) :=
  toList_ofList _

/-- **`InheritableIteration.fetchChildren`, translated, for every batch** (source class with a `childName` column at
    index `n`; `rs` the rows of the batch): the ids are grouped by `childName`, each group is fetched with one query on
    the SECOND cursor and stored by id; the rows pending on the iteration's own cursor (`c1`) and the batch are untouched -/
theorem fetchChildrenX_eq (X : ICtx) (crows : Nat → Sql → List (Nat × Val))
    (hrf : ∀ d e, X.rowsFor d e = (crows d e).map crowV) (hgood : ∀ d e r, r ∈ crows d e → isListVal r.2 = true)
    (n : Nat) (hcni : X.cni = some n) (w : IW) (rs : List (Nat × List Val × Option Nat))
    (hres : w.results = Val.ofList (rs.map rowOf)) (hlen : ∀ r, r ∈ rs → r.2.1.length = n) :
    fetchChildrenX X w =
      .ret { w with c2 := [], children := childrenOf crows (rs.foldl groupL []) .nil } .none := by
  unfold fetchChildrenX fetchChildrenProg
  itrun [hcni, cniVal, hres]
  generalize hF : forLoop _ _ _ _ = r
  have hg0 : GoodG (gV []) := ⟨rfl, fun k => rfl⟩
  obtain ⟨st1, e1, w1, r1, f1⟩ := loop0_run X n rs
    ⟨⟨w.c1, w.c2, Val.ofList (rs.map rowOf), .nil⟩, (Env.put (fun _ => none) 0 Val.nil).put 1 (Val.nat n)⟩ (gV []) hlen hg0
    rfl rfl
  have hr : r = .norm st1 := hF.symm.trans e1
  subst hr
  clear hF e1
  obtain ⟨hgr, hne⟩ := groups_eq rs [] (by simp)
  rw [hgr] at r1
  simp at w1
  itrun [r1, w1, gV_isList, gV_toList]
  generalize hF : forLoop _ _ _ _ = r
  obtain ⟨st2, e2, w2⟩ := loop1_run X crows hrf hgood (rs.foldl groupL [])
    ⟨⟨w.c1, [], Val.ofList (rs.map rowOf), .nil⟩,
      (((st1.env.put 5 (Val.conn X.k)).put 6 (Val.ref 21 0)).put 7 (Val.ref 20 2)).put 8 (Val.ref 8 0)⟩ hne
    rfl rfl rfl rfl rfl rfl
  have hr : r = .norm st2 := hF.symm.trans e2
  subst hr
  simp [w2]

end SqlObjVerif.InhIter
