import SqlObjVerif.Lemmas.DdlXTable
/-!
# C14 translation — `DBAPI.createColumns`: the body of the CREATE TABLE statement
-/
namespace SqlObjVerif.DdlX
open SqlObjVerif.Ddl
open SqlObjVerif.PyDdl hiding Str isUpperC
open SqlObjVerif.PyDdl.Extracted

variable {x : ClsX}

/-- the hand model's CREATE TABLE body: the id column and the columns, indented and separated -/
def colsModel (d : Dialect) (c : Caps) (decl : Decl) : Option Str :=
  match idText TX d decl, allSome (decl.cols.map (colText TX d c decl.style)) with
  | some i, some cs => some (bodyItems TX (i :: cs))
  | _, _ => none

theorem createTableSQL_eq_colsModel (d : Dialect) (c : Caps) (decl : Decl) :
    createTableSQL TX d c decl = (colsModel d c decl).map fun b =>
      TX.createTable.1 ++ decl.tableName ++ TX.createTable.2.1 ++ b ++ TX.createTable.2.2 := by
  unfold createTableSQL colsModel createText
  cases idText TX d decl <;> cases allSome (decl.cols.map (colText TX d c decl.style)) <;> rfl

theorem idText_some (d : Dialect) (decl : Decl) : ∃ i, idText TX d decl = some i := by
  obtain ⟨cn, sty, lid, tbl, idn, ids, sz, cols, ixs, js⟩ := decl
  cases d <;> cases ids <;> cases sz <;> exact ⟨_, rfl⟩

/-- the comprehension over the columns: all rendered, or the first refusal propagates -/
theorem collect_cols (F : Col → R Val) (g : Col → Option Str) (cols : List Col)
    (h : ∀ col ∈ cols, agrees (F col) (g col)) :
    match allSome (cols.map g) with
    | some ts => collectR (fun col => (F col).bind fun v => R.ok (some v)) cols = .ok (ts.map Val.str)
    | none => ∃ e, collectR (fun col => (F col).bind fun v => R.ok (some v)) cols = .exc e := by
  induction cols with
  | nil => simp [allSome, collectR]
  | cons a l ih =>
    have ha := h a (by simp)
    have hl := ih (fun col hc => h col (by simp [hc]))
    simp only [List.map_cons, allSome]
    cases hg : g a with
    | none =>
      rw [hg] at ha
      obtain ⟨e, he⟩ := ha
      simp only [allSome]
      exact ⟨e, by simp [collectR, he]⟩
    | some t =>
      rw [hg] at ha
      simp only [agrees] at ha
      simp only [allSome]
      cases hs : allSome (l.map g) with
      | none =>
        rw [hs] at hl
        obtain ⟨e, he⟩ := hl
        exact ⟨e, by simp [collectR, ha, he]⟩
      | some ts =>
        rw [hs] at hl
        simp [collectR, ha, hl, consOpt]

theorem bodyItems_eq_join (l : List Str) : bodyItems TX l = joinStr TX.colSep (l.map (TX.indent ++ ·)) := by
  induction l with
  | nil => rfl
  | cons a l ih =>
    cases l with
    | nil => rfl
    | cons b l => rw [bodyItems, ih]; simp [joinStr]; intro h; cases h

theorem allStr_map_str' (l : List Str) : allStr (List.map Val.str l) = some l := allStr_map_str l

set_option maxHeartbeats 1000000 in
/-- **`DBAPI.createColumns` translated = the body of the hand model's CREATE TABLE text** (or both refuse) -/
theorem createColumns_agrees (n : Nat) (d : Dialect) (c : Caps) (decl : Decl) (c0 : Val) :
    agrees (callN prog ddlI (n + 8) (.meth (connCls d) M_createColumns) [connV d c, soClassV decl c0 x])
      (colsModel d c decl) := by
  have hres : prog.resolve (.meth (connCls d) M_createColumns) = some DBAPI__createColumns_fn := by cases d <;> rfl
  rw [callX_succ _ _ _ _ hres]
  obtain ⟨i, hi⟩ := idText_some d decl
  have hid : callN prog ddlI (n + 7) (.meth (connCls d) M_createIDColumn) [connV d c, soClassV decl c0 x] = .ok (.str i) := by
    rw [createIDColumn_eq (n + 5), hi]; rfl
  have hcols := collect_cols
    (fun col => callN prog ddlI (n + 7) (.meth (connCls d) M_createColumn)
      [connV d c, soClassV decl c0 x, colV TX decl.style decl.tableName c0 col])
    (colText TX d c decl.style) decl.cols
    (fun col _ => by rw [createColumn_fwd (n + 6)]; exact col_createSQL (n + 1) decl.style decl.tableName c0 col d c)
  unfold colsModel
  rw [hi]
  cases hs : allSome (decl.cols.map (colText TX d c decl.style)) with
  | none =>
    rw [hs] at hcols
    dsimp only at hcols
    obtain ⟨e, he⟩ := hcols
    refine ⟨e, ?_⟩
    pyxwith [metaV, filterMapR_map, compStep]
  | some ts =>
    rw [hs] at hcols
    dsimp only at hcols
    simp only [agrees]
    rw [bodyItems_eq_join]
    pyxwith [metaV, filterMapR_map, compStep, collectR_some, allStr_map_fun]
    rw [show Val.str i :: List.map Val.str ts = List.map Val.str (i :: ts) from rfl, filterMapR_map]
    pyxwith [compStep, collectR_some, allStr_map_fun]
    rfl

end SqlObjVerif.DdlX
