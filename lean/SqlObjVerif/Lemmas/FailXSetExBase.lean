import SqlObjVerif.Lemmas.FailXSetLazy
/-!
C06, `obj.set(**kw)` with EXTRA keywords (names that are not plain columns), part 1:

* the hand model's loop over the extra keywords runs one keyword at a time (`run_extras_cons`, `run_extras_bind`);
* trees without `dyn` do not look at the ghost counter `changes`: from `obs`-equal states they end in `obs`-equal
  states with the same error (`run_sim`), in particular `extras … K` (`noDyn_extras`);
* the loops of the translated `set` over the extra keywords: `set_for5` (eager) / `set_for3` (lazy) =
  `Fail.extras` keyword by keyword (`set_extra_loop`), `set_for1` = `Fail.precheck` (`set_for1_loop`).
-/
namespace SqlObjVerif.PyFail
open SqlObjVerif.PyMain (PV FnKind Flag Expr Cond LExpr Target DRef ColAttr R mapR ofOpt PDict CVal
  dget dhas dset dupdate dictOf sortByKey ofVal toVal? pvIdx pyBool nameOf natOf itemsOf dbNameOf optMap
  updItemOf dictItemOf cvOf Block)
open SqlObjVerif.PyMain.Extracted
open SqlObjVerif.Fail (Err Schema Inj Extra clsOf hit exec bump applyMem Mem updPending rowVals In allOk)

/-! ### the extras loop of the hand model, one keyword at a time -/

/-- sequential composition of two runs -/
def thenRun (r : Fail.St × Option Err) (k : Fail.St → Fail.St × Option Err) : Fail.St × Option Err :=
  match r with
  | (s1, Option.none) => k s1
  | (s1, some e) => (s1, some e)

@[simp] theorem thenRun_none (s : Fail.St) (k) : thenRun (s, Option.none) k = k s := rfl
@[simp] theorem thenRun_some (s : Fail.St) (e : Err) (k) : thenRun (s, some e) k = (s, some e) := rfl

theorem thenRun_done (r : Fail.St × Option Err) : thenRun r (fun s => (s, Option.none)) = r := by
  obtain ⟨s, e⟩ := r
  cases e <;> rfl

/-- `attrProg` with a continuation = `attrProg` alone, then the continuation -/
theorem run_attrProg_bind (sch : Schema) (inj : Option Inj) (c id col : Nat) (v : Fail.Val) (K : Fail.Prog) (s : Fail.St) :
    Fail.run sch inj (Fail.attrProg sch c id col v K) s =
      thenRun (Fail.run sch inj (Fail.attrProg sch c id col v .done) s) (Fail.run sch inj K) := by
  unfold Fail.attrProg
  cases (clsOf sch c).lazy
  · simp only [Bool.false_eq_true, if_false]
    frun []
    cases sendStmt sch inj (Fail.Stmt.update c id [(col, v)]) s with
    | mk s1 r => cases r <;> simp
  · simp only [if_true]
    frun []
    simp

/-- one extra keyword, then the others -/
theorem run_extras_cons (sch : Schema) (inj : Option Inj) (c id : Nat) (e : Extra) (es : List Extra) (K : Fail.Prog) (s : Fail.St) :
    Fail.run sch inj (Fail.extras sch c id (e :: es) K) s =
      thenRun (Fail.run sch inj (Fail.extras sch c id [e] .done) s) (Fail.run sch inj (Fail.extras sch c id es K)) := by
  cases e with
  | unknown => simp only [Fail.extras, List.foldr]; frun []; simp
  | badProp => simp only [Fail.extras, List.foldr]; frun []; simp
  | okProp => simp only [Fail.extras, List.foldr]; frun []; simp
  | fk col v =>
    simp only [Fail.extras, List.foldr]
    exact run_attrProg_bind sch inj c id col v _ s
  | parentAttr p col v =>
    simp only [Fail.extras, List.foldr]
    frun []
    rw [run_attrProg_bind sch inj p id col v.val _ s]
    cases v.fromOk <;> cases v.toOk <;> simp

theorem run_extras_bind (sch : Schema) (inj : Option Inj) (c id : Nat) (es : List Extra) (K : Fail.Prog) :
    ∀ s : Fail.St, Fail.run sch inj (Fail.extras sch c id es K) s =
      thenRun (Fail.run sch inj (Fail.extras sch c id es .done) s) (Fail.run sch inj K) := by
  induction es with
  | nil => intro s; simp [Fail.extras, run_done]
  | cons e es ih =>
    intro s
    rw [run_extras_cons, run_extras_cons sch inj c id e es .done]
    generalize Fail.run sch inj (Fail.extras sch c id [e] .done) s = r
    obtain ⟨s1, x⟩ := r
    cases x
    · simp [ih s1]
    · simp


/-! ### trees without `dyn` do not look at the ghost counter -/

def noDyn : Fail.Prog → Prop
  | .done => True
  | .fail _ => True
  | .validate _ k => noDyn k
  | .event _ k => noDyn k
  | .stmt _ k => noDyn k
  | .mem _ k => noDyn k
  | .dyn _ => False
  | .guard b h k => noDyn b ∧ noDyn h ∧ noDyn k

theorem obs_eq_iff (s s' : Fail.St) : obs s = obs s' ↔ s' = { s with changes := s'.changes } := by
  cases s; cases s'
  simp [obs]
  constructor
  · rintro ⟨h1, h2, h3, h4, h5⟩; simp [h1, h2, h3, h4, h5]
  · rintro ⟨h1, h2, h3, h4, h5⟩; simp [h1, h2, h3, h4, h5]

theorem obs_bump (s0 s1 : Fail.St) : obs (bump s0 s1) = obs s1 := by simp [obs]

@[simp] theorem tab_ch (s : Fail.St) (ch c : Nat) : ({ s with changes := ch } : Fail.St).tab c = s.tab c := rfl

theorem exec_ch (sch : Schema) (q : Fail.Stmt) (s : Fail.St) (ch : Nat) :
    exec sch q { s with changes := ch } =
      match exec sch q s with
      | .ok s2 => .ok { s2 with changes := ch }
      | .error e => .error e := by
  cases q with
  | select c => rfl
  | delete c id => rfl
  | delLinks t side id => rfl
  | insert c id vals =>
    simp [exec]
    split
    · rfl
    · split <;> rfl
  | update c id asg =>
    simp [exec]
    split
    · split <;> rfl
    · rfl

/-- a run from an `obs`-equal state -/
def Sim (r r' : Fail.St × Option Err) : Prop := obs r.1 = obs r'.1 ∧ r.2 = r'.2

theorem sendStmt_sim (sch : Schema) (inj : Option Inj) (q : Fail.Stmt) (s s' : Fail.St) (h : obs s = obs s') :
    Sim (sendStmt sch inj q s) (sendStmt sch inj q s') := by
  rw [obs_eq_iff] at h
  rw [h]
  generalize s'.changes = ch
  simp only [sendStmt]
  split
  · exact ⟨by simp [obs], rfl⟩
  · have := exec_ch sch q { s with n := s.n + 1, log := q :: s.log } ch
    simp only at this
    rw [this]
    cases exec sch q { s with n := s.n + 1, log := q :: s.log } with
    | error e => exact ⟨by simp [obs], rfl⟩
    | ok s2 => exact ⟨by simp [obs], rfl⟩

theorem memStep_sim (m : Mem) (s s' : Fail.St) (h : obs s = obs s') : obs (memStep m s) = obs (memStep m s') := by
  simp only [obs, Obs.mk.injEq] at h
  simp [obs, h]

theorem run_sim (sch : Schema) (inj : Option Inj) (p : Fail.Prog) :
    noDyn p → ∀ s s' : Fail.St, obs s = obs s' → Sim (Fail.run sch inj p s) (Fail.run sch inj p s') := by
  induction p with
  | done => intro _ s s' h; simp only [run_done]; exact ⟨h, rfl⟩
  | fail e => intro _ s s' h; simp only [run_fail]; exact ⟨h, rfl⟩
  | validate ok k ih =>
    intro hp s s' h
    simp only [run_validate]
    cases ok
    · exact ⟨h, rfl⟩
    · exact ih hp s s' h
  | event g k ih => intro hp s s' h; simp only [run_event]; exact ih hp s s' h
  | stmt q k ih =>
    intro hp s s' h
    simp only [run_stmt]
    obtain ⟨h1, h2⟩ := sendStmt_sim sch inj q s s' h
    generalize sendStmt sch inj q s = r at h1 h2
    generalize sendStmt sch inj q s' = r' at h1 h2
    obtain ⟨s1, e⟩ := r
    obtain ⟨s1', e'⟩ := r'
    simp only at h1 h2
    subst h2
    cases e
    · exact ih hp s1 s1' h1
    · exact ⟨h1, rfl⟩
  | mem m k ih =>
    intro hp s s' h
    simp only [run_mem]
    exact ih hp _ _ (memStep_sim m s s' h)
  | dyn f _ => intro hp; exact absurd hp (by simp [noDyn])
  | guard b hd k ihb ihh ihk =>
    intro hp s s' h
    obtain ⟨hb, hh, hk⟩ := hp
    simp only [Fail.run]
    obtain ⟨h1, h2⟩ := ihb hb s s' h
    generalize Fail.run sch inj b s = r at h1 h2
    generalize Fail.run sch inj b s' = r' at h1 h2
    obtain ⟨s1, e⟩ := r
    obtain ⟨s1', e'⟩ := r'
    simp only at h1 h2
    subst h2
    cases e
    · exact ihk hk s1 s1' h1
    · dsimp only
      obtain ⟨h3, h4⟩ := ihh hh s1 s1' h1
      generalize Fail.run sch inj hd s1 = r at h3 h4
      generalize Fail.run sch inj hd s1' = r' at h3 h4
      obtain ⟨s2, e2⟩ := r
      obtain ⟨s2', e2'⟩ := r'
      simp only at h3 h4
      subst h4
      cases e2 <;> exact ⟨h3, rfl⟩

theorem noDyn_attrProg (sch : Schema) (c id col : Nat) (v : Fail.Val) (K : Fail.Prog) (hK : noDyn K) :
    noDyn (Fail.attrProg sch c id col v K) := by
  unfold Fail.attrProg
  split <;> simpa [noDyn] using hK

theorem noDyn_extras (sch : Schema) (c id : Nat) (es : List Extra) (K : Fail.Prog) (hK : noDyn K) :
    noDyn (Fail.extras sch c id es K) := by
  induction es with
  | nil => simpa [Fail.extras] using hK
  | cons e es ih =>
    have h : Fail.extras sch c id (e :: es) K = (match e with
      | .unknown => .fail .typeError
      | .badProp => .fail .attrError
      | .okProp => Fail.extras sch c id es K
      | .fk col v => Fail.attrProg sch c id col v (Fail.extras sch c id es K)
      | .parentAttr p col v => .validate v.fromOk (.validate v.toOk (Fail.attrProg sch p id col v.val (Fail.extras sch c id es K)))) := by
      cases e <;> rfl
    rw [h]
    cases e <;> simp only [noDyn]
    · exact ih
    · exact noDyn_attrProg _ _ _ _ _ _ ih
    · exact noDyn_attrProg _ _ _ _ _ _ ih

/-- how a statement-level interface call ends -/
def extraRes (r : Fail.St × Option Err) (f : Fail.St → St) : Res :=
  match r with
  | (s1, Option.none) => .norm (f s1)
  | (s1, some e) => .exc (f s1) e

@[simp] theorem extraRes_none (s : Fail.St) (f) : extraRes (s, Option.none) f = .norm (f s) := rfl
@[simp] theorem extraRes_some (s : Fail.St) (e : Err) (f) : extraRes (s, some e) f = .exc (f s) e := rfl

theorem set_extra_step (call : CallT)
    (hcall : ∀ (w : FW) (k : Nat) (pv : PV), call "__setattr__" [PV.name k, pv] [] w = propOutcome w (setProp w k))
    (body : Block) (hbody : body = set_for5) (w : FW) (k : Nat) (pv : PV)
    (hk : Nat.blt k (clsOf w.sch w.c).cols.length = false)
    (v0 v1 v2 a3 a4 a5 a6 a7 v8 v9 v10 v11 : Option PV) (ls : List (List PV)) (d0 d1 d2 d3 : PDict) :
    bindThen (.two 3 4) (fun st' => Block.exec call st' body)
        (setSt w v0 v1 v2 a3 a4 a5 a6 a7 v8 v9 v10 v11 ls d0 d1 d2 d3) (PV.pair (.name k) pv) =
      extraRes (setProp w k) fun s1 =>
        setSt (w.setS s1) v0 v1 v2 (some (.name k)) (some pv) a5 a6 a7 v8 v9 v10 v11 ls d0 d1 d2 d3 := by
  subst hbody
  have hk' : ¬ k < (clsOf w.sch w.c).cols.length := by
    intro h; rw [← Nat.blt_eq, hk] at h; exact absurd h (by simp)
  simp only [bind_two, set_for5, setSt]
  by_cases hu : w.props k = .unknown
  · have hr : setProp w k = (w.s, some .typeError) := by
      simp [setProp, hu, Fail.extras, run_fail]
    rw [hr]
    pfonly [hk, hk', FW.hasAttr, hu, FW.ncols, FW.setS, hcall]
  · have hu' : (w.props k != Extra.unknown) = true := by simpa using hu
    generalize hr : setProp w k = r
    obtain ⟨s1, e⟩ := r
    cases e with
    | none => pfonly [hk, hk', FW.hasAttr, hu, hu', FW.ncols, hr, FW.setS, hcall]
    | some e =>
      pfonly [hk, hk', FW.hasAttr, hu, hu', FW.ncols, hr, FW.setS, hcall]
      by_cases he : Err.attrError = e
      · subst he; simp
      · simp [he]


theorem blt_false_of (k n : Nat) (h : Nat.blt k n = false) : ¬ k < n := by
  intro h'; rw [← Nat.blt_eq, h] at h'; exact absurd h' (by simp)

/-- the loop over the extra keywords (loop 5 eager, loop 3 lazy): the hand model's `extras` tree, keyword by keyword -/
theorem set_extra_loop (call : CallT)
    (hcall : ∀ (w : FW) (k : Nat) (pv : PV), call "__setattr__" [PV.name k, pv] [] w = propOutcome w (setProp w k))
    (body : Block) (hbody : body = set_for5) (exs : List (Nat × In)) :
    ∀ (w : FW) (v0 v1 v2 a3 a4 a5 a6 a7 v8 v9 v10 v11 : Option PV) (ls : List (List PV)) (d0 d1 d2 d3 : PDict),
      (∀ e ∈ exs, Nat.blt e.1 (clsOf w.sch w.c).cols.length = false) →
      ∃ b3 b4,
        forLoop (bindThen (.two 3 4) fun st' => Block.exec call st' body)
            (exs.map fun e => PV.pair (.name e.1) (pvOfIn e.2))
            (setSt w v0 v1 v2 a3 a4 a5 a6 a7 v8 v9 v10 v11 ls d0 d1 d2 d3) =
          extraRes (Fail.run w.sch w.inj (Fail.extras w.sch w.c w.id (exs.map fun e => w.props e.1) .done) w.s) fun s1 =>
            setSt (w.setS s1) v0 v1 v2 b3 b4 a5 a6 a7 v8 v9 v10 v11 ls d0 d1 d2 d3 := by
  induction exs with
  | nil =>
    intro w v0 v1 v2 a3 a4 a5 a6 a7 v8 v9 v10 v11 ls d0 d1 d2 d3 _
    exact ⟨a3, a4, by simp [forLoop, Fail.extras, run_done, FW.setS]⟩
  | cons x exs ih =>
    intro w v0 v1 v2 a3 a4 a5 a6 a7 v8 v9 v10 v11 ls d0 d1 d2 d3 hge
    obtain ⟨k, inp⟩ := x
    have hstep := set_extra_step call hcall body hbody w k (pvOfIn inp) (hge (k, inp) (by simp))
      v0 v1 v2 a3 a4 a5 a6 a7 v8 v9 v10 v11 ls d0 d1 d2 d3
    simp only [List.map_cons, forLoop, hstep]
    rw [run_extras_cons]
    have hsp : setProp w k = Fail.run w.sch w.inj (Fail.extras w.sch w.c w.id [w.props k] .done) w.s := rfl
    rw [← hsp]
    generalize setProp w k = r
    obtain ⟨s1, e⟩ := r
    cases e with
    | some e => exact ⟨some (.name k), some (pvOfIn inp), by simp⟩
    | none =>
      obtain ⟨b3, b4, hb⟩ := ih (w.setS s1) v0 v1 v2 (some (.name k)) (some (pvOfIn inp)) a5 a6 a7 v8 v9 v10 v11 ls d0 d1 d2 d3
        (fun e he => hge e (by simp [he]))
      exact ⟨b3, b4, by simpa [FW.setS] using hb⟩

/-- the pre-check of the lazy / creating branch (loop 1): an unknown keyword is refused before anything changes -/
theorem set_for1_loop (call : CallT) (ks : List Nat) :
    ∀ (w : FW) (v0 v1 v2 a3 a4 a5 a6 a7 v8 v9 v10 v11 : Option PV) (ls : List (List PV)) (d0 d1 d2 d3 : PDict),
      (∀ k ∈ ks, Nat.blt k (clsOf w.sch w.c).cols.length = false) →
      ∃ b3,
        forLoop (bindThen (.one 3) fun st' => Block.exec call st' set_for1) (ks.map PV.name)
            (setSt w v0 v1 v2 a3 a4 a5 a6 a7 v8 v9 v10 v11 ls d0 d1 d2 d3) =
          if Fail.hasUnknown (ks.map w.props) = true then
            .exc (setSt w v0 v1 v2 b3 a4 a5 a6 a7 v8 v9 v10 v11 ls d0 d1 d2 d3) .typeError
          else .norm (setSt w v0 v1 v2 b3 a4 a5 a6 a7 v8 v9 v10 v11 ls d0 d1 d2 d3) := by
  induction ks with
  | nil =>
    intro w v0 v1 v2 a3 a4 a5 a6 a7 v8 v9 v10 v11 ls d0 d1 d2 d3 _
    exact ⟨a3, by simp [forLoop, Fail.hasUnknown]⟩
  | cons k ks ih =>
    intro w v0 v1 v2 a3 a4 a5 a6 a7 v8 v9 v10 v11 ls d0 d1 d2 d3 hge
    have hk := hge k (by simp)
    have hk' := blt_false_of _ _ hk
    by_cases hu : w.props k = .unknown
    · refine ⟨some (.name k), ?_⟩
      simp only [List.map_cons, forLoop, bind_one, set_for1, setSt]
      pfonly [hk, hk', FW.hasAttr, hu, FW.ncols, Fail.hasUnknown]
    · obtain ⟨b3, hb⟩ := ih w v0 v1 v2 (some (.name k)) a4 a5 a6 a7 v8 v9 v10 v11 ls d0 d1 d2 d3
        (fun e he => hge e (by simp [he]))
      refine ⟨b3, ?_⟩
      have hstep : bindThen (.one 3) (fun st' => Block.exec call st' set_for1)
          (setSt w v0 v1 v2 a3 a4 a5 a6 a7 v8 v9 v10 v11 ls d0 d1 d2 d3) (PV.name k) =
          .norm (setSt w v0 v1 v2 (some (.name k)) a4 a5 a6 a7 v8 v9 v10 v11 ls d0 d1 d2 d3) := by
        simp only [bind_one, set_for1, setSt]
        pfonly [hk, hk', FW.hasAttr, hu, FW.ncols]
      simp only [List.map_cons, forLoop, hstep, hb]
      simp [Fail.hasUnknown, hu]

end SqlObjVerif.PyFail
