import SqlObjVerif.Lemmas.DdlXExtra
/-!
# C14 translation — the `_<dialect>Type` methods of the constant-type, integer and decimal column classes
-/
namespace SqlObjVerif.DdlX
open SqlObjVerif.Ddl
open SqlObjVerif.PyDdl hiding Str isUpperC
open SqlObjVerif.PyDdl.Extracted

/-- the outcome of a `_<dialect>Type` call: the pieces of the hand model joined by blanks -/
def tyRes (o : Option (List Str × List Str)) : R Val :=
  match o with
  | some (pre, _) => .ok (.str (joinStr [32] pre))
  | none => .stuck

@[simp] theorem tyRes_some (pre post : List Str) : tyRes (some (pre, post)) = .ok (.str (joinStr [32] pre)) := rfl

set_option maxHeartbeats 1000000 in
theorem simple_type (n : Nat) (T : Tables) (st : Style) (tb : Str) (c0 : Val) (k : SimpleKind) (d : Dialect) (c : Caps)
    (name : Str) (dbn : Option Str) (nn : Bool) (uq : Option Bool) (alt : Bool) (ds : Option Str) (db : Str) :
    callN prog ddlI (n + 3) (.meth (simpleCls k) (tyM d))
        [colV T st tb (connDuring d c c0) ⟨name, dbn, .simple k, nn, uq, alt, ds⟩] =
      tyRes (typePieces TX d c db (.simple k)) := by
  obtain ⟨mi, mx⟩ := c
  cases d <;> cases k <;>
    pyxc [simpleCls, tyM, connDuring, typePieces, Ddl.Extracted.tables, Ddl.Extracted.simpleType, TypeExpr.eval, joinStr,
      handle] <;>
    (cases mi <;> rfl)

def socolTyFn : Dialect → Fn
  | .sqlite => SOCol___sqliteType_fn | .mysql => SOCol___mysqlType_fn | .postgres => SOCol___postgresType_fn
  | .firebird => SOCol___firebirdType_fn | .mssql => SOCol___mssqlType_fn | .sybase => SOCol___sybaseType_fn
  | .maxdb => SOCol___maxdbType_fn

/-- `SOCol._<dialect>Type`: `return self._sqlType()` (sqlite: inside `try … except ValueError`) -/
theorem type_via_sqlType (n : Nat) (cls : Nat) (obj v : Val) (d : Dialect)
    (hr : prog.resolve (.meth cls (tyM d)) = some (socolTyFn d)) (hobj : recvCls obj = .ok cls)
    (hs : callN prog ddlI (n + 1) (.meth cls M__sqlType) [obj] = .ok v) :
    callN prog ddlI (n + 2) (.meth cls (tyM d)) [obj] = .ok v := by
  rw [callX_succ _ _ _ _ hr]
  cases d <;> simp only [socolTyFn] <;> pyxwith [handle]

theorem resolve_int_addSQLAttrs (k : IntKind) :
    prog.resolve (.meth (intCls k) M_addSQLAttrs) = some SOIntCol__addSQLAttrs_fn := by cases k <;> rfl

def intPre (base : Str) (len : Nat) (u z : Bool) : List Str :=
  [if len ≥ 1 then wordParen base (natDigits len) else base] ++ (if u then [TX.intUnsigned] else []) ++
    (if z then [TX.intZerofill] else [])

theorem addSQLAttrs_call (n : Nat) (T : Tables) (st : Style) (tb : Str) (c0 : Val) (k : IntKind) (len : Nat) (u z : Bool)
    (name : Str) (dbn : Option Str) (nn : Bool) (uq : Option Bool) (alt : Bool) (ds : Option Str) (b : Nat) (base : Str) :
    callN prog ddlI (n + 1) (.meth (intCls k) M_addSQLAttrs)
        [colV T st tb c0 ⟨name, dbn, .int k len u z, nn, uq, alt, ds⟩, .str (b :: base)] =
      .ok (.str (joinStr [32] (intPre (b :: base) len u z))) := by
  rw [callX_succ _ _ _ _ (resolve_int_addSQLAttrs k)]
  have hlen : ¬ ((↑(List.length base) : Int) + 1 < 1) := by omega
  by_cases hl : len = 0
  · subst hl
    cases u <;> cases z <;> pyxwith [intPre, joinStr, Ddl.Extracted.tables]
  · have h1 : ((len : Int) != 0) = true := by simp; omega
    have h2 : ((len : Int) ≥ 1) := by omega
    have h3 : len ≥ 1 := by omega
    cases u <;> cases z <;> pyxwith [intPre, joinStr, Ddl.Extracted.tables, wordParen]

theorem int_sqlType (n : Nat) (T : Tables) (st : Style) (tb : Str) (c0 : Val) (k : IntKind) (len : Nat) (u z : Bool)
    (name : Str) (dbn : Option Str) (nn : Bool) (uq : Option Bool) (alt : Bool) (ds : Option Str) :
    callN prog ddlI (n + 2) (.meth (intCls k) M__sqlType)
        [colV T st tb c0 ⟨name, dbn, .int k len u z, nn, uq, alt, ds⟩] =
      .ok (.str (joinStr [32] (intPre (TX.intBase k) len u z))) := by
  have ha := fun k b base => addSQLAttrs_call n T st tb c0 k len u z name dbn nn uq alt ds b base
  cases k
  · rw [callX_succ _ _ _ _ (rfl : prog.resolve (.meth (intCls .int) M__sqlType) = some SOIntCol___sqlType_fn)]
    pyxwith [ha]; rfl
  · rw [callX_succ _ _ _ _ (rfl : prog.resolve (.meth (intCls .tiny) M__sqlType) = some SOTinyIntCol___sqlType_fn)]
    pyxwith [ha]; rfl
  · rw [callX_succ _ _ _ _ (rfl : prog.resolve (.meth (intCls .small) M__sqlType) = some SOSmallIntCol___sqlType_fn)]
    pyxwith [ha]; rfl
  · rw [callX_succ _ _ _ _ (rfl : prog.resolve (.meth (intCls .medium) M__sqlType) = some SOMediumIntCol___sqlType_fn)]
    pyxwith [ha]; rfl
  · rw [callX_succ _ _ _ _ (rfl : prog.resolve (.meth (intCls .big) M__sqlType) = some SOBigIntCol___sqlType_fn)]
    pyxwith [ha]; rfl

theorem resolve_int_type (k : IntKind) (d : Dialect) :
    prog.resolve (.meth (intCls k) (tyM d)) = some (socolTyFn d) := by cases k <;> cases d <;> rfl

theorem int_type (n : Nat) (T : Tables) (st : Style) (tb : Str) (c0 : Val) (k : IntKind) (len : Nat) (u z : Bool)
    (d : Dialect) (c : Caps)
    (name : Str) (dbn : Option Str) (nn : Bool) (uq : Option Bool) (alt : Bool) (ds : Option Str) (db : Str) :
    callN prog ddlI (n + 3) (.meth (intCls k) (tyM d))
        [colV T st tb c0 ⟨name, dbn, .int k len u z, nn, uq, alt, ds⟩] =
      tyRes (typePieces TX d c db (.int k len u z)) :=
  type_via_sqlType (n + 1) _ _ _ d (resolve_int_type k d) rfl (int_sqlType n T st tb c0 k len u z name dbn nn uq alt ds)

/-! ### DecimalCol, CurrencyCol -/

theorem decimal_type (n : Nat) (T : Tables) (st : Style) (tb : Str) (c0 : Val) (s p : Nat)
    (d : Dialect) (c : Caps)
    (name : Str) (dbn : Option Str) (nn : Bool) (uq : Option Bool) (alt : Bool) (ds : Option Str) (db : Str) :
    callN prog ddlI (n + 3) (.meth C_SODecimalCol (tyM d))
        [colV T st tb c0 ⟨name, dbn, .decimal s p, nn, uq, alt, ds⟩] =
      tyRes (typePieces TX d c db (.decimal s p)) := by
  refine type_via_sqlType (n + 1) _ _ _ d (by cases d <;> rfl) rfl ?_
  pyxc [typePieces, joinStr, wordParen, Ddl.Extracted.tables]

theorem currency_type (n : Nat) (st : Style) (tb : Str) (c0 : Val)
    (d : Dialect) (c : Caps)
    (name : Str) (dbn : Option Str) (nn : Bool) (uq : Option Bool) (alt : Bool) (ds : Option Str) (db : Str) :
    callN prog ddlI (n + 3) (.meth C_SOCurrencyCol (tyM d))
        [colV TX st tb c0 ⟨name, dbn, .currency, nn, uq, alt, ds⟩] =
      tyRes (typePieces TX d c db .currency) := by
  refine type_via_sqlType (n + 1) _ _ _ d (by cases d <;> rfl) rfl ?_
  pyxc [typePieces, joinStr, wordParen, Ddl.Extracted.tables]
  rfl

end SqlObjVerif.DdlX
