import SqlObjVerif.Model.OrmVal
/-!
# Lemmas about `OrmVal`: the pending list, the invariants and their preservation by every operation
-/
namespace SqlObjVerif.OrmVal

/-! ### pending association list -/

theorem plookup_passign_same (c : Col) (v : Val) (p : Pend) : plookup c (passign c v p) = some v := by
  induction p with
  | nil => simp [passign, plookup]
  | cons a r ih =>
    obtain ⟨c', v'⟩ := a
    simp only [passign]
    split
    · simp [plookup]
    · split
      · simp [plookup]
      · simp [plookup, *]

theorem plookup_passign_ne (c d : Col) (v : Val) (p : Pend) (h : d ≠ c) :
    plookup d (passign c v p) = plookup d p := by
  induction p with
  | nil => simp [passign, plookup, h]
  | cons a r ih =>
    obtain ⟨c', v'⟩ := a
    simp only [passign]
    split
    · subst_vars; simp [plookup, h]
    · split
      · simp [plookup, h]
      · simp [plookup, ih]

theorem passign_ne_nil (c : Col) (v : Val) (p : Pend) : passign c v p ≠ [] := by
  cases p with
  | nil => simp [passign]
  | cons a r =>
    obtain ⟨c', v'⟩ := a
    simp only [passign]
    split
    · simp
    · split <;> simp

def PSorted (p : Pend) : Prop := p.Pairwise (fun a b => a.1 < b.1)

theorem passign_fst_mem (c : Col) (v : Val) (p : Pend) (x : Col × Val) (hx : x ∈ passign c v p) :
    x.1 = c ∨ x ∈ p := by
  induction p with
  | nil => simp [passign] at hx; simp [hx]
  | cons a r ih =>
    obtain ⟨c', v'⟩ := a
    simp only [passign] at hx
    split at hx
    · simp at hx; rcases hx with rfl | h <;> simp [*]
    · split at hx
      · simp at hx; rcases hx with rfl | rfl | h <;> simp [*]
      · simp at hx; rcases hx with rfl | h
        · simp
        · rcases ih h with h1 | h1 <;> simp [*]

theorem passign_sorted (c : Col) (v : Val) (p : Pend) (hs : PSorted p) : PSorted (passign c v p) := by
  induction p with
  | nil => simp [passign, PSorted]
  | cons a r ih =>
    obtain ⟨c', v'⟩ := a
    unfold PSorted at hs ih ⊢
    rw [List.pairwise_cons] at hs
    simp only [passign]
    by_cases h1 : c = c'
    · subst h1
      simp only [if_true]
      rw [List.pairwise_cons]; exact ⟨fun x hx => hs.1 x hx, hs.2⟩
    · simp only [h1, if_false]
      by_cases h2 : c < c'
      · simp only [h2, if_true]
        rw [List.pairwise_cons]
        refine ⟨?_, List.pairwise_cons.mpr hs⟩
        intro x hx
        simp only [List.mem_cons] at hx
        rcases hx with rfl | hx
        · exact h2
        · exact Nat.lt_trans h2 (hs.1 x hx)
      · simp only [h2, if_false]
        rw [List.pairwise_cons]
        refine ⟨?_, ih hs.2⟩
        intro x hx
        rcases passign_fst_mem c v r x hx with h3 | h3
        · rw [h3]; exact Nat.lt_of_le_of_ne (Nat.le_of_not_lt h2) (Ne.symm h1)
        · exact hs.1 x h3

theorem pmerge_sorted (new old : Pend) (hs : PSorted old) : PSorted (pmerge new old) := by
  unfold pmerge
  induction new generalizing old with
  | nil => simpa
  | cons a r ih => simp only [List.foldl_cons]; exact ih _ (passign_sorted _ _ _ hs)

theorem pmerge_ne_nil (new old : Pend) (h : new ≠ [] ∨ old ≠ []) : pmerge new old ≠ [] := by
  unfold pmerge
  induction new generalizing old with
  | nil => simpa using h
  | cons a r ih => simp only [List.foldl_cons]; exact ih _ (Or.inr (passign_ne_nil _ _ _))

theorem validate_sorted (enc : Col → Val → Val) (kvs : List (Col × Inp)) (p : Pend) (h : validate enc kvs = some p) : PSorted p := by
  induction kvs generalizing p with
  | nil => simp [validate] at h; subst h; simp [PSorted]
  | cons a r ih =>
    obtain ⟨c, i⟩ := a
    cases i with
    | bad => simp [validate] at h
    | ok v =>
      simp only [validate, Option.map_eq_some_iff] at h
      obtain ⟨q, hq, rfl⟩ := h
      exact passign_sorted _ _ _ (ih q hq)

theorem validate_nil_iff (enc : Col → Val → Val) (kvs : List (Col × Inp)) (h : validate enc kvs = some []) : kvs = [] := by
  cases kvs with
  | nil => rfl
  | cons a r =>
    obtain ⟨c, i⟩ := a
    cases i with
    | bad => simp [validate] at h
    | ok v =>
      simp only [validate, Option.map_eq_some_iff] at h
      obtain ⟨q, _, hq⟩ := h
      exact absurd hq (passign_ne_nil _ _ _)

/-- what `old.update(new)` looks up -/
theorem plookup_pmerge (new old : Pend) (hs : PSorted new) (c : Col) :
    plookup c (pmerge new old) = match plookup c new with | some v => some v | none => plookup c old := by
  unfold pmerge
  induction new generalizing old with
  | nil => simp [plookup]
  | cons a r ih =>
    obtain ⟨c', v'⟩ := a
    unfold PSorted at hs ih
    rw [List.pairwise_cons] at hs
    simp only [List.foldl_cons]
    rw [ih _ hs.2]
    simp only [plookup]
    by_cases hc : c = c'
    · subst hc
      have : plookup c r = none := by
        clear ih
        induction r with
        | nil => rfl
        | cons b r2 ih2 =>
          obtain ⟨c2, v2⟩ := b
          have h1 := hs.1 (c2, v2) (by simp)
          simp only [plookup]
          have : c ≠ c2 := Nat.ne_of_lt h1
          simp only [this, if_false]
          apply ih2
          · constructor
            · intro x hx; exact hs.1 x (by simp [hx])
            · exact (List.pairwise_cons.mp hs.2).2
      simp [this, plookup_passign_same]
    · simp only [hc, if_false]
      rw [plookup_passign_ne _ _ _ _ hc]


/-! ### invariants -/

/-- flag discipline of one instance (C16): holds in every state reachable by ANY operations -/
structure FlagOK (cfg : Cfg) (o : Inst) : Prop where
  dirtyIff : o.dirty = true ↔ o.pending ≠ []
  sorted : PSorted o.pending
  eagerNoPending : cfg.lazyUpdate o.cls = false → o.pending = []

/-- value-level agreement of one instance with the database (C05) -/
structure ValOK (cfg : Cfg) (db : Cls → Id → Option Row) (o : Inst) : Prop where
  rowExists : ∃ row, db o.cls o.id = some row
  cachedOk : cfg.cacheValues o.cls = true → ∀ c v row, db o.cls o.id = some row → o.cached c = some v →
    v = cfg.dec o.cls c (applyUpd row o.pending c)

/-- the refinement invariant -/
structure OrmValInv (cfg : Cfg) (s : State) : Prop where
  val : ∀ h o, s.objs h = some o → o.obsolete = false → ValOK cfg s.db o
  flag : ∀ h o, s.objs h = some o → FlagOK cfg o
  uniq : ∀ h h' o o', s.objs h = some o → s.objs h' = some o' → o.obsolete = false → o'.obsolete = false →
    o.cls = o'.cls → o.id = o'.id → h = h'

def LiveTarget (s : State) (h : Hnd) : Prop := ∀ o, s.objs h = some o → o.obsolete = false

def FreshOk (s : State) : Option (Cls × Id) → Prop
  | none => True
  | some ki => ∀ h' o', s.objs h' = some o' → o'.obsolete = false → ¬ (o'.cls = ki.1 ∧ o'.id = ki.2)

/-- side conditions of the dependents loop of `destroySelf` of row (T, r): the library builds an instance
    only for a referencing row nobody holds (C04), held referencing instances are live -/
def LibRefSteps (cfg : Cfg) (T : Cls) (r : Id) : State → List RefStep → Prop
  | _, [] => True
  | s, .sel k :: rest => LibRefSteps cfg T r (logStmt s (.selectRefs k T r)) rest
  | s, .row hr fresh :: rest =>
    FreshOk s fresh ∧ LiveTarget s hr ∧ LibRefSteps cfg T r (opRefRow cfg s T r hr fresh).1 rest

/-- side conditions under which an operation counts as "a write through the library":
    no raw SQL; the library builds a new instance only for a row nobody holds (C04, identity map);
    the application does not write through destroyed instances. -/
def LibStep (cfg : Cfg) (s : State) : Op → Prop
  | .fetch _ cls id _ => ∀ h' o', s.objs h' = some o' → o'.obsolete = false → ¬ (o'.cls = cls ∧ o'.id = id)
  | .setattr h _ _ _ => LiveTarget s h
  | .set h _ _ => LiveTarget s h
  | .syncUpdate h _ => LiveTarget s h
  | .sync h _ => LiveTarget s h
  | .destroy h refs => ∀ o, s.objs h = some o →
      LibRefSteps cfg o.cls o.id s refs ∧ LiveTarget (opRefSteps cfg s o.cls o.id refs).1 h
  | .pickle h _ => LiveTarget s h
  | .bulkDelete cls ids => ∀ h o, s.objs h = some o → o.obsolete = false → ¬ (o.cls = cls ∧ ids.contains o.id = true)
  | .unpickle _ cls id snap clash => clash = false →
      FreshOk s (some (cls, id)) ∧ ∃ row, s.db cls id = some row ∧
        ∀ c v, snapCached (cfg.ncols cls) snap c = some v → v = cfg.dec cls c (row c)
  | .oobUpdate .. => False
  | .oobDelete .. => False
  | .oobInsert .. => False
  | _ => True

theorem applyUpd_nil (row : Row) (c : Col) : applyUpd row [] c = row c := by simp [applyUpd, plookup]

theorem setRowDb_same (db : Cls → Id → Option Row) (cls : Cls) (id : Id) (r : Option Row) :
    setRowDb db cls id r cls id = r := by simp [setRowDb]

theorem setRowDb_other (db : Cls → Id → Option Row) (cls : Cls) (id : Id) (r : Option Row) (c : Cls) (i : Id)
    (h : ¬ (c = cls ∧ i = id)) : setRowDb db cls id r c i = db c i := by simp [setRowDb, h]

theorem updRow_other (db : Cls → Id → Option Row) (cls : Cls) (id : Id) (p : Pend) (c : Cls) (i : Id)
    (h : ¬ (c = cls ∧ i = id)) : updRow db cls id p c i = db c i := by
  simp [updRow, h]

theorem updRow_same (db : Cls → Id → Option Row) (cls : Cls) (id : Id) (p : Pend) :
    updRow db cls id p cls id = (db cls id).map (fun row => applyUpd row p) := by
  simp [updRow]

/-- one instance is replaced, the database changes at most at that (live) instance's row -/
theorem inv_replace (cfg : Cfg) (s s' : State) (h : Hnd) (o o' : Inst)
    (hinv : OrmValInv cfg s) (ho : s.objs h = some o)
    (hobjs : s'.objs = fun k => if k = h then some o' else s.objs k)
    (hcls : o'.cls = o.cls) (hid : o'.id = o.id) (hobs : o'.obsolete = false → o.obsolete = false)
    (hdb : ∀ c i, s'.db c i ≠ s.db c i → c = o.cls ∧ i = o.id ∧ o.obsolete = false)
    (hflag : FlagOK cfg o') (hval : o'.obsolete = false → ValOK cfg s'.db o') :
    OrmValInv cfg s' := by
  constructor
  · intro k ok hk hlive
    rw [hobjs] at hk
    by_cases hkh : k = h
    · simp only [hkh, if_true, Option.some.injEq] at hk; subst hk; exact hval hlive
    · simp only [hkh, if_false] at hk
      have hv := hinv.val k ok hk hlive
      have hsame : s'.db ok.cls ok.id = s.db ok.cls ok.id := by
        apply Classical.byContradiction; intro hne
        obtain ⟨h1, h2, h3⟩ := hdb _ _ hne
        exact hkh (hinv.uniq k h ok o hk ho hlive h3 h1 h2)
      exact ⟨by rw [hsame]; exact hv.rowExists, by rw [hsame]; exact hv.cachedOk⟩
  · intro k ok hk
    rw [hobjs] at hk
    by_cases hkh : k = h
    · simp only [hkh, if_true, Option.some.injEq] at hk; subst hk; exact hflag
    · simp only [hkh, if_false] at hk; exact hinv.flag k ok hk
  · intro k k' ok ok' hk hk' hl hl' hc hi
    rw [hobjs] at hk hk'
    by_cases hkh : k = h <;> by_cases hkh' : k' = h
    · rw [hkh, hkh']
    · simp only [hkh, if_true, Option.some.injEq] at hk; simp only [hkh', if_false] at hk'
      subst hk
      rw [hkh]; exact (hinv.uniq k' h ok' o hk' ho hl' (hobs hl) (by rw [← hc, hcls]) (by rw [← hi, hid])).symm
    · simp only [hkh', if_true, Option.some.injEq] at hk'; simp only [hkh, if_false] at hk
      subst hk'
      rw [hkh']; exact hinv.uniq k h ok o hk ho hl (hobs hl') (by rw [hc, hcls]) (by rw [hi, hid])
    · simp only [hkh, if_false] at hk; simp only [hkh', if_false] at hk'
      exact hinv.uniq k k' ok ok' hk hk' hl hl' hc hi


/-! ### the flag discipline is preserved by every operation -/

def AllFlag (cfg : Cfg) (s : State) : Prop := ∀ h o, s.objs h = some o → FlagOK cfg o

theorem flagOK_fresh (cfg : Cfg) (cls : Cls) (id : Id) (row : Row) : FlagOK cfg (freshInst cfg cls id row) :=
  ⟨by simp [freshInst], by simp [freshInst, PSorted], by simp [freshInst]⟩

theorem flagOK_of_eq (cfg : Cfg) (o o' : Inst) (hf : FlagOK cfg o) (hc : o'.cls = o.cls)
    (hd : o'.dirty = o.dirty) (hp : o'.pending = o.pending) : FlagOK cfg o' :=
  ⟨by rw [hd, hp]; exact hf.dirtyIff, by rw [hp]; exact hf.sorted, by rw [hc, hp]; exact hf.eagerNoPending⟩

theorem flagOK_clean (cfg : Cfg) (o' : Inst) (hd : o'.dirty = false) (hp : o'.pending = []) : FlagOK cfg o' :=
  ⟨by simp [hd, hp], by simp [hp, PSorted], by simp [hp]⟩

theorem allFlag_setObj (cfg : Cfg) (s : State) (h : Hnd) (o' : Inst) (hf : AllFlag cfg s) (ho : FlagOK cfg o') :
    AllFlag cfg (setObj s h o') := by
  intro k ok hk
  simp only [setObj] at hk
  by_cases hkh : k = h
  · simp only [hkh, if_true, Option.some.injEq] at hk; subst hk; exact ho
  · simp only [hkh, if_false] at hk; exact hf k ok hk

theorem allFlag_congr (cfg : Cfg) (s s' : State) (hf : AllFlag cfg s) (h : s'.objs = s.objs) : AllFlag cfg s' := by
  intro k ok hk; rw [h] at hk; exact hf k ok hk

theorem flag_setattr (cfg : Cfg) (s : State) (h : Hnd) (c : Col) (inp : Inp) (fail : Bool) (hf : AllFlag cfg s) :
    AllFlag cfg (opSetattr cfg s h c inp fail).1 := by
  unfold opSetattr
  split
  · exact hf
  · rename_i o ho
    have hfo := hf h o ho
    split
    · exact hf
    · split
      · exact hf
      · rename_i v
        split
        · rename_i hl
          apply allFlag_setObj _ _ _ _ hf
          exact ⟨by simp [passign_ne_nil], passign_sorted _ _ _ hfo.sorted, by simp [hl]⟩
        · split
          · exact allFlag_congr _ _ _ hf rfl
          · split
            · apply allFlag_setObj _ _ _ _ (allFlag_congr _ s _ hf rfl)
              exact flagOK_of_eq _ o _ hfo rfl rfl rfl
            · exact allFlag_congr _ _ _ hf rfl

theorem flag_set (cfg : Cfg) (s : State) (h : Hnd) (kvs : List (Col × Inp)) (fail : Bool) (hf : AllFlag cfg s) :
    AllFlag cfg (opSet cfg s h kvs fail).1 := by
  unfold opSet
  split
  · exact hf
  · rename_i o ho
    have hfo := hf h o ho
    split
    · exact hf
    · split
      · exact hf
      · rename_i p hp
        split
        · rename_i hl
          apply allFlag_setObj _ _ _ _ hf
          refine ⟨?_, pmerge_sorted _ _ hfo.sorted, by simp [hl]⟩
          cases p with
          | nil => simpa [pmerge] using hfo.dirtyIff
          | cons a r => simp [pmerge_ne_nil]
        · split
          · exact hf
          · split
            · exact allFlag_congr _ _ _ hf rfl
            · split
              · apply allFlag_setObj _ _ _ _ (allFlag_congr _ s _ hf rfl)
                exact flagOK_of_eq _ o _ hfo rfl rfl rfl
              · exact allFlag_congr _ _ _ hf rfl

theorem flag_syncUpdate (cfg : Cfg) (s : State) (h : Hnd) (fail : Bool) (hf : AllFlag cfg s) :
    AllFlag cfg (opSyncUpdate s h fail).1 := by
  unfold opSyncUpdate
  split
  · exact hf
  · rename_i o ho
    split
    · exact hf
    · split
      · exact allFlag_congr _ _ _ hf rfl
      · exact allFlag_setObj _ _ _ _ (allFlag_congr _ s _ hf rfl) (flagOK_clean _ _ rfl rfl)

theorem flag_reload (cfg : Cfg) (s : State) (h : Hnd) (hf : AllFlag cfg s) :
    AllFlag cfg (opReload cfg s h).1 := by
  unfold opReload
  split
  · exact hf
  · rename_i o ho
    split
    · exact allFlag_congr _ _ _ hf rfl
    · exact allFlag_setObj _ _ _ _ (allFlag_congr _ s _ hf rfl) (flagOK_of_eq _ o _ (hf h o ho) rfl rfl rfl)

theorem flag_sync (cfg : Cfg) (s : State) (h : Hnd) (fail : Bool) (hf : AllFlag cfg s) :
    AllFlag cfg (opSync cfg s h fail).1 := by
  unfold opSync
  split
  · exact hf
  · split
    · dsimp only
      split
      · exact flag_reload _ _ _ (flag_syncUpdate _ _ _ _ hf)
      · exact flag_syncUpdate _ _ _ _ hf
    · exact flag_reload _ _ _ hf

theorem flagOK_expire (cfg : Cfg) (o : Inst) : FlagOK cfg (expireInst o) := flagOK_clean _ _ rfl rfl

theorem allFlag_evictOthers (cfg : Cfg) (s : State) (h : Hnd) (cls : Cls) (id : Id) (hf : AllFlag cfg s) :
    AllFlag cfg (evictOthers s h cls id) := by
  intro k ok hk
  simp only [evictOthers] at hk
  by_cases hkh : k = h
  · simp only [hkh, if_true] at hk; exact hf h ok hk
  · simp only [hkh, if_false, Option.map_eq_some_iff] at hk
    obtain ⟨o2, ho2, rfl⟩ := hk
    split
    · exact flagOK_of_eq _ o2 _ (hf k o2 ho2) rfl rfl rfl
    · exact hf k o2 ho2

theorem flag_expire (cfg : Cfg) (s : State) (h : Hnd) (hf : AllFlag cfg s) : AllFlag cfg (opExpire s h).1 := by
  unfold opExpire
  split
  · exact hf
  · exact allFlag_setObj _ _ _ _ (allFlag_evictOthers _ _ _ _ _ hf) (flagOK_expire _ _)

theorem flag_expireAll (cfg : Cfg) (s : State) (only : Option Cls) (hf : AllFlag cfg s) :
    AllFlag cfg (opExpireAll s only).1 := by
  intro k ok hk
  simp only [opExpireAll, Option.map_eq_some_iff] at hk
  obtain ⟨o, ho, rfl⟩ := hk
  generalize (o.inCache && match only with | none => true | some c => o.cls == c) = b
  cases b
  · exact hf k o ho
  · exact flagOK_expire _ _

theorem flag_destroy (cfg : Cfg) (s : State) (h : Hnd) (hf : AllFlag cfg s) : AllFlag cfg (opDestroy s h).1 := by
  unfold opDestroy
  split
  · exact hf
  · rename_i o ho
    exact allFlag_setObj _ _ _ _ (allFlag_evictOthers _ _ _ _ _ (allFlag_congr _ s _ hf rfl))
      (flagOK_of_eq _ o _ (hf h o ho) rfl rfl rfl)

theorem flag_pickle (cfg : Cfg) (s : State) (h : Hnd) (fail : Bool) (hf : AllFlag cfg s) :
    AllFlag cfg (opPickle cfg s h fail).1 := by
  unfold opPickle
  split
  · exact hf
  · split
    · exact flag_syncUpdate _ _ _ _ hf
    · exact hf

theorem flag_drop (cfg : Cfg) (s : State) (h : Hnd) (hf : AllFlag cfg s) : AllFlag cfg (opDrop s h).1 := by
  intro k ok hk
  simp only [opDrop] at hk
  by_cases hkh : k = h
  · simp [hkh] at hk
  · simp only [hkh, if_false] at hk; exact hf k ok hk

theorem allFlag_register (cfg : Cfg) (s : State) (h : Hnd) (o : Inst) (hf : AllFlag cfg s) (ho : FlagOK cfg o) :
    AllFlag cfg (register s h o) := by
  intro k ok hk
  simp only [register] at hk
  by_cases hkh : k = h
  · simp only [hkh, if_true, Option.some.injEq] at hk; subst hk; exact ho
  · simp only [hkh, if_false, Option.map_eq_some_iff] at hk
    obtain ⟨o2, ho2, rfl⟩ := hk
    split
    · exact flagOK_of_eq _ o2 _ (hf k o2 ho2) rfl rfl rfl
    · exact hf k o2 ho2

theorem flag_create (cfg : Cfg) (s : State) (h : Hnd) (cls : Cls) (id : Id) (kvs : List (Col × Inp))
    (hf : AllFlag cfg s) : AllFlag cfg (opCreate cfg s h cls id kvs).1 := by
  unfold opCreate
  split
  · exact hf
  · split
    · exact hf
    · split
      · exact hf
      · split
        · exact allFlag_congr _ _ _ hf rfl
        · exact allFlag_register _ _ _ _ (allFlag_congr _ s _ hf rfl) (flagOK_fresh _ _ _ _)

theorem flag_fetch (cfg : Cfg) (s : State) (h : Hnd) (cls : Cls) (id : Id) (v : Bool)
    (hf : AllFlag cfg s) : AllFlag cfg (opFetch cfg s h cls id v).1 := by
  unfold opFetch
  have h1 : AllFlag cfg (fetchLog s v cls id) := by
    unfold fetchLog
    split
    · exact hf
    · exact allFlag_congr _ _ _ hf rfl
  split
  · exact hf
  · split
    · exact h1
    · exact allFlag_register _ _ _ _ h1 (flagOK_fresh _ _ _ _)

theorem flag_refresh (cfg : Cfg) (s : State) (h : Hnd) (hf : AllFlag cfg s) : AllFlag cfg (opRefresh cfg s h).1 := by
  unfold opRefresh
  split
  · exact hf
  · rename_i o ho
    split
    · exact hf
    · split
      · exact hf
      · exact allFlag_setObj _ _ _ _ hf (flagOK_of_eq _ o _ (hf h o ho) rfl rfl rfl)

theorem flag_read (cfg : Cfg) (s : State) (h : Hnd) (c : Col) (hf : AllFlag cfg s) : AllFlag cfg (opRead cfg s h c).1 := by
  unfold opRead
  split
  · exact hf
  · rename_i o ho
    have hfo := hf h o ho
    split
    · exact hf
    · split
      · split
        · exact hf
        · split
          · exact allFlag_setObj _ _ _ _ (allFlag_congr _ s _ hf rfl) (flagOK_of_eq _ o _ hfo rfl rfl rfl)
          · exact allFlag_setObj _ _ _ _ (allFlag_congr _ s _ hf rfl) (flagOK_of_eq _ o _ hfo rfl rfl rfl)
      · split
        · exact hf
        · split <;> exact allFlag_congr _ _ _ hf rfl

theorem flag_refRow (cfg : Cfg) (s : State) (T : Cls) (r : Id) (hr : Hnd) (fresh : Option (Cls × Id))
    (hf : AllFlag cfg s) : AllFlag cfg (opRefRow cfg s T r hr fresh).1 := by
  unfold opRefRow
  have h1 : AllFlag cfg (refGet cfg s hr fresh).1 := by
    cases fresh with
    | none => exact flag_refresh _ _ _ hf
    | some ki => exact flag_fetch _ _ _ _ _ _ hf
  generalize (refGet cfg s hr fresh) = r1 at h1 ⊢
  dsimp only
  split
  · exact h1
  · split
    · exact h1
    · split
      · exact h1
      · split
        · exact h1
        · split
          · exact flag_destroy _ _ _ h1
          · have h2 := flag_read cfg r1.1 hr 0 h1
            split
            · split
              · exact flag_syncUpdate _ _ _ _ (flag_set _ _ _ _ _ h2)
              · exact flag_set _ _ _ _ _ h2
            · exact h2

theorem flag_refSteps (cfg : Cfg) (s : State) (T : Cls) (r : Id) (refs : List RefStep) (hf : AllFlag cfg s) :
    AllFlag cfg (opRefSteps cfg s T r refs).1 := by
  induction refs generalizing s with
  | nil => exact hf
  | cons a rest ih =>
    cases a with
    | sel k => exact ih _ (allFlag_congr _ _ _ hf rfl)
    | row hr fresh =>
      simp only [opRefSteps]
      split
      · exact ih _ (flag_refRow _ _ _ _ _ _ hf)
      · exact flag_refRow _ _ _ _ _ _ hf

theorem flag_destroyRefs (cfg : Cfg) (s : State) (h : Hnd) (refs : List RefStep) (hf : AllFlag cfg s) :
    AllFlag cfg (opDestroyRefs cfg s h refs).1 := by
  unfold opDestroyRefs
  split
  · exact hf
  · dsimp only
    split
    · exact flag_destroy _ _ _ (flag_refSteps _ _ _ _ _ hf)
    · exact flag_refSteps _ _ _ _ _ hf

theorem flag_unpickle (cfg : Cfg) (s : State) (h : Hnd) (cls : Cls) (id : Id) (snap : Pend) (clash : Bool)
    (hf : AllFlag cfg s) : AllFlag cfg (opUnpickle cfg s h cls id snap clash).1 := by
  unfold opUnpickle
  split
  · exact hf
  · split
    · exact hf
    · exact allFlag_register _ _ _ _ hf (flagOK_clean _ _ rfl rfl)

/-- the flag discipline is preserved by EVERY operation, raw SQL included -/
theorem flag_step (cfg : Cfg) (s : State) (op : Op) (hf : AllFlag cfg s) : AllFlag cfg (step cfg s op).1 := by
  cases op with
  | create h cls id kvs => exact flag_create _ _ _ _ _ _ hf
  | fetch h cls id v => exact flag_fetch _ _ _ _ _ _ hf
  | refresh h => exact flag_refresh _ _ _ hf
  | selectStmt cls => exact allFlag_congr _ _ _ hf rfl
  | read h c => exact flag_read _ _ _ _ hf
  | setattr h c inp fail => exact flag_setattr _ _ _ _ _ _ hf
  | set h kvs fail => exact flag_set _ _ _ _ _ hf
  | syncUpdate h fail => exact flag_syncUpdate _ _ _ _ hf
  | sync h fail => exact flag_sync _ _ _ _ hf
  | expire h => exact flag_expire _ _ _ hf
  | expireAll => exact flag_expireAll _ _ _ hf
  | expireAllCls cls => exact flag_expireAll _ _ _ hf
  | destroy h refs => exact flag_destroyRefs _ _ _ _ hf
  | pickle h fail => exact flag_pickle _ _ _ _ hf
  | drop h => exact flag_drop _ _ _ hf
  | bulkDelete cls ids => exact allFlag_congr _ _ _ hf rfl
  | unpickle h cls id snap clash => exact flag_unpickle _ _ _ _ _ _ _ hf
  | oobUpdate cls id c v => exact allFlag_congr _ _ _ hf rfl
  | oobDelete cls id => exact allFlag_congr _ _ _ hf rfl
  | oobInsert cls id vals =>
    simp only [step]
    split
    · exact hf
    · exact allFlag_congr _ _ _ hf rfl


/-! ### the refinement invariant is preserved by every library operation -/

theorem inv_allFlag (cfg : Cfg) (s : State) (h : OrmValInv cfg s) : AllFlag cfg s := h.flag

theorem inv_congr (cfg : Cfg) (s s' : State) (hinv : OrmValInv cfg s) (ho : s'.objs = s.objs) (hd : s'.db = s.db) :
    OrmValInv cfg s' :=
  ⟨by rw [ho, hd]; exact hinv.val, by rw [ho]; exact hinv.flag, by rw [ho]; exact hinv.uniq⟩

/-- `inv_replace` with the flag part supplied by `flag_step` -/
theorem inv_replace' (cfg : Cfg) (s s' : State) (h : Hnd) (o o' : Inst)
    (hinv : OrmValInv cfg s) (ho : s.objs h = some o)
    (hobjs : s'.objs = fun k => if k = h then some o' else s.objs k)
    (hcls : o'.cls = o.cls) (hid : o'.id = o.id) (hobs : o'.obsolete = false → o.obsolete = false)
    (hdb : ∀ c i, s'.db c i ≠ s.db c i → c = o.cls ∧ i = o.id ∧ o.obsolete = false)
    (hflag : AllFlag cfg s') (hval : o'.obsolete = false → ValOK cfg s'.db o') :
    OrmValInv cfg s' :=
  inv_replace cfg s s' h o o' hinv ho hobjs hcls hid hobs hdb (hflag h o' (by simp [hobjs])) hval

/-- the tables changed only at rows no live held instance stands for -/
theorem inv_dbagree (cfg : Cfg) (s s' : State) (hinv : OrmValInv cfg s) (ho : s'.objs = s.objs)
    (hd : ∀ h o, s.objs h = some o → o.obsolete = false → s'.db o.cls o.id = s.db o.cls o.id) :
    OrmValInv cfg s' := by
  refine ⟨?_, by rw [ho]; exact hinv.flag, by rw [ho]; exact hinv.uniq⟩
  intro h o hoo hl
  rw [ho] at hoo
  have hv := hinv.val h o hoo hl
  have := hd h o hoo hl
  exact ⟨by rw [this]; exact hv.rowExists, by rw [this]; exact hv.cachedOk⟩

theorem objs_self (s : State) (h : Hnd) (o : Inst) (ho : s.objs h = some o) :
    s.objs = fun k => if k = h then some o else s.objs k := by
  funext k; by_cases hk : k = h <;> simp [hk, ho]

theorem db_ne_of_updRow (db : Cls → Id → Option Row) (cls : Cls) (id : Id) (p : Pend) (c : Cls) (i : Id)
    (h : updRow db cls id p c i ≠ db c i) : c = cls ∧ i = id := by
  apply Classical.byContradiction; intro hn; exact h (updRow_other _ _ _ _ _ _ hn)

theorem db_ne_of_setRowDb (db : Cls → Id → Option Row) (cls : Cls) (id : Id) (r : Option Row) (c : Cls) (i : Id)
    (h : setRowDb db cls id r c i ≠ db c i) : c = cls ∧ i = id := by
  apply Classical.byContradiction; intro hn; exact h (setRowDb_other _ _ _ _ _ _ hn)

/-! ### value agreement of the instance an operation acts on -/

theorem valOK_sameDb (cfg : Cfg) (db : Cls → Id → Option Row) (o o' : Inst) (hv : ValOK cfg db o)
    (hc : o'.cls = o.cls) (hi : o'.id = o.id)
    (hcached : cfg.cacheValues o.cls = true → ∀ c v row, db o.cls o.id = some row → o'.cached c = some v →
      v = cfg.dec o.cls c (applyUpd row o'.pending c)) : ValOK cfg db o' :=
  ⟨by rw [hc, hi]; exact hv.rowExists, by rw [hc, hi]; exact hcached⟩

theorem loadRow_ok (d : Col → Val → Val) (n : Nat) (row : Row) (c : Col) (v : Val)
    (h : loadRow d n row c = some v) : v = d c (row c) := by
  unfold loadRow at h; split at h <;> simp at h; exact h.symm

theorem cacheAll_loadRow_ok (d : Col → Val → Val) (n : Nat) (row : Row) (p : Pend) (c : Col) (v : Val)
    (h : cacheAll d (loadRow d n row) p c = some v) : v = d c (applyUpd row p c) := by
  unfold cacheAll at h; unfold applyUpd
  split at h
  · injection h with h; exact h.symm
  · exact loadRow_ok _ _ _ _ _ h

theorem applyUpd_applyUpd_nil (row : Row) (p : Pend) (c : Col) : applyUpd (applyUpd row p) [] c = applyUpd row p c := by
  simp [applyUpd_nil]

theorem pending_nil_of_clean (cfg : Cfg) (o : Inst) (hf : FlagOK cfg o) (hd : ¬ o.dirty = true) : o.pending = [] := by
  have := hf.dirtyIff
  cases hpe : o.pending with
  | nil => rfl
  | cons a r => rw [hpe] at this; simp at this; exact absurd this hd

theorem inv_refresh (cfg : Cfg) (s : State) (h : Hnd) (hinv : OrmValInv cfg s) :
    OrmValInv cfg (opRefresh cfg s h).1 := by
  unfold opRefresh
  split
  · exact hinv
  · rename_i o ho
    have hfo := hinv.flag h o ho
    split
    · exact hinv
    · rename_i hd
      split
      · exact hinv
      · rename_i row hrow
        refine inv_replace cfg s _ h o _ hinv ho rfl rfl rfl id (fun c i hne => absurd rfl hne)
          (flagOK_of_eq _ o _ hfo rfl rfl rfl) ?_
        intro hl
        have hv := hinv.val h o ho hl
        have hp : o.pending = [] := pending_nil_of_clean cfg o hfo hd
        refine valOK_sameDb cfg _ o _ hv rfl rfl ?_
        intro _ c v row' hr hcv
        simp only [setObj] at hr
        rw [hrow] at hr; injection hr with hr; subst hr
        simp only [hp, applyUpd_nil]
        exact loadRow_ok _ _ _ _ _ hcv


theorem inv_read (cfg : Cfg) (s : State) (h : Hnd) (c : Col) (hinv : OrmValInv cfg s) :
    OrmValInv cfg (opRead cfg s h c).1 := by
  unfold opRead
  split
  · exact hinv
  · rename_i o ho
    have hfo := hinv.flag h o ho
    split
    · exact hinv
    · split
      · split
        · exact hinv
        · split
          · refine inv_replace cfg s _ h o _ hinv ho rfl rfl rfl id (fun c i hne => absurd rfl hne)
              (flagOK_of_eq _ o _ hfo rfl rfl rfl) ?_
            intro hl
            exact valOK_sameDb cfg _ o _ (hinv.val h o ho hl) rfl rfl (hinv.val h o ho hl).cachedOk
          · rename_i row hrow
            refine inv_replace cfg s _ h o _ hinv ho rfl rfl rfl id (fun c i hne => absurd rfl hne)
              (flagOK_of_eq _ o _ hfo rfl rfl rfl) ?_
            intro hl
            refine valOK_sameDb cfg _ o _ (hinv.val h o ho hl) rfl rfl ?_
            intro _ k v row' hr hcv
            simp only [setObj, logStmt] at hr
            rw [hrow] at hr; injection hr with hr; subst hr
            exact cacheAll_loadRow_ok _ _ _ _ _ _ hcv
      · split
        · exact hinv
        · split <;> exact inv_congr _ _ _ hinv rfl rfl

theorem setCached_ok (d : Col → Val → Val) (cached : Col → Option Val) (c k : Col) (v w : Val) (row : Row) (p : Pend)
    (hold : ∀ k w, cached k = some w → w = d k (applyUpd row p k))
    (h : setCached cached c (d c v) k = some w) : w = d k (applyUpd row (passign c v p) k) := by
  unfold setCached at h
  by_cases hk : k = c
  · subst hk; simp only [if_true, Option.some.injEq] at h
    simp [applyUpd, plookup_passign_same, h]
  · simp only [hk, if_false] at h
    have := hold k w h
    simpa [applyUpd, plookup_passign_ne _ _ _ _ hk] using this

theorem cacheAll_ok (d : Col → Val → Val) (cached : Col → Option Val) (new p : Pend) (k : Col) (w : Val) (row : Row)
    (hs : PSorted new) (hold : ∀ k w, cached k = some w → w = d k (applyUpd row p k))
    (h : cacheAll d cached new k = some w) : w = d k (applyUpd row (pmerge new p) k) := by
  unfold cacheAll at h
  unfold applyUpd
  rw [plookup_pmerge new p hs k]
  split at h
  · rename_i v hv; injection h with h; simp [hv, h]
  · rename_i hv
    have := hold k w h
    simpa [hv, applyUpd] using this

/-- row after an UPDATE, seen through a cache that was right before and is patched with the same values -/
theorem cacheAll_after_update (d : Col → Val → Val) (cached : Col → Option Val) (new : Pend) (k : Col) (w : Val)
    (row : Row) (hold : ∀ k w, cached k = some w → w = d k (row k))
    (h : cacheAll d cached new k = some w) : w = d k (applyUpd row new k) := by
  unfold cacheAll at h
  unfold applyUpd
  split at h
  · injection h with h; exact h.symm
  · exact hold k w h

theorem setCached_eq_cacheAll (d : Col → Val → Val) (cached : Col → Option Val) (c : Col) (v : Val) :
    setCached cached c (d c v) = cacheAll d cached [(c, v)] := by
  funext k; unfold setCached cacheAll; by_cases hk : k = c <;> simp [plookup, hk]

theorem valOK_afterUpdate (cfg : Cfg) (db : Cls → Id → Option Row) (o o' : Inst) (p : Pend)
    (hv : ValOK cfg db o) (hc : o'.cls = o.cls) (hi : o'.id = o.id) (hp : o'.pending = [])
    (hcached : cfg.cacheValues o.cls = true → ∀ row, db o.cls o.id = some row → ∀ k w, o'.cached k = some w →
      w = cfg.dec o.cls k (applyUpd row p k)) :
    ValOK cfg (updRow db o.cls o.id p) o' := by
  obtain ⟨row, hrow⟩ := hv.rowExists
  constructor
  · rw [hc, hi, updRow_same, hrow]; exact ⟨_, rfl⟩
  · rw [hc, hi, updRow_same, hrow]
    intro hcv k w row' hr hk
    simp only [Option.map_some, Option.some.injEq] at hr
    subst hr
    rw [hp, applyUpd_nil]
    exact hcached hcv row hrow k w hk

theorem sendUpdate_db_ne (s : State) (o : Inst) (p : Pend) (fail : Bool) (hl : o.obsolete = false) (c : Cls) (i : Id)
    (h : (sendUpdate s o p fail).db c i ≠ s.db c i) : c = o.cls ∧ i = o.id ∧ o.obsolete = false := by
  unfold sendUpdate at h
  cases fail
  · simp only [Bool.false_eq_true, if_false] at h
    obtain ⟨h1, h2⟩ := db_ne_of_updRow _ _ _ _ _ _ h
    exact ⟨h1, h2, hl⟩
  · simp at h

theorem inv_setattr (cfg : Cfg) (s : State) (h : Hnd) (c : Col) (inp : Inp) (fail : Bool)
    (hinv : OrmValInv cfg s) (hlive : LiveTarget s h) : OrmValInv cfg (opSetattr cfg s h c inp fail).1 := by
  unfold opSetattr
  split
  · exact hinv
  · rename_i o ho
    have hfo := hinv.flag h o ho
    have hl := hlive o ho
    have hv := hinv.val h o ho hl
    split
    · exact hinv
    · split
      · exact hinv
      · rename_i v
        split
        · rename_i hlz
          refine inv_replace cfg s _ h o _ hinv ho rfl rfl rfl id (fun c i hne => absurd rfl hne)
            ⟨by simp [passign_ne_nil], passign_sorted _ _ _ hfo.sorted, by simp [hlz]⟩ ?_
          intro _
          refine valOK_sameDb cfg _ o _ hv rfl rfl ?_
          intro hcv k w row hr hk
          exact setCached_ok _ _ _ _ _ _ _ _ (fun k w hkw => hv.cachedOk hcv k w row hr hkw) hk
        · rename_i hlz
          have hp : o.pending = [] := hfo.eagerNoPending (by simpa using hlz)
          split
          · exact inv_congr _ _ _ hinv rfl (by simp [sendUpdate, *])
          · rename_i hfail
            have hfail : fail = false := by simpa using hfail
            subst hfail
            split
            · refine inv_replace cfg s _ h o _ hinv ho rfl rfl rfl id (sendUpdate_db_ne s o _ false hl)
                (flagOK_of_eq _ o _ hfo rfl rfl rfl) ?_
              intro _
              show ValOK cfg (updRow s.db o.cls o.id [(c, cfg.enc o.cls c v)]) _
              refine valOK_afterUpdate cfg s.db o _ _ hv rfl rfl hp ?_
              intro hcv row hr k w hk
              rw [setCached_eq_cacheAll] at hk
              refine cacheAll_after_update _ _ _ _ _ _ ?_ hk
              intro k w hkw
              have := hv.cachedOk hcv k w row hr hkw
              rwa [hp, applyUpd_nil] at this
            · rename_i hcv
              refine inv_replace cfg s _ h o o hinv ho (objs_self s h o ho) rfl rfl id (sendUpdate_db_ne s o _ false hl)
                hfo ?_
              intro _
              show ValOK cfg (updRow s.db o.cls o.id [(c, cfg.enc o.cls c v)]) _
              exact valOK_afterUpdate cfg s.db o o _ hv rfl rfl hp (fun h' => absurd h' hcv)


theorem inv_set (cfg : Cfg) (s : State) (h : Hnd) (kvs : List (Col × Inp)) (fail : Bool)
    (hinv : OrmValInv cfg s) (hlive : LiveTarget s h) : OrmValInv cfg (opSet cfg s h kvs fail).1 := by
  have hfl := flag_set cfg s h kvs fail hinv.flag
  unfold opSet at hfl ⊢
  split
  · exact hinv
  · rename_i o ho
    have hfo := hinv.flag h o ho
    have hl := hlive o ho
    have hv := hinv.val h o ho hl
    split
    · exact hinv
    · split
      · exact hinv
      · rename_i p hp
        have hps := validate_sorted _ kvs p hp
        split
        · rename_i hlz
          refine inv_replace cfg s _ h o _ hinv ho rfl rfl rfl id (fun c i hne => absurd rfl hne) ?_ ?_
          · refine ⟨?_, pmerge_sorted _ _ hfo.sorted, by simp [hlz]⟩
            cases p with
            | nil => simpa [pmerge] using hfo.dirtyIff
            | cons a r => simp [pmerge_ne_nil]
          · intro _
            refine valOK_sameDb cfg _ o _ hv rfl rfl ?_
            intro hcv k w row hr hk
            exact cacheAll_ok _ _ _ _ _ _ _ hps (fun k w hkw => hv.cachedOk hcv k w row hr hkw) hk
        · rename_i hlz
          have hpe : o.pending = [] := hfo.eagerNoPending (by simpa using hlz)
          split
          · exact hinv
          · split
            · exact inv_congr _ _ _ hinv rfl (by simp [sendUpdate, *])
            · rename_i hfail
              have hfail : fail = false := by simpa using hfail
              subst hfail
              split
              · refine inv_replace cfg s _ h o _ hinv ho rfl rfl rfl id (sendUpdate_db_ne s o _ false hl)
                  (flagOK_of_eq _ o _ hfo rfl rfl rfl) ?_
                intro _
                show ValOK cfg (updRow s.db o.cls o.id p) _
                refine valOK_afterUpdate cfg s.db o _ _ hv rfl rfl hpe ?_
                intro hcv row hr k w hk
                refine cacheAll_after_update _ _ _ _ _ _ ?_ hk
                intro k w hkw
                have := hv.cachedOk hcv k w row hr hkw
                rwa [hpe, applyUpd_nil] at this
              · rename_i hcv
                refine inv_replace cfg s _ h o o hinv ho (objs_self s h o ho) rfl rfl id (sendUpdate_db_ne s o _ false hl)
                  hfo ?_
                intro _
                show ValOK cfg (updRow s.db o.cls o.id p) _
                exact valOK_afterUpdate cfg s.db o o _ hv rfl rfl hpe (fun h' => absurd h' hcv)

theorem inv_syncUpdate (cfg : Cfg) (s : State) (h : Hnd) (fail : Bool)
    (hinv : OrmValInv cfg s) (hlive : LiveTarget s h) : OrmValInv cfg (opSyncUpdate s h fail).1 := by
  unfold opSyncUpdate
  split
  · exact hinv
  · rename_i o ho
    have hfo := hinv.flag h o ho
    have hl := hlive o ho
    have hv := hinv.val h o ho hl
    split
    · exact hinv
    · split
      · exact inv_congr _ _ _ hinv rfl (by simp [sendUpdate, *])
      · rename_i hfail
        have hfail : fail = false := by simpa using hfail
        subst hfail
        refine inv_replace cfg s _ h o _ hinv ho rfl rfl rfl id (sendUpdate_db_ne s o _ false hl)
          (flagOK_clean _ _ rfl rfl) ?_
        intro _
        show ValOK cfg (updRow s.db o.cls o.id o.pending) _
        refine valOK_afterUpdate cfg s.db o _ _ hv rfl rfl rfl ?_
        intro hcv row hr k w hk
        exact hv.cachedOk hcv k w row hr hk

theorem syncUpdate_ok_pending (s : State) (h : Hnd) (fail : Bool) (hok : (opSyncUpdate s h fail).2 = .ok) :
    ∀ o, (opSyncUpdate s h fail).1.objs h = some o → o.pending = [] := by
  intro o ho
  unfold opSyncUpdate at hok ho
  cases hs : s.objs h with
  | none => simp [hs] at ho
  | some o0 =>
    simp only [hs] at hok ho
    by_cases he : o0.pending.isEmpty = true
    · simp only [he, if_true] at ho; rw [hs] at ho; injection ho with ho; subst ho; simpa using he
    · simp only [he] at hok ho
      cases fail
      · simp [setObj] at ho; subst ho; rfl
      · simp at hok

theorem inv_reload (cfg : Cfg) (s : State) (h : Hnd) (hinv : OrmValInv cfg s)
    (hpend : ∀ o, s.objs h = some o → o.pending = []) : OrmValInv cfg (opReload cfg s h).1 := by
  unfold opReload
  split
  · exact hinv
  · rename_i o ho
    have hfo := hinv.flag h o ho
    split
    · exact inv_congr _ _ _ hinv rfl rfl
    · rename_i row hrow
      refine inv_replace cfg s _ h o _ hinv ho rfl rfl rfl id (fun c i hne => absurd rfl hne)
        (flagOK_of_eq _ o _ hfo rfl rfl rfl) ?_
      intro hl
      refine valOK_sameDb cfg _ o _ (hinv.val h o ho hl) rfl rfl ?_
      intro _ k v row' hr hcv
      simp only [setObj, logStmt] at hr
      rw [hrow] at hr; injection hr with hr; subst hr
      simp only [hpend o ho, applyUpd_nil]
      exact loadRow_ok _ _ _ _ _ hcv

theorem inv_sync (cfg : Cfg) (s : State) (h : Hnd) (fail : Bool)
    (hinv : OrmValInv cfg s) (hlive : LiveTarget s h) : OrmValInv cfg (opSync cfg s h fail).1 := by
  unfold opSync
  split
  · exact hinv
  · rename_i o ho
    split
    · dsimp only
      split
      · rename_i hok
        exact inv_reload cfg _ h (inv_syncUpdate cfg s h fail hinv hlive) (syncUpdate_ok_pending s h fail hok)
      · exact inv_syncUpdate cfg s h fail hinv hlive
    · rename_i hc
      refine inv_reload cfg s h hinv ?_
      intro o' ho'
      rw [ho] at ho'; injection ho' with ho'; subst ho'
      have hfo := hinv.flag h o ho
      cases hlz : cfg.lazyUpdate o.cls
      · exact hfo.eagerNoPending hlz
      · simp only [hlz, Bool.true_and, Bool.not_eq_true'] at hc
        simpa using hc

theorem inv_evictOthers (cfg : Cfg) (s : State) (h : Hnd) (cls : Cls) (id : Id) (hinv : OrmValInv cfg s) :
    OrmValInv cfg (evictOthers s h cls id) := by
  have key : ∀ k o', (evictOthers s h cls id).objs k = some o' →
      ∃ o2, s.objs k = some o2 ∧ o'.cls = o2.cls ∧ o'.id = o2.id ∧ o'.obsolete = o2.obsolete ∧
        o'.cached = o2.cached ∧ o'.pending = o2.pending ∧ o'.dirty = o2.dirty := by
    intro k o' hk
    simp only [evictOthers] at hk
    by_cases hkh : k = h
    · simp only [hkh, if_true] at hk; exact ⟨o', by rw [hkh]; exact hk, rfl, rfl, rfl, rfl, rfl, rfl⟩
    · simp only [hkh, if_false, Option.map_eq_some_iff] at hk
      obtain ⟨o2, ho2, rfl⟩ := hk
      refine ⟨o2, ho2, ?_⟩
      split <;> simp
  constructor
  · intro k o' hk hl
    obtain ⟨o2, ho2, hc, hi, hob, hca, hpe, _⟩ := key k o' hk
    have hv := hinv.val k o2 ho2 (by rw [← hob]; exact hl)
    exact ⟨by rw [hc, hi]; exact hv.rowExists, by rw [hc, hi, hca, hpe]; exact hv.cachedOk⟩
  · intro k o' hk
    obtain ⟨o2, ho2, hc, hi, hob, hca, hpe, hdi⟩ := key k o' hk
    exact flagOK_of_eq cfg o2 o' (hinv.flag k o2 ho2) hc hdi hpe
  · intro k k' o1 o2 hk hk' hl hl' hc hi
    obtain ⟨p1, hp1, hc1, hi1, hob1, _⟩ := key k o1 hk
    obtain ⟨p2, hp2, hc2, hi2, hob2, _⟩ := key k' o2 hk'
    exact hinv.uniq k k' p1 p2 hp1 hp2 (by rw [← hob1]; exact hl) (by rw [← hob2]; exact hl')
      (by rw [← hc1, ← hc2]; exact hc) (by rw [← hi1, ← hi2]; exact hi)

theorem evictOthers_self (s : State) (h : Hnd) (cls : Cls) (id : Id) : (evictOthers s h cls id).objs h = s.objs h := by
  simp [evictOthers]

theorem inv_expire (cfg : Cfg) (s : State) (h : Hnd) (hinv : OrmValInv cfg s) : OrmValInv cfg (opExpire s h).1 := by
  unfold opExpire
  split
  · exact hinv
  · rename_i o ho
    refine inv_replace cfg (evictOthers s h o.cls o.id) _ h o _ (inv_evictOthers _ _ _ _ _ hinv)
      (by rw [evictOthers_self]; exact ho) rfl rfl rfl id (fun c i hne => absurd rfl hne) (flagOK_expire _ _) ?_
    intro hl
    refine valOK_sameDb cfg _ o _ (hinv.val h o ho hl) rfl rfl ?_
    intro _ k v row hr hk
    simp [expireInst, noCache] at hk

theorem inv_destroy (cfg : Cfg) (s : State) (h : Hnd) (hinv : OrmValInv cfg s) (hlive : LiveTarget s h) :
    OrmValInv cfg (opDestroy s h).1 := by
  unfold opDestroy
  split
  · exact hinv
  · rename_i o ho
    have hl := hlive o ho
    refine inv_replace cfg (evictOthers s h o.cls o.id) _ h o _ (inv_evictOthers _ _ _ _ _ hinv)
      (by rw [evictOthers_self]; exact ho) rfl rfl rfl (fun hx => by simp at hx) ?_
      (flagOK_of_eq _ o _ (hinv.flag h o ho) rfl rfl rfl) (fun hx => by simp at hx)
    intro c i hne
    obtain ⟨h1, h2⟩ := db_ne_of_setRowDb _ _ _ _ _ _ hne
    exact ⟨h1, h2, hl⟩

theorem inv_pickle (cfg : Cfg) (s : State) (h : Hnd) (fail : Bool)
    (hinv : OrmValInv cfg s) (hlive : LiveTarget s h) : OrmValInv cfg (opPickle cfg s h fail).1 := by
  unfold opPickle
  split
  · exact hinv
  · split
    · exact inv_syncUpdate cfg s h fail hinv hlive
    · exact hinv

theorem inv_drop (cfg : Cfg) (s : State) (h : Hnd) (hinv : OrmValInv cfg s) : OrmValInv cfg (opDrop s h).1 := by
  have sub : ∀ k o, (opDrop s h).1.objs k = some o → s.objs k = some o := by
    intro k o hk
    simp only [opDrop] at hk
    by_cases hkh : k = h
    · simp [hkh] at hk
    · simpa [hkh] using hk
  exact ⟨fun k o hk hl => hinv.val k o (sub k o hk) hl, fun k o hk => hinv.flag k o (sub k o hk),
    fun k k' o o' hk hk' => hinv.uniq k k' o o' (sub k o hk) (sub k' o' hk')⟩

theorem inv_expireAll (cfg : Cfg) (s : State) (only : Option Cls) (hinv : OrmValInv cfg s) :
    OrmValInv cfg (opExpireAll s only).1 := by
  have key : ∀ k o', (opExpireAll s only).1.objs k = some o' →
      ∃ o, s.objs k = some o ∧ o'.cls = o.cls ∧ o'.id = o.id ∧ o'.obsolete = o.obsolete ∧
        (o' = o ∨ o' = expireInst o) := by
    intro k o' hk
    simp only [opExpireAll, Option.map_eq_some_iff] at hk
    obtain ⟨o, ho, rfl⟩ := hk
    refine ⟨o, ho, ?_⟩
    generalize (o.inCache && match only with | none => true | some c => o.cls == c) = b
    cases b <;> simp [expireInst]
  refine ⟨?_, flag_expireAll cfg s only hinv.flag, ?_⟩
  · intro k o' hk hl
    obtain ⟨o, ho, hc, hi, hob, hcase⟩ := key k o' hk
    have hv := hinv.val k o ho (by rw [← hob]; exact hl)
    rcases hcase with rfl | rfl
    · exact hv
    · refine valOK_sameDb cfg _ o _ hv rfl rfl ?_
      intro _ c v row hr hcv
      simp [expireInst, noCache] at hcv
  · intro k k' o1 o2 hk hk' hl hl' hc hi
    obtain ⟨p1, hp1, hc1, hi1, hob1, _⟩ := key k o1 hk
    obtain ⟨p2, hp2, hc2, hi2, hob2, _⟩ := key k' o2 hk'
    exact hinv.uniq k k' p1 p2 hp1 hp2 (by rw [← hob1]; exact hl) (by rw [← hob2]; exact hl')
      (by rw [← hc1, ← hc2]; exact hc) (by rw [← hi1, ← hi2]; exact hi)

/-- a new instance for a row nobody (live) holds -/
theorem inv_register (cfg : Cfg) (s s1 s' : State) (h : Hnd) (o : Inst)
    (hinv : OrmValInv cfg s) (hfree : s.objs h = none) (hs1 : s1.objs = s.objs)
    (hobjs : s'.objs = (register s1 h o).objs) (hlive : o.obsolete = false)
    (hdb : ∀ c i, ¬ (c = o.cls ∧ i = o.id) → s'.db c i = s.db c i)
    (hnone : ∀ k o2, s.objs k = some o2 → o2.obsolete = false → ¬ (o2.cls = o.cls ∧ o2.id = o.id))
    (hflag : FlagOK cfg o) (hval : ValOK cfg s'.db o) : OrmValInv cfg s' := by
  have key : ∀ k o', s'.objs k = some o' → (k = h ∧ o' = o) ∨
      (k ≠ h ∧ ∃ o2, s.objs k = some o2 ∧ o'.cls = o2.cls ∧ o'.id = o2.id ∧ o'.obsolete = o2.obsolete ∧
        o'.cached = o2.cached ∧ o'.pending = o2.pending ∧ o'.dirty = o2.dirty) := by
    intro k o' hk
    rw [hobjs] at hk
    simp only [register] at hk
    by_cases hkh : k = h
    · simp only [hkh, if_true, Option.some.injEq] at hk; exact Or.inl ⟨hkh, hk.symm⟩
    · simp only [hkh, if_false, Option.map_eq_some_iff, hs1] at hk
      obtain ⟨o2, ho2, rfl⟩ := hk
      refine Or.inr ⟨hkh, o2, ho2, ?_⟩
      split <;> simp
  constructor
  · intro k o' hk hl
    rcases key k o' hk with ⟨_, rfl⟩ | ⟨_, o2, ho2, hc, hi, hob, hca, hpe, _⟩
    · exact hval
    · have hl2 : o2.obsolete = false := by rw [← hob]; exact hl
      have hv := hinv.val k o2 ho2 hl2
      have hsame : s'.db o2.cls o2.id = s.db o2.cls o2.id := hdb _ _ (hnone k o2 ho2 hl2)
      exact ⟨by rw [hc, hi, hsame]; exact hv.rowExists, by rw [hc, hi, hsame, hca, hpe]; exact hv.cachedOk⟩
  · intro k o' hk
    rcases key k o' hk with ⟨_, rfl⟩ | ⟨_, o2, ho2, hc, hi, hob, hca, hpe, hdi⟩
    · exact hflag
    · exact flagOK_of_eq cfg o2 o' (hinv.flag k o2 ho2) hc hdi hpe
  · intro k k' o1 o2 hk hk' hl hl' hc hi
    rcases key k o1 hk with ⟨hk1, rfl⟩ | ⟨hk1, p1, hp1, hc1, hi1, hob1, _⟩ <;>
    rcases key k' o2 hk' with ⟨hk2, rfl⟩ | ⟨hk2, p2, hp2, hc2, hi2, hob2, _⟩
    · rw [hk1, hk2]
    · exact absurd ⟨by rw [← hc2, ← hc], by rw [← hi2, ← hi]⟩ (hnone k' p2 hp2 (by rw [← hob2]; exact hl'))
    · exact absurd ⟨by rw [← hc1, hc], by rw [← hi1, hi]⟩ (hnone k p1 hp1 (by rw [← hob1]; exact hl))
    · exact hinv.uniq k k' p1 p2 hp1 hp2 (by rw [← hob1]; exact hl) (by rw [← hob2]; exact hl')
        (by rw [← hc1, ← hc2]; exact hc) (by rw [← hi1, ← hi2]; exact hi)

theorem valOK_fresh (cfg : Cfg) (db : Cls → Id → Option Row) (cls : Cls) (id : Id) (row : Row)
    (h : db cls id = some row) : ValOK cfg db (freshInst cfg cls id row) := by
  constructor
  · exact ⟨row, h⟩
  · intro _ c v row' hr hcv
    simp only [freshInst] at hr hcv ⊢
    rw [h] at hr; injection hr with hr; subst hr
    rw [applyUpd_nil]; exact loadRow_ok _ _ _ _ _ hcv

theorem inv_create (cfg : Cfg) (s : State) (h : Hnd) (cls : Cls) (id : Id) (kvs : List (Col × Inp))
    (hinv : OrmValInv cfg s) : OrmValInv cfg (opCreate cfg s h cls id kvs).1 := by
  unfold opCreate
  split
  · exact hinv
  · rename_i hfree
    split
    · exact hinv
    · split
      · exact hinv
      · rename_i p hp
        dsimp only
        split
        · exact inv_congr _ _ _ hinv rfl rfl
        · rename_i hrow
          have hrow : s.db cls id = none := by simpa using hrow
          refine inv_register cfg s _ _ h _ hinv (by simpa using hfree) rfl rfl rfl ?_ ?_ (flagOK_fresh _ _ _ _) ?_
          · intro c i hne
            exact setRowDb_other _ _ _ _ _ _ hne
          · intro k o2 ho2 hl2 ⟨hc, hi⟩
            obtain ⟨row, hr⟩ := (hinv.val k o2 ho2 hl2).rowExists
            simp only [freshInst] at hc hi
            rw [hc, hi, hrow] at hr; simp at hr
          · exact valOK_fresh cfg _ _ _ _ (setRowDb_same _ _ _ _)

theorem fetchLog_objs (s : State) (v : Bool) (cls : Cls) (id : Id) : (fetchLog s v cls id).objs = s.objs := by
  unfold fetchLog; split <;> rfl

theorem fetchLog_db (s : State) (v : Bool) (cls : Cls) (id : Id) : (fetchLog s v cls id).db = s.db := by
  unfold fetchLog; split <;> rfl

theorem inv_fetch (cfg : Cfg) (s : State) (h : Hnd) (cls : Cls) (id : Id) (v : Bool)
    (hinv : OrmValInv cfg s)
    (hnone : ∀ h' o', s.objs h' = some o' → o'.obsolete = false → ¬ (o'.cls = cls ∧ o'.id = id)) :
    OrmValInv cfg (opFetch cfg s h cls id v).1 := by
  unfold opFetch
  split
  · exact hinv
  · rename_i hfree
    dsimp only
    split
    · exact inv_congr _ _ _ hinv (fetchLog_objs _ _ _ _) (fetchLog_db _ _ _ _)
    · rename_i row hrow
      refine inv_register cfg s (fetchLog s v cls id) _ h _ hinv (by simpa using hfree) (fetchLog_objs _ _ _ _) rfl rfl
        ?_ hnone (flagOK_fresh _ _ _ _) ?_
      · intro c i _
        show (register (fetchLog s v cls id) h _).db c i = _
        simp [register, fetchLog_db]
      · show ValOK cfg (register (fetchLog s v cls id) h _).db _
        have : (register (fetchLog s v cls id) h (freshInst cfg cls id row)).db = s.db := by simp [register, fetchLog_db]
        rw [this]; exact valOK_fresh cfg _ _ _ _ hrow

theorem live_refresh (cfg : Cfg) (s : State) (hr : Hnd) (hl : LiveTarget s hr) :
    LiveTarget (opRefresh cfg s hr).1 hr := by
  unfold opRefresh
  split
  · exact hl
  · rename_i o ho
    split
    · exact hl
    · split
      · exact hl
      · intro o' ho'; simp [setObj] at ho'; subst ho'; exact hl o ho

theorem live_fetch (cfg : Cfg) (s : State) (hr : Hnd) (k : Cls) (i : Id) (v : Bool) (hl : LiveTarget s hr) :
    LiveTarget (opFetch cfg s hr k i v).1 hr := by
  unfold opFetch
  split
  · exact hl
  · dsimp only
    split
    · intro o' ho'; rw [fetchLog_objs] at ho'; exact hl o' ho'
    · intro o' ho'; simp [register] at ho'; subst ho'; rfl

theorem live_read (cfg : Cfg) (s : State) (hr : Hnd) (c : Col) (hl : LiveTarget s hr) :
    LiveTarget (opRead cfg s hr c).1 hr := by
  unfold opRead
  split
  · exact hl
  · rename_i o ho
    split
    · exact hl
    · split
      · split
        · exact hl
        · split <;> (intro o' ho'; simp [setObj] at ho'; subst ho'; exact hl o ho)
      · split
        · exact hl
        · split <;> (intro o' ho'; exact hl o' (by simpa [logStmt] using ho'))

theorem live_set (cfg : Cfg) (s : State) (hr : Hnd) (kvs : List (Col × Inp)) (fail : Bool) (hl : LiveTarget s hr) :
    LiveTarget (opSet cfg s hr kvs fail).1 hr := by
  unfold opSet
  split
  · exact hl
  · rename_i o ho
    split
    · exact hl
    · split
      · exact hl
      · split
        · intro o' ho'; simp [setObj] at ho'; subst ho'; exact hl o ho
        · split
          · exact hl
          · split
            · intro o' ho'; exact hl o' (by simpa [sendUpdate] using ho')
            · split
              · intro o' ho'; simp [setObj] at ho'; subst ho'; exact hl o ho
              · intro o' ho'; exact hl o' (by simpa [sendUpdate] using ho')

theorem inv_refRow (cfg : Cfg) (s : State) (T : Cls) (r : Id) (hr : Hnd) (fresh : Option (Cls × Id))
    (hinv : OrmValInv cfg s) (hfresh : FreshOk s fresh) (hlive : LiveTarget s hr) :
    OrmValInv cfg (opRefRow cfg s T r hr fresh).1 := by
  unfold opRefRow
  have h1 : OrmValInv cfg (refGet cfg s hr fresh).1 ∧
      LiveTarget (refGet cfg s hr fresh).1 hr := by
    cases fresh with
    | none => exact ⟨inv_refresh _ _ _ hinv, live_refresh _ _ _ hlive⟩
    | some ki => exact ⟨inv_fetch _ _ _ _ _ _ hinv hfresh, live_fetch _ _ _ _ _ _ hlive⟩
  generalize (refGet cfg s hr fresh) = r1 at h1 ⊢
  obtain ⟨h1, hl1⟩ := h1
  dsimp only
  split
  · exact h1
  · split
    · exact h1
    · split
      · exact h1
      · split
        · exact h1
        · split
          · exact inv_destroy _ _ _ h1 hl1
          · have h2 := inv_read cfg r1.1 hr 0 h1
            have hl2 := live_read cfg r1.1 hr 0 hl1
            split
            · split
              · exact inv_syncUpdate _ _ _ _ (inv_set _ _ _ _ _ h2 hl2) (live_set _ _ _ _ _ hl2)
              · exact inv_set _ _ _ _ _ h2 hl2
            · exact h2

theorem inv_refSteps (cfg : Cfg) (s : State) (T : Cls) (r : Id) (refs : List RefStep)
    (hinv : OrmValInv cfg s) (hlib : LibRefSteps cfg T r s refs) :
    OrmValInv cfg (opRefSteps cfg s T r refs).1 := by
  induction refs generalizing s with
  | nil => exact hinv
  | cons a rest ih =>
    cases a with
    | sel k => exact ih _ (inv_congr _ _ _ hinv rfl rfl) hlib
    | row hr fresh =>
      obtain ⟨hf, hl, hrest⟩ := hlib
      simp only [opRefSteps]
      split
      · exact ih _ (inv_refRow _ _ _ _ _ _ hinv hf hl) hrest
      · exact inv_refRow _ _ _ _ _ _ hinv hf hl

theorem inv_destroyRefs (cfg : Cfg) (s : State) (h : Hnd) (refs : List RefStep) (hinv : OrmValInv cfg s)
    (hlib : LibStep cfg s (.destroy h refs)) : OrmValInv cfg (opDestroyRefs cfg s h refs).1 := by
  unfold opDestroyRefs
  split
  · exact hinv
  · rename_i o ho
    obtain ⟨h1, h2⟩ := hlib o ho
    dsimp only
    split
    · exact inv_destroy _ _ _ (inv_refSteps _ _ _ _ _ hinv h1) h2
    · exact inv_refSteps _ _ _ _ _ hinv h1

theorem inv_unpickle (cfg : Cfg) (s : State) (h : Hnd) (cls : Cls) (id : Id) (snap : Pend) (clash : Bool)
    (hinv : OrmValInv cfg s) (hlib : LibStep cfg s (.unpickle h cls id snap clash)) :
    OrmValInv cfg (opUnpickle cfg s h cls id snap clash).1 := by
  unfold opUnpickle
  split
  · exact hinv
  · rename_i hfree
    split
    · exact hinv
    · rename_i hc
      obtain ⟨hfresh, row, hrow, hsnap⟩ := hlib (by simpa using hc)
      refine inv_register cfg s s _ h _ hinv (by simpa using hfree) rfl rfl rfl (fun c i _ => rfl) hfresh
        (flagOK_clean _ _ rfl rfl) ?_
      refine ⟨⟨row, hrow⟩, ?_⟩
      intro _ c v row' hr hcv
      simp only [register, unpickledInst] at hr hcv ⊢
      rw [hrow] at hr; injection hr with hr; subst hr
      rw [applyUpd_nil]; exact hsnap c v hcv

/-- **the refinement invariant is preserved by every library operation** -/
theorem inv_step (cfg : Cfg) (s : State) (op : Op) (hinv : OrmValInv cfg s) (hlib : LibStep cfg s op) :
    OrmValInv cfg (step cfg s op).1 := by
  cases op with
  | create h cls id kvs => exact inv_create _ _ _ _ _ _ hinv
  | fetch h cls id v => exact inv_fetch _ _ _ _ _ _ hinv hlib
  | refresh h => exact inv_refresh _ _ _ hinv
  | selectStmt cls => exact inv_congr _ _ _ hinv rfl rfl
  | read h c => exact inv_read _ _ _ _ hinv
  | setattr h c inp fail => exact inv_setattr _ _ _ _ _ _ hinv hlib
  | set h kvs fail => exact inv_set _ _ _ _ _ hinv hlib
  | syncUpdate h fail => exact inv_syncUpdate _ _ _ _ hinv hlib
  | sync h fail => exact inv_sync _ _ _ _ hinv hlib
  | expire h => exact inv_expire _ _ _ hinv
  | expireAll => exact inv_expireAll _ _ _ hinv
  | expireAllCls cls => exact inv_expireAll _ _ _ hinv
  | destroy h refs => exact inv_destroyRefs _ _ _ _ hinv hlib
  | pickle h fail => exact inv_pickle _ _ _ _ hinv hlib
  | drop h => exact inv_drop _ _ _ hinv
  | unpickle h cls id snap clash => exact inv_unpickle _ _ _ _ _ _ _ hinv hlib
  | bulkDelete cls ids =>
    refine inv_dbagree _ _ _ hinv rfl ?_
    intro h o ho hl
    have := hlib h o ho hl
    simp only [step, logStmt]
    rw [if_neg this]
  | oobUpdate cls id c v => exact absurd hlib (by simp [LibStep])
  | oobDelete cls id => exact absurd hlib (by simp [LibStep])
  | oobInsert cls id vals => exact absurd hlib (by simp [LibStep])

theorem inv_init (cfg : Cfg) : OrmValInv cfg init :=
  ⟨fun h o ho => by simp [init] at ho, fun h o ho => by simp [init] at ho, fun h h' o o' ho => by simp [init] at ho⟩


/-! ### histories -/

/-- every operation of the history satisfies `P` in the state it is applied to -/
def Hist (P : State → Op → Prop) (cfg : Cfg) : State → List Op → Prop
  | _, [] => True
  | s, op :: ops => P s op ∧ Hist P cfg (step cfg s op).1 ops

/-- states reachable from the empty database by library operations -/
inductive LibReach (cfg : Cfg) : State → Prop
  | init : LibReach cfg init
  | step (s : State) (op : Op) : LibReach cfg s → LibStep cfg s op → LibReach cfg (step cfg s op).1

/-- states reachable by ANY operations (raw SQL, writes through dead objects, duplicate instances, …) -/
inductive AnyReach (cfg : Cfg) : State → Prop
  | init : AnyReach cfg init
  | step (s : State) (op : Op) : AnyReach cfg s → AnyReach cfg (step cfg s op).1

theorem run_append (cfg : Cfg) (s : State) (a b : List Op) : run cfg s (a ++ b) = run cfg (run cfg s a) b := by
  induction a generalizing s with
  | nil => rfl
  | cons op r ih => simp [run, ih]

theorem libReach_run (cfg : Cfg) (s : State) (ops : List Op) (hs : LibReach cfg s) (hh : Hist (LibStep cfg) cfg s ops) :
    LibReach cfg (run cfg s ops) := by
  induction ops generalizing s with
  | nil => exact hs
  | cons op r ih => exact ih _ (LibReach.step s op hs hh.1) hh.2

theorem anyReach_run (cfg : Cfg) (s : State) (ops : List Op) (hs : AnyReach cfg s) : AnyReach cfg (run cfg s ops) := by
  induction ops generalizing s with
  | nil => exact hs
  | cons op r ih => exact ih _ (AnyReach.step s op hs)

theorem allFlag_init (cfg : Cfg) : AllFlag cfg init := fun h o ho => by simp [init] at ho

theorem anyReach_flag (cfg : Cfg) (s : State) (hs : AnyReach cfg s) : AllFlag cfg s := by
  induction hs with
  | init => exact allFlag_init cfg
  | step s op _ ih => exact flag_step cfg s op ih

/-- latest value assigned to column `c` by a list of assignments (oldest first) -/
def latest : List (Col × Val) → Col → Option Val
  | [], _ => none
  | (c', v) :: r, c =>
    match latest r c with
    | some w => some w
    | none => if c = c' then some v else none

theorem plookup_foldl_passign (as : List (Col × Val)) (p0 : Pend) (c : Col) :
    plookup c (as.foldl (fun p kv => passign kv.1 kv.2 p) p0) =
      match latest as c with
      | some v => some v
      | none => plookup c p0 := by
  induction as generalizing p0 with
  | nil => simp [latest]
  | cons a r ih =>
    obtain ⟨c', v⟩ := a
    simp only [List.foldl_cons, latest]
    rw [ih]
    cases hl : latest r c with
    | some w => simp
    | none =>
      by_cases hc : c = c'
      · subst hc; simp [plookup_passign_same]
      · simp [hc, plookup_passign_ne _ _ _ _ hc]

/-! ### which operations send an UPDATE of a lazy class -/


/-- an UPDATE of a row of a lazy class -/
def lazyUpd (cfg : Cfg) : Stmt → Bool
  | .update c _ _ => cfg.lazyUpdate c
  | _ => false

/-- going from `s` to `s'` only appended statements, none of them an UPDATE of a lazy class -/
def NoLazyWrite (cfg : Cfg) (s s' : State) : Prop :=
  ∃ l, s'.log = s.log ++ l ∧ ∀ st ∈ l, lazyUpd cfg st = false

/-- the operations that write pending values of lazy objects -/
def IsFlushOp : Op → Bool
  | .syncUpdate .. => true
  | .sync .. => true
  | .pickle .. => true
  | .destroy _ refs => !refs.isEmpty
  | _ => false

theorem nlw_refl (cfg : Cfg) (s : State) : NoLazyWrite cfg s s := ⟨[], by simp, by simp⟩

theorem nlw_log_eq (cfg : Cfg) (s s' : State) (h : s'.log = s.log) : NoLazyWrite cfg s s' := ⟨[], by simp [h], by simp⟩

theorem nlw_one (cfg : Cfg) (s s' : State) (st : Stmt) (h : s'.log = s.log ++ [st]) (hs : lazyUpd cfg st = false) :
    NoLazyWrite cfg s s' := ⟨[st], h, by simp [hs]⟩

theorem nlw_upd (cfg : Cfg) (s s' : State) (c : Cls) (i : Id) (p : Pend) (h : s'.log = s.log ++ [.update c i p])
    (hc : ¬ cfg.lazyUpdate c = true) : NoLazyWrite cfg s s' :=
  ⟨[.update c i p], h, by simpa [lazyUpd] using hc⟩

theorem nlw_setattr (cfg : Cfg) (s : State) (h : Hnd) (c : Col) (inp : Inp) (fail : Bool) :
    NoLazyWrite cfg s (opSetattr cfg s h c inp fail).1 := by
  unfold opSetattr
  split
  · exact nlw_refl _ _
  · split
    · exact nlw_refl _ _
    · split
      · exact nlw_refl _ _
      · split
        · exact nlw_log_eq _ _ _ rfl
        · rename_i hlz
          split
          · exact nlw_upd _ _ _ _ _ _ rfl hlz
          · split
            · exact nlw_upd _ _ _ _ _ _ rfl hlz
            · exact nlw_upd _ _ _ _ _ _ rfl hlz

theorem nlw_set (cfg : Cfg) (s : State) (h : Hnd) (kvs : List (Col × Inp)) (fail : Bool) :
    NoLazyWrite cfg s (opSet cfg s h kvs fail).1 := by
  unfold opSet
  split
  · exact nlw_refl _ _
  · split
    · exact nlw_refl _ _
    · split
      · exact nlw_refl _ _
      · split
        · exact nlw_log_eq _ _ _ rfl
        · rename_i hlz
          split
          · exact nlw_refl _ _
          · split
            · exact nlw_upd _ _ _ _ _ _ rfl hlz
            · split
              · exact nlw_upd _ _ _ _ _ _ rfl hlz
              · exact nlw_upd _ _ _ _ _ _ rfl hlz

theorem nlw_read (cfg : Cfg) (s : State) (h : Hnd) (c : Col) : NoLazyWrite cfg s (opRead cfg s h c).1 := by
  unfold opRead
  split
  · exact nlw_refl _ _
  · split
    · exact nlw_refl _ _
    · split
      · split
        · exact nlw_refl _ _
        · split <;> exact nlw_one _ _ _ _ rfl rfl
      · split
        · exact nlw_refl _ _
        · split <;> exact nlw_one _ _ _ _ rfl rfl

theorem nlw_create (cfg : Cfg) (s : State) (h : Hnd) (cls : Cls) (id : Id) (kvs : List (Col × Inp)) :
    NoLazyWrite cfg s (opCreate cfg s h cls id kvs).1 := by
  unfold opCreate
  split
  · exact nlw_refl _ _
  · split
    · exact nlw_refl _ _
    · split
      · exact nlw_refl _ _
      · dsimp only
        split
        · exact nlw_one _ _ _ _ rfl rfl
        · refine ⟨[Stmt.insert cls id ((List.range (cfg.ncols cls)).map fun c => (c, applyUpd (fun _ => none) ‹Pend› c)), Stmt.selectRow cls id], by simp [register, logStmt], by simp [lazyUpd]⟩

theorem nlw_fetch (cfg : Cfg) (s : State) (h : Hnd) (cls : Cls) (id : Id) (v : Bool) :
    NoLazyWrite cfg s (opFetch cfg s h cls id v).1 := by
  have h1 : NoLazyWrite cfg s (fetchLog s v cls id) := by
    unfold fetchLog; split
    · exact nlw_refl _ _
    · exact nlw_one _ _ _ _ rfl rfl
  unfold opFetch
  split
  · exact nlw_refl _ _
  · dsimp only
    split
    · exact h1
    · obtain ⟨l, hl, hl2⟩ := h1; exact ⟨l, by simpa [register] using hl, hl2⟩

theorem nlw_refresh (cfg : Cfg) (s : State) (h : Hnd) : NoLazyWrite cfg s (opRefresh cfg s h).1 := by
  unfold opRefresh
  split
  · exact nlw_refl _ _
  · split
    · exact nlw_refl _ _
    · split
      · exact nlw_refl _ _
      · exact nlw_log_eq _ _ _ rfl

theorem nlw_destroy (cfg : Cfg) (s : State) (h : Hnd) : NoLazyWrite cfg s (opDestroy s h).1 := by
  unfold opDestroy
  split
  · exact nlw_refl _ _
  · exact nlw_one _ _ _ _ rfl rfl

theorem plookup_foldl_passign_enc (e : Col → Val → Val) (as : List (Col × Val)) (p0 : Pend) (c : Col) :
    plookup c (as.foldl (fun p kv => passign kv.1 (e kv.1 kv.2) p) p0) =
      match latest as c with
      | some v => some (e c v)
      | none => plookup c p0 := by
  induction as generalizing p0 with
  | nil => simp [latest]
  | cons a r ih =>
    obtain ⟨c', v⟩ := a
    simp only [List.foldl_cons, latest]
    rw [ih]
    cases hl : latest r c with
    | some w => simp
    | none =>
      by_cases hc : c = c'
      · subst hc; simp [plookup_passign_same]
      · simp [hc, plookup_passign_ne _ _ _ _ hc]

end SqlObjVerif.OrmVal
