import SqlObjVerif.Lemmas.EvMainX
/-!
C19 translator tie, part 2: a kwargs dict read per column (`colVec`, `vecInvalid`, `vecEmpty`, `unknownKey` of the hand
model) in terms of its column / non-column items, which is how `set` sees it.
-/
namespace SqlObjVerif.Events
open SqlObjVerif.PyEv
open SqlObjVerif.PyMain (R mapR ofOpt dget dhas dset dupdate dictOf sortByKey insByKey Exc FnKind)

/-- the column keywords / the other keywords of a kwargs dict -/
def colsOf (n : Nat) (kw : Kw) : Kw := kw.filter fun e => Nat.blt e.1 n
def extraOf (n : Nat) (kw : Kw) : Kw := kw.filter fun e => !Nat.blt e.1 n

theorem lookup_mem {α : Type} (k : Nat) (v : α) (l : List (Nat × α)) (h : List.lookup k l = some v) : (k, v) ∈ l := by
  induction l with
  | nil => simp at h
  | cons e l ih =>
    rw [List.lookup_cons] at h
    by_cases hk : k = e.1
    · subst hk; simp at h; subst h; simp
    · have : (k == e.1) = false := by simpa using hk
      rw [this] at h
      exact List.mem_cons_of_mem _ (ih h)

theorem lookup_of_mem {α : Type} (k : Nat) (v : α) (l : List (Nat × α)) (hnd : (l.map (·.1)).Nodup) (h : (k, v) ∈ l) :
    List.lookup k l = some v := by
  induction l with
  | nil => simp at h
  | cons e l ih =>
    simp only [List.map_cons, List.nodup_cons] at hnd
    rw [List.lookup_cons]
    simp only [List.mem_cons] at h
    rcases h with rfl | h
    · simp
    · have hk : k ≠ e.1 := fun hk => hnd.1 (hk ▸ List.mem_map_of_mem (f := (·.1)) h)
      have : (k == e.1) = false := by simpa using hk
      rw [this]; exact ih hnd.2 h

theorem lookup_filter_key {α : Type} (p : Nat → Bool) (k : Nat) (l : List (Nat × α)) :
    List.lookup k (l.filter fun e => p e.1) = if p k then List.lookup k l else none := by
  induction l with
  | nil => simp
  | cons e l ih =>
    obtain ⟨a, b⟩ := e
    rw [List.filter_cons]
    by_cases hk : k = a
    · subst hk
      cases hp : p k <;> simp [hp, ih]
    · have hb : (k == a) = false := by simpa using hk
      cases hp : p a <;> simp [ih, List.lookup_cons, hb]

theorem colVec_colsOf (n : Nat) (kw : Kw) : colVec n (colsOf n kw) = colVec n kw := by
  unfold colVec Kw.get colsOf
  apply List.map_congr_left
  intro k hk
  rw [lookup_filter_key (fun j => Nat.blt j n)]
  have : k < n := by simpa using hk
  simp [this]

theorem keys_filter_nodup {α : Type} (l : List (Nat × α)) (p : Nat × α → Bool) (h : (l.map (·.1)).Nodup) :
    ((l.filter p).map (·.1)).Nodup := (List.filter_sublist.map _).nodup h

theorem colsOf_lt (n : Nat) (kw : Kw) : ∀ e ∈ colsOf n kw, e.1 < n := by
  intro e he
  simpa [colsOf] using (List.mem_filter.mp he).2

theorem vecEmpty_kw (n : Nat) (kw : Kw) (hnd : (kw.map (·.1)).Nodup) : vecEmpty (colVec n kw) = (colsOf n kw).isEmpty := by
  rw [← colVec_colsOf, vecEmpty_colVec _ _ (colsOf_lt n kw) (keys_filter_nodup _ _ hnd)]

theorem unknownKey_kw (n : Nat) (kw : Kw) : unknownKey n kw = !(extraOf n kw).isEmpty := by
  unfold unknownKey extraOf
  induction kw with
  | nil => rfl
  | cons e l ih =>
    rw [List.any_cons, List.filter_cons, ih]
    by_cases h : e.1 < n
    · have : ¬ n ≤ e.1 := Nat.not_le.mpr h
      have hb : Nat.blt e.1 n = true := by rw [Nat.blt_eq]; exact h
      simp [this, hb]
    · have : n ≤ e.1 := Nat.le_of_not_lt h
      have hb : Nat.blt e.1 n = false := by
        cases hc : Nat.blt e.1 n
        · rfl
        · rw [Nat.blt_eq] at hc; exact absurd hc h
      simp [this, hb]

theorem vecInvalid_kw (n : Nat) (kw : Kw) (hnd : (kw.map (·.1)).Nodup) :
    vecInvalid (colVec n kw) = (colsOf n kw).any fun e => decide (e.2 = .bad) := by
  unfold vecInvalid colVec Kw.get
  rw [Bool.eq_iff_iff]
  simp only [List.contains_iff_mem, List.mem_map, List.mem_range, List.any_eq_true, decide_eq_true_eq]
  constructor
  · rintro ⟨k, hk, hl⟩
    refine ⟨(k, .bad), ?_, rfl⟩
    simp [colsOf, lookup_mem _ _ _ hl, hk]
  · rintro ⟨⟨k, v⟩, he, hv⟩
    simp only at hv; subst hv
    have := List.mem_filter.mp he
    refine ⟨k, by simpa using this.2, lookup_of_mem _ _ _ hnd this.1⟩

end SqlObjVerif.Events
