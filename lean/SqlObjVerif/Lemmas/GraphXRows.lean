import SqlObjVerif.Lemmas.GraphXCols
import SqlObjVerif.Lemmas.GraphXPure
/-!
Symbolic execution of the TRANSLATED `destroySelf` (C12), part 3: the two loops over the lazy select result.
* the set-null pass (`for5_loop`): the inner loop over the keys of `setnull` (`for6_loop`) finds the columns of the
  candidate row that hold the victim's id, `row.set(**clear)` + the lazy `syncUpdate()` write them (`set_sync`,
  `for5_step`), and over all candidates this is the fold of `nullOne` — which `foldl_nullOne_eq` turns into the model's
  `nullRefs`.  Invariants: no pending assignment is left, ids stay unique per class.
* the cascade pass (`for8_loop`): exactly the model's `destroyRows` (a candidate whose row is gone is skipped).
-/
namespace SqlObjVerif.PyDestroy
variable {H W : Type}
theorem loopStep_dict [DecidableEq H] (I : Iface H W) (d : Val H) (x : Nat) (body : St H W → Res H W) :
    loopStep I (.dict d) x body = fun st a => body (st.setVar x a) := by
  funext st a
  simp [loopStep, liveAt]
@[simp] theorem iterOf_dict [DecidableEq H] (I : Iface H W) (w : W) (d : Val H) : iterOf I w (.dict d) = keysOf d := rfl
end SqlObjVerif.PyDestroy

namespace SqlObjVerif.Graph
open SqlObjVerif.PyDestroy
open SqlObjVerif.PyDestroy.Extracted
variable (S : Schema) (lz : Nat → Bool) (rec : DB → Nat → Nat → Res) (c i : Nat)

@[simp] theorem keysOf_dbody (ns : List Nat) : keysOf (dbody ns) = some (ns.map fun f => .obj (.name f)) := by
  induction ns with
  | nil => rfl
  | cons f ns ih => unfold dbody at ih ⊢; simp [Val.ofList, keysOf, ih]

@[simp] theorem kwCols_dbody (ns : List Nat) : (pairsOf (dbody ns)).bind kwCols = some ns := by
  induction ns with
  | nil => rfl
  | cons f ns ih =>
    unfold dbody at ih ⊢
    simp only [List.map_cons, Val.ofList, pairsOf]
    cases hp : pairsOf (Val.ofList (ns.map fun f => (.pair (.obj (.name f)) .none : PVal))) with
    | none => simp [hp] at ih
    | some l => simp [hp] at ih; simp [kwCols, ih]

theorem pairsOf_dbody (ns : List Nat) : ∃ l, pairsOf (dbody ns) = some l ∧ kwCols l = some ns := by
  have := kwCols_dbody ns
  cases hp : pairsOf (dbody ns) with
  | none => simp [hp] at this
  | some l => exact ⟨l, rfl, by simpa [hp] using this⟩

theorem instCol_of {w : XW} {k j : Nat} {r : Row} (hp : w.pend = []) (hr : rowOf w.db k j = some r) (f : Nat) :
    instCol w k j f = .ok (optVal (r.val f)) := by
  simp [instCol, hr, hp, pendHas]

/-- `for name in setnull`: which of the `cascade='null'` columns of this row hold the victim's id -/
theorem for6_step (k j f : Nat) (r : Row) (w : XW) (env : Env Hnd) (cs : List Nat) (hp : w.pend = [])
    (hr : rowOf w.db k j = some r) (h12 : env 12 = some (.obj (.inst k j))) (h13 : env 13 = some (.dict (dbody cs))) : ∃ envA,
    destroySelf_for6.exec (dIface S lz rec c i) (St.setVar ⟨w, env⟩ 14 (.obj (.name f))) = .norm ⟨w, envA⟩ ∧
    envA 13 = some (.dict (dbody (if r.val f = some i then addKey f cs else cs))) ∧
    ∀ x, x ≠ 13 → x ≠ 14 → envA x = env x := by
  by_cases hv : r.val f = some i
  · refine ⟨(env.put 14 (.obj (.name f))).put 13 (.dict (dbody (addKey f cs))), ?_, ?_, ?_⟩
    · unfold destroySelf_for6
      drun
      simp [instCol_of hp hr, hv, optVal, vdSet_dbody]
    · simp [hv]
    · intro x h13 h14; simp [h13, h14]
  · refine ⟨env.put 14 (.obj (.name f)), ?_, ?_, ?_⟩
    · unfold destroySelf_for6
      drun
      simp [instCol_of hp hr, hv]
    · simp [hv, h13]
    · intro x h13 h14; simp [h14]

theorem for6_loop (k j : Nat) (r : Row) (w : XW) (hp : w.pend = []) (hr : rowOf w.db k j = some r) (ns : List Nat) :
    ∀ (env : Env Hnd) (cs : List Nat), env 12 = some (.obj (.inst k j)) → env 13 = some (.dict (dbody cs)) →
    ∃ env', forLoop (fun st a => destroySelf_for6.exec (dIface S lz rec c i) (st.setVar 14 a)) (ns.map fun f => .obj (.name f)) ⟨w, env⟩ =
        .norm ⟨w, env'⟩ ∧
      env' 13 = some (.dict (dbody (addKeys cs (ns.filter fun f => r.val f == some i)))) ∧
      ∀ x, x ≠ 13 → x ≠ 14 → env' x = env x := by
  induction ns with
  | nil => intro env cs _ h; exact ⟨env, rfl, by simpa [addKeys] using h, fun _ _ _ => rfl⟩
  | cons f ns ih =>
    intro env cs h12 h13
    obtain ⟨envA, hA, a13, af⟩ := for6_step S lz rec c i k j f r w env cs hp hr h12 h13
    simp only [List.map_cons, forLoop, hA]
    obtain ⟨env', e1, e13, ef⟩ := ih envA _ (by rw [af 12 (by decide) (by decide)]; exact h12) a13
    refine ⟨env', e1, ?_, fun x x13 x14 => by rw [ef x x13 x14, af x x13 x14]⟩
    rw [e13]
    by_cases hv : r.val f = some i <;> simp [addKeys, hv]

theorem applyNull_nil (db : DB) (k j : Nat) : applyNull db k j [] = db := by
  unfold applyNull
  have : ∀ r : Row, clearRow [] r = r := by
    intro r
    apply Row.ext_val (clearRow_cls ..) (clearRow_id ..) (clearRow_len ..)
    intro f; simp [clearRow_val]
  simp [this]

theorem gCall_set (lz rec) (w : XW) (k j : Nat) (kw : List (PVal × PVal)) (fs : List Nat) (h : kwCols kw = some fs) :
    gCall lz rec w (.obj (.inst k j)) "set" [] kw = .ret (gSet lz w k j fs) .none := by
  simp [gCall, h]

theorem gCall_sync (lz rec) (w : XW) (k j : Nat) :
    gCall lz rec w (.obj (.inst k j)) "syncUpdate" [] [] = .ret (gSync w k j) .none := by
  simp [gCall]

/-- what `row.set(**clear)` + the lazy `syncUpdate()` do to a world without pending assignments -/
theorem set_sync (w : XW) (k j : Nat) (fs : List Nat) (hp : w.pend = []) :
    (if lz k then gSync (gSet lz w k j fs) k j else gSet lz w k j fs) = ⟨applyNull w.db k j fs, []⟩ := by
  cases w with | mk db pend =>
  simp only at hp; subst hp
  by_cases hf : fs = []
  · subst hf
    cases lz k <;> simp [gSet, gSync, applyNull_nil]
  · have : fs.isEmpty = false := by cases fs <;> simp_all
    cases hl : lz k <;> simp [gSet, gSync, this, hl]

/-- one run of the body of the set-null pass, for a candidate whose row is still there -/
theorem for5_step (k j : Nat) (r : Row) (w : XW) (env : Env Hnd) (ns : List Nat) (hp : w.pend = [])
    (hr : rowOf w.db k j = some r) (h11 : env 11 = some (.dict (dbody ns))) : ∃ envA,
    destroySelf_for5.exec (dIface S lz rec c i) (St.setVar ⟨w, env⟩ 12 (.obj (.inst k j))) =
      .norm ⟨⟨applyNull w.db k j (addKeys [] (ns.filter fun f => r.val f == some i)), []⟩, envA⟩ ∧
    ∀ x, x ≠ 12 → x ≠ 13 → x ≠ 14 → envA x = env x := by
  obtain ⟨env6, h6, h613, h6f⟩ := for6_loop S lz rec c i k j r w hp hr ns
    ((env.put 12 (.obj (.inst k j))).put 13 (.dict (dbody []))) [] (by simp) (by simp)
  obtain ⟨kw, hkw, hcols⟩ := pairsOf_dbody (addKeys [] (ns.filter fun f => r.val f == some i))
  have e11 : env6 11 = some (.dict (dbody ns)) := by rw [h6f 11 (by decide) (by decide)]; simp [h11]
  have e12 : env6 12 = some (.obj (.inst k j)) := by rw [h6f 12 (by decide) (by decide)]; simp
  refine ⟨env6, ?_, ?_⟩
  · unfold destroySelf_for5
    simp only [Block.exec, Stmt.exec, Expr.eval, St.setVar, dbody, Val.ofList, List.map_nil] at h6 ⊢
    simp [h11, loopStep_dict, St.setVar, h6]
    drun
    simp [e12, gCall_set _ _ _ _ _ _ _ hcols, gCall_sync]
    have := set_sync lz w k j (addKeys [] (ns.filter fun f => r.val f == some i)) hp
    cases hl : lz k <;> simp [hl] at this ⊢ <;> simp [this]
  · intro x h12 h13 h14
    rw [h6f x h13 h14]; simp [h12, h13]


@[simp] theorem liveAt_sel (fdc self) (w : XW) (k : Nat) (q : PVal) (k' j : Nat) :
    liveAt (gIface S lz fdc rec self) w (selV k q) (.obj (.inst k' j)) = present w.db k' j := rfl

theorem rowOf_of_present {db : DB} {k j : Nat} (h : present db k j = true) :
    ∃ r, rowOf db k j = some r ∧ r ∈ db.rows ∧ r.cls = k ∧ r.id = j := by
  unfold present at h
  rw [List.any_eq_true] at h
  obtain ⟨x, hx, hx2⟩ := h
  cases hf : rowOf db k j with
  | none =>
    unfold rowOf at hf
    rw [List.find?_eq_none] at hf
    exact absurd hx2 (hf x hx)
  | some r =>
    unfold rowOf at hf
    have h1 := List.find?_some hf
    have h2 := List.mem_of_find?_eq_some hf
    simp only [Bool.and_eq_true, beq_iff_eq] at h1
    exact ⟨r, rfl, h2, h1.1, h1.2⟩

theorem nullOne_absent (k : Nat) (cols : List Nat) (db : DB) (j : Nat) (h : present db k j = false) :
    nullOne S k cols i db j = db := by
  unfold nullOne
  have : db.rows.map (fun r => if r.cls == k && r.id == j then nullRow S k cols i r else r) = db.rows := by
    rw [List.map_congr_left (g := id)]
    · simp
    · intro r hr
      have : (r.cls == k && r.id == j) = false := by
        cases hb : (r.cls == k && r.id == j) with
        | false => rfl
        | true =>
          have : present db k j = true := by
            unfold present; rw [List.any_eq_true]; exact ⟨r, hr, hb⟩
          rw [h] at this; cases this
      simp [this]
  rw [this]

/-- the UPDATE of one candidate row is the model's `nullRow` on that row (ids unique per class) -/
theorem applyNull_eq_nullOne (k : Nat) (cols : List Nat) (db : DB) (j : Nat) (r : Row) (hwf : db.WF)
    (hr : r ∈ db.rows) (hk : r.cls = k) (hj : r.id = j) :
    applyNull db k j (addKeys [] ((addKeys [] (nullCols S k cols)).filter fun f => r.val f == some i)) =
      nullOne S k cols i db j := by
  unfold applyNull nullOne
  congr 1
  apply List.map_congr_left
  intro r' hr'
  by_cases hb : (r'.cls == k && r'.id == j) = true
  · simp only [hb, if_true]
    simp only [Bool.and_eq_true, beq_iff_eq] at hb
    have : r' = r := hwf.uniq hr' hr (by simp [Row.key, hb.1, hb.2, hk, hj])
    subst this
    apply clearRow_eq_nullRow S k cols i _ _ hk
    intro f
    simp only [mem_addKeys, List.not_mem_nil, false_or, List.mem_filter, nullCols, beq_iff_eq]
    grind
  · simp [hb]

/-- the set-null pass over the rows the select returned -/
theorem for5_loop (k : Nat) (cols : List Nat) (q : PVal) (ids : List Nat) :
    ∀ (w : XW) (env : Env Hnd), w.pend = [] → w.db.WF → env 11 = some (.dict (dbody (addKeys [] (nullCols S k cols)))) →
    ∃ env', forLoop (loopStep (dIface S lz rec c i) (selV k q) 12 fun st' => destroySelf_for5.exec (dIface S lz rec c i) st')
        (ids.map fun j => .obj (.inst k j)) ⟨w, env⟩ =
        .norm ⟨⟨ids.foldl (nullOne S k cols i) w.db, []⟩, env'⟩ ∧
      ∀ x, x ≠ 12 → x ≠ 13 → x ≠ 14 → env' x = env x := by
  induction ids with
  | nil =>
    intro w env hp _ _
    refine ⟨env, ?_, fun _ _ _ _ => rfl⟩
    cases w; simp only at hp; subst hp; rfl
  | cons j ids ih =>
    intro w env hp hwf h11
    simp only [List.map_cons, forLoop, loopStep, liveAt_sel, List.foldl_cons]
    by_cases hl : present w.db k j = true
    case neg =>
      have hl' : present w.db k j = false := by simpa using hl
      simp only [hl', Bool.false_eq_true, if_false]
      rw [nullOne_absent S i k cols w.db j hl']
      exact ih w env hp hwf h11
    case pos =>
      simp only [hl, if_true]
      obtain ⟨r, hr, hmem, hk, hj⟩ := rowOf_of_present hl
      obtain ⟨envA, hA, af⟩ := for5_step S lz rec c i k j r w env _ hp hr h11
      rw [hA, applyNull_eq_nullOne S i k cols w.db j r hwf hmem hk hj]
      obtain ⟨env', e1, ef⟩ := ih ⟨nullOne S k cols i w.db j, []⟩ envA rfl (nullOne_wf j hwf)
        (by rw [af 11 (by decide) (by decide) (by decide)]; exact h11)
      exact ⟨env', e1, fun x a b d => by rw [ef x a b d, af x a b d]⟩

def resSt (w : XW) (env : Env Hnd) : Res → PyDestroy.Res Hnd XW
  | .ok db => .norm ⟨{ w with db := db }, env⟩
  | .refused db => .exc ⟨{ w with db := db }, env⟩ "SQLObjectIntegrityError"
  | .fuel db => .exc ⟨{ w with db := db }, env⟩ "RecursionError"

theorem gCall_destroy (lz rec) (w : XW) (k j : Nat) :
    gCall lz rec w (.obj (.inst k j)) "destroySelf" [] [] = recRes w (rec w.db k j) := by
  simp [gCall]

/-- the cascade pass over the rows the select returned: the model's `destroyRows` -/
theorem for8_loop (k : Nat) (q : PVal) (ids : List Nat) :
    ∀ (w : XW) (env : Env Hnd), ∃ env',
      forLoop (loopStep (dIface S lz rec c i) (selV k q) 12 fun st' => destroySelf_for8.exec (dIface S lz rec c i) st')
        (ids.map fun j => .obj (.inst k j)) ⟨w, env⟩ = resSt w env' (destroyRows rec k ids w.db) ∧
      ∀ x, x ≠ 12 → env' x = env x := by
  induction ids with
  | nil => intro w env; exact ⟨env, rfl, fun _ _ => rfl⟩
  | cons j ids ih =>
    intro w env
    simp only [List.map_cons, forLoop, loopStep, liveAt_sel]
    unfold destroyRows
    by_cases hl : present w.db k j = true
    case neg =>
      have hl' : present w.db k j = false := by simpa using hl
      simp only [hl', Bool.false_eq_true, if_false]
      exact ih w env
    case pos =>
      simp only [hl, if_true]
      have hb : destroySelf_for8.exec (dIface S lz rec c i) (St.setVar ⟨w, env⟩ 12 (.obj (.inst k j))) =
          resSt w (env.put 12 (.obj (.inst k j))) (rec w.db k j) := by
        unfold destroySelf_for8
        drun
        simp [gCall_destroy]
        cases rec w.db k j <;> simp [recRes, resSt]
      rw [hb]
      cases hr : rec w.db k j with
      | ok db' =>
        simp only [resSt]
        obtain ⟨env', e1, ef⟩ := ih { w with db := db' } (env.put 12 (.obj (.inst k j)))
        refine ⟨env', e1, fun x a => by rw [ef x a]; simp [a]⟩
      | refused db' => exact ⟨env.put 12 (.obj (.inst k j)), rfl, fun x a => by simp [a]⟩
      | fuel db' => exact ⟨env.put 12 (.obj (.inst k j)), rfl, fun x a => by simp [a]⟩

end SqlObjVerif.Graph
