import SqlObjVerif.Lemmas.OrmValXSync
/-!
Symbolic execution of the translated attribute readers `_SO_loadValue` (classes that cache values) and
`_SO_getValue` (classes that do not) against `opRead` (see `Lemmas/OrmValX.lean`).
-/
namespace SqlObjVerif.OrmVal
open SqlObjVerif.PyMain
open SqlObjVerif.PyMain.Extracted

theorem plookup_insByKey (c : Col) (x : Col × Val) (p : Pend) (hx : ∀ e ∈ p, e.1 ≠ x.1) :
    plookup c (insByKey x p) = if c = x.1 then some x.2 else plookup c p := by
  induction p with
  | nil => simp [insByKey, plookup]
  | cons y r ih =>
    obtain ⟨yk, yv⟩ := y
    have hy : yk ≠ x.1 := hx (yk, yv) (by simp)
    simp only [insByKey]
    split
    · simp [plookup]
    · simp only [plookup]
      rw [ih (fun e he => hx e (by simp [he]))]
      by_cases h1 : c = yk
      · subst h1; simp [hy]
      · simp [h1]

theorem plookup_sortByKey (c : Col) (cv : Pend) (hnd : (cv.map (·.1)).Nodup) :
    plookup c (sortByKey cv) = PyMain.dget c cv := by
  induction cv with
  | nil => rfl
  | cons x l ih =>
    simp only [List.map_cons, List.nodup_cons] at hnd
    have : sortByKey (x :: l) = insByKey x (sortByKey l) := rfl
    rw [this, plookup_insByKey, ih hnd.2]
    · simp only [PyMain.dget]
      by_cases h1 : x.1 = c
      · simp [h1]
      · have : ¬ c = x.1 := fun h => h1 h.symm
        simp [h1, this]
    · intro e he heq
      rw [mem_sortByKey] at he
      exact hnd.1 (by rw [← heq]; exact List.mem_map_of_mem he)

theorem dget_append_single {α : Type} (c k : Nat) (v : α) (l : List (Nat × α)) :
    PyMain.dget c (l ++ [(k, v)]) = match PyMain.dget c l with
      | some x => some x
      | Option.none => if k = c then some v else Option.none := by
  induction l with
  | nil => simp [PyMain.dget]
  | cons y r ih =>
    simp only [List.cons_append, PyMain.dget]
    split
    · rfl
    · exact ih

theorem dget_none_of_not_mem {α : Type} (c : Nat) (l : List (Nat × α)) (h : c ∉ l.map (·.1)) : PyMain.dget c l = Option.none := by
  induction l with
  | nil => rfl
  | cons y r ih =>
    simp only [List.map_cons, List.mem_cons, not_or] at h
    simp only [PyMain.dget]
    rw [if_neg (fun e => h.1 e.symm)]
    exact ih h.2

def withVals (w : World State) (f : Nat → Option CVal) : World State := { w with o := { w.o with vals := f } }

/-- the attributes after the pending database-side values `cv` were put back over `base` -/
def pendVals (k : Klass) (cv : Pend) (base : Nat → Option CVal) : Nat → Option CVal := fun c =>
  match PyMain.dget c cv with
  | some v => some (decE k c v)
  | Option.none => base c

theorem pendVals_nil (k : Klass) (base : Nat → Option CVal) : pendVals k [] base = base := rfl

/-- the loop of `_SO_loadValue` that puts the pending values back over the reloaded ones -/
theorem loadValue_loop {conn : ConnOps State} {call : CallT State} {w : World State} {cv : Pend}
    {v0 v1 v2 v3 a b d : Option PV} {ls : List (List PV)} {ds : List PDict} {r : Res State}
    (hF : forLoop (bindThen (.two 4 5) fun st' => Block.exec conn call st' loadValue_for0)
        (cv.map fun e => PV.pair (.name e.1) (ofVal e.2))
        { w := w, vars := [v0, v1, v2, v3, a, b, d], lists := ls, dicts := ds } = r)
    (hnd : (cv.map (·.1)).Nodup) :
    ∃ a' b' d', r =
      .norm { w := withVals w (pendVals w.k cv w.o.vals), vars := [v0, v1, v2, v3, a', b', d'], lists := ls, dicts := ds } := by
  obtain ⟨st', rfl, a', b', d', rfl⟩ := forLoop_map_inv hF
    (fun done st => ∃ a b d, st =
      { w := withVals w (pendVals w.k done w.o.vals), vars := [v0, v1, v2, v3, a, b, d], lists := ls, dicts := ds })
    ⟨a, b, d, by simp [withVals, pendVals_nil]⟩
    (by
      rintro done ⟨k, v⟩ rest st hcs ⟨a, b, d, rfl⟩
      have hk : PyMain.dget k done = Option.none := by
        apply dget_none_of_not_mem
        rw [hcs] at hnd
        simp only [List.map_append, List.map_cons] at hnd
        have := (List.nodup_append.mp hnd).2.2
        intro hmem
        exact this k hmem k (by simp) rfl
      refine ⟨_, ?_, ⟨some (.name k), some (ofVal (decE w.k k v)),
        some (if w.k.hasTo k then .fn .toPy k else .none), rfl⟩⟩
      simp only [bind_two, loadValue_for0, withVals]
      cases hto : w.k.hasTo k <;> pymrun <;> simp [decE, hto, pendVals]
      all_goals
        funext c
        simp only [pendVals, dget_append_single]
        by_cases hc : c = k
        · subst hc; simp [hk, hto, decE]
        · have hc' : ¬ k = c := fun e => hc e.symm
          cases hd : PyMain.dget c done <;> simp [hc, hc', decE])
  exact ⟨a', b', d', rfl⟩

theorem pendVals_cacheAll (cfg : Cfg) (i : Iface) (cls : Cls) (hi : i.Ok cfg cls) (cached : Col → Option Val) (row : Row)
    (hattrs : ∀ c, cfg.ncols cls ≤ c → cached c = none) (cv : Pend) (hnd : (cv.map (·.1)).Nodup) :
    pendVals (klassOf cfg i cls) cv
        (fun c => if c < cfg.ncols cls then some (decE (klassOf cfg i cls) c (row c)) else cached c) =
      cacheAll (cfg.dec cls) (loadRow (cfg.dec cls) (cfg.ncols cls) row) (sortByKey cv) := by
  rw [vals_loadRow cfg i cls hi cached row hattrs]
  funext c
  unfold pendVals cacheAll
  rw [plookup_sortByKey c cv hnd]
  cases PyMain.dget c cv <;> simp [decE_klassOf cfg i cls hi]

theorem loadValueX_eq (cfg : Cfg) (i : Iface) (s : State) (h : Hnd) (o : Inst) (cv : Pend) (fail : Bool) (c : Col)
    (ho : s.objs h = some o) (hrep : Rep cv o.pending)
    (hattrs : ∀ c, cfg.ncols o.cls ≤ c → o.cached c = none) (hc : c < cfg.ncols o.cls) (hi : i.Ok cfg o.cls)
    (hcache : cfg.cacheValues o.cls = true) :
    absVal o.cls o.id h (loadValueX o.cls o.id (cfg.ncols o.cls) h (absW cfg i s o cv fail) c) = some (opRead cfg s h c) := by
  obtain ⟨cls, id, cached, expired, dirty, pending, obsolete, inCache⟩ := o
  have hs := hrep.sorted
  have hnd := hrep.nodup
  simp only at hs hattrs hc hi hcache
  subst hs
  have hn : cfg.ncols cls ≠ 0 := fun h0 => by rw [h0] at hc; exact absurd hc (Nat.not_lt_zero _)
  have hnc : ¬ cfg.ncols cls ≤ c := Nat.not_le_of_gt hc
  unfold loadValueX loadValueProg loadValue_nlocals loadValue_nlists loadValue_ndicts opRead
  cases hval : cached c with
  | some v =>
    pymrun
    simp [absVal, conc, instOf, ho, hnc, hcache, hval]
    exact setObj_self _ _ _ ho
  | none =>
    cases hdb : s.db cls id with
    | none =>
      pymrun
      simp [absVal, conc, instOf, excOut, ho, hnc, hcache, hval, hdb]
    | some row =>
      pymrun
      rw [selectInitX_run cls id (cfg.ncols cls) h _ row rfl]
      pymrun
      generalize hF : forLoop _ _ _ = r
      obtain ⟨a', b', d', rfl⟩ := loadValue_loop hF hnd
      clear hF
      simp only [withVals]
      have hvals := pendVals_cacheAll cfg i cls hi cached row hattrs cv hnd
      simp only [klassOf, hcache] at hvals
      rw [hvals]
      have hget : cacheAll (cfg.dec cls) (loadRow (cfg.dec cls) (cfg.ncols cls) row) (sortByKey cv) c =
          some (cfg.dec cls c (applyUpd row (sortByKey cv) c)) := by
        unfold cacheAll applyUpd loadRow
        cases plookup c (sortByKey cv) <;> simp [hc]
      pymrun
      simp [absVal, conc, instOf, ho, hnc, hcache, hval, hdb]


theorem getValueX_eq (cfg : Cfg) (i : Iface) (s : State) (h : Hnd) (o : Inst) (cv : Pend) (fail : Bool) (c : Col)
    (ho : s.objs h = some o) (hrep : Rep cv o.pending)
    (hc : c < cfg.ncols o.cls) (hn1 : cfg.ncols o.cls ≠ 1) (hi : i.Ok cfg o.cls)
    (hcache : cfg.cacheValues o.cls = false) :
    absVal o.cls o.id h (getValueX o.cls o.id (cfg.ncols o.cls) h (absW cfg i s o cv fail) c) = some (opRead cfg s h c) := by
  obtain ⟨cls, id, cached, expired, dirty, pending, obsolete, inCache⟩ := o
  have hs := hrep.sorted
  simp only at hs hc hi hcache hn1
  subst hs
  have hnc : ¬ cfg.ncols cls ≤ c := Nat.not_le_of_gt hc
  have hsel : ¬ [c] = List.range (cfg.ncols cls) := fun e => hn1 (by simpa using (congrArg List.length e).symm)
  unfold getValueX getValueProg getValue_nlocals getValue_nlists getValue_ndicts opRead
  cases obsolete
  · cases hdb : s.db cls id with
    | none =>
      pymrun
      simp [absVal, conc, instOf, excOut, ho, hnc, hcache, hdb]
      exact setObj_self _ _ _ (by simpa [logStmt] using ho)
    | some row =>
      cases hto : i.hasTo c
      · have := hi.dec c (row c) hto
        pymrun
        simp [absVal, conc, instOf, ho, hnc, hcache, hdb, this]
        exact setObj_self _ _ _ (by simpa [logStmt] using ho)
      · pymrun
        simp [absVal, conc, instOf, ho, hnc, hcache, hdb]
        exact setObj_self _ _ _ (by simpa [logStmt] using ho)
  · pymrun
    simp [absVal, conc, instOf, excOut, ho, hnc, hcache]
    exact setObj_self _ _ _ ho

end SqlObjVerif.OrmVal
