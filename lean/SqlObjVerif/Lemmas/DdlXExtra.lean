import SqlObjVerif.Lemmas.DdlXBase
/-!
# C14 translation — `SOCol._extraSQL` and the seven `SOCol.<dialect>CreateSQL`
-/
namespace SqlObjVerif.DdlX
open SqlObjVerif.Ddl
open SqlObjVerif.PyDdl hiding Str isUpperC
open SqlObjVerif.PyDdl.Extracted

abbrev TX : Tables := Ddl.Extracted.tables

/-- `SOCol._extraSQL` (translated) on any column object = the `_extraSQL` pieces of the hand model -/
theorem extraSQL_call (n : Nat) (T : Tables) (st : Style) (tb : Str) (c0 : Val) (col : Col)
    (hr : prog.resolve (.meth (clsOf col.kind) M__extraSQL) = some SOCol___extraSQL_fn) :
    callN prog ddlI (n + 1) (.meth (clsOf col.kind) M__extraSQL) [colV T st tb c0 col] =
      .ok (strList (extraPieces TX col)) := by
  rw [callX_succ _ _ _ _ hr]
  have h1 := aget_kindFields_common T col.kind "notNone" (by simp)
  have h2 := aget_kindFields_common T col.kind "alternateID" (by simp)
  have h3 := aget_kindFields_common T col.kind "unique" (by simp)
  have h4 := aget_kindFields_common T col.kind "defaultSQL" (by simp)
  obtain ⟨name, dbn, kind, nn, uq, alt, ds⟩ := col
  simp only at h1 h2 h3 h4
  rcases uq with _ | _ | _ <;> cases nn <;> cases alt <;> cases ds <;>
    pyxwith [strList, extraPieces, extraPiece, Col.nn, Col.uq, Ddl.Extracted.tables]

theorem resolve_extraSQL (k : Kind) : prog.resolve (.meth (clsOf k) M__extraSQL) = some SOCol___extraSQL_fn := by
  cases k with
  | simple k => cases k <;> rfl
  | int k _ _ _ => cases k <;> rfl
  | str b _ _ => cases b <;> rfl
  | _ => rfl

/-- the method name of `<dialect>CreateSQL` / `_<dialect>Type` -/
def csM : Dialect → Nat
  | .sqlite => M_sqliteCreateSQL | .mysql => M_mysqlCreateSQL | .postgres => M_postgresCreateSQL
  | .firebird => M_firebirdCreateSQL | .mssql => M_mssqlCreateSQL | .sybase => M_sybaseCreateSQL
  | .maxdb => M_maxdbCreateSQL

def tyM : Dialect → Nat
  | .sqlite => M__sqliteType | .mysql => M__mysqlType | .postgres => M__postgresType
  | .firebird => M__firebirdType | .mssql => M__mssqlType | .sybase => M__sybaseType
  | .maxdb => M__maxdbType

def csFn : Dialect → Fn
  | .sqlite => SOCol__sqliteCreateSQL_fn | .mysql => SOCol__mysqlCreateSQL_fn | .postgres => SOCol__postgresCreateSQL_fn
  | .firebird => SOCol__firebirdCreateSQL_fn | .mssql => SOCol__mssqlCreateSQL_fn | .sybase => SOCol__sybaseCreateSQL_fn
  | .maxdb => SOCol__maxdbCreateSQL_fn

/-- what the connection class passes to `col.<dialect>CreateSQL` besides the column -/
def csArgs (d : Dialect) (c : Caps) : List Val :=
  match d with
  | .mysql => [connV d c]
  | .mssql => [connV d c]
  | _ => []

/-- `self.connection` while the type method runs -/
def connDuring (d : Dialect) (c : Caps) (c0 : Val) : Val :=
  match d with
  | .mysql => connV d c
  | .mssql => connV d c
  | _ => c0

/-- `SOCol.<dialect>CreateSQL`: `' '.join([self.dbName, self._<dialect>Type()] + self._extraSQL())` -/
theorem createSQL_generic (n : Nat) (T : Tables) (st : Style) (tb : Str) (c0 : Val) (col : Col) (d : Dialect) (c : Caps)
    (ty : Str) (callee : Callee)
    (hr : prog.resolve callee = some (csFn d))
    (hne : d = .firebird → C_SOEnumCol ∉ prog.mroOf (clsOf col.kind))
    (hty : callN prog ddlI (n + 1) (.meth (clsOf col.kind) (tyM d)) [colV T st tb (connDuring d c c0) col] = .ok (.str ty)) :
    callN prog ddlI (n + 2) callee (colV T st tb c0 col :: csArgs d c) =
      .ok (.str (col.db st ++ spaced (ty :: extraPieces TX col))) := by
  rw [callX_succ _ _ _ _ hr]
  have hx := fun c0 => extraSQL_call n T st tb c0 col (resolve_extraSQL col.kind)
  have h1 := aget_kindFields_common T col.kind "dbName" (by simp)
  have hne' := fun h => hne h
  cases d <;> simp only [csFn, csArgs, connDuring, tyM, forall_const, reduceCtorEq, false_implies] at hty hne' ⊢ <;>
    pyxwith [hx, strList, joinStr_blank]

/-- … and when the type method raises, so does `<dialect>CreateSQL` -/
theorem createSQL_generic_exc (n : Nat) (T : Tables) (st : Style) (tb : Str) (c0 : Val) (col : Col) (d : Dialect) (c : Caps)
    (e : Exc) (callee : Callee)
    (hr : prog.resolve callee = some (csFn d))
    (hne : d = .firebird → C_SOEnumCol ∉ prog.mroOf (clsOf col.kind))
    (hty : callN prog ddlI (n + 1) (.meth (clsOf col.kind) (tyM d)) [colV T st tb (connDuring d c c0) col] = .exc e) :
    callN prog ddlI (n + 2) callee (colV T st tb c0 col :: csArgs d c) = .exc e := by
  rw [callX_succ _ _ _ _ hr]
  have h1 := aget_kindFields_common T col.kind "dbName" (by simp)
  have hne' := fun h => hne h
  cases d <;> simp only [csFn, csArgs, connDuring, tyM, forall_const, reduceCtorEq, false_implies] at hty hne' ⊢ <;>
    pyx

theorem spaced_cons (a : Str) (l : List Str) : spaced (a :: l) = 32 :: a ++ spaced l := by simp [spaced]

theorem spaced_append (l1 l2 : List Str) : spaced (l1 ++ l2) = spaced l1 ++ spaced l2 := by simp [spaced]

/-- a piece that is itself a blank-joined list of pieces -/
theorem spaced_joinStr (l : List Str) (h : l ≠ []) : spaced [joinStr [32] l] = spaced l := by
  cases l with
  | nil => exact absurd rfl h
  | cons a l => rw [joinStr_blank, spaced_cons, spaced_cons]; simp [spaced]

/-- a text of the hand model that always exists -/
def resS : Option Str → R Val
  | some s => .ok (.str s)
  | none => .stuck

@[simp] theorem resS_some (s : Str) : resS (some s) = .ok (.str s) := rfl

/-- the translated renderer agrees with the hand model: same text, or both refuse -/
def agrees (r : R Val) (o : Option Str) : Prop :=
  match o with
  | some s => r = .ok (.str s)
  | none => ∃ e, r = .exc e

end SqlObjVerif.DdlX
