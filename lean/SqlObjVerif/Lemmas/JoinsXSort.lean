import SqlObjVerif.Lemmas.JoinsXBase
/-!
Symbolic execution of the TRANSLATED join accessors (C13), part 2: `results.sort(key=sortkey, reverse=…)` on a list of
instances is the hand model's insertion sort by `leKey` (`sortedBy_sortkey`), and one call of the translated `doSort`
with a single key (`doSortX_leaf`).
-/
namespace SqlObjVerif.Joins
open SqlObjVerif.Graph
open SqlObjVerif.PyJoins
open SqlObjVerif.PyJoins.Extracted

/-- the hand model's attribute valuation: attribute `a` is the Python attribute called `nm a` -/
def valOf (P : Params) (j a : Nat) : Option Int := P.pval j (P.nm a)

theorem ins_map {α β : Type} (g : α → β) (le : α → α → Bool) (le' : β → β → Bool) (h : ∀ x y, le' (g x) (g y) = le x y)
    (x : α) (l : List α) : ins le' (g x) (l.map g) = (ins le x l).map g := by
  induction l with
  | nil => rfl
  | cons y ys ih =>
    simp only [List.map_cons, ins, h]
    split
    · rfl
    · simp [ih]

theorem insSort_map {α β : Type} (g : α → β) (le : α → α → Bool) (le' : β → β → Bool) (h : ∀ x y, le' (g x) (g y) = le x y)
    (l : List α) : insSort le' (l.map g) = (insSort le l).map g := by
  induction l with
  | nil => rfl
  | cons x xs ih => simp only [List.map_cons, insSort, ih, ins_map g le le' h]

/-- the sort key `sortkey` computes for the instance `j` under the attribute called `s` -/
def keyOf (P : Params) (s : List Char) (j : Nat) : PVal :=
  match P.pval j s with
  | some z => .int z
  | none => .obj .min

theorem callClos_sortkey (P : Params) (self rec apply) (db : DB) (heap : Heap Hnd) (s : List Char) (c j : Nat) :
    callClos (jIface P self rec apply) [doSort_lam0] db heap (.clos 0 (.cons (.str s) .nil)) [.obj (.inst c j)] =
      .ok (keyOf P s j) := by
  simp only [callClos, doSort_lam0, keyOf]
  cases h : P.pval j s <;>
    simp [Val.toList, PBlock.exec, PStmt.exec, Expr.eval, Cond.eval, Env.ofArgs, PRes.toR, Const.val, h]

theorem dec_lt_not_le (a b : Int) : decide (a < b) = !decide (b ≤ a) := by
  by_cases h : a < b <;> simp [h] <;> omega

theorem sortLe_key (P : Params) (self rec apply) (s : List Char) (b : Bool) (c : Nat) (x y : Nat) :
    sortLe (jIface P self rec apply) b (.obj (.inst c x), keyOf P s x) (.obj (.inst c y), keyOf P s y) =
      (if b then leOpt (P.pval y s) (P.pval x s) else leOpt (P.pval x s) (P.pval y s)) := by
  simp only [sortLe, keyOf]
  cases b <;> cases P.pval x s <;> cases P.pval y s <;> simp [jLt, leOpt, dec_lt_not_le]

theorem keysOk_keys (P : Params) (self rec apply) (s : List Char) (l : List Nat) :
    keysOk (jIface P self rec apply) (l.map (keyOf P s)) = true := by
  simp only [keysOk, List.all_eq_true, List.mem_map]
  rintro _ ⟨x, _, rfl⟩ _ ⟨y, _, rfl⟩
  simp only [keyOf]
  cases P.pval x s <;> cases P.pval y s <;> rfl

/-- `results.sort(key=sortkey, reverse=b)` on a list of instances: the model's insertion sort -/
theorem sortedBy_sortkey (P : Params) (self rec apply) (db : DB) (heap : Heap Hnd) (a : Nat) (b : Bool) (c : Nat) (l : List Nat) :
    sortedBy (jIface P self rec apply) [doSort_lam0] db heap (.clos 0 (.cons (.str (P.nm a)) .nil)) b (instList c l) =
      .ok (instList c (insSort (leKey (valOf P) ⟨a, b⟩) l)) := by
  unfold sortedBy
  have h1 : mapR (fun x => callClos (jIface P self rec apply) [doSort_lam0] db heap (.clos 0 (.cons (.str (P.nm a)) .nil)) [x])
      (instList c l) = .ok ((instList c l).map fun v => match v with | .obj (.inst _ j) => keyOf P (P.nm a) j | _ => .none) := by
    apply mapR_ok_of
    intro x hx
    simp only [instList, List.mem_map] at hx
    obtain ⟨j, _, rfl⟩ := hx
    exact callClos_sortkey P self rec apply db heap (P.nm a) c j
  rw [h1]
  have h2 : ((instList c l).map fun v => match v with | .obj (.inst _ j) => keyOf P (P.nm a) j | _ => (.none : PVal)) =
      l.map (keyOf P (P.nm a)) := by simp [instList]
  rw [h2]
  simp only [keysOk_keys, if_true]
  have h3 : (instList c l).zip (l.map (keyOf P (P.nm a))) = l.map fun j => ((.obj (.inst c j) : PVal), keyOf P (P.nm a) j) := by
    simp [instList, List.zip_map']
  rw [h3, insSort_map (fun j => ((.obj (.inst c j) : PVal), keyOf P (P.nm a) j)) (leKey (valOf P) ⟨a, b⟩)]
  · simp [instList, List.map_map, Function.comp_def]
  · intro x y
    rw [sortLe_key]
    simp [leKey, valOf]


theorem not_dash_prefix {s : List Char} (h : s.head? ≠ some '-') : List.isPrefixOf ['-'] s = false := by
  cases s with
  | nil => rfl
  | cons c t =>
    simp only [List.head?_cons, ne_eq, Option.some.injEq] at h
    simp [List.isPrefixOf, Ne.symm h]

set_option maxHeartbeats 400000 in
/-- one call of the TRANSLATED `doSort` with a single key: `results.sort(…)` by that key; no recursive call -/
theorem doSortX_leaf (P : Params) (hnm : ∀ a, (P.nm a).head? ≠ some '-') (rec) (db : DB) (heap : Heap Hnd) (r c : Nat)
    (l : List Nat) (v : PVal) (k : SortKey) (hr : heap.cells r = some (instList c l)) (hv : Leaf P.nm v k) :
    doSortX P rec db heap [.ref r, v] =
      .ret db (heap.set r (instList c (insSort (leKey (valOf P) k) l))) .none := by
  have hp := fun a => not_dash_prefix (hnm a)
  unfold doSortX PyJoins.run doSortProg doSortBody
  cases hv with
  | str k =>
    obtain ⟨a, d⟩ := k
    cases d
    · jrun
      simp [keyStr, hp, sortedBy_sortkey, Val.ofList, hr]
    · jrun
      simp [keyStr, List.isPrefixOf, sliceFromOf, sortedBy_sortkey, Val.ofList, hr]
  | fld a =>
    jrun
    simp [hp, sortedBy_sortkey, Val.ofList, hr]
  | desc a =>
    jrun
    simp [List.isPrefixOf, sliceFromOf, sortedBy_sortkey, Val.ofList, hr]

end SqlObjVerif.Joins
