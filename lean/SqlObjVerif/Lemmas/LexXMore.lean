import SqlObjVerif.Lemmas.LexXStmt
/-!
# C02 / C17 — `DecimalConverter`, `TimedeltaConverter`, and the generic / column `startswith` / `endswith` / `contains`
helpers (`SQLExpression.*`, `SQLObjectField.*`) as translated
-/
namespace SqlObjVerif.LexX
open SqlObjVerif.PyLex
open SqlObjVerif.PyLex.Extracted

variable (P : Ext) (n : Nat)

/-- a `Decimal` whose `to_eng_string()` is the text `t` -/
def decimalObj (t : Lex.Str) : Val := .obj "Decimal" [("text", .str t)]
/-- a `datetime.timedelta` -/
def timedeltaObj (days secs : Int) : Val := .obj "datetime.timedelta" [("days", .int days), ("seconds", .int secs)]

theorem xCm_decimal (I : Iface) (t : Lex.Str) (m : String) (args : List Val) :
    xCm P I (decimalObj t) m args = P.cm (decimalObj t) m args := by
  simp [xCm, methOf, decimalObj]

/-- `DecimalConverter`: the text `value.to_eng_string()` returns, unchanged -/
theorem decimal_conv (t : Lex.Str) (db : Val) (hd : P.cm (decimalObj t) "to_eng_string" [] = .ok (.str t)) :
    run (world P n) DecimalConverter [decimalObj t, db] = ret t := by
  unfold run DecimalConverter DecimalConverter_s0
  cases n with
  | zero =>
    have : (world P 0).callMethod = P.cm := rfl
    unfold decimalObj at hd ⊢
    pylw [methodOf, this, hd, ret]
  | succ k =>
    have h := xCm_decimal P (world P k) t "to_eng_string" []
    unfold decimalObj at hd h ⊢
    pylw [methodOf, h, hd, ret]

@[simp] theorem xFn_decimal (I : Iface) (args : List Val) :
    xFn I "DecimalConverter" args [] = (run I DecimalConverter args).toR := by xfnp

/-- `sqlrepr(Decimal)`: no `__sqlrepr__`, the registry gives `DecimalConverter` -/
theorem sqlrepr_decimal (t : Lex.Str) (db : Val) (hd : P.cm (decimalObj t) "to_eng_string" [] = .ok (.str t)) :
    run (world P (n + 2)) Extracted.sqlrepr [decimalObj t, db] = ret t := by
  have h := decimal_conv P (n + 1) t db hd
  exact sqlrepr_via _ _ _ "DecimalConverter" _ (by simp [decimalObj]; viam) (by simp [decimalObj]; viam)
    (by simp [callFn_ext, h])

/-- `TimedeltaConverter`: `INTERVAL '<days> days <seconds> seconds'` -/
theorem timedelta_conv (days secs : Int) (db : Val) :
    run (world P n) TimedeltaConverter [timedeltaObj days secs, db] =
      ret ([73, 78, 84, 69, 82, 86, 65, 76, 32, 39] ++ Lex.renderInt days ++ [32, 100, 97, 121, 115, 32] ++
        Lex.renderInt secs ++ [32, 115, 101, 99, 111, 110, 100, 115, 39]) := by
  unfold run TimedeltaConverter TimedeltaConverter_s0 timedeltaObj
  pylw [ret, padInt]

/-! ### the helpers -/

@[simp] theorem xFn_STARTSWITH (I : Iface) (args : List Val) :
    xFn I "STARTSWITH" args [] = (run I STARTSWITH args).toR := by xfnp
@[simp] theorem xFn_ENDSWITH (I : Iface) (args : List Val) :
    xFn I "ENDSWITH" args [] = (run I ENDSWITH args).toR := by xfnp
@[simp] theorem xFn_CONTAINSSTRING (I : Iface) (args : List Val) :
    xFn I "CONTAINSSTRING" args [] = (run I CONTAINSSTRING args).toR := by xfnp

theorem expr_startswith_run (self : Val) (a : Lex.Str) :
    run (world P (n + 3)) Expr_startswith [self, .str a] = .ret (wrapperObj Lex.Extracted.startswithOp self a) := by
  unfold run Expr_startswith Expr_startswith_s0
  have h := startswith_run P n self a
  pylw [callFn_ext, h]

theorem expr_endswith_run (self : Val) (a : Lex.Str) :
    run (world P (n + 3)) Expr_endswith [self, .str a] = .ret (wrapperObj Lex.Extracted.endswithOp self a) := by
  unfold run Expr_endswith Expr_endswith_s0
  have h := endswith_run P n self a
  pylw [callFn_ext, h]

theorem expr_contains_run (self : Val) (a : Lex.Str) :
    run (world P (n + 3)) Expr_contains [self, .str a] = .ret (wrapperObj Lex.Extracted.containsOp self a) := by
  unfold run Expr_contains Expr_contains_s0
  have h := contains_run P n self a
  pylw [callFn_ext, h]

/-- the column helpers: `s = self._from_python(s)` first (an interface call), then the same wrapper -/
theorem field_startswith_run (c : String) (fs : List (String × Val)) (a a' : Lex.Str)
    (hfp : xCm P (world P (n + 2)) (.obj c fs) "_from_python" [.str a] = .ok (.str a')) :
    run (world P (n + 3)) Field_startswith [.obj c fs, .str a] =
      .ret (wrapperObj Lex.Extracted.startswithOp (.obj c fs) a') := by
  unfold run Field_startswith Field_startswith_s0 Field_startswith_s1
  have h := startswith_run P n (.obj c fs) a'
  pylw [callFn_ext, h, hfp]

theorem field_endswith_run (c : String) (fs : List (String × Val)) (a a' : Lex.Str)
    (hfp : xCm P (world P (n + 2)) (.obj c fs) "_from_python" [.str a] = .ok (.str a')) :
    run (world P (n + 3)) Field_endswith [.obj c fs, .str a] =
      .ret (wrapperObj Lex.Extracted.endswithOp (.obj c fs) a') := by
  unfold run Field_endswith Field_endswith_s0 Field_endswith_s1
  have h := endswith_run P n (.obj c fs) a'
  pylw [callFn_ext, h, hfp]

theorem field_contains_run (c : String) (fs : List (String × Val)) (a a' : Lex.Str)
    (hfp : xCm P (world P (n + 2)) (.obj c fs) "_from_python" [.str a] = .ok (.str a')) :
    run (world P (n + 3)) Field_contains [.obj c fs, .str a] =
      .ret (wrapperObj Lex.Extracted.containsOp (.obj c fs) a') := by
  unfold run Field_contains Field_contains_s0 Field_contains_s1
  have h := contains_run P n (.obj c fs) a'
  pylw [callFn_ext, h, hfp]

end SqlObjVerif.LexX
