import SqlObjVerif.Lemmas.SelXTables
/-!
# C03 translation — statements of the translated `Select.__sqlrepr__`, and `_str_or_sqlrepr`

Per-statement theorems, for EVERY interface and EVERY state that holds the Select in slot 0, the dialect in slot 1 and
the text so far in slot 2: DISTINCT, the item list, FROM (sorted table set, no joins), WHERE, FOR UPDATE.  The whole
function is translated (`Extracted/PySel.lean`: 25 statements, 4 loops, the LIMIT hand-off to `_queryAddLimitOffset`);
the composition over the loops that collect the table set is NOT proved here (see the harness for that part).
-/
namespace SqlObjVerif.SelX
open SqlObjVerif.PyExpr hiding Expr Exprs Stmt Block Res
open SqlObjVerif.PySel SqlObjVerif.PySel.Extracted

set_option linter.unusedSimpArgs false

macro "pyq" : tactic => `(tactic|
  simp [runH, runP, PySel.Block.exec, PySel.Stmt.exec, PySel.Expr.eval, PySel.Exprs.eval, Env.ofArgs, Target.bind, bindAll,
    attrS, attrOf, aget, St.put, callS, callFn, indexS, refOf_refV, selObj, keyRes, addS, pyFormat, *])

/-- `_str_or_sqlrepr(expr, db)`: a `str` is passed through, anything else goes to `sqlrepr` -/
theorem str_or_sqlrepr_spec (I : SIface) (h : Heap) (v db : Val) :
    runP I f_str_or_sqlrepr [v, db] h =
      if (I.E h).isSub (typeName v) "str" then .ok v else (I.E h).call "sqlrepr" [v, db] := by
  have h1 : ("sqlrepr" = "set") = False := by decide
  have h2 : ("sqlrepr" = "list") = False := by decide
  have h3 : ("sqlrepr" = "str") = False := by decide
  have h4 : ("sqlrepr" = "sorted") = False := by decide
  have h5 : ("sqlrepr" = "int") = False := by decide
  have h6 : ("sqlrepr" = "repr") = False := by decide
  simp only [f_str_or_sqlrepr, f_str_or_sqlrepr_s0, f_str_or_sqlrepr_s1]
  cases hs : (I.E h).isSub (typeName v) "str"
  · pyq
    cases (I.E h).call "sqlrepr" [v, db] <;> simp [withV]
  · pyq

/-- the WHERE statement: nothing for `NoDefault`, else ` WHERE ` + `_str_or_sqlrepr(clause, db)` appended -/
theorem sqlrepr_where (I : SIface) (s : St) (p : Nat) (d : Dict) (c db : Val) (sel t : Str)
    (h0 : s.env 0 = some (selObj p)) (h1 : s.env 1 = some db) (h2 : s.env 2 = some (.str sel))
    (hp : s.heap.cells p = some d) (hc : aget k_clause d = some c)
    (ht : (I.E s.heap).call "_str_or_sqlrepr" [c, db] = .ok (.str t)) :
    PySel.Stmt.exec I s Select_sqlrepr_s16 =
      .norm (if typeName c == "@NoDefault" then s else s.put 2 (.str (sel ++ ([32, 87, 72, 69, 82, 69, 32] ++ t)))) := by
  have hc' : aget [99, 108, 97, 117, 115, 101] d = some c := hc
  have e1 : ("_str_or_sqlrepr" = "set") = False := by decide
  have e2 : ("_str_or_sqlrepr" = "list") = False := by decide
  have e3 : ("_str_or_sqlrepr" = "str") = False := by decide
  have e4 : ("_str_or_sqlrepr" = "sorted") = False := by decide
  have e5 : ("_str_or_sqlrepr" = "int") = False := by decide
  have e6 : ("_str_or_sqlrepr" = "repr") = False := by decide
  simp only [Select_sqlrepr_s16]
  cases hn : (typeName c == "@NoDefault") <;> pyq

/-- the FOR UPDATE statement -/
theorem sqlrepr_forUpdate (I : SIface) (s : St) (p : Nat) (d : Dict) (b : Bool) (sel : Str)
    (h0 : s.env 0 = some (selObj p)) (h2 : s.env 2 = some (.str sel))
    (hp : s.heap.cells p = some d) (hc : aget k_forUpdate d = some (.bool b)) :
    PySel.Stmt.exec I s Select_sqlrepr_s23 =
      .norm (if b then s.put 2 (.str (sel ++ [32, 70, 79, 82, 32, 85, 80, 68, 65, 84, 69])) else s) := by
  have hc' : aget [102, 111, 114, 85, 112, 100, 97, 116, 101] d = some (.bool b) := hc
  simp only [Select_sqlrepr_s23]
  cases b <;> pyq

/-- the FROM statement without joins: ` FROM ` + the table names, sorted, joined by `, ` (nothing for no table) -/
theorem sqlrepr_from (I : SIface) (s : St) (ts : List Str) (sel : Str)
    (h2 : s.env 2 = some (.str sel)) (h7 : s.env 7 = some (setV (ts.map .str))) (h4 : s.env 4 = some (.list [])) :
    PySel.Stmt.exec I s Select_sqlrepr_s12 =
      .norm (if ts.isEmpty then s else
        s.put 2 (.str (sel ++ ([32, 70, 82, 79, 77, 32] ++ joinStr [44, 32] (sortS I.strLe ts))))) := by
  have hs := ExprX.strsOf_map ts
  have hs2 := ExprX.strsOf_map (sortS I.strLe ts)
  simp only [Select_sqlrepr_s12]
  cases ts with
  | nil => pyq
  | cons t ts =>
    simp only [List.map_cons] at h7 hs
    pyq
    simp [methodS, refOf, methodOf, strMethod, hs, hs2, setV, pyFormat]

/-- the DISTINCT statement (no DISTINCT ON) -/
theorem sqlrepr_distinct (I : SIface) (s : St) (p : Nat) (d : Dict) (b : Bool) (sel : Str)
    (h0 : s.env 0 = some (selObj p)) (h2 : s.env 2 = some (.str sel))
    (hp : s.heap.cells p = some d) (hc : aget k_distinct d = some (.bool b))
    (hon : aget k_distinctOn d = some noDefault) :
    PySel.Stmt.exec I s Select_sqlrepr_s1 =
      .norm (if b then s.put 2 (.str (sel ++ [32, 68, 73, 83, 84, 73, 78, 67, 84])) else s) := by
  have hc' : aget [100, 105, 115, 116, 105, 110, 99, 116] d = some (.bool b) := hc
  have hon' : aget [100, 105, 115, 116, 105, 110, 99, 116, 79, 110] d = some (globV "@NoDefault") := hon
  simp only [Select_sqlrepr_s1]
  cases b <;> pyq
  simp [globV]

theorem callS_sos (I : SIface) (h : Heap) (args : List Val) :
    callS I h "_str_or_sqlrepr" args = (I.E h).call "_str_or_sqlrepr" args := by
  have e1 : ("_str_or_sqlrepr" = "set") = False := by decide
  have e2 : ("_str_or_sqlrepr" = "list") = False := by decide
  have e3 : ("_str_or_sqlrepr" = "str") = False := by decide
  have e4 : ("_str_or_sqlrepr" = "sorted") = False := by decide
  have e5 : ("_str_or_sqlrepr" = "int") = False := by decide
  have e6 : ("_str_or_sqlrepr" = "repr") = False := by decide
  simp only [callS, callFn, e1, e2, e3, e4, e5, e6, if_false]

theorem callS_str (I : SIface) (h : Heap) (t : Str) : callS I h "str" [.str t] = .ok (.str t) := by
  simp [callS]

theorem mapR_strs (I : SIface) (h : Heap) (db : Val) (vs : List Val) (ts : List Str)
    (ht : ExprX.AllR (fun v t => (I.E h).call "_str_or_sqlrepr" [v, db] = .ok (.str t)) vs ts) :
    mapR (fun v => ((((I.E h).call "_str_or_sqlrepr" [v, db]).bind fun v => R.ok [v]).bind fun as =>
      callS I h "str" as)) vs = .ok (ts.map Val.str) := by
  induction ht with
  | nil => rfl
  | cons hx _ ih => simp only [mapR, hx, R.bind_ok, ih, List.map_cons, callS_str]

/-- the item list (all columns): ` ` + the items' renderings joined by `, ` -/
theorem sqlrepr_items (I : SIface) (s : St) (p : Nat) (d : Dict) (db : Val) (vs : List Val) (ts : List Str) (sel : Str)
    (h0 : s.env 0 = some (selObj p)) (h1 : s.env 1 = some db) (h2 : s.env 2 = some (.str sel))
    (hp : s.heap.cells p = some d) (hl : aget k_lazyColumns d = some (.bool false))
    (hi : aget k_items d = some (.list vs))
    (ht : ExprX.AllR (fun v t => (I.E s.heap).call "_str_or_sqlrepr" [v, db] = .ok (.str t)) vs ts) :
    PySel.Stmt.exec I s Select_sqlrepr_s2 = .norm (s.put 2 (.str (sel ++ (32 :: joinStr [44, 32] ts)))) := by
  have hl' : aget [108, 97, 122, 121, 67, 111, 108, 117, 109, 110, 115] d = some (.bool false) := hl
  have hi' : aget [105, 116, 101, 109, 115] d = some (.list vs) := hi
  have e1 : ("_str_or_sqlrepr" = "set") = False := by decide
  have e2 : ("_str_or_sqlrepr" = "list") = False := by decide
  have e3 : ("_str_or_sqlrepr" = "str") = False := by decide
  have e4 : ("_str_or_sqlrepr" = "sorted") = False := by decide
  have e5 : ("_str_or_sqlrepr" = "int") = False := by decide
  have e6 : ("_str_or_sqlrepr" = "repr") = False := by decide
  have hm := mapR_strs I s.heap db vs ts ht
  have hs := ExprX.strsOf_map ts
  simp only [Select_sqlrepr_s2]
  simp [PySel.Block.exec, PySel.Stmt.exec, PySel.Expr.eval, PySel.Exprs.eval, Target.bind, attrS, attrOf, aget, St.put,
    indexS, refOf_refV, selObj, keyRes, addS, callS_sos, h0, h1, h2, hp, hl', hi', iterOf, hm]
  simp [methodS, refOf, methodOf, strMethod, hs, pyFormat]


end SqlObjVerif.SelX
