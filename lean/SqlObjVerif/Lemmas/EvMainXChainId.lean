import SqlObjVerif.Lemmas.EvMainXInit
/-!
C19 translator tie, part 13: `_SO_finishCreate` / `_create` as translated with an explicit id (an inheritance child is stored
under its parent's id) — the success path, for `id = None` and `id = <n>` alike.
-/
namespace SqlObjVerif.Events
open SqlObjVerif.PyEv
open SqlObjVerif.PyEv.Extracted
open SqlObjVerif.PyMain (R mapR ofOpt dget dhas dset dupdate dictOf sortByKey insByKey Exc FnKind)

/-- the id `queryInsertID(self, id, …)` stores the row under, and the next AUTOINCREMENT id after it -/
def insId (n : Nat) : PV → Nat
  | .nat i => i
  | _ => n
def insNext (n : Nat) : PV → Nat
  | .nat _ => n
  | _ => n + 1
def IdArg (v : PV) : Prop := v = .none ∨ ∃ i, v = .nat i

/-- `self._SO_finishCreate(id)` for `id = None` (next id) or an explicit id (a child row under its parent's id) -/
theorem finishCreateX_gen (fuel : Nat) (w : World) (cv1 : Kw) (l : List Thunk) (idv : PV) (hid : IdArg idv)
    (hcv : w.o.cv = some cv1) (hcr : w.o.creating = true) (hpp : w.postponed = some l)
    (hnd : (cv1.map (·.1)).Nodup) (hcols : ∀ e ∈ cv1, e.1 < w.c.ncols)
    (row0 : List Val) (hrow : rowOf? (w.rows ++ [(insId w.nextId idv, insRow w.c.ncols cv1)]) (insId w.nextId idv) = some row0)
    (hne : row0 ≠ []) :
    ∃ t, GoodThunk t (insId w.nextId idv) ∧ t.cfg = w.c ∧ t.lvl = w.lvl ∧
      finishCreateX fuel w [idv] = .ret { w with
        rows := w.rows ++ [(insId w.nextId idv, insRow w.c.ncols cv1)], nextId := insNext w.nextId idv,
        log := w.log ++ [(w.lvl, Entry.ins (insId w.nextId idv) (insRow w.c.ncols cv1))],
        o := { w.o with id := some (insId w.nextId idv), vals := fun c => row0[c]?, cv := some [], creating := false,
                        dirty := false, lock := false },
        postponed := some (l ++ [t]) } .none := by
  obtain ⟨c, lvl, rows, nextId, ⟨id, vals, cv, creating, dirty, obsolete, sup, lock⟩, postponed, log⟩ := w
  simp only at hcv hcr hpp hcols hrow
  subst hcv hcr hpp
  unfold finishCreateX finishCreateProg
  have hins : ∀ w' : World, (evOps fuel).insert w' idv ((sortByKey cv1).map (·.1)) ((sortByKey cv1).map (·.2)) =
      some ({ w' with rows := w'.rows ++ [(insId w'.nextId idv, insRow w'.c.ncols cv1)], nextId := insNext w'.nextId idv,
                      log := w'.log ++ [(w'.lvl, Entry.ins (insId w'.nextId idv) (insRow w'.c.ncols cv1))] }, insId w'.nextId idv) := by
    intro w'
    rcases hid with rfl | ⟨i, rfl⟩ <;>
      simp [evOps, zip_fst_snd, vecOfPairs_eq, colVec_sortByKey _ _ hnd, insRow, insId, insNext]
  evwith [fillArgs, finishCreate_nargs, finishCreate_defaults]
  generalize hM : mapR _ cv1 = m
  have hm := mapR_ok_of hM (fun e => (e.1, PV.pair (.name e.1) (ofVal e.2))) (by
    intro x hx
    have := hcols x hx
    simp [this])
  subst hm
  clear hM
  simp only [bind_ok, sortByKey_map, List.map_map]
  evwith []
  generalize hM : mapR _ (sortByKey cv1) = m
  have hm := mapR_ok_of hM (fun e => PV.dbName e.1) (by
    intro x hx
    have := hcols x (by rw [← mem_sortByKey]; exact hx)
    simp [this])
  subst hm
  clear hM
  cases hlz : c.lazy <;>
  · evwith [Function.comp_def, hins, hlz]
    rw [initRowX_run fuel _ _ row0 hrow hne]
    evwith []
    exact ⟨_, ⟨rfl, rfl, by simp, ⟨_, by simp; rfl⟩⟩, rfl, rfl, rfl⟩


theorem finishCreateX_gen' {fuel : Nat} {w : World} {idv : PV} {out : Outcome} (hfc : finishCreateX fuel w [idv] = out)
    (cv1 : Kw) (l : List Thunk) (hid : IdArg idv)
    (hcv : w.o.cv = some cv1) (hcr : w.o.creating = true) (hpp : w.postponed = some l)
    (hnd : (cv1.map (·.1)).Nodup) (hcols : ∀ e ∈ cv1, e.1 < w.c.ncols)
    (row0 : List Val) (hrow : rowOf? (w.rows ++ [(insId w.nextId idv, insRow w.c.ncols cv1)]) (insId w.nextId idv) = some row0)
    (hne : row0 ≠ []) :
    ∃ t, GoodThunk t (insId w.nextId idv) ∧ t.cfg = w.c ∧ t.lvl = w.lvl ∧
      out = .ret { w with
        rows := w.rows ++ [(insId w.nextId idv, insRow w.c.ncols cv1)], nextId := insNext w.nextId idv,
        log := w.log ++ [(w.lvl, Entry.ins (insId w.nextId idv) (insRow w.c.ncols cv1))],
        o := { w.o with id := some (insId w.nextId idv), vals := fun c => row0[c]?, cv := some [], creating := false,
                        dirty := false, lock := false },
        postponed := some (l ++ [t]) } .none := by
  subst hfc
  exact finishCreateX_gen fuel w cv1 l idv hid hcv hcr hpp hnd hcols row0 hrow hne

/-- `SQLObject._create(self, id, **kw)` succeeding, for `id = None` or an explicit id -/
theorem createX_gen_ok (fuel : Nat) (w : World) (K : Kw) (l : List Thunk) (idv : PV) (hid : IdArg idv)
    (hnd : (K.map (·.1)).Nodup) (hpp : w.postponed = some l)
    (hb : (newRow w.c K).contains .bad = false) (hu : unknownKey w.c.ncols K = false)
    (row0 : List Val) (hrow : rowOf? (w.rows ++ [(insId w.nextId idv, newRow w.c K)]) (insId w.nextId idv) = some row0)
    (hne : row0 ≠ []) :
    ∃ t, GoodThunk t (insId w.nextId idv) ∧ t.cfg = w.c ∧ t.lvl = w.lvl ∧ createX fuel w [idv] (kwPV K) = .ret { w with
      rows := w.rows ++ [(insId w.nextId idv, newRow w.c K)], nextId := insNext w.nextId idv,
      log := w.log ++ [(w.lvl, Entry.ins (insId w.nextId idv) (newRow w.c K))],
      o := { w.o with id := some (insId w.nextId idv), vals := fun c => row0[c]?,
                      cv := some [], creating := false, dirty := false, lock := false },
      postponed := some (l ++ [t]) } .none := by
  have hK' := addDefaults_nodup w.c (List.range w.c.ncols) K hnd
  have hrun : ∃ st', createX fuel w [idv] (kwPV K)
      = (((Stmt.exec (evOps fuel) (createCalls fuel) st' (.callSelfKw "set" [] (.loc 0))).seq fun st'' =>
          (Stmt.exec (evOps fuel) (createCalls fuel) st'' (.callSelf "_SO_finishCreate" [(.var 0)])).seq fun st3 => .norm st3)).toOutcome
      ∧ st'.w = creatingW w
      ∧ st'.dicts 0 = some (kwPV (createKw w K)) ∧ st'.vars 0 = some idv := by
    unfold createX createProg
    simp only [PyEv.run, Block.exec]
    evwith []
    generalize hF : forLoop _ _ _ = r
    obtain ⟨st', rfl, hw, -, hd0, -, hv⟩ := defaults_loop' hF K (by simp)
    refine ⟨st', by simp, by rw [hw]; simp [creatingW], hd0, by rw [hv 0 (by decide) (by decide)]; simp [envOfList]⟩
  obtain ⟨st', hrun, hw, hd0, hv0⟩ := hrun
  rw [hrun]
  obtain ⟨vals', hx⟩ := setX_creating fuel (creatingW w) (createKw w K) [] hK' rfl rfl
  have hany' : (colsOf (creatingW w).c.ncols (createKw w K)).any (fun e => decide (e.2 = .bad)) = false := by
    show (colsOf w.c.ncols (addDefaults w.c (List.range w.c.ncols) K)).any _ = false
    rw [any_bad_create _ _ hnd]; exact hb
  have hex' : (extraOf (creatingW w).c.ncols (createKw w K)).isEmpty = true := by
    show (extraOf w.c.ncols (addDefaults w.c (List.range w.c.ncols) K)).isEmpty = true
    rw [extra_create, hu]; rfl
  have hdu : dupdate (colsOf (creatingW w).c.ncols (createKw w K)) ([] : Kw) = colsOf w.c.ncols (createKw w K) :=
    dictOf_nodup _ (keys_filter_nodup _ _ hK')
  have hir : insRow w.c.ncols (colsOf w.c.ncols (createKw w K)) = newRow w.c K := insRow_addDefaults w.c K
  evwith [hw, hd0, hx, lazyOut, hany', hex', hv0, hdu]
  generalize hfc : finishCreateX fuel _ [idv] = out
  obtain ⟨t, hg, hc, hl, rfl⟩ := finishCreateX_gen' hfc (colsOf w.c.ncols (createKw w K)) l hid rfl rfl
    (by simp [creatingW, hpp]) (keys_filter_nodup _ _ hK') (colsOf_lt _ _) row0 (by simpa [creatingW, hir] using hrow) hne
  refine ⟨t, hg, hc, hl, ?_⟩
  simp [creatingW, hir]

end SqlObjVerif.Events
