import SqlObjVerif.Lemmas.CacheXCull
/-!
The representation invariant of the translated-method theorems is an invariant of the hand model:
`DictInv` (every factory's association lists have pairwise distinct keys — they are Python dicts)
holds initially and is preserved by EVERY model step; together with `CInv.salive` (what the strong
map refers to is alive) it gives `Rep` in every state the model reaches.
-/
namespace SqlObjVerif.Cache

theorem dictRep_aset {l : AList} (k : Id) (v : Handle) (h : DictRep l) : DictRep (aset k v l) := by
  unfold aset
  split
  · unfold DictRep at *
    have : (l.map (fun e => if e.1 = k then (k, v) else e)).map (·.1) = l.map (·.1) := by
      rw [List.map_map]
      apply List.map_congr_left
      intro e _
      simp only [Function.comp]
      split <;> simp_all
    rw [this]; exact h
  · rename_i hk
    unfold DictRep at *
    simp only [List.map_append, List.map_cons, List.map_nil]
    rw [List.nodup_append]
    refine ⟨h, by simp, ?_⟩
    intro a ha b hb
    simp only [List.mem_singleton] at hb
    subst hb
    intro hab
    subst hab
    apply hk
    simp only [List.mem_map] at ha
    obtain ⟨e, he, hea⟩ := ha
    rw [ahasKey_iff]
    exact ⟨e.2, by rw [← hea]; exact he⟩

theorem dictRep_asetAll (es : AList) {l : AList} (h : DictRep l) : DictRep (asetAll es l) := by
  induction es generalizing l with
  | nil => exact h
  | cons x xs ih => simp only [asetAll, List.foldl_cons]; exact ih (dictRep_aset _ _ h)

theorem dictRep_aerase {l : AList} (k : Id) (h : DictRep l) : DictRep (aerase k l) := h.filter _

/-- every factory's maps are Python dicts -/
def DictInv (s : State) : Prop := ∀ c, DictRep (s.fac c).strong ∧ DictRep (s.fac c).weak

theorem dictInv_init (cfg : Cfg) : DictInv (init cfg) := by
  intro c; simp [init, emptyFactory, DictRep]

theorem dictInv_congr {s s' : State} (h : DictInv s) (hf : s'.fac = s.fac) : DictInv s' := by
  intro c; rw [hf]; exact h c

theorem dictInv_setFac {s : State} (h : DictInv s) (c : Cls) (f : Factory) (h1 : DictRep f.strong) (h2 : DictRep f.weak) :
    DictInv (setFac s c f) := by
  intro c'
  simp only [setFac, upd]
  split
  · exact ⟨h1, h2⟩
  · exact h c'

theorem dictInv_cull {s : State} (h : DictInv s) (c : Cls) : DictInv (cull s c) := by
  intro c'
  simp only [cull, upd]
  split
  · exact ⟨(h c).1.filter _, dictRep_asetAll _ ((h c).2.filter _)⟩
  · exact h c'

theorem dictInv_tick {s : State} (h : DictInv s) (c : Cls) : DictInv (tick s c) := by
  rcases tick_cases s c with e | e | e <;> rw [e]
  · exact h
  · exact dictInv_setFac h c _ (h c).1 (h c).2
  · apply dictInv_cull
    exact dictInv_setFac h c _ (h c).1 (h c).2

theorem dictInv_lookup {s : State} (h : DictInv s) (c : Cls) (k : Id) : DictInv (lookupCache s c k).1 := by
  unfold lookupCache
  dsimp only
  split
  · split
    · exact h
    · split
      · exact h
      · split
        · exact dictInv_setFac h c _ (h c).1 (dictRep_aerase _ (h c).2)
        · exact dictInv_setFac h c _ (dictRep_aset _ _ (h c).1) (dictRep_aerase _ (h c).2)
  · split
    · exact h
    · split
      · exact dictInv_setFac h c _ (h c).1 (dictRep_aerase _ (h c).2)
      · exact h

theorem dictInv_insert {s : State} (h : DictInv s) (c : Cls) (k : Id) (x : Handle) : DictInv (insertEntry s c k x) := by
  unfold insertEntry
  dsimp only
  split
  · exact dictInv_setFac h c _ (dictRep_aset _ _ (h c).1) (h c).2
  · exact dictInv_setFac h c _ (h c).1 (dictRep_aset _ _ (h c).2)

theorem dictInv_getObj {s : State} (h : DictInv s) (c : Cls) (k : Id) (sel : Bool) : DictInv (getObj s c k sel).1 := by
  unfold getObj
  have h1 := dictInv_lookup (dictInv_tick h c) c k
  generalize lookupCache (tick s c) c k = r at h1
  obtain ⟨s1, res⟩ := r
  cases res with
  | some x => exact dictInv_congr h1 rfl
  | none =>
    dsimp only
    split
    · apply dictInv_insert
      exact dictInv_congr h1 rfl
    · exact h1

theorem dictInv_purge {s : State} (h : DictInv s) (c : Cls) (k : Id) : DictInv (purge s c k) := by
  rw [purge_eq]
  exact dictInv_setFac h c _ (dictRep_aerase _ (h c).1) (dictRep_aerase _ (h c).2)

theorem dictInv_expireOne {s : State} (h : DictInv s) (x : Handle) : DictInv (expireOne s x) := by
  unfold expireOne
  apply dictInv_purge
  exact dictInv_congr h rfl

theorem dictInv_weakrefAll {s : State} (h : DictInv s) : DictInv (weakrefAll s) := by
  unfold weakrefAll
  split
  · intro c
    exact ⟨by simp [DictRep], dictRep_asetAll _ (h c).2⟩
  · exact h

theorem dictInv_selectLoop (c : Cls) (ids : List Id) {s : State} (acc : List Handle) (h : DictInv s) :
    DictInv (selectLoop c ids s acc).1 := by
  induction ids generalizing s acc with
  | nil => exact h
  | cons k ks ih =>
    simp only [selectLoop]
    split
    · have h1 := dictInv_getObj h c k true
      generalize getObj s c k true = r at h1
      obtain ⟨s1, res⟩ := r
      cases res <;> exact ih _ h1
    · exact ih _ h

theorem dictInv_joinLoop (c : Cls) (ids : List Id) {s : State} (acc : List Handle) (h : DictInv s) :
    DictInv (joinLoop c ids s acc).1 := by
  induction ids generalizing s acc with
  | nil => exact h
  | cons k ks ih =>
    simp only [joinLoop]
    have h1 := dictInv_getObj h c k false
    generalize getObj s c k false = r at h1
    obtain ⟨s1, res⟩ := r
    cases res
    · exact h1
    · exact ih _ h1

theorem dictInv_foldExpire (items : List Handle) {s : State} (h : DictInv s) : DictInv (items.foldl expireOne s) := by
  induction items generalizing s with
  | nil => exact h
  | cons x xs ih => exact ih (dictInv_expireOne h x)

theorem dictInv_step {s : State} (h : DictInv s) (op : Op) : DictInv (step s op).1 := by
  cases op with
  | create c idopt =>
    simp only [step]
    split
    · exact h
    · apply dictInv_insert
      apply dictInv_tick
      exact dictInv_congr h rfl
  | get c k =>
    simp only [step]
    have h1 := dictInv_getObj h c k false
    generalize getObj s c k false = r at h1
    obtain ⟨s1, res⟩ := r
    cases res <;> exact h1
  | select c ids => exact dictInv_selectLoop c ids [] h
  | look c k =>
    simp only [step]
    split
    · have h1 := dictInv_getObj h c k true
      generalize getObj s c k true = r at h1
      obtain ⟨s1, res⟩ := r
      cases res <;> exact h1
    · exact h
  | fk x tc tid =>
    simp only [step]
    split
    · split
      · exact h
      · cases tid with
        | none => exact dictInv_congr h rfl
        | some t =>
          dsimp only
          have h1 := dictInv_getObj (dictInv_congr h rfl : DictInv (setObj s x { s.obj x with expired := false })) tc t false
          generalize getObj (setObj s x { s.obj x with expired := false }) tc t false = r at h1
          obtain ⟨s1, res⟩ := r
          cases res <;> exact h1
    · exact h
  | join x tc ids =>
    simp only [step]
    split
    · have h1 := dictInv_joinLoop tc ids [] h
      generalize joinLoop tc ids s [] = r at h1
      obtain ⟨s1, res⟩ := r
      cases res <;> exact h1
    · exact h
  | drop x =>
    simp only [step]
    split
    · exact dictInv_congr h rfl
    · exact h
  | gc hs => exact dictInv_congr h rfl
  | expire x =>
    simp only [step]
    split
    · exact dictInv_expireOne h x
    · exact h
  | expireAll => exact dictInv_foldExpire _ (dictInv_weakrefAll h)
  | destroy x =>
    simp only [step]
    split
    · apply dictInv_purge
      exact dictInv_congr h rfl
    · exact h
  | pickle x =>
    simp only [step]
    split
    · exact dictInv_congr h rfl
    · exact h
  | unpickle p =>
    simp only [step]
    split
    · exact h
    · split
      · exact h
      · apply dictInv_insert
        apply dictInv_tick
        exact dictInv_congr h rfl

theorem dictInv_run {s : State} (h : DictInv s) (ops : List Op) : DictInv (run s ops) := by
  induction ops generalizing s with
  | nil => exact h
  | cons op ops ih => exact ih (dictInv_step h op)

/-- `CInv` (strongly cached objects are alive) + `DictInv` give the representation invariant -/
theorem rep_of_inv {s : State} (hi : CInv s) (hd : DictInv s) (c : Cls) : Rep s c :=
  ⟨(hd c).1, (hd c).2, hi.salive c⟩

end SqlObjVerif.Cache
