import SqlObjVerif.Lemmas.DdlXCol
import SqlObjVerif.Lemmas.DdlXId
/-!
# C14 translation — `<Connection>.createColumn` forwards to `col.<dialect>CreateSQL`
-/
namespace SqlObjVerif.DdlX
open SqlObjVerif.Ddl
open SqlObjVerif.PyDdl hiding Str isUpperC
open SqlObjVerif.PyDdl.Extracted

theorem withR_ret_out (env : Env) (r : R Val) (k : Env → Res) :
    ((withR env r fun v => Res.ret env v).seq k).out = r := by
  cases r <;> simp [withR, Res.out]

/-- `<Connection>.createColumn(soClass, col)` forwards to `col.<dialect>CreateSQL(…)` -/
theorem createColumn_fwd (n : Nat) (d : Dialect) (c : Caps) (sv : Val) (st : Style) (tb : Str) (c0 : Val) (col : Col) :
    callN prog ddlI (n + 1) (.meth (connCls d) M_createColumn) [connV d c, sv, colV TX st tb c0 col] =
      callN prog ddlI n (.meth (clsOf col.kind) (csM d)) (colV TX st tb c0 col :: csArgs d c) := by
  cases d <;>
    (rw [callX_succ _ _ _ _ (by rfl)]; pyxwith [withR_ret_out, csM, csArgs])

end SqlObjVerif.DdlX
