import SqlObjVerif.Lemmas.InheritX
/-!
Dict values of the PyInherit embedding (lookup / insertion of a fresh key in a list of pairs) and the keyword dict of
`InheritableSQLObject._create`: its keys are pairwise distinct, and splitting it by `hasattr(parentClass, name)` gives
the ancestors' keywords (`split_parent`) and the own ones plus `childName` (`split_own`).
-/
namespace SqlObjVerif.Inherit
open SqlObjVerif.PyInh
open SqlObjVerif.PyInh.Extracted

theorem vdGet_pairsOf (k : PVal) (es : List (PVal × PVal)) :
    vdGet k (Val.ofList (pairsOf es)) = (es.find? fun e => e.1 == k).map (·.2) := by
  induction es with
  | nil => simp [pairsOf, Val.ofList, vdGet]
  | cons e es ih =>
    simp only [pairsOf, List.map_cons, Val.ofList, vdGet, List.find?_cons] at ih ⊢
    by_cases h : e.1 = k
    · simp [h]
    · have hb : (e.1 == k) = false := beq_eq_false_iff_ne.mpr h
      simp [h, hb, ih]

theorem vdSet_fresh (k v : PVal) (es : List (PVal × PVal)) (h : ∀ e, e ∈ es → e.1 ≠ k) :
    vdSet k v (Val.ofList (pairsOf es)) = Val.ofList (pairsOf (es ++ [(k, v)])) := by
  induction es with
  | nil => simp [pairsOf, Val.ofList, vdSet]
  | cons e es ih =>
    have h1 : e.1 ≠ k := h e List.mem_cons_self
    have := ih (fun e' he' => h e' (List.mem_cons_of_mem _ he'))
    simp only [pairsOf, List.map_cons, Val.ofList, vdSet, List.cons_append] at this ⊢
    simp [h1, this]

theorem find_range_name (a j n : Nat) (f : Nat → PVal) :
    ((List.range n).map fun j' => (PyInh.Val.name a j', f j')).find? (fun e => e.1 == PyInh.Val.name a j) =
      if j < n then some (PyInh.Val.name a j, f j) else none := by
  induction n with
  | zero => simp
  | succ n ih =>
    rw [List.range_succ, List.map_append, List.find?_append, ih]
    by_cases h : j < n
    · have : j < n + 1 := by omega
      simp [h, this]
    · simp only [h, if_false, Option.none_or, List.map_cons, List.map_nil, List.find?_cons]
      by_cases h2 : j = n
      · subst h2; simp
      · have : ¬ j < n + 1 := by omega
        have hb : (PyInh.Val.name a n == PyInh.Val.name a j) = false :=
          beq_eq_false_iff_ne.mpr (by intro e; cases e; exact h2 rfl)
        simp [this, hb]

def toParent (X : Ctx) (p : Nat) : PVal → Bool
  | .name a j => attrOK X.T p a j
  | _ => false

def KwKey (key : PVal) : Prop := (∃ a j, key = PyInh.Val.name a j) ∨ key = .str "childName"

theorem anc_nodup {T : Tree} (h : T.WF) : ∀ c, (T.anc c).Nodup := by
  intro c
  induction c using h.induction with
  | root c hc => simp [anc_root h hc]
  | step c p hp ih =>
    rw [anc_cons h hp, List.nodup_cons]
    refine ⟨?_, ih⟩
    intro hc
    have := mem_anc_le h p c hc
    have := (h.lt c p hp).1
    omega

theorem anc_head (T : Tree) (c : Nat) : (T.anc c).head? = some c := by
  unfold Tree.anc; cases c <;> rfl

theorem mem_ownKw (X : Ctx) (a : Nat) (e : PVal × PVal) :
    e ∈ ownKw X a ↔ ∃ j, j < X.T.ncols a ∧ e = (PyInh.Val.name a j, PyInh.Val.int (X.vals a j)) := by
  simp only [ownKw, List.mem_map, List.mem_range]
  constructor
  · rintro ⟨j, hj, rfl⟩; exact ⟨j, hj, rfl⟩
  · rintro ⟨j, hj, rfl⟩; exact ⟨j, hj, rfl⟩

theorem ownKw_keys_nodup (X : Ctx) (a : Nat) : ((ownKw X a).map (·.1)).Nodup := by
  simp only [ownKw, List.map_map]
  have := List.nodup_range (n := X.T.ncols a)
  unfold List.Nodup at this ⊢
  apply List.Pairwise.map _ _ this
  intro x y hxy heq
  simp only [Function.comp] at heq
  cases heq; exact hxy rfl

theorem kw_keys_nodup (X : Ctx) (tag : Option Nat) : ∀ (l : List Nat), l.Nodup →
    ((l.flatMap (ownKw X) ++ tagEntry tag).map (·.1)).Nodup := by
  intro l
  induction l with
  | nil =>
    intro _
    cases tag <;> simp [tagEntry]
  | cons a l ih =>
    intro hnd
    rw [List.nodup_cons] at hnd
    simp only [List.flatMap_cons, List.append_assoc, List.map_append]
    rw [List.nodup_append]
    refine ⟨ownKw_keys_nodup X a, by simpa using ih hnd.2, ?_⟩
    intro k1 hk1 k2 hk2 heq
    subst heq
    simp only [List.mem_map] at hk1
    obtain ⟨e1, he1, rfl⟩ := hk1
    obtain ⟨j, _, rfl⟩ := (mem_ownKw X a e1).1 he1
    rw [← List.map_append, List.mem_map] at hk2
    obtain ⟨e2, he2, heq⟩ := hk2
    rcases List.mem_append.mp he2 with h2 | h2
    · simp only [List.mem_flatMap] at h2
      obtain ⟨a', ha', he2'⟩ := h2
      obtain ⟨j', _, rfl⟩ := (mem_ownKw X a' e2).1 he2'
      simp only at heq
      cases heq
      exact hnd.1 ha'
    · cases tag with
      | none => simp [tagEntry] at h2
      | some t =>
        simp only [tagEntry, List.mem_singleton] at h2
        subst h2
        simp at heq

theorem kw_keys_ok (X : Ctx) (tag : Option Nat) (l : List Nat) :
    ∀ e, e ∈ l.flatMap (ownKw X) ++ tagEntry tag → KwKey e.1 := by
  intro e he
  rcases List.mem_append.mp he with h | h
  · simp only [List.mem_flatMap] at h
    obtain ⟨a, _, ha⟩ := h
    obtain ⟨j, _, rfl⟩ := (mem_ownKw X a e).1 ha
    exact Or.inl ⟨a, j, rfl⟩
  · cases tag with
    | none => simp [tagEntry] at h
    | some t =>
      simp only [tagEntry, List.mem_singleton] at h
      subst h
      exact Or.inr rfl

theorem filter_in (X : Ctx) (p : Nat) : ∀ (l : List Nat), (∀ a, a ∈ l → a ∈ X.T.anc p) →
    (l.flatMap (ownKw X)).filter (fun e => toParent X p e.1) = l.flatMap (ownKw X) := by
  intro l hl
  rw [List.filter_eq_self]
  intro e he
  simp only [List.mem_flatMap] at he
  obtain ⟨a, ha, he⟩ := he
  obtain ⟨j, hj, rfl⟩ := (mem_ownKw X a e).1 he
  simp [toParent, attrOK, hl a ha, hj]

theorem filter_out (X : Ctx) (p a : Nat) (ha : a ∉ X.T.anc p) :
    (ownKw X a).filter (fun e => toParent X p e.1) = [] := by
  rw [List.filter_eq_nil_iff]
  intro e he
  obtain ⟨j, hj, rfl⟩ := (mem_ownKw X a e).1 he
  simp [toParent, attrOK, ha]

theorem filter_tag (X : Ctx) (p : Nat) (tag : Option Nat) :
    (tagEntry tag).filter (fun e => toParent X p e.1) = [] := by
  cases tag <;> simp [tagEntry, toParent]

/-- the split of `kw` in `_create`: the keywords of the ancestors' columns go to the parent -/
theorem split_parent (X : Ctx) (p a : Nat) (tag : Option Nat) (ha : a ∉ X.T.anc p) :
    (ownKw X a ++ (X.T.anc p).flatMap (ownKw X) ++ tagEntry tag).filter (fun e => toParent X p e.1) =
      (X.T.anc p).flatMap (ownKw X) := by
  simp [List.filter_append, filter_out X p a ha, filter_tag, filter_in X p _ (fun _ h => h)]

theorem split_own (X : Ctx) (p a : Nat) (tag : Option Nat) (ha : a ∉ X.T.anc p) :
    (ownKw X a ++ (X.T.anc p).flatMap (ownKw X) ++ tagEntry tag).filter (fun e => !toParent X p e.1) =
      ownKw X a ++ tagEntry tag := by
  have h1 : (ownKw X a).filter (fun e => !toParent X p e.1) = ownKw X a := by
    rw [List.filter_eq_self]
    intro e he
    have := List.filter_eq_nil_iff.mp (filter_out X p a ha) e he
    simpa using this
  have h2 : ((X.T.anc p).flatMap (ownKw X)).filter (fun e => !toParent X p e.1) = [] := by
    rw [List.filter_eq_nil_iff]
    intro e he
    have := List.filter_eq_self.mp (filter_in X p _ (fun _ h => h)) e he
    simp [this]
  have h3 : (tagEntry tag).filter (fun e => !toParent X p e.1) = tagEntry tag := by
    cases tag <;> simp [tagEntry, toParent]
  simp [List.filter_append, h1, h2, h3]
end SqlObjVerif.Inherit
