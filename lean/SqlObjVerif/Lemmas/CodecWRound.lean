import SqlObjVerif.Lemmas.CodecWKw
import SqlObjVerif.Lemmas.CodecWKw2
import SqlObjVerif.Lemmas.CodecWKw3
import SqlObjVerif.Lemmas.CodecXChain
import SqlObjVerif.Model.CodecWChain
/-!
# CodecW — C01's write paths through the TRANSLATED plumbing and the TRANSLATED validator chains, read back through the
translated `_SO_getValue`, = the hand model `writeReadM` (`toPy (fetch (store (lit (toDb v))))`)
-/
namespace SqlObjVerif.CodecW
open SqlObjVerif.Codec (PyVal ColT DbVal)
open SqlObjVerif.PyMainV
open SqlObjVerif.PyMainV.Extracted

theorem enc_eq (C : Cls) (hC : Translated C) (c : Nat) (v : PyVal) : (klassOf C).enc c v = Codec.toDb (C.kind c) v := by
  show C.enc c v = _
  rw [hC.enc, PyCodec.chainToDb_eq (C.kind c) rfl v]; rfl

theorem dec_eq (C : Cls) (hC : Translated C) (c : Nat) (v : PyVal) : (klassOf C).dec c v = Codec.toPy (C.kind c) v := by
  show C.dec c v = _
  rw [hC.dec, PyCodec.chainToPy_eq (C.kind c) rfl v]; rfl

theorem lit_ne_invalid (y : PyVal) : Codec.lit y ≠ .invalid := by
  cases y <;> simp [Codec.lit]
  rename_i t; cases t <;> simp [Codec.lit]

theorem cellOf_ne_invalid (T : ColT) (y : PyVal) : cellOf T y ≠ .invalid := by
  unfold cellOf
  have := lit_ne_invalid y
  cases h : Codec.lit y with
  | ok l => simp only []; cases Codec.evalLit l with
    | none => simp
    | some v => simp only []; cases Codec.applyAff (Codec.aff T) v <;> simp
  | invalid => exact absurd h this
  | reject => simp
  | unmodelled => simp

theorem roundtrip_cellOf (T : ColT) (y : PyVal) :
    Codec.roundtrip T y = (cellOf T y).bind fun cell => .ok (Codec.fetch cell) := by
  unfold Codec.roundtrip cellOf
  cases Codec.lit y with
  | ok l => simp only []; cases Codec.evalLit l with
    | none => rfl
    | some v => simp only []; cases Codec.applyAff (Codec.aff T) v <;> rfl
  | _ => rfl

def updRow (g : Row) (c : Nat) (cell : DbVal) : Row := fun k => if k = c then cell else g k

theorem applyUpd_one (C : Cls) (g : Row) (c : Nat) (y : PyVal) :
    applyUpd C g [(c, y)] = match cellOf (C.kind c) y with
      | .ok cell => .ok (updRow g c cell)
      | .unmodelled => .unmodelled
      | _ => .reject := by
  simp only [applyUpd]
  cases cellOf (C.kind c) y <;> rfl

theorem readCol_failOut (C : Cls) (c : Nat) (w : World Row) (r : Codec.Res PyVal) (hr : ∀ y, r ≠ .ok y) :
    readCol C c (failOut w r) = some r := by
  cases r with
  | ok y => exact absurd rfl (hr y)
  | _ => rfl

theorem flushIf_failOut (C : Cls) (w : World Row) (r : Codec.Res PyVal) (hr : ∀ y, r ≠ .ok y) :
    flushIf C (failOut w r) = failOut w r := by
  unfold flushIf
  cases r with
  | ok y => exact absurd rfl (hr y)
  | _ => cases C.lazyUpdate <;> rfl

/-- reading column `c` of a live instance whose row holds `cell` there -/
theorem readCol_ret (C : Cls) (hC : Translated C) (c : Nat) (hc : c < C.n) (o : Obj) (g : Row) (v : PV) (hob : o.obsolete = false) :
    readCol C c (.ret (worldOf C o g) v) = some (Codec.toPy (C.kind c) (Codec.fetch (g c))) := by
  simp only [readCol, thenW]
  rw [getValueX_eq C o g c hc hob, outRes_getOut, dec_eq C hC]

/-- the common tail of every path: the statement that stores `y`, then the read -/
theorem tail_eq (C : Cls) (hC : Translated C) (c : Nat) (hc : c < C.n) (y : PyVal) (g : Row) (o : Obj) (hob : o.obsolete = false)
    (w0 : World Row) (out : Codec.Res Row → Outcome Row)
    (h_ok : ∀ g', out (.ok g') = .ret (worldOf C o g') .none)
    (h_un : out .unmodelled = .unmodelled)
    (h_rej : out .reject = .exc w0 .dbError) :
    readCol C c (out (applyUpd C g [(c, y)])) = some ((Codec.roundtrip (C.kind c) y).bind (Codec.toPy (C.kind c))) := by
  rw [applyUpd_one, roundtrip_cellOf]
  have hni := cellOf_ne_invalid (C.kind c) y
  cases hcell : cellOf (C.kind c) y with
  | ok cell =>
    simp only [h_ok, Codec.Res.bind]
    rw [readCol_ret C hC c hc o _ _ hob]
    simp [updRow]
  | invalid => exact absurd hcell hni
  | reject => simp only [h_rej, Codec.Res.bind]; rfl
  | unmodelled => simp only [h_un, Codec.Res.bind]; rfl

/-- how every path is shown equal to the hand model: by the three ways it can go -/
theorem path_eq (T : ColT) (v : PyVal) (P : Option (Codec.Res PyVal))
    (h_enc_fail : ∀ r, Codec.toDb T v = r → (∀ y, r ≠ .ok y) → P = some r)
    (h_dec_fail : ∀ y r, Codec.toDb T v = .ok y → Codec.toPy T y = r → (∀ x, r ≠ .ok x) → P = some r)
    (h_ok : ∀ y wc, Codec.toDb T v = .ok y → Codec.toPy T y = .ok wc →
      P = some ((Codec.roundtrip T y).bind (Codec.toPy T))) :
    P = some (writeReadM T v) := by
  unfold writeReadM
  cases hdb : Codec.toDb T v with
  | ok y =>
    simp only [Codec.Res.bind]
    cases hpy : Codec.toPy T y with
    | ok wc => simp only []; exact h_ok y wc hdb hpy
    | invalid => exact h_dec_fail y .invalid hdb hpy (by simp)
    | reject => exact h_dec_fail y .reject hdb hpy (by simp)
    | unmodelled => exact h_dec_fail y .unmodelled hdb hpy (by simp)
  | invalid => exact h_enc_fail .invalid hdb (by simp)
  | reject => exact h_enc_fail .reject hdb (by simp)
  | unmodelled => exact h_enc_fail .unmodelled hdb (by simp)

theorem flushIf_eager (C : Cls) (hl : C.lazyUpdate = false) (o : Outcome Row) : flushIf C o = o := by
  simp [flushIf, hl]

theorem flushIf_lazy (C : Cls) (hl : C.lazyUpdate = true) (w : World Row) (v : PV) :
    flushIf C (.ret w v) = syncUpdateX C w := by
  simp [flushIf, hl]

theorem setattrPath_eq (C : Cls) (hC : Translated C) (vals : Nat → Option PyVal) (g : Row) (c : Nat) (hc : c < C.n) (v : PyVal) :
    setattrPath C vals g c v = some (writeReadM (C.kind c) v) := by
  apply path_eq
  · intro r hdb hr
    unfold setattrPath
    rw [setValueX_enc_fail C vals g c v hc r (by rw [enc_eq C hC, hdb]) hr, flushIf_failOut _ _ _ hr, readCol_failOut _ _ _ _ hr]
  · intro y r hdb hpy hr
    unfold setattrPath
    rw [setValueX_dec_fail C vals g c v y hc (by rw [enc_eq C hC, hdb]) r (by rw [dec_eq C hC, hpy]) hr,
      flushIf_failOut _ _ _ hr, readCol_failOut _ _ _ _ hr]
  · intro y wc hdb hpy
    unfold setattrPath
    have he : (klassOf C).enc c v = .ok y := by rw [enc_eq C hC, hdb]
    have hd : (klassOf C).dec c y = .ok wc := by rw [dec_eq C hC, hpy]
    cases hl : C.lazyUpdate with
    | false =>
      rw [setValueX_eager C vals g c v y wc hc hl he hd, flushIf_eager C hl]
      exact tail_eq C hC c hc y g _ rfl _ (sendOut C vals g c wc) (fun _ => rfl) rfl rfl
    | true =>
      rw [setValueX_lazy C vals g c v y wc hc hl he hd, flushIf_lazy C hl, syncUpdateX_pend C vals g c y wc hc]
      exact tail_eq C hC c hc y g _ rfl _ (flushOut C vals g c y wc) (fun _ => rfl) rfl rfl

theorem setPath_eq (C : Cls) (hC : Translated C) (vals : Nat → Option PyVal) (g : Row) (c : Nat) (hc : c < C.n) (v : PyVal) :
    setPath C vals g c v = some (writeReadM (C.kind c) v) := by
  apply path_eq
  · intro r hdb hr
    unfold setPath
    cases hl : C.lazyUpdate with
    | false =>
      rw [setX_eager_enc_fail C vals g c v hc hl r (by rw [enc_eq C hC, hdb]) hr, flushIf_failOut _ _ _ hr,
        readCol_failOut _ _ _ _ hr]
    | true =>
      rw [objOf_eq, setX_defer_enc_fail C false vals g c v hc (Or.inr hl) r (by rw [enc_eq C hC, hdb]) hr,
        flushIf_failOut _ _ _ hr, readCol_failOut _ _ _ _ hr]
  · intro y r hdb hpy hr
    unfold setPath
    have he : (klassOf C).enc c v = .ok y := by rw [enc_eq C hC, hdb]
    cases hl : C.lazyUpdate with
    | false =>
      rw [setX_eager_dec_fail C vals g c v y hc hl he r (by rw [dec_eq C hC, hpy]) hr, flushIf_failOut _ _ _ hr,
        readCol_failOut _ _ _ _ hr]
    | true =>
      rw [objOf_eq, setX_defer_dec_fail C false vals g c v y hc (Or.inr hl) he r (by rw [dec_eq C hC, hpy]) hr,
        flushIf_failOut _ _ _ hr, readCol_failOut _ _ _ _ hr]
  · intro y wc hdb hpy
    unfold setPath
    have he : (klassOf C).enc c v = .ok y := by rw [enc_eq C hC, hdb]
    have hd : (klassOf C).dec c y = .ok wc := by rw [dec_eq C hC, hpy]
    cases hl : C.lazyUpdate with
    | false =>
      rw [setX_eager C vals g c v y wc hc hl he hd, flushIf_eager C hl]
      exact tail_eq C hC c hc y g _ rfl _ (sendOut C vals g c wc) (fun _ => rfl) rfl rfl
    | true =>
      rw [objOf_eq, setX_defer C false vals g c v y wc hc (Or.inr hl) he hd, flushIf_lazy C hl,
        syncUpdateX_pend C vals g c y wc hc]
      exact tail_eq C hC c hc y g _ rfl _ (flushOut C vals g c y wc) (fun _ => rfl) rfl rfl

/-- the INSERT of the one pending value -/
def createOut (C : Cls) (c : Nat) (y wc : PyVal) : Codec.Res Row → Outcome Row
  | .ok g' => .ret (worldOf C { pendObj true (fun _ => none) c y wc with creating := false, dirty := false,
                                                                          createValues := [] } g') .none
  | .unmodelled => .unmodelled
  | _ => .exc (worldOf C (pendObj true (fun _ => none) c y wc) (fun _ => .null)) .dbError

theorem finishCreateM_pend (C : Cls) (c : Nat) (y wc : PyVal) :
    finishCreateM C (worldOf C (pendObj true (fun _ => none) c y wc) (fun _ => .null)) =
      createOut C c y wc (applyUpd C (fun _ => .null) [(c, y)]) := by
  unfold finishCreateM
  show (match applyUpd C (fun _ => DbVal.null) [(c, y)] with
    | .ok g' => _
    | .unmodelled => _
    | _ => _) = _
  cases applyUpd C (fun _ => DbVal.null) [(c, y)] <;> rfl

theorem createObj_eq : createObj = startObj true (fun _ => none) := rfl

theorem createPath_eq (C : Cls) (hC : Translated C) (c : Nat) (hc : c < C.n) (v : PyVal) :
    createPath C c v = some (writeReadM (C.kind c) v) := by
  apply path_eq
  · intro r hdb hr
    unfold createPath
    rw [createObj_eq, setX_defer_enc_fail C true _ _ c v hc (Or.inl rfl) r (by rw [enc_eq C hC, hdb]) hr]
    cases r with
    | ok y => exact absurd rfl (hr y)
    | _ => rfl
  · intro y r hdb hpy hr
    unfold createPath
    rw [createObj_eq, setX_defer_dec_fail C true _ _ c v y hc (Or.inl rfl) (by rw [enc_eq C hC, hdb]) r (by rw [dec_eq C hC, hpy]) hr]
    cases r with
    | ok y => exact absurd rfl (hr y)
    | _ => rfl
  · intro y wc hdb hpy
    unfold createPath
    rw [createObj_eq, setX_defer C true _ _ c v y wc hc (Or.inl rfl) (by rw [enc_eq C hC, hdb]) (by rw [dec_eq C hC, hpy])]
    simp only []
    rw [finishCreateM_pend]
    exact tail_eq C hC c hc y _ _ rfl _ (createOut C c y wc) (fun _ => rfl) rfl rfl

end SqlObjVerif.CodecW
