import SqlObjVerif.Lemmas.UriX
/-!
# C18 — the translated `DBConnection.uri` equals the hand model `Uri.genericUri`

One lemma per top-level statement (`uri_s<k>_exec`; `uri_s1_out` for the statement that may raise in the middle) and
the chain `uri_translated`.  The literals of the translated program are compared with the constants
`Extracted/Uri.lean` extracted from the same source (`Extracted.schemeSep`, …) by unfolding both.
-/
namespace SqlObjVerif.UriX
open SqlObjVerif.Uri
open SqlObjVerif.PyUri hiding Str
open SqlObjVerif.PyUri.Extracted

theorem pySlice_from1 (s : List Nat) : pySlice (.str s) (some (.int 1)) none = .ok (.str (s.drop 1)) := by
  cases s with
  | nil => simp [pySlice, clampIdx]
  | cons c s => simp [pySlice, clampIdx]

section
variable (os : List Nat) (cm : Val → String → List Val → R Val) (cv : Val → List Val → List (List Nat × Val) → R Val)

/-- `getattr(self, 'user', '') or ''` -/
def authStr (c : Conn) : List Nat :=
  match truthyS c.user with
  | some u => u
  | none => []

theorem uri_s0_exec (env : Env) (c : Conn) (h0 : env 0 = some (connObj c)) :
    Stmt.exec (uriIface os cm cv) env uri_s0 = .norm (env.put 1 (.str (authStr c))) := by
  unfold uri_s0
  rcases hu : c.user with _ | (_ | ⟨a, l⟩) <;> simp [connObj, hu] at h0 <;> pyu <;> simp [authStr, truthyS, hu]

theorem uri_s1_out (env : Env) (c : Conn) (k : Env → Res) (h0 : env 0 = some (connObj c))
    (h1 : env 1 = some (.str (authStr c))) :
    ((Stmt.exec (uriIface os cm cv) env uri_s1).seq k).out =
      match authOf c with
      | .ok a => (k (env.put 1 (.str a))).out
      | .assertionError => .exc .assertionError
      | .unicodeEncodeError => .exc .unicodeEncodeError := by
  unfold uri_s1 authOf
  simp only [connObj] at h0
  rcases hu : c.user with _ | (_ | ⟨a, l⟩)
  · have ha : authStr c = [] := by simp [authStr, truthyS, hu]
    rw [ha] at h1
    rcases hp : c.password with _ | (_ | ⟨a, l⟩) <;> simp [hp] at h0 <;> pyu <;>
      simp [truthyS, Res.out, put_same, h1]
  · have ha : authStr c = [] := by simp [authStr, truthyS, hu]
    rw [ha] at h1
    rcases hp : c.password with _ | (_ | ⟨a, l⟩) <;> simp [hp] at h0 <;> pyu <;>
      simp [truthyS, Res.out, put_same, h1]
  · have ha : authStr c = a :: l := by simp [authStr, truthyS, hu]
    rw [ha] at h1
    simp only [truthyS]
    rcases hq : quote Extracted.userSafe (a :: l) with _ | qu
    · have hq' : quote [] (a :: l) = none := hq
      rcases hp : c.password with _ | (_ | ⟨b, m⟩) <;> simp [hp] at h0 <;> pyu <;> simp [Res.out]
    · have hq' : quote [] (a :: l) = some qu := hq
      rcases hp : c.password with _ | (_ | ⟨b, m⟩) <;> simp [hp] at h0
      · pyu; simp [Extracted.authEnd]
      · pyu; simp [Extracted.authEnd]
      · rcases hq2 : quote Extracted.passwordSafe (b :: m) with _ | qp
        · have hq2' : quote [] (b :: m) = none := hq2
          pyu; simp [Res.out]
        · have hq2' : quote [] (b :: m) = some qp := hq2
          pyu; simp [Extracted.authEnd, Extracted.passwordSep]

theorem uri_s2_exec (env : Env) (c : Conn) (a : List Nat) (h0 : env 0 = some (connObj c))
    (h1 : env 1 = some (.str a)) :
    Stmt.exec (uriIface os cm cv) env uri_s2 = .norm (env.put 2 (.str (c.scheme ++ Extracted.schemeSep ++ a))) := by
  unfold uri_s2
  simp only [connObj] at h0
  pyu
  simp [Extracted.schemeSep]

/-- `if self.host: uri += <host text>` -/
def hostPart (c : Conn) : List Nat :=
  match truthyS c.host with
  | some h => hostText h
  | none => []

/-- `if self.port: uri += ':%d' % self.port` -/
def portPart (c : Conn) : List Nat :=
  match truthyI c.port with
  | some p => Extracted.portSep ++ fmtD p
  | none => []

theorem hostportOf_eq (c : Conn) : hostportOf c = hostPart c ++ portPart c := by
  unfold hostportOf hostPart portPart
  cases truthyS c.host <;> cases truthyI c.port <;> rfl

theorem hostText_eq2 (h : List Nat) :
    hostText h = if (strIn [58] h && ![91].isPrefixOf h) = true then 91 :: (h ++ [93]) else h := by
  unfold hostText
  simp [Extracted.hostBracketTest, Extracted.hostBracketSkip, Extracted.hostBracketOpen,
    Extracted.hostBracketClose, hasChar, startsWith, strIn_single]

theorem truthy_str_ne (s : List Nat) (h : s ≠ []) : truthy (.str s) = true := by
  cases s with
  | nil => exact absurd rfl h
  | cons a l => rfl

theorem truthyS_ne_nil (s : List Nat) (h : s ≠ []) : truthyS (some s) = some s := by
  cases s with
  | nil => exact absurd rfl h
  | cons a l => rfl

theorem uri_s3_exec (env : Env) (c : Conn) (u : List Nat) (h0 : env 0 = some (connObj c))
    (h2 : env 2 = some (.str u)) :
    Stmt.exec (uriIface os cm cv) env uri_s3 = .norm (env.put 2 (.str (u ++ hostPart c))) := by
  unfold uri_s3
  simp only [connObj] at h0
  rcases hh : c.host with _ | h <;> simp [hh] at h0
  · pyu; simp [hostPart, truthyS, hh, put_same, h2]
  · by_cases hne : h = []
    · subst hne
      pyu; simp [hostPart, truthyS, hh, put_same, h2]
    · have e : hostPart c = hostText h := by simp [hostPart, truthyS_ne_nil h hne, hh]
      have ht := truthy_str_ne h hne
      rw [e, hostText_eq2]
      cases hc : strIn [58] h <;> cases hs : [91].isPrefixOf h <;> pyu

theorem uri_s4_exec (env : Env) (c : Conn) (u : List Nat) (h0 : env 0 = some (connObj c))
    (h2 : env 2 = some (.str u)) :
    Stmt.exec (uriIface os cm cv) env uri_s4 = .norm (env.put 2 (.str (u ++ portPart c))) := by
  unfold uri_s4
  simp only [connObj] at h0
  rcases hp : c.port with _ | p <;> simp [hp] at h0
  · pyu; simp [portPart, truthyI, hp, put_same, h2]
  · by_cases hz : p = 0
    · subst hz
      pyu; simp [portPart, truthyI, hp, put_same, h2]
    · pyu; simp [portPart, truthyI, hp, hz, Extracted.portSep]

theorem uri_s5_exec (env : Env) (u : List Nat) (h2 : env 2 = some (.str u)) :
    Stmt.exec (uriIface os cm cv) env uri_s5 = .norm (env.put 2 (.str (u ++ Extracted.pathSep))) := by
  unfold uri_s5
  pyu
  simp [Extracted.pathSep]

theorem uri_s6_exec (env : Env) (c : Conn) (h0 : env 0 = some (connObj c)) :
    Stmt.exec (uriIface os cm cv) env uri_s6 = .norm (env.put 3 (.str c.db)) := by
  unfold uri_s6
  simp only [connObj] at h0
  pyu

theorem dbOf_eq2 (c : Conn) : dbOf c = if [47].isPrefixOf c.db = true then c.db.drop 1 else c.db := by
  unfold dbOf
  simp [Extracted.dbStrip, startsWith]

theorem uri_s7_exec (env : Env) (c : Conn) (h3 : env 3 = some (.str c.db)) :
    Stmt.exec (uriIface os cm cv) env uri_s7 = .norm (env.put 3 (.str (dbOf c))) := by
  unfold uri_s7
  rw [dbOf_eq2]
  by_cases hs : [47].isPrefixOf c.db = true
  · rw [if_pos hs]
    pyu; simp [pySlice_from1, Res.seq_norm]
  · rw [if_neg hs]
    have hs' : [47].isPrefixOf c.db = false := by
      cases h : [47].isPrefixOf c.db
      · rfl
      · exact absurd h hs
    pyu; simp [put_same, h3]

theorem uri_s8_exec (env : Env) (u d : List Nat) (h2 : env 2 = some (.str u)) (h3 : env 3 = some (.str d)) :
    Stmt.exec (uriIface os cm cv) env uri_s8 =
      match quote Extracted.dbSafe d with
      | some q => .ret env (.str (u ++ q))
      | none => .exc env .unicodeEncodeError := by
  unfold uri_s8
  have e : Extracted.dbSafe = [47] := rfl
  rw [e]
  cases hq : quote [47] d <;> pyu

/-- the translated `DBConnection.uri` computes the hand model's `genericUri`, for every connection description -/
theorem uri_translated (c : Conn) : genericUriX (uriIface os cm cv) c = ofBuildOut (genericUri c) := by
  unfold genericUriX run PyUri.Extracted.uri genericUri
  simp only [exec_cons]
  rw [uri_s0_exec os cm cv _ c rfl]
  simp only [Res.seq_norm]
  rw [uri_s1_out os cm cv _ c _ rfl rfl]
  cases ha : authOf c with
  | assertionError => simp [ofBuildOut]
  | unicodeEncodeError => simp [ofBuildOut]
  | ok auth =>
    simp only []
    rw [uri_s2_exec os cm cv _ c auth rfl rfl]
    simp only [Res.seq_norm]
    rw [uri_s3_exec os cm cv _ c _ rfl rfl]
    simp only [Res.seq_norm]
    rw [uri_s4_exec os cm cv _ c _ rfl rfl]
    simp only [Res.seq_norm]
    rw [uri_s5_exec os cm cv _ _ rfl]
    simp only [Res.seq_norm]
    rw [uri_s6_exec os cm cv _ c rfl]
    simp only [Res.seq_norm]
    rw [uri_s7_exec os cm cv _ c rfl]
    simp only [Res.seq_norm]
    rw [uri_s8_exec os cm cv _ _ (dbOf c) rfl rfl]
    cases hq : quote Extracted.dbSafe (dbOf c) <;> simp [Res.out, ofBuildOut, hostportOf_eq]

end
end SqlObjVerif.UriX
