import SqlObjVerif.Lemmas.LexXLike
/-!
# C02 — the translated value converters (`IntConverter`, `BoolConverter`, `NoneConverter`, `FloatConverter`, the date /
time converters, `SequenceConverter`), the `sqlrepr` dispatch and `SQLObject.__sqlrepr__` equal the hand model `Lex.render`
for every value (arbitrarily nested sequences: induction over the value, call depth `depth v`)
-/
namespace SqlObjVerif.LexX
open SqlObjVerif.PyLex
open SqlObjVerif.PyLex.Extracted

variable (P : Ext) (n : Nat)

theorem dbName_eq_pg (d : Lex.Dialect) :
    (dbName d == [112, 111, 115, 116, 103, 114, 101, 115]) = decide (d = .postgres) := by
  cases d <;> rfl

theorem int_conv (i : Int) (db : Val) : run (world P n) IntConverter [.int i, db] = ret (Lex.renderInt i) := by
  unfold run IntConverter IntConverter_s0
  pylw [ret]

theorem bool_conv (d : Lex.Dialect) (b : Bool) :
    run (world P n) BoolConverter [.bool b, .str (dbName d)] = ret (Lex.renderBool d b) := by
  unfold run BoolConverter BoolConverter_s0
  cases b <;> pylw [ret, dbName_eq_pg] <;> cases d <;>
    simp [Lex.renderBool, Lex.Extracted.boolSpecialDialects, Lex.Extracted.boolSpecialTrue, Lex.Extracted.boolSpecialFalse,
      Lex.Extracted.boolTrue, Lex.Extracted.boolFalse]

theorem none_conv (v db : Val) : run (world P n) NoneConverter [v, db] = ret Lex.Extracted.noneLit := by
  unfold run NoneConverter NoneConverter_s0
  pylw [ret, Lex.Extracted.noneLit]

theorem float_conv (t : Lex.Str) (db : Val) (hr : P.reprOf (floatObj t) = .ok t) :
    run (world P n) FloatConverter [floatObj t, db] = ret t := by
  unfold run FloatConverter FloatConverter_s0
  unfold floatObj at hr ⊢
  pylw [ret, hr]

theorem padInt_nat (w k : Nat) : padInt true w (k : Int) = Lex.padZero w (Lex.digits k) := by
  have h : ¬ ((k : Int) < 0) := by omega
  simp [padInt, h]

theorem date_conv (y m dd : Nat) (db : Val) :
    run (world P n) DateConverter [dateObj y m dd, db] = ret (Lex.fmt Lex.Extracted.dateFmt [y, m, dd] []) := by
  unfold run DateConverter DateConverter_s0 dateObj
  pylw [ret, padInt_nat, Lex.fmt, Lex.Extracted.dateFmt]

theorem time_conv (h mi s us : Nat) (db : Val) :
    run (world P n) TimeConverterMS [timeObj h mi s us, db] = ret (Lex.fmt Lex.Extracted.timeFmt [h, mi, s, us] []) := by
  unfold run TimeConverterMS TimeConverterMS_s0 timeObj
  pylw [ret, padInt_nat, Lex.fmt, Lex.Extracted.timeFmt]

theorem datetime_conv (y m dd h mi s us : Nat) (db : Val) :
    run (world P n) DateTimeConverterMS [dateTimeObj y m dd h mi s us, db] =
      ret (Lex.fmt Lex.Extracted.dateTimeFmt [y, m, dd, h, mi, s, us] []) := by
  unfold run DateTimeConverterMS DateTimeConverterMS_s0 dateTimeObj
  pylw [ret, padInt_nat, Lex.fmt, Lex.Extracted.dateTimeFmt]


/-! ### `sqlrepr` dispatch -/

/-- no `__sqlrepr__`, the registry has a converter: `sqlrepr` is the converter call -/
theorem sqlrepr_via (I : Iface) (v db : Val) (f : String) (out : Lex.Str)
    (hattr : attrOf I v "__sqlrepr__" = .exc .attributeError)
    (hlook : callFn I "lookupConverter" [v] [] = .ok (.fn f))
    (hcv : callFn I f [v, db] [] = .ok (.str out)) :
    run I Extracted.sqlrepr [v, db] = ret out := by
  unfold run Extracted.sqlrepr sqlrepr_s0
  simp [Stmt.exec, Block.exec, Expr.eval, Exprs.eval, Target.bind, Env.ofArgs, zipKw, tryRes, hattr, hlook, hcv, Res.seq_norm, ret]

/-- no `__sqlrepr__`, no converter: ValueError -/
theorem sqlrepr_unknown (I : Iface) (v db : Val)
    (hattr : attrOf I v "__sqlrepr__" = .exc .attributeError)
    (hlook : callFn I "lookupConverter" [v] [] = .ok .none) :
    run I Extracted.sqlrepr [v, db] = .exc .valueError := by
  unfold run Extracted.sqlrepr sqlrepr_s0
  simp [Stmt.exec, Block.exec, Expr.eval, Exprs.eval, Target.bind, Env.ofArgs, zipKw, tryRes, hattr, hlook, Res.seq_norm]

def ofR : R Val → Out
  | .ok v => .ret v
  | .exc e => .exc e
  | .stuck => .stuck

@[simp] theorem ofR_ok (v : Val) : ofR (.ok v) = .ret v := rfl
@[simp] theorem ofR_toR (o : Out) : ofR o.toR = o := by cases o <;> rfl

/-- a `__sqlrepr__` method: `sqlrepr` is the method call -/
theorem sqlrepr_method (I : Iface) (v db : Val)
    (hattr : attrOf I v "__sqlrepr__" = .ok (.bound v "__sqlrepr__")) :
    run I Extracted.sqlrepr [v, db] = ofR (methodOf I v "__sqlrepr__" [db]) := by
  unfold run Extracted.sqlrepr sqlrepr_s0
  simp [Stmt.exec, Block.exec, Expr.eval, Exprs.eval, Target.bind, Env.ofArgs, tryRes, hattr, Res.seq_norm]
  generalize methodOf I v "__sqlrepr__" [db] = r
  cases r <;> simp [ofR]

theorem strsOf_map_str (l : List Lex.Str) : strsOf (l.map Val.str) = some l := by
  induction l with
  | nil => rfl
  | cons a t ih => simp [ih]

theorem strsOf_map_comp {α : Type} (f : α → Lex.Str) (l : List α) : strsOf (l.map (Val.str ∘ f)) = some (l.map f) := by
  induction l with
  | nil => rfl
  | cons a t ih => simp [ih]

theorem renderTail_eq (d : Lex.Dialect) (l : List Lex.Val) :
    Lex.renderTail d l = ((l.map (Lex.render d)).map (Lex.Extracted.seqSep ++ ·)).flatten := by
  induction l with
  | nil => simp [Lex.renderTail]
  | cons v vs ih => simp [Lex.renderTail, ih]

theorem renderSeq_eq (d : Lex.Dialect) (l : List Lex.Val) :
    Lex.renderSeq d l = Lex.joinSep Lex.Extracted.seqSep (l.map (Lex.render d)) := by
  cases l with
  | nil => simp [Lex.renderSeq, Lex.joinSep]
  | cons v vs => simp [Lex.renderSeq, Lex.joinSep, renderTail_eq]

theorem ofVals_eq (l : List Lex.Val) : ofVals l = l.map ofVal := by
  induction l with
  | nil => simp [ofVals]
  | cons v vs ih => simp [ofVals, ih]

theorem seq_step (m : Nat) (env : Env) (v db : Val) (out : Lex.Str) (h1 : env 1 = some db)
    (hv : run (world P m) Extracted.sqlrepr [v, db] = ret out) :
    compStep (.one 2) (fun env' => SequenceConverter_comp0.eval (world P (m + 1)) env') env v = .ok (.str out) := by
  simp [compStep, Target.bind, SequenceConverter_comp0, Expr.eval, Exprs.eval, h1, callFn_ext, zipKw, hv]

/-- the comprehension `[sqlrepr(v, db) for v in value]` -/
theorem seq_comp (m : Nat) (d : Lex.Dialect) (env : Env) (l : List Lex.Val)
    (h1 : env 1 = some (.str (dbName d)))
    (hall : ∀ v ∈ l, run (world P m) Extracted.sqlrepr [ofVal v, .str (dbName d)] = ret (Lex.render d v)) :
    mapR (compStep (.one 2) (fun env' => SequenceConverter_comp0.eval (world P (m + 1)) env') env) (l.map ofVal) =
      .ok ((l.map (Lex.render d)).map Val.str) := by
  induction l with
  | nil => simp [mapR]
  | cons v vs ih =>
    have hv := hall v (by simp)
    have := ih (fun w hw => hall w (by simp [hw]))
    simp only [List.map_cons, mapR, seq_step P m env _ _ _ h1 hv, this, R.bind_ok]

theorem seq_conv (m : Nat) (d : Lex.Dialect) (l : List Lex.Val)
    (hall : ∀ v ∈ l, run (world P m) Extracted.sqlrepr [ofVal v, .str (dbName d)] = ret (Lex.render d v)) :
    run (world P (m + 1)) SequenceConverter [.list (ofVals l), .str (dbName d)] =
      ret (Lex.Extracted.seqOpen ++ Lex.renderSeq d l ++ Lex.Extracted.seqClose) := by
  rw [ofVals_eq]
  unfold run SequenceConverter SequenceConverter_s0
  have hc := seq_comp P m d (Env.ofArgs [.list (l.map ofVal), .str (dbName d)]) l rfl hall
  simp only [Env.ofArgs] at hc
  pylw [hc, strsOf_map_str, strsOf_map_comp, pyJoin_eq, renderSeq_eq, ret, Lex.Extracted.seqOpen, Lex.Extracted.seqClose,
    Lex.Extracted.seqSep]


/-! ### every value -/

macro "xfnp" : tactic => `(tactic| exact xFn_prog _ _ _ _ (by simp [progOf]) (by decide) (by decide) (by decide) (by decide))

@[simp] theorem xFn_int (I : Iface) (args : List Val) : xFn I "IntConverter" args [] = (run I IntConverter args).toR := by xfnp
@[simp] theorem xFn_bool (I : Iface) (args : List Val) : xFn I "BoolConverter" args [] = (run I BoolConverter args).toR := by xfnp
@[simp] theorem xFn_none (I : Iface) (args : List Val) : xFn I "NoneConverter" args [] = (run I NoneConverter args).toR := by xfnp
@[simp] theorem xFn_float (I : Iface) (args : List Val) : xFn I "FloatConverter" args [] = (run I FloatConverter args).toR := by xfnp
@[simp] theorem xFn_seq (I : Iface) (args : List Val) : xFn I "SequenceConverter" args [] = (run I SequenceConverter args).toR := by xfnp
@[simp] theorem xFn_date (I : Iface) (args : List Val) : xFn I "DateConverter" args [] = (run I DateConverter args).toR := by xfnp
@[simp] theorem xFn_time (I : Iface) (args : List Val) : xFn I "TimeConverterMS" args [] = (run I TimeConverterMS args).toR := by xfnp
@[simp] theorem xFn_datetime (I : Iface) (args : List Val) :
    xFn I "DateTimeConverterMS" args [] = (run I DateTimeConverterMS args).toR := by xfnp

mutual
def depth : Lex.Val → Nat
  | .seq l => depthL l + 2
  | .instInt _ => 4
  | .instStr _ => 4
  | _ => 2
def depthL : List Lex.Val → Nat
  | [] => 0
  | v :: vs => max (depth v) (depthL vs)
end

theorem two_le_depth (v : Lex.Val) : 2 ≤ depth v := by
  cases v <;> simp [depth]

macro "viam" : tactic => `(tactic| simp [attrOf, aget, xGetAttr, hasRepr, builtinTypes, callFn_ext, lookupConverter, registry, ret])

@[simp] theorem xCm_inst (I : Iface) (fs : List (String × Val)) (args : List Val) :
    xCm P I (.obj "SQLObject" fs) "__sqlrepr__" args = (run I SQLObject_sqlrepr (.obj "SQLObject" fs :: args)).toR := by
  simp [xCm, methOf]

/-- `SQLObject.__sqlrepr__`: the literal of the id -/
theorem inst_sqlrepr (m : Nat) (id db : Val) (out : Lex.Str)
    (h : run (world P m) Extracted.sqlrepr [id, db] = ret out) :
    run (world P (m + 2)) Extracted.sqlrepr [instObj id, db] = ret out := by
  rw [sqlrepr_method _ _ _ (by simp [instObj, attrOf, aget, xGetAttr, hasRepr])]
  simp only [instObj, methodOf_obj, world_callMethod, xCm_inst]
  unfold run SQLObject_sqlrepr SQLObject_sqlrepr_s0
  pylw [callFn_ext, h, ret, ofR]

mutual
theorem sqlrepr_val (hrepr : ∀ t, P.reprOf (floatObj t) = .ok t) (d : Lex.Dialect) (v : Lex.Val) (n : Nat)
    (hn : depth v ≤ n) :
    run (world P n) Extracted.sqlrepr [ofVal v, .str (dbName d)] = ret (Lex.render d v) := by
  cases v with
  | seq l =>
    simp only [depth] at hn
    obtain ⟨m, rfl⟩ : ∃ m, n = m + 2 := ⟨n - 2, by omega⟩
    have hall := sqlrepr_vals hrepr d l m (by omega)
    have := seq_conv P m d l hall
    simp only [ofVal, Lex.render]
    exact sqlrepr_via _ _ _ "SequenceConverter" _ (by viam) (by viam) (by simp [callFn_ext, this])
  | instInt i =>
    simp only [depth] at hn
    obtain ⟨m, rfl⟩ : ∃ m, n = m + 4 := ⟨n - 4, by omega⟩
    simp only [ofVal, Lex.render]
    refine inst_sqlrepr P (m + 2) _ _ _ ?_
    exact sqlrepr_via _ _ _ "IntConverter" _ (by viam) (by viam) (by simp [callFn_ext, int_conv])
  | instStr s =>
    simp only [depth] at hn
    obtain ⟨m, rfl⟩ : ∃ m, n = m + 4 := ⟨n - 4, by omega⟩
    simp only [ofVal, Lex.render]
    exact inst_sqlrepr P (m + 2) _ _ _ (sqlrepr_str P m d s)
  | str s =>
    obtain ⟨m, rfl⟩ : ∃ m, n = m + 2 := ⟨n - 2, by simp [depth] at hn; omega⟩
    exact sqlrepr_str P m d s
  | int i =>
    obtain ⟨m, rfl⟩ : ∃ m, n = m + 2 := ⟨n - 2, by simp [depth] at hn; omega⟩
    simp only [ofVal, Lex.render]
    exact sqlrepr_via _ _ _ "IntConverter" _ (by viam) (by viam) (by simp [callFn_ext, int_conv])
  | bool b =>
    obtain ⟨m, rfl⟩ : ∃ m, n = m + 2 := ⟨n - 2, by simp [depth] at hn; omega⟩
    simp only [ofVal, Lex.render]
    exact sqlrepr_via _ _ _ "BoolConverter" _ (by viam) (by viam) (by simp [callFn_ext, bool_conv])
  | null =>
    obtain ⟨m, rfl⟩ : ∃ m, n = m + 2 := ⟨n - 2, by simp [depth] at hn; omega⟩
    simp only [ofVal, Lex.render]
    exact sqlrepr_via _ _ _ "NoneConverter" _ (by viam) (by viam) (by simp [callFn_ext, none_conv])
  | date y mo dd =>
    obtain ⟨m, rfl⟩ : ∃ m, n = m + 2 := ⟨n - 2, by simp [depth] at hn; omega⟩
    simp only [ofVal, Lex.render]
    exact sqlrepr_via _ _ _ "DateConverter" _ (by simp [dateObj]; viam) (by simp [dateObj]; viam)
      (by simp [callFn_ext, date_conv])
  | time h mi s us =>
    obtain ⟨m, rfl⟩ : ∃ m, n = m + 2 := ⟨n - 2, by simp [depth] at hn; omega⟩
    simp only [ofVal, Lex.render]
    exact sqlrepr_via _ _ _ "TimeConverterMS" _ (by simp [timeObj]; viam) (by simp [timeObj]; viam)
      (by simp [callFn_ext, time_conv])
  | datetime y mo dd h mi s us =>
    obtain ⟨m, rfl⟩ : ∃ m, n = m + 2 := ⟨n - 2, by simp [depth] at hn; omega⟩
    simp only [ofVal, Lex.render]
    exact sqlrepr_via _ _ _ "DateTimeConverterMS" _ (by simp [dateTimeObj]; viam) (by simp [dateTimeObj]; viam)
      (by simp [callFn_ext, datetime_conv])
  | num neg mant exp =>
    obtain ⟨m, rfl⟩ : ∃ m, n = m + 2 := ⟨n - 2, by simp [depth] at hn; omega⟩
    simp only [ofVal, Lex.render]
    exact sqlrepr_via _ _ _ "FloatConverter" _ (by simp [floatObj]; viam) (by simp [floatObj]; viam)
      (by simp [callFn_ext, float_conv P _ _ _ (hrepr _)])

theorem sqlrepr_vals (hrepr : ∀ t, P.reprOf (floatObj t) = .ok t) (d : Lex.Dialect) (l : List Lex.Val) (n : Nat)
    (hn : depthL l ≤ n) :
    ∀ v ∈ l, run (world P n) Extracted.sqlrepr [ofVal v, .str (dbName d)] = ret (Lex.render d v) := by
  cases l with
  | nil => intro v hv; cases hv
  | cons w ws =>
    simp only [depthL] at hn
    intro v hv
    rcases List.mem_cons.1 hv with h | hv
    · rw [h]; exact sqlrepr_val hrepr d w n (by omega)
    · exact sqlrepr_vals hrepr d ws n (by omega) v hv
end

end SqlObjVerif.LexX
