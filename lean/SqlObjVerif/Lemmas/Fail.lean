import SqlObjVerif.Model.Fail
/-! # Lemmas for C06: the frame theorem of the micro-step interpreter and the per-operation commit structure -/
namespace SqlObjVerif.Fail

theorem bump_core (s0 s1 : St) : (bump s0 s1).core = s1.core := by
  unfold bump; split <;> rfl

theorem bump_changes_ge (s0 s1 : St) : s1.changes ≤ (bump s0 s1).changes := by
  unfold bump; split <;> simp

theorem bump_changes_eq (s0 s1 : St) (h : (bump s0 s1).changes = s1.changes) : s1.core = s0.core := by
  unfold bump at h; split at h
  · assumption
  · simp at h

theorem setTab_changes (s : St) (c rows) : (setTab s c rows).changes = s.changes := rfl

theorem exec_changes (sch : Schema) (q : Stmt) (s s2 : St) (h : exec sch q s = .ok s2) :
    s2.changes = s.changes := by
  unfold exec at h
  split at h
  · cases h; rfl
  · dsimp only at h
    split at h
    · cases h
    · split at h
      · cases h
      · cases h; rfl
  · dsimp only at h
    split at h
    · split at h
      · cases h
      · cases h; rfl
    · cases h; rfl
  · cases h; rfl
  · cases h; rfl

/-- **Frame.**  For EVERY program of micro-steps (every operation, every schema, every state, every
    injected fault): the ghost counter never decreases, and if it did not move, nothing changed. -/
theorem run_frame (sch : Schema) (inj : Option Inj) (p : Prog) :
    ∀ (s s' : St) (r : Option Err), run sch inj p s = (s', r) →
      s.changes ≤ s'.changes ∧ (s'.changes = s.changes → s'.core = s.core) := by
  induction p with
  | done => intro s s' r h; simp [run] at h; obtain ⟨rfl, _⟩ := h; simp
  | fail e => intro s s' r h; simp [run] at h; obtain ⟨rfl, _⟩ := h; simp
  | validate ok k ih =>
    intro s s' r h
    simp only [run] at h
    split at h
    · exact ih s s' r h
    · simp at h; obtain ⟨rfl, _⟩ := h; simp
  | event sig k ih => intro s s' r h; simp only [run] at h; exact ih s s' r h
  | stmt q k ih =>
    intro s s' r h
    simp only [run] at h
    split at h
    · simp at h; obtain ⟨rfl, _⟩ := h; simp
    · split at h
      · simp at h; obtain ⟨rfl, _⟩ := h; simp
      · rename_i s2 hex
        have hc := exec_changes sch q _ s2 hex
        have := ih _ s' r h
        have hb := bump_changes_ge { s with n := s.n + 1, log := q :: s.log } s2
        simp only at hc
        refine ⟨by omega, fun heq => ?_⟩
        have h1 : (bump { s with n := s.n + 1, log := q :: s.log } s2).changes = s2.changes := by omega
        have h2 := bump_changes_eq _ _ h1
        have h3 := this.2 (by omega)
        rw [h3, bump_core, h2]
  | mem m k ih =>
    intro s s' r h
    simp only [run] at h
    have := ih _ s' r h
    have hb := bump_changes_ge s { s with core := applyMem m s.core }
    simp only at hb
    refine ⟨by omega, fun heq => ?_⟩
    have h1 : (bump s { s with core := applyMem m s.core }).changes = s.changes := by omega
    have h2 := bump_changes_eq s { s with core := applyMem m s.core } h1
    have h3 := this.2 (by omega)
    rw [h3, bump_core, h2]
  | dyn f ih => intro s s' r h; simp only [run] at h; exact ih s s s' r h
  | guard b hd k ihb ihh ihk =>
    intro s s' r h
    simp only [run] at h
    split at h
    · rename_i s1 hb
      have h1 := ihb s s1 none hb
      have h2 := ihk s1 s' r h
      refine ⟨by omega, fun heq => ?_⟩
      rw [h2.2 (by omega), h1.2 (by omega)]
    · rename_i s1 e hb
      have h1 := ihb s s1 (some e) hb
      split at h
      · rename_i s2 hh
        have h2 := ihh s1 s2 none hh
        simp at h; obtain ⟨rfl, _⟩ := h
        refine ⟨by omega, fun heq => ?_⟩
        rw [h2.2 (by omega), h1.2 (by omega)]
      · rename_i s2 e2 hh
        have h2 := ihh s1 s2 (some e2) hh
        simp at h; obtain ⟨rfl, _⟩ := h
        refine ⟨by omega, fun heq => ?_⟩
        rw [h2.2 (by omega), h1.2 (by omega)]

/-! ## per-operation commit structure -/
def extrasErr : List Extra → Option Err
  | [] => none
  | .unknown :: _ => some .typeError
  | .badProp :: _ => some .attrError
  | .okProp :: ex => extrasErr ex
  | .fk _ _ :: ex => extrasErr ex
  | .parentAttr _ _ _ :: ex => extrasErr ex

def allOk (kw : List (Nat × In)) : Bool := kw.all fun a => a.2.isOk

theorem run_validates_ok (sch inj) (kw : List (Nat × In)) (k : Prog) (s : St) (h : allOk kw = true) :
    run sch inj (validates kw k) s = run sch inj k s := by
  induction kw with
  | nil => simp [validates]
  | cons a kw ih =>
    simp only [allOk, List.all_cons, Bool.and_eq_true] at h
    have h1 : a.2.fromOk = true ∧ a.2.toOk = true := by simpa [In.isOk] using h.1
    simp only [validates, List.foldr_cons, run, h1.1, h1.2, if_true]
    exact ih h.2

theorem run_validates_bad (sch inj) (kw : List (Nat × In)) (k : Prog) (s : St) (h : allOk kw = false) :
    run sch inj (validates kw k) s = (s, some .invalid) := by
  induction kw with
  | nil => simp [allOk] at h
  | cons a kw ih =>
    simp only [validates, List.foldr_cons, run]
    by_cases ha : a.2.fromOk = true
    · by_cases hb : a.2.toOk = true
      · simp only [ha, hb, if_true]
        apply ih
        simp only [allOk, List.all_cons, In.isOk, ha, hb, Bool.and_self, Bool.true_and] at h
        exact h
      · simp [ha, hb]
    · simp [ha]

theorem run_validates (sch inj) (kw : List (Nat × In)) (k : Prog) (s : St) :
    run sch inj (validates kw k) s = if allOk kw = true then run sch inj k s else (s, some .invalid) := by
  by_cases h : allOk kw = true
  · rw [if_pos h, run_validates_ok _ _ _ _ _ h]
  · rw [if_neg h, run_validates_bad _ _ _ _ _ (by simpa using h)]

/-- no ForeignKey-by-object keyword (those write the row by themselves) -/
def noFk : List Extra → Bool
  | [] => true
  | .fk _ _ :: _ => false
  | .parentAttr _ _ _ :: _ => false
  | _ :: ex => noFk ex

theorem run_extras (sch inj) (c id : Nat) (ex : List Extra) (k : Prog) (s : St) (hfk : noFk ex = true) :
    run sch inj (extras sch c id ex k) s =
      match extrasErr ex with
      | none => run sch inj k s
      | some e => (s, some e) := by
  induction ex with
  | nil => simp [extras, extrasErr]
  | cons a ex ih =>
    cases a <;> simp only [extras, List.foldr_cons, run, extrasErr, noFk] at ih hfk ⊢
    all_goals first | exact ih hfk | cases hfk

theorem run_extrasPure (sch inj) (ex : List Extra) (k : Prog) (s : St) :
    run sch inj (extrasPure ex k) s =
      match extrasErr ex with
      | none => run sch inj k s
      | some e => (s, some e) := by
  induction ex with
  | nil => simp [extrasPure, extrasErr]
  | cons a ex ih =>
    cases a <;> simp only [extrasPure, List.foldr_cons, run, extrasErr] at ih ⊢
    all_goals exact ih

theorem run_precheck (sch inj) (ex : List Extra) (k : Prog) (s : St) :
    run sch inj (precheck ex k) s = if hasUnknown ex = true then (s, some .typeError) else run sch inj k s := by
  unfold precheck; split <;> simp [run]

/-- a statement followed only by in-memory steps and events: fails without any effect or not at all -/
theorem run_stmt_tail (sch inj) (q : Stmt) (k : Prog) (s s' : St) (e : Err)
    (hk : ∀ s1, (run sch inj k s1).2 = none)
    (h : run sch inj (.stmt q k) s = (s', some e)) : s'.core = s.core := by
  simp only [run] at h
  split at h
  · simp at h; obtain ⟨rfl, _⟩ := h; rfl
  · split at h
    · simp at h; obtain ⟨rfl, _⟩ := h; rfl
    · have := hk (bump { s with n := s.n + 1, log := q :: s.log } ‹St›)
      rw [h] at this; simp at this

theorem setProg_noop (sch inj) (c id : Nat) (kw : List (Nat × In)) (ex : List Extra) (s s' : St) (e : Err)
    (hfk : noFk ex = true)
    (hlazy : (clsOf sch c).lazy = true → hasUnknown ex = true ∨ extrasErr ex = none)
    (h : run sch inj (setProg sch c id kw ex .done) s = (s', some e)) : s'.core = s.core := by
  unfold setProg at h
  split at h
  · rename_i hl
    simp only [run, run_validates] at h
    split at h
    · rw [run_precheck] at h
      split at h
      · simp at h; obtain ⟨rfl, _⟩ := h; rfl
      · rename_i hu
        have hex : extrasErr ex = none := by
          cases hlazy hl with
          | inl h1 => exact absurd h1 hu
          | inr h2 => exact h2
        simp only [run, run_extras _ _ _ _ _ _ _ hfk, hex] at h
        split at h <;> simp [run] at h
    · simp at h; obtain ⟨rfl, _⟩ := h; rfl
  · simp only [run, run_validates] at h
    split at h
    · rw [run_extras _ _ _ _ _ _ _ hfk] at h
      split at h
      · split at h
        · simp [run] at h
        · exact run_stmt_tail sch inj _ _ s s' e (by intro s1; simp [run]) h
      · simp at h; obtain ⟨rfl, _⟩ := h; rfl
    · simp at h; obtain ⟨rfl, _⟩ := h; rfl

theorem syncProg_noop (sch inj) (c id : Nat) (s s' : St) (e : Err)
    (h : run sch inj (syncProg c id .done) s = (s', some e)) : s'.core = s.core := by
  unfold syncProg at h
  simp only [run] at h
  split at h
  · simp [run] at h
  · exact run_stmt_tail sch inj _ _ s s' e (by intro s1; simp [run]) h

theorem bump_n (s0 s1 : St) : (bump s0 s1).n = s1.n := by
  unfold bump; split <;> rfl

theorem exec_select (sch : Schema) (c : Nat) (s : St) : exec sch (.select c) s = .ok s := rfl

/-- plain create: a failure is a no-op unless the injected error hits the SELECT that reads the
    new row back (statement `s.n + 2`) -/
theorem createProg_noop (sch inj) (c : Nat) (id? : Option Nat) (missing : Bool) (kw : List (Nat × In))
    (ex : List Extra) (s s' : St) (e : Err)
    (hinj : hit inj (s.n + 2) = none)
    (h : run sch inj (createProg sch c id? missing kw ex fun _ => .done) s = (s', some e)) :
    s'.core = s.core := by
  unfold createProg at h
  simp only [run] at h
  split at h
  · simp [run] at h; obtain ⟨rfl, _⟩ := h; rfl
  · rw [run_validates] at h
    split at h
    · rw [run_precheck] at h
      split at h
      · simp at h; obtain ⟨rfl, _⟩ := h; rfl
      rw [run_extrasPure] at h
      split at h
      · simp only [run] at h
        split at h
        · simp at h; obtain ⟨rfl, _⟩ := h; rfl
        · split at h
          · simp at h; obtain ⟨rfl, _⟩ := h; rfl
          · rename_i s2 hex
            have hn : s2.n = s.n + 1 := by
              unfold exec at hex
              simp only at hex
              split at hex
              · cases hex
              · split at hex
                · cases hex
                · cases hex; rfl
            have hinj' : hit inj (s2.n + 1) = none := by rw [hn]; exact hinj
            simp only [run, bump_n, hinj', exec_select] at h
            simp at h
      · simp at h; obtain ⟨rfl, _⟩ := h; rfl
    · simp at h; obtain ⟨rfl, _⟩ := h; rfl
theorem list_set_getD_self {α} (l : List α) (i : Nat) (d : α) (h : i < l.length) : l.set i (l.getD i d) = l := by
  simp [List.getD, List.getElem?_eq_getElem h]


/-- a value that does not validate stops `set()` before anything else happened, whatever else is
    among the keywords -/
theorem setProg_invalid_noop (sch inj) (c id : Nat) (kw : List (Nat × In)) (ex : List Extra) (k : Prog) (s s' : St)
    (r : Option Err) (hbad : allOk kw = false)
    (h : run sch inj (setProg sch c id kw ex k) s = (s', r)) : s'.core = s.core := by
  unfold setProg at h
  split at h <;>
  · simp only [run, run_validates, hbad, Bool.false_eq_true, if_false] at h
    simp only [Prod.mk.injEq] at h
    rw [← h.1]

end SqlObjVerif.Fail
