import SqlObjVerif.Lemmas.EvChainXCreate
/-!
C19 translator tie, part 16: the constructors of an inheritance chain of ANY depth as translated (induction on the depth):
what every level's `_create` / nested `__init__` leaves, and the outermost constructor with its flush.
-/
namespace SqlObjVerif.Events
open SqlObjVerif.PyEv (World Obj Thunk Outcome PV PDict kwPV tagLog)

section
variable (fuel : Nat) (cls : Nat → Cfg)

/-- what the RowCreateSignal listeners of level `j` do to an empty kwargs dict -/
def dCreate (j : Nat) : Kw × List Nat × List Entry := deliver .create none 0 (cls j).listeners [] []

/-- every level up to `L` can be created without keywords: its RowCreateSignal listeners leave the kwargs empty, it has a
    column, and its defaults validate -/
def ChainOk (L : Nat) : Prop :=
  ∀ j, j ≤ L → (dCreate cls j).1 = [] ∧ 0 < (cls j).ncols ∧ (newRow (cls j) []).contains .bad = false

def rowL (j : Nat) : List Val := newRow (cls j) []

/-- the log of the constructor of level `L` for the object that gets id `i`, up to its return (no flush) -/
def cLog (i : Nat) : Nat → List (Nat × Entry)
  | 0 => tagLog 0 (dCreate cls 0).2.2 ++ ([(0, Entry.ins i (rowL cls 0))] ++ tagLog 0 ((dCreate cls 0).2.1.map fun p => Entry.post p i))
  | L + 1 => tagLog (L + 1) (dCreate cls (L + 1)).2.2 ++
      ((cLog i L ++ [(L + 1, Entry.ins i (rowL cls (L + 1)))]) ++ tagLog (L + 1) ((dCreate cls (L + 1)).2.1.map fun p => Entry.post p i))

/-- … of its `_create` -/
def innerLog (i : Nat) : Nat → List (Nat × Entry)
  | 0 => [(0, Entry.ins i (rowL cls 0))]
  | L + 1 => cLog cls i L ++ [(L + 1, Entry.ins i (rowL cls (L + 1)))]

theorem cLog_eq (i L : Nat) : cLog cls i L = tagLog L (dCreate cls L).2.2 ++
    (innerLog cls i L ++ tagLog L ((dCreate cls L).2.1.map fun p => Entry.post p i)) := by
  cases L <;> simp [cLog, innerLog]

def chainRows (i : Nat) (L : Nat) : List (Nat × List Val) := (List.range (L + 1)).map fun j => (i, rowL cls j)

/-- the thunks levels `0 … L` appended, in that order, each closing over its own class and the common id -/
def GoodChain (i : Nat) : Nat → List Thunk → Prop
  | 0, ts => ∃ t, ts = [t] ∧ GoodThunk t i ∧ t.cfg = cls 0 ∧ t.lvl = 0
  | L + 1, ts => ∃ ts' t, ts = ts' ++ [t] ∧ GoodChain i L ts' ∧ GoodThunk t i ∧ t.cfg = cls (L + 1) ∧ t.lvl = L + 1

def doneObj (i : Nat) (vals' : Nat → Option Val) : PyEv.Obj :=
  { id := some i, vals := vals', cv := some [], creating := false, dirty := false, obsolete := false,
    sigSuppress := false, lock := false }

def afterChain (w : World) (i : Nat) (rows' : List (Nat × List Val)) (lg : List (Nat × Entry)) (vals' : Nat → Option Val)
    (pp : List Thunk) : World :=
  { w with rows := w.rows ++ rows', nextId := i + 1, log := w.log ++ lg, o := doneObj i vals', postponed := some pp }

/-- `_create` of level `L` on a fresh instance -/
def CreateSpec (L : Nat) : Prop :=
  ∀ (w : World) (l : List Thunk), w.c = cls L → w.lvl = L → w.o = newObj → w.postponed = some l →
    rowOf? w.rows w.nextId = none →
    ∃ ts vals', GoodChain cls w.nextId L ts ∧
      chainCreate fuel cls L w [.none] [] = .ret (afterChain w w.nextId (chainRows cls w.nextId L) (innerLog cls w.nextId L) vals' (l ++ ts)) .none

/-- the nested constructor of level `L` -/
def InitSpec (L : Nat) : Prop :=
  ∀ (w : World) (l : List Thunk), w.c = cls L → w.lvl = L → w.o = newObj → w.postponed = some l →
    rowOf? w.rows w.nextId = none →
    ∃ ts vals', GoodChain cls w.nextId L ts ∧
      initX fuel (chainCreate fuel cls L) w [] = .ret (afterChain w w.nextId (chainRows cls w.nextId L) (cLog cls w.nextId L) vals' (l ++ ts)) .none

theorem initSpec_of_create (L : Nat) (hok : ChainOk cls L) (hc : CreateSpec fuel cls L) : InitSpec fuel cls L := by
  intro w l hcl hlv ho hpp hfresh
  obtain ⟨hk, -, -⟩ := hok L (Nat.le_refl L)
  have hD : deliver .create none 0 w.c.listeners [] [] = dCreate cls L := by rw [hcl]; rfl
  obtain ⟨ts, vals', hg, hcx⟩ := hc (initW w (dCreate cls L) l) l hcl hlv ho rfl hfresh
  have hkw : kwPV (deliver .create none 0 w.c.listeners [] []).1 = [] := by rw [hD, hk]; rfl
  have h := initX_nested fuel (chainCreate fuel cls L) w l [] ho hpp _ w.nextId (by rw [hD, hk]; exact hcx) rfl
  refine ⟨ts, vals', hg, ?_⟩
  have hkw0 : kwPV ([] : Kw) = [] := rfl
  rw [hkw0] at h
  rw [h, hD, cLog_eq]
  obtain ⟨c, lvl, rows, nextId, o, pp, log⟩ := w
  simp only at hlv
  subst hlv
  simp [withPosts, afterChain, initW, doneObj, tagLog]


theorem unknownKey_nil (n : Nat) : unknownKey n [] = false := rfl

theorem createSpec_zero (hok : ChainOk cls 0) : CreateSpec fuel cls 0 := by
  intro w l hcl hlv ho hpp hfresh
  obtain ⟨-, hn, hb⟩ := hok 0 (Nat.le_refl 0)
  have hrow : rowOf? (w.rows ++ [(insId w.nextId .none, newRow w.c [])]) (insId w.nextId .none) = some (newRow w.c []) := by
    unfold rowOf? at hfresh ⊢
    simp only [insId]
    rw [List.lookup_append, hfresh]; simp [List.lookup]
  have hne : newRow w.c [] ≠ [] := by
    rw [hcl]; unfold newRow; intro h
    have := congrArg List.length h
    simp at this; omega
  obtain ⟨t, hg, hc, hl, hx⟩ := createX_gen_ok fuel w [] l .none (Or.inl rfl) (by simp) hpp (by rw [hcl]; exact hb)
    (unknownKey_nil _) _ hrow hne
  refine ⟨[t], fun c => (newRow w.c [])[c]?, ⟨t, rfl, hg, hc.trans hcl, hl.trans hlv⟩, ?_⟩
  unfold chainCreate
  rw [inhCreate_root fuel cls w _ hx]
  obtain ⟨c, lvl, rows, nextId, o, pp, log⟩ := w
  simp only at hlv hcl ho
  subst hlv hcl ho
  simp [afterChain, doneObj, chainRows, innerLog, rowL, insId, insNext, newObj]


theorem chainRows_succ (i L : Nat) : chainRows cls i (L + 1) = chainRows cls i L ++ [(i, rowL cls (L + 1))] := by
  simp [chainRows, List.range_succ]

theorem rowOf_chainRows (rows : List (Nat × List Val)) (i L : Nat) (tl : List (Nat × List Val))
    (hfresh : rowOf? rows i = none) : rowOf? ((rows ++ chainRows cls i L) ++ tl) i = some (rowL cls 0) := by
  unfold rowOf? at hfresh ⊢
  have : chainRows cls i L = (i, rowL cls 0) :: (List.range' 1 L).map fun j => (i, rowL cls j) := by
    simp [chainRows, List.range_succ_eq_map, List.range'_eq_map_range, Function.comp_def, Nat.add_comm]
  rw [List.lookup_append, List.lookup_append, hfresh, this]
  simp [List.lookup]

theorem newRow_ne_nil (c : Cfg) (kw : Kw) (hn : 0 < c.ncols) : newRow c kw ≠ [] := by
  unfold newRow; intro h
  have := congrArg List.length h
  simp at this; omega

theorem createSpec_succ (L : Nat) (hok : ChainOk cls (L + 1)) (hi : InitSpec fuel cls L) : CreateSpec fuel cls (L + 1) := by
  intro w l hcl hlv ho hpp hfresh
  obtain ⟨-, hn, hb⟩ := hok (L + 1) (Nat.le_refl _)
  obtain ⟨-, hn0, -⟩ := hok 0 (Nat.zero_le _)
  obtain ⟨ts, vals, hg, hinit⟩ := hi { w with c := cls L, lvl := L, o := newObj } l rfl rfl rfl hpp hfresh
  simp only at hinit hg
  have hrow := rowOf_chainRows cls w.rows w.nextId L [(w.nextId, newRow w.c [])] hfresh
  obtain ⟨t, hgt, hc, hl, hx⟩ := createX_gen_ok fuel
    { afterChain { w with c := cls L, lvl := L, o := newObj } w.nextId (chainRows cls w.nextId L) (cLog cls w.nextId L) vals (l ++ ts)
      with c := w.c, lvl := w.lvl, o := w.o } [] (l ++ ts) (.nat w.nextId) (Or.inr ⟨_, rfl⟩) (by simp) rfl
    (by rw [hcl]; exact hb) (unknownKey_nil _) (rowL cls 0)
    (by simpa [afterChain, insId] using hrow) (newRow_ne_nil _ _ hn0)
  refine ⟨ts ++ [t], fun c => (rowL cls 0)[c]?, ⟨ts, t, rfl, hg, hgt, ?_, ?_⟩, ?_⟩
  · simpa [afterChain, hcl] using hc
  · simpa [afterChain, hlv] using hl
  · show inhCreateX fuel cls (L + 1) (some fun w => initX fuel (chainCreate fuel cls L) w []) w [.none] [] = _
    have hch := inhCreate_child fuel cls L (fun w => initX fuel (chainCreate fuel cls L) w []) w _ _ w.nextId hinit rfl hx
    rw [hch]
    obtain ⟨c, lvl, rows, nextId, o, pp, log⟩ := w
    simp only at hlv hcl ho
    subst hlv hcl ho
    simp [afterChain, doneObj, chainRows_succ, innerLog, rowL, insId, insNext, newObj]


theorem chainOk_mono {L : Nat} (hok : ChainOk cls (L + 1)) : ChainOk cls L :=
  fun j hj => hok j (Nat.le_succ_of_le hj)

/-- **every depth**: `_create` and the nested constructor of every level, by induction on the depth of the chain -/
theorem chain_specs : ∀ L, ChainOk cls L → CreateSpec fuel cls L ∧ InitSpec fuel cls L := by
  intro L
  induction L with
  | zero => intro hok; exact ⟨createSpec_zero fuel cls hok, initSpec_of_create fuel cls 0 hok (createSpec_zero fuel cls hok)⟩
  | succ L ih =>
    intro hok
    have hc := createSpec_succ fuel cls L hok (ih (chainOk_mono cls hok)).2
    exact ⟨hc, initSpec_of_create fuel cls (L + 1) hok hc⟩

theorem goodChain_good (i : Nat) : ∀ (L : Nat) (ts : List Thunk), GoodChain cls i L ts →
    ts.length = L + 1 ∧ (∀ t ∈ ts, ∃ j, GoodThunk t j)
    ∧ flushLog ts = (List.range (L + 1)).flatMap fun j => tagLog j (createdLog (cls j) i) := by
  intro L
  induction L with
  | zero =>
    rintro ts ⟨t, rfl, hg, hc, hl⟩
    refine ⟨rfl, fun t' ht' => ⟨i, by simp at ht'; rw [ht']; exact hg⟩, ?_⟩
    simp [flushLog, hc, hl, hg.2.1]
  | succ L ih =>
    rintro ts ⟨ts', t, rfl, hch, hg, hc, hl⟩
    obtain ⟨h1, h2, h3⟩ := ih ts' hch
    refine ⟨by simp [h1], ?_, ?_⟩
    · intro t' ht'
      simp only [List.mem_append, List.mem_singleton] at ht'
      rcases ht' with h | rfl
      · exact h2 t' h
      · exact ⟨i, hg⟩
    · have : flushLog (ts' ++ [t]) = flushLog ts' ++ tagLog t.lvl (createdLog t.cfg (t.selfId.getD 0)) := by
        simp [flushLog]
      rw [this, h3, List.range_succ (n := L + 1), List.flatMap_append, hc, hl, hg.2.1]
      simp

/-- **`Cls_L()` from application code, as translated, for every depth `L`**: the constructors of levels `L … 0` nest (each
    sends its RowCreateSignal, constructs its parent, INSERTs, runs its callbacks), every level's `_send_RowCreatedSignal`
    thunk goes to the ONE thread-local list, and the outermost `finally:` delivers them in order root … `L`, then deletes
    the list. -/
theorem chainInitX_run (L : Nat) (hok : ChainOk cls L) (hfuel : L + 1 < fuel) (w : World)
    (hcl : w.c = cls L) (hlv : w.lvl = L) (ho : w.o = newObj) (hpp : w.postponed = none)
    (hfresh : rowOf? w.rows w.nextId = none) :
    ∃ w', chainInitX fuel cls L w = .ret w' .none ∧ w'.postponed = none
      ∧ w'.log = w.log ++ (cLog cls w.nextId L ++ (List.range (L + 1)).flatMap fun j => tagLog j (createdLog (cls j) w.nextId)) := by
  obtain ⟨hk, -, -⟩ := hok L (Nat.le_refl L)
  have hD : deliver .create none 0 w.c.listeners [] [] = dCreate cls L := by rw [hcl]; rfl
  obtain ⟨ts, vals', hg, hcx⟩ := (chain_specs fuel cls L hok).1 (initW w (dCreate cls L) []) [] hcl hlv ho rfl hfresh
  obtain ⟨hlen, hgood, hfl⟩ := goodChain_good cls _ L ts hg
  have h := initX_outer fuel (chainCreate fuel cls L) w [] ho hpp _ w.nextId ts (by rw [hD, hk]; exact hcx) rfl
    (by simp [afterChain]) hgood (by omega)
  have hkw0 : kwPV ([] : Kw) = [] := rfl
  rw [hkw0] at h
  refine ⟨_, h, rfl, ?_⟩
  rw [hD, cLog_eq]
  have hfl' : flushLog ts = (List.range (L + 1)).flatMap fun j => tagLog j (createdLog (cls j) w.nextId) := hfl
  obtain ⟨c, lvl, rows, nextId, o, pp, log⟩ := w
  simp only at hlv
  subst hlv
  simp [flushed, withPosts, afterChain, initW, hfl', tagLog]

end
end SqlObjVerif.Events
