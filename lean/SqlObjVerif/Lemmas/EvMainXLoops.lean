import SqlObjVerif.Lemmas.EvMainXPure
/-!
C19 translator tie, part 3: the filters and the loops of the translated `set`.
-/
namespace SqlObjVerif.Events
open SqlObjVerif.PyEv
open SqlObjVerif.PyEv.Extracted
open SqlObjVerif.PyMain (R mapR ofOpt dget dhas dset dupdate dictOf sortByKey insByKey Exc FnKind)

theorem kwPV_keys (kw : Kw) : (kwPV kw).map (·.1) = kw.map (·.1) := by simp [kwPV]
theorem kwPV_append (a b : Kw) : kwPV (a ++ b) = kwPV a ++ kwPV b := by simp [kwPV]
theorem kwPV_cons (e : Key × Val) (l : Kw) : kwPV (e :: l) = (e.1, ofVal e.2) :: kwPV l := rfl

theorem blt_true {a n : Nat} (h : a < n) : Nat.blt a n = true := by rw [Nat.blt_eq]; exact h
theorem blt_false {a n : Nat} (h : ¬ a < n) : Nat.blt a n = false := by
  cases hc : Nat.blt a n
  · rfl
  · rw [Nat.blt_eq] at hc; exact absurd hc h

/-- `filter(f_is_column, kw.items())` / `filter(f_not_column, kw.items())` -/
theorem filter_cols (st : St) (x : Nat) (kw : Kw) (h0 : st.dicts 0 = some (kwPV kw)) :
    LExpr.eval st (.filter x (.items (.loc 0)) (.inPlainSetters (.idx (.var x) 0)))
      = .ok (itemsOf (kwPV (colsOf st.w.c.ncols kw))) := by
  evwith [h0]
  simp [colsOf, List.filter_map, Function.comp_def]

theorem filter_extra (st : St) (x : Nat) (kw : Kw) (h0 : st.dicts 0 = some (kwPV kw)) :
    LExpr.eval st (.filter x (.items (.loc 0)) (.not (.inPlainSetters (.idx (.var x) 0))))
      = .ok (itemsOf (kwPV (extraOf st.w.c.ncols kw))) := by
  evwith [h0]
  simp [extraOf, List.filter_map, Function.comp_def]


theorem not_mem_keys_of_nodup {done rest : Kw} {k : Nat} {v : Val} (h : ((done ++ (k, v) :: rest).map (·.1)).Nodup) :
    k ∉ (kwPV done).map (·.1) := by
  rw [kwPV_keys]
  simp only [List.map_append, List.map_cons] at h
  have := (List.nodup_append.mp h).2.2
  intro hm
  exact this k hm k (by simp) rfl

/-- validation loop of the eager branch of `set` (loop 4) -/
theorem for4_loop {ops : Ops} {call : Calls} : ∀ (rest done : Kw) (st : St),
    st.dicts 2 = some (kwPV done) → st.dicts 3 = some (kwPV done) → (∀ e ∈ rest, e.1 < st.w.c.ncols) →
    ((done ++ rest).map (·.1)).Nodup →
    (rest.any (fun e => decide (e.2 = .bad)) = false →
      ∃ st', forLoop (bindThen (.two 3 4) fun st' => Block.exec ops call st' set_for4) (itemsOf (kwPV rest)) st = .norm st'
        ∧ st'.w = st.w ∧ st'.lists = st.lists ∧ st'.dicts 2 = some (kwPV (done ++ rest)) ∧ st'.dicts 3 = some (kwPV (done ++ rest))
        ∧ (∀ y, y ≠ 2 → y ≠ 3 → st'.dicts y = st.dicts y) ∧ (∀ y, y < 3 ∨ 7 < y → st'.vars y = st.vars y))
    ∧ (rest.any (fun e => decide (e.2 = .bad)) = true →
      ∃ st', forLoop (bindThen (.two 3 4) fun st' => Block.exec ops call st' set_for4) (itemsOf (kwPV rest)) st = .exc st' .invalid
        ∧ st'.w = st.w) := by
  intro rest
  induction rest with
  | nil =>
    intro done st h2 h3 _ _
    refine ⟨fun _ => ⟨st, by simp [itemsOf, forLoop], rfl, rfl, by simpa using h2, by simpa using h3, fun _ _ _ => rfl, fun _ _ => rfl⟩,
      fun h => by simp at h⟩
  | cons e rest ih =>
    obtain ⟨k, v⟩ := e
    intro done st h2 h3 hcols hnd
    have hk : k < st.w.c.ncols := hcols (k, v) (by simp)
    have hkd := not_mem_keys_of_nodup hnd
    by_cases hv : v = .bad
    · subst hv
      refine ⟨fun h => by simp at h, fun _ => ?_⟩
      have hstep : ∃ st1, (bindThen (.two 3 4) fun st' => Block.exec ops call st' set_for4) st (.pair (.name k) (ofVal .bad))
          = .exc st1 .invalid ∧ st1.w = st.w := by
        evwith [set_for4, hk]
      obtain ⟨st1, h1, hw⟩ := hstep
      exact ⟨st1, by simp only [kwPV_cons, itemsOf, List.map_cons, forLoop] at h1 ⊢; rw [h1], hw⟩
    · have hstep : ∃ st1, (bindThen (.two 3 4) fun st' => Block.exec ops call st' set_for4) st (.pair (.name k) (ofVal v))
          = .norm st1 ∧ st1.w = st.w ∧ st1.lists = st.lists ∧ st1.dicts 2 = some (kwPV (done ++ [(k, v)]))
            ∧ st1.dicts 3 = some (kwPV (done ++ [(k, v)])) ∧ (∀ y, y ≠ 2 → y ≠ 3 → st1.dicts y = st.dicts y)
            ∧ (∀ y, y < 3 ∨ 7 < y → st1.vars y = st.vars y) := by
        evwith [set_for4, hk, hv, h2, h3, dset_not_mem _ _ _ hkd, kwPV_append, kwPV_cons]
        refine ⟨?_, ?_⟩
        · intro y hy2 hy3; simp [hy2, hy3]
        · intro y hy
          have : y ≠ 3 ∧ y ≠ 4 ∧ y ≠ 5 ∧ y ≠ 6 ∧ y ≠ 7 := by omega
          simp [this]
      obtain ⟨st1, h1, hw, hl, h2', h3', hd, hvv⟩ := hstep
      have hih := ih (done ++ [(k, v)]) st1 h2' h3' (by rw [hw]; exact fun e he => hcols e (by simp [he])) (by simpa using hnd)
      have hstart : forLoop (bindThen (.two 3 4) fun st' => Block.exec ops call st' set_for4) (itemsOf (kwPV ((k, v) :: rest))) st
          = forLoop (bindThen (.two 3 4) fun st' => Block.exec ops call st' set_for4) (itemsOf (kwPV rest)) st1 := by
        simp only [kwPV_cons, itemsOf, List.map_cons, forLoop] at h1 ⊢; rw [h1]
      rw [hstart]
      have hany : ((k, v) :: rest).any (fun e => decide (e.2 = .bad)) = rest.any (fun e => decide (e.2 = .bad)) := by
        simp [hv]
      rw [hany]
      refine ⟨fun h => ?_, fun h => ?_⟩
      · obtain ⟨st', hf, hw', hl', h2'', h3'', hd', hv'⟩ := hih.1 h
        refine ⟨st', hf, hw'.trans hw, hl'.trans hl, by simpa using h2'', by simpa using h3'',
          fun y a b => (hd' y a b).trans (hd y a b), fun y a => (hv' y a).trans (hvv y a)⟩
      · obtain ⟨st', hf, hw'⟩ := hih.2 h
        exact ⟨st', hf, hw'.trans hw⟩


@[simp] theorem optMap_dictItemOf_items (d : PDict) : optMap dictItemOf (itemsOf d) = some d := by
  induction d with
  | nil => rfl
  | cons e l ih => simp [itemsOf, optMap] at ih ⊢

theorem colsOf_nodup (n : Nat) (kw : Kw) (h : (kw.map (·.1)).Nodup) : ((kwPV (colsOf n kw)).map (·.1)).Nodup := by
  rw [kwPV_keys]; exact keys_filter_nodup _ _ h
theorem extraOf_nodup (n : Nat) (kw : Kw) (h : (kw.map (·.1)).Nodup) : ((kwPV (extraOf n kw)).map (·.1)).Nodup := by
  rw [kwPV_keys]; exact keys_filter_nodup _ _ h

theorem filter_stmt_extra {ops : Ops} {call : Calls} (st : St) (x : Nat) (kw : Kw) (h0 : st.dicts 0 = some (kwPV kw))
    (hnd : (kw.map (·.1)).Nodup) :
    Stmt.exec ops call st (.dictOfList (.loc 1) (.filter x (.items (.loc 0)) (.not (.inPlainSetters (.idx (.var x) 0)))))
      = .norm { st with dicts := st.dicts.put 1 (kwPV (extraOf st.w.c.ncols kw)) } := by
  simp only [Stmt.exec, filter_extra st x kw h0, withR_ok, optMap_dictItemOf_items, ofOptRes_some, St.setDict,
    dictOf_nodup _ (extraOf_nodup _ _ hnd)]

theorem filter_stmt_cols {ops : Ops} {call : Calls} (st : St) (x : Nat) (kw : Kw) (h0 : st.dicts 0 = some (kwPV kw))
    (hnd : (kw.map (·.1)).Nodup) :
    Stmt.exec ops call st (.dictOfList (.loc 0) (.filter x (.items (.loc 0)) (.inPlainSetters (.idx (.var x) 0))))
      = .norm { st with dicts := st.dicts.put 0 (kwPV (colsOf st.w.c.ncols kw)) } := by
  simp only [Stmt.exec, filter_cols st x kw h0, withR_ok, optMap_dictItemOf_items, ofOptRes_some, St.setDict,
    dictOf_nodup _ (colsOf_nodup _ _ hnd)]

/-- the loops of `set` over the keywords that are not columns (loops 3 and 5): the first one is refused -/
theorem extra_loop {ops : Ops} {call : Calls} {body : Block} (hbody : body = set_for5) (extra : Kw) (st : St)
    (hx : ∀ e ∈ extra, ¬ e.1 < st.w.c.ncols) :
    (extra = [] → forLoop (bindThen (.two 3 4) fun st' => Block.exec ops call st' body) (itemsOf (kwPV extra)) st = .norm st)
    ∧ (extra ≠ [] → ∃ st', forLoop (bindThen (.two 3 4) fun st' => Block.exec ops call st' body) (itemsOf (kwPV extra)) st
        = .exc st' .typeError ∧ st'.w = st.w) := by
  subst hbody
  refine ⟨fun h => by subst h; rfl, fun h => ?_⟩
  cases extra with
  | nil => exact absurd rfl h
  | cons e l =>
    obtain ⟨k, v⟩ := e
    have hk : ¬ k < st.w.c.ncols := hx (k, v) (by simp)
    have hstep : ∃ st1, (bindThen (.two 3 4) fun st' => Block.exec ops call st' set_for5) st (.pair (.name k) (ofVal v))
        = .exc st1 .typeError ∧ st1.w = st.w := by
      evwith [set_for5, hk, blt_false hk]
    obtain ⟨st1, h1, hw⟩ := hstep
    exact ⟨st1, by simp only [kwPV_cons, itemsOf, List.map_cons, forLoop] at h1 ⊢; rw [h1], hw⟩

/-- the caching loops of `set` (loops 2 and 6) -/
theorem cache_loop {ops : Ops} {call : Calls} {body : Block} (hbody : body = .cons (.setattrSelf (.instName (.var 3)) (.var 4)) .nil) :
    ∀ (xs : Kw) (st : St), ∃ st' vals', forLoop (bindThen (.two 3 4) fun st' => Block.exec ops call st' body) (itemsOf (kwPV xs)) st = .norm st'
      ∧ st'.w = { st.w with o := { st.w.o with vals := vals' } } ∧ st'.lists = st.lists ∧ st'.dicts = st.dicts
      ∧ (∀ y, y ≠ 3 → y ≠ 4 → st'.vars y = st.vars y) := by
  subst hbody
  intro xs
  induction xs with
  | nil => intro st; exact ⟨st, st.w.o.vals, rfl, rfl, rfl, rfl, fun _ _ _ => rfl⟩
  | cons e xs ih =>
    obtain ⟨k, v⟩ := e
    intro st
    have hstep : ∃ st1 vals1, (bindThen (.two 3 4) fun st' => Block.exec ops call st' (.cons (.setattrSelf (.instName (.var 3)) (.var 4)) .nil)) st (.pair (.name k) (ofVal v))
        = .norm st1 ∧ st1.w = { st.w with o := { st.w.o with vals := vals1 } } ∧ st1.lists = st.lists ∧ st1.dicts = st.dicts
          ∧ (∀ y, y ≠ 3 → y ≠ 4 → st1.vars y = st.vars y) := by
      evwith []
      intro y h3 h4; simp [h3, h4]
    obtain ⟨st1, vals1, h1, hw, hl, hd, hv⟩ := hstep
    obtain ⟨st', vals', hf, hw', hl', hd', hv'⟩ := ih st1
    refine ⟨st', vals', ?_, by rw [hw', hw], hl'.trans hl, hd'.trans hd, fun y a b => (hv' y a b).trans (hv y a b)⟩
    simp only [kwPV_cons, itemsOf, List.map_cons, forLoop] at h1 hf ⊢
    rw [h1]; exact hf

end SqlObjVerif.Events
