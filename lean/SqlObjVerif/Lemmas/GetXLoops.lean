import SqlObjVerif.Lemmas.GetXBase
import SqlObjVerif.Lemmas.CacheXList
set_option linter.unusedSimpArgs false
namespace SqlObjVerif.Cache
open SqlObjVerif.PyGet
open SqlObjVerif.PyGet.Extracted

/-! ### the `CacheSet` methods that loop over all factories -/

/-- the ids / instances a factory lists: the strong entries, then the weak ones whose referent is alive and truthy -/
def facIds (w : GW) (c : Cls) : List Id :=
  (if w.s.cfg.doCache then (w.s.fac c).strong.map (·.1) else []) ++
    ((w.s.fac c).weak.filter (listed w.s w.falsy)).map (·.1)

def facObjs (w : GW) (c : Cls) : List Handle :=
  (if w.s.cfg.doCache then (w.s.fac c).strong.map (·.2) else []) ++
    ((w.s.fac c).weak.filter (listed w.s w.falsy)).map (·.2)

theorem facAllIDs_eq (w : GW) (c : Cls) :
    facCall w c "allIDs" [] = .ret w (Val.ofList ((facIds w c).map Val.key)) := by
  simp [facCall, GW.pw]
  rw [allIDsX_eq]
  simp only [facOut, GW.back, backS_absW (Local.refl w.s c)]
  have : upd w.lock c (absW w.s c (relOf w.s) w.falsy (w.lock c)).self.lock = w.lock := upd_self w.lock c
  rw [this]
  congr 2
  cases hd : w.s.cfg.doCache <;> simp [facIds, valOfP, Function.comp_def, hd]

theorem facGetAll_eq (w : GW) (c : Cls) :
    facCall w c "getAll" [] = .ret w (Val.ofList ((facObjs w c).map Val.obj)) := by
  simp [facCall, GW.pw]
  rw [getAllX_eq]
  simp only [facOut, GW.back, backS_absW (Local.refl w.s c)]
  have : upd w.lock c (absW w.s c (relOf w.s) w.falsy (w.lock c)).self.lock = w.lock := upd_self w.lock c
  rw [this]
  congr 2
  cases hd : w.s.cfg.doCache <;> simp [facObjs, valOfP, Function.comp_def, hd]

/-- one factory after `CacheFactory.expireAll()` -/
def wk (f : Factory) : Factory := { f with weak := asetAll f.strong f.weak, strong := [] }

def weakrefOne (s : State) (c : Cls) : State := if s.cfg.doCache then setFac s c (wk (s.fac c)) else s

theorem facExpireAll_eq (w : GW) (c : Cls) (hl : w.lock c = false)
    (hrel : ∀ e ∈ (w.s.fac c).strong, relOf w.s e.2 = false) :
    facCall w c "expireAll" [] = .ret { w with s := weakrefOne w.s c } .none := by
  simp [facCall, GW.pw, hl]
  rw [expireAllX_eq w.s c _ w.falsy hrel]
  have h1 : absW (weakrefAll w.s) c (relOf w.s) w.falsy false = absW (weakrefOne w.s c) c (relOf w.s) w.falsy false := by
    unfold weakrefAll weakrefOne
    cases hd : w.s.cfg.doCache <;> simp [absW, absSelf, setFac, upd, wk, hd]
  rw [h1, facOut_ret]
  · rw [← hl, upd_self]; rfl
  · unfold weakrefOne; split
    · exact local_setFac _ _ _
    · exact Local.refl _ _

/-- a loop `for cache in self.caches.values(): cache.<m>()`, unrolled -/
def facFold (m : String) : List Cls → GW → CallRes GW
  | [], w => .ret w .none
  | c :: cs, w => match facCall w c m [] with
    | .ret w' _ => facFold m cs w'
    | r => r

theorem loop_unit (m : String) (cs : List Cls) (w : GW) (v1 : Option Val) :
    (match facFold m cs w with
     | .ret w' _ => ∃ v1', PyGet.forLoop (fun st v => (Block.cons (.call none (.var 1) m [] [] []) .nil).exec csIface (st.setVar 1 v))
          (cs.map (fun c => Val.ref "factory" c)) ⟨w, [some .none, v1]⟩ = .norm ⟨w', [some .none, v1']⟩
     | .exc w' e => ∃ v1', PyGet.forLoop (fun st v => (Block.cons (.call none (.var 1) m [] [] []) .nil).exec csIface (st.setVar 1 v))
          (cs.map (fun c => Val.ref "factory" c)) ⟨w, [some .none, v1]⟩ = .exc ⟨w', [some .none, v1']⟩ e
     | .stuck => PyGet.forLoop (fun st v => (Block.cons (.call none (.var 1) m [] [] []) .nil).exec csIface (st.setVar 1 v))
          (cs.map (fun c => Val.ref "factory" c)) ⟨w, [some .none, v1]⟩ = .stuck) := by
  induction cs generalizing w v1 with
  | nil => exact ⟨v1, rfl⟩
  | cons c cs ih =>
    simp only [facFold, List.map_cons, PyGet.forLoop]
    have hb : (Block.cons (.call none (.var 1) m [] [] []) .nil).exec csIface
        (St.setVar ⟨w, [some .none, v1]⟩ 1 (Val.ref "factory" c)) =
        (match facCall w c m [] with
         | .ret w' _ => .norm ⟨w', [some .none, some (Val.ref "factory" c)]⟩
         | .exc w' e => .exc ⟨w', [some .none, some (Val.ref "factory" c)]⟩ e
         | .stuck => .stuck) := by
      simp [Block.exec, Stmt.exec, Expr.eval, evalList, afterCall, St.setVar, St.setOpt, Env.get, zipKw, csIface]
      cases facCall w c m [] <;> rfl
    rw [hb]
    cases hf : facCall w c m [] with
    | ret w' v => simp only; exact ih w' _
    | exc w' e => exact ⟨_, rfl⟩
    | stuck => rfl

/-- "what the strong cache lets go of does not die on the spot": reference counting off, or every strongly cached
    object is held by the application -/
def NoRel (s : State) : Prop := ∀ c e, e ∈ (s.fac c).strong → relOf s e.2 = false

theorem noRel_weakrefOne {s : State} (h : NoRel s) (c : Cls) : NoRel (weakrefOne s c) := by
  unfold weakrefOne
  split
  · intro c' e he
    have hr : relOf (setFac s c (wk (s.fac c))) = relOf s := rfl
    rw [hr]
    by_cases hc : c' = c
    · subst hc; simp [setFac, upd, wk] at he
    · simp only [setFac, upd, hc, if_false] at he; exact h c' e he
  · exact h

theorem facFold_expireAll (cs : List Cls) (w : GW) (hl : ∀ c, w.lock c = false) (hr : NoRel w.s) :
    facFold "expireAll" cs w = .ret { w with s := cs.foldl weakrefOne w.s } .none := by
  induction cs generalizing w with
  | nil => rfl
  | cons c cs ih =>
    simp only [facFold, List.foldl_cons]
    rw [facExpireAll_eq w c (hl c) (hr c)]
    exact ih { w with s := weakrefOne w.s c } hl (noRel_weakrefOne hr c)

theorem wk_wk (f : Factory) : wk (wk f) = wk f := by simp [wk, asetAll]

theorem foldl_weakrefOne_fac (cs : List Cls) (s : State) (hd : s.cfg.doCache = true) :
    cs.foldl weakrefOne s = { s with fac := fun c => if c ∈ cs then wk (s.fac c) else s.fac c } := by
  induction cs generalizing s with
  | nil => simp
  | cons c0 cs ih =>
    simp only [List.foldl_cons]
    have h1 : weakrefOne s c0 = setFac s c0 (wk (s.fac c0)) := by simp [weakrefOne, hd]
    rw [h1, ih _ (by simpa [setFac] using hd)]
    simp only [setFac]
    congr 1
    funext c
    simp only [upd, List.mem_cons]
    by_cases hc : c = c0
    · subst hc; simp [wk_wk]
    · simp [hc]

theorem foldl_weakrefOne_off (cs : List Cls) (s : State) (hd : s.cfg.doCache = false) : cs.foldl weakrefOne s = s := by
  induction cs with
  | nil => rfl
  | cons c cs ih => simp only [List.foldl_cons]; rw [show weakrefOne s c = s by simp [weakrefOne, hd]]; exact ih

/-- over the classes that have a factory, the per-class `expireAll`s add up to the model's `weakrefAll` -/
theorem foldl_weakrefOne_eq (cs : List Cls) (s : State) (hwf : ∀ c, c ∉ cs → s.fac c = emptyFactory) :
    cs.foldl weakrefOne s = weakrefAll s := by
  cases hd : s.cfg.doCache with
  | false => rw [foldl_weakrefOne_off cs s hd]; simp [weakrefAll, hd]
  | true =>
    rw [foldl_weakrefOne_fac cs s hd]
    simp only [weakrefAll, hd, if_true]
    congr 1
    funext c
    by_cases hc : c ∈ cs
    · simp [hc, wk]
    · simp [hc, hwf c hc, emptyFactory, asetAll]

theorem toList_ofList (l : List Val) : Val.toList (Val.ofList l) = some l := by
  induction l with
  | nil => rfl
  | cons x xs ih => simp [Val.ofList, Val.toList, ih]

theorem csIface_self : csIface.self = VcacheSet := rfl
theorem csIface_attr_caches (w : GW) : csIface.attrOf w VcacheSet ["caches"] = .ok Vcaches := by
  simp [csIface, VcacheSet, Vcaches]
theorem csIface_attr_name (w : GW) (c : Cls) : csIface.attrOf w (.cls c) ["__name__"] = .ok (.name c) := by
  simp [csIface]
theorem csIface_values (w : GW) : csIface.values w Vcaches = some (w.made.map fun c => Val.ref "factory" c) := by
  simp [csIface, Vcaches]
theorem csIface_contains (w : GW) (c : Cls) : csIface.contains w Vcaches (.name c) = some (decide (c ∈ w.made)) := by
  simp [csIface, Vcaches]
theorem csIface_subscript (w : GW) (c : Cls) :
    csIface.subscript w Vcaches (.name c) = if c ∈ w.made then .ok (.ref "factory" c) else .exc .keyError := by
  simp [csIface, Vcaches]
theorem csIface_call_factory (w : GW) (c : Cls) (m : String) (as : List Val) :
    csIface.call w (.ref "factory" c) m as [] = facCall w c m as := by
  simp [csIface]

macro "crun" : tactic => `(tactic|
  simp [PyGet.run, Block.exec, Stmt.exec, Cond.eval, Expr.eval, evalList, evalOpt, eval2, afterCall, St.setVar, St.setOpt,
        St.setAll, Env.get, Res.toCall, pyBool, zipKw, Val.isNone, ExcPat.catches,
        csIface_self, csIface_attr_caches, csIface_attr_name, csIface_values, csIface_contains, csIface_subscript,
        csIface_call_factory, padNone, toList_ofList, *])

/-- `CacheSet.weakrefAll()` (all classes) = the model's `weakrefAll` -/
theorem csWeakrefAll_all (w : GW) (hwf : w.WF) (hl : ∀ c, w.lock c = false) (hr : NoRel w.s) :
    csCall w "weakrefAll" [] = .ret { w with s := weakrefAll w.s } .none := by
  unfold csCall csWeakrefAllProg csWeakrefAll_nlocals
  have h := loop_unit "expireAll" w.made w none
  rw [facFold_expireAll w.made w hl hr] at h
  obtain ⟨v1', h⟩ := h
  rw [← show csWeakrefAll_loop0 = Block.cons (.call none (.var 1) "expireAll" [] [] []) .nil from rfl] at h
  simp only [St.setVar] at h
  crun
  simp [foldl_weakrefOne_eq w.made w.s (fun c hc => (hwf c hc).1)]

/-- `CacheSet.weakrefAll(cls)`: that class's factory only; nothing for a class without one -/
theorem csWeakrefAll_cls (w : GW) (c : Cls) (hl : w.lock c = false)
    (hrel : ∀ e ∈ (w.s.fac c).strong, relOf w.s e.2 = false) :
    csCall w "weakrefAll" [.cls c] =
      .ret (if c ∈ w.made then { w with s := weakrefOne w.s c } else w) .none := by
  unfold csCall csWeakrefAllProg csWeakrefAll_nlocals
  have key := facExpireAll_eq w c hl hrel
  by_cases hc : c ∈ w.made <;> crun

/-- the value a finished `facFold` leaves: `None` -/
def CallRes.unit {W : Type} : CallRes W → CallRes W
  | .ret w _ => .ret w .none
  | r => r

/-- `CacheSet.clear()` (all classes) = `CacheFactory.clear()` of every factory, in dict order;
    `C04_translated_clear_spec` says what each of them does -/
theorem csClear_all (w : GW) : csCall w "clear" [] = CallRes.unit (facFold "clear" w.made w) := by
  unfold csCall csClearProg csClear_nlocals
  have h := loop_unit "clear" w.made w none
  rw [← show csClear_loop0 = Block.cons (.call none (.var 1) "clear" [] [] []) .nil from rfl] at h
  simp only [St.setVar] at h
  cases hf : facFold "clear" w.made w with
  | ret w' v => rw [hf] at h; obtain ⟨v1', h⟩ := h; crun; rfl
  | exc w' e => rw [hf] at h; obtain ⟨v1', h⟩ := h; crun; rfl
  | stuck => rw [hf] at h; simp only at h; crun; rfl

theorem csClear_cls (w : GW) (c : Cls) :
    csCall w "clear" [.cls c] = if c ∈ w.made then CallRes.unit (facCall w c "clear" []) else .ret w .none := by
  unfold csCall csClearProg csClear_nlocals
  by_cases hc : c ∈ w.made
  · crun
    cases facCall w c "clear" [] <;> rfl
  · crun

/-- `CacheSet.allIDs(cls)` as it is written: the factory's `allIDs()` is called but its result is DROPPED (there is no
    `return`): `None` for a class that has a factory, `[]` for one that has none -/
theorem csAllIDs_eq (w : GW) (c : Cls) :
    csCall w "allIDs" [.cls c] = .ret w (if c ∈ w.made then .none else .nil) := by
  unfold csCall csAllIDsProg csAllIDs_nlocals
  have key := facAllIDs_eq w c
  by_cases hc : c ∈ w.made <;> crun

/-- `CacheSet.allSubCaches()`: the factories, in dict order -/
theorem csAllSubCaches_eq (w : GW) :
    csCall w "allSubCaches" [] = .ret w (Val.ofList (w.made.map fun c => Val.ref "factory" c)) := by
  unfold csCall csAllSubCachesProg csAllSubCaches_nlocals
  crun

/-- `CacheSet.allSubCachesByClassNames()`: the `caches` dict itself (keys: the class names `made`, values: the factories) -/
theorem csAllSubCachesByClassNames_eq (w : GW) :
    csCall w "allSubCachesByClassNames" [] = .ret w Vcaches := by
  unfold csCall csAllSubCachesByClassNamesProg csAllSubCachesByClassNames_nlocals
  crun

theorem loop_getAll (cs : List Cls) (w : GW) (acc : List Val) (v2 v3 v4 : Option Val) :
    ∃ v2' v3', PyGet.forLoop (fun st v => csGetAll_loop0.exec csIface (st.setVar 2 v))
        (cs.map (fun c => Val.ref "factory" c)) ⟨w, [some .none, some (Val.ofList acc), v2, v3, v4]⟩ =
      .norm ⟨w, [some .none, some (Val.ofList (acc ++ (cs.flatMap (facObjs w)).map Val.obj)), v2', v3', v4]⟩ := by
  induction cs generalizing acc v2 v3 with
  | nil => exact ⟨v2, v3, by simp [PyGet.forLoop]⟩
  | cons c cs ih =>
    have key := facGetAll_eq w c
    have hb : csGetAll_loop0.exec csIface (St.setVar ⟨w, [some .none, some (Val.ofList acc), v2, v3, v4]⟩ 2 (Val.ref "factory" c)) =
        .norm ⟨w, [some .none, some (Val.ofList (acc ++ (facObjs w c).map Val.obj)), some (Val.ref "factory" c),
          some (Val.ofList ((facObjs w c).map Val.obj)), v4]⟩ := by
      unfold csGetAll_loop0
      crun
    simp only [List.map_cons, PyGet.forLoop, hb]
    obtain ⟨a, b, h⟩ := ih (acc ++ (facObjs w c).map Val.obj) (some (Val.ref "factory" c)) (some (Val.ofList ((facObjs w c).map Val.obj)))
    exact ⟨a, b, by rw [h]; simp [List.flatMap_cons, List.append_assoc]⟩

/-- `CacheSet.getAll()`: the instances every factory lists, in dict order; nothing changes -/
theorem csGetAll_all (w : GW) :
    csCall w "getAll" [] = .ret w (Val.ofList ((w.made.flatMap (facObjs w)).map Val.obj)) := by
  unfold csCall csGetAllProg csGetAll_nlocals
  obtain ⟨a, b, h⟩ := loop_getAll w.made w [] none none none
  simp only [St.setVar, Val.ofList, List.nil_append] at h
  crun

theorem csGetAll_cls (w : GW) (c : Cls) :
    csCall w "getAll" [.cls c] = .ret w (if c ∈ w.made then Val.ofList ((facObjs w c).map Val.obj) else .nil) := by
  unfold csCall csGetAllProg csGetAll_nlocals
  have key := facGetAll_eq w c
  by_cases hc : c ∈ w.made <;> crun

end SqlObjVerif.Cache
