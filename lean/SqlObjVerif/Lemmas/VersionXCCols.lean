import SqlObjVerif.Lemmas.VersionXC
/-!
The translated `getColumns` calling itself along `parentClass` = the hand-written `versionCols`, world unchanged.
-/
namespace SqlObjVerif.VersionC
open SqlObjVerif.PyVer
open SqlObjVerif.PyVer.Extracted

/-- the loop `for column, defi in cls.sqlmeta.columnDefinitions.items():` -/
theorem getColumns_loop (X : CX) (C : Calls) (w : CW) (c : Nat) :
    ∀ (ds : List ColDef) (j : Nat) (cols : Val) (o2 o3 o4 o5 o6 : Option Val),
      ∃ o2' o3' o4' o5' o6',
        forLoop (pairBody fun st p q => Block.exec (xcIface X C .none) ((st.setVar 2 p).setVar 3 q) getColumns_loop0)
          (defItems c j ds) { w := w, vars := [some (.dictv cols), some (.cls c), o2, o3, o4, o5, o6] }
        = .norm { w := w, vars := [some (.dictv (colSteps w c j ds cols)), some (.cls c), o2', o3', o4', o5', o6'] } := by
  intro ds
  induction ds with
  | nil => intro j cols o2 o3 o4 o5 o6; exact ⟨o2, o3, o4, o5, o6, rfl⟩
  | cons d ds ih =>
    intro j cols o2 o3 o4 o5 o6
    obtain ⟨a, b, e, f, g, h⟩ := ih (j + 1) (colStep w c cols j d) (some (.str (colKey d))) (some (defObj c j d))
      (some (.dictv (stripKw (w.kw c j)))) (some (.str "unique")) (some (newcol d.klass [] (stripKw (w.kw c j))))
    refine ⟨a, b, e, f, g, ?_⟩
    simp only [defItems, forLoop, pairBody, getColumns_step, colSteps]
    exact h

/-- **`getColumns` as translated**, calling itself along `parentClass`: the dict passed in comes back with one entry per
    column definition of the class and of its ancestors, and NOTHING in the world changes — in particular not the
    `_kw` dicts of the master's own column definitions -/
theorem getColumnsN_eq (X : CX) (w : CW) : ∀ (n c : Nat) (cols : Val), depthOK X n c →
    getColumnsN X n w (.dictv cols) (.cls c) = .ret w .none [.dictv (versionCols X w n c cols), .cls c] := by
  intro n
  induction n with
  | zero => intro c cols h; exact absurd h (by simp [depthOK])
  | succ n ih =>
    intro c cols h
    obtain ⟨a, b, e, f, g, hL⟩ := getColumns_loop X ⟨getColumnsN X n⟩ w c (X.defs c) 0 cols none none none none none
    simp only [St.setVar] at hL
    simp only [getColumnsN, getColumnsX, getColumnsProg, getColumns_nlocals]
    cases hp : X.parent c with
    | none =>
      vcwith [classOpt, versionCols, iterOf_ofList]
    | some p =>
      have hd : depthOK X n p := by simpa [depthOK, hp] using h
      have hr := ih p (colSteps w c 0 (X.defs c) cols) hd
      vcwith [classOpt, versionCols, writeBack, iterOf_ofList]

end SqlObjVerif.VersionC
