import SqlObjVerif.Lemmas.DdlXTypeA
/-!
# C14 translation — ForeignKey: key type, the per-dialect column clause, the ALTER TABLE reference constraints
-/
namespace SqlObjVerif.DdlX
open SqlObjVerif.Ddl
open SqlObjVerif.PyDdl hiding Str isUpperC
open SqlObjVerif.PyDdl.Extracted

abbrev fkCol (name : Str) (dbn : Option Str) (tT tI : Str) (tS : Bool) (cas : Cascade) (nn : Bool) (uq : Option Bool)
    (alt : Bool) (ds : Option Str) : Col := ⟨name, dbn, .fk tT tI tS cas, nn, uq, alt, ds⟩

@[simp] theorem attrOf_otherV_sqlmeta (I : Iface) (tT tI : Str) (tS : Bool) :
    attrOf I (otherV tT tI tS) "sqlmeta" =
      .ok (.obj C_SQLObject [("table", .str tT), ("idName", .str tI), ("idType", idTypeV tS)]) := rfl

@[simp] theorem attrOf_ownerV_sqlmeta (I : Iface) (tb : Str) :
    attrOf I (ownerV tb) "sqlmeta" = .ok (.obj C_SQLObject [("table", .str tb), ("registry", .none)]) := rfl

@[simp] theorem IX_classAttr_key_type :
    IX.classAttr C_SOForeignKey "key_type" =
      some (.dict [(.ty "int", .str (TX.keyType .sqlite false)), (.ty "str", .str (TX.keyType .sqlite true))]) := by
  rfl

macro "fkeval" : tactic =>
  `(tactic| pyxc [extX, findClassX, tyM, csM, csArgs, connDuring, idTypeV, attrRes, keyOf, typePieces, cascadeV,
      Ddl.Extracted.tables, Ddl.Extracted.keyType, Ddl.Extracted.fkAction, joinStr, handle])

/-- `SOKeyCol._<dialect>Type` of a foreign key: the type of the target's id column -/
theorem fk_type (n : Nat) (T : Tables) (st : Style) (tb : Str) (c0 : Val) (tT tI : Str) (tS : Bool) (cas : Cascade)
    (d : Dialect)
    (name : Str) (dbn : Option Str) (nn : Bool) (uq : Option Bool) (alt : Bool) (ds : Option Str) :
    callN prog ddlI (n + 3) (.meth C_SOForeignKey (tyM d))
        [colV T st tb c0 (fkCol name dbn tT tI tS cas nn uq alt ds)] = .ok (.str (TX.keyType d tS)) := by
  cases d <;> cases tS <;> fkeval

/-- the column clause `SOKeyCol.<dialect>CreateSQL(self)` renders for a foreign key -/
theorem fk_inner (n : Nat) (T : Tables) (st : Style) (tb : Str) (c0 : Val) (tT tI : Str) (tS : Bool) (cas : Cascade)
    (d : Dialect) (c : Caps) (callee : Callee) (hr : prog.resolve callee = some (csFn d))
    (name : Str) (dbn : Option Str) (nn : Bool) (uq : Option Bool) (alt : Bool) (ds : Option Str) :
    callN prog ddlI (n + 4) callee (colV T st tb c0 (fkCol name dbn tT tI tS cas nn uq alt ds) :: csArgs d c) =
      .ok (.str ((fkCol name dbn tT tI tS cas nn uq alt ds).db st ++
        spaced (TX.keyType d tS :: extraPieces TX (fkCol name dbn tT tI tS cas nn uq alt ds)))) :=
  createSQL_generic (n + 2) T st tb c0 _ d c _ callee hr (by intro _; rw [show clsOf _ = C_SOForeignKey from rfl, mro_SOForeignKey]; decide)
    (fk_type n T st tb _ tT tI tS cas d name dbn nn uq alt ds)

macro "fkceval" : tactic =>
  `(tactic| simp [pyddl, callX_succ, Fn.run, Fn.args, Block.exec, Stmt.exec, Expr.eval, Exprs.eval, Res.seq_norm,
      appendOf, setAttrOf, selfCls, pyFmt, fmtPos, fmtNamed, hasNamed, aget, commonFields,
      -res_direct_SOKeyCol_sqliteCreateSQL, -res_direct_SOKeyCol_mysqlCreateSQL, -res_direct_SOKeyCol_postgresCreateSQL,
      -res_direct_SOKeyCol_sybaseCreateSQL, -res_direct_SOKeyCol_mssqlCreateSQL, -res_SOForeignKey__extraSQL,
      extX, findClassX, tyM, csM, csArgs, connDuring, idTypeV, attrRes, keyOf, cascadeV,
      colText, colPieces, typePieces, typePieces.sfxExists, maxdbFkTail, maxdbFkPieces, kwCONSTRAINT, kwREFERENCES,
      kwFOREIGN, kwKEY, joinStr_blank, spaced_cons, spaced_append, strList,
      Ddl.Extracted.tables, Ddl.Extracted.keyType, Ddl.Extracted.fkAction, joinStr, handle, *])

set_option maxHeartbeats 2000000 in
/-- `SOForeignKey.<dialect>CreateSQL` (translated) = `colText` of the hand model -/
theorem fk_createSQL (n : Nat) (T : Tables) (st : Style) (tb : Str) (c0 : Val) (tT tI : Str) (tS : Bool) (cas : Cascade)
    (d : Dialect) (c : Caps)
    (name : Str) (dbn : Option Str) (nn : Bool) (uq : Option Bool) (alt : Bool) (ds : Option Str) :
    callN prog ddlI (n + 5) (.meth C_SOForeignKey (csM d))
        (colV T st tb c0 (fkCol name dbn tT tI tS cas nn uq alt ds) :: csArgs d c) =
      resS (colText TX d c st (fkCol name dbn tT tI tS cas nn uq alt ds)) := by
  have hin := fun callee hr => fk_inner n T st tb c0 tT tI tS cas d c callee hr name dbn nn uq alt ds
  have hx : ∀ c0, callN prog ddlI (n + 4) (.meth C_SOForeignKey M__extraSQL)
      [colV T st tb c0 (fkCol name dbn tT tI tS cas nn uq alt ds)] =
      .ok (strList (extraPieces TX (fkCol name dbn tT tI tS cas nn uq alt ds))) :=
    fun c0 => extraSQL_call (n + 3) T st tb c0 (fkCol name dbn tT tI tS cas nn uq alt ds) rfl
  cases d
  case firebird =>
    have h := fk_inner (n + 1) T st tb c0 tT tI tS cas .firebird c (.meth C_SOForeignKey M_firebirdCreateSQL) rfl
      name dbn nn uq alt ds
    rw [show csM .firebird = M_firebirdCreateSQL from rfl, h]
    fkceval
  case sqlite =>
    have h := hin (.direct C_SOKeyCol M_sqliteCreateSQL) rfl
    simp only [csArgs] at h
    cases cas <;> fkceval <;> rfl
  case mysql =>
    have h := hin (.direct C_SOKeyCol M_mysqlCreateSQL) rfl
    simp only [csArgs] at h
    fkceval
  case postgres =>
    have h := hin (.direct C_SOKeyCol M_postgresCreateSQL) rfl
    simp only [csArgs] at h
    fkceval
  case sybase =>
    have h := hin (.direct C_SOKeyCol M_sybaseCreateSQL) rfl
    simp only [csArgs] at h
    fkceval
    rfl
  case mssql =>
    have h := hin (.direct C_SOKeyCol M_mssqlCreateSQL) rfl
    simp only [csArgs] at h
    fkceval
    rfl
  case maxdb =>
    cases tS <;> fkceval <;> rfl

end SqlObjVerif.DdlX
