import SqlObjVerif.Lemmas.EvMainXChainInit
import SqlObjVerif.Model.EvChainX
/-!
C19 translator tie, part 15: the PyInherit translation of `InheritableSQLObject._create` run over the PyEv world
(`inhIface`): for the root class it is `SQLObject._create`; for a child class it constructs the parent instance (a nested
`__init__`) and then runs `SQLObject._create` under the parent's id.
-/
namespace SqlObjVerif.Events
open SqlObjVerif.PyEv (World Obj Thunk Outcome PV PDict kwPV)
open SqlObjVerif.PyInh (Iface Stmt Block Cond Expr Exprs St Res CallRes Env)
open SqlObjVerif.PyInh.Extracted

section
variable (fuel : Nat) (cls : Nat → Cfg)

@[simp] theorem inhIface_self (L : Nat) (init) : (inhIface fuel cls L init).self = .inst 0 L 0 := rfl
@[simp] theorem inhIface_attrOf (L : Nat) (init) : (inhIface fuel cls L init).attrOf = inhAttrOf L := rfl
@[simp] theorem inhIface_global (L : Nat) (init) (n : String) :
    (inhIface fuel cls L init).global n = if n = "sqlbuilder.NoDefault" then some (.ref 3 0) else none := rfl
@[simp] theorem inhIface_callFn (L : Nat) (init) : (inhIface fuel cls L init).callFn = inhCallFn cls init := rfl
@[simp] theorem inhIface_super (L : Nat) (init) : (inhIface fuel cls L init).super = inhSuper fuel := rfl
@[simp] theorem inhIface_setAttrOf (L : Nat) (init) (w : CW) (a b i : Nat) :
    (inhIface fuel cls L init).setAttrOf w (.inst 0 L 0) ["_parent"] (.inst a b i) = some (w.1, some i) := rfl

theorem toList_ofList (l : List IVal) : PyInh.Val.toList (PyInh.Val.ofList l) = some l := by
  induction l with
  | nil => rfl
  | cons a l ih => simp [PyInh.Val.ofList, PyInh.Val.toList, ih]

/-- the `_default is NoDefault` loop of the inheritable `_create`: every column has a default -/
theorem collist_loop (I : Iface CW) (hattr : ∀ w k, I.attrOf w (.ref 1 k) ["_default"] = .ok (.ref 2 k))
    (hglob : I.global "sqlbuilder.NoDefault" = some (.ref 3 0)) (cur : Option PyInh.Exc) :
    ∀ (ks : List Nat) (st : St CW), 7 < st.vars.length →
      PyInh.forLoop (fun st a => Block.exec I cur { w := st.w, vars := List.set st.vars 7 (some a) } create_loop1) (ks.map (PyInh.Val.ref 1)) st
        = .norm { st with vars := ks.foldl (fun vs k => vs.set 7 (some (PyInh.Val.ref 1 k))) st.vars } := by
  intro ks
  induction ks with
  | nil => intro st _; rfl
  | cons k ks ih =>
    intro st hlen
    have hstep : Block.exec I cur { w := st.w, vars := List.set st.vars 7 (some (.ref 1 k)) } create_loop1
        = .norm { w := st.w, vars := List.set st.vars 7 (some (.ref 1 k)) } := by
      simp [create_loop1, Block.exec, Stmt.exec, Cond.eval, Expr.eval, PyInh.eval2, PyInh.Env.get, hattr, hglob, hlen]
    simp only [List.map_cons, PyInh.forLoop, hstep]
    rw [ih _ (by simpa using hlen)]
    simp


macro "inhrun" "[" args:Lean.Parser.Tactic.simpLemma,* "]" : tactic => `(tactic|
  simp [PyInh.run, Block.exec, Stmt.exec, Cond.eval, Expr.eval, Exprs.eval, PyInh.eval2, PyInh.evalArgs, PyInh.evalStar,
        PyInh.Env.get, PyInh.St.setVar, PyInh.St.setOpt, PyInh.afterCall, PyInh.Res.toCall, PyInh.zipKw, PyInh.ExcPat.catches,
        PyInh.Val.isNone, PyInh.isListVal, PyInh.vdHas, PyInh.vdGet, PyInh.vdSet, inhAttrOf, inhCallFn, inhSuper, pvOfId, idOfPV,
        callOfOutcome, PyInh.Val.toList, PyInh.forLoop, $args,*])

@[simp] theorem pyBoolI_none : PyInh.pyBool .none = false := rfl
@[simp] theorem pyBoolI_cls (c : Nat) : PyInh.pyBool (.cls c) = true := rfl

/-- the root class: no parent, the inheritable `_create` is `SQLObject._create` -/
theorem inhCreate_root (w w2 : World) (hc : createX fuel w [.none] [] = .ret w2 .none) :
    inhCreateX fuel cls 0 none w [.none] [] = .ret w2 .none := by
  unfold inhCreateX
  simp only [idOfPV, createProg, create_nlocals]
  inhrun [hc]


theorem foldl_set7 (ks : List Nat) (a0 a1 a2 a3 a4 a5 a6 a7 a8 a9 : Option IVal) :
    ∃ v, ks.foldl (fun vs k => vs.set 7 (some (PyInh.Val.ref 1 k))) [a0, a1, a2, a3, a4, a5, a6, a7, a8, a9]
      = [a0, a1, a2, a3, a4, a5, a6, v, a8, a9] := by
  induction ks generalizing a7 with
  | nil => exact ⟨a7, rfl⟩
  | cons k ks ih => simpa [List.set] using ih (some (PyInh.Val.ref 1 k))

/-- a child class: the parent instance is constructed (nested `__init__`), then `SQLObject._create` under the parent's id -/
theorem inhCreate_child (L : Nat) (init : World → Outcome) (w wp w2 : World) (i : Nat)
    (hp : init { w with c := cls L, lvl := L, o := newObj } = .ret wp .none) (hid : wp.o.id = some i)
    (hc : createX fuel { wp with c := w.c, lvl := w.lvl, o := w.o } [.nat i] [] = .ret w2 .none) :
    inhCreateX fuel cls (L + 1) (some init) w [.none] [] = .ret w2 .none := by
  unfold inhCreateX
  simp only [idOfPV, createProg, create_nlocals]
  inhrun [toList_ofList]
  rw [collist_loop (inhIface fuel cls (L + 1) (some init)) (fun _ _ => rfl) rfl _ _ _ (by simp)]
  obtain ⟨v, hv⟩ := foldl_set7 (List.range w.c.ncols) (some PyInh.Val.none) (some PyInh.Val.nil) (some (PyInh.Val.cls L))
    (some PyInh.Val.nil) (some PyInh.Val.nil) none none none none none
  simp only [hv]
  inhrun [hp, hid, hc]

end
end SqlObjVerif.Events
