import SqlObjVerif.Lemmas.DdlXTypeA
/-!
# C14 translation — the `_<dialect>Type` methods of StringCol / UnicodeCol
-/
namespace SqlObjVerif.DdlX
open SqlObjVerif.Ddl
open SqlObjVerif.PyDdl hiding Str isUpperC
open SqlObjVerif.PyDdl.Extracted

set_option maxHeartbeats 2000000 in
theorem str_type_len (n : Nat) (T : Tables) (st : Style) (tb : Str) (c0 : Val) (un : Bool) (len : Nat) (v : Option Bool)
    (d : Dialect) (c : Caps)
    (name : Str) (dbn : Option Str) (nn : Bool) (uq : Option Bool) (alt : Bool) (ds : Option Str) (db : Str)
    (hl : ¬ len = 0) :
    callN prog ddlI (n + 4) (.meth (clsOf (.str un len v)) (tyM d))
        [colV T st tb (connDuring d c c0) ⟨name, dbn, .str un len v, nn, uq, alt, ds⟩] =
      tyRes (typePieces TX d c db (.str un len v)) := by
  obtain ⟨vc, hvc⟩ : ∃ vc, varcharEff len v true = vc := ⟨_, rfl⟩
  obtain ⟨mi, mx⟩ := c
  have h1 : ((len : Int) != 0) = true := by simp; omega
  cases vc <;> cases d <;> cases un <;>
    pyxc [tyM, connDuring, typePieces, strType, strSqlType, Ddl.Extracted.tables, joinStr, handle, wordParen]

end SqlObjVerif.DdlX
